import Q1t.Proofs.LatexNoPanic
/-!
C13 / C18 — the loop records of the export state: every emitter other than `start_loop` / `end_loop`
leaves `loops` and `open_loops` alone and never removes a column; a loop of three or more iterations
whose body holds no other such loop records one brace whose start is not left of any earlier brace.
Consequence: the header line of `code` is computed without `usize` underflow.

The part between the two marker comments is the composition skeleton of `LatexShape.lean` (same case
analysis) with `LK` in place of `Keeps` (regenerate it when LatexShape changes).
-/
namespace Q1t.Proofs.Latex
open Q1t.Latex Q1t.Spec.QcGrid

structure LK (s s' : St) : Prop where
  len : s.rcols.length ≤ s'.rcols.length
  loops : s'.loops = s.loops
  oloops : s'.openLoops = s.openLoops

theorem LK.refl (s : St) : LK s s := ⟨Nat.le_refl _, rfl, rfl⟩

theorem LK.trans {a b c : St} (h1 : LK a b) (h2 : LK b c) : LK a c :=
  ⟨Nat.le_trans h1.len h2.len, h2.loops.trans h1.loops, h2.oloops.trans h1.oloops⟩

theorem lk_addColumn (s : St) : LK s (addColumn s) := ⟨by simp [addColumn], rfl, rfl⟩

/-- Same argument list as `keeps_of_fields`. -/
theorem lk_of_fields {s s' : St} (_hq : s'.nq = s.nq) (_hc : s'.nc = s.nc) (hr : s'.rcols = s.rcols)
    (_hi : s'.inUse = s.inUse) (hl : s'.loops = s.loops := by rfl) (ho : s'.openLoops = s.openLoops := by rfl) :
    LK s s' := ⟨by rw [hr]; exact Nat.le_refl _, hl, ho⟩

theorem lk_reserve {q c s s'} (h : reserve q c s = .ok s') : LK s s' := by
  unfold reserve at h
  obtain ⟨_, _, h⟩ := Res.bind_eq_ok.mp h
  obtain ⟨used, _, h⟩ := Res.bind_eq_ok.mp h
  injection h with h; subst h
  split
  · exact lk_addColumn s
  · exact LK.refl s

theorem lk_reserveAll (s : St) : LK s (reserveAll s) := by
  unfold reserveAll; split
  · exact lk_addColumn s
  · exact LK.refl s

theorem lk_startRangeOp {q c s s'} (h : startRangeOp q c s = .ok s') : LK s s' := by
  unfold startRangeOp at h
  obtain ⟨bits, _, h⟩ := Res.bind_eq_ok.mp h
  split at h
  · injection h with h; subst h; exact LK.refl s
  · dsimp only at h
    split at h
    · split at h
      · injection h with h; subst h
        split
        · exact (lk_addColumn s).trans ⟨Nat.le_refl _, rfl, rfl⟩
        · exact ⟨Nat.le_refl _, rfl, rfl⟩
      · cases h
    · split at h
      · injection h with h; subst h; exact ⟨Nat.le_refl _, rfl, rfl⟩
      · cases h

theorem lk_endRangeOp {s s'} (h : endRangeOp s = .ok s') : LK s s' := by
  unfold endRangeOp at h
  split at h
  · injection h with h; subst h; exact LK.refl s
  · split at h
    · injection h with h; subst h
      exact ⟨Nat.le_refl _, rfl, rfl⟩
    · cases h

theorem lk_setField {b y s s'} (h : setField b y s = .ok s') : LK s s' := by
  unfold setField at h
  obtain ⟨s1, h1, h⟩ := Res.bind_eq_ok.mp h
  have k1 : LK s s1 := by
    split at h1
    · exact lk_reserve h1
    · injection h1 with h1; subst h1; exact LK.refl s
  refine k1.trans ?_
  split at h
  · cases h
  · rename_i col rest hr
    split at h
    · injection h with h; subst h
      exact ⟨by rw [hr]; simp, rfl, rfl⟩
    · cases h

-- BEGIN generated from LatexShape.lean (Keeps -> LK)
/-- Sequencing. -/
theorem lk_bind {f : St → Res St} {g : St → Res St} {s s' : St}
    (hf : ∀ a b, f a = .ok b → LK a b) (hg : ∀ a b, g a = .ok b → LK a b)
    (h : (f s >>== g) = .ok s') : LK s s' := by
  obtain ⟨m, h1, h2⟩ := Res.bind_eq_ok.mp h
  exact (hf _ _ h1).trans (hg _ _ h2)

theorem lk_setMeasurement {q c b s s'} (h : setMeasurement q c b s = .ok s') : LK s s' := by
  unfold setMeasurement at h
  obtain ⟨s1, h1, h⟩ := Res.bind_eq_ok.mp h
  obtain ⟨s2, h2, h⟩ := Res.bind_eq_ok.mp h
  obtain ⟨s3, h3, h⟩ := Res.bind_eq_ok.mp h
  have e1 := (lk_startRangeOp h1)
  have e2 := lk_setField h2
  have e3 := lk_setField h3
  exact ((e1.trans e2).trans e3).trans (lk_endRangeOp h)

theorem lk_condLoop {t : Nat} {bp : List (Nat × Nat)} {p : Nat} {s s' : St}
    (h : condLoop t bp p s = .ok s') : LK s s' := by
  induction bp generalizing p s with
  | nil => simp [condLoop] at h; subst h; exact LK.refl s
  | cons x rest ih =>
    obtain ⟨bit, pos⟩ := x
    simp only [condLoop] at h
    split at h
    · cases h
    · obtain ⟨s1, h1, h⟩ := Res.bind_eq_ok.mp h
      exact (lk_setField h1).trans (ih h)

theorem lk_setCondition {ctl t q s s'} (h : setCondition ctl t q s = .ok s') : LK s s' := by
  unfold setCondition at h
  split at h
  · cases h
  · split at h
    · cases h
    · split at h
      · injection h with h; subst h; exact LK.refl s
      · exact lk_condLoop h

theorem lk_ghosts {d : String} {n b : Nat} {s s' : St} (h : ghosts d b n s = .ok s') : LK s s' := by
  induction n generalizing b s with
  | zero => simp [ghosts] at h; subst h; exact LK.refl s
  | succ n ih =>
    simp only [ghosts] at h
    obtain ⟨s1, h1, h⟩ := Res.bind_eq_ok.mp h
    exact (lk_setField h1).trans (ih h)

theorem lk_drawRange {f l d q s s'} (h : drawRange f l d q s = .ok s') : LK s s' := by
  unfold drawRange at h
  split at h
  · exact lk_setField h
  · obtain ⟨s1, h1, h⟩ := Res.bind_eq_ok.mp h
    exact (lk_setField h1).trans (lk_ghosts h)

theorem lk_blockRest {d : String} {rs : List (Nat × Nat)} {p : Nat} {s s' : St}
    (h : blockRest d rs p s = .ok s') : LK s s' := by
  induction rs generalizing p s with
  | nil => simp [blockRest] at h; subst h; exact LK.refl s
  | cons x rest ih =>
    obtain ⟨f, l⟩ := x
    simp only [blockRest] at h
    obtain ⟨s1, h1, h⟩ := Res.bind_eq_ok.mp h
    exact (lk_drawRange h1).trans (ih h)

theorem lk_addBlockGate {q d s s'} (h : addBlockGate q d s = .ok s') : LK s s' := by
  unfold addBlockGate at h
  split at h
  · cases h
  · injection h with h; subst h; exact LK.refl s
  · obtain ⟨s1, h1, h⟩ := Res.bind_eq_ok.mp h
    obtain ⟨s2, h2, h⟩ := Res.bind_eq_ok.mp h
    obtain ⟨s3, h3, h⟩ := Res.bind_eq_ok.mp h
    exact (((lk_startRangeOp h1).trans (lk_drawRange h2)).trans (lk_blockRest h3)).trans (lk_endRangeOp h)

theorem lk_addCds {b c l s s'} (h : addCds b c l s = .ok s') : LK s s' := by
  unfold addCds at h
  obtain ⟨s1, h1, h⟩ := Res.bind_eq_ok.mp h
  injection h with h; subst h
  exact ((lk_reserveAll s).trans (lk_setField h1)).trans (lk_reserveAll s1)

theorem lk_barrierLoop {rs : List (Nat × Nat)} {s s' : St} (h : barrierLoop rs s = .ok s') : LK s s' := by
  induction rs generalizing s with
  | nil => simp [barrierLoop] at h; subst h; exact LK.refl s
  | cons x rest ih =>
    obtain ⟨f, l⟩ := x
    simp only [barrierLoop] at h
    obtain ⟨s1, h1, h⟩ := Res.bind_eq_ok.mp h
    exact (lk_setField h1).trans (ih h)

theorem lk_setBarrier {q s s'} (h : setBarrier q s = .ok s') : LK s s' := by
  unfold setBarrier at h
  split at h
  · cases h
  · split at h
    · cases h; exact LK.refl s
    · split at h
      · cases h
      · exact (lk_addColumn s).trans (lk_barrierLoop h)

theorem lk_controlled (s : St) (b : Bool) : LK s { s with controlled := b } :=
  lk_of_fields rfl rfl rfl rfl

theorem lk_measureAllLoop {b : Option String} {cs : List Nat} {q : Nat} {s s' : St}
    (h : measureAllLoop b cs q s = .ok s') : LK s s' := by
  induction cs generalizing q s with
  | nil => simp [measureAllLoop] at h; subst h; exact LK.refl s
  | cons c rest ih =>
    simp only [measureAllLoop] at h
    obtain ⟨s1, h1, h⟩ := Res.bind_eq_ok.mp h
    exact (lk_setMeasurement h1).trans (ih h)

theorem lk_resetLoop {n q : Nat} {s s' : St} (h : resetLoop q n s = .ok s') : LK s s' := by
  induction n generalizing q s with
  | zero => simp [resetLoop] at h; subst h; exact LK.refl s
  | succ n ih =>
    simp only [resetLoop] at h
    obtain ⟨s1, h1, h⟩ := Res.bind_eq_ok.mp h
    exact (lk_setField h1).trans (ih h)

-- END generated

/-! ## Gates without a loop of three or more iterations -/

mutual
theorem lk_latex : ∀ (g : Gate) (bits : List Nat) (s s' : St), noBig g = true → latex g bits s = .ok s' → LK s s'
  | .box l n, bits, s, s', _, h => by
    simp only [latex] at h
    obtain ⟨_, _, h⟩ := Res.bind_eq_ok.mp h
    exact lk_addBlockGate h
  | .x, bits, s, s', _, h => by
    simp only [latex] at h
    obtain ⟨_, _, h⟩ := Res.bind_eq_ok.mp h
    split at h
    · exact lk_setField h
    · cases h
  | .z, bits, s, s', _, h => by
    simp only [latex] at h
    obtain ⟨_, _, h⟩ := Res.bind_eq_ok.mp h
    split at h
    · exact lk_setField h
    · cases h
  | .i, bits, s, s', _, h => by
    simp only [latex] at h
    obtain ⟨_, _, h⟩ := Res.bind_eq_ok.mp h
    split at h
    · exact lk_setField h
    · cases h
  | .swap, bits, s, s', _, h => by
    simp only [latex] at h
    obtain ⟨_, _, h⟩ := Res.bind_eq_ok.mp h
    split at h
    · obtain ⟨s1, h1, h⟩ := Res.bind_eq_ok.mp h
      obtain ⟨s2, h2, h⟩ := Res.bind_eq_ok.mp h
      obtain ⟨s3, h3, h⟩ := Res.bind_eq_ok.mp h
      exact (((lk_startRangeOp h1).trans (lk_setField h2)).trans (lk_setField h3)).trans (lk_endRangeOp h)
    · cases h
  | .c g, bits, s, s', hn, h => by
    simp only [noBig] at hn
    simp only [latex] at h
    obtain ⟨_, _, h⟩ := Res.bind_eq_ok.mp h
    obtain ⟨s1, h1, h⟩ := Res.bind_eq_ok.mp h
    have k1 := lk_startRangeOp h1
    split at h
    · cases h
    · cases h
    · obtain ⟨s2, h2, h⟩ := Res.bind_eq_ok.mp h
      obtain ⟨s3, h3, h⟩ := Res.bind_eq_ok.mp h
      have k2 : LK s1 s2 := by
        split at h2
        · exact lk_setField h2
        · split at h2
          · exact lk_setField h2
          · cases h2
      have k3 := lk_latex g _ _ _ hn h3
      exact (((k1.trans k2).trans (lk_controlled s2 true)).trans k3).trans
        ((lk_controlled s3 _).trans (lk_endRangeOp h))
  | .kron a b, bits, s, s', hn, h => by
    simp only [noBig, Bool.and_eq_true] at hn
    simp only [latex] at h
    obtain ⟨_, _, h⟩ := Res.bind_eq_ok.mp h
    obtain ⟨s1, h1, h⟩ := Res.bind_eq_ok.mp h
    exact (lk_latex a _ _ _ hn.1 h1).trans (lk_latex b _ _ _ hn.2 h)
  | .comp name n ops, bits, s, s', hn, h => by
    simp only [noBig] at hn
    simp only [latex] at h
    obtain ⟨_, _, h⟩ := Res.bind_eq_ok.mp h
    split at h
    · exact lk_latexSubs ops _ _ _ hn h
    · exact lk_addBlockGate h
  | .loop iters body, bits, s, s', hn, h => by
    simp only [noBig, Bool.and_eq_true, decide_eq_true_eq] at hn
    simp only [latex] at h
    obtain ⟨_, _, h⟩ := Res.bind_eq_ok.mp h
    split at h
    · injection h with h; subst h; exact LK.refl s
    · exact lk_latex body _ _ _ hn.2 h
    · obtain ⟨s1, h1, h⟩ := Res.bind_eq_ok.mp h
      exact (lk_latex body _ _ _ hn.2 h1).trans (lk_latex body _ _ _ hn.2 h)
    · rename_i hn0 hn1 hn2
      exfalso
      have := hn.1
      match iters, this with
      | 0, _ => exact hn0 rfl
      | 1, _ => exact hn1 rfl
      | 2, _ => exact hn2 rfl
theorem lk_latexSubs : ∀ (ops : Subs) (bits : List Nat) (s s' : St), noBigSubs ops = true →
    latexSubs ops bits s = .ok s' → LK s s'
  | .nil, bits, s, s', _, h => by
    simp only [latexSubs] at h; injection h with h; subst h; exact LK.refl s
  | .cons g sb rest, bits, s, s', hn, h => by
    simp only [noBigSubs, Bool.and_eq_true] at hn
    simp only [latexSubs] at h
    split at h
    · cases h
    · obtain ⟨s1, h1, h⟩ := Res.bind_eq_ok.mp h
      exact (lk_latex g _ _ _ hn.1 h1).trans (lk_latexSubs rest _ _ _ hn.2 h)
end

/-! ## The invariant of the loop records -/

structure LoopInv (s : St) : Prop where
  closed : s.openLoops = []
  bound : ∀ l ∈ s.loops, l.1 < s.rcols.length
  sorted : (s.loops.map (·.1)).Pairwise (· ≤ ·)

theorem loopInv_new (nq nc : Nat) : LoopInv (St.new nq nc) :=
  ⟨rfl, by intro l h; simp [St.new] at h, by simp [St.new]⟩

theorem LoopInv.of_lk {s s' : St} (h : LK s s') (hi : LoopInv s) : LoopInv s' :=
  ⟨by rw [h.oloops]; exact hi.closed,
   by rw [h.loops]; intro l hl; exact Nat.lt_of_lt_of_le (hi.bound l hl) h.len,
   by rw [h.loops]; exact hi.sorted⟩

/-- A loop of three or more iterations whose body leaves the loop records alone: one brace is
recorded, not left of any earlier one. -/
theorem bigLoop_loopInv {n : Nat} {s s1 s4 s' : St} (hi : LoopInv s) (h1 : startLoop n s = .ok s1)
    (hk : LK s1 s4) (h5 : endLoop s4 = .ok s') : LoopInv s' := by
  unfold startLoop at h1
  dsimp only at h1
  split at h1
  · cases h1
  · rename_i m hm
    injection h1 with h1; subst h1
    have hr := lk_reserveAll s
    have ho4 : s4.openLoops = [(m, n)] := by
      rw [hk.oloops]; show (m, n) :: (reserveAll s).openLoops = _; rw [hr.oloops, hi.closed]
    have hl4 : s4.loops = s.loops := by rw [hk.loops]; show (reserveAll s).loops = _; exact hr.loops
    have hlen4 : m + 1 ≤ s4.rcols.length := by
      have := hk.len; simp only at this; rw [hm] at this; exact this
    have hslen : s.rcols.length ≤ m + 1 := by have := hr.len; omega
    unfold endLoop at h5
    rw [ho4] at h5
    dsimp only at h5
    split at h5
    · cases h5
    · rename_i k hk4
      injection h5 with h5; subst h5
      have hr2 := lk_reserveAll { s4 with openLoops := [], loops := s4.loops ++ [(m, k, n)] }
      refine ⟨by rw [hr2.oloops], ?_, ?_⟩
      · rw [hr2.loops]
        intro l hl
        refine Nat.lt_of_lt_of_le ?_ hr2.len
        show l.1 < s4.rcols.length
        simp only [List.mem_append, List.mem_singleton] at hl
        rcases hl with hl | rfl
        · rw [hl4] at hl; have := hi.bound l hl; omega
        · simp only; omega
      · rw [hr2.loops]
        show (List.map (·.1) (s4.loops ++ [(m, k, n)])).Pairwise (· ≤ ·)
        rw [List.map_append, List.pairwise_append, hl4]
        refine ⟨hi.sorted, by simp, ?_⟩
        intro a ha b hb
        simp only [List.map_cons, List.map_nil, List.mem_singleton] at hb
        subst hb
        obtain ⟨l, hl, rfl⟩ := List.mem_map.mp ha
        have := hi.bound l hl
        omega

theorem simple_noBig : ∀ (g : Gate), simple g = true → noBig g = true
  | .box _ _, _ => rfl
  | .x, _ => rfl
  | .z, _ => rfl
  | .swap, _ => rfl
  | .c g, h => by simp only [noBig]; exact simple_noBig g (by simpa [simple] using h)
  | .i, h | .kron _ _, h | .comp _ _ _, h | .loop _ _, h => by simp [simple] at h

mutual
theorem latex_loopInv {nq : Nat} : ∀ (g : Gate) (bits : List Nat) (s s' : St), topOk g bits = true →
    gateSafe nq g bits = true → LoopInv s → latex g bits s = .ok s' → LoopInv s'
  | .box l n, bits, s, s', _, _, hi, h => hi.of_lk (lk_latex _ _ _ _ rfl h)
  | .x, bits, s, s', _, _, hi, h => hi.of_lk (lk_latex _ _ _ _ rfl h)
  | .z, bits, s, s', _, _, hi, h => hi.of_lk (lk_latex _ _ _ _ rfl h)
  | .i, bits, s, s', _, _, hi, h => hi.of_lk (lk_latex _ _ _ _ rfl h)
  | .swap, bits, s, s', _, _, hi, h => hi.of_lk (lk_latex _ _ _ _ rfl h)
  | .c g, bits, s, s', ht, _, hi, h => by
    simp only [topOk, Bool.and_eq_true, decide_eq_true_eq] at ht
    exact hi.of_lk (lk_latex _ _ _ _ (by simp only [noBig]; exact simple_noBig g ht.1.1) h)
  | .kron a b, bits, s, s', ht, hsf, hi, h => by
    simp only [topOk, Bool.and_eq_true] at ht
    simp only [gateSafe, Bool.and_eq_true] at hsf
    simp only [latex] at h
    obtain ⟨_, _, h⟩ := Res.bind_eq_ok.mp h
    obtain ⟨s1, h1, h⟩ := Res.bind_eq_ok.mp h
    exact latex_loopInv b _ s1 s' ht.2 hsf.2 (latex_loopInv a _ s s1 ht.1 hsf.1 hi h1) h
  | .comp name n ops, bits, s, s', ht, hsf, hi, h => by
    simp only [topOk] at ht
    simp only [gateSafe] at hsf
    simp only [latex] at h
    obtain ⟨_, _, h⟩ := Res.bind_eq_ok.mp h
    split at h
    · exact latexSubs_loopInv ops bits s s' ht hsf hi h
    · exact hi.of_lk (lk_addBlockGate h)
  | .loop iters body, bits, s, s', ht, hsf, hi, h => by
    simp only [topOk] at ht
    simp only [gateSafe, Bool.and_eq_true, Bool.or_eq_true, decide_eq_true_eq] at hsf
    have hb := latex_loopInv (nq := nq) body bits
    simp only [latex] at h
    obtain ⟨_, _, h⟩ := Res.bind_eq_ok.mp h
    split at h
    · injection h with h; subst h; exact hi
    · exact hb s s' ht hsf.1 hi h
    · obtain ⟨s1, h1, h⟩ := Res.bind_eq_ok.mp h
      exact hb s1 s' ht hsf.1 (hb s s1 ht hsf.1 hi h1) h
    · rename_i hn0 hn1 hn2
      have hbig : ¬ iters < 3 := by
        intro hlt
        match iters, hlt with
        | 0, _ => exact hn0 rfl
        | 1, _ => exact hn1 rfl
        | 2, _ => exact hn2 rfl
      rcases hsf.2 with hlt | hrest
      · exact absurd hlt hbig
      · have hnb : noBig body = true := hrest.2
        split at h
        · cases h
        · obtain ⟨s1, h1, h⟩ := Res.bind_eq_ok.mp h
          obtain ⟨s2, h2, h⟩ := Res.bind_eq_ok.mp h
          obtain ⟨s3, h3, h⟩ := Res.bind_eq_ok.mp h
          obtain ⟨s4, h4, h⟩ := Res.bind_eq_ok.mp h
          exact bigLoop_loopInv hi h1
            (((lk_latex body _ _ _ hnb h2).trans (lk_addCds h3)).trans (lk_latex body _ _ _ hnb h4)) h
theorem latexSubs_loopInv {nq : Nat} : ∀ (ops : Subs) (bits : List Nat) (s s' : St), topOkSubs ops bits = true →
    subsSafe nq ops bits = true → LoopInv s → latexSubs ops bits s = .ok s' → LoopInv s'
  | .nil, bits, s, s', _, _, hi, h => by
    simp only [latexSubs] at h; injection h with h; subst h; exact hi
  | .cons g sb rest, bits, s, s', ht, hsf, hi, h => by
    simp only [topOkSubs, Bool.and_eq_true] at ht
    simp only [subsSafe, Bool.and_eq_true] at hsf
    simp only [latexSubs] at h
    split at h
    · cases h
    · rename_i gb hgb
      rw [hgb] at ht hsf
      obtain ⟨s1, h1, h⟩ := Res.bind_eq_ok.mp h
      exact latexSubs_loopInv rest bits s1 s' ht.2 hsf.2 (latex_loopInv g gb s s1 ht.1 hsf.1 hi h1) h
end

theorem op_loopInv {nq : Nat} {op : Op} {s s' : St} (hop : opOk op = true) (hsf : opSafe nq op = true)
    (hi : LoopInv s) (h : opLatex nq op s = .ok s') : LoopInv s' := by
  cases op with
  | gate g bits => exact latex_loopInv g bits s s' hop hsf hi h
  | cond control target g bits =>
    simp only [opOk, condOk, Bool.and_eq_true, decide_eq_true_eq] at hop
    simp only [opLatex] at h
    obtain ⟨s1, h1, h⟩ := Res.bind_eq_ok.mp h
    obtain ⟨s2, h2, h⟩ := Res.bind_eq_ok.mp h
    obtain ⟨s3, h3, h⟩ := Res.bind_eq_ok.mp h
    exact hi.of_lk (((((lk_startRangeOp h1).trans (lk_controlled s1 true)).trans
      (lk_latex g _ _ _ (simple_noBig g hop.1.1.1) h2)).trans
      ((lk_controlled s2 _).trans (lk_setCondition h3))).trans (lk_endRangeOp h))
  | reset q => exact hi.of_lk (lk_setField h)
  | resetAll =>
    simp only [opLatex] at h
    obtain ⟨s1, h1, h⟩ := Res.bind_eq_ok.mp h
    obtain ⟨s2, h2, h⟩ := Res.bind_eq_ok.mp h
    exact hi.of_lk (((lk_startRangeOp h1).trans (lk_resetLoop h2)).trans (lk_endRangeOp h))
  | measure q c b => exact hi.of_lk (lk_setMeasurement h)
  | measureAll cbits b => exact hi.of_lk (lk_measureAllLoop h)
  | peek q c b => simp [opLatex] at h
  | peekAll cbits b => simp [opLatex] at h
  | barrier qbits => exact hi.of_lk (lk_setBarrier h)

theorem opsLatex_loopInv {nq : Nat} : ∀ (ops : List Op) (s s' : St),
    (∀ op ∈ ops, opOk op = true ∧ opSafe nq op = true) → LoopInv s → opsLatex nq ops s = .ok s' → LoopInv s'
  | [], s, s', _, hi, h => by simp [opsLatex] at h; subst h; exact hi
  | op :: rest, s, s', hop, hi, h => by
    simp only [opsLatex] at h
    obtain ⟨s1, h1, h⟩ := Res.bind_eq_ok.mp h
    obtain ⟨ho, hs⟩ := hop op (by simp)
    have i1 := op_loopInv ho hs hi h1
    exact opsLatex_loopInv rest { s1 with cur := s1.cur + 1 } s' (fun o ho' => hop o (by simp [ho']))
      (LoopInv.of_lk (lk_of_fields (s := s1) (s' := { s1 with cur := s1.cur + 1 }) rfl rfl rfl rfl) i1) h

/-! ## `code` does not panic -/

theorem headerText_some : ∀ (loops : List (Nat × Nat × Nat)) (prev : Nat), (∀ l ∈ loops, prev ≤ l.1) →
    (loops.map (·.1)).Pairwise (· ≤ ·) → ∃ t, headerText loops prev = some t
  | [], _, _, _ => ⟨"", rfl⟩
  | (start, stop, count) :: more, prev, hp, hs => by
    have h1 : ¬ start < prev := by have := hp (start, stop, count) (by simp); simp only at this; omega
    simp only [List.map_cons, List.pairwise_cons] at hs
    obtain ⟨t, ht⟩ := headerText_some more start
      (fun l hl => hs.1 l.1 (List.mem_map_of_mem hl)) hs.2
    refine ⟨rep (start - prev) "& " ++ braceText start stop count ++ t, ?_⟩
    simp only [headerText, if_neg h1, ht, Option.map_some]

theorem code_np {s : St} (hs : Shape s) (hi : LoopInv s) : code s ≠ .panic := by
  obtain ⟨t, ht⟩ := headerText_some s.loops 0 (fun _ _ => Nat.zero_le _) hi.sorted
  obtain ⟨g, hg, _⟩ := grid_shape s hs
  unfold code
  simp only [ht, hg, Option.map_some]
  split
  · rename_i h; split at h <;> cases h
  · exact ok_np _

/-- **The LaTeX exporter model never panics** on circuits of the proved class that avoid the known
panic classes. -/
theorem circuitLatex_np {c : Circ} (hop : ∀ op ∈ c.ops, opOk op = true ∧ opSafe c.nq op = true) :
    circuitLatex c ≠ .panic := by
  unfold circuitLatex
  refine bind_np (exportSt_np hop) (fun s h => ?_)
  exact code_np (exportSt_shape h).2.2 (opsLatex_loopInv c.ops _ s hop (loopInv_new _ _) h)

theorem circuitLatex_ok_or_err {c : Circ} (hop : ∀ op ∈ c.ops, opOk op = true ∧ opSafe c.nq op = true) :
    (∃ t, circuitLatex c = .ok t) ∨ (∃ e, circuitLatex c = .err e) := by
  have := circuitLatex_np hop
  cases h : circuitLatex c with
  | ok t => exact Or.inl ⟨t, rfl⟩
  | err e => exact Or.inr ⟨e, rfl⟩
  | panic => exact absurd h this

end Q1t.Proofs.Latex

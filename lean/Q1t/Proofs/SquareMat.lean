import Q1t.Proofs.LMatBridge
import Q1t.Spec.Square
set_option linter.unusedSimpArgs false
set_option linter.unusedSectionVars false
/-!
Matrix-level facts for C16: `ctrl`, the Kronecker product and powers are multiplicative; scalar
multiples.
-/
namespace Q1t.LMat
open Q1t.Spec Q1t.Gate
variable {α P : Type} [CommRing α]

/-- `ctrl (A·B) = ctrl A · ctrl B` -/
theorem ctrl_mul {g : Nat} {A B : LMat α} (hg : 0 < g) (hA : WF g g A) (hB : WF g g B) :
    ctrl (mul A B) = mul (ctrl A) (ctrl B) := by
  have hgg : 0 < g + g := by omega
  apply toM_inj (wf_ctrl (wf_mul hA hB hg)) (wf_mul (wf_ctrl hA) (wf_ctrl hB) hgg)
  rw [toM_mul (wf_ctrl hA) (wf_ctrl hB) hgg, toM_ctrl hA, toM_ctrl hB, toM_ctrl (wf_mul hA hB hg),
    toM_mul hA hB hg]
  simp only [Matrix.reindex_apply, Matrix.submatrix_mul_equiv, Matrix.fromBlocks_multiply]
  simp

/-- `(A·A') ⊗ (B·B') = (A ⊗ B)·(A' ⊗ B')` -/
theorem kronecker_mul {n m : Nat} {A A' B B' : LMat α} (hn : 0 < n) (hm : 0 < m)
    (hA : WF n n A) (hA' : WF n n A') (hB : WF m m B) (hB' : WF m m B') :
    kronecker (mul A A') (mul B B') = mul (kronecker A B) (kronecker A' B') := by
  have hnm : 0 < n * m := Nat.mul_pos hn hm
  apply toM_inj (wf_kronecker (wf_mul hA hA' hn) (wf_mul hB hB' hm) hn hm)
    (wf_mul (wf_kronecker hA hB hn hm) (wf_kronecker hA' hB' hn hm) hnm)
  rw [toM_mul (wf_kronecker hA hB hn hm) (wf_kronecker hA' hB' hn hm) hnm,
    toM_kronecker hA hB hn hm, toM_kronecker hA' hB' hn hm,
    toM_kronecker (wf_mul hA hA' hn) (wf_mul hB hB' hm) hn hm, toM_mul hA hA' hn, toM_mul hB hB' hm]
  simp only [Matrix.reindex_apply, Matrix.submatrix_mul_equiv, Matrix.mul_kronecker_mul]

/-- `M^(2k) = M^k · M^k` -/
theorem mpow_double {n : Nat} {A : LMat α} (hn : 0 < n) (hA : WF n n A) (k : Nat) :
    mpow A (2 * k) = mul (mpow A k) (mpow A k) := by
  have h1 := toM_mpow hn hA k
  have h2 := toM_mpow hn hA (2 * k)
  apply toM_inj h2.1 (wf_mul h1.1 h1.1 hn)
  rw [toM_mul h1.1 h1.1 hn, h1.2, h2.2, two_mul, pow_add]

theorem wf_scale {n m : Nat} (c : α) {M : LMat α} (hM : WF n m M) : WF n m (scale c M) := by
  constructor
  · simp [scale, hM.1]
  · intro r hr
    simp only [scale, List.mem_map] at hr
    obtain ⟨r', hr', rfl⟩ := hr
    simp [hM.2 r' hr']

theorem get_scale {n m : Nat} (c : α) {M : LMat α} (hM : WF n m M) {i j : Nat} (hi : i < n) (hj : j < m) :
    get (scale c M) i j = c * get M i j := by
  rw [get_eq_getElem (wf_scale c hM) hi hj, get_eq_getElem hM hi hj]
  simp [scale]

theorem scale_one (M : LMat α) : scale 1 M = M := by
  simp [scale]

/-- `(c·A) ⊗ (d·B) = (c·d)·(A ⊗ B)` -/
theorem kronecker_scale {n m : Nat} (c d : α) {A B : LMat α} (hn : 0 < n) (hm : 0 < m)
    (hA : WF n n A) (hB : WF m m B) :
    kronecker (scale c A) (scale d B) = scale (c * d) (kronecker A B) := by
  apply ext_get (wf_kronecker (wf_scale c hA) (wf_scale d hB) hn hm)
    (wf_scale _ (wf_kronecker hA hB hn hm))
  intro i hi j hj
  have h1 : i / m < n := Nat.div_lt_of_lt_mul (by rwa [Nat.mul_comm] at hi)
  have h2 : i % m < m := Nat.mod_lt _ hm
  have h3 : j / m < n := Nat.div_lt_of_lt_mul (by rwa [Nat.mul_comm] at hj)
  have h4 : j % m < m := Nat.mod_lt _ hm
  rw [get_kronecker (wf_scale c hA) (wf_scale d hB) hn hm hi hj,
    get_scale _ (wf_kronecker hA hB hn hm) hi hj, get_kronecker hA hB hn hm hi hj,
    get_scale c hA h1 h3, get_scale d hB h2 h4]
  ring

end Q1t.LMat

import Q1t.Proofs.SimStabAll
/-!
C02, stabilizer backend: `stab_shot_refinement` — relative to the tableau contract `TableauOK`, after any
successful run of `do_execute_with` on the stabilizer backend, every shot has an outcome record whose forced replay
has a candidate `φ` (non-zero weight) described by the shot's tableau (`St t φ`).  All operations except `peek_all`
(D5); `measure_all` with `n` distinct classical targets.
-/
set_option linter.unusedSectionVars false
namespace Q1t.Sim
open Q1t Q1t.Spec Prog Q1t.Tableau

section
variable {α P : Type} [CommRing α] [Amp α P] [SimAmp α]
variable {sb : Nat → α → Nat → Prop} {sc : List α → Nat → Prop}
variable {half : α} {ph : List Nat} {conjOf : GateTerm P → Tab.Conj}
variable {n : Nat} {valid : GateTerm P → List Nat → Prop} {nz : α → Prop} {St : Tab → List α → Prop}

/-- side conditions on an operation for the stabilizer statement: no `peek_all` (D5: the code samples the qubits
independently on the uncollapsed tableau); `measure_all` names `n` distinct classical bits (the stabilizer
`measure_all_into` does not check the length, and D14) -/
def StabOpOK (n : Nat) : COp P → Prop
  | .measureAll cbits _ => cbits.Nodup ∧ cbits.length = n
  | .peekAll _ _ => False
  | _ => True

theorem stab_execOp_refine (hT : TableauOK St n ph conjOf valid) (ha : LawfulAmp α P) (hs : LawfulSim α P nz)
    {nonzero : List α → Bool} (hnzb : NonzeroOK nonzero) {N : Nat} {s : StabState} {c : List Nat} {op : COp P}
    (hloc : op = .resetAll → LocalWeights α) (hop : OpValid valid op) (hok : StabOpOK n op) (hwf : WFT n N s c)
    {ds ds' : List Draw} {s' : StabState} {c' : List Nat}
    (h : Runs sb sc (execOp (stabBackend half ph conjOf) s c op) ds (.ok (s', c')) ds') :
    WFT n N s' c' ∧ StabStepRefines St n nonzero op s c s' c' := by
  cases op with
  | gate g bits => exact stab_refine_gate hT hop hwf h
  | cond control target g bits => exact stab_refine_cond hT hop hwf h
  | reset q => exact stab_refine_reset hT hwf h
  | resetAll => exact stab_refine_resetAll hT ha hs (hloc rfl) hwf h
  | measure q cb b => exact stab_refine_measure hT hwf h
  | measureAll cbits b => exact stab_refine_measureAll hT hok.1 hok.2 hwf h
  | peek q cb b => exact stab_refine_peek hT ha hs hnzb hwf h
  | peekAll cbits b => exact absurd hok id
  | barrier bits => exact stab_refine_barrier hwf h

theorem stab_execOps_refine (hT : TableauOK St n ph conjOf valid) (ha : LawfulAmp α P) (hs : LawfulSim α P nz)
    {nonzero : List α → Bool} (hnzb : NonzeroOK nonzero) {N : Nat} :
    ∀ (ops : List (COp P)) (s : StabState) (c : List Nat), OpsValid valid ops → (∀ op ∈ ops, StabOpOK n op) →
    (COp.resetAll ∈ ops → LocalWeights α) → WFT n N s c →
    ∀ {ds ds' : List Draw} {s' : StabState} {c' : List Nat} {regs : List (List Nat)},
    RunsTrace (stabBackend half ph conjOf) sb sc s c ops ds regs s' c' ds' →
    WFT n N s' c' ∧
    ∀ (i : Nat) (t : Tab) (w : Nat) (ψ : List α) (cands : List (List α × Nat)),
      (shotTabs s)[i]? = some t → c[i]? = some w → w < 2 ^ 64 → St t ψ → (ψ, w) ∈ cands →
      ∃ outs t' w' φ, ShotRecord regs i outs ∧ (shotTabs s')[i]? = some t' ∧ c'[i]? = some w' ∧
        w' < 2 ^ 64 ∧ (φ, w') ∈ replay n nonzero ops outs cands ∧ St t' φ := by
  intro ops
  induction ops with
  | nil =>
    intro s c _ _ _ hwf ds ds' s' c' regs ht
    cases ht
    exact ⟨hwf, fun i t w ψ cands ht hw hwb hst hmem =>
      ⟨[], t, w, ψ, .nil, ht, hw, hwb, by simpa [replay] using hmem, hst⟩⟩
  | cons op rest ih =>
    intro s c hv hok hloc hwf ds ds' s' c' regs ht
    cases ht with
    | @cons _ _ _ _ _ s1 c1 d1 regs1 _ _ _ h1 ht1 =>
      obtain ⟨hwf1, hstep⟩ := stab_execOp_refine (nonzero := nonzero) hT ha hs hnzb
        (fun e => hloc (e ▸ List.mem_cons_self)) (hv op List.mem_cons_self) (hok op List.mem_cons_self) hwf h1
      obtain ⟨hwf', hrest⟩ := ih s1 c1 (fun o ho => hv o (List.mem_cons_of_mem _ ho))
        (fun o ho => hok o (List.mem_cons_of_mem _ ho)) (fun hm => hloc (List.mem_cons_of_mem _ hm)) hwf1 ht1
      refine ⟨hwf', fun i t w ψ cands hti hw hwb hst hmem => ?_⟩
      obtain ⟨t1, w1, φ1, e1, e2, e3, e4, e5⟩ := hstep i t w ψ hti hw hwb hst
      have hmem1 : (φ1, w1) ∈ ((cands.flatMap fun (ψw : List α × Nat) => replayOp n nonzero op ψw.1 ψw.2 w1).filter
          fun cd => nonzero cd.1) := by
        rw [List.mem_filter]
        exact ⟨List.mem_flatMap.mpr ⟨(ψ, w), hmem, e4⟩, hnzb φ1 (hT.weight t1 φ1 e5).2⟩
      obtain ⟨outs, t', w', φ, f1, f2, f3, f4, f5, f6⟩ := hrest i t1 w1 φ1 _ e1 e2 e3 e5 hmem1
      exact ⟨w1 :: outs, t', w', φ, .cons e2 f1, f2, f3, f4, by simpa [replay] using f5, f6⟩

theorem wft_new (n N : Nat) : WFT n N (StabState.new n N) (List.replicate N 0) :=
  ⟨rfl, by simp [StabState.new], rfl, rfl, by simp⟩

/-- **`stab_shot_refinement`** (stabilizer backend, relative to `TableauOK`) -/
theorem stab_shot_refinement (hT : TableauOK St n ph conjOf valid) (ha : LawfulAmp α P) (hs : LawfulSim α P nz)
    {nonzero : List α → Bool} (hnzb : NonzeroOK nonzero) {N : Nat} (ops : List (COp P))
    (hv : OpsValid valid ops) (hok : ∀ op ∈ ops, StabOpOK n op) (hloc : COp.resetAll ∈ ops → LocalWeights α)
    {ds ds' : List Draw} {s' : StabState} {c' : List Nat}
    (h : Runs sb sc (execOps (stabBackend half ph conjOf) (StabState.new n N) (List.replicate N 0) ops) ds
      (.ok (s', c')) ds') :
    (s'.counts.sum = N ∧ c'.length = N ∧ (shotTabs s').length = N) ∧
    ∃ regs, RunsTrace (stabBackend half ph conjOf) sb sc (StabState.new n N) (List.replicate N 0) ops ds regs s' c' ds' ∧
      ∀ i, i < N → ∃ outs t w φ, ShotRecord regs i outs ∧ (shotTabs s')[i]? = some t ∧ c'[i]? = some w ∧
        (φ, w) ∈ replay n nonzero ops outs [(ket0 n, 0)] ∧ St t φ ∧ ∃ u : α, normSqSum φ * u = 1 := by
  obtain ⟨regs, ht⟩ := (runs_execOps_iff_trace _ _ _ _ _ _ _).mp h
  obtain ⟨hwf, hall⟩ := stab_execOps_refine (nonzero := nonzero) hT ha hs hnzb ops _ _ hv hok hloc (wft_new n N) ht
  refine ⟨⟨hwf.sum, hwf.reg, shotTabs_length hwf⟩, regs, ht, fun i hi => ?_⟩
  obtain ⟨outs, t, w, φ, f1, f2, f3, _, f5, f6⟩ := hall i (Tab.new n) 0 (ket0 n) [(ket0 n, 0)]
    (by simp only [shotTabs, StabState.new, expand, List.append_nil]; rw [List.getElem?_replicate, if_pos hi])
    (by rw [List.getElem?_replicate, if_pos hi]) (by decide) hT.init (by simp)
  exact ⟨outs, t, w, φ, f1, f2, f3, f5, f6, (hT.weight t φ f6).2⟩

end
end Q1t.Sim

import Q1t.Proofs.CQasmCtrl
set_option linter.unusedSimpArgs false
set_option linter.unusedSectionVars false
/-!
C12: the assembled identity of the `CU3` template for ALL angles:
`rz t,(λ−φ)/2; cnot; rz t,−(φ+λ)/2; ry t,−θ/2; cnot; ry t,θ/2; rz t,φ; rz c,(φ+λ)/2 = e^{−i(φ+λ)/4} · (1 ⊕ U3(θ,φ,λ))`.
-/
namespace Q1t.Proofs.CQasm
open Q1t Q1t.Spec Q1t.OpenQasm Q1t.Proofs.Unitaries

variable {α P : Type} [CommRing α] [Amp α P]

/-- quarter angles of sums and negatives: `((x+y)/2)/2 = (x/2)/2 + (y/2)/2`, `((−x)/2)/2 = −((x/2)/2)` under cos and sin -/
structure LawfulQuarter (α P : Type) [CommRing α] [Amp α P] : Prop where
  cos_q_add : ∀ x y : P, (Amp.cos (Amp.phalf α (Amp.phalf α (Amp.padd α x y))) : α) =
    Amp.cos (Amp.padd α (Amp.phalf α (Amp.phalf α x)) (Amp.phalf α (Amp.phalf α y)))
  sin_q_add : ∀ x y : P, (Amp.sin (Amp.phalf α (Amp.phalf α (Amp.padd α x y))) : α) =
    Amp.sin (Amp.padd α (Amp.phalf α (Amp.phalf α x)) (Amp.phalf α (Amp.phalf α y)))
  cos_q_neg : ∀ x : P, (Amp.cos (Amp.phalf α (Amp.phalf α (Amp.pneg α x))) : α) = Amp.cos (Amp.phalf α (Amp.phalf α x))
  sin_q_neg : ∀ x : P, (Amp.sin (Amp.phalf α (Amp.phalf α (Amp.pneg α x))) : α) = -Amp.sin (Amp.phalf α (Amp.phalf α x))

theorem scale_bd2 (k a b c d e f g h : α) :
    CQ1.scale k (bd2 a b c d e f g h) = bd2 (k * a) (k * b) (k * c) (k * d) (k * e) (k * f) (k * g) (k * h) := by
  simp [CQ1.scale, bd2]

set_option maxHeartbeats 400000 in
theorem cu3_assembled (h : LawfulAmp α P) (hh : LawfulHalf α P) (hn : LawfulNegHalf α P) (hq : LawfulQuarter α P)
    (θ φ l : P) :
    let a8 := Amp.phalf α (Amp.padd α φ l)
    app2 [0] (CQ1.mRz a8) (app2 [1] (CQ1.mRz φ) (app2 [1] (CQ1.mRy (Amp.phalf α θ)) (app2 [0, 1] CQ1.mCnot
      (app2 [1] (CQ1.mRy (Amp.pneg α (Amp.phalf α θ))) (app2 [1] (CQ1.mRz (Amp.pneg α (Amp.phalf α (Amp.padd α φ l))))
        (app2 [0, 1] CQ1.mCnot (app2 [1] (CQ1.mRz (Amp.phalf α (Amp.padd α l (Amp.pneg α φ)))) I4))))))) =
      CQ1.scale (Amp.cos (Amp.phalf α a8) - Amp.I P * Amp.sin (Amp.phalf α a8)) (specMatrix (.C (.U3 θ φ l)) : LMat α) := by
  intro a8
  -- everything in terms of the quarter angles
  have t1 := hh.cos_phalf_twice (Amp.phalf α θ); have t2 := hh.sin_phalf_twice (Amp.phalf α θ)
  have p1 := hh.cos_phalf_twice φ; have p2 := hh.sin_phalf_twice φ
  have p3 := hh.cos_phalf_twice (Amp.phalf α φ); have p4 := hh.sin_phalf_twice (Amp.phalf α φ)
  have l1 := hh.cos_phalf_twice l; have l2 := hh.sin_phalf_twice l
  have l3 := hh.cos_phalf_twice (Amp.phalf α l); have l4 := hh.sin_phalf_twice (Amp.phalf α l)
  simp only [h.cos_padd, h.sin_padd] at t1 t2 p1 p2 p3 p4 l1 l2 l3 l4
  have sθ := h.cos_sq_add_sin_sq (Amp.phalf α (Amp.phalf α θ))
  have sφ := h.cos_sq_add_sin_sq (Amp.phalf α (Amp.phalf α φ))
  have sl := h.cos_sq_add_sin_sq (Amp.phalf α (Amp.phalf α l))
  have hI := h.I_mul_I
  have hsp : (specMatrix (.C (.U3 θ φ l)) : LMat α) = Spec.ctrl (specMatrix (.U3 θ φ l)) := rfl
  rw [hsp]
  simp only [a8, CQ1.mRz, CQ1.mRy, mCnot_bd, I4_eq, app2_cx', app2_target, app2_control2, specMatrix, expi, ctrl_two,
    scale_bd2, hn.cos_phalf_pneg, hn.sin_phalf_pneg, hq.cos_q_add, hq.sin_q_add, h.cos_padd, h.sin_padd,
    hq.cos_q_neg, hq.sin_q_neg]
  refine bd2_ext ?_ ?_ ?_ ?_ ?_ ?_ ?_ ?_ <;> grind

end Q1t.Proofs.CQasm

namespace Q1t.Proofs.CQasm
open Q1t Q1t.Spec Q1t.OpenQasm Q1t.Proofs.Unitaries

variable {α P : Type} [CommRing α] [Amp α P]

/-! ### `CSdg`, `CTdg`: `cr c, t, <decimal literal>`

The text is `cr c, t, -1.570796326794897` resp. `cr c, t, -0.7853981633974483`: by `cq_param_cu1` it denotes
`CU1(x) = diag(1,1,1,e^{ix})` for `x` the value of the literal — a 16-digit decimal of `−π/2` resp. `−π/4`, not the
irrational itself, so it is the controlled `S†` / `T†` only up to `|x − (−π/2)| ≤ 5·10⁻¹⁶`.  Exactly: -/

/-- the controlled phase `e^{ix}` is the controlled `S†` precisely when `cos x = 0`, `sin x = −1` (i.e. `x ≡ −π/2`) -/
theorem csdg_of_angle (x : P) (hc : (Amp.cos x : α) = 0) (hs : (Amp.sin x : α) = -1) :
    (CQ1.mCPhase (Amp.cos x + Amp.I P * Amp.sin x) : LMat α) = specMatrix (.C (.Sdg : GateTerm P)) := by
  simp [CQ1.mCPhase, specMatrix, Spec.ctrl, hc, hs, List.range_succ, List.replicate]

/-- … and the controlled `T†` precisely when `cos x = 1/√2`, `sin x = −1/√2` (`x ≡ −π/4`) -/
theorem ctdg_of_angle (h : LawfulAmp α P) (x : P) (hc : (Amp.cos x : α) = Amp.hsqrt2 P)
    (hs : (Amp.sin x : α) = -Amp.hsqrt2 P) :
    (CQ1.mCPhase (Amp.cos x + Amp.I P * Amp.sin x) : LMat α) = specMatrix (.C (.Tdg : GateTerm P)) := by
  have hz := h.zeta8_eq
  simp only [CQ1.mCPhase, specMatrix, Spec.ctrl, hc, hs, hz, h.conj_add, h.conj_mul, h.conj_hsqrt2, h.conj_I]
  simp [List.range_succ, List.replicate]
  ring

end Q1t.Proofs.CQasm

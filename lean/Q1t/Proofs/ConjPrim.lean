import Q1t.Proofs.ConjPrimDefs
import Q1t.Proofs.ConjPrimK1
import Q1t.Proofs.ConjPrimKCX
import Q1t.Proofs.ConjPrimKCY
import Q1t.Proofs.ConjPrimKCZ
import Q1t.Proofs.ConjPrimKSwap
/-! C06, part 1 (assembly): `prims_checked` and its unpacking `prim_exact`; see `ConjPrimDefs.lean`. -/
namespace Q1t.Proofs.ConjPrim
open Q1t Q1t.Gate Q1t.Spec.Clifford
open Q1t.Conj hiding Pauli

theorem prims_checked : constPrims.all checkPrim = true := by
  have hp : litPauli = pauliMat Empty := funext litPauli_eq
  rw [List.all_eq_true]
  intro g hg
  have hm := litMat_eq g hg
  unfold checkPrim
  rw [← hm, ← hp]
  simp only [constPrims, List.mem_cons, List.mem_nil_iff, or_false] at hg
  rcases hg with rfl | rfl | rfl | rfl | rfl | rfl | rfl | rfl | rfl | rfl | rfl | rfl | rfl | rfl | rfl
  · exact chk_H
  · exact chk_X
  · exact chk_Y
  · exact chk_Z
  · exact chk_S
  · exact chk_Sdg
  · exact chk_T
  · exact chk_Tdg
  · exact chk_V
  · exact chk_Vdg
  · exact chk_I
  · exact chk_CX
  · exact chk_CY
  · exact chk_CZ
  · exact chk_Swap

/-- which of them claim (non-vacuity of `prims_checked`: 13 of 15) -/
theorem claiming_prims :
    constPrims.map (fun g => isStabilizer g) =
      [true, true, true, true, true, true, false, false, true, true, true, true, true, true, true] := by
  decide +kernel

/-- unpacking of `prims_checked` -/
theorem prim_exact (g : GateTerm Empty) (hg : IsPrim g) (hs : isStabilizer g = true) :
    IsUnitary Empty (nrBits g) (mat g) ∧
    ∀ ops : List Pauli, ops.length = nrBits g →
      ∃ flip ops', conjugate g ops = .ok (flip, ops') ∧ ops'.length = nrBits g ∧
        IsConj Empty (mat g) ops flip ops' := by
  have h := List.all_eq_true.1 prims_checked g (mem_constPrims g hg)
  simp only [checkPrim, checkPrimWith, hs, Bool.not_true, Bool.false_or, Bool.and_eq_true] at h
  obtain ⟨hu, hall⟩ := h
  refine ⟨?_, ?_⟩
  · simp only [unitaryB, Bool.and_eq_true, decide_eq_true_eq, List.all_eq_true] at hu
    exact ⟨hu.1.1, hu.1.2, hu.2⟩
  · intro ops hl
    have hm : ops ∈ allStrings (nrBits g) := hl ▸ mem_allStrings ops
    have hc := List.all_eq_true.1 hall ops hm
    unfold checkStringWith at hc
    split at hc
    · rename_i flip ops' heq
      simp only [Bool.and_eq_true, decide_eq_true_eq] at hc
      exact ⟨flip, ops', heq, hc.1, hc.2⟩
    · exact absurd hc (by simp)

end Q1t.Proofs.ConjPrim

import Q1t.Model.Latex
/-! C13 — the shape invariant of the export state (every column has one cell per wire), preserved by
every emitter, every gate and every circuit operation; consequence: the printed grid is rectangular.
No restriction on the circuit. -/
namespace Q1t.Proofs.Latex
open Q1t.Latex Q1t.Spec.QcGrid

structure Shape (s : St) : Prop where
  cols : ∀ col ∈ s.rcols, col.length = s.total
  iu : s.inUse.length = s.total

/-- `s'` is over the same register as `s` and is well-shaped if `s` is. -/
structure Keeps (s s' : St) : Prop where
  nq : s'.nq = s.nq
  nc : s'.nc = s.nc
  expand : s'.expand = s.expand
  shape : Shape s → Shape s'

theorem Keeps.refl (s : St) : Keeps s s := ⟨rfl, rfl, rfl, id⟩

theorem Keeps.trans {a b c : St} (h1 : Keeps a b) (h2 : Keeps b c) : Keeps a c :=
  ⟨h2.nq.trans h1.nq, h2.nc.trans h1.nc, h2.expand.trans h1.expand, fun h => h2.shape (h1.shape h)⟩

theorem total_eq {s s' : St} (hq : s'.nq = s.nq) (hc : s'.nc = s.nc) : s'.total = s.total := by
  simp [St.total, hq, hc]

theorem keeps_addColumn (s : St) : Keeps s (addColumn s) := by
  refine ⟨rfl, rfl, rfl, fun h => ⟨?_, ?_⟩⟩
  · intro col hc
    simp only [addColumn, List.mem_cons] at hc
    rcases hc with rfl | hc
    · simp [St.total, addColumn]
    · exact h.cols col hc
  · simp [addColumn, St.total]

/-- Field updates that touch neither the register size, the matrix nor `in_use`. -/
theorem keeps_of_fields {s s' : St} (hq : s'.nq = s.nq) (hc : s'.nc = s.nc) (hr : s'.rcols = s.rcols)
    (hi : s'.inUse = s.inUse) (he : s'.expand = s.expand := by rfl) : Keeps s s' :=
  ⟨hq, hc, he, fun h => ⟨by rw [hr, total_eq hq hc]; exact h.cols, by rw [hi, total_eq hq hc]; exact h.iu⟩⟩

theorem keeps_reserve {q c s s'} (h : reserve q c s = .ok s') : Keeps s s' := by
  unfold reserve at h
  obtain ⟨_, _, h⟩ := Res.bind_eq_ok.mp h
  obtain ⟨used, _, h⟩ := Res.bind_eq_ok.mp h
  injection h with h; subst h
  split
  · exact keeps_addColumn s
  · exact Keeps.refl s

theorem keeps_reserveAll (s : St) : Keeps s (reserveAll s) := by
  unfold reserveAll; split
  · exact keeps_addColumn s
  · exact Keeps.refl s

theorem keeps_startRangeOp {q c s s'} (h : startRangeOp q c s = .ok s') : Keeps s s' := by
  unfold startRangeOp at h
  obtain ⟨bits, _, h⟩ := Res.bind_eq_ok.mp h
  split at h
  · injection h with h; subst h; exact Keeps.refl s
  · dsimp only at h
    split at h
    · split at h
      · injection h with h; subst h
        split
        · exact (keeps_addColumn s).trans (keeps_of_fields rfl rfl rfl rfl)
        · exact keeps_of_fields rfl rfl rfl rfl
      · cases h
    · split at h
      · injection h with h; subst h; exact keeps_of_fields rfl rfl rfl rfl
      · cases h

theorem markRange_length {l : List Bool} {f n : Nat} {l' : List Bool} (h : markRange l f n = some l') :
    l'.length = l.length := by
  induction n generalizing l f with
  | zero => simp [markRange] at h; subst h; rfl
  | succ n ih =>
    simp only [markRange] at h
    split at h
    · have := ih h; simpa using this
    · cases h

theorem keeps_endRangeOp {s s'} (h : endRangeOp s = .ok s') : Keeps s s' := by
  unfold endRangeOp at h
  split at h
  · injection h with h; subst h; exact Keeps.refl s
  · split at h
    · rename_i iu hm
      injection h with h; subst h
      refine ⟨rfl, rfl, rfl, fun hs => ⟨hs.cols, ?_⟩⟩
      show iu.length = _
      rw [markRange_length hm]; exact hs.iu
    · cases h

theorem keeps_setField {b y s s'} (h : setField b y s = .ok s') : Keeps s s' := by
  unfold setField at h
  obtain ⟨s1, h1, h⟩ := Res.bind_eq_ok.mp h
  have k1 : Keeps s s1 := by
    split at h1
    · exact keeps_reserve h1
    · injection h1 with h1; subst h1; exact Keeps.refl s
  refine k1.trans ?_
  split at h
  · cases h
  · rename_i col rest hr
    split at h
    · injection h with h; subst h
      refine ⟨rfl, rfl, rfl, fun hs => ⟨?_, ?_⟩⟩
      · intro c hc
        simp only [List.mem_cons] at hc
        rcases hc with rfl | hc
        · simp; exact hs.cols col (by rw [hr]; simp)
        · exact hs.cols c (by rw [hr]; simp [hc])
      · simp; exact hs.iu
    · cases h

/-- Sequencing. -/
theorem keeps_bind {f : St → Res St} {g : St → Res St} {s s' : St}
    (hf : ∀ a b, f a = .ok b → Keeps a b) (hg : ∀ a b, g a = .ok b → Keeps a b)
    (h : (f s >>== g) = .ok s') : Keeps s s' := by
  obtain ⟨m, h1, h2⟩ := Res.bind_eq_ok.mp h
  exact (hf _ _ h1).trans (hg _ _ h2)

theorem keeps_setMeasurement {q c b s s'} (h : setMeasurement q c b s = .ok s') : Keeps s s' := by
  unfold setMeasurement at h
  obtain ⟨s1, h1, h⟩ := Res.bind_eq_ok.mp h
  obtain ⟨s2, h2, h⟩ := Res.bind_eq_ok.mp h
  obtain ⟨s3, h3, h⟩ := Res.bind_eq_ok.mp h
  have e1 := (keeps_startRangeOp h1)
  have e2 := keeps_setField h2
  have e3 := keeps_setField h3
  exact ((e1.trans e2).trans e3).trans (keeps_endRangeOp h)

theorem keeps_condLoop {t : Nat} {bp : List (Nat × Nat)} {p : Nat} {s s' : St}
    (h : condLoop t bp p s = .ok s') : Keeps s s' := by
  induction bp generalizing p s with
  | nil => simp [condLoop] at h; subst h; exact Keeps.refl s
  | cons x rest ih =>
    obtain ⟨bit, pos⟩ := x
    simp only [condLoop] at h
    split at h
    · cases h
    · obtain ⟨s1, h1, h⟩ := Res.bind_eq_ok.mp h
      exact (keeps_setField h1).trans (ih h)

theorem keeps_setCondition {ctl t q s s'} (h : setCondition ctl t q s = .ok s') : Keeps s s' := by
  unfold setCondition at h
  split at h
  · cases h
  · split at h
    · cases h
    · split at h
      · injection h with h; subst h; exact Keeps.refl s
      · exact keeps_condLoop h

theorem keeps_ghosts {d : String} {n b : Nat} {s s' : St} (h : ghosts d b n s = .ok s') : Keeps s s' := by
  induction n generalizing b s with
  | zero => simp [ghosts] at h; subst h; exact Keeps.refl s
  | succ n ih =>
    simp only [ghosts] at h
    obtain ⟨s1, h1, h⟩ := Res.bind_eq_ok.mp h
    exact (keeps_setField h1).trans (ih h)

theorem keeps_drawRange {f l d q s s'} (h : drawRange f l d q s = .ok s') : Keeps s s' := by
  unfold drawRange at h
  split at h
  · exact keeps_setField h
  · obtain ⟨s1, h1, h⟩ := Res.bind_eq_ok.mp h
    exact (keeps_setField h1).trans (keeps_ghosts h)

theorem keeps_blockRest {d : String} {rs : List (Nat × Nat)} {p : Nat} {s s' : St}
    (h : blockRest d rs p s = .ok s') : Keeps s s' := by
  induction rs generalizing p s with
  | nil => simp [blockRest] at h; subst h; exact Keeps.refl s
  | cons x rest ih =>
    obtain ⟨f, l⟩ := x
    simp only [blockRest] at h
    obtain ⟨s1, h1, h⟩ := Res.bind_eq_ok.mp h
    exact (keeps_drawRange h1).trans (ih h)

theorem keeps_addBlockGate {q d s s'} (h : addBlockGate q d s = .ok s') : Keeps s s' := by
  unfold addBlockGate at h
  split at h
  · cases h
  · injection h with h; subst h; exact Keeps.refl s
  · obtain ⟨s1, h1, h⟩ := Res.bind_eq_ok.mp h
    obtain ⟨s2, h2, h⟩ := Res.bind_eq_ok.mp h
    obtain ⟨s3, h3, h⟩ := Res.bind_eq_ok.mp h
    exact (((keeps_startRangeOp h1).trans (keeps_drawRange h2)).trans (keeps_blockRest h3)).trans (keeps_endRangeOp h)

theorem keeps_startLoop {n s s'} (h : startLoop n s = .ok s') : Keeps s s' := by
  unfold startLoop at h
  dsimp only at h
  split at h
  · cases h
  · injection h with h; subst h
    exact (keeps_reserveAll s).trans (keeps_of_fields rfl rfl rfl rfl)

theorem keeps_endLoop {s s'} (h : endLoop s = .ok s') : Keeps s s' := by
  unfold endLoop at h
  split at h
  · cases h
  · split at h
    · cases h
    · injection h with h; subst h
      refine Keeps.trans ?_ (keeps_reserveAll _)
      exact keeps_of_fields rfl rfl rfl rfl

theorem keeps_addCds {b c l s s'} (h : addCds b c l s = .ok s') : Keeps s s' := by
  unfold addCds at h
  obtain ⟨s1, h1, h⟩ := Res.bind_eq_ok.mp h
  injection h with h; subst h
  exact ((keeps_reserveAll s).trans (keeps_setField h1)).trans (keeps_reserveAll s1)

theorem keeps_barrierLoop {rs : List (Nat × Nat)} {s s' : St} (h : barrierLoop rs s = .ok s') : Keeps s s' := by
  induction rs generalizing s with
  | nil => simp [barrierLoop] at h; subst h; exact Keeps.refl s
  | cons x rest ih =>
    obtain ⟨f, l⟩ := x
    simp only [barrierLoop] at h
    obtain ⟨s1, h1, h⟩ := Res.bind_eq_ok.mp h
    exact (keeps_setField h1).trans (ih h)

theorem keeps_setBarrier {q s s'} (h : setBarrier q s = .ok s') : Keeps s s' := by
  unfold setBarrier at h
  split at h
  · cases h
  · split at h
    · cases h; exact Keeps.refl s
    · split at h
      · cases h
      · exact (keeps_addColumn s).trans (keeps_barrierLoop h)

theorem keeps_controlled (s : St) (b : Bool) : Keeps s { s with controlled := b } :=
  keeps_of_fields rfl rfl rfl rfl

/-! Gates: by structural induction on the gate term (mutually with composite bodies). -/

mutual
theorem keeps_latex : ∀ (g : Gate) (bits : List Nat) (s s' : St), latex g bits s = .ok s' → Keeps s s'
  | .box l n, bits, s, s', h => by
    simp only [latex] at h
    obtain ⟨_, _, h⟩ := Res.bind_eq_ok.mp h
    exact keeps_addBlockGate h
  | .x, bits, s, s', h => by
    simp only [latex] at h
    obtain ⟨_, _, h⟩ := Res.bind_eq_ok.mp h
    split at h
    · exact keeps_setField h
    · cases h
  | .z, bits, s, s', h => by
    simp only [latex] at h
    obtain ⟨_, _, h⟩ := Res.bind_eq_ok.mp h
    split at h
    · exact keeps_setField h
    · cases h
  | .i, bits, s, s', h => by
    simp only [latex] at h
    obtain ⟨_, _, h⟩ := Res.bind_eq_ok.mp h
    split at h
    · exact keeps_setField h
    · cases h
  | .swap, bits, s, s', h => by
    simp only [latex] at h
    obtain ⟨_, _, h⟩ := Res.bind_eq_ok.mp h
    split at h
    · obtain ⟨s1, h1, h⟩ := Res.bind_eq_ok.mp h
      obtain ⟨s2, h2, h⟩ := Res.bind_eq_ok.mp h
      obtain ⟨s3, h3, h⟩ := Res.bind_eq_ok.mp h
      exact (((keeps_startRangeOp h1).trans (keeps_setField h2)).trans (keeps_setField h3)).trans (keeps_endRangeOp h)
    · cases h
  | .c g, bits, s, s', h => by
    simp only [latex] at h
    obtain ⟨_, _, h⟩ := Res.bind_eq_ok.mp h
    obtain ⟨s1, h1, h⟩ := Res.bind_eq_ok.mp h
    have k1 := keeps_startRangeOp h1
    split at h
    · cases h
    · cases h
    · obtain ⟨s2, h2, h⟩ := Res.bind_eq_ok.mp h
      obtain ⟨s3, h3, h⟩ := Res.bind_eq_ok.mp h
      have k2 : Keeps s1 s2 := by
        split at h2
        · exact keeps_setField h2
        · split at h2
          · exact keeps_setField h2
          · cases h2
      have k3 := keeps_latex g _ _ _ h3
      exact (((k1.trans k2).trans (keeps_controlled s2 true)).trans k3).trans
        ((keeps_controlled s3 _).trans (keeps_endRangeOp h))
  | .kron a b, bits, s, s', h => by
    simp only [latex] at h
    obtain ⟨_, _, h⟩ := Res.bind_eq_ok.mp h
    obtain ⟨s1, h1, h⟩ := Res.bind_eq_ok.mp h
    exact (keeps_latex a _ _ _ h1).trans (keeps_latex b _ _ _ h)
  | .comp name n ops, bits, s, s', h => by
    simp only [latex] at h
    obtain ⟨_, _, h⟩ := Res.bind_eq_ok.mp h
    split at h
    · exact keeps_latexSubs ops _ _ _ h
    · exact keeps_addBlockGate h
  | .loop iters body, bits, s, s', h => by
    simp only [latex] at h
    obtain ⟨_, _, h⟩ := Res.bind_eq_ok.mp h
    split at h
    · injection h with h; subst h; exact Keeps.refl s
    · exact keeps_latex body _ _ _ h
    · obtain ⟨s1, h1, h⟩ := Res.bind_eq_ok.mp h
      exact (keeps_latex body _ _ _ h1).trans (keeps_latex body _ _ _ h)
    · split at h
      · cases h
      · obtain ⟨s1, h1, h⟩ := Res.bind_eq_ok.mp h
        obtain ⟨s2, h2, h⟩ := Res.bind_eq_ok.mp h
        obtain ⟨s3, h3, h⟩ := Res.bind_eq_ok.mp h
        obtain ⟨s4, h4, h⟩ := Res.bind_eq_ok.mp h
        exact ((((keeps_startLoop h1).trans (keeps_latex body _ _ _ h2)).trans (keeps_addCds h3)).trans
          (keeps_latex body _ _ _ h4)).trans (keeps_endLoop h)
theorem keeps_latexSubs : ∀ (ops : Subs) (bits : List Nat) (s s' : St), latexSubs ops bits s = .ok s' → Keeps s s'
  | .nil, bits, s, s', h => by
    simp only [latexSubs] at h; injection h with h; subst h; exact Keeps.refl s
  | .cons g sb rest, bits, s, s', h => by
    simp only [latexSubs] at h
    split at h
    · cases h
    · obtain ⟨s1, h1, h⟩ := Res.bind_eq_ok.mp h
      exact (keeps_latex g _ _ _ h1).trans (keeps_latexSubs rest _ _ _ h)
end

theorem keeps_measureAllLoop {b : Option String} {cs : List Nat} {q : Nat} {s s' : St}
    (h : measureAllLoop b cs q s = .ok s') : Keeps s s' := by
  induction cs generalizing q s with
  | nil => simp [measureAllLoop] at h; subst h; exact Keeps.refl s
  | cons c rest ih =>
    simp only [measureAllLoop] at h
    obtain ⟨s1, h1, h⟩ := Res.bind_eq_ok.mp h
    exact (keeps_setMeasurement h1).trans (ih h)

theorem keeps_resetLoop {n q : Nat} {s s' : St} (h : resetLoop q n s = .ok s') : Keeps s s' := by
  induction n generalizing q s with
  | zero => simp [resetLoop] at h; subst h; exact Keeps.refl s
  | succ n ih =>
    simp only [resetLoop] at h
    obtain ⟨s1, h1, h⟩ := Res.bind_eq_ok.mp h
    exact (keeps_setField h1).trans (ih h)

theorem keeps_opLatex {nq : Nat} {op : Op} {s s' : St} (h : opLatex nq op s = .ok s') : Keeps s s' := by
  cases op with
  | gate g bits => exact keeps_latex g bits s s' h
  | cond control target g bits =>
    simp only [opLatex] at h
    obtain ⟨s1, h1, h⟩ := Res.bind_eq_ok.mp h
    obtain ⟨s2, h2, h⟩ := Res.bind_eq_ok.mp h
    obtain ⟨s3, h3, h⟩ := Res.bind_eq_ok.mp h
    exact ((((keeps_startRangeOp h1).trans (keeps_controlled s1 true)).trans (keeps_latex g _ _ _ h2)).trans
      ((keeps_controlled s2 _).trans (keeps_setCondition h3))).trans (keeps_endRangeOp h)
  | reset q => exact keeps_setField h
  | resetAll =>
    simp only [opLatex] at h
    obtain ⟨s1, h1, h⟩ := Res.bind_eq_ok.mp h
    obtain ⟨s2, h2, h⟩ := Res.bind_eq_ok.mp h
    exact ((keeps_startRangeOp h1).trans (keeps_resetLoop h2)).trans (keeps_endRangeOp h)
  | measure q c b => exact keeps_setMeasurement h
  | measureAll cbits b => exact keeps_measureAllLoop h
  | peek q c b => simp [opLatex] at h
  | peekAll cbits b => simp [opLatex] at h
  | barrier qbits => exact keeps_setBarrier h

theorem keeps_opsLatex {nq : Nat} {ops : List Op} {s s' : St} (h : opsLatex nq ops s = .ok s') : Keeps s s' := by
  induction ops generalizing s with
  | nil => simp [opsLatex] at h; subst h; exact Keeps.refl s
  | cons op rest ih =>
    simp only [opsLatex] at h
    obtain ⟨s1, h1, h⟩ := Res.bind_eq_ok.mp h
    exact ((keeps_opLatex h1).trans (keeps_of_fields (s' := { s1 with cur := s1.cur + 1 }) rfl rfl rfl rfl)).trans (ih h)

theorem shape_new (nq nc : Nat) : Shape (St.new nq nc) :=
  ⟨by intro c hc; simp [St.new] at hc, by simp [St.new, St.total]⟩

/-- After a successful export the state is over the circuit's register and well-shaped. -/
theorem exportSt_shape {c : Circ} {s : St} (h : exportSt c = .ok s) :
    s.nq = c.nq ∧ s.nc = c.nc ∧ Shape s := by
  have k := keeps_opsLatex h
  exact ⟨k.nq, k.nc, k.shape (shape_new _ _)⟩

/-! The printed grid. -/

theorem mapOpt_some_of_forall {α β} (f : α → Option β) (l : List α) (h : ∀ a ∈ l, (f a).isSome) :
    ∃ r, mapOpt f l = some r ∧ r.length = l.length := by
  induction l with
  | nil => exact ⟨[], rfl, rfl⟩
  | cons a as ih =>
    obtain ⟨r, hr, hl⟩ := ih (fun x hx => h x (by simp [hx]))
    have ha := h a (by simp)
    obtain ⟨b, hb⟩ := Option.isSome_iff_exists.mp ha
    exact ⟨b :: r, by simp [mapOpt, hb, hr], by simp [hl]⟩

theorem mapOpt_mem {α β} (f : α → Option β) (l : List α) (r : List β) (h : mapOpt f l = some r) :
    ∀ b ∈ r, ∃ a ∈ l, f a = some b := by
  induction l generalizing r with
  | nil => simp [mapOpt] at h; subst h; simp
  | cons a as ih =>
    simp only [mapOpt] at h
    split at h
    · rename_i b bs hb hbs
      injection h with h; subst h
      intro x hx
      simp only [List.mem_cons] at hx
      rcases hx with rfl | hx
      · exact ⟨a, by simp, hb⟩
      · obtain ⟨a', ha', hf⟩ := ih bs hbs x hx
        exact ⟨a', by simp [ha'], hf⟩
    · cases h

theorem cellOf_isSome (nq i : Nat) (col : Column) (h : i < col.length) : (cellOf nq i col).isSome := by
  unfold cellOf
  have : col[i]? = some col[i] := List.getElem?_eq_getElem h
  rw [this]
  cases col[i] <;> simp

/-- Every wire row of a well-shaped state is printed, with one cell per column plus the closing
column when the last column is in use. -/
theorem gridRow_shape (s : St) (hs : Shape s) (i : Nat) (hi : i < s.total) :
    ∃ row, gridRow s i = some row ∧
      row.length = s.rcols.length + (if s.inUse.contains true then 1 else 0) := by
  obtain ⟨cells, hc, hl⟩ := mapOpt_some_of_forall (cellOf s.nq i) s.rcols.reverse (by
    intro col hcol
    apply cellOf_isSome
    rw [hs.cols col (by simpa using hcol)]; exact hi)
  simp only [gridRow, hc, Option.map_some]
  refine ⟨_, rfl, ?_⟩
  by_cases hu : s.inUse.contains true
  · simp only [hu, if_true, List.length_append, hl, List.length_reverse, List.length_singleton]
  · simp only [hu]; simpa using hl

theorem grid_shape (s : St) (hs : Shape s) :
    ∃ g, grid s = some g ∧ g.length = s.total ∧
      ∀ row ∈ g, row.length = s.rcols.length + (if s.inUse.contains true then 1 else 0) := by
  obtain ⟨g, hg, hl⟩ := mapOpt_some_of_forall (gridRow s) (List.range s.total) (by
    intro i hi
    obtain ⟨row, hr, _⟩ := gridRow_shape s hs i (by simpa using hi)
    simp [hr])
  refine ⟨g, hg, by simpa using hl, ?_⟩
  intro row hrow
  obtain ⟨i, hi, hr⟩ := mapOpt_mem _ _ _ hg row hrow
  obtain ⟨row', hr', hlen⟩ := gridRow_shape s hs i (by simpa using hi)
  rw [hr] at hr'; injection hr' with hr'; subst hr'; exact hlen

theorem rectangular_of_lengths (g : Grid) (n : Nat) (h : ∀ row ∈ g, row.length = n) : rectangular g = true := by
  cases g with
  | nil => rfl
  | cons r rs =>
    simp only [rectangular, List.all_eq_true, decide_eq_true_eq]
    intro r' hr'
    rw [h r' (by simp [hr']), h r (by simp)]

end Q1t.Proofs.Latex

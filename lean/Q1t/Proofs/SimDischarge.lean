import Q1t.Proofs.RouteSim
import Q1t.Proofs.SimBasisGates
/-!
C02: `GateSemOK` DISCHARGED for the one-qubit gates `H`, `X`, `S`, `S†` on any qubit of any register, for every
lawful amplitude ring: the two code-facing fields (`mat`, `vec`) from C04 (`RouteSim.gateSemOK_of_c04`:
`apply_gate_(mat_)slice` = embedded `matrix g`) and C05 (`matrix g = specMatrix g`), the reference-semantics
fields (`iso`, `hh`, `ssdg`) from `SimBasisGates.lean`.  So the simulator theorems hold WITHOUT any gate
hypothesis for circuits built from these gates (plain or conditional) and all measurement / peek / reset
operations in all bases — in particular the hypotheses of `shot_refinement` are satisfiable for every `n`.
-/
set_option linter.unusedSectionVars false
namespace Q1t.Sim
open Q1t Q1t.Spec Q1t.Gate

section
variable {α P : Type} [CommRing α] [Amp α P] [SimAmp α]
variable {nz : α → Prop}

/-- the gate instances covered: `H`, `X`, `S`, `S†` on one qubit below `n` -/
def basisValid (n : Nat) (g : GateTerm P) (bits : List Nat) : Prop :=
  (g = .H ∨ g = .X ∨ g = .S ∨ g = .Sdg) ∧ ∃ q, q < n ∧ bits = [q]

theorem specMatrix_H : (specMatrix (.H : GateTerm P) : LMat α) =
    [[Amp.hsqrt2 P, Amp.hsqrt2 P], [Amp.hsqrt2 P, -Amp.hsqrt2 P]] := by simp [specMatrix]
theorem specMatrix_X : (specMatrix (.X : GateTerm P) : LMat α) = [[0, 1], [1, 0]] := by simp [specMatrix, pauliX]
theorem specMatrix_S : (specMatrix (.S : GateTerm P) : LMat α) = [[1, 0], [0, Amp.I P]] := by simp [specMatrix]
theorem specMatrix_Sdg : (specMatrix (.Sdg : GateTerm P) : LMat α) = [[1, 0], [0, -Amp.I P]] := by simp [specMatrix]

theorem hh_all (ha : LawfulAmp α P) (n q : Nat) (hq : q < n) (v : List α) (hv : v.length = 2 ^ n) :
    gateOn (P := P) n .H [q] (gateOn (P := P) n .H [q] v) = v := by
  rw [gateOn_single _ hq, gateOn_single _ hq, specMatrix_H]
  have h1 := ha.hsqrt2_mul_self
  have h2 := ha.half_add_half
  exact app1_inv _ _ _ _ _ _ _ _ (by rw [h1, h2]) (by ring) (by ring) (by rw [neg_mul_neg, h1, h2]) hq v hv

theorem ssdg_all (ha : LawfulAmp α P) (n q : Nat) (hq : q < n) (v : List α) (hv : v.length = 2 ^ n) :
    gateOn (P := P) n .S [q] (gateOn (P := P) n .Sdg [q] v) = v := by
  rw [gateOn_single _ hq, gateOn_single _ hq, specMatrix_S, specMatrix_Sdg]
  have h1 := ha.I_mul_I
  exact app1_inv _ _ _ _ _ _ _ _ (by ring) (by ring) (by ring) (by rw [mul_neg, h1]; ring) hq v hv

theorem iso_basis (ha : LawfulAmp α P) (hs : LawfulSim α P nz) (n : Nat) (g : GateTerm P) (bits : List Nat)
    (hv : basisValid n g bits) (v : List α) (hl : v.length = 2 ^ n) :
    normSqSum (gateOn n g bits v) = normSqSum v := by
  obtain ⟨hg, q, hq, rfl⟩ := hv
  rw [gateOn_single _ hq]
  have hx := ha.hsqrt2_mul_self
  have hc := ha.conj_hsqrt2
  have h2 := ha.half_add_half
  have hI := ha.I_mul_I
  have hcI := ha.conj_I
  have h0 := ha.conj_zero
  have h1 := ha.conj_one
  rcases hg with rfl | rfl | rfl | rfl
  · rw [specMatrix_H]
    exact app1_iso ha hs _ _ _ _ (by rw [hc, hx, h2]) (by rw [ha.conj_neg, hc, neg_mul_neg, hx, h2])
      (by rw [hc]; ring) (by rw [ha.conj_neg, hc]; ring) hq v hl
  · rw [specMatrix_X]
    exact app1_iso ha hs _ _ _ _ (by rw [h0, h1]; ring) (by rw [h0, h1]; ring) (by rw [h0, h1]; ring)
      (by rw [h0, h1]; ring) hq v hl
  · rw [specMatrix_S]
    exact app1_iso ha hs _ _ _ _ (by rw [h0, h1]; ring) (by rw [h0, hcI, neg_mul, hI]; ring) (by rw [h0, h1]; ring)
      (by rw [h0, hcI]; ring) hq v hl
  · rw [specMatrix_Sdg]
    exact app1_iso ha hs _ _ _ _ (by rw [h0, h1]; ring) (by rw [h0, ha.conj_neg, hcI, neg_neg, mul_neg, hI]; ring)
      (by rw [h0, h1]; ring) (by rw [h0, ha.conj_neg, hcI]; ring) hq v hl

/-- **`GateSemOK` holds** for the basis gates on every register size -/
theorem gateSemOK_basis (ha : LawfulAmp α P) (hs : LawfulSim α P nz) (n : Nat) :
    GateSemOK α n (basisValid (P := P) n) := by
  refine Q1t.Proofs.Route.gateSemOK_of_c04 ha n _ ?_ (iso_basis ha hs n) ?_ (hh_all ha n) (ssdg_all ha n)
  · rintro g bits ⟨hg, q, hq, rfl⟩
    have hvb : validBits n [q] = true := by simp [validBits, hq]
    rcases hg with rfl | rfl | rfl | rfl
    · exact ⟨⟨trivial, rfl, hvb, fun h => by simp [hasComposite] at h⟩, by simp [matrix, matH, specMatrix]⟩
    · exact ⟨⟨trivial, rfl, hvb, fun h => by simp [hasComposite] at h⟩, by simp [matrix, matX, specMatrix, pauliX]⟩
    · exact ⟨⟨trivial, rfl, hvb, fun h => by simp [hasComposite] at h⟩, by simp [matrix, matS, specMatrix]⟩
    · exact ⟨⟨trivial, rfl, hvb, fun h => by simp [hasComposite] at h⟩, by simp [matrix, matSdg, specMatrix]⟩
  · intro q hq
    exact ⟨⟨Or.inl rfl, q, hq, rfl⟩, ⟨Or.inr (Or.inr (Or.inl rfl)), q, hq, rfl⟩,
      ⟨Or.inr (Or.inr (Or.inr rfl)), q, hq, rfl⟩, ⟨Or.inr (Or.inl rfl), q, hq, rfl⟩⟩

end
end Q1t.Sim

import Q1t.Proofs.UnitariesPrim
import Q1t.Model.Square
import Q1t.Spec.Square
set_option linter.unusedSimpArgs false
set_option linter.unusedSectionVars false
/-!
C16, primitives: for every primitive gate and ALL parameter values the gate returned by `square()`
has exactly the matrix of the original squared — except `U2`, whose returned `U3` equals the square
only up to the explicit phase `i·e^{-i(φ+λ)/2} = e^{-i(φ+λ-π)/2}`.
Laws used beyond `LawfulAmp`: `LawfulHalf` (file UnitariesPrim) and `LawfulSq` below.
-/
namespace Q1t.Proofs.Square
open Q1t Q1t.Gate Q1t.Spec Q1t.Proofs.Unitaries ParamArith

variable {α V : Type} [CommRing α] [Amp α V] [ParamArith V]

/-- how the `f64` arithmetic of the `square()` impls interacts with cosine and sine:
`(2x)/2 = x`, `2x = x + x`, `(λ+φ−π)/2 = (φ+λ)/2 − π/2`, and `cos(x − π/2) = sin x`, `sin(x − π/2) = −cos x` -/
structure LawfulSq (α V : Type) [CommRing α] [Amp α V] [ParamArith V] : Prop where
  cos_phalf_dbl : ∀ x : V, (Amp.cos (Amp.phalf α (dbl x)) : α) = Amp.cos x
  sin_phalf_dbl : ∀ x : V, (Amp.sin (Amp.phalf α (dbl x)) : α) = Amp.sin x
  cos_dbl : ∀ x : V, (Amp.cos (dbl x) : α) = Amp.cos (Amp.padd α x x)
  sin_dbl : ∀ x : V, (Amp.sin (dbl x) : α) = Amp.sin (Amp.padd α x x)
  cos_phalf_u2theta : ∀ p l : V, (Amp.cos (Amp.phalf α (u2theta p l)) : α) = Amp.sin (Amp.phalf α (Amp.padd α p l))
  sin_phalf_u2theta : ∀ p l : V, (Amp.sin (Amp.phalf α (u2theta p l)) : α) = -Amp.cos (Amp.phalf α (Amp.padd α p l))
  cos_subHalfPi : ∀ x : V, (Amp.cos (subHalfPi x) : α) = Amp.sin x
  sin_subHalfPi : ∀ x : V, (Amp.sin (subHalfPi x) : α) = -Amp.cos x

/-- the phase by which `U2(φ,λ).square()` differs from `U2(φ,λ)²`: `i·e^{-i(φ+λ)/2}` -/
def u2Phase (p l : V) : α :=
  Amp.I V * (Amp.cos (Amp.phalf α (Amp.padd α p l)) - Amp.I V * Amp.sin (Amp.phalf α (Amp.padd α p l)))

theorem controlledMat_two (a b c d : α) :
    controlledMat [[a, b], [c, d]] = [[1, 0, 0, 0], [0, 1, 0, 0], [0, 0, a, b], [0, 0, c, d]] := by
  simp [controlledMat, LMat.get, List.range_succ]

theorem mat4_ext {a0 a1 a2 a3 b0 b1 b2 b3 c0 c1 c2 c3 d0 d1 d2 d3
    a0' a1' a2' a3' b0' b1' b2' b3' c0' c1' c2' c3' d0' d1' d2' d3' : α}
    (h : a0 = a0' ∧ a1 = a1' ∧ a2 = a2' ∧ a3 = a3' ∧ b0 = b0' ∧ b1 = b1' ∧ b2 = b2' ∧ b3 = b3' ∧
      c0 = c0' ∧ c1 = c1' ∧ c2 = c2' ∧ c3 = c3' ∧ d0 = d0' ∧ d1 = d1' ∧ d2 = d2' ∧ d3 = d3') :
    [[a0, a1, a2, a3], [b0, b1, b2, b3], [c0, c1, c2, c3], [d0, d1, d2, d3]] =
      [[a0', a1', a2', a3'], [b0', b1', b2', b3'], [c0', c1', c2', c3'], [d0', d1', d2', d3']] := by
  obtain ⟨h0, h1, h2, h3, h4, h5, h6, h7, h8, h9, h10, h11, h12, h13, h14, h15⟩ := h
  subst h0 h1 h2 h3 h4 h5 h6 h7 h8 h9 h10 h11 h12 h13 h14 h15; rfl

theorem mul_four (a0 a1 a2 a3 b0 b1 b2 b3 c0 c1 c2 c3 d0 d1 d2 d3
    a0' a1' a2' a3' b0' b1' b2' b3' c0' c1' c2' c3' d0' d1' d2' d3' : α) :
    LMat.mul [[a0, a1, a2, a3], [b0, b1, b2, b3], [c0, c1, c2, c3], [d0, d1, d2, d3]]
      [[a0', a1', a2', a3'], [b0', b1', b2', b3'], [c0', c1', c2', c3'], [d0', d1', d2', d3']] =
    [[0 + a0*a0' + a1*b0' + a2*c0' + a3*d0', 0 + a0*a1' + a1*b1' + a2*c1' + a3*d1',
      0 + a0*a2' + a1*b2' + a2*c2' + a3*d2', 0 + a0*a3' + a1*b3' + a2*c3' + a3*d3'],
     [0 + b0*a0' + b1*b0' + b2*c0' + b3*d0', 0 + b0*a1' + b1*b1' + b2*c1' + b3*d1',
      0 + b0*a2' + b1*b2' + b2*c2' + b3*d2', 0 + b0*a3' + b1*b3' + b2*c3' + b3*d3'],
     [0 + c0*a0' + c1*b0' + c2*c0' + c3*d0', 0 + c0*a1' + c1*b1' + c2*c1' + c3*d1',
      0 + c0*a2' + c1*b2' + c2*c2' + c3*d2', 0 + c0*a3' + c1*b3' + c2*c3' + c3*d3'],
     [0 + d0*a0' + d1*b0' + d2*c0' + d3*d0', 0 + d0*a1' + d1*b1' + d2*c1' + d3*d1',
      0 + d0*a2' + d1*b2' + d2*c2' + d3*d2', 0 + d0*a3' + d1*b3' + d2*c3' + d3*d3']] := by
  simp [LMat.mul, LMat.transpose, LMat.dot, List.range_succ]

theorem kron_I_I : (matrix (.Kron .I .I : GateTerm V) : LMat α) =
    [[1, 0, 0, 0], [0, 1, 0, 0], [0, 0, 1, 0], [0, 0, 0, 1]] := by
  simp [matrix, LMat.kron, LMat.identity, List.range_succ]

section lawful
variable (h : LawfulAmp α V)
include h

/-! ### constants -/

theorem sq_consts :
    sqOK (α := α) (.H : GateTerm V) .I ∧ sqOK (α := α) (.X : GateTerm V) .I ∧
    sqOK (α := α) (.Y : GateTerm V) .I ∧ sqOK (α := α) (.Z : GateTerm V) .I ∧
    sqOK (α := α) (.S : GateTerm V) .Z ∧ sqOK (α := α) (.Sdg : GateTerm V) .Z ∧
    sqOK (α := α) (.T : GateTerm V) .S ∧ sqOK (α := α) (.Tdg : GateTerm V) .Sdg ∧
    sqOK (α := α) (.V : GateTerm V) .X ∧ sqOK (α := α) (.Vdg : GateTerm V) .X ∧
    sqOK (α := α) (.I : GateTerm V) .I := by
  have h1 := h.I_mul_I; have h4 := h.hsqrt2_mul_self; have h5 := h.half_add_half
  have h6 : (Amp.half V : α) * Amp.half V + Amp.half V * Amp.half V = Amp.half V := by
    have : (Amp.half V : α) * (Amp.half V + Amp.half V) = Amp.half V := by rw [h5, mul_one]
    linear_combination this
  refine ⟨?_, ?_, ?_, ?_, ?_, ?_, ?_, ?_, ?_, ?_, ?_⟩ <;>
    simp only [sqOK, matrix, matX, matY, matZ, matH, matS, matSdg, matT, matTdg, matV, matVdg,
      identity_two, lmul_two] <;>
    refine mat2_ext ?_ ?_ ?_ ?_ <;> grind

theorem sq_two_qubit :
    sqOK (α := α) (.CX : GateTerm V) (.Kron .I .I) ∧ sqOK (α := α) (.CY : GateTerm V) (.Kron .I .I) ∧
    sqOK (α := α) (.CZ : GateTerm V) (.Kron .I .I) ∧ sqOK (α := α) (.Swap : GateTerm V) (.Kron .I .I) := by
  have h1 := h.I_mul_I
  refine ⟨?_, ?_, ?_, ?_⟩ <;>
    (unfold sqOK; rw [kron_I_I]) <;>
    simp only [matrix, matX, matY, matZ, matSwap, controlledMat_two, mul_four] <;>
    refine mat4_ext ⟨?_, ?_, ?_, ?_, ?_, ?_, ?_, ?_, ?_, ?_, ?_, ?_, ?_, ?_, ?_, ?_⟩ <;> grind

/-! ### rotations and U1: the parameter is doubled -/

variable (hh : LawfulHalf α V) (hs : LawfulSq α V)
include hh hs

theorem sq_rx (x : V) : sqOK (α := α) (.RX x) (.RX (dbl x)) := by
  have e1 := hh.cos_phalf_twice x; have e2 := hh.sin_phalf_twice x
  simp only [h.cos_padd, h.sin_padd] at e1 e2
  simp only [sqOK, matrix, matRX, lmul_two, hs.cos_phalf_dbl, hs.sin_phalf_dbl]
  rw [← e1, ← e2]
  have h1 := h.I_mul_I
  refine mat2_ext ?_ ?_ ?_ ?_ <;> grind

theorem sq_ry (x : V) : sqOK (α := α) (.RY x) (.RY (dbl x)) := by
  have e1 := hh.cos_phalf_twice x; have e2 := hh.sin_phalf_twice x
  simp only [h.cos_padd, h.sin_padd] at e1 e2
  simp only [sqOK, matrix, matRY, lmul_two, hs.cos_phalf_dbl, hs.sin_phalf_dbl]
  rw [← e1, ← e2]
  refine mat2_ext ?_ ?_ ?_ ?_ <;> grind

theorem sq_rz (x : V) : sqOK (α := α) (.RZ x) (.RZ (dbl x)) := by
  have e1 := hh.cos_phalf_twice x; have e2 := hh.sin_phalf_twice x
  simp only [h.cos_padd, h.sin_padd] at e1 e2
  simp only [sqOK, matrix, matRZ, lmul_two, Amp.polar, hs.cos_phalf_dbl, hs.sin_phalf_dbl,
    h.conj_add, h.conj_mul, h.conj_one, h.conj_cos, h.conj_sin, h.conj_I]
  rw [← e1, ← e2]
  have h1 := h.I_mul_I
  refine mat2_ext ?_ ?_ ?_ ?_ <;> grind

theorem sq_u1 (x : V) : sqOK (α := α) (.U1 x) (.U1 (dbl x)) := by
  simp only [sqOK, matrix, matU1, lmul_two, Amp.polar, hs.cos_dbl, hs.sin_dbl, h.cos_padd, h.sin_padd]
  have h1 := h.I_mul_I
  refine mat2_ext ?_ ?_ ?_ ?_ <;> grind

/-! ### U2: only up to the phase `u2Phase` -/

theorem u2Phase_unit (p l : V) : (u2Phase p l : α) * Amp.conj V (u2Phase p l) = 1 := by
  simp only [u2Phase, h.conj_mul, h.conj_sub, h.conj_I, h.conj_cos, h.conj_sin]
  have h1 := h.I_mul_I; have h2 := h.cos_sq_add_sin_sq (Amp.phalf α (Amp.padd α p l))
  grind

theorem sq_u2 (p l : V) :
    sqPhaseBy (α := α) (u2Phase p l) (.U2 p l) (.U3 (u2theta p l) (subHalfPi p) (subHalfPi l)) := by
  refine ⟨u2Phase_unit h hh hs p l, ?_⟩
  have e1 := hh.cos_phalf_twice (Amp.padd α p l); have e2 := hh.sin_phalf_twice (Amp.padd α p l)
  simp only [h.cos_padd, h.sin_padd] at e1 e2
  simp only [matrix, matU2, matU3, lmul_two, scale_two, u2Phase, Amp.polar, hs.cos_phalf_u2theta,
    hs.sin_phalf_u2theta, h.cos_padd, h.sin_padd, hs.cos_subHalfPi, hs.sin_subHalfPi]
  have h1 := h.I_mul_I
  have h2 := h.cos_sq_add_sin_sq (Amp.phalf α (Amp.padd α p l))
  have h3 := h.cos_sq_add_sin_sq p; have h3' := h.cos_sq_add_sin_sq l
  have h4 := h.hsqrt2_mul_self; have h5 := h.half_add_half
  refine mat2_ext ?_ ?_ ?_ ?_ <;> grind

end lawful
end Q1t.Proofs.Square

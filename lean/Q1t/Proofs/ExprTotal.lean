import Q1t.Model.Expr
/-!
C14, part 1: the recursion budget of the model is never exhausted, every successful parse at every
level consumes at least one character, the result does not depend on the budget, no `panic`.
(Core Lean only.)
-/
namespace Q1t.Proofs.Expr
open Q1t.Expr

/-! ### Lexer: lengths -/

theorem dropWs_length_le (s : List Char) : (dropWs s).length ≤ s.length := by
  unfold dropWs
  induction s with
  | nil => simp
  | cons c t ih =>
    simp only [List.dropWhile_cons]
    split
    · simp only [List.length_cons]; omega
    · simp

theorem stripPrefix_length {p s r : List Char} (h : stripPrefix p s = some r) :
    r.length + p.length = s.length := by
  induction p generalizing s with
  | nil => simp [stripPrefix] at h; subst h; simp
  | cons a ps ih =>
    cases s with
    | nil => simp [stripPrefix] at h
    | cons c cs =>
      simp only [stripPrefix] at h
      split at h
      · have := ih h; simp only [List.length_cons]; omega
      · simp at h

theorem reLit_lt {c : Char} {p s r : List Char} (h : reLit (c :: p) s = some r) :
    r.length < s.length := by
  unfold reLit at h
  have h1 := stripPrefix_length h
  have h2 := dropWs_length_le s
  simp only [List.length_cons] at h1
  omega

theorem reOp2_lt {x y c : Char} {s r : List Char} (h : reOp2 x y s = some (c, r)) :
    r.length < s.length := by
  unfold reOp2 at h
  have h2 := dropWs_length_le s
  split at h
  · rename_i c' t heq
    split at h
    · simp only [Option.some.injEq, Prod.mk.injEq] at h
      rw [heq] at h2; simp only [List.length_cons] at h2
      obtain ⟨_, rfl⟩ := h; omega
    · simp at h
  · simp at h

theorem dropWhile_length_le (p : Char → Bool) (s : List Char) : (s.dropWhile p).length ≤ s.length := by
  induction s with
  | nil => simp
  | cons c t ih =>
    simp only [List.dropWhile_cons]
    split
    · simp only [List.length_cons]; omega
    · simp

theorem optSign_le (r : List Char) : (optSign r).2.length ≤ r.length := by
  unfold optSign
  split
  · split <;> simp
  · simp

theorem reExponent_le (r : List Char) : (reExponent r).2.length ≤ r.length := by
  unfold reExponent
  split
  · rename_i e r1
    by_cases he : (e = 'e' || e = 'E') = true
    · rw [if_pos he]
      dsimp only
      have h1 := optSign_le r1
      have h2 := dropWhile_length_le DecFloat.isDigit (optSign r1).2
      by_cases hd : (List.takeWhile DecFloat.isDigit (optSign r1).2).isEmpty = true
      · rw [if_pos hd]; simp
      · rw [if_neg hd]; simp only [List.length_cons]; omega
    · rw [if_neg he]; simp
  · simp

theorem reMantissa_lt {s m r : List Char} (h : reMantissa s = some (m, r)) : r.length < s.length := by
  unfold reMantissa at h
  dsimp only at h
  split at h
  · split at h
    · rename_i r2 heq
      simp only [Option.some.injEq, Prod.mk.injEq] at h
      obtain ⟨_, rfl⟩ := h
      have h1 := dropWhile_length_le DecFloat.isDigit s
      have h2 := dropWhile_length_le DecFloat.isDigit r2
      rw [heq] at h1; simp only [List.length_cons] at h1; omega
    · simp at h
  · split at h
    · rename_i r2 _
      split at h
      · simp at h
      · simp only [Option.some.injEq, Prod.mk.injEq] at h
        obtain ⟨_, rfl⟩ := h
        have h2 := dropWhile_length_le DecFloat.isDigit r2
        simp only [List.length_cons]; omega
    · simp at h

theorem reReal_lt {s t r : List Char} (h : reReal s = some (t, r)) : r.length < s.length := by
  unfold reReal at h
  split at h
  · rename_i m r0 heq
    simp only [Option.some.injEq, Prod.mk.injEq] at h
    obtain ⟨_, rfl⟩ := h
    have h1 := reMantissa_lt heq
    have h2 := reExponent_le r0
    have h3 := dropWs_length_le s
    omega
  · simp at h

theorem reInteger_lt {s t r : List Char} (h : reInteger s = some (t, r)) : r.length < s.length := by
  unfold reInteger at h
  have h3 := dropWs_length_le s
  split at h
  · rename_i c t' heq
    rw [heq] at h3; simp only [List.length_cons] at h3
    split at h
    · simp only [Option.some.injEq, Prod.mk.injEq] at h
      obtain ⟨_, rfl⟩ := h
      have := dropWhile_length_le DecFloat.isDigit t'
      omega
    · split at h
      · simp only [Option.some.injEq, Prod.mk.injEq] at h
        obtain ⟨_, rfl⟩ := h; omega
      · simp at h
  · simp at h

theorem reFunOpen_go_lt {s0 : List Char} (names : List (List Char)) {nm r : List Char}
    (h : reFunOpen.go s0 names = some (nm, r)) : r.length < s0.length := by
  induction names with
  | nil => simp [reFunOpen.go] at h
  | cons n more ih =>
    simp only [reFunOpen.go] at h
    split at h
    · rename_i r1 h1
      split at h
      · rename_i r2 h2
        simp only [Option.some.injEq, Prod.mk.injEq] at h
        obtain ⟨_, rfl⟩ := h
        have a := stripPrefix_length h1
        have b := reLit_lt h2
        omega
      · exact ih h
    · exact ih h

theorem reFunOpen_lt {s nm r : List Char} (h : reFunOpen s = some (nm, r)) : r.length < s.length := by
  unfold reFunOpen at h
  have := reFunOpen_go_lt _ h
  have := dropWs_length_le s
  omega

/-! ### Outcome predicates -/

/-- A successful result leaves strictly less text; no `fuel`, no `panic`. -/
def Shrinks (s : List Char) : PRes → Prop
  | .ok (_, r) => r.length < s.length
  | .err _ => True
  | .panic => False
  | .fuel => False

/-- A successful result leaves at most the text it was given (loops may consume nothing). -/
def ShrinksLe (s : List Char) : PRes → Prop
  | .ok (_, r) => r.length ≤ s.length
  | .err _ => True
  | .panic => False
  | .fuel => False

theorem Shrinks.mono {s s' : List Char} {x : PRes} (h : Shrinks s x) (hl : s.length ≤ s'.length) :
    Shrinks s' x := by
  cases x with
  | ok a => obtain ⟨e, r⟩ := a; simp only [Shrinks] at *; omega
  | err e => trivial
  | panic => exact h
  | fuel => exact h

theorem parseRealLiteral_shrinks (s : List Char) : Shrinks s (parseRealLiteral s) := by
  unfold parseRealLiteral
  split
  · rename_i txt rest h; exact reReal_lt h
  · split
    · rename_i txt rest h
      split
      · exact reInteger_lt h
      · trivial
    · split
      · rename_i rest h; exact reLit_lt h
      · trivial

/-- Hypothesis on the sum-level parser passed into a level: it behaves on all text shorter than `s`. -/
def SumOK (sum : List Char → PRes) (s : List Char) : Prop :=
  ∀ r : List Char, r.length < s.length → Shrinks r (sum r)

theorem SumOK.mono {sum} {s s' : List Char} (h : SumOK sum s) (hl : s'.length ≤ s.length) : SumOK sum s' :=
  fun r hr => h r (by omega)

theorem parseParen_shrinks {sum} {s : List Char} (hs : SumOK sum s) : Shrinks s (parseParen sum s) := by
  unfold parseParen
  split
  · rename_i r h
    have hr := reLit_lt h
    have := hs r hr
    split
    · rename_i result rest heq
      rw [heq] at this
      split
      · rename_i r2 h2
        have := reLit_lt h2
        simp only [Shrinks] at *; omega
      · trivial
    · rename_i other hne
      cases hh : sum r with
      | ok a => exact absurd hh (by obtain ⟨e, r'⟩ := a; exact hne e r')
      | err e => trivial
      | panic => rw [hh] at this; exact this
      | fuel => rw [hh] at this; exact this
  · exact parseRealLiteral_shrinks s

theorem parseFunction_shrinks {sum} {s : List Char} (hs : SumOK sum s) : Shrinks s (parseFunction sum s) := by
  unfold parseFunction
  split
  · rename_i name r h
    have hr := reFunOpen_lt h
    have := hs r hr
    split
    · rename_i result rest heq
      rw [heq] at this
      split
      · rename_i r2 h2
        have := reLit_lt h2
        simp only [Shrinks] at *; omega
      · trivial
    · rename_i other hne
      cases hh : sum r with
      | ok a => exact absurd hh (by obtain ⟨e, r'⟩ := a; exact hne e r')
      | err e => trivial
      | panic => rw [hh] at this; exact this
      | fuel => rw [hh] at this; exact this
  · exact parseParen_shrinks hs

theorem parsePower_shrinks {sum} : ∀ (n : Nat) (s : List Char), s.length < n → SumOK sum s →
    Shrinks s (parsePower sum n s)
  | 0, _, h, _ => by omega
  | n + 1, s, hn, hs => by
    simp only [parsePower]
    have hf := parseFunction_shrinks hs
    split
    · rename_i left rest heq
      rw [heq] at hf
      simp only [Shrinks] at hf
      split
      · rename_i r hr
        have hlt := reLit_lt hr
        have ih := parsePower_shrinks n r (by omega) (hs.mono (by omega))
        split
        · rename_i right newRest heq2
          rw [heq2] at ih
          simp only [Shrinks] at *; omega
        · rename_i other hne
          cases hh : parsePower sum n r with
          | ok a => exact absurd hh (by obtain ⟨e, r'⟩ := a; exact hne e r')
          | err e => trivial
          | panic => rw [hh] at ih; exact ih
          | fuel => rw [hh] at ih; exact ih
      · exact hf
    · rename_i other hne
      cases hh : parseFunction sum s with
      | ok a => exact absurd hh (by obtain ⟨e, r'⟩ := a; exact hne e r')
      | err e => trivial
      | panic => rw [hh] at hf; exact hf
      | fuel => rw [hh] at hf; exact hf

theorem negLoop_ok : ∀ (n : Nat) (b : Bool) (s : List Char), s.length < n →
    ∃ flip r, negLoop n b s = .ok (flip, r) ∧ r.length ≤ s.length
  | 0, _, _, h => by omega
  | n + 1, b, s, hn => by
    simp only [negLoop]
    split
    · rename_i r hr
      have hlt := reLit_lt hr
      obtain ⟨f, r', h1, h2⟩ := negLoop_ok n (!b) r (by omega)
      exact ⟨f, r', h1, by omega⟩
    · exact ⟨b, s, rfl, Nat.le_refl _⟩

theorem parseNegative_shrinks {sum} {n : Nat} {s : List Char} (hn : s.length < n) (hs : SumOK sum s) :
    Shrinks s (parseNegative sum n s) := by
  unfold parseNegative
  obtain ⟨f, r, h1, h2⟩ := negLoop_ok n false s hn
  rw [h1]
  dsimp only
  have hp := parsePower_shrinks (sum := sum) n r (by omega) (hs.mono h2)
  cases hh : parsePower sum n r with
  | ok a =>
    obtain ⟨e, r'⟩ := a
    rw [hh] at hp
    dsimp only
    split <;> (simp only [Shrinks] at *; omega)
  | err e => trivial
  | panic => rw [hh] at hp; exact hp
  | fuel => rw [hh] at hp; exact hp

theorem productLoop_shrinksLe {sum} : ∀ (n : Nat) (left : Expr) (rest : List Char), rest.length < n →
    SumOK sum rest → ShrinksLe rest (productLoop sum n left rest)
  | 0, _, _, h, _ => by omega
  | n + 1, left, rest, hn, hs => by
    simp only [productLoop]
    split
    · rename_i c r hr
      have hlt := reOp2_lt hr
      have hneg := parseNegative_shrinks (sum := sum) (n := n) (s := r) (by omega) (hs.mono (by omega))
      cases hh : parseNegative sum n r with
      | ok a =>
        obtain ⟨right, newRest⟩ := a
        rw [hh] at hneg
        simp only [Shrinks] at hneg
        dsimp only
        have ih := productLoop_shrinksLe n (if c = '*' then .product left right else .quotient left right)
          newRest (by omega) (hs.mono (by omega))
        cases h2 : productLoop sum n (if c = '*' then .product left right else .quotient left right) newRest with
        | ok a => obtain ⟨e, r'⟩ := a; rw [h2] at ih; simp only [ShrinksLe] at *; omega
        | err e => trivial
        | panic => rw [h2] at ih; exact ih
        | fuel => rw [h2] at ih; exact ih
      | err e => trivial
      | panic => rw [hh] at hneg; exact hneg
      | fuel => rw [hh] at hneg; exact hneg
    · simp [ShrinksLe]

theorem parseProduct_shrinks {sum} {n : Nat} {s : List Char} (hn : s.length < n) (hs : SumOK sum s) :
    Shrinks s (parseProduct sum n s) := by
  unfold parseProduct
  have hneg := parseNegative_shrinks (sum := sum) hn hs
  cases hh : parseNegative sum n s with
  | ok a =>
    obtain ⟨left, rest⟩ := a
    rw [hh] at hneg
    simp only [Shrinks] at hneg
    dsimp only
    have hl := productLoop_shrinksLe (sum := sum) n left rest (by omega) (hs.mono (by omega))
    cases h2 : productLoop sum n left rest with
    | ok a => obtain ⟨e, r'⟩ := a; rw [h2] at hl; simp only [ShrinksLe, Shrinks] at *; omega
    | err e => trivial
    | panic => rw [h2] at hl; exact hl
    | fuel => rw [h2] at hl; exact hl
  | err e => trivial
  | panic => rw [hh] at hneg; exact hneg
  | fuel => rw [hh] at hneg; exact hneg

theorem sumLoop_shrinksLe {sum} : ∀ (n : Nat) (left : Expr) (rest : List Char), rest.length < n →
    SumOK sum rest → ShrinksLe rest (sumLoop sum n left rest)
  | 0, _, _, h, _ => by omega
  | n + 1, left, rest, hn, hs => by
    simp only [sumLoop]
    split
    · rename_i c r hr
      have hlt := reOp2_lt hr
      have hp := parseProduct_shrinks (sum := sum) (n := n) (s := r) (by omega) (hs.mono (by omega))
      cases hh : parseProduct sum n r with
      | ok a =>
        obtain ⟨right, newRest⟩ := a
        rw [hh] at hp
        simp only [Shrinks] at hp
        dsimp only
        have ih := sumLoop_shrinksLe n (if c = '+' then .sum left right else .difference left right)
          newRest (by omega) (hs.mono (by omega))
        cases h2 : sumLoop sum n (if c = '+' then .sum left right else .difference left right) newRest with
        | ok a => obtain ⟨e, r'⟩ := a; rw [h2] at ih; simp only [ShrinksLe] at *; omega
        | err e => trivial
        | panic => rw [h2] at ih; exact ih
        | fuel => rw [h2] at ih; exact ih
      | err e => trivial
      | panic => rw [hh] at hp; exact hp
      | fuel => rw [hh] at hp; exact hp
    · simp [ShrinksLe]

/-- The sum level with budget `n > length`: never out of budget, never `panic`, consumes on success. -/
theorem parseSum_shrinks : ∀ (n : Nat) (s : List Char), s.length < n → Shrinks s (parseSum n s)
  | 0, _, h => by omega
  | n + 1, s, hn => by
    simp only [parseSum]
    have hs : SumOK (parseSum n) s := fun r hr => parseSum_shrinks n r (by omega)
    have hp := parseProduct_shrinks (sum := parseSum n) (n := n + 1) hn hs
    cases hh : parseProduct (parseSum n) (n + 1) s with
    | ok a =>
      obtain ⟨left, rest⟩ := a
      rw [hh] at hp
      simp only [Shrinks] at hp
      dsimp only
      have hl := sumLoop_shrinksLe (sum := parseSum n) (n + 1) left rest (by omega) (hs.mono (by omega))
      cases h2 : sumLoop (parseSum n) (n + 1) left rest with
      | ok a => obtain ⟨e, r'⟩ := a; rw [h2] at hl; simp only [ShrinksLe, Shrinks] at *; omega
      | err e => trivial
      | panic => rw [h2] at hl; exact hl
      | fuel => rw [h2] at hl; exact hl
    | err e => trivial
    | panic => rw [hh] at hp; exact hp
    | fuel => rw [hh] at hp; exact hp

theorem parse_shrinks (s : List Char) : Shrinks s (parse s) :=
  parseSum_shrinks (s.length + 1) s (Nat.lt_succ_self _)

theorem parse_ne_fuel (s : List Char) : parse s ≠ .fuel := by
  have := parse_shrinks s
  intro h; rw [h] at this; exact this

theorem parse_ne_panic (s : List Char) : parse s ≠ .panic := by
  have := parse_shrinks s
  intro h; rw [h] at this; exact this

theorem parse_consumes (s : List Char) (e : Expr) (r : List Char) (h : parse s = .ok (e, r)) :
    r.length < s.length := by
  have := parse_shrinks s
  rw [h] at this; exact this

theorem parse_total (s : List Char) :
    (∃ e r, parse s = .ok (e, r) ∧ r.length < s.length) ∨ (∃ err, parse s = .err err) := by
  have := parse_shrinks s
  cases h : parse s with
  | ok a => obtain ⟨e, r⟩ := a; rw [h] at this; exact .inl ⟨e, r, rfl, this⟩
  | err e => exact .inr ⟨e, rfl⟩
  | panic => rw [h] at this; exact this.elim
  | fuel => rw [h] at this; exact this.elim

end Q1t.Proofs.Expr

import Q1t.Proofs.TableauStabG
import Q1t.Proofs.PauliMatVec
import Q1t.Proofs.ConjTerm
import Q1t.Proofs.ConjEmbed
set_option linter.unusedSectionVars false
set_option linter.unusedVariables false
set_option linter.unusedSimpArgs false
/-!
C03, general-ring part 4 (all `n`): **`apply_gate` follows the embedded matrix.**

If `StabG t ψ`, the placement is valid, and the gate's conjugation rule is exact for a matrix `M`
(`RuleExact`, the statement of C06), then a returning `apply_gate(g, bits)` yields a tableau that stabilizes
`embed n bits M · ψ`.  Row by row through `embed_exact` (C06) and the bridge `mulVec_pauliMat`, then through
`normalize_inv`.
-/
namespace Q1t.Proofs.TabG
open Q1t Q1t.LMat Q1t.Spec Q1t.Spec.Clifford Q1t.Tableau Q1t.Spec.Pauli Q1t.Proofs.Tableau Q1t.Conj
open Q1t.Proofs.ConjBridge Q1t.Proofs.ConjTerm

variable {α A : Type} [CommRing α] [Amp α A]

/-- a model-side `Tab.Conj` from a C06 rule -/
def conjOfRule (rule : List P → Conj.Result) : Tab.Conj := fun ops =>
  match rule ops with
  | .ok r => .ok r
  | .error (.invalidNrBits a b) => .error (.invalidNrBits a b)
  | .error .notAStabilizer => .error .notAStabilizer
  | .error .oob => .error .notAStabilizer

theorem conjOfRule_ok {rule : List P → Conj.Result} {ops : List P} {r : Bool × List P}
    (h : conjOfRule rule ops = .ok r) : rule ops = .ok r := by
  unfold conjOfRule at h
  split at h
  · cases h; assumption
  · cases h
  · cases h
  · cases h

/-! ### scalars and matrices -/

theorem mulVec_map_mul {n m : Nat} {M : LMat α} (hM : WF n m M) (c : α) (v : List α) :
    mulVec M (v.map (c * ·)) = (mulVec M v).map (c * ·) := by
  apply List.ext_getElem
  · simp [mulVec_length]
  · intro i h1 h2
    have hi : i < n := by rw [mulVec_length, hM.1] at h1; exact h1
    rw [mulVec_getElem hM _ i hi, List.getElem_map, mulVec_getElem hM _ i hi, Finset.mul_sum]
    apply Finset.sum_congr rfl
    intro k _
    have : (v.map (c * ·)).getD k 0 = c * v.getD k 0 := by
      simp only [List.getD_eq_getElem?_getD, List.getElem?_map]
      cases v[k]? <;> simp
    rw [this]; ring

theorem mulVec_smul {n m : Nat} {M : LMat α} (hM : WF n m M) (k : Nat) (v : List α) :
    mulVec M (smul A k v) = smul A k (mulVec M v) := mulVec_map_mul hM _ v

theorem sgn_eq_pow (h : LawfulAmp α A) (flip : Bool) : (sgn flip : α) = (Amp.I A : α) ^ (if flip then 2 else 0) := by
  cases flip
  · simp [sgn]
  · simp [sgn, I_sq h]

/-- an intertwining relation, applied to a vector -/
theorem intertwines_vec (h : LawfulAmp α A) {n : Nat} {E : LMat α} (hE : WF (2 ^ n) (2 ^ n) E)
    {Q Q' : List P} (hQ : Q.length = n) (hQ' : Q'.length = n) {flip : Bool}
    (hint : Intertwines A E Q flip Q') (ψ : List α) (hψ : ψ.length = 2 ^ n) :
    mulVec E (actOps A Q ψ) = smul A (if flip then 2 else 0) (actOps A Q' (mulVec E ψ)) := by
  have hN : 0 < 2 ^ n := Nat.two_pow_pos n
  have hP := wf_pauliMat' (α := α) (A := A) hQ
  have hP' := wf_pauliMat' (α := α) (A := A) hQ'
  have e : mulVec (mul E (pauliMat A Q)) ψ = mulVec (signed flip (mul (pauliMat A Q') E)) ψ := by
    unfold Intertwines at hint; rw [hint]
  rw [mulVec_mul hN hE hP, mulVec_signed (wf_mul hP' hE hN), mulVec_mul hN hP' hE,
    mulVec_pauliMat h Q ψ (by rw [hQ]; exact hψ),
    mulVec_pauliMat h Q' _ (by rw [mulVec_length, hE.1, hQ'])] at e
  rw [e, sgn_eq_pow h]; rfl

/-- one conjugated row: if `(s, r)` fixes `ψ` and `E·P(r) = ±P(r')·E`, then `(s xor flip, r')` fixes `E·ψ` -/
theorem row_conj (h : LawfulAmp α A) {n : Nat} {E : LMat α} (hE : WF (2 ^ n) (2 ^ n) E)
    {r r' : List P} (hr : r.length = n) (hr' : r'.length = n) {flip : Bool}
    (hint : Intertwines A E r flip r') (s : Bool) (ψ : List α) (hψ : ψ.length = 2 ^ n)
    (hfix : act (A := A) (rowStr s r) ψ = ψ) :
    act (A := A) (rowStr (s != flip) r') (mulVec E ψ) = mulVec E ψ := by
  have key := intertwines_vec h hE hr hr' hint ψ hψ
  have e : mulVec E ψ = mulVec E (act (A := A) (rowStr s r) ψ) := by rw [hfix]
  unfold act at e ⊢
  simp only [rowStr] at e ⊢
  rw [mulVec_smul hE, key, smul_smul] at e
  conv_rhs => rw [e]
  apply smul_congr_mod h
  cases s <;> cases flip <;> rfl

/-! ### the row loop of `apply_gate` against `gather` / `scatter` -/

theorem gatherOps_gather (t : Tab) (i : Nat) (r : List P) (hr : t.rows[i]? = some r) :
    ∀ (bits : List Nat) (L : List P), t.gatherOps i bits = .ok L → gather r bits = some L := by
  intro bits
  induction bits with
  | nil => intro L hL; cases hL; rfl
  | cons b bs ih =>
    intro L hL
    simp only [Tab.gatherOps, bind] at hL
    obtain ⟨p, hp, hL⟩ := bind_ok hL
    obtain ⟨ps, hps, hL⟩ := bind_ok hL
    cases hL
    have hp' : r[b]? = some p := by
      simp only [Tab.cell, Tab.row, hr, Res.ofOption, bind, Res.bind] at hp
      exact ofOption_ok hp
    have := ih ps hps
    simp only [gather, List.mapM_cons, hp'] at this ⊢
    rw [this]; rfl

theorem set_self_of_getElem? {β} (l : List β) (i : Nat) (x : β) (h : l[i]? = some x) : l.set i x = l := by
  apply List.ext_getElem?
  intro k
  rw [List.getElem?_set]
  split
  · rename_i hik; subst hik
    obtain ⟨hlt, hx⟩ := List.getElem?_eq_some_iff.mp h
    simp [hlt, h]; exact hx.symm
  · rfl

theorem scatterOps_scatter (i : Nat) : ∀ (bits : List Nat) (L : List P) (t t2 : Tab) (r : List P),
    t.rows[i]? = some r → Tab.scatterOps i bits L t = .ok t2 →
      t2 = { t with rows := t.rows.set i (scatter r bits L) } := by
  intro bits
  induction bits with
  | nil =>
    intro L t t2 r hr h
    simp only [Tab.scatterOps] at h
    cases h
    cases t
    simp only [scatter, List.zip_nil_left, List.foldl_nil] at hr ⊢
    rw [set_self_of_getElem? _ i r hr]
  | cons b bs ih =>
    intro L t t2 r hr h
    cases L with
    | nil =>
      simp only [Tab.scatterOps] at h
      cases h
      cases t
      simp only [scatter, List.zip_nil_right, List.foldl_nil] at hr ⊢
      rw [set_self_of_getElem? _ i r hr]
    | cons p ps =>
      simp only [Tab.scatterOps, bind] at h
      obtain ⟨t1, ht1, h⟩ := bind_ok h
      simp only [Tab.setCell, Tab.row, hr, Res.ofOption, bind, Res.bind] at ht1
      split at ht1
      · cases ht1
        have hi : i < t.rows.length := (List.getElem?_eq_some_iff.mp hr).1
        have := ih ps _ t2 (r.set b p) (by simp [hi]) h
        rw [this]
        simp [scatter, List.set_set]
      · cases ht1


/-! ### the row loop -/

variable (A) in
/-- row `k` of `t` (if present) has length `n` and fixes `φ` -/
def RowFix (n : Nat) (t : Tab) (k : Nat) (φ : List α) : Prop :=
  ∀ s r, t.signs[k]? = some s → t.rows[k]? = some r → r.length = n ∧ act (A := A) (rowStr s r) φ = φ

def Shape (n : Nat) (t : Tab) : Prop := t.n = n ∧ t.rows.length = n ∧ t.signs.length = n

theorem gather_length (r : List P) : ∀ (bits : List Nat) (L : List P), gather r bits = some L → L.length = bits.length := by
  intro bits
  induction bits with
  | nil => intro L h; simp [gather] at h; subst h; rfl
  | cons b bs ih =>
    intro L h
    simp only [gather, List.mapM_cons] at h
    cases hb : r[b]? with
    | none => simp [hb] at h
    | some p =>
      cases hbs : bs.mapM (fun b => r[b]?) with
      | none => simp [hb, hbs] at h
      | some ps =>
        simp [hb, hbs] at h
        subst h
        simp [ih ps hbs]

/-- one iteration of the row loop of `apply_gate` -/
theorem conjRow_step (h : LawfulAmp α A) {n : Nat} {M : LMat α} {bits : List Nat} (hv : validBits n bits = true)
    (hM : WF (2 ^ bits.length) (2 ^ bits.length) M) {rule : List P → Conj.Result}
    (hrule : RuleExact A M bits.length rule) (ψ : List α) (hψ : ψ.length = 2 ^ n)
    (t t3 : Tab) (i : Nat) (hi : i < n) (hsh : Shape n t) (hfix : RowFix A n t i ψ)
    (hstep : (do
      let ops ← t.gatherOps i bits
      match conjOfRule rule ops with
      | .error e => Res.err e
      | .ok (flip, ops') =>
        let t ← Tab.scatterOps i bits ops' t
        let s ← t.sign i
        t.setSign i (s != flip)) = Res.ok t3) :
    Shape n t3 ∧ RowFix A n t3 i (mulVec (embed n bits M) ψ) ∧
      ∀ k, k ≠ i → ∀ φ : List α, RowFix A n t k φ → RowFix A n t3 k φ := by
  obtain ⟨hn, hrl, hsl⟩ := hsh
  have hri : t.rows[i]? = some t.rows[i] := List.getElem?_eq_getElem (by omega)
  have hsi : t.signs[i]? = some t.signs[i] := List.getElem?_eq_getElem (by omega)
  obtain ⟨hrlen, hact⟩ := hfix _ _ hsi hri
  generalize t.rows[i] = r at hri hrlen hact
  generalize t.signs[i] = s at hsi hact
  simp only [bind] at hstep
  obtain ⟨L, hL, hstep⟩ := bind_ok hstep
  have hg := gatherOps_gather t i r hri bits L hL
  have hLlen := gather_length r bits L hg
  obtain ⟨flip, L', hr, hL'len, hint⟩ := hrule L hLlen
  have hc : conjOfRule rule L = .ok (flip, L') := by unfold conjOfRule; rw [hr]
  rw [hc] at hstep
  simp only [] at hstep
  obtain ⟨t2, ht2, hstep⟩ := bind_ok hstep
  have e2 := scatterOps_scatter i bits L' t t2 r hri ht2
  subst e2
  obtain ⟨s', hs', hstep⟩ := bind_ok hstep
  simp only [Tab.sign] at hs'
  have hs'' := ofOption_ok hs'
  rw [hsi] at hs''
  cases hs''
  simp only [Tab.setSign] at hstep
  split at hstep
  case isFalse hx => cases hstep
  cases hstep
  have hE : WF (2 ^ n) (2 ^ n) (embed n bits M) := Q1t.Proofs.Route.embed_wf n bits M
  have hemb := Q1t.Proofs.ConjEmbed.embed_exact (α := α) (A := A) n bits M r L L' flip hv hrlen hM hg hL'len hint
  have hr'len : (scatter r bits L').length = n := by rw [scatter_length, hrlen]
  refine ⟨⟨hn, by simp [hrl], by simp [hsl]⟩, ?_, ?_⟩
  · intro s2 r2 hs2 hr2
    simp only [List.getElem?_set, if_true, hrl, hsl, hi] at hs2 hr2
    cases hs2; cases hr2
    exact ⟨hr'len, row_conj h hE hrlen hr'len hemb s ψ hψ hact⟩
  · intro k hk φ hfk s2 r2 hs2 hr2
    simp only [List.getElem?_set, Ne.symm hk, if_false] at hs2 hr2
    exact hfk s2 r2 hs2 hr2

theorem conjRows_inv (h : LawfulAmp α A) {n : Nat} {M : LMat α} {bits : List Nat} (hv : validBits n bits = true)
    (hM : WF (2 ^ bits.length) (2 ^ bits.length) M) {rule : List P → Conj.Result}
    (hrule : RuleExact A M bits.length rule) (ψ : List α) (hψ : ψ.length = 2 ^ n) :
    ∀ (is : List Nat) (t t1 : Tab), is.Nodup → (∀ i ∈ is, i < n) → Shape n t → (∀ k ∈ is, RowFix A n t k ψ) →
      Tab.conjRows (conjOfRule rule) bits is t = .ok t1 →
      Shape n t1 ∧ (∀ k ∈ is, RowFix A n t1 k (mulVec (embed n bits M) ψ)) ∧
        ∀ k, k ∉ is → ∀ φ : List α, RowFix A n t k φ → RowFix A n t1 k φ := by
  intro is
  induction is with
  | nil =>
    intro t t1 _ _ hsh _ hok
    cases hok
    exact ⟨hsh, fun k hk => absurd hk (List.not_mem_nil), fun k _ φ hf => hf⟩
  | cons i rest ih =>
    intro t t1 hnd hlt hsh hfix hok
    have hnd' := List.nodup_cons.mp hnd
    -- split the first iteration off
    have hsplit : ∃ t3, (do
        let ops ← t.gatherOps i bits
        match conjOfRule rule ops with
        | .error e => Res.err e
        | .ok (flip, ops') =>
          let t ← Tab.scatterOps i bits ops' t
          let s ← t.sign i
          t.setSign i (s != flip)) = Res.ok t3 ∧ Tab.conjRows (conjOfRule rule) bits rest t3 = .ok t1 := by
      simp only [Tab.conjRows, bind] at hok ⊢
      obtain ⟨L, hL, hok⟩ := bind_ok hok
      rw [hL]
      simp only [Res.bind]
      cases hc : conjOfRule rule L with
      | error e => rw [hc] at hok; cases hok
      | ok fo =>
        obtain ⟨flip, ops'⟩ := fo
        rw [hc] at hok
        simp only [] at hok ⊢
        obtain ⟨t2, ht2, hok⟩ := bind_ok hok
        obtain ⟨s, hs, hok⟩ := bind_ok hok
        obtain ⟨t3, ht3, hok⟩ := bind_ok hok
        exact ⟨t3, by rw [ht2]; simp only [Res.bind]; rw [hs]; simp only [Res.bind]; exact ht3, hok⟩
    obtain ⟨t3, hstep, hrest⟩ := hsplit
    obtain ⟨hsh3, hfi, hothers⟩ := conjRow_step h hv hM hrule ψ hψ t t3 i (hlt i (List.mem_cons_self ..)) hsh
      (hfix i (List.mem_cons_self ..)) hstep
    obtain ⟨hsh1, hdone, hkeep⟩ := ih t3 t1 hnd'.2 (fun k hk => hlt k (List.mem_cons_of_mem _ hk)) hsh3
      (fun k hk => hothers k (fun e => hnd'.1 (e ▸ hk)) ψ (hfix k (List.mem_cons_of_mem _ hk))) hrest
    refine ⟨hsh1, ?_, ?_⟩
    · intro k hk
      rcases List.mem_cons.mp hk with rfl | hk'
      · exact hkeep k hnd'.1 _ hfi
      · exact hdone k hk'
    · intro k hk φ hf
      have hki : k ≠ i := fun e => hk (e ▸ List.mem_cons_self ..)
      exact hkeep k (fun hm => hk (List.mem_cons_of_mem _ hm)) φ (hothers k hki φ hf)

/-- **`apply_gate` stabilizes the image state, all `n`.**  If `t` stabilizes `ψ`, the placement `bits` is
valid for an `n`-qubit register, and the rule `rule` is exact for the `2^k × 2^k` matrix `M`
(`k = bits.length`), then whenever `apply_gate` (conjugate every row, then `normalize`) returns `t'`,
`t'` stabilizes `embed n bits M · ψ`. -/
theorem applyGate_stabilizes (h : LawfulAmp α A) {ph : List Nat} (hph : PhaseTableCorrect ph)
    {M : LMat α} {bits : List Nat} {rule : List P → Conj.Result} (t t' : Tab) (ψ : List α)
    (hst : StabG A t ψ) (hv : validBits t.n bits = true) (hM : WF (2 ^ bits.length) (2 ^ bits.length) M)
    (hrule : RuleExact A M bits.length rule)
    (hok : t.applyGate ph (conjOfRule rule) bits = .ok t') :
    StabG A t' (mulVec (embed t.n bits M) ψ) ∧ t'.n = t.n := by
  obtain ⟨hψ, h2, h3, h4⟩ := hst
  simp only [Tab.applyGate, bind] at hok
  obtain ⟨t1, ht1, hok⟩ := bind_ok hok
  obtain ⟨hsh1, hdone, _⟩ := conjRows_inv h hv hM hrule ψ hψ (List.range t.n) t t1 List.nodup_range
    (fun i hi => List.mem_range.mp hi) ⟨rfl, h2, h3⟩ (fun k _ s r hs hr => h4 k s r hs hr) ht1
  have hE : WF (2 ^ t.n) (2 ^ t.n) (embed t.n bits M) := Q1t.Proofs.Route.embed_wf t.n bits M
  have hst1 : StabG A t1 (mulVec (embed t.n bits M) ψ) := by
    refine ⟨by rw [mulVec_length, hE.1, hsh1.1], by rw [hsh1.2.1, hsh1.1], by rw [hsh1.2.2, hsh1.1], ?_⟩
    intro i s r hs hr
    have hi : i < t.n := by
      have := (List.getElem?_eq_some_iff.mp hr).1
      rw [hsh1.2.1] at this; exact this
    rw [hsh1.1]
    exact hdone i (List.mem_range.mpr hi) s r hs hr
  obtain ⟨sg, hn, _⟩ := normalize_inv h hph t1 t' (wf_of_stabG t1 _ hst1) hok
  exact ⟨(sg _).mpr hst1, hn.trans hsh1.1⟩

end Q1t.Proofs.TabG

import Q1t.Proofs.SimGFStep
import Q1t.Proofs.SimGFAll
/-!
C01, step 6: the fragment F and the multinomial law `exec_gf` of the simulator model
(see `SimGFStep.lean` for the hypotheses `Hyps` and the per-operation lemmas, `SimGFAll.lean` for `measure_all`).

* `InF n valid op` — the fragment F, per operation: no `peek`, `peek_all`, `reset_all`; gate placements
  valid; qubits `< n`; classical bits `< 64` (a larger one is a shift-overflow panic, D10); control lists of at
  most 64 bits `< 64`; `measure_all` (any basis) with `n` distinct classical bits.
* `op_step`, `exec_gf` (induction over the operation list), `histogram_gf` (from `|0…0⟩`, `N ≥ 1` shots),
  `zero_prob_never`, `gfShot_one` / `exec_total` (a circuit of F never fails: total probability 1).
  The order oracle `ord` of the categorical node must list its input in some order: `(ord l).Perm l`.
-/
set_option linter.unusedSectionVars false
set_option linter.unusedSimpArgs false
set_option linter.unusedVariables false
namespace Q1t.Sim.SimGF
open Q1t Q1t.Sim Q1t.Spec Q1t.Sim.Prog Finset

variable {α P R : Type}

section exec
variable [CommRing α] [Amp α P] [SimAmp α] [CommRing R] {nz : α → Prop} {n N : Nat}
variable {valid : GateTerm P → List Nat → Prop}

/-- **the fragment F**, per operation -/
def InF (n : Nat) (valid : GateTerm P → List Nat → Prop) : COp P → Prop
  | .gate g bits => valid g bits
  | .cond control _ g bits => valid g bits ∧ ctlOK control
  | .measure q c _ => q < n ∧ c < 64
  | .reset q => q < n
  | .measureAll cbits _ => cbits.length = n ∧ cbits.Nodup ∧ ∀ c ∈ cbits, c < 64
  | .barrier _ => True
  | .resetAll => False
  | .peek _ _ _ => False
  | .peekAll _ _ => False

variable {ord : List (Nat × Nat) → List (Nat × Nat)} (toR : α →+* R)

/-! ### one operation, operation lists -/

theorem op_step (hord : ∀ l, (ord l).Perm l) (H : Hyps α P nz n valid) {rs : List (Rng α)} (hgood : Good n N rs) {op : COp P}
    (hop : InF n valid op) {K : VecState α × List Nat → R} {g : List α × Nat → R}
    (hK : Mult n N K g) (hg : Scales (P := P) toR g) :
    expectOrd ord toR (execOp (vecBackend (α := α) (P := P)) (mkState n N rs) (mkReg rs) op) K =
      value (stepGf n op g) rs := by
  cases op with
  | gate gt bits =>
    have := mult_postGate ord toR H (show valid gt bits from hop) hK rs hgood
    simp only [execOp, vecBackend]
    exact this
  | cond control target gt bits => exact cond_step ord toR H hgood hop.1 hop.2 hK
  | measure q c b => exact measure_step ord toR H hgood b hop.1 hop.2 hK hg
  | reset q => exact reset_step ord toR H hgood hop hK hg
  | barrier _ => simp only [execOp, expectOrd_pure, stepGf]; exact hK rs hgood
  | measureAll cbits b =>
    obtain ⟨h1, h2, h3⟩ := hop
    exact measureAllB_step hord toR H hgood b h1 h2 h3 hK hg
  | resetAll => exact absurd hop id
  | peek _ _ _ => exact absurd hop id
  | peekAll _ _ => exact absurd hop id

/-- the observable of the multinomial law: `∏_shots x(word of the shot)` -/
def shotProd (x : Nat → R) (sc : VecState α × List Nat) : R := (sc.2.map x).prod

theorem shotProd_mkReg (x : Nat → R) (s : VecState α) (rs : List (Rng α)) :
    shotProd x (s, mkReg rs) = value (fun sw => x sw.2) rs := by
  simp only [shotProd, mkReg, value]
  induction rs with
  | nil => simp
  | cons r rs ih => simp [List.flatMap_cons, ih]

/-- **the multinomial law of the simulator model on F**: from every homogeneous normalised ranges state,
for every commutative ring `R`, every `x : Word → R`, every ordering oracle `ord` of the categorical
outcomes -/
theorem exec_gf (hord : ∀ l, (ord l).Perm l) (H : Hyps α P nz n valid) (x : Nat → R) : ∀ (ops : List (COp P)), (∀ op ∈ ops, InF n valid op) →
    ∀ rs : List (Rng α), Good n N rs →
    expectOrd ord toR (execOps (vecBackend (α := α) (P := P)) (mkState n N rs) (mkReg rs) ops) (shotProd x) =
      value (gfShot n toR x ops) rs := by
  intro ops
  induction ops with
  | nil =>
    intro _ rs hgood
    simp only [execOps, expectOrd_pure, shotProd_mkReg, gfShot]
    apply value_congr
    intro r hr
    rw [hgood.normed r hr, map_one, one_mul]
  | cons op rest ih =>
    intro hF rs hgood
    simp only [execOps]
    rw [expectOrd_bind]
    exact op_step toR hord H hgood (hF op (by simp))
      (fun rs' hg' => ih (fun o ho => hF o (by simp [ho])) rs' hg')
      (gfShot_scales toR H.amp H.sim n x rest)

/-! ### from `|0…0⟩` -/

/-- `|0…0⟩` -/
def ket0 (n : Nat) : List α := (List.range (2 ^ n)).map fun r => if r = 0 then (1 : α) else 0

theorem ket0_eq (n : Nat) : (ket0 n : List α) = 1 :: List.replicate (2 ^ n - 1) 0 := by
  obtain ⟨m, hm⟩ : ∃ m, 2 ^ n = m + 1 := ⟨2 ^ n - 1, by have := Nat.two_pow_pos n; omega⟩
  simp only [ket0, hm, List.range_succ_eq_map, List.map_cons, List.map_map, if_true, Nat.add_sub_cancel]
  congr 1
  apply List.ext_getElem
  · simp
  · intro i h1 h2; simp

theorem normSqSum_ket0 (H : Hyps α P nz n valid) (m : Nat) : normSqSum (ket0 m : List α) = 1 := by
  have h1 : SimAmp.normSq (1 : α) = 1 := by rw [H.sim.normSq_eq, H.amp.conj_one, one_mul]
  have h0 : SimAmp.normSq (0 : α) = 0 := H.sim.normSq_zero
  rw [ket0_eq, normSqSum, List.map_cons, List.sum_cons, h1, List.map_replicate, h0]
  simp

theorem new_eq_mkState (n N : Nat) : (VecState.new n N : VecState α) = mkState n N [(N, ket0 n, 0)] := by
  simp only [VecState.new, mkState, List.map_cons, List.map_nil, VecState.ofColumns, VecState.mk.injEq, true_and]
  apply List.map_congr_left
  intro r hr
  have hr' : r < 2 ^ n := List.mem_range.mp hr
  simp [ket0, List.getD_eq_getElem?_getD, hr']

theorem good_init (H : Hyps α P nz n valid) (hN : 0 < N) : Good n N [(N, (ket0 n : List α), 0)] := by
  refine ⟨⟨?_, ?_, ?_⟩, ?_⟩
  · intro r hr; simp only [List.mem_singleton] at hr; subst hr; exact hN
  · intro r hr; simp only [List.mem_singleton] at hr; subst hr; simp [ket0]
  · simp
  · intro r hr; simp only [List.mem_singleton] at hr; subst hr; exact normSqSum_ket0 H n

/-- **histogram law**: `N ≥ 1` shots of a circuit of F from `|0…0⟩`, register cleared: the generating
function of the register contents is the `N`-th power of the single-shot generating function -/
theorem histogram_gf (hord : ∀ l, (ord l).Perm l) (H : Hyps α P nz n valid) (x : Nat → R) (ops : List (COp P)) (hF : ∀ op ∈ ops, InF n valid op)
    (hN : 0 < N) :
    expectOrd ord toR (execOps (vecBackend (α := α) (P := P)) (VecState.new n N) (List.replicate N 0) ops)
      (shotProd x) = gfShot n toR x ops (ket0 n, 0) ^ N := by
  have := exec_gf toR hord H x ops hF _ (good_init (N := N) H hN)
  rw [← new_eq_mkState, show mkReg [(N, (ket0 n : List α), 0)] = List.replicate N 0 from by simp [mkReg]] at this
  rw [this]
  simp [value]

/-! ### linearity of the single-shot generating function in `x`; values of probability zero -/

theorem stepGf_add (op : COp P) (g g' : List α × Nat → R) (sw : List α × Nat) :
    stepGf n op (fun sw => g sw + g' sw) sw = stepGf n op g sw + stepGf n op g' sw := by
  cases op with
  | gate gt bits => rfl
  | cond control target gt bits =>
    simp only [stepGf]
    cases controlWord control sw.2 <;> simp
  | measure q c b => simp only [stepGf]; ring
  | reset q => simp only [stepGf]; ring
  | barrier _ => rfl
  | measureAll cbits b => simp only [stepGf]; rw [← List.sum_map_add]
  | resetAll => simp [stepGf]
  | peek _ _ _ => simp [stepGf]
  | peekAll _ _ => simp [stepGf]

theorem gfShot_add (x y : Nat → R) : ∀ (ops : List (COp P)) (sw : List α × Nat),
    gfShot n toR (fun v => x v + y v) ops sw = gfShot n toR x ops sw + gfShot n toR y ops sw := by
  intro ops
  induction ops with
  | nil => intro sw; simp only [gfShot]; ring
  | cons op rest ih =>
    intro sw
    simp only [gfShot]
    rw [show gfShot n (⇑toR) (fun v => x v + y v) rest = fun sw => gfShot n toR x rest sw + gfShot n toR y rest sw
      from funext ih]
    exact stepGf_add op _ _ sw

theorem prod_avoid (v : Nat) : ∀ l : List Nat,
    (l.map fun u => if u = v then (0 : R) else 1).prod = if v ∈ l then 0 else 1 := by
  intro l
  induction l with
  | nil => simp
  | cons u l ih =>
    rw [List.map_cons, List.prod_cons, ih]
    by_cases h : u = v
    · simp [h]
    · have : ¬ v = u := fun e => h e.symm
      simp [h, this]

/-- **values of probability zero never occur**: if the single-shot coefficient of the register value `v` is
zero, the expected value of the indicator "some shot shows `v`" is zero -/
theorem zero_prob_never (hord : ∀ l, (ord l).Perm l) (H : Hyps α P nz n valid) (ops : List (COp P)) (hF : ∀ op ∈ ops, InF n valid op)
    (hN : 0 < N) (v : Nat) (hv : gfShot n toR (fun u => if u = v then (1 : R) else 0) ops (ket0 n, 0) = 0) :
    expectOrd ord toR (execOps (vecBackend (α := α) (P := P)) (VecState.new n N) (List.replicate N 0) ops)
      (fun sc => if v ∈ sc.2 then (1 : R) else 0) = 0 := by
  have h1 := histogram_gf toR hord H (fun _ => (1 : R)) ops hF hN
  have h2 := histogram_gf toR hord H (fun u => if u = v then (0 : R) else 1) ops hF hN
  have hsplit : gfShot n toR (fun _ => (1 : R)) ops ((ket0 n : List α), 0) =
      gfShot n toR (fun u => if u = v then (1 : R) else 0) ops (ket0 n, 0) +
      gfShot n toR (fun u => if u = v then (0 : R) else 1) ops (ket0 n, 0) := by
    rw [← gfShot_add]
    congr 1
    funext u
    split <;> simp
  rw [hv, zero_add] at hsplit
  rw [hsplit, ← h2] at h1
  have hadd := expectOrd_add ord (⇑toR)
    (execOps (vecBackend (α := α) (P := P)) (VecState.new n N) (List.replicate N 0) ops)
    (fun sc => if v ∈ sc.2 then (1 : R) else 0) (shotProd fun u => if u = v then (0 : R) else 1)
  have hfun : (fun sc : VecState α × List Nat => (if v ∈ sc.2 then (1 : R) else 0) +
      shotProd (fun u => if u = v then (0 : R) else 1) sc) = shotProd fun _ => (1 : R) := by
    funext sc
    simp only [shotProd, prod_avoid]
    split <;> simp
  rw [hfun, h1] at hadd
  exact (add_eq_right.mp hadd.symm)

/-! ### total probability: a circuit of F never fails -/

theorem toBasis_length (n q : Nat) (b : Basis) (v : List α) (hv : v.length = 2 ^ n) :
    (toBasis (P := P) n q b v).length = 2 ^ n := by
  cases b <;> simp [toBasis, gateOn_length, hv]

theorem normSq_toBasis (H : Hyps α P nz n valid) {q : Nat} (hq : q < n) (b : Basis) (v : List α)
    (hv : v.length = 2 ^ n) : normSqSum (toBasis (P := P) n q b v) = normSqSum v := by
  obtain ⟨vH, vS, vSdg, _⟩ := H.sem.basis q hq
  cases b with
  | Z => rfl
  | X => exact H.sem.iso _ _ vH v hv
  | Y =>
    simp only [toBasis]
    rw [H.sem.iso _ _ vH _ (gateOn_length _ _ _ _), H.sem.iso _ _ vSdg v hv]

theorem normSq_fromBasis (H : Hyps α P nz n valid) {q : Nat} (hq : q < n) (b : Basis) (v : List α)
    (hv : v.length = 2 ^ n) : normSqSum (fromBasis (P := P) n q b v) = normSqSum v := by
  obtain ⟨vH, vS, vSdg, _⟩ := H.sem.basis q hq
  cases b with
  | Z => rfl
  | X => exact H.sem.iso _ _ vH v hv
  | Y =>
    simp only [fromBasis]
    rw [H.sem.iso _ _ vS _ (gateOn_length _ _ _ _), H.sem.iso _ _ vH v hv]

theorem measureTo_length (n q : Nat) (b : Basis) (o : Bool) (v : List α) (hv : v.length = 2 ^ n) :
    (measureTo (P := P) n q b o v).length = 2 ^ n := by
  cases b <;> simp [measureTo, fromBasis, toBasis, gateOn_length, project_length, hv]

theorem normSq_measureTo (H : Hyps α P nz n valid) {q : Nat} (hq : q < n) (b : Basis) (v : List α)
    (hv : v.length = 2 ^ n) :
    normSqSum (measureTo (P := P) n q b false v) + normSqSum (measureTo (P := P) n q b true v) = normSqSum v := by
  simp only [measureTo]
  rw [normSq_fromBasis H hq b _ (by rw [project_length]; exact toBasis_length n q b v hv),
    normSq_fromBasis H hq b _ (by rw [project_length]; exact toBasis_length n q b v hv),
    normSqSum_split H.sim, normSq_toBasis H hq b v hv]

/-- with `x = 1` the single-shot generating function is the squared norm: the branch probabilities of a
circuit of F add up to 1 -/
theorem gfShot_one (H : Hyps α P nz n valid) : ∀ (ops : List (COp P)), (∀ op ∈ ops, InF n valid op) →
    ∀ (ψ : List α) (w : Nat), ψ.length = 2 ^ n → gfShot n toR (fun _ => (1 : R)) ops (ψ, w) = toR (normSqSum ψ) := by
  intro ops
  induction ops with
  | nil => intro _ ψ w _; simp [gfShot]
  | cons op rest ih =>
    intro hF ψ w hψ
    have ih := ih (fun o ho => hF o (by simp [ho]))
    have hop := hF op (by simp)
    simp only [gfShot]
    cases op with
    | gate gt bits =>
      simp only [stepGf]
      rw [ih _ _ (gateOn_length _ _ _ _), H.sem.iso gt bits hop ψ hψ]
    | cond control target gt bits =>
      simp only [stepGf, controlWord_ok hop.2]
      split
      · rw [ih _ _ (gateOn_length _ _ _ _), H.sem.iso gt bits hop.1 ψ hψ]
      · rw [ih _ _ hψ]
    | measure q c b =>
      simp only [stepGf]
      rw [ih _ _ (measureTo_length n q b false ψ hψ), ih _ _ (measureTo_length n q b true ψ hψ), ← map_add,
        normSq_measureTo H hop.1 b ψ hψ]
    | reset q =>
      obtain ⟨_, _, _, vX⟩ := H.sem.basis q hop
      simp only [stepGf]
      rw [ih _ _ (by rw [project_length]; exact hψ), ih _ _ (gateOn_length _ _ _ _),
        H.sem.iso _ _ vX _ (by rw [project_length]; exact hψ), ← map_add, normSqSum_split H.sim]
    | barrier _ => simp only [stepGf]; exact ih ψ w hψ
    | measureAll cbits b =>
      obtain ⟨hlen, hnd, hlt⟩ := hop
      simp only [stepGf]
      have hφ := preAll_length (P := P) b ψ hψ
      have hterm : ((List.range (2 ^ n)).map fun idx => gfShot n (⇑toR) (fun _ => (1 : R)) rest
          (measureAllTo (P := P) n b (fun q => qbit n q idx == 1) ψ, wordAll n cbits w idx)) =
          (List.range (2 ^ n)).map fun idx => toR (SimAmp.normSq ((Sim.preAll (P := P) n b ψ).getD idx 0)) := by
        apply List.map_congr_left
        intro idx hidx
        have hi := List.mem_range.mp hidx
        have hl : (measureAllTo (P := P) n .Z (fun q => qbit n q idx == 1) (Sim.preAll (P := P) n b ψ)).length = 2 ^ n := by
          rw [measureAllTo_basis (P := P) n idx hi _ hφ]; simp [basisV]
        rw [Sim.measureAllTo_basis (P := P) b _ ψ, ih _ _ (postAll_length b _ hl), postAll_norm H b _ hl,
          measureAllTo_basis (P := P) n idx hi _ hφ, normSqSum_smul H.amp H.sim,
          normSqSum_basisV H.amp H.sim n idx hi, one_mul, H.sim.normSq_eq]
      have hψ' : (List.range (2 ^ n)).map (fun idx => SimAmp.normSq ((Sim.preAll (P := P) n b ψ).getD idx 0)) =
          (Sim.preAll (P := P) n b ψ).map SimAmp.normSq := by
        apply List.ext_getElem
        · simp [hφ]
        · intro i h1 h2
          have : i < (Sim.preAll (P := P) n b ψ).length := by simpa using h2
          simp [List.getD_eq_getElem?_getD, this]
      rw [hterm, ← preAll_norm H b ψ hψ, normSqSum, ← hψ', map_list_sum, List.map_map]
      rfl
    | resetAll => exact absurd hop id
    | peek _ _ _ => exact absurd hop id
    | peekAll _ _ => exact absurd hop id

/-- **a circuit of F never fails** (no error return, no panic site is reached with positive probability):
the total probability of the successful runs is 1 -/
theorem exec_total (hord : ∀ l, (ord l).Perm l) (H : Hyps α P nz n valid) (ops : List (COp P)) (hF : ∀ op ∈ ops, InF n valid op) (hN : 0 < N) :
    expectOrd ord toR (execOps (vecBackend (α := α) (P := P)) (VecState.new n N) (List.replicate N 0) ops)
      (fun _ => (1 : R)) = 1 := by
  have h1 := histogram_gf toR hord H (fun _ => (1 : R)) ops hF hN
  rw [gfShot_one toR H ops hF _ _ (by simp [ket0]), normSqSum_ket0 H, map_one, one_pow] at h1
  have hfun : (fun _ : VecState α × List Nat => (1 : R)) = shotProd (fun _ => (1 : R)) := by
    funext sc; simp [shotProd]
  rw [hfun]; exact h1

end exec
end Q1t.Sim.SimGF

import Q1t.Proofs.DetShapePartC2a
set_option linter.unusedSectionVars false
set_option linter.unusedVariables false
set_option linter.unusedSimpArgs false
/-!
`PartC`, elementary attempt, step b: pairing a vanishing combination of strings with a string; small facts about
`ZMod 2`, identity strings, `Z_q`, and string extensionality by bits.
-/
namespace Q1t.Proofs.DetPlan
open Q1t Q1t.Tableau Q1t.Spec.Pauli Q1t.Proofs.Tableau Q1t.Proofs.TabG

theorem z2_eq_of_add (x y : ZMod 2) (h : x + y = 0) : x = y := by
  revert x y; decide
theorem z2_eq_one_of_ne (x : ZMod 2) (h : x ≠ 0) : x = 1 := by
  revert x; decide
theorem z2_cases (x : ZMod 2) : x = 0 ∨ x = 1 := by
  revert x; decide

/-- if a combination of strings vanishes in every bit, its pairing with any string vanishes -/
theorem pair_comb {κ : Type} [Fintype κ] (n : Nat) (a : κ → ZMod 2) (S : κ → List P) (hS : ∀ x, (S x).length = n)
    (w : List P) (hw : w.length = n)
    (hX : ∀ c : Fin n, ∑ x, a x * xZ (S x) c = 0) (hZ : ∀ c : Fin n, ∑ x, a x * zZ (S x) c = 0) :
    ∑ x, a x * bZ (sp (S x) w) = 0 := by
  have e : ∀ x, a x * bZ (sp (S x) w) =
      ∑ c : Fin n, ((a x * xZ (S x) c) * zZ w c + (a x * zZ (S x) c) * xZ w c) := by
    intro x
    rw [sp_bits n (S x) w (hS x) hw, Finset.mul_sum]
    apply Finset.sum_congr rfl; intro c _; ring
  simp only [e]
  rw [Finset.sum_comm]
  apply Finset.sum_eq_zero
  intro c _
  rw [Finset.sum_add_distrib, ← Finset.sum_mul, ← Finset.sum_mul, hX c, hZ c]
  ring

theorem sp_identity (r d : List P) (h : ∀ c ∈ r, c = P.I) : sp r d = false := by
  have : r = List.replicate r.length P.I := List.eq_replicate_iff.mpr ⟨rfl, h⟩
  rw [this]
  unfold sp
  rw [phaseSum_replicate_I]; rfl

theorem bitAt_zRow_X (n q c : Nat) : bitAt P.hasX (zRow n q) c = false := by
  simp only [bitAt, zRow, List.getElem?_map]
  cases h : (List.range n)[c]? with
  | none => rfl
  | some j => simp only [Option.map_some]; split <;> rfl

theorem bitAt_zRow_Z (n q c : Nat) (hc : c < n) : bitAt P.hasZ (zRow n q) c = decide (c = q) := by
  simp only [bitAt, zRow, List.getElem?_map, List.getElem?_range hc, Option.map_some]
  by_cases h : c = q <;> simp [h, P.hasZ]

theorem cell_ext (a b : P) (hx : a.hasX = b.hasX) (hz : a.hasZ = b.hasZ) : a = b := by
  cases a <;> cases b <;> simp_all [P.hasX, P.hasZ]

/-- two strings of the same length with the same X-bits and Z-bits are equal -/
theorem string_ext_bits (n : Nat) (r s : List P) (hr : r.length = n) (hs : s.length = n)
    (hx : ∀ c, c < n → bitAt P.hasX r c = bitAt P.hasX s c) (hz : ∀ c, c < n → bitAt P.hasZ r c = bitAt P.hasZ s c) :
    r = s := by
  apply List.ext_getElem (by rw [hr, hs])
  intro c h1 h2
  have hc : c < n := by omega
  have ex := hx c hc
  have ez := hz c hc
  simp only [bitAt, List.getElem?_eq_getElem h1, List.getElem?_eq_getElem h2] at ex ez
  exact cell_ext _ _ ex ez

end Q1t.Proofs.DetPlan

import Q1t.Model.Latex
import Q1t.Gen.LatexTemplates
/-! C13 — basic facts about the exporter model: undrawable operations, concrete witnesses. -/
namespace Q1t.Proofs.Latex
open Q1t.Latex Q1t.Spec.QcGrid

/-- Once an operation fails, the rest is not run. -/
theorem opsLatex_not_ok_of_mem (nq : Nat) (ops : List Op) (s : St)
    (h : ∃ op ∈ ops, ∀ s, ∀ s', opLatex nq op s ≠ .ok s') : ∀ s', opsLatex nq ops s ≠ .ok s' := by
  induction ops generalizing s with
  | nil => obtain ⟨op, hm, _⟩ := h; cases hm
  | cons op rest ih =>
    intro s' hs
    simp only [opsLatex] at hs
    obtain ⟨s1, h1, h2⟩ := Res.bind_eq_ok.mp hs
    obtain ⟨op', hm, hbad⟩ := h
    cases hm with
    | head => exact hbad s s1 h1
    | tail _ hm' => exact ih _ ⟨op', hm', hbad⟩ s' h2

theorem peek_not_ok (nq : Nat) (op : Op) (hp : op.isPeek = true) (s s' : St) : opLatex nq op s ≠ .ok s' := by
  cases op <;> simp [Op.isPeek] at hp <;> simp [opLatex]

theorem peek_err (nq : Nat) (op : Op) (hp : op.isPeek = true) (s : St) : opLatex nq op s = .err .notImplemented := by
  cases op <;> simp [Op.isPeek] at hp <;> simp [opLatex]

theorem undrawable_is_error (c : Circ) (h : ∃ op ∈ c.ops, op.isPeek = true) : ∀ t, circuitLatex c ≠ .ok t := by
  intro t ht
  obtain ⟨s, hs, _⟩ := Res.bind_eq_ok.mp ht
  obtain ⟨op, hm, hp⟩ := h
  exact opsLatex_not_ok_of_mem c.nq c.ops _ ⟨op, hm, fun s s' => peek_not_ok c.nq op hp s s'⟩ s hs

/-- All operations before the first peek are drawn, then the export stops with `NotImplemented`. -/
theorem peek_after_ok_prefix (nq : Nat) (pre : List Op) (op : Op) (post : List Op) (s s1 : St)
    (hpre : opsLatex nq pre s = .ok s1) (hp : op.isPeek = true) :
    opsLatex nq (pre ++ op :: post) s = .err .notImplemented := by
  induction pre generalizing s with
  | nil =>
    simp only [opsLatex] at hpre
    simp [opsLatex, peek_err nq op hp]
  | cons o rest ih =>
    simp only [opsLatex, List.cons_append] at hpre ⊢
    obtain ⟨s2, h2, h3⟩ := Res.bind_eq_ok.mp hpre
    rw [h2]; simp only [Res.bind_ok]
    exact ih _ h3

end Q1t.Proofs.Latex

import Mathlib.Algebra.Ring.Rat
import Mathlib.Tactic.Ring
import Q1t.Proofs.AmpLaws
import Q1t.Spec.Unitaries
/-!
C05, part 1: the exact field `Q8 = ℚ(ζ₈)` is a commutative ring satisfying `LawfulAmp Q8 Empty`
(the trigonometric laws are vacuous: there are no parameters), and every constant gate of the
library — including every named controlled constant — has the documented matrix and is unitary,
checked in the kernel over `Q8` (`P = Empty`: these terms have no parameters, so this is the whole
quantifier for them).
-/
namespace Q1t
namespace Q8

@[ext] theorem ext' {x y : Q8} (ha : x.a = y.a) (hb : x.b = y.b) (hc : x.c = y.c) (hd : x.d = y.d) : x = y := by
  cases x; cases y; simp_all

@[simp] theorem add_a (x y : Q8) : (x + y).a = x.a + y.a := rfl
@[simp] theorem add_b (x y : Q8) : (x + y).b = x.b + y.b := rfl
@[simp] theorem add_c (x y : Q8) : (x + y).c = x.c + y.c := rfl
@[simp] theorem add_d (x y : Q8) : (x + y).d = x.d + y.d := rfl
@[simp] theorem sub_a (x y : Q8) : (x - y).a = x.a - y.a := rfl
@[simp] theorem sub_b (x y : Q8) : (x - y).b = x.b - y.b := rfl
@[simp] theorem sub_c (x y : Q8) : (x - y).c = x.c - y.c := rfl
@[simp] theorem sub_d (x y : Q8) : (x - y).d = x.d - y.d := rfl
@[simp] theorem neg_a (x : Q8) : (-x).a = -x.a := rfl
@[simp] theorem neg_b (x : Q8) : (-x).b = -x.b := rfl
@[simp] theorem neg_c (x : Q8) : (-x).c = -x.c := rfl
@[simp] theorem neg_d (x : Q8) : (-x).d = -x.d := rfl
@[simp] theorem mul_a (x y : Q8) : (x * y).a = x.a*y.a - x.b*y.d - x.c*y.c - x.d*y.b := rfl
@[simp] theorem mul_b (x y : Q8) : (x * y).b = x.a*y.b + x.b*y.a - x.c*y.d - x.d*y.c := rfl
@[simp] theorem mul_c (x y : Q8) : (x * y).c = x.a*y.c + x.b*y.b + x.c*y.a - x.d*y.d := rfl
@[simp] theorem mul_d (x y : Q8) : (x * y).d = x.a*y.d + x.b*y.c + x.c*y.b + x.d*y.a := rfl
@[simp] theorem zero_a : (0 : Q8).a = 0 := rfl
@[simp] theorem zero_b : (0 : Q8).b = 0 := rfl
@[simp] theorem zero_c : (0 : Q8).c = 0 := rfl
@[simp] theorem zero_d : (0 : Q8).d = 0 := rfl
@[simp] theorem one_a : (1 : Q8).a = 1 := rfl
@[simp] theorem one_b : (1 : Q8).b = 0 := rfl
@[simp] theorem one_c : (1 : Q8).c = 0 := rfl
@[simp] theorem one_d : (1 : Q8).d = 0 := rfl

instance : CommRing Q8 where
  add := (· + ·)
  zero := 0
  neg := (- ·)
  sub := (· - ·)
  mul := (· * ·)
  one := 1
  add_assoc x y z := by ext <;> simp <;> ring
  zero_add x := by ext <;> simp
  add_zero x := by ext <;> simp
  add_comm x y := by ext <;> simp <;> ring
  neg_add_cancel x := by ext <;> simp
  sub_eq_add_neg x y := by ext <;> simp <;> ring
  left_distrib x y z := by ext <;> simp <;> ring
  right_distrib x y z := by ext <;> simp <;> ring
  zero_mul x := by ext <;> simp
  mul_zero x := by ext <;> simp
  mul_assoc x y z := by ext <;> simp <;> ring
  one_mul x := by ext <;> simp
  mul_one x := by ext <;> simp
  mul_comm x y := by ext <;> simp <;> ring
  nsmul := nsmulRec
  zsmul := zsmulRec

theorem lawful : LawfulAmp Q8 Empty where
  I_mul_I := by decide +kernel
  hsqrt2_mul_self := by decide +kernel
  half_add_half := by decide +kernel
  zeta8_eq := by decide +kernel
  conj_add x y := by ext <;> simp [Amp.conj, conj] <;> ring
  conj_mul x y := by ext <;> simp [Amp.conj, conj] <;> ring
  conj_one := by decide +kernel
  conj_conj x := by ext <;> simp [Amp.conj, conj]
  conj_I := by decide +kernel
  conj_hsqrt2 := by decide +kernel
  conj_half := by decide +kernel
  cos_sq_add_sin_sq x := x.elim
  conj_cos x := x.elim
  conj_sin x := x.elim
  cos_padd x := x.elim
  sin_padd x := x.elim
  cos_pneg x := x.elim
  sin_pneg x := x.elim
end Q8

open Gate Spec in
def constGates : List (GateTerm Empty) :=
  [.I, .X, .Y, .Z, .H, .S, .Sdg, .T, .Tdg, .V, .Vdg, .Swap, .CX, .CY, .CZ,
   .C .H, .C .S, .C .Sdg, .C .T, .C .Tdg, .C .V, .C .Vdg, .C .CX, .C .CZ]

open Gate Spec in
theorem const_ok : ∀ g ∈ constGates,
    (matrix g : LMat Q8) = specMatrix g ∧
    mulAdjoint (P := Empty) (matrix g : LMat Q8) = LMat.identity (2 ^ nrBits g) := by
  decide +kernel
end Q1t

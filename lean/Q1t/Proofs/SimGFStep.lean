import Q1t.Proofs.SimGFLaw
/-!
C01, step 5: one operation of the fragment F at a time (the law itself is in `SimGFExec.lean`).

* `Hyps` — the named hypotheses: `LawfulAmp`, `LawfulSim`, `LawfulWeights` (arithmetic of amplitudes and
  weights), `GateSemOK` (every valid gate instance acts as its documented embedded unitary, C04+C05) and
  `GateRuns` (the routes of valid gate instances return).
* `Mult K g` — the continuation's expectation is multiplicative over ranges; the step lemmas
  (`mult_postGate`, `measure_step`, `reset_step`, `cond_step`; `measureAll_step` is in `SimGFAll.lean`) say:
  if `Mult K g` and `g` is quadratically homogeneous, the expectation of the operation followed by the
  continuation is `∏_ranges (stepGf op g)(state, word)^count`.
-/
set_option linter.unusedSectionVars false
set_option linter.unusedSimpArgs false
set_option linter.unusedVariables false
namespace Q1t.Sim.SimGF
open Q1t Q1t.Sim Q1t.Spec Q1t.Sim.Prog Finset

variable {α P R : Type}

theorem bind_eq' {W β γ : Type} (p : Prog W β) (f : β → Prog W γ) : (p >>= f) = p.bind f := rfl
theorem pure_eq' {W β : Type} (b : β) : (Pure.pure b : Prog W β) = Prog.pure b := rfl
theorem bind_pure' {W β γ : Type} (b : β) (f : β → Prog W γ) : (Prog.pure b : Prog W β).bind f = f b := rfl

section exec
variable [CommRing α] [Amp α P] [SimAmp α] [CommRing R] {nz : α → Prop} {n N : Nat}
variable {valid : GateTerm P → List Nat → Prop}

/-- the hypotheses of the law.  Fields actually used by the proofs of C01: `amp.conj_mul`, `amp.conj_one`;
`sim.normSq_eq`, `sim.rsqrt_mul`, `sim.rsqrt_real`; all four fields of `wts`; `sem.mat`, `sem.vec`, `sem.iso`,
`sem.basis`; all three fields of `runs`.  (`sem.hh`, `sem.ssdg`, `sim.min1_nz0/1` and the trigonometric part of
`amp` are not used; they belong to the shared bundles of C02/C05.) -/
structure Hyps (α P : Type) [CommRing α] [Amp α P] [SimAmp α] (nz : α → Prop) (n : Nat)
    (valid : GateTerm P → List Nat → Prop) : Prop where
  amp : LawfulAmp α P
  sim : LawfulSim α P nz
  wts : LawfulWeights α nz
  sem : GateSemOK α n valid
  runs : GateRuns α n valid

/-- the control list of a conditional gate does not overflow the shifts of the control-word gather -/
def ctlOK (control : List Nat) : Prop := control.all shiftOk = true ∧ control.length ≤ 64

/-- the continuation `K` is multiplicative over ranges with single-shot function `g` -/
def Mult (n N : Nat) (K : VecState α × List Nat → R) (g : List α × Nat → R) : Prop :=
  ∀ rs', Good n N rs' → K (mkState n N rs', mkReg rs') = value g rs'

theorem mkReg_mapCol (f : Rng α → List α → List α) (rs : List (Rng α)) :
    mkReg (rs.map fun r => mapCol (f r) r) = mkReg rs := by
  simp [mkReg, mapCol, List.flatMap_map]

theorem good_mapCol {rs : List (Rng α)} (h : Good n N rs) (f : Rng α → List α → List α)
    (hlen : ∀ r v, v.length = 2 ^ n → (f r v).length = 2 ^ n)
    (hnorm : ∀ r v, v.length = 2 ^ n → normSqSum (f r v) = normSqSum v) :
    Good n N (rs.map fun r => mapCol (f r) r) := by
  refine ⟨shape_mapCol h.toShape f hlen, ?_⟩
  intro r hr
  simp only [List.mem_map] at hr
  obtain ⟨r0, h0, rfl⟩ := hr
  simp only [mapCol]
  rw [hnorm _ _ (h.len r0 h0)]
  exact h.normed r0 h0

theorem good_gate (H : Hyps α P nz n valid) {gt : GateTerm P} {bits : List Nat} (hv : valid gt bits)
    {rs : List (Rng α)} (h : Good n N rs) : Good n N (rs.map (mapCol (gateOn n gt bits))) :=
  good_mapCol h (fun _ => gateOn n gt bits) (fun _ v _ => gateOn_length n gt bits v)
    (fun _ v hl => H.sem.iso gt bits hv v hl)

theorem good_condGate (H : Hyps α P nz n valid) {gt : GateTerm P} {bits : List Nat} (hv : valid gt bits)
    (β : Rng α → Bool) {rs : List (Rng α)} (h : Good n N rs) :
    Good n N (rs.map fun r => mapCol (fun v => if β r then gateOn n gt bits v else v) r) :=
  good_mapCol h (fun r v => if β r then gateOn n gt bits v else v)
    (fun r v hl => by split; exact gateOn_length n gt bits v; exact hl)
    (fun r v hl => by split; exact H.sem.iso gt bits hv v hl; rfl)

variable (ord : List (Nat × Nat) → List (Nat × Nat)) (toR : α →+* R)

/-! ### gates -/

/-- a gate applied after the body: the continuation stays multiplicative -/
theorem mult_postGate (H : Hyps α P nz n valid) {gt : GateTerm P} {bits : List Nat} (hv : valid gt bits)
    {K : VecState α × List Nat → R} {g : List α × Nat → R} (hK : Mult n N K g) :
    Mult n N (fun sr => expectOrd ord toR ((VecState.applyGate sr.1 gt bits).bind fun s2 => .pure (s2, sr.2)) K)
      (fun sw => g (gateOn n gt bits sw.1, sw.2)) := by
  intro rs' hg'
  simp only [applyGate_eq H.sem H.runs hv hg'.toShape, bind_pure', expectOrd_pure]
  have := hK _ (good_gate H hv hg')
  rw [show mkReg (rs'.map (mapCol (gateOn n gt bits))) = mkReg rs' from mkReg_mapCol (fun _ => gateOn n gt bits) rs'] at this
  rw [this]
  simp [value, List.map_map, Function.comp_def, mapCol]

theorem scales_postGate {gt : GateTerm P} {bits : List Nat} {g : List α × Nat → R} (hg : Scales (P := P) toR g) :
    Scales (P := P) toR (fun sw => g (gateOn n gt bits sw.1, sw.2)) := by
  intro v w a
  simp only [gateOn_smul]
  exact hg _ _ _

theorem value_mapGate (g : List α × Nat → R) (F : List α → List α) (rs : List (Rng α)) :
    value g (rs.map (mapCol F)) = value (fun sw => g (F sw.1, sw.2)) rs := by
  simp [value, List.map_map, Function.comp_def, mapCol]

/-! ### measurement of one qubit -/

/-- `p · g(collapse)` is `g(projected state)`: the renormalisation cancels against the probability -/
theorem term_convert (H : Hyps α P nz n valid) {g : List α × Nat → R} (hg : Scales (P := P) toR g)
    (q : Nat) (ψ : List α) (o : Bool) (p : α) (hp : p = normSqSum (project n q o ψ)) (w : Nat) :
    toR p * g (VecState.collapseCol n q ψ o p, w) = g (project n q o ψ, w) := by
  rw [collapseCol_eq, hg]
  rcases H.wts.nz_or_zero (project n q o ψ) with h | h
  · rw [← hp] at h
    rw [H.sim.rsqrt_real p h, ← mul_assoc, ← map_mul]
    have : p * (SimAmp.rsqrt p * SimAmp.rsqrt p) = 1 := by
      have := H.sim.rsqrt_mul p h
      linear_combination this
    rw [this, map_one, one_mul]
  · rw [scales_zero (P := P) toR H.wts hg _ w h, hp, h, map_zero]
    ring

theorem measure_convert2 (H : Hyps α P nz n valid) {g0 g1 : List α × Nat → R} (hg0 : Scales (P := P) toR g0)
    (hg1 : Scales (P := P) toR g1) (q : Nat) (ψ : List α) (hψ : normSqSum ψ = 1) (w0 w1 : Nat) :
    toR (w0Of n q ψ) * g0 (VecState.collapseCol n q ψ false (w0Of n q ψ), w0) +
      (1 - toR (w0Of n q ψ)) * g1 (VecState.collapseCol n q ψ true (1 - w0Of n q ψ), w1) =
    g0 (project n q false ψ, w0) + g1 (project n q true ψ, w1) := by
  obtain ⟨e0, e1, _⟩ := weights_of_normed (n := n) H.sim H.wts q hψ
  have h1 : (1 : R) - toR (w0Of n q ψ) = toR (1 - w0Of n q ψ) := by simp
  rw [h1, term_convert toR H hg0 q ψ false _ e0, term_convert toR H hg1 q ψ true _ e1]

theorem measure_convert (H : Hyps α P nz n valid) {g : List α × Nat → R} (hg : Scales (P := P) toR g)
    (q : Nat) (ψ : List α) (hψ : normSqSum ψ = 1) (w0 w1 : Nat) :
    toR (w0Of n q ψ) * g (VecState.collapseCol n q ψ false (w0Of n q ψ), w0) +
      (1 - toR (w0Of n q ψ)) * g (VecState.collapseCol n q ψ true (1 - w0Of n q ψ), w1) =
    g (project n q false ψ, w0) + g (project n q true ψ, w1) :=
  measure_convert2 toR H hg hg q ψ hψ w0 w1

/-- a Z-basis measurement -/
theorem measureZ_step (H : Hyps α P nz n valid) {rs : List (Rng α)} (hgood : Good n N rs) {q c : Nat}
    (hq : q < n) (hc : c < 64) {K : VecState α × List Nat → R} {g : List α × Nat → R}
    (hK : Mult n N K g) (hg : Scales (P := P) toR g) :
    expectOrd ord toR (VecState.measureInto (mkState n N rs) q c (mkReg rs)) K =
      value (fun sw => g (project n q false sw.1, writeBit sw.2 c false) +
        g (project n q true sw.1, writeBit sw.2 c true)) rs := by
  rw [measureInto_gf (P := P) ord toR H.amp H.sim H.wts hgood hq hc K g hK]
  apply value_congr
  intro r hr
  exact measure_convert toR H hg q r.2.1 (hgood.normed r hr) _ _

theorem measure_step (H : Hyps α P nz n valid) {rs : List (Rng α)} (hgood : Good n N rs) {q c : Nat}
    (b : Basis) (hq : q < n) (hc : c < 64) {K : VecState α × List Nat → R} {g : List α × Nat → R}
    (hK : Mult n N K g) (hg : Scales (P := P) toR g) :
    expectOrd ord toR (execOp (vecBackend (α := α) (P := P)) (mkState n N rs) (mkReg rs) (.measure q c b)) K =
      value (stepGf (P := P) n (.measure q c b) g) rs := by
  obtain ⟨vH, vS, vSdg, _⟩ := H.sem.basis q hq
  cases b with
  | Z =>
    simp only [execOp, withBasis1, vecBackend]
    rw [measureZ_step ord toR H hgood hq hc hK hg]
    rfl
  | X =>
    simp only [execOp, withBasis1, vecBackend, bind_eq', pure_eq']
    rw [applyGate_eq H.sem H.runs vH hgood.toShape, bind_pure', expectOrd_bind]
    have hgood1 := good_gate (N := N) H vH hgood
    have hreg : mkReg rs = mkReg (rs.map (mapCol (gateOn (P := P) n .H [q]))) :=
      (mkReg_mapCol (fun _ => gateOn (P := P) n .H [q]) rs).symm
    rw [hreg]
    have := measureZ_step ord toR H hgood1 hq hc (mult_postGate ord toR H vH hK) (scales_postGate toR hg)
    rw [this, value_mapGate]
    rfl
  | Y =>
    simp only [execOp, withBasis1, vecBackend, bind_eq', pure_eq']
    rw [applyGate_eq H.sem H.runs vSdg hgood.toShape, bind_pure']
    have hgood1 := good_gate (N := N) H vSdg hgood
    rw [applyGate_eq H.sem H.runs vH hgood1.toShape, bind_pure', expectOrd_bind]
    have hgood2 := good_gate (N := N) H vH hgood1
    have hreg : mkReg rs = mkReg ((rs.map (mapCol (gateOn (P := P) n .Sdg [q]))).map (mapCol (gateOn (P := P) n .H [q]))) := by
      rw [mkReg_mapCol (fun _ => gateOn (P := P) n .H [q]), mkReg_mapCol (fun _ => gateOn (P := P) n .Sdg [q])]
    rw [hreg]
    have hK2 : Mult n N (fun sr : VecState α × List Nat => expectOrd ord toR
        ((VecState.applyGate sr.1 (GateTerm.H : GateTerm P) [q]).bind fun s2 =>
          (VecState.applyGate s2 (GateTerm.S : GateTerm P) [q]).bind fun s3 => .pure (s3, sr.2)) K)
        (fun sw => g (gateOn (P := P) n .S [q] (gateOn (P := P) n .H [q] sw.1), sw.2)) := by
      intro rs' hg'
      have h1 := good_gate (N := N) H vH hg'
      simp only [applyGate_eq H.sem H.runs vH hg'.toShape, bind_pure',
        applyGate_eq H.sem H.runs vS h1.toShape, expectOrd_pure]
      have := hK _ (good_gate H vS h1)
      rw [mkReg_mapCol (fun _ => gateOn (P := P) n .S [q]), mkReg_mapCol (fun _ => gateOn (P := P) n .H [q])] at this
      rw [this, value_mapGate, value_mapGate]
    have hg2 : Scales (P := P) toR (fun sw => g (gateOn (P := P) n .S [q] (gateOn (P := P) n .H [q] sw.1), sw.2)) := by
      intro v w a
      simp only [gateOn_smul]
      exact hg _ _ _
    have := measureZ_step ord toR H hgood2 hq hc hK2 hg2
    rw [this, value_mapGate, value_mapGate]
    rfl


/-! ### reset: a hidden measurement into a scratch register, then a conditional X -/

theorem mkState_congr {rs rs' : List (Rng α)} (h1 : rs.map (·.1) = rs'.map (·.1))
    (h2 : rs.map (·.2.1) = rs'.map (·.2.1)) : mkState n N rs = mkState n N rs' := by
  simp only [mkState, h1, h2]

/-- re-word every range -/
def reword (h : Nat → Nat) (rs : List (Rng α)) : List (Rng α) := rs.map fun r => (r.1, r.2.1, h r.2.2)

theorem mkState_reword (h : Nat → Nat) (rs : List (Rng α)) : mkState n N (reword h rs) = mkState n N rs :=
  mkState_congr (by simp [reword, List.map_map, Function.comp_def]) (by simp [reword, List.map_map, Function.comp_def])

theorem good_reword (h : Nat → Nat) {rs : List (Rng α)} (hg : Good n N rs) : Good n N (reword h rs) := by
  refine ⟨⟨?_, ?_, ?_⟩, ?_⟩
  · intro r hr
    simp only [reword, List.mem_map] at hr
    obtain ⟨r0, h0, rfl⟩ := hr
    exact hg.pos r0 h0
  · intro r hr
    simp only [reword, List.mem_map] at hr
    obtain ⟨r0, h0, rfl⟩ := hr
    exact hg.len r0 h0
  · rw [← hg.sum]; simp [reword, List.map_map, Function.comp_def]
  · intro r hr
    simp only [reword, List.mem_map] at hr
    obtain ⟨r0, h0, rfl⟩ := hr
    exact hg.normed r0 h0

theorem mkReg_reword (h : Nat → Nat) (rs : List (Rng α)) : mkReg (reword h rs) = mkRegF h rs := by
  simp [mkReg, mkRegF, reword, List.flatMap_map]

theorem mkRegF_reword (f h : Nat → Nat) (rs : List (Rng α)) : mkRegF f (reword h rs) = mkRegF (fun w => f (h w)) rs := by
  simp [mkRegF, reword, List.flatMap_map]

theorem value_reword (g : List α × Nat → R) (h : Nat → Nat) (rs : List (Rng α)) :
    value g (reword h rs) = value (fun sw => g (sw.1, h sw.2)) rs := by
  simp [value, reword, List.map_map, Function.comp_def]

theorem mkRegF_const_zero (rs : List (Rng α)) :
    mkRegF (fun _ => 0) rs = List.replicate ((rs.map (·.1)).sum) 0 := by
  induction rs with
  | nil => rfl
  | cons r rs ih =>
    have : mkRegF (fun _ => 0) (r :: rs) = List.replicate r.1 0 ++ mkRegF (fun _ => 0) rs := by simp [mkRegF]
    rw [this, ih, List.map_cons, List.sum_cons, List.replicate_add]

/-- a measurement does not change a reading of the description that ignores the outcome -/
theorem mkRegF_splitAll_inv (q : Nat) (h : Nat → Nat) (wf : Nat → Bool → Nat) (hh : ∀ w o, h (wf w o) = h w) :
    ∀ {rs : List (Rng α)} {ns : List Nat}, List.Forall₂ (fun (r : Rng α) n0 => n0 ≤ r.1) rs ns →
    mkRegF h (splitAll n q wf rs ns) = mkRegF h rs := by
  intro rs ns hv
  induction hv with
  | nil => rfl
  | @cons r n0 rs ns hle _ ih =>
    have hc : mkRegF h (r :: rs) = List.replicate r.1 (h r.2.2) ++ mkRegF h rs := by simp [mkRegF]
    rw [splitAll, mkRegF_append, mkRegF_splitRng h n q wf r n0 hle, ih, hc, hh, hh]
    congr 1
    rw [List.replicate_append_replicate]
    congr 1; omega

/-- the description word of `reset`: `2·word + hidden outcome` -/
def rsF (e : Nat) : Nat := e % 2
def rsWf (e : Nat) (o : Bool) : Nat := 2 * (e / 2) + (if o then 1 else 0)

theorem rsWf_ok (e : Nat) (o : Bool) : rsF (rsWf e o) = setBitTo (rsF e) 0 o := by
  rcases Nat.mod_two_eq_zero_or_one e with h | h <;> cases o <;> simp [rsF, rsWf, setBitTo, h, Nat.add_mod]

theorem reset_step (H : Hyps α P nz n valid) {rs : List (Rng α)} (hgood : Good n N rs) {q : Nat} (hq : q < n)
    {K : VecState α × List Nat → R} {g : List α × Nat → R} (hK : Mult n N K g) (hg : Scales (P := P) toR g) :
    expectOrd ord toR (execOp (vecBackend (α := α) (P := P)) (mkState n N rs) (mkReg rs) (.reset q)) K =
      value (stepGf (P := P) n (.reset q) g) rs := by
  obtain ⟨_, _, _, vX⟩ := H.sem.basis q hq
  have hgE := good_reword (N := N) (fun w => 2 * w) hgood
  have hst : mkState n N rs = mkState n N (reword (fun w => 2 * w) rs) := (mkState_reword _ rs).symm
  have hscr : List.replicate N 0 = mkRegF rsF (reword (fun w => 2 * w) rs) := by
    rw [mkRegF_reword]
    have : (fun w => rsF (2 * w)) = fun _ => 0 := by funext w; simp [rsF]
    rw [this, mkRegF_const_zero, hgood.sum]
  simp only [execOp, vecBackend, VecState.reset]
  rw [expectOrd_bind, expectOrd_bind]
  rw [show (mkState n N rs).nrShots = N from rfl, hscr, hst]
  rw [measureIntoF_gf (P := P) ord toR H.amp H.sim H.wts hgE hq (by omega : 0 < 64) rsF rsWf
    (fun _ _ o => rsWf_ok _ o) _
    (fun sw => g (if rsF sw.2 != 0 then gateOn (P := P) n .X [q] sw.1 else sw.1, sw.2 / 2))]
  · rw [value_reword]
    apply value_congr
    intro r hr
    have e1 : rsWf (2 * r.2.2) false = 2 * r.2.2 := by simp [rsWf]
    have e2 : rsWf (2 * r.2.2) true = 2 * r.2.2 + 1 := by simp [rsWf]
    simp only [e1, e2, rsF, Nat.mul_mod_right, Nat.mul_add_mod, bne_self_eq_false, Bool.false_eq_true, if_false,
      Nat.mul_div_cancel_left _ (by omega : 0 < 2)]
    have e3 : (2 * r.2.2 + 1) / 2 = r.2.2 := by omega
    simp only [e3, show ((1 : Nat) != 0) = true from rfl, if_true]
    exact measure_convert2 toR H hg (scales_postGate toR hg) q r.2.1 (hgood.normed r hr) _ _
  · intro ns hv hgsp
    set sp := splitAll n q rsWf (reword (fun w => 2 * w) rs) ns with hsp
    have hmask : (mkRegF rsF sp).map (· != 0) = sp.flatMap fun r => List.replicate r.1 (rsF r.2.2 != 0) := by
      simp [mkRegF, List.map_flatMap]
    simp only [hmask]
    rw [applyConditional_eq H.sem H.runs vX hgsp.toShape (fun r => rsF r.2.2 != 0), expectOrd_pure, expectOrd_pure]
    have hg2 := good_reword (N := N) (fun e => e / 2)
      (good_condGate H vX (fun r => rsF r.2.2 != 0) hgsp)
    have := hK _ hg2
    rw [mkState_reword, mkReg_reword, show mkRegF (fun e => e / 2)
        (sp.map fun r => mapCol (fun v => if (rsF r.2.2 != 0) = true then gateOn (P := P) n .X [q] v else v) r)
        = mkRegF (fun e => e / 2) sp from by simp [mkRegF, mapCol, List.flatMap_map],
      hsp, mkRegF_splitAll_inv q (fun e => e / 2) rsWf (fun w o => by cases o <;> simp [rsWf] <;> omega) hv,
      mkRegF_reword] at this
    have hid : mkRegF (fun w => 2 * w / 2) rs = mkReg rs := by
      simp [mkRegF, mkReg]
    rw [hid] at this
    rw [← hsp] at this
    rw [this, value_reword]
    simp [value, List.map_map, Function.comp_def, mapCol]

/-! ### conditional gates -/

/-- the control word when the shifts do not overflow -/
def cwOf (control : List Nat) (w : Nat) : Nat :=
  control.zipIdx.foldl (fun acc (isrc, idst) => acc ||| (((w >>> isrc) &&& 1) <<< idst)) 0

theorem controlWord_ok {control : List Nat} (h : ctlOK control) (w : Nat) :
    controlWord control w = some (cwOf control w) := by
  unfold controlWord
  rw [if_pos (by simpa [ctlOK] using h)]
  rfl

theorem cond_step (H : Hyps α P nz n valid) {rs : List (Rng α)} (hgood : Good n N rs)
    {control : List Nat} {target : Nat} {gt : GateTerm P} {bits : List Nat} (hv : valid gt bits)
    (hctl : ctlOK control) {K : VecState α × List Nat → R} {g : List α × Nat → R} (hK : Mult n N K g) :
    expectOrd ord toR (execOp (vecBackend (α := α) (P := P)) (mkState n N rs) (mkReg rs)
      (.cond control target gt bits)) K = value (stepGf n (.cond control target gt bits) g) rs := by
  have hmap : (mkReg rs).mapM (controlWord control) = some ((mkReg rs).map (cwOf control)) :=
    mapM_eq_map _ _ _ (fun w _ => controlWord_ok hctl w)
  have hmask : ((mkReg rs).map (cwOf control)).map (· == target) =
      rs.flatMap fun r => List.replicate r.1 (cwOf control r.2.2 == target) := by
    simp [mkReg, List.map_flatMap]
  simp only [execOp, hmap, hmask, vecBackend]
  rw [applyConditional_eq H.sem H.runs hv hgood.toShape (fun r => cwOf control r.2.2 == target), bind_pure',
    expectOrd_pure]
  have := hK _ (good_condGate H hv (fun r => cwOf control r.2.2 == target) hgood)
  rw [mkReg_mapCol (fun r v => if (cwOf control r.2.2 == target) = true then gateOn n gt bits v else v)] at this
  rw [this]
  simp only [value, List.map_map, Function.comp_def, mapCol, stepGf, controlWord_ok hctl]
  congr 1
  apply List.map_congr_left
  intro r _
  simp only [beq_iff_eq]


end exec
end Q1t.Sim.SimGF

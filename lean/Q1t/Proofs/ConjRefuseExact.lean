import Q1t.Proofs.ConjTerm
import Q1t.Proofs.ConjEmbed
set_option linter.unusedSimpArgs false
set_option linter.unusedSectionVars false
set_option linter.unusedVariables false
/-!
C18: the refusal of a non-claiming term is the ERROR `NotAStabilizer` — not an arity error, not the index panic of
`Composite::conjugate` — when the term is well formed (`Spec.WF`) and the operand slice has the term's width.
(C06's `term_refuses` gives "some error or the index panic" for every slice; here the parts that claim are shown to
answer `Ok` of the same length — `term_exact` — so that the first part that does not claim is reached.)
-/
namespace Q1t.Proofs.ConjTerm
open Q1t Q1t.Gate Q1t.LMat Q1t.Spec Q1t.Spec.Clifford Q1t.Proofs.ConjBridge Q1t.Proofs.ConjModel
open Q1t.Proofs.ConjPrim (IsPrim)
open Q1t.Conj hiding Pauli

variable {α A : Type} [CommRing α] [Amp α A]

section refuse
variable (tbl : Table) (noCheck : List String) (hp : PrimsExact α A tbl noCheck) (hE : EmbedExact α A)
  (hs : TableShape tbl)
include hp hE hs

mutual
theorem refuse_exact : (g : GateTerm A) → Spec.WF g → isStabilizerT tbl g = false →
    ∀ ops : List Pauli, ops.length = nrBits g → conjugateT tbl noCheck g ops = .error .notAStabilizer
  | .C g, _, _, ops, _ => (C_refuses tbl noCheck g ops).2
  | .Kron g0 g1, hw, hf, ops, hl => by
    simp only [Spec.WF] at hw
    simp only [isStabilizerT, Bool.and_eq_false_iff] at hf
    simp only [nrBits] at hl
    simp only [conjugateT]
    rw [if_neg (by simp [hl])]
    have hl0 : (ops.take (nrBits g0)).length = nrBits g0 := by simp [hl]
    have hl1 : (ops.drop (nrBits g0)).length = nrBits g1 := by simp [hl]
    by_cases h0 : isStabilizerT tbl g0 = true
    · have h1 : isStabilizerT tbl g1 = false := by
        rcases hf with hf | hf
        · rw [h0] at hf; cases hf
        · exact hf
      obtain ⟨fl, o0, hc, _, _⟩ := (term_exact tbl noCheck hp hE g0 hw.1 h0).rule _ hl0
      rw [hc, refuse_exact g1 hw.2 h1 _ hl1]
    · rw [refuse_exact g0 hw.1 (by simpa using h0) _ hl0]
  | .Composite _ n body, hw, hf, ops, hl => by
    simp only [Spec.WF] at hw
    simp only [isStabilizerT] at hf
    simp only [nrBits] at hl
    simp only [conjugateT]
    rw [if_neg (by simp [hl])]
    exact ops_refuse_exact body n hw.2 hf ops false hl
  | .Loop _ iters _ n body, hw, hf, ops, hl => by
    simp only [isStabilizerT] at hf
    simp only [nrBits] at hl
    simp only [conjugateT, hf]
    rw [if_neg (by simp [hl])]
    simp
  | .H, _, hf, ops, _ => prim_refuses tbl noCheck hs .H trivial hf ops
  | .X, _, hf, ops, _ => prim_refuses tbl noCheck hs .X trivial hf ops
  | .Y, _, hf, ops, _ => prim_refuses tbl noCheck hs .Y trivial hf ops
  | .Z, _, hf, ops, _ => prim_refuses tbl noCheck hs .Z trivial hf ops
  | .S, _, hf, ops, _ => prim_refuses tbl noCheck hs .S trivial hf ops
  | .Sdg, _, hf, ops, _ => prim_refuses tbl noCheck hs .Sdg trivial hf ops
  | .T, _, hf, ops, _ => prim_refuses tbl noCheck hs .T trivial hf ops
  | .Tdg, _, hf, ops, _ => prim_refuses tbl noCheck hs .Tdg trivial hf ops
  | .V, _, hf, ops, _ => prim_refuses tbl noCheck hs .V trivial hf ops
  | .Vdg, _, hf, ops, _ => prim_refuses tbl noCheck hs .Vdg trivial hf ops
  | .I, _, hf, ops, _ => prim_refuses tbl noCheck hs .I trivial hf ops
  | .RX θ, _, hf, ops, _ => prim_refuses tbl noCheck hs (.RX θ) trivial hf ops
  | .RY θ, _, hf, ops, _ => prim_refuses tbl noCheck hs (.RY θ) trivial hf ops
  | .RZ θ, _, hf, ops, _ => prim_refuses tbl noCheck hs (.RZ θ) trivial hf ops
  | .U1 θ, _, hf, ops, _ => prim_refuses tbl noCheck hs (.U1 θ) trivial hf ops
  | .U2 θ φ, _, hf, ops, _ => prim_refuses tbl noCheck hs (.U2 θ φ) trivial hf ops
  | .U3 θ φ l, _, hf, ops, _ => prim_refuses tbl noCheck hs (.U3 θ φ l) trivial hf ops
  | .CX, _, hf, ops, _ => prim_refuses tbl noCheck hs .CX trivial hf ops
  | .CY, _, hf, ops, _ => prim_refuses tbl noCheck hs .CY trivial hf ops
  | .CZ, _, hf, ops, _ => prim_refuses tbl noCheck hs .CZ trivial hf ops
  | .Swap, _, hf, ops, _ => prim_refuses tbl noCheck hs .Swap trivial hf ops
theorem ops_refuse_exact : (l : OpList A) → (n : Nat) → Spec.WFOps n l → allStabT tbl l = false →
    ∀ (ops : List Pauli) (flip : Bool), ops.length = n → conjOpsT tbl noCheck l ops flip = .error .notAStabilizer
  | .nil, _, _, hf, _, _, _ => by simp [allStabT] at hf
  | .cons g bits rest, n, hw, hf, ops, flip, hl => by
    simp only [Spec.WFOps] at hw
    obtain ⟨hwg, hnb, hvalid, hwrest⟩ := hw
    have hrange : ∀ b ∈ bits, b < n := ((Q1t.Proofs.BitPerm.validBits_iff n bits).1 hvalid).1
    simp only [allStabT, Bool.and_eq_false_iff] at hf
    obtain ⟨L, hL, hLlen⟩ := gather_some ops bits (by rw [hl]; exact hrange)
    simp only [conjOpsT, hL]
    by_cases hg : isStabilizerT tbl g = true
    · have hr : allStabT tbl rest = false := by
        rcases hf with hf | hf
        · rw [hg] at hf; cases hf
        · exact hf
      obtain ⟨fl, L', hc, _, _⟩ := (term_exact tbl noCheck hp hE g hwg hg).rule L (by rw [hLlen, hnb])
      rw [hc]
      exact ops_refuse_exact rest n hwrest hr _ _ (by rw [scatter_length, hl])
    · rw [refuse_exact g hwg (by simpa using hg) L (by rw [hLlen, hnb])]
end

end refuse

end Q1t.Proofs.ConjTerm

import Q1t.Proofs.SimGFStab
import Q1t.Proofs.SimGFStabWitness
import Q1t.Proofs.SimGFExample
/-!
C01, non-vacuity of the law on the stabilizer backend: a Clifford circuit of F_stab (entangling gate, mid-circuit
measurement, classically controlled gate, X-basis measurements) on which the conclusions of `stab_histogram_gf` and
of `backends_agree` hold for 2 shots — kernel computation on the model's own `execOps stabBackend …` term with the
generated phase and conjugation tables, independent of the hypotheses `StabHyps`.
-/
namespace Q1t.Sim.Witness
open Q1t Q1t.Sim Q1t.Sim.Prog Q1t.Sim.SimGF

def stabCirc : List (COp Empty) :=
  [.gate .H [0], .gate .CX [0, 1], .measure 0 0 .Z, .cond [0] 1 .X [1], .gate .H [1], .measure 1 1 .X,
    .measure 0 2 .X]

theorem stabCirc_inFS : ∀ op ∈ stabCirc, InFS 2 (placed 2) op := by
  simp [stabCirc, InFS, placed, ctlOK, shiftOk, Gate.nrBits]

theorem law_on_stabCirc :
    expectOrd id (RingHom.id Q8) (execOps stabQ8 (StabState.new 2 2) [0, 0] stabCirc) (shotProdS xT) =
      gfShot 2 (RingHom.id Q8) xT stabCirc (SimGF.ket0 2, 0) ^ 2 := by decide +kernel

theorem stabCirc_backends_agree :
    expectOrd id (RingHom.id Q8) (execOps stabQ8 (StabState.new 2 2) [0, 0] stabCirc) (shotProdS xT) =
    expectOrd id (RingHom.id Q8) (execOps (vecBackend (α := Q8) (P := Empty)) (VecState.new 2 2) [0, 0] stabCirc)
      (SimGF.shotProd xT) := by decide +kernel

/-! `measure_all` on the stabilizer backend (qubit by qubit), X basis, permuted classical bits -/

def stabAllCirc : List (COp Empty) :=
  [.gate .H [0], .gate .CX [0, 1], .measureAll [1, 0] .X, .measure 1 2 .Z]

theorem stabAllCirc_inFS : ∀ op ∈ stabAllCirc, InFS 2 (placed 2) op := by
  simp [stabAllCirc, InFS, placed, ctlOK, shiftOk, Gate.nrBits]

theorem law_on_stabAllCirc :
    expectOrd id (RingHom.id Q8) (execOps stabQ8 (StabState.new 2 2) [0, 0] stabAllCirc) (shotProdS xT) =
      gfShot 2 (RingHom.id Q8) xT stabAllCirc (SimGF.ket0 2, 0) ^ 2 := by decide +kernel

theorem stabAllCirc_backends_agree :
    expectOrd id (RingHom.id Q8) (execOps stabQ8 (StabState.new 2 2) [0, 0] stabAllCirc) (shotProdS xT) =
    expectOrd id (RingHom.id Q8) (execOps (vecBackend (α := Q8) (P := Empty)) (VecState.new 2 2) [0, 0] stabAllCirc)
      (SimGF.shotProd xT) := by decide +kernel

end Q1t.Sim.Witness

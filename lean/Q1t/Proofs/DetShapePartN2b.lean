import Q1t.Proofs.DetShapePartN1a
set_option linter.unusedSectionVars false
set_option linter.unusedVariables false
set_option linter.unusedSimpArgs false
/-!
`PartN2` (second attempt): `normalize` preserves the existence of destabilizers.

Generic part: a predicate on tableaux that survives every returning `swap_rows` and every returning
`multiply_row(m, i)` with `m ≠ i` (on well-shaped tableaux) survives `normalize`.
Specific part: `swap_rows(a, b)` exchanges `d_a, d_b`; `multiply_row(m, i)` replaces `d_i` by `d_i · d_m`.
-/
namespace Q1t.Proofs.DetPlan
open Q1t Q1t.Tableau Q1t.Spec.Pauli Q1t.Proofs.Tableau Q1t.Proofs.TabG

section generic
variable (Q : Tab → Prop)
  (hswap : ∀ (t t' : Tab) (a b : Nat), t.WF → Q t → t.swapRows a b = .ok t' → Q t')
  (hmul : ∀ (t t' : Tab) (m i : Nat), t.WF → m ≠ i → Q t → t.multiplyRow phG m i = .ok t' → Q t')
include hswap hmul

theorem elimRows_preserves (sel : P → Bool) (j i : Nat) : ∀ (ms : List Nat) (t t' : Tab), t.WF → Q t →
    Tab.elimRows phG sel j i ms t = .ok t' → t'.WF ∧ Q t' := by
  intro ms
  induction ms with
  | nil => intro t t' hwf hq hok; cases hok; exact ⟨hwf, hq⟩
  | cons m ms ih =>
    intro t t' hwf hq hok
    simp only [Tab.elimRows, bind] at hok
    obtain ⟨p, hp, hok⟩ := bind_ok hok
    split at hok
    · rename_i hc
      obtain ⟨t1, ht1, hok⟩ := bind_ok hok
      have hne : m ≠ i := by simp only [Bool.and_eq_true, bne_iff_ne] at hc; exact hc.1
      obtain ⟨_, hwf1, _⟩ := multiplyRow_rowD t t1 m i hwf hne ht1
      exact ih t1 t' hwf1 (hmul t t1 m i hwf hne hq ht1) hok
    · exact ih t t' hwf hq hok

theorem pass_preserves (sel : P → Bool) : ∀ (js : List Nat) (t : Tab) (i : Nat) (t' : Tab) (i' : Nat), t.WF → Q t →
    Tab.pass phG sel js t i = .ok (t', i') → t'.WF ∧ Q t' := by
  intro js
  induction js with
  | nil => intro t i t' i' hwf hq hok; cases hok; exact ⟨hwf, hq⟩
  | cons j js ih =>
    intro t i t' i' hwf hq hok
    simp only [Tab.pass, bind] at hok
    obtain ⟨r, hr, hok⟩ := bind_ok hok
    cases r with
    | none => exact ih t i t' i' hwf hq hok
    | some k =>
      simp only [] at hok
      obtain ⟨t1, e1, hok⟩ := bind_ok hok
      obtain ⟨t2, e2, hok⟩ := bind_ok hok
      obtain ⟨_, hwf1, _⟩ := swapRows_rowD t t1 i k e1
      obtain ⟨hwf2, hq2⟩ := elimRows_preserves Q hswap hmul sel j i _ t1 t2 (hwf1 hwf) (hswap t t1 i k hwf hq e1) e2
      exact ih t2 (i + 1) t' i' hwf2 hq2 hok

theorem normalize_preserves (t0 t : Tab) (hwf : t0.WF) (hq : Q t0) (hok : t0.normalize phG = .ok t) : Q t := by
  simp only [Tab.normalize, bind] at hok
  obtain ⟨⟨t1, i1⟩, e1, hok⟩ := bind_ok hok
  obtain ⟨⟨t2, i2⟩, e2, hok⟩ := bind_ok hok
  cases hok
  obtain ⟨hwf1, hq1⟩ := pass_preserves Q hswap hmul P.hasX _ t0 0 t1 i1 hwf hq e1
  exact (pass_preserves Q hswap hmul P.hasZ _ t1 i1 t2 i2 hwf1 hq1 e2).2

end generic

/-! ### destabilizers under the two row operations -/

def dD (ds : List (List P)) (k : Nat) : List P := ds.getD k []

/-- `Dual` with total accessors (for a well-shaped tableau) -/
def DualF (t : Tab) (ds : List (List P)) : Prop :=
  ds.length = t.n ∧ (∀ k, k < t.n → (dD ds k).length = t.n) ∧
    ∀ i k, i < t.n → k < t.n → sp (rowD t i) (dD ds k) = decide (i = k)

theorem dual_iff_dualF (t : Tab) (hwf : t.WF) (ds : List (List P)) : Dual t ds ↔ DualF t ds := by
  obtain ⟨w1, w2, w3⟩ := hwf
  constructor
  · rintro ⟨h1, h2, h3⟩
    have hget : ∀ k, k < t.n → ds[k]? = some (dD ds k) := fun k hk => by
      simp [dD, List.getD_eq_getElem?_getD, List.getElem?_eq_getElem (show k < ds.length by omega)]
    refine ⟨h1, fun k hk => h2 _ (List.mem_of_getElem? (hget k hk)), fun i k hi hk => ?_⟩
    exact h3 i k _ _ (rowD_getElem? t i (by omega)) (hget k hk)
  · rintro ⟨h1, h2, h3⟩
    refine ⟨h1, fun d hd => ?_, fun i k r d hr hd => ?_⟩
    · obtain ⟨k, hk, rfl⟩ := List.getElem_of_mem hd
      have := h2 k (by omega)
      simpa [dD, List.getD_eq_getElem?_getD, List.getElem?_eq_getElem hk] using this
    · have hi : i < t.n := by have := (List.getElem?_eq_some_iff.mp hr).1; omega
      have hk : k < t.n := by have := (List.getElem?_eq_some_iff.mp hd).1; omega
      have e1 : rowD t i = r := rowD_of_getElem? t i r hr
      have e2 : dD ds k = d := by simp [dD, List.getD_eq_getElem?_getD, hd]
      rw [← e1, ← e2]; exact h3 i k hi hk

theorem swapIdx_inj (a b x y : Nat) (h : swapIdx a b x = swapIdx a b y) : x = y := by
  have := congrArg (swapIdx a b) h
  rwa [swapIdx_invol, swapIdx_invol] at this

theorem swapIdx_lt_of (a b k n : Nat) (ha : a < n) (hb : b < n) (hk : k < n) : swapIdx a b k < n := by
  unfold swapIdx; split <;> [exact ha; (split <;> [exact hb; exact hk])]

theorem hasDual_swap (t t' : Tab) (a b : Nat) (hwf : t.WF) (hd : HasDual t) (h : t.swapRows a b = .ok t') :
    HasDual t' := by
  obtain ⟨hn, hwf', hrow⟩ := swapRows_rowD t t' a b h
  obtain ⟨ds, hds⟩ := hd
  obtain ⟨h1, h2, h3⟩ := (dual_iff_dualF t hwf ds).mp hds
  -- a, b are in range
  have hab : a < t.n ∧ b < t.n := by
    unfold Tab.swapRows Tab.row at h
    obtain ⟨r0, hr0, h⟩ := bind_ok h
    obtain ⟨r1, hr1, h⟩ := bind_ok h
    have := (List.getElem?_eq_some_iff.mp (ofOption_ok hr0)).1
    have := (List.getElem?_eq_some_iff.mp (ofOption_ok hr1)).1
    have := hwf.1
    omega
  have hda : ds[a]? = some (dD ds a) := by
    simp [dD, List.getD_eq_getElem?_getD, List.getElem?_eq_getElem (show a < ds.length by omega)]
  have hdb : ds[b]? = some (dD ds b) := by
    simp [dD, List.getD_eq_getElem?_getD, List.getElem?_eq_getElem (show b < ds.length by omega)]
  refine ⟨(ds.set a (dD ds b)).set b (dD ds a), (dual_iff_dualF t' (hwf' hwf) _).mpr ?_⟩
  have hdd : ∀ k, dD ((ds.set a (dD ds b)).set b (dD ds a)) k = dD ds (swapIdx a b k) := fun k => by
    show (((ds.set a (dD ds b)).set b (dD ds a)).getD k []) = ds.getD (swapIdx a b k) []
    rw [List.getD_eq_getElem?_getD, List.getD_eq_getElem?_getD, swap_getElem? ds a b _ _ hda hdb]
  refine ⟨by simp [h1, hn], fun k hk => ?_, fun i k hi hk => ?_⟩
  · rw [hdd, hn]; exact h2 _ (swapIdx_lt_of a b k t.n hab.1 hab.2 (hn ▸ hk))
  · rw [hdd, hrow, h3 _ _ (swapIdx_lt_of a b i t.n hab.1 hab.2 (hn ▸ hi)) (swapIdx_lt_of a b k t.n hab.1 hab.2 (hn ▸ hk))]
    by_cases hik : i = k
    · subst hik; simp
    · have : swapIdx a b i ≠ swapIdx a b k := fun e => hik (swapIdx_inj a b i k e)
      simp [hik, this]

theorem hasDual_mul (t t' : Tab) (m i : Nat) (hwf : t.WF) (hne : m ≠ i) (hd : HasDual t)
    (h : t.multiplyRow phG m i = .ok t') : HasDual t' := by
  obtain ⟨hn, hwf', hrow⟩ := multiplyRow_rowD t t' m i hwf hne h
  obtain ⟨ds, hds⟩ := hd
  obtain ⟨h1, h2, h3⟩ := (dual_iff_dualF t hwf ds).mp hds
  obtain ⟨r0, r1, s0, s1, hr0, hr1, _, _, _, _, _⟩ := multiplyRow_ok_inv phaseTable_correct t t' m i h
  have hm : m < t.n := by have := (List.getElem?_eq_some_iff.mp hr0).1; have := hwf.1; omega
  have hi : i < t.n := by have := (List.getElem?_eq_some_iff.mp hr1).1; have := hwf.1; omega
  have hrl : ∀ x, x < t.n → (rowD t x).length = t.n := fun x hx =>
    hwf.2.2 _ (List.mem_of_getElem? (rowD_getElem? t x (by have := hwf.1; omega)))
  refine ⟨ds.set i (opsMul (dD ds i) (dD ds m)), (dual_iff_dualF t' hwf' _).mpr ?_⟩
  have hdd : ∀ k, dD (ds.set i (opsMul (dD ds i) (dD ds m))) k =
      if k = i then opsMul (dD ds i) (dD ds m) else dD ds k := fun k => by
    simp only [dD, List.getD_eq_getElem?_getD, List.getElem?_set]
    by_cases hk : i = k
    · subst hk; simp [show i < ds.length by omega]
    · simp [hk, Ne.symm hk]
  have hli : (dD ds i).length = (dD ds m).length := by rw [h2 i hi, h2 m hm]
  refine ⟨by simp [h1, hn], fun k hk => ?_, fun x k hx hk => ?_⟩
  · rw [hdd, hn]
    split
    · rw [opsMul_length _ _ hli, h2 i hi]
    · exact h2 k (hn ▸ hk)
  · rw [hn] at hx hk
    rw [hdd, hrow]
    by_cases hxm : x = m <;> by_cases hki : k = i
    · subst hxm; subst hki
      rw [if_pos rfl, if_pos rfl,
        sp_opsMul _ _ _ ((hrl x hx).trans (hrl k hk).symm) (by rw [hrl k hk, opsMul_length _ _ hli, h2 k hk]),
        sp_opsMul_right _ _ _ hli (by rw [h2 x hm, hrl x hx]), sp_opsMul_right _ _ _ hli (by rw [h2 x hm, hrl k hk]),
        h3 x k hx hk, h3 x x hx hx, h3 k k hk hk, h3 k x hk hx]
      simp [hne, Ne.symm hne]
    · subst hxm
      rw [if_pos rfl, if_neg hki, sp_opsMul _ _ _ ((hrl x hx).trans (hrl i hi).symm) (by rw [hrl i hi, h2 k hk]),
        h3 x k hx hk, h3 i k hi hk]
      have : ¬ i = k := fun e => hki e.symm
      simp [this]
    · subst hki
      rw [if_neg hxm, if_pos rfl, sp_opsMul_right _ _ _ hli (by rw [h2 m hm, hrl x hx]), h3 x k hx hk, h3 x m hx hm]
      simp [hxm]
    · rw [if_neg hxm, if_neg hki]; exact h3 x k hx hk

/-- **`PartN2`** -/
theorem partN2b : PartN2 := fun t0 t hwf hok hd =>
  normalize_preserves HasDual (fun t t' a b hwf hq h => hasDual_swap t t' a b hwf hq h)
    (fun t t' m i hwf hne hq h => hasDual_mul t t' m i hwf hne hq h) t0 t hwf hd hok

end Q1t.Proofs.DetPlan

import Q1t.Proofs.ConjPrimDefs
/-! C06: kernel check of the generated conjugation table against the model's matrices over `Q8`
(every string of every claiming primitive; split over several modules so that they build in parallel). -/
namespace Q1t.Proofs.ConjPrim
open Q1t Q1t.Gate Q1t.Spec.Clifford
open Q1t.Conj hiding Pauli

theorem chk_CZ : checkPrimWith (litMat .CZ) litPauli .CZ = true := by decide +kernel

end Q1t.Proofs.ConjPrim

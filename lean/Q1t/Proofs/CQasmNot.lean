import Q1t.Model.CQasm
import Q1t.Spec.CQ1
import Q1t.Proofs.Conditional
/-!
C12, the `not b[i] … not b[i]` bracketing of `Circuit::c_qasm`: for every control list without repetition, every
target and every register word, the binary-controlled line between the brackets fires iff the listed bits spell
(the low bits of) the target, and the closing bracket restores the word.  With a repeated bit the bit is negated
twice (negative witness in `Props/C12`).
-/
namespace Q1t.Proofs.CQasm
open Q1t.CQ

/-- the effect of a sequence of `not b[k]` lines on the register word (`Spec/CQ1`: `w ^^^ (1 <<< k)` each) -/
def flipBits (w : Nat) (ks : List Nat) : Nat := ks.foldl (fun w k => w ^^^ (1 <<< k)) w

theorem testBit_flip (w k j : Nat) : (w ^^^ (1 <<< k)).testBit j = (w.testBit j ^^ decide (k = j)) := by
  rw [Nat.testBit_xor, Nat.one_shiftLeft, Nat.testBit_two_pow]

theorem flipBits_testBit : ∀ (ks : List Nat) (w j : Nat), ks.Nodup →
    (flipBits w ks).testBit j = (w.testBit j ^^ decide (j ∈ ks))
  | [], w, j, _ => by simp [flipBits]
  | k :: ks, w, j, h => by
    have hk : k ∉ ks := (List.nodup_cons.mp h).1
    have ih := flipBits_testBit ks (w ^^^ (1 <<< k)) j (List.nodup_cons.mp h).2
    show (flipBits (w ^^^ (1 <<< k)) ks).testBit j = _
    rw [ih, testBit_flip]
    by_cases hjk : k = j
    · subst hjk; simp [hk]
    · have : ¬ j = k := fun h => hjk h.symm
      simp [hjk, this]

theorem flipBits_xor : ∀ (ks : List Nat) (w : Nat), flipBits w ks = w ^^^ flipBits 0 ks
  | [], w => by simp [flipBits]
  | k :: ks, w => by
    show flipBits (w ^^^ (1 <<< k)) ks = w ^^^ flipBits (0 ^^^ (1 <<< k)) ks
    rw [flipBits_xor ks (w ^^^ (1 <<< k)), flipBits_xor ks (0 ^^^ (1 <<< k)), Nat.zero_xor, Nat.xor_assoc]

/-- the closing bracket undoes the opening bracket, for ANY list of bits (repetitions included) -/
theorem flipBits_restores (ks : List Nat) (w : Nat) : flipBits (flipBits w ks) ks = w := by
  rw [flipBits_xor ks (flipBits w ks), flipBits_xor ks w, Nat.xor_assoc, Nat.xor_self, Nat.xor_zero]

/-! ### which bits are bracketed -/

theorem mem_notBits_aux (target : Nat) : ∀ (control : List Nat) (k c : Nat),
    c ∈ (control.zipIdx k).filterMap (fun (p : Nat × Nat) => if target.testBit p.2 then none else some p.1) ↔
      ∃ i, ∃ (h : i < control.length), control[i] = c ∧ target.testBit (k + i) = false
  | [], k, c => by simp
  | x :: xs, k, c => by
    rw [List.zipIdx_cons, List.filterMap_cons]
    constructor
    · intro h
      by_cases ht : target.testBit k = true
      · simp only [ht, if_true] at h
        obtain ⟨i, hi, h1, h2⟩ := (mem_notBits_aux target xs (k + 1) c).mp h
        exact ⟨i + 1, by simp; omega, by simpa using h1, by rw [← h2]; congr 1; omega⟩
      · have ht' : target.testBit k = false := by simpa using ht
        simp only [ht', Bool.false_eq_true, if_false, List.mem_cons] at h
        rcases h with rfl | h
        · exact ⟨0, by simp, rfl, by simpa using ht'⟩
        · obtain ⟨i, hi, h1, h2⟩ := (mem_notBits_aux target xs (k + 1) c).mp h
          exact ⟨i + 1, by simp; omega, by simpa using h1, by rw [← h2]; congr 1; omega⟩
    · rintro ⟨i, hi, h1, h2⟩
      cases i with
      | zero =>
        simp only [List.getElem_cons_zero, Nat.add_zero] at h1 h2
        subst h1
        simp [h2]
      | succ i =>
        have hmem : c ∈ (xs.zipIdx (k + 1)).filterMap
            (fun (p : Nat × Nat) => if target.testBit p.2 then none else some p.1) :=
          (mem_notBits_aux target xs (k + 1) c).mpr
            ⟨i, by simpa using hi, by simpa using h1, by rw [← h2]; congr 1; omega⟩
        by_cases ht : target.testBit k = true
        · simp only [ht, if_true]; exact hmem
        · have ht' : target.testBit k = false := by simpa using ht
          simp only [ht', Bool.false_eq_true, if_false, List.mem_cons]; exact Or.inr hmem

theorem mem_notBits (control : List Nat) (target c : Nat) :
    c ∈ notBits control target ↔ ∃ i, ∃ (h : i < control.length), control[i] = c ∧ target.testBit i = false := by
  have := mem_notBits_aux target control 0 c
  simpa [notBits] using this

theorem notBits_nodup_aux (target : Nat) : ∀ (control : List Nat) (k : Nat), control.Nodup →
    ((control.zipIdx k).filterMap (fun (p : Nat × Nat) => if target.testBit p.2 then none else some p.1)).Nodup
  | [], _, _ => by simp
  | x :: xs, k, h => by
    have hx : x ∉ xs := (List.nodup_cons.mp h).1
    have ih := notBits_nodup_aux target xs (k + 1) (List.nodup_cons.mp h).2
    rw [List.zipIdx_cons, List.filterMap_cons]
    by_cases ht : target.testBit k = true
    · simp only [ht, if_true]; exact ih
    · have ht' : target.testBit k = false := by simpa using ht
      simp only [ht', Bool.false_eq_true, if_false]
      refine List.nodup_cons.mpr ⟨?_, ih⟩
      intro hm
      obtain ⟨i, hi, h1, _⟩ := (mem_notBits_aux target xs (k + 1) x).mp hm
      exact hx (h1 ▸ List.getElem_mem hi)

theorem notBits_nodup (control : List Nat) (target : Nat) (h : control.Nodup) : (notBits control target).Nodup := by
  have := notBits_nodup_aux target control 0 h
  simpa [notBits] using this

/-- a bit of the control list after the opening bracket: set iff it agrees with the target bit of its position -/
theorem bracket_bit (control : List Nat) (target w : Nat) (hnd : control.Nodup) (i : Nat) (hi : i < control.length) :
    (flipBits w (notBits control target)).testBit control[i] = (w.testBit control[i] == target.testBit i) := by
  rw [flipBits_testBit _ _ _ (notBits_nodup control target hnd)]
  have hmem : control[i] ∈ notBits control target ↔ target.testBit i = false := by
    rw [mem_notBits]
    constructor
    · rintro ⟨j, hj, h1, h2⟩
      have : j = i := (List.getElem_inj hnd).mp h1
      subst this; exact h2
    · intro h; exact ⟨i, hi, rfl, h⟩
  by_cases ht : target.testBit i = true
  · have : control[i] ∉ notBits control target := fun hm => by rw [hmem.mp hm] at ht; cases ht
    simp [ht, this]
  · have ht' : target.testBit i = false := by simpa using ht
    simp [ht', hmem.mpr ht']

/-- **the bracketing**: between the brackets all listed bits are 1 iff the listed bits spell the target -/
theorem bracket_fires (control : List Nat) (target w : Nat) (hnd : control.Nodup) :
    control.all (fun k => CQ1.bitSet (flipBits w (notBits control target)) k) = true ↔
      ∀ i, ∀ (h : i < control.length), w.testBit control[i] = target.testBit i := by
  rw [List.all_eq_true]
  constructor
  · intro h i hi
    have := h control[i] (List.getElem_mem hi)
    simp only [CQ1.bitSet] at this
    rw [bracket_bit control target w hnd i hi] at this
    simpa using this
  · intro h k hk
    obtain ⟨i, hi, rfl⟩ := List.getElem_of_mem hk
    simp only [CQ1.bitSet]
    rw [bracket_bit control target w hnd i hi]
    simpa using h i hi

/-! ### the circuit's own firing condition (`do_execute_with`: control word == target) -/

theorem controlWord_bits (control : List Nat) (w cw : Nat) (h : Sim.controlWord control w = some cw) (j : Nat) :
    cw.testBit j = true ↔ ∃ (h : j < control.length), w.testBit control[j] = true := by
  unfold Sim.controlWord at h
  split at h
  · injection h with h
    subst h
    have hf := Q1t.Proofs.Conditional.sim_fold_bits w control.zipIdx 0 j
    have e : (fun (acc : Nat) (x : Nat × Nat) => match x with | (isrc, idst) => acc ||| (w >>> isrc &&& 1) <<< idst) =
        (fun acc (p : Nat × Nat) => acc ||| (((w >>> p.1) &&& 1) <<< p.2)) := by
      funext acc x; cases x; rfl
    rw [e, hf]
    simp only [Nat.zero_testBit, Bool.false_eq_true, false_or]
    constructor
    · rintro ⟨p, hp, h1, h2⟩
      obtain ⟨c, i⟩ := p
      have := List.mem_zipIdx hp
      simp only at h1 h2 this
      obtain ⟨_, hlt, hget⟩ := this
      subst h1
      simp only [Nat.zero_add, Nat.sub_zero] at hlt hget
      exact ⟨hlt, by rw [← hget]; exact h2⟩
    · rintro ⟨hj, h2⟩
      refine ⟨(control[j], j), ?_, rfl, h2⟩
      rw [List.mem_zipIdx_iff_getElem?]
      simp [hj]
  · cases h

/-- the circuit fires iff the listed bits spell the target AND the target has no bits beyond the control list -/
theorem controlWord_eq_target (control : List Nat) (w cw target : Nat) (h : Sim.controlWord control w = some cw) :
    cw = target ↔
      (∀ i, ∀ (hi : i < control.length), w.testBit control[i] = target.testBit i) ∧ target < 2 ^ control.length := by
  constructor
  · intro ht
    subst ht
    refine ⟨fun i hi => ?_, ?_⟩
    · rw [Bool.eq_iff_iff, controlWord_bits control w cw h i]
      exact ⟨fun h2 => ⟨hi, h2⟩, fun ⟨_, h2⟩ => h2⟩
    · apply Nat.lt_pow_two_of_testBit
      intro j hj
      cases hb : cw.testBit j with
      | false => rfl
      | true => obtain ⟨hlt, _⟩ := (controlWord_bits control w cw h j).mp hb; omega
  · rintro ⟨hbits, hlt⟩
    apply Nat.eq_of_testBit_eq
    intro j
    rw [Bool.eq_iff_iff, controlWord_bits control w cw h j]
    constructor
    · rintro ⟨hj, h2⟩; rw [← hbits j hj]; exact h2
    · intro h2
      have hj : j < control.length := by
        rcases Nat.lt_or_ge j control.length with hlt' | hge
        · exact hlt'
        · have : target.testBit j = false :=
            Nat.testBit_lt_two_pow (Nat.lt_of_lt_of_le hlt (Nat.pow_le_pow_right (by omega) hge))
          rw [this] at h2; cases h2
      exact ⟨hj, by rw [hbits j hj]; exact h2⟩

end Q1t.Proofs.CQasm

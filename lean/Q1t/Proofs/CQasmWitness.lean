import Q1t.Proofs.CQasmGates
/-!
C12: the property evaluated exactly (over ℚ(ζ₈), kernel-decidable) on a concrete circuit of constant gates:
`agrees c` = the model's export of `c` parses with `Spec/CQ1`, is well formed, and induces for every register word the
same unnormalised mixed state as the Born semantics of `c` (`Spec/Born`).  Used for the non-vacuity examples and for
the kernel-checked negative witnesses of the defect classes in `Props/C12`.
-/
namespace Q1t.Proofs.CQasm
open Q1t Q1t.CQ

def toBasisQ : Basis → Sim.Basis
  | .X => .X | .Y => .Y | .Z => .Z

def toCOpQ : XOp Empty → Option (Sim.COp Empty)
  | .gate g bits => (toTerm g).map fun t => .gate t bits
  | .cond control target g bits => (toTerm g).map fun t => .cond control target t bits
  | .reset q => some (.reset q)
  | .resetAll => some .resetAll
  | .measure q c b => some (.measure q c (toBasisQ b))
  | .measureAll cbits b => some (.measureAll cbits (toBasisQ b))
  | .peek q c b => some (.peek q c (toBasisQ b))
  | .peekAll cbits b => some (.peekAll cbits (toBasisQ b))
  | .barrier bits => some (.barrier bits)

/-- the reference: Born branching semantics of the circuit from `|0…0⟩`, word 0 -/
def bornOf (c : XCircuit Empty) : Option (List (CQ1.Branch Q8)) :=
  match c.ops.mapM toCOpQ with
  | none => none
  | some cops => Spec.branches c.nq nzQ8 cops (CQ1.initial c.nq)

/-- the program the model writes for `c`, parsed -/
def programOf (c : XCircuit Empty) : Option CQ1.Program :=
  match exportText Gen.cqGates noNum c with
  | .ok t => match CQ1.parseProgram t with
    | .ok p => some p
    | .error _ => none
  | _ => none

def sameMixed (n : Nat) (xs ys : List (CQ1.Branch Q8)) : Bool :=
  ((CQ1.wordsOf xs ++ CQ1.wordsOf ys).eraseDups).all fun w =>
    CQ1.density (P := Empty) (2 ^ n) xs w == CQ1.density (P := Empty) (2 ^ n) ys w

/-- the property on one circuit -/
def agrees (c : XCircuit Empty) : Bool :=
  match programOf c, bornOf c with
  | some p, some ref =>
    p.nq == c.nq && (CQ1.programWf p).isNone &&
    match CQ1.programSem q8Sem nzQ8 p with
    | some got => sameMixed c.nq got ref
    | none => false
  | _, _ => false

/-- the export is a program that parses and is well formed, but means something else -/
def wellFormedButDiffers (c : XCircuit Empty) : Bool :=
  match programOf c, bornOf c with
  | some p, some ref =>
    p.nq == c.nq && (CQ1.programWf p).isNone &&
    match CQ1.programSem q8Sem nzQ8 p with
    | some got => !sameMixed c.nq got ref
    | none => false
  | _, _ => false

/-- the syntax error of the exported text, if any -/
def syntaxError (c : XCircuit Empty) : Option CQ1.ParseFail :=
  match exportText Gen.cqGates noNum c with
  | .ok t => match CQ1.parseProgram t with
    | .ok _ => none
    | .error e => some e
  | _ => none

def lib (name : String) : XGate Empty := .lib name []

end Q1t.Proofs.CQasm

namespace Q1t.Proofs.CQasm
open Q1t Q1t.CQ

/-- a stand-in for `f64` in the witnesses about the TEXT of parametrised gates: integers printed in decimal,
`x + PI` as `x + 3`, and every `{…}` hole that parses evaluates to `-1` (standing for e.g. `0.5 * -2.0`). -/
def stubNum : Num Int where
  disp := fun i => (toString i).toList
  addPi := fun i => i + 3
  evalExpr := fun _ => some (-1)

def syntaxErrorI (c : XCircuit Int) : Option CQ1.ParseFail :=
  match exportText Gen.cqGates stubNum c with
  | .ok t => match CQ1.parseProgram t with
    | .ok _ => none
    | .error e => some e
  | _ => none

end Q1t.Proofs.CQasm

import Q1t.Base.Q8
import Q1t.Model.StabSim
import Q1t.Model.ExportClass
import Q1t.Spec.WellFormed
import Q1t.Gen.Conj
import Q1t.Gen.PhaseTable
/-!
C18: closed computations for the witnesses — circuits the builders ACCEPT that violate exactly
one conjunct of `WellFormed`, and what the model of the pinned code (validated against the code by the
correspondence run) does with them (negative witnesses where the code still panics or diverges; since the
repairs of the stabilizer `measure_all_into` / `peek_all_into` / `apply_gate` / `apply_conditional_gate` checks
and of the LaTeX export of `reset_all` / `barrier(&[])`, positive ones: both representations return the same
error, the exporter draws).  Exact amplitudes `Q8 = ℚ(ζ₈)`, everything evaluated by the kernel.
Plus the general form of the repaired checks (`*_rejected_identically`): all states, all operand lists.
-/
namespace Q1t.C18W
open Q1t Q1t.Sim Q1t.Sim.Prog Q1t.Builders Q1t.ExportClass Q1t.WellFormed

def q8Rat (r : Rat) : Q8 := ⟨r, 0, 0, 0⟩
def q8Sqrt2 : Q8 := ⟨0, 1, 0, -1⟩

/-- `SimAmp Q8` with `rsqrt` on the weights 1, ½, ¼ (enough for the witnesses; cf. `Proofs/SimDemo`) -/
instance simAmpQ8 : SimAmp Q8 where
  normSq x := x * Q8.conj x
  rsqrt w := if w = 1 then 1 else if w = q8Rat (1/2) then q8Sqrt2 else if w = q8Rat (1/4) then q8Rat 2 else 0
  min1 w := w
  weightsOk ws := ws.any (· ≠ 0)

abbrev G := GateTerm Empty

/-- `conjugate` of the primitive library gates through the generated tables -/
def conjPrim : G → Tableau.Tab.Conj
  | .H => Tableau.conjOf Gen.conjTable Gen.conjNoArityCheck "H"
  | .X => Tableau.conjOf Gen.conjTable Gen.conjNoArityCheck "X"
  | .Y => Tableau.conjOf Gen.conjTable Gen.conjNoArityCheck "Y"
  | .Z => Tableau.conjOf Gen.conjTable Gen.conjNoArityCheck "Z"
  | .S => Tableau.conjOf Gen.conjTable Gen.conjNoArityCheck "S"
  | .Sdg => Tableau.conjOf Gen.conjTable Gen.conjNoArityCheck "Sdg"
  | .CX => Tableau.conjOf Gen.conjTable Gen.conjNoArityCheck "CX"
  | .CZ => Tableau.conjOf Gen.conjTable Gen.conjNoArityCheck "CZ"
  | .Swap => Tableau.conjOf Gen.conjTable Gen.conjNoArityCheck "Swap"
  | _ => fun _ => .error .notAStabilizer

def vecB : Backend Q8 Empty (VecState Q8) := vecBackend
def stabB : Backend Q8 Empty StabState := stabBackend (q8Rat (1/2)) Gen.phaseTable conjPrim

/-- the circuit the calls build, and whether every call was accepted -/
def built (nq nc : Nat) (calls : List (Call Empty)) : Circ Empty := (runCalls (Circ.new nq nc) calls).1
def allAccepted (nq nc : Nat) (calls : List (Call Empty)) : Bool :=
  (runCalls (Circ.new nq nc) calls).2.all fun r => match r with | .ok _ => true | .error _ => false

inductive Out | ok | err (e : SimErr) | panic | noRun
deriving DecidableEq, Repr

/-- `execute_with(shots, rng, repr)` on the given draws -/
def runVec (c : Circ Empty) (shots : Nat) (ds : List Draw) : Out :=
  match runOracle (execOps vecB (VecState.new c.nq shots) (List.replicate shots 0) c.ops) ds with
  | some (.ok _, _) => .ok
  | some (.error (.err e), _) => .err e
  | some (.error (.panic _), _) => .panic
  | none => .noRun

def runStab (c : Circ Empty) (shots : Nat) (ds : List Draw) : Out :=
  match runOracle (execOps stabB (StabState.new c.nq shots) (List.replicate shots 0) c.ops) ds with
  | some (.ok _, _) => .ok
  | some (.error (.err e), _) => .err e
  | some (.error (.panic _), _) => .panic
  | none => .noRun

/-! the witnesses -/

/-- D10: `cx(0, 0)` -/
def wDup : List (Call Empty) := [.cx 0 0]
/-- D10: `measure_all(&[0])` on two qubits -/
def wMeasureAllShort : List (Call Empty) := [.measureAll [0]]
/-- `peek_all(&[0, 0])` on one qubit -/
def wPeekAllLong : List (Call Empty) := [.peekAll [0, 0]]
/-- D10: a classical bit ≥ 64 -/
def wCbit64 : List (Call Empty) := [.measure 0 64]
/-- D9: a conditional gate, executed with 0 shots -/
def wCond : List (Call Empty) := [.addConditionalGate [0] 1 .X [0]]
/-- a conditional gate with the wrong number of operands whose condition never holds -/
def wCondArity : List (Call Empty) := [.addConditionalGate [0] 1 .H []]
/-- D11: a one-qubit gate on no qubit -/
def wEmptyOperands : List (Call Empty) := [.addGate .H []]
/-- D11: Toffoli with the first control between the other operands -/
def wCtrlBetween : List (Call Empty) := [.addGate (.C .CX) [1, 0, 2]]
/-- `reset_all` without qubits (LaTeX used to panic on it) -/
def wResetAll0 : List (Call Empty) := [.resetAll]
/-- an empty barrier (LaTeX used to panic on it) -/
def wBarrier0 : List (Call Empty) := [.barrier []]
/-- a conditional gate controlled by classical bit 1 on a one-qubit circuit -/
def wCondCtl : List (Call Empty) := [.addConditionalGate [1] 1 .X [0]]
/-- 65 control bits -/
def wControls65 : List (Call Empty) := [.addConditionalGate (List.range 65) 0 .X [0]]
/-- a composite holding a sub-gate on local qubit 1 although it is one qubit wide (`Composite::add_gate` validates nothing) -/
def wCompSub : List (Call Empty) := [.addGate (.Composite "c" 1 (.cons .H [1] .nil)) [0]]
/-- a well-formed composite and a loop with 0 iterations -/
def wCompGood : List (Call Empty) :=
  [.addGate (.Composite "c" 2 (.cons .H [1] (.cons .CX [1, 0] .nil))) [0, 1],
   .addGate (.Loop "l" 0 "b" 1 (.cons .X [0] .nil)) [1], .measureAll [1, 0]]
/-- a `Loop` of 3 iterations whose body holds another `Loop` of 3 iterations -/
def wNestedLoop : List (Call Empty) :=
  [.addGate (.Loop "o" 3 "b" 1 (.cons (.Loop "i" 3 "c" 1 (.cons .X [0] .nil)) [0] .nil)) [0]]
/-- a well-formed circuit: Bell pair, measured -/
def wGood : List (Call Empty) := [.h 0, .cx 0 1, .measureAll [0, 1]]

theorem dup_accepted : allAccepted 2 0 wDup = true := by decide +kernel
theorem dup_defects : circDefects (built 2 0 wDup) = [.dupQubits] := by decide +kernel
theorem dup_vec : runVec (built 2 0 wDup) 1 [] = .ok := by decide +kernel
theorem dup_stab : runStab (built 2 0 wDup) 1 [] = .ok := by decide +kernel
theorem dup1_accepted : allAccepted 1 0 wDup = true := by decide +kernel
theorem dup1_vec : runVec (built 1 0 wDup) 1 [] = .panic := by decide +kernel
theorem dup1_stab : runStab (built 1 0 wDup) 1 [] = .ok := by decide +kernel
theorem dup_latex : latexOutcome (built 2 0 wDup) = .panic := by decide +kernel

theorem mall_accepted : allAccepted 2 2 wMeasureAllShort = true := by decide +kernel
theorem mall_defects : circDefects (built 2 2 wMeasureAllShort) = [.measureAllLen] := by decide +kernel
theorem mall_vec : runVec (built 2 2 wMeasureAllShort) 1 [] = .err (.invalidNrMeasurementBits 1 2) := by decide +kernel
theorem mall_stab : runStab (built 2 2 wMeasureAllShort) 1 [] = .err (.invalidNrMeasurementBits 1 2) := by decide +kernel

theorem pall_accepted : allAccepted 1 2 wPeekAllLong = true := by decide +kernel
theorem pall_vec : runVec (built 1 2 wPeekAllLong) 1 [] = .err (.invalidNrMeasurementBits 2 1) := by decide +kernel
theorem pall_stab : runStab (built 1 2 wPeekAllLong) 1 [] = .err (.invalidNrMeasurementBits 2 1) := by decide +kernel
theorem pall_oq : openQasmCls (built 1 2 wPeekAllLong) = .err := by decide +kernel

theorem cbit_accepted : allAccepted 1 65 wCbit64 = true := by decide +kernel
theorem cbit_defects : circDefects (built 1 65 wCbit64) = [.cbitGe64] := by decide +kernel
theorem cbit_vec : runVec (built 1 65 wCbit64) 1 [.bin 1] = .panic := by decide +kernel
theorem cbit_stab : runStab (built 1 65 wCbit64) 1 [] = .panic := by decide +kernel

theorem cond_accepted : allAccepted 1 1 wCond = true := by decide +kernel
theorem cond_defects : circDefects (built 1 1 wCond) = [] := by decide +kernel
theorem cond_zero_vec : runVec (built 1 1 wCond) 0 [] = .panic := by decide +kernel
theorem cond_zero_stab : runStab (built 1 1 wCond) 0 [] = .panic := by decide +kernel
theorem cond_one_vec : runVec (built 1 1 wCond) 1 [] = .ok := by decide +kernel
theorem cond_one_stab : runStab (built 1 1 wCond) 1 [] = .ok := by decide +kernel

theorem condArity_accepted : allAccepted 1 1 wCondArity = true := by decide +kernel
theorem condArity_defects : circDefects (built 1 1 wCondArity) = [.arity] := by decide +kernel
theorem condArity_vec : runVec (built 1 1 wCondArity) 1 [] = .err (.invalidNrBits 0 1) := by decide +kernel
theorem condArity_stab : runStab (built 1 1 wCondArity) 1 [] = .err (.invalidNrBits 0 1) := by decide +kernel

/-- the identity gate (whose `conjugate` has no arity check) on two qubits; a one-qubit gate on no qubit of a
circuit without qubits (no tableau row is ever conjugated): both used to run through on the stabilizer representation -/
def wIdentityArity : List (Call Empty) := [.addGate .I [0, 1]]
theorem identityArity_accepted : allAccepted 2 0 wIdentityArity = true := by decide +kernel
theorem identityArity_vec : runVec (built 2 0 wIdentityArity) 1 [] = .err (.invalidNrBits 2 1) := by decide +kernel
theorem identityArity_stab : runStab (built 2 0 wIdentityArity) 1 [] = .err (.invalidNrBits 2 1) := by decide +kernel
theorem empty0_accepted : allAccepted 0 0 wEmptyOperands = true := by decide +kernel
theorem empty0_vec : runVec (built 0 0 wEmptyOperands) 1 [] = .err (.invalidNrBits 0 1) := by decide +kernel
theorem empty0_stab : runStab (built 0 0 wEmptyOperands) 1 [] = .err (.invalidNrBits 0 1) := by decide +kernel

theorem empty_accepted : allAccepted 1 0 wEmptyOperands = true := by decide +kernel
theorem empty_defects : circDefects (built 1 0 wEmptyOperands) = [.arity] := by decide +kernel
theorem empty_oq : openQasmCls (built 1 0 wEmptyOperands) = .panic := by decide +kernel
theorem empty_cq : cQasmCls (built 1 0 wEmptyOperands) = .panic := by decide +kernel
theorem empty_vec : runVec (built 1 0 wEmptyOperands) 1 [] = .err (.invalidNrBits 0 1) := by decide +kernel

theorem ctrl_accepted : allAccepted 3 0 wCtrlBetween = true := by decide +kernel
theorem ctrl_defects : circDefects (built 3 0 wCtrlBetween) = [.ctrlBetweenTargets] := by decide +kernel
theorem ctrl_latex : latexOutcome (built 3 0 wCtrlBetween) = .panic := by decide +kernel

theorem resetAll0_accepted : allAccepted 0 0 wResetAll0 = true := by decide +kernel
theorem resetAll0_defects : circDefects (built 0 0 wResetAll0) = [] := by decide +kernel
theorem resetAll0_wf : WellFormed (built 0 0 wResetAll0) 1 = true := by decide +kernel
theorem resetAll0_latex : latexOutcome (built 0 0 wResetAll0) = .ok () := by decide +kernel

theorem barrier0_accepted : allAccepted 1 0 wBarrier0 = true := by decide +kernel
theorem barrier0_defects : circDefects (built 1 0 wBarrier0) = [] := by decide +kernel
theorem barrier0_wf : WellFormed (built 1 0 wBarrier0) 1 = true := by decide +kernel
theorem barrier0_latex : latexOutcome (built 1 0 wBarrier0) = .ok () := by decide +kernel

theorem condCtl_accepted : allAccepted 1 2 wCondCtl = true := by decide +kernel
theorem condCtl_defects : circDefects (built 1 2 wCondCtl) = [.condControlGeNq] := by decide +kernel
theorem condCtl_cq : cQasmCls (built 1 2 wCondCtl) = .panic := by decide +kernel

theorem controls65_accepted : allAccepted 1 65 wControls65 = true := by decide +kernel
theorem controls65_vec : runVec (built 1 65 wControls65) 1 [] = .panic := by decide +kernel
theorem controls65_stab : runStab (built 1 65 wControls65) 1 [] = .panic := by decide +kernel

theorem compSub_accepted : allAccepted 1 0 wCompSub = true := by decide +kernel
theorem compSub_defects : circDefects (built 1 0 wCompSub) = [.badComposite] := by decide +kernel
theorem compSub_vec : runVec (built 1 0 wCompSub) 1 [] = .panic := by decide +kernel
theorem compSub_oq : openQasmCls (built 1 0 wCompSub) = .panic := by decide +kernel
theorem compSub_cq : cQasmCls (built 1 0 wCompSub) = .panic := by decide +kernel
theorem compSub_latex : latexOutcome (built 1 0 wCompSub) = .panic := by decide +kernel

theorem compGood_accepted : allAccepted 2 2 wCompGood = true := by decide +kernel
theorem compGood_wf : WellFormed (built 2 2 wCompGood) 2 = true := by decide +kernel
theorem compGood_oq : openQasmCls (built 2 2 wCompGood) = .ok := by decide +kernel
theorem compGood_latex : latexOutcome (built 2 2 wCompGood) = .ok () := by decide +kernel

theorem nested_accepted : allAccepted 1 0 wNestedLoop = true := by decide +kernel
theorem nested_defects : circDefects (built 1 0 wNestedLoop) = [.nestedLoop] := by decide +kernel
theorem nested_latex : latexOutcome (built 1 0 wNestedLoop) = .panic := by decide +kernel
theorem nested_oq : openQasmCls (built 1 0 wNestedLoop) = .ok := by decide +kernel

theorem good_accepted : allAccepted 2 2 wGood = true := by decide +kernel
theorem good_wf : WellFormed (built 2 2 wGood) 3 = true := by decide +kernel
theorem good_oq : openQasmCls (built 2 2 wGood) = .ok := by decide +kernel
theorem good_cq : cQasmCls (built 2 2 wGood) = .ok := by decide +kernel
theorem good_latex : latexOutcome (built 2 2 wGood) = .ok () := by decide +kernel

/-! ### the repaired checks in general: every state, every operand list -/

section general
variable {α P : Type} [Zero α] [One α] [Add α] [Mul α] [Neg α] [Sub α] [Amp α P] [SimAmp α]

/-- `measure_all` / `peek_all` with a bit list whose length is not the number of qubits: both representations return
`InvalidNrMeasurementBits(len, nr_bits)` (or, first, `NotEnoughSpace` for a short result array), before anything is
sampled or written — for all states of equal size, all bit lists, all result arrays -/
theorem measure_all_len_rejected_identically (half : α) (ph : List Nat) (sv : VecState α) (ss : StabState)
    (cbits res : List Nat) (collapse : Bool) (hn : sv.nrBits = ss.nrBits) (hN : sv.nrShots = ss.nrShots)
    (hl : cbits.length ≠ ss.nrBits) :
    ∃ e, (e = .notEnoughSpace res.length ss.nrShots ∨ e = .invalidNrMeasurementBits cbits.length ss.nrBits) ∧
      VecState.measureAllHelper sv cbits res collapse = Prog.err e ∧
      StabState.measureAllInto half ph ss cbits res = Prog.err e ∧
      StabState.peekAllInto half ss cbits res = Prog.err e := by
  by_cases hr : res.length < ss.nrShots
  · exact ⟨.notEnoughSpace res.length ss.nrShots, Or.inl rfl, by simp [VecState.measureAllHelper, hN, hr], by simp [StabState.measureAllInto, hr],
      by simp [StabState.peekAllInto, hr]⟩
  · exact ⟨.invalidNrMeasurementBits cbits.length ss.nrBits, Or.inr rfl, by simp [VecState.measureAllHelper, hN, hn, hr, hl],
      by simp [StabState.measureAllInto, hr, hl], by simp [StabState.peekAllInto, hr, hl]⟩

/-- a gate with the wrong number of operands: both representations return `InvalidNrBits(len, arity)` from
`apply_gate`, and from `apply_conditional_gate` whatever the control mask selects (also: no shot, no tableau row,
the identity gate) — for all states, gates, operand lists -/
theorem gate_arity_rejected_identically (ph : List Nat) (conjOf : GateTerm P → Tableau.Tab.Conj) (sv : VecState α)
    (ss : StabState) (g : GateTerm P) (bits : List Nat) (control : List Bool) (hN : sv.nrShots = ss.nrShots)
    (hl : Gate.nrBits g ≠ bits.length) :
    VecState.applyGate sv g bits = Prog.err (.invalidNrBits bits.length (Gate.nrBits g)) ∧
    StabState.applyGate (α := α) ph conjOf ss g bits = Prog.err (.invalidNrBits bits.length (Gate.nrBits g)) ∧
    ∃ e, VecState.applyConditional sv control g bits = Prog.err e ∧
      StabState.applyConditional (α := α) ph conjOf ss control g bits = Prog.err e := by
  refine ⟨by simp [VecState.applyGate, hl], by simp [StabState.applyGate, hl], ?_⟩
  by_cases hc : control.length ≠ ss.nrShots
  · exact ⟨.invalidNrControlBits control.length ss.nrShots, by simp [VecState.applyConditional, hN, hc],
      by simp [StabState.applyConditional, hc]⟩
  · exact ⟨.invalidNrBits bits.length (Gate.nrBits g), by simp [VecState.applyConditional, hN, hc, hl],
      by simp [StabState.applyConditional, hc, hl]⟩

end general

end Q1t.C18W

import Q1t.Proofs.SimGFProb
/-!
C01, step 4: the single-shot generating function `gfShot` (the Born branching semantics in generating-
function form) and its quadratic homogeneity.  The fragment F and the multinomial law `exec_gf` (on F, from
any homogeneous normalised state, the expected value of `∏_shots x(word)` is
`∏_ranges gfShot(ops)(state, word)^count`) are in `SimGFStep.lean`, `SimGFAll.lean`, `SimGFExec.lean`.
-/
set_option linter.unusedSectionVars false
set_option linter.unusedSimpArgs false
set_option linter.unusedVariables false
namespace Q1t.Sim.SimGF
open Q1t Q1t.Sim Q1t.Spec Q1t.Sim.Prog Finset

variable {α P R : Type}

section gf
variable [CommRing α] [Amp α P] [SimAmp α] [CommRing R]

/-- the register word after a `measure_all` that found the computational basis state `idx` (qubit `q` of
`idx`, `Spec.qbit n q idx`, is written to classical bit `cbits[q]`), as in `Spec.replayOp`.  Register words
are `u64`: the word is read modulo `2^64` (the identity on every word the simulator can hold). -/
def wordAll (n : Nat) (cbits : List Nat) (w idx : Nat) : Nat :=
  (List.range n).foldl (fun acc q => writeBit acc (cbits.getD q 0) (qbit n q idx == 1)) (w % 2 ^ 64)

/-- one step of the single-shot generating function: `g` is the generating function of the rest of the
circuit (unnormalised states: the squared norm of a branch is its probability) -/
def stepGf (n : Nat) (op : COp P) (g : List α × Nat → R) : List α × Nat → R := fun sw =>
  match op with
  | .gate gt bits => g (gateOn n gt bits sw.1, sw.2)
  | .cond control target gt bits =>
      match controlWord control sw.2 with
      | none => 0
      | some cw => g (if cw = target then gateOn n gt bits sw.1 else sw.1, sw.2)
  | .measure q c b =>
      g (measureTo (P := P) n q b false sw.1, writeBit sw.2 c false) +
      g (measureTo (P := P) n q b true sw.1, writeBit sw.2 c true)
  | .reset q => g (project n q false sw.1, sw.2) + g (gateOn (P := P) n .X [q] (project n q true sw.1), sw.2)
  | .barrier _ => g sw
  | .measureAll cbits b =>
      ((List.range (2 ^ n)).map fun idx =>
        g (measureAllTo (P := P) n b (fun q => qbit n q idx == 1) sw.1, wordAll n cbits sw.2 idx)).sum
  | _ => 0

/-- single-shot generating function of a circuit from the branch `(ψ, w)`:
`Σ_branches ‖φ‖² · x(final word)` -/
def gfShot (n : Nat) (toR : α → R) (x : Nat → R) : List (COp P) → List α × Nat → R
  | [] => fun sw => toR (normSqSum sw.1) * x sw.2
  | op :: rest => stepGf n op (gfShot n toR x rest)

/-- quadratic homogeneity in the state -/
def Scales (toR : α → R) (g : List α × Nat → R) : Prop :=
  ∀ (v : List α) (w : Nat) (a : α), g (v.map (· * a), w) = toR (a * Amp.conj P a) * g (v, w)

variable {nz : α → Prop} (toR : α →+* R)

theorem toBasis_smul (n q : Nat) (b : Basis) (v : List α) (a : α) :
    toBasis (P := P) n q b (v.map (· * a)) = (toBasis (P := P) n q b v).map (· * a) := by
  cases b <;> simp [toBasis, gateOn_smul]

theorem fromBasis_smul (n q : Nat) (b : Basis) (v : List α) (a : α) :
    fromBasis (P := P) n q b (v.map (· * a)) = (fromBasis (P := P) n q b v).map (· * a) := by
  cases b <;> simp [fromBasis, gateOn_smul]

theorem measureTo_smul (n q : Nat) (b : Basis) (o : Bool) (v : List α) (a : α) :
    measureTo (P := P) n q b o (v.map (· * a)) = (measureTo (P := P) n q b o v).map (· * a) := by
  simp [measureTo, toBasis_smul, project_smul, fromBasis_smul]

theorem measureAllTo_smul (n : Nat) (b : Basis) (outs : Nat → Bool) (v : List α) (a : α) :
    measureAllTo (P := P) n b outs (v.map (· * a)) = (measureAllTo (P := P) n b outs v).map (· * a) := by
  unfold measureAllTo
  generalize List.range n = l
  induction l generalizing v with
  | nil => rfl
  | cons q l ih => simp only [List.foldl_cons, measureTo_smul, ih]

theorem stepGf_scales (n : Nat) (op : COp P) (g : List α × Nat → R) (hg : Scales (P := P) toR g) :
    Scales (P := P) toR (stepGf n op g) := by
  intro v w a
  cases op with
  | gate gt bits => simp only [stepGf, gateOn_smul]; exact hg _ _ _
  | cond control target gt bits =>
    simp only [stepGf]
    cases controlWord control w with
    | none => simp
    | some cw =>
      simp only
      split
      · rw [gateOn_smul]; exact hg _ _ _
      · exact hg _ _ _
  | measure q c b => simp only [stepGf, measureTo_smul, hg _ _ a]; ring
  | reset q => simp only [stepGf, project_smul, gateOn_smul, hg _ _ a]; ring
  | barrier _ => exact hg _ _ _
  | measureAll cbits b =>
    simp only [stepGf, measureAllTo_smul, hg _ _ a]
    rw [← List.sum_map_mul_left]
  | resetAll => simp [stepGf]
  | peek _ _ _ => simp [stepGf]
  | peekAll _ _ => simp [stepGf]

theorem gfShot_scales (hA : LawfulAmp α P) (hS : LawfulSim α P nz) (n : Nat) (x : Nat → R) :
    ∀ ops : List (COp P), Scales (P := P) toR (gfShot n toR x ops) := by
  intro ops
  induction ops with
  | nil =>
    intro v w a
    simp only [gfShot, normSqSum_smul hA hS, map_mul]
    ring
  | cons op rest ih => exact stepGf_scales toR n op _ ih

/-- a generating function that scales vanishes on vectors of squared norm zero -/
theorem scales_zero (hW : LawfulWeights α nz) {g : List α × Nat → R} (hg : Scales (P := P) toR g)
    (v : List α) (w : Nat) (hv : normSqSum v = 0) : g (v, w) = 0 := by
  have hz : v = v.map (· * 0) := by
    apply List.ext_getElem
    · simp
    · intro i h1 h2
      simp [hW.pos v hv _ (List.getElem_mem h1)]
  rw [hz, hg v w 0]
  simp

end gf
end Q1t.Sim.SimGF

import Q1t.Proofs.DetShapePartIb
/-!
`PartI` under the name asked for in the worker brief.  The proof is `partIb` (`DetShapePartIb.lean`): row `i` of
`Tab.new n` is `Z_i` (X-free, private Z-column `i`); destabilizers `X_0, …, X_{n-1}`.
-/
namespace Q1t.Proofs.DetPlan

theorem partI (n : Nat) : PartI n := partIb n

end Q1t.Proofs.DetPlan

import Q1t.Proofs.CQasmEquivFold
set_option linter.unusedSimpArgs false
set_option linter.unusedSectionVars false
set_option linter.unusedVariables false
/-!
C12 (`cq_equiv_partial`), part 7: branches up to a global phase.  `PhRel`: same register word, states equal up to a
factor of modulus one.  The value-level semantics is linear in the state (`dSeq_vsmul`), so every exact step is also a
step for `PhRel`, and the gates whose translation is right up to a phase (`V Vdg U1 CU3`) are steps for `PhRel`.
-/
namespace Q1t.Proofs.CQasm
open Q1t Q1t.Spec Q1t.Proofs.Route Q1t.CQ Q1t.Proofs.Unitaries Q1t.OpenQasm

variable {α P : Type} [CommRing α] [Amp α P]

def vsmul (c : α) (v : List α) : List α := v.map fun y => c * y

theorem vsmul_length (c : α) (v : List α) : (vsmul c v).length = v.length := by simp [vsmul]
theorem vsmul_vsmul (a b : α) (v : List α) : vsmul a (vsmul b v) = vsmul (a * b) v := by simp [vsmul, mul_assoc]
theorem vsmul_one (v : List α) : vsmul (1 : α) v = v := by simp [vsmul]

theorem getD_vsmul (c : α) (v : List α) (x : Nat) : (vsmul c v).getD x 0 = c * v.getD x 0 := by
  unfold vsmul
  by_cases hx : x < v.length
  · simp [List.getD_eq_getElem?_getD, hx]
  · simp [List.getD_eq_getElem?_getD, Nat.not_lt.1 hx]

theorem mulVec_vsmul (d : Nat) (A : LMat α) (hA : WFMat d A) (c : α) (v : List α) :
    LMat.mulVec A (vsmul c v) = vsmul c (LMat.mulVec A v) := by
  apply vec_ext d _ _ (by rw [mulVec_length, hA.1]) (by rw [vsmul_length, mulVec_length, hA.1])
  intro r hr
  rw [getD_mulVec d A hA _ r hr, getD_vsmul, getD_mulVec d A hA v r hr, Finset.mul_sum]
  apply Finset.sum_congr rfl
  intro x _
  rw [getD_vsmul]; ring

theorem project_vsmul (n q : Nat) (o : Bool) (c : α) (ψ : List α) :
    CQ1.project n q o (vsmul c ψ) = vsmul c (CQ1.project n q o ψ) := by
  unfold CQ1.project vsmul
  rw [List.zipIdx_map]
  simp only [List.map_map]
  refine List.map_congr_left fun x _ => ?_
  obtain ⟨a, i⟩ := x
  by_cases hc : ((qbit n q i == 1) == o) = true <;> simp [hc]

theorem applyOn_vsmul (n : Nat) (M : LMat α) (qs : List Nat) (c : α) (ψ : List α) :
    CQ1.applyOn n M qs (vsmul c ψ) = vsmul c (CQ1.applyOn n M qs ψ) :=
  mulVec_vsmul (2 ^ n) _ (embed_wf n qs M) c ψ

theorem foldl_applyOn_vsmul (n q : Nat) (c : α) : ∀ (Ms : List (LMat α)) (ψ : List α),
    Ms.foldl (fun φ M => CQ1.applyOn n M [q] φ) (vsmul c ψ) = vsmul c (Ms.foldl (fun φ M => CQ1.applyOn n M [q] φ) ψ)
  | [], _ => rfl
  | M :: Ms, ψ => by
    simp only [List.foldl_cons, applyOn_vsmul]
    exact foldl_applyOn_vsmul n q c Ms _

/-- the non-zero test does not see a unit factor -/
def NzScale (P : Type) [Amp α P] (nz : List α → Bool) : Prop :=
  ∀ (c : α) (ψ : List α), c * Amp.conj P c = 1 → nz (vsmul c ψ) = nz ψ

def scaleBr (c : α) (b : CQ1.Branch α) : CQ1.Branch α := (vsmul c b.1, b.2)

theorem filter_scale (nz : List α → Bool) (hs : NzScale P nz) (c : α) (hc : c * Amp.conj P c = 1)
    (l : List (CQ1.Branch α)) :
    (l.map (scaleBr c)).filter (fun b => nz b.1) = (l.filter (fun b => nz b.1)).map (scaleBr c) := by
  induction l with
  | nil => rfl
  | cons b l ih =>
    have e : nz (scaleBr c b).1 = nz b.1 := hs c b.1 hc
    simp only [List.map_cons, List.filter_cons, e, ih]
    split <;> rfl

theorem dSem_vsmul (n : Nat) (nz : List α → Bool) (hs : NzScale P nz) (c : α) (hc : c * Amp.conj P c = 1)
    (s : DStmt α) (b : CQ1.Branch α) :
    dSem n nz s (scaleBr c b) = (dSem n nz s b).map (scaleBr c) := by
  obtain ⟨ψ, w⟩ := b
  cases s with
  | gate ctrl qs M =>
    show [if ctrl.all (CQ1.bitSet w) then (CQ1.applyOn n M qs (vsmul c ψ), w) else (vsmul c ψ, w)] =
      [scaleBr c (if ctrl.all (CQ1.bitSet w) then (CQ1.applyOn n M qs ψ, w) else (ψ, w))]
    by_cases hf : ctrl.all (CQ1.bitSet w) = true
    · simp [hf, scaleBr, applyOn_vsmul]
    · simp [hf, scaleBr]
  | notb k => rfl
  | measure q pre post =>
    show ([false, true].map fun o =>
        (post.foldl (fun φ M => CQ1.applyOn n M [q] φ)
          (CQ1.project n q o (pre.foldl (fun φ M => CQ1.applyOn n M [q] φ) (vsmul c ψ))), CQ1.writeBit w q o)).filter
        (fun b => nz b.1) = _
    rw [show ([false, true].map fun o =>
        (post.foldl (fun φ M => CQ1.applyOn n M [q] φ)
          (CQ1.project n q o (pre.foldl (fun φ M => CQ1.applyOn n M [q] φ) (vsmul c ψ))), CQ1.writeBit w q o)) =
        ([false, true].map fun o =>
        (post.foldl (fun φ M => CQ1.applyOn n M [q] φ)
          (CQ1.project n q o (pre.foldl (fun φ M => CQ1.applyOn n M [q] φ) ψ)), CQ1.writeBit w q o)).map (scaleBr c) by
      simp [scaleBr, foldl_applyOn_vsmul, project_vsmul], filter_scale nz hs c hc]
    rfl
  | prep q =>
    show [(CQ1.project n q false (vsmul c ψ), w),
        (CQ1.applyOn n CQ1.mX [q] (CQ1.project n q true (vsmul c ψ)), w)].filter (fun b => nz b.1) = _
    rw [show [(CQ1.project n q false (vsmul c ψ), w), (CQ1.applyOn n CQ1.mX [q] (CQ1.project n q true (vsmul c ψ)), w)] =
      [(CQ1.project n q false ψ, w), (CQ1.applyOn n CQ1.mX [q] (CQ1.project n q true ψ), w)].map (scaleBr c) by
      simp [scaleBr, project_vsmul, applyOn_vsmul], filter_scale nz hs c hc]
    rfl

theorem dSeq_vsmul (n : Nat) (nz : List α → Bool) (hs : NzScale P nz) (c : α) (hc : c * Amp.conj P c = 1) :
    ∀ (D : List (DStmt α)) (brs : List (CQ1.Branch α)),
      dSeq n nz D (brs.map (scaleBr c)) = (dSeq n nz D brs).map (scaleBr c)
  | [], _ => rfl
  | s :: ss, brs => by
    simp only [dSeq]
    have : (brs.map (scaleBr c)).flatMap (dSem n nz s) = (brs.flatMap (dSem n nz s)).map (scaleBr c) := by
      rw [List.flatMap_map, List.map_flatMap]
      apply List.flatMap_congr
      intro b _
      exact dSem_vsmul n nz hs c hc s b
    rw [this]
    exact dSeq_vsmul n nz hs c hc ss _

/-- same word, states equal up to a unit factor; the circuit's branch satisfies the invariant -/
def PhRel (P : Type) [Amp α P] (n : Nat) (nz : List α → Bool) (b1 b2 : CQ1.Branch α) : Prop :=
  BrInv n nz b2 ∧ ∃ c : α, c * Amp.conj P c = 1 ∧ b1 = scaleBr c b2

theorem unit_mul (h : LawfulAmp α P) (a b : α) (ha : a * Amp.conj P a = 1) (hb : b * Amp.conj P b = 1) :
    (a * b) * Amp.conj P (a * b) = 1 := by
  rw [h.conj_mul]
  calc a * b * (Amp.conj P a * Amp.conj P b) = (a * Amp.conj P a) * (b * Amp.conj P b) := by ring
    _ = 1 := by rw [ha, hb]; ring

/-- a step on equal inputs, up to phase on the outputs -/
def StepPh (P : Type) [Amp α P] (n : Nat) (nz : List α → Bool) (D : List (DStmt α)) (cop : Sim.COp P) : Prop :=
  ∀ br, BrInv n nz br → ∃ y, Spec.branchesOp n nz cop br = some y ∧ List.Forall₂ (PhRel P n nz) (dSeq n nz D [br]) y

theorem stepRel_of_stepPh (h : LawfulAmp α P) (n : Nat) (nz : List α → Bool) (hs : NzScale P nz) (D : List (DStmt α))
    (cop : Sim.COp P) (hst : StepPh P n nz D cop) : StepRel (PhRel P n nz) n nz D cop := by
  intro b1 b2 ⟨hinv, c, hc, hb⟩
  obtain ⟨y, hy, hrel⟩ := hst b2 hinv
  refine ⟨y, hy, ?_⟩
  subst hb
  have := dSeq_vsmul n nz hs c hc D [b2]
  simp only [List.map_cons, List.map_nil] at this
  rw [this]
  -- compose the phases
  have key : ∀ (l1 l2 : List (CQ1.Branch α)), List.Forall₂ (PhRel P n nz) l1 l2 →
      List.Forall₂ (PhRel P n nz) (l1.map (scaleBr c)) l2 := by
    intro l1 l2 hl
    induction hl with
    | nil => exact List.Forall₂.nil
    | cons hb _ ih =>
      obtain ⟨hi, c', hc', he⟩ := hb
      refine List.Forall₂.cons ⟨hi, c * c', unit_mul h c c' hc hc', ?_⟩ ih
      rw [he]; simp [scaleBr, vsmul_vsmul]
  exact key _ _ hrel

theorem stepPh_of_eq (h : LawfulAmp α P) (n : Nat) (nz : List α → Bool) (D : List (DStmt α)) (cop : Sim.COp P)
    (hst : StepRel (EqInv n nz) n nz D cop) : StepPh P n nz D cop := by
  intro br hbr
  obtain ⟨y, hy, hrel⟩ := hst br br ⟨rfl, hbr⟩
  refine ⟨y, hy, ?_⟩
  have key : ∀ (l1 l2 : List (CQ1.Branch α)), List.Forall₂ (EqInv n nz) l1 l2 → List.Forall₂ (PhRel P n nz) l1 l2 := by
    intro l1 l2 hl
    induction hl with
    | nil => exact List.Forall₂.nil
    | cons hb _ ih =>
      refine List.Forall₂.cons ⟨hb.2, 1, by rw [h.conj_one]; ring, ?_⟩ ih
      rw [hb.1]; simp [scaleBr, vsmul_one]
  exact key _ _ hrel

/-- a gate whose value-level lines multiply (on `k` qubits) to `g ·` its documented unitary, `g` of modulus one -/
theorem stepPh_gate (h : LawfulAmp α P) (n : Nat) (nz : List α → Bool) (hs : NzScale P nz) (term : GateTerm P)
    (bits : List Nat) (hv : validBits n bits = true) (apps : List (List Nat × LMat α))
    (hl : ∀ a ∈ apps, validBits bits.length a.1 = true) (g : α) (hg : g * Amp.conj P g = 1)
    (hwf : WFMat (2 ^ bits.length) (specMatrix term : LMat α))
    (hprod : prodK bits.length apps = smul g (specMatrix term)) (hkept : NzKept n nz term bits) :
    StepPh P n nz (gateLines (placeApps bits apps)) (.gate term bits) := by
  intro br hbr
  obtain ⟨ψ, w⟩ := br
  have hnz := hkept ψ hbr.len hbr.nonzero
  have hU := prod_lift n bits hv apps hl
  rw [hprod, embed_smul n bits g _ hwf] at hU
  refine ⟨_, born_gate n nz term bits ψ w hnz, ?_⟩
  rw [gateLines_sem n nz _ _ hU ψ w hbr.len, mulVec_smul (2 ^ n) g _ (embed_wf n bits _)]
  exact List.Forall₂.cons ⟨gate_op_inv n nz _ (embed_wf n bits _).1 (ψ, w) hbr hnz, g, hg, rfl⟩ List.Forall₂.nil

end Q1t.Proofs.CQasm

namespace Q1t.Proofs.CQasm
open Q1t Q1t.Spec Q1t.Proofs.Route Q1t.CQ Q1t.Proofs.Unitaries Q1t.OpenQasm

variable {α P : Type} [CommRing α] [Amp α P]

/-! ### the gates that are right up to a global phase: `V Vdg U1 CU3` -/

def rzL (t : Nat) (inner : List Tok) : SLine := ⟨"rz".toList, [.q t, .hole inner]⟩

theorem slines_table3 :
    slinesOfName "V" = some [⟨"x90".toList, [.q 0]⟩] ∧ slinesOfName "Vdg" = some [⟨"mx90".toList, [.q 0]⟩] ∧
    slinesOfName "U1" = some [⟨"rz".toList, [.q 0, .arg "lambda"]⟩] ∧
    slinesOfName "CU3" = some
      [rzL 1 [.lit "0.5 * (".toList, .var "lambda".toList, .lit ['-'], .var "phi".toList, .lit [')']], cnotL 0 1,
       rzL 1 [.lit "-0.5 * (".toList, .var "phi".toList, .lit ['+'], .var "lambda".toList, .lit [')']],
       ⟨"ry".toList, [.q 1, hole "-0.5 * " "theta"]⟩, cnotL 0 1, ⟨"ry".toList, [.q 1, hole "0.5 * " "theta"]⟩,
       ⟨"rz".toList, [.q 1, .arg "phi"]⟩,
       rzL 0 [.lit "0.5 * (".toList, .var "phi".toList, .lit " + ".toList, .var "lambda".toList, .lit [')']]] ∧
    paramsOfName "V" = [] ∧ paramsOfName "Vdg" = [] ∧ paramsOfName "U1" = ["lambda"] ∧
    paramsOfName "CU3" = ["theta", "phi", "lambda"] := by decide +kernel

theorem conj_zeta8 (h : LawfulAmp α P) :
    Amp.conj P (Amp.zeta8 P : α) = Amp.hsqrt2 P - Amp.hsqrt2 P * Amp.I P := by
  rw [h.zeta8_eq, h.conj_add, h.conj_mul, h.conj_hsqrt2, h.conj_I]; ring

theorem unit_zeta8 (h : LawfulAmp α P) : (Amp.zeta8 P : α) * Amp.conj P (Amp.zeta8 P) = 1 := by
  rw [conj_zeta8 h, h.zeta8_eq]
  have h1 := h.hsqrt2_mul_self; have h2 := h.half_add_half; have hI := h.I_mul_I
  grind

theorem unit_conj_zeta8 (h : LawfulAmp α P) :
    Amp.conj P (Amp.zeta8 P : α) * Amp.conj P (Amp.conj P (Amp.zeta8 P : α)) = 1 := by
  rw [h.conj_conj, mul_comm]; exact unit_zeta8 h

theorem unit_expneg (h : LawfulAmp α P) (x : P) :
    ((Amp.cos x : α) - Amp.I P * Amp.sin x) * Amp.conj P ((Amp.cos x : α) - Amp.I P * Amp.sin x) = 1 := by
  rw [h.conj_sub, h.conj_mul, h.conj_cos, h.conj_sin, h.conj_I]
  have hI := h.I_mul_I; have hs := h.cos_sq_add_sin_sq x
  grind

theorem prod_V (h : LawfulAmp α P) :
    prodK 1 [([0], (CQ1.mX90 (P := P) : LMat α))] = smul (Amp.conj P (Amp.zeta8 P)) (specMatrix (.V : GateTerm P)) := by
  rw [show (CQ1.mX90 (P := P) : LMat α) = [[Amp.hsqrt2 P * 1, Amp.hsqrt2 P * -(Amp.I P)],
      [Amp.hsqrt2 P * -(Amp.I P), Amp.hsqrt2 P * 1]] from rfl, prod1, conj_zeta8 h]
  have h1 := h.hsqrt2_mul_self; have h2 := h.half_add_half; have hI := h.I_mul_I
  simp only [specMatrix, smul, List.map]
  refine mat2_ext ?_ ?_ ?_ ?_ <;> grind

theorem prod_Vdg (h : LawfulAmp α P) :
    prodK 1 [([0], (CQ1.mMX90 (P := P) : LMat α))] = smul (Amp.zeta8 P) (specMatrix (.Vdg : GateTerm P)) := by
  rw [show (CQ1.mMX90 (P := P) : LMat α) = [[Amp.hsqrt2 P * 1, Amp.hsqrt2 P * Amp.I P],
      [Amp.hsqrt2 P * Amp.I P, Amp.hsqrt2 P * 1]] from rfl, prod1, h.zeta8_eq]
  have h1 := h.hsqrt2_mul_self; have h2 := h.half_add_half; have hI := h.I_mul_I
  simp only [specMatrix, smul, List.map]
  refine mat2_ext ?_ ?_ ?_ ?_ <;> grind

theorem prod_U1 (h : LawfulAmp α P) (hh : LawfulHalf α P) (l : P) :
    prodK 1 [([0], (CQ1.mRz l : LMat α))] =
      smul (Amp.cos (Amp.phalf α l) - Amp.I P * Amp.sin (Amp.phalf α l)) (specMatrix (.U1 l)) := by
  have := u1_as_rz h hh l
  rw [show prodK 1 [([0], (CQ1.mRz l : LMat α))] = CQ1.mRz l by unfold CQ1.mRz; exact prod1 _ _ _ _, this]
  rfl

theorem prod_CU3 (h : LawfulAmp α P) (hh : LawfulHalf α P) (hn : LawfulNegHalf α P) (hq : LawfulQuarter α P)
    (θ φ l : P) :
    prodK 2 [([1], (CQ1.mRz (Amp.phalf α (Amp.padd α l (Amp.pneg α φ))) : LMat α)), ([0, 1], CQ1.mCnot),
      ([1], CQ1.mRz (Amp.pneg α (Amp.phalf α (Amp.padd α φ l)))), ([1], CQ1.mRy (Amp.pneg α (Amp.phalf α θ))),
      ([0, 1], CQ1.mCnot), ([1], CQ1.mRy (Amp.phalf α θ)), ([1], CQ1.mRz φ),
      ([0], CQ1.mRz (Amp.phalf α (Amp.padd α φ l)))] =
      smul (Amp.cos (Amp.phalf α (Amp.phalf α (Amp.padd α φ l))) - Amp.I P * Amp.sin (Amp.phalf α (Amp.phalf α (Amp.padd α φ l))))
        (specMatrix (.C (.U3 θ φ l))) := cu3_assembled h hh hn hq θ φ l

/-- the gates right up to a phase -/
def phaseGates : List String := ["V", "Vdg", "U1", "CU3"]

theorem phase_gate (h : LawfulAmp α P) (hh : LawfulHalf α P) (hn : LawfulNegHalf α P) (hq : LawfulQuarter α P)
    (name : String) (hname : name ∈ phaseGates) (vals : List P) (hvals : vals.length = (paramsOfName name).length) :
    ∃ (apps : List (List Nat × LMat α)) (term : GateTerm P) (g : α),
      exactDenot (α := α) name vals = some apps ∧ CQ.libTerm name vals = some term ∧
      (apps.map (·.1)).all (fun l => validBits (libBits name) l) = true ∧ g * Amp.conj P g = 1 ∧
      WFMat (2 ^ libBits name) (specMatrix term : LMat α) ∧ prodK (libBits name) apps = smul g (specMatrix term) := by
  obtain ⟨s1, s2, s3, s4, p1, p2, p3, p4⟩ := slines_table3
  simp only [phaseGates, List.mem_cons, List.mem_nil_iff, or_false] at hname
  rcases hname with rfl | rfl | rfl | rfl
  · have hv : vals = [] := by rw [p1] at hvals; simpa using hvals
    subst hv
    refine ⟨_, .V, _, ?_, rfl, ?_, unit_conj_zeta8 h, ?_, prod_V h⟩
    · rw [exactDenot, s1]; exact linesApps_cons _ _ _ _ _ (lineApp_q "x90" 0 _ _ rfl) rfl
    · simp [validBits, libBits]
    · simp [WFMat, specMatrix, libBits]
  · have hv : vals = [] := by rw [p2] at hvals; simpa using hvals
    subst hv
    refine ⟨_, .Vdg, _, ?_, rfl, ?_, unit_zeta8 h, ?_, prod_Vdg h⟩
    · rw [exactDenot, s2]; exact linesApps_cons _ _ _ _ _ (lineApp_q "mx90" 0 _ _ rfl) rfl
    · simp [validBits, libBits]
    · simp [WFMat, specMatrix, libBits]
  · rw [p3] at hvals
    match vals, hvals with
    | [l], _ =>
      refine ⟨_, .U1 l, _, ?_, rfl, ?_, unit_expneg h _, ?_, prod_U1 h hh l⟩
      · rw [exactDenot, s3, p3]; exact apps_arg1 "rz" "lambda" l _ _ (rhoOf_single _ l) rfl
      · simp [validBits, libBits]
      · simp [WFMat, specMatrix, libBits]
  · rw [p4] at hvals
    match vals, hvals with
    | [θ, φ, l], _ =>
      refine ⟨_, .C (.U3 θ φ l), _, ?_, rfl, ?_, unit_expneg h _, ?_, prod_CU3 h hh hn hq θ φ l⟩
      · rw [exactDenot, s4, p4]
        have r1 : rhoOf ["theta", "phi", "lambda"] [θ, φ, l] ['t', 'h', 'e', 't', 'a'] = some θ := by simp [rhoOf]
        have r2 : rhoOf ["theta", "phi", "lambda"] [θ, φ, l] ['p', 'h', 'i'] = some φ := by simp [rhoOf]
        have r3 : rhoOf ["theta", "phi", "lambda"] [θ, φ, l] ['l', 'a', 'm', 'b', 'd', 'a'] = some l := by simp [rhoOf]
        simp [linesApps, rzL, cnotL, hole, lineApp, isQ, locOf, opVal, holeVal, gateMatrixV, r1, r2, r3]
      · simp [validBits, libBits]
      · simp [WFMat, specMatrix, libBits, Spec.ctrl, List.range_succ, List.replicate]

end Q1t.Proofs.CQasm

namespace Q1t.Proofs.CQasm
open Q1t Q1t.Spec Q1t.Proofs.Route Q1t.CQ Q1t.Proofs.Unitaries Q1t.OpenQasm

variable {α P : Type} [CommRing α] [Amp α P]

/-- the per-operation class with the gates that are right up to a global phase -/
inductive FaithfulOpPh (n : Nat) (nz : List α → Bool) : XOp P → List (DStmt α) → Sim.COp P → Prop
  | exact (op : XOp P) (D : List (DStmt α)) (cop : Sim.COp P) : FaithfulOp n nz op D cop → FaithfulOpPh n nz op D cop
  | phaseGate (name : String) (vals : List P) (bits : List Nat) (apps : List (List Nat × LMat α)) (term : GateTerm P) :
      name ∈ phaseGates → vals.length = (paramsOfName name).length → validBits n bits = true →
      bits.length = libBits name → exactDenot (α := α) name vals = some apps → CQ.libTerm name vals = some term →
      NzKept n nz term bits →
      FaithfulOpPh n nz (.gate (.lib name (vals.map .direct)) bits) (gateLines (placeApps bits apps)) (.gate term bits)

theorem stepRel_of_faithfulPh (h : LawfulAmp α P) (hh : LawfulHalf α P) (hn : LawfulNegHalf α P) (hq : LawfulQuarter α P)
    (n : Nat) (hn64 : n ≤ 64) (nz : List α → Bool) (hs : NzScale P nz) (op : XOp P) (D : List (DStmt α))
    (cop : Sim.COp P) (hf : FaithfulOpPh n nz op D cop) : StepRel (PhRel P n nz) n nz D cop := by
  apply stepRel_of_stepPh h n nz hs
  cases hf with
  | exact op D cop hf' => exact stepPh_of_eq h n nz D cop (step_of_faithful h hh hn n hn64 nz op D cop hf')
  | phaseGate name vals bits apps term h1 h2 h3 h4 h5 h6 h7 =>
    obtain ⟨apps', term', g, e1, e2, e3, e4, e5, e6⟩ := phase_gate (α := α) h hh hn hq name h1 vals h2
    rw [h5] at e1; injection e1 with e1; subst e1
    rw [h6] at e2; injection e2 with e2; subst e2
    have hl : ∀ a ∈ apps, validBits bits.length a.1 = true := by
      intro a ha; rw [h4]
      simpa using List.all_eq_true.mp e3 a.1 (List.mem_map_of_mem ha)
    exact stepPh_gate h n nz hs term bits h3 apps hl g e4 (by rw [h4]; exact e5) (by rw [h4]; exact e6) h7

/-- **cq_equiv_partial up to a global phase per branch (whole circuits, value level)** -/
theorem circuit_equiv_phase (h : LawfulAmp α P) (hh : LawfulHalf α P) (hn : LawfulNegHalf α P) (hq : LawfulQuarter α P)
    (n : Nat) (hn64 : n ≤ 64) (nz : List α → Bool) (hs : NzScale P nz)
    (hnz0 : nz ((List.range (2 ^ n)).map fun i => if i = 0 then (1 : α) else 0) = true)
    (steps : List (XOp P × List (DStmt α) × Sim.COp P)) (hst : ∀ s ∈ steps, FaithfulOpPh n nz s.1 s.2.1 s.2.2) :
    ∃ r2, Spec.branches n nz (steps.map (·.2.2)) (CQ1.initial n) = some r2 ∧
      List.Forall₂ (PhRel P n nz) (dSeq n nz (steps.flatMap (·.2.1)) (CQ1.initial n)) r2 := by
  have hsteps : ∀ s ∈ steps.map (fun s => (s.2.1, s.2.2)), StepRel (PhRel P n nz) n nz s.1 s.2 := by
    intro s hsm
    obtain ⟨x, hx, rfl⟩ := List.mem_map.mp hsm
    exact stepRel_of_faithfulPh h hh hn hq n hn64 nz hs x.1 x.2.1 x.2.2 (hst x hx)
  have hinit : List.Forall₂ (PhRel P n nz) (CQ1.initial n : List (CQ1.Branch α)) (CQ1.initial n) := by
    have hi := init_inv n nz hnz0
    simp only [CQ1.initial] at hi ⊢
    exact List.Forall₂.cons ⟨hi _ (by simp), 1, by rw [h.conj_one]; ring, by simp [scaleBr, vsmul_one]⟩ List.Forall₂.nil
  obtain ⟨r2, hr2, hrel⟩ := fold_equiv (PhRel P n nz) n nz _ hsteps _ _ hinit
  have e1 : (steps.map (fun s => (s.2.1, s.2.2))).map (·.2) = steps.map (·.2.2) := by simp
  have e2 : (steps.map (fun s => (s.2.1, s.2.2))).flatMap (·.1) = steps.flatMap (·.2.1) := by
    simp [List.flatMap_map]
  rw [e1] at hr2
  rw [e2] at hrel
  exact ⟨r2, hr2, hrel⟩

end Q1t.Proofs.CQasm

import Mathlib.Analysis.SpecialFunctions.Trigonometric.Basic
import Mathlib.Data.Complex.Basic
import Q1t.Proofs.AmpLaws
import Q1t.Proofs.UnitariesPrim
import Q1t.Proofs.SquarePrim
/-!
The intended model of the abstract laws: amplitudes ℂ, parameters ℝ, `cos`/`sin` the real cosine and
sine, `phalf θ = θ/2`, `dbl x = 2x`, `u2theta p l = l + p − π`, `subHalfPi x = x − π/2`.
It satisfies `LawfulAmp`, `LawfulHalf` and `LawfulSq`, so every general theorem of C05/C16 holds
for the complex matrices at all real parameter values.  (Noncomputable; only used in proofs.)
-/
noncomputable section
namespace Q1t.AmpComplex
open Q1t Q1t.Proofs.Unitaries Q1t.Proofs.Square

instance ampComplex : Amp ℂ ℝ where
  I := Complex.I
  hsqrt2 := ((Real.sqrt 2 / 2 : ℝ) : ℂ)
  half := ((1 / 2 : ℝ) : ℂ)
  zeta8 := ((Real.sqrt 2 / 2 : ℝ) : ℂ) + ((Real.sqrt 2 / 2 : ℝ) : ℂ) * Complex.I
  conj := starRingEnd ℂ
  cos θ := ((Real.cos θ : ℝ) : ℂ)
  sin θ := ((Real.sin θ : ℝ) : ℂ)
  phalf θ := θ / 2
  padd x y := x + y
  pneg x := -x

instance paramArithReal : ParamArith ℝ where
  dbl x := 2 * x
  u2theta p l := l + p - Real.pi
  subHalfPi x := x - Real.pi / 2

theorem lawful : LawfulAmp ℂ ℝ where
  I_mul_I := Complex.I_mul_I
  hsqrt2_mul_self := by
    show ((Real.sqrt 2 / 2 : ℝ) : ℂ) * ((Real.sqrt 2 / 2 : ℝ) : ℂ) = ((1 / 2 : ℝ) : ℂ)
    rw [← Complex.ofReal_mul]
    congr 1
    have := Real.mul_self_sqrt (show (0 : ℝ) ≤ 2 by norm_num)
    nlinarith
  half_add_half := by
    show ((1 / 2 : ℝ) : ℂ) + ((1 / 2 : ℝ) : ℂ) = 1
    rw [← Complex.ofReal_add]; norm_num
  zeta8_eq := rfl
  conj_add x y := map_add _ x y
  conj_mul x y := map_mul _ x y
  conj_one := map_one _
  conj_conj x := Complex.conj_conj x
  conj_I := Complex.conj_I
  conj_hsqrt2 := Complex.conj_ofReal _
  conj_half := Complex.conj_ofReal _
  cos_sq_add_sin_sq x := by
    show ((Real.cos x : ℝ) : ℂ) * (Real.cos x : ℝ) + ((Real.sin x : ℝ) : ℂ) * (Real.sin x : ℝ) = 1
    rw [← Complex.ofReal_mul, ← Complex.ofReal_mul, ← Complex.ofReal_add]
    have := Real.cos_sq_add_sin_sq x
    rw [show Real.cos x * Real.cos x + Real.sin x * Real.sin x = 1 by nlinarith]
    rfl
  conj_cos x := Complex.conj_ofReal _
  conj_sin x := Complex.conj_ofReal _
  cos_padd x y := by
    show ((Real.cos (x + y) : ℝ) : ℂ) = (Real.cos x : ℝ) * (Real.cos y : ℝ) - (Real.sin x : ℝ) * (Real.sin y : ℝ)
    rw [Real.cos_add]; push_cast; ring
  sin_padd x y := by
    show ((Real.sin (x + y) : ℝ) : ℂ) = (Real.sin x : ℝ) * (Real.cos y : ℝ) + (Real.cos x : ℝ) * (Real.sin y : ℝ)
    rw [Real.sin_add]; push_cast; ring
  cos_pneg x := by
    show ((Real.cos (-x) : ℝ) : ℂ) = (Real.cos x : ℝ)
    rw [Real.cos_neg]
  sin_pneg x := by
    show ((Real.sin (-x) : ℝ) : ℂ) = -((Real.sin x : ℝ) : ℂ)
    rw [Real.sin_neg]; push_cast; rfl

theorem lawfulHalf : LawfulHalf ℂ ℝ where
  cos_phalf_padd x y := by
    show ((Real.cos ((x + y) / 2) : ℝ) : ℂ) = (Real.cos (x / 2 + y / 2) : ℝ)
    rw [add_div]
  sin_phalf_padd x y := by
    show ((Real.sin ((x + y) / 2) : ℝ) : ℂ) = (Real.sin (x / 2 + y / 2) : ℝ)
    rw [add_div]
  cos_phalf_twice x := by
    show ((Real.cos (x / 2 + x / 2) : ℝ) : ℂ) = (Real.cos x : ℝ)
    rw [add_halves]
  sin_phalf_twice x := by
    show ((Real.sin (x / 2 + x / 2) : ℝ) : ℂ) = (Real.sin x : ℝ)
    rw [add_halves]

theorem lawfulSq : LawfulSq ℂ ℝ where
  cos_phalf_dbl x := by
    show ((Real.cos (2 * x / 2) : ℝ) : ℂ) = (Real.cos x : ℝ)
    rw [mul_div_cancel_left₀ x (two_ne_zero)]
  sin_phalf_dbl x := by
    show ((Real.sin (2 * x / 2) : ℝ) : ℂ) = (Real.sin x : ℝ)
    rw [mul_div_cancel_left₀ x (two_ne_zero)]
  cos_dbl x := by
    show ((Real.cos (2 * x) : ℝ) : ℂ) = (Real.cos (x + x) : ℝ)
    rw [two_mul]
  sin_dbl x := by
    show ((Real.sin (2 * x) : ℝ) : ℂ) = (Real.sin (x + x) : ℝ)
    rw [two_mul]
  cos_phalf_u2theta p l := by
    show ((Real.cos ((l + p - Real.pi) / 2) : ℝ) : ℂ) = (Real.sin ((p + l) / 2) : ℝ)
    rw [show (l + p - Real.pi) / 2 = (p + l) / 2 - Real.pi / 2 by ring, Real.cos_sub_pi_div_two]
  sin_phalf_u2theta p l := by
    show ((Real.sin ((l + p - Real.pi) / 2) : ℝ) : ℂ) = -((Real.cos ((p + l) / 2) : ℝ) : ℂ)
    rw [show (l + p - Real.pi) / 2 = (p + l) / 2 - Real.pi / 2 by ring, Real.sin_sub_pi_div_two]
    push_cast; rfl
  cos_subHalfPi x := by
    show ((Real.cos (x - Real.pi / 2) : ℝ) : ℂ) = (Real.sin x : ℝ)
    rw [Real.cos_sub_pi_div_two]
  sin_subHalfPi x := by
    show ((Real.sin (x - Real.pi / 2) : ℝ) : ℂ) = -((Real.cos x : ℝ) : ℂ)
    rw [Real.sin_sub_pi_div_two]; push_cast; rfl

/-- at `φ = λ = 0` the phase by which `U2.square()` is off is `i`, not 1 -/
theorem u2Phase_zero_ne_one : (u2Phase (α := ℂ) (0 : ℝ) (0 : ℝ)) ≠ 1 := by
  have e : (u2Phase (α := ℂ) (0 : ℝ) (0 : ℝ)) = Complex.I := by
    show Complex.I * (((Real.cos ((0 + 0) / 2) : ℝ) : ℂ) - Complex.I * ((Real.sin ((0 + 0) / 2) : ℝ) : ℂ)) = Complex.I
    simp
  rw [e]
  intro h1
  have := congrArg Complex.re h1
  simp at this

end Q1t.AmpComplex

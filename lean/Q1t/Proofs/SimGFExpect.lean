import Mathlib.Data.Nat.Choose.Sum
import Mathlib.Algebra.BigOperators.Group.List.Basic
import Mathlib.Algebra.BigOperators.Ring.List
import Mathlib.Tactic.Ring
import Q1t.Proofs.GF
import Q1t.Model.Sim
/-!
C01, step 1: the expectation interpreter of the simulator's `Prog` terms (DESIGN.md M3).

`expectOrd ord toR p f` is the expected value of `f` over the random draws of `p`, in any commutative
ring `R`, the weights being mapped by `toR : W → R`:

* `binomial c p k`  ↦  `Σ_{n0=0}^{c} C(c,n0) · p^{n0} · (1−p)^{c−n0} · E[k n0]`;
* `categorical ws c k` ↦ `c` independent draws of an index `i` with probability `ws[i]` (the weight list is
  *assumed normalised*: in the simulator it is the list of squared amplitudes of a unit vector; the
  theorems that use this carry the hypothesis `Σ ws = 1`), tallied into a count vector `t`; the
  continuation receives `ord (tallyPairs t)`: the pairs `(index, count)` with positive count, in the
  order chosen by `ord` (the implementation iterates a hash map: the order is an oracle).
  `expect := expectOrd id` lists them by increasing index;
* `fail _` ↦ `0` (a failed run contributes nothing: `expect` of the constant 1 is the probability of
  success).
-/
namespace Q1t.Sim
open Finset

namespace Prog
variable {W β γ R : Type} [CommRing R]

/-- add one to entry `i` of a tally -/
def bump : List Nat → Nat → List Nat
  | [], _ => []
  | t :: ts, 0 => (t + 1) :: ts
  | t :: ts, i + 1 => t :: bump ts i

/-- `(index, count)` for the positive entries of a tally, by increasing index (from offset `i`) -/
def tallyPairsFrom : List Nat → Nat → List (Nat × Nat)
  | [], _ => []
  | t :: ts, i => if t = 0 then tallyPairsFrom ts (i + 1) else (i, t) :: tallyPairsFrom ts (i + 1)

def tallyPairs (t : List Nat) : List (Nat × Nat) := tallyPairsFrom t 0

/-- `c` independent draws from the weights `ws`, tallied on top of `t`; `g` receives the final tally -/
def catSum (toR : W → R) (ws : List W) (g : List Nat → R) : Nat → List Nat → R
  | 0, t => g t
  | c + 1, t => (ws.zipIdx.map fun wi => toR wi.1 * catSum toR ws g c (bump t wi.2)).sum

/-- the binomial weight `C(c,n) p^n (1-p)^(c-n)` -/
def binW (c : Nat) (p : R) (n : Nat) : R := (c.choose n : R) * p ^ n * (1 - p) ^ (c - n)

/-- expectation of `f` over the draws of a program -/
def expectOrd (ord : List (Nat × Nat) → List (Nat × Nat)) (toR : W → R) : Prog W β → (β → R) → R
  | .pure b, f => f b
  | .fail _, _ => 0
  | .binomial c p k, f => ∑ n ∈ range (c + 1), binW c (toR p) n * expectOrd ord toR (k n) f
  | .categorical ws c k, f =>
      catSum toR ws (fun t => expectOrd ord toR (k (ord (tallyPairs t))) f) c (List.replicate ws.length 0)

/-- expectation with the categorical outcomes listed by increasing index -/
abbrev expect (toR : W → R) (p : Prog W β) (f : β → R) : R := expectOrd id toR p f

variable (ord : List (Nat × Nat) → List (Nat × Nat)) (toR : W → R)

@[simp] theorem expectOrd_pure (b : β) (f : β → R) : expectOrd ord toR (.pure b) f = f b := rfl
@[simp] theorem expectOrd_fail (e : Fail) (f : β → R) : expectOrd ord toR (.fail e : Prog W β) f = 0 := rfl
theorem expectOrd_binomial (c : Nat) (p : W) (k : Nat → Prog W β) (f : β → R) :
    expectOrd ord toR (.binomial c p k) f
      = ∑ n ∈ range (c + 1), binW c (toR p) n * expectOrd ord toR (k n) f := rfl
theorem expectOrd_categorical (ws : List W) (c : Nat) (k : List (Nat × Nat) → Prog W β) (f : β → R) :
    expectOrd ord toR (.categorical ws c k) f
      = catSum toR ws (fun t => expectOrd ord toR (k (ord (tallyPairs t))) f) c (List.replicate ws.length 0) := rfl

theorem catSum_congr (ws : List W) (g g' : List Nat → R) (h : ∀ t, g t = g' t) :
    ∀ c t, catSum toR ws g c t = catSum toR ws g' c t := by
  intro c
  induction c with
  | zero => intro t; exact h t
  | succ c ih => intro t; simp only [catSum, ih]

theorem catSum_const_mul (ws : List W) (a : R) (g : List Nat → R) :
    ∀ c t, catSum toR ws (fun t => a * g t) c t = a * catSum toR ws g c t := by
  intro c
  induction c with
  | zero => intro t; rfl
  | succ c ih =>
    intro t
    simp only [catSum, ih]
    rw [← List.sum_map_mul_left]
    congr 1
    apply List.map_congr_left
    intro wi _; ring

theorem catSum_add (ws : List W) (g g' : List Nat → R) :
    ∀ c t, catSum toR ws (fun t => g t + g' t) c t = catSum toR ws g c t + catSum toR ws g' c t := by
  intro c
  induction c with
  | zero => intro t; rfl
  | succ c ih =>
    intro t
    simp only [catSum, ih]
    rw [← List.sum_map_add]
    congr 1
    apply List.map_congr_left
    intro wi _; ring

theorem catSum_zero (ws : List W) : ∀ c t, catSum toR ws (fun _ => (0 : R)) c t = 0 := by
  intro c
  induction c with
  | zero => intro t; rfl
  | succ c ih => intro t; simp [catSum, ih]

/-- the monad law: expectation of a sequential composition -/
theorem expectOrd_bind (m : Prog W β) (g : β → Prog W γ) (f : γ → R) :
    expectOrd ord toR (m.bind g) f = expectOrd ord toR m (fun b => expectOrd ord toR (g b) f) := by
  induction m with
  | pure b => rfl
  | fail e => rfl
  | binomial c p k ih => simp only [Prog.bind, expectOrd, ih]
  | categorical ws c k ih =>
    simp only [Prog.bind, expectOrd]
    exact catSum_congr toR ws _ _ (fun t => ih _) _ _

/-- linearity: scalar multiples -/
theorem expectOrd_const_mul (m : Prog W β) (a : R) (f : β → R) :
    expectOrd ord toR m (fun b => a * f b) = a * expectOrd ord toR m f := by
  induction m with
  | pure b => rfl
  | fail e => simp
  | binomial c p k ih =>
    simp only [expectOrd, ih, Finset.mul_sum]
    apply Finset.sum_congr rfl; intro n _; ring
  | categorical ws c k ih =>
    simp only [expectOrd]
    rw [← catSum_const_mul]
    exact catSum_congr toR ws _ _ (fun t => ih _) _ _

/-- linearity: sums -/
theorem expectOrd_add (m : Prog W β) (f f' : β → R) :
    expectOrd ord toR m (fun b => f b + f' b) = expectOrd ord toR m f + expectOrd ord toR m f' := by
  induction m with
  | pure b => rfl
  | fail e => simp
  | binomial c p k ih =>
    simp only [expectOrd, ih, ← Finset.sum_add_distrib]
    apply Finset.sum_congr rfl; intro n _; ring
  | categorical ws c k ih =>
    simp only [expectOrd]
    rw [← catSum_add]
    exact catSum_congr toR ws _ _ (fun t => ih _) _ _

theorem expectOrd_zero (m : Prog W β) : expectOrd ord toR m (fun _ => (0 : R)) = 0 := by
  have := expectOrd_const_mul ord toR m (0 : R) (fun _ => (0 : R))
  simpa using this

theorem expectOrd_congr (m : Prog W β) (f f' : β → R) (h : ∀ b, f b = f' b) :
    expectOrd ord toR m f = expectOrd ord toR m f' := by
  have : f = f' := funext h
  rw [this]

/-- binomial weights add up to one -/
theorem binW_sum (c : Nat) (p : R) : ∑ n ∈ range (c + 1), binW c p n = 1 := by
  have := Q1t.GF.binom_split p 1 1 c
  simp only [one_pow, mul_one] at this
  simp only [binW]
  rw [this]; ring_nf

/-- the binomial theorem in the form used for one range -/
theorem binW_split (p A B : R) (c : ℕ) :
    ∑ n ∈ range (c + 1), binW c p n * (A ^ n * B ^ (c - n)) = (p * A + (1 - p) * B) ^ c :=
  Q1t.GF.binom_split p A B c

end Prog
end Q1t.Sim

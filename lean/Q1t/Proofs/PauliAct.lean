import Q1t.Proofs.PauliPhase
/-!
C03, proofs part 3 (all `n`): the Pauli group of the reference semantics.

* `mulP` (read off the matrices) is what a correct phase table says;
* `actOps` is a group action: `actOps r0 (actOps r1 v) = i^{phaseSum r0 r1} · actOps (opsMul r0 r1) v`,
  hence `(p.mul q).act v = p.act (q.act v)` — the product of the reference semantics is the product of
  operators on state vectors of every size;
* every Pauli string is an involution, scalars `i^k` commute with the action.
-/
namespace Q1t.Proofs.Tableau
open Q1t Q1t.Tableau Q1t.Spec.Pauli

/-! ### scalars `i^k` on ring elements and vectors -/

theorem Z8.ext' {x y : Z8} (ha : x.a = y.a) (hb : x.b = y.b) (hc : x.c = y.c) (hd : x.d = y.d) : x = y := by
  cases x; cases y; simp_all

theorem mod4_cases (k : Nat) : k % 4 = 0 ∨ k % 4 = 1 ∨ k % 4 = 2 ∨ k % 4 = 3 := by omega

theorem mulIPow_of_mod {k r : Nat} (h : k % 4 = r) (x : Z8) : Z8.mulIPow k x = Z8.mulIPow r x := by
  have hr : r % 4 = r := by omega
  unfold Z8.mulIPow; rw [h, hr]

theorem mulIPow_0 (x : Z8) : Z8.mulIPow 0 x = x := rfl
theorem mulIPow_1 (x : Z8) : Z8.mulIPow 1 x = Z8.mulI x := rfl
theorem mulIPow_2 (x : Z8) : Z8.mulIPow 2 x = Z8.neg x := rfl
theorem mulIPow_3 (x : Z8) : Z8.mulIPow 3 x = Z8.neg (Z8.mulI x) := rfl

theorem mulIPow_mulIPow (j k : Nat) (x : Z8) : Z8.mulIPow j (Z8.mulIPow k x) = Z8.mulIPow (j + k) x := by
  have h : (j + k) % 4 = (j % 4 + k % 4) % 4 := by omega
  rw [mulIPow_of_mod (k := j) rfl, mulIPow_of_mod (k := k) rfl, mulIPow_of_mod (k := j + k) h]
  have ha : j % 4 < 4 := by omega
  have hb : k % 4 < 4 := by omega
  generalize j % 4 = a at *
  generalize k % 4 = b at *
  have ha' : a = 0 ∨ a = 1 ∨ a = 2 ∨ a = 3 := by omega
  have hb' : b = 0 ∨ b = 1 ∨ b = 2 ∨ b = 3 := by omega
  rcases ha' with rfl | rfl | rfl | rfl <;> rcases hb' with rfl | rfl | rfl | rfl <;>
    apply Z8.ext' <;> simp [Z8.mulIPow, Z8.mulI, Z8.neg]


abbrev smul (k : Nat) (v : Vec) : Vec := Vec.smulIPow k v

theorem smul_smul (j k : Nat) (v : Vec) : smul j (smul k v) = smul (j + k) v := by
  simp [smul, Vec.smulIPow, List.map_map, Function.comp_def, mulIPow_mulIPow]

theorem smul_of_mod {k r : Nat} (h : k % 4 = r) (v : Vec) : smul k v = smul r v := by
  simp only [smul, Vec.smulIPow]; congr 1; funext x; exact mulIPow_of_mod h x

theorem smul_congr_mod {j k : Nat} (h : j % 4 = k % 4) (v : Vec) : smul j v = smul k v := by
  rw [smul_of_mod (k := j) rfl, smul_of_mod (k := k) rfl, h]

theorem smul_0 (v : Vec) : smul 0 v = v := by
  have : Z8.mulIPow 0 = id := by funext x; rfl
  simp [smul, Vec.smulIPow, this]
theorem smul_4 (v : Vec) : smul 4 v = v := by rw [smul_of_mod (r := 0) rfl, smul_0]
theorem smul_5 (v : Vec) : smul 5 v = smul 1 v := smul_of_mod rfl v
theorem smul_6 (v : Vec) : smul 6 v = smul 2 v := smul_of_mod rfl v
theorem neg_eq_smul (v : Vec) : Vec.neg v = smul 2 v := rfl

theorem smul_append (k : Nat) (v w : Vec) : smul k (v ++ w) = smul k v ++ smul k w := by
  simp [smul, Vec.smulIPow]
theorem smul_take (k h : Nat) (v : Vec) : (smul k v).take h = smul k (v.take h) := by
  simp [smul, Vec.smulIPow, List.map_take]
theorem smul_drop (k h : Nat) (v : Vec) : (smul k v).drop h = smul k (v.drop h) := by
  simp [smul, Vec.smulIPow, List.map_drop]
theorem smul_length (k : Nat) (v : Vec) : (smul k v).length = v.length := by
  simp [smul, Vec.smulIPow]

/-! ### the action, cell by cell -/

def pairmap (f : Vec → Vec) (w : Vec × Vec) : Vec × Vec := (f w.1, f w.2)

/-- action of one Pauli matrix on the pair (qubit = 0 half, qubit = 1 half) -/
def cellAct : P → Vec × Vec → Vec × Vec
  | .I, w => w
  | .Z, w => (w.1, smul 2 w.2)
  | .X, w => (w.2, w.1)
  | .Y, w => (smul 3 w.2, smul 1 w.1)

theorem actOps_cons (p : P) (ps : List P) (v : Vec) :
    actOps (p :: ps) v =
      (cellAct p (actOps ps (v.take (v.length / 2)), actOps ps (v.drop (v.length / 2)))).1 ++
      (cellAct p (actOps ps (v.take (v.length / 2)), actOps ps (v.drop (v.length / 2)))).2 := by
  cases p <;> rfl

theorem actOps_length (r : List P) : ∀ v : Vec, (actOps r v).length = v.length := by
  induction r with
  | nil => intro v; rfl
  | cons p ps ih =>
    intro v
    rw [actOps_cons]
    cases p <;> simp [cellAct, ih, smul_length] <;> omega

theorem cellAct_pairmap (f : Vec → Vec) (hf : ∀ k u, f (smul k u) = smul k (f u)) (p : P) (w : Vec × Vec) :
    cellAct p (pairmap f w) = pairmap f (cellAct p w) := by
  cases p <;> simp [cellAct, pairmap, hf]

/-- scalars commute with the action -/
theorem actOps_smul (r : List P) : ∀ (k : Nat) (v : Vec), actOps r (smul k v) = smul k (actOps r v) := by
  induction r with
  | nil => intro k v; rfl
  | cons p ps ih =>
    intro k v
    rw [actOps_cons, actOps_cons, smul_length, smul_take, smul_drop, ih, ih, smul_append]
    have := cellAct_pairmap (smul k) (fun j u => by rw [smul_smul, smul_smul, Nat.add_comm]) p
      (actOps ps (v.take (v.length / 2)), actOps ps (v.drop (v.length / 2)))
    simp only [pairmap] at this
    rw [this]

/-- explicit multiplication table of the Pauli matrices -/
def mulPT : P → P → Nat × P
  | .I, p => (0, p)
  | p, .I => (0, p)
  | .Z, .Z => (0, .I) | .Z, .X => (1, .Y) | .Z, .Y => (3, .X)
  | .X, .Z => (3, .Y) | .X, .X => (0, .I) | .X, .Y => (1, .Z)
  | .Y, .Z => (1, .X) | .Y, .X => (3, .Z) | .Y, .Y => (0, .I)

theorem mulP_eq_table (a b : P) : mulP a b = mulPT a b := by
  cases a <;> cases b <;> decide +kernel

/-- what `mulP` is: the decomposition of the matrix product -/
theorem mulP_spec (a b : P) : sigma a * sigma b = (sigma (mulP a b).2).smulIPow (mulP a b).1 := by
  cases a <;> cases b <;> decide +kernel

theorem cell_mul (a b : P) (w : Vec × Vec) :
    cellAct a (cellAct b w) = pairmap (smul (mulP a b).1) (cellAct (mulP a b).2 w) := by
  rw [mulP_eq_table]
  cases a <;> cases b <;>
    simp [mulPT, cellAct, pairmap, smul_smul, smul_0, smul_4, smul_5, smul_6]


theorem take_half_append (x y : Vec) (h : x.length = y.length) :
    (x ++ y).take ((x ++ y).length / 2) = x ∧ (x ++ y).drop ((x ++ y).length / 2) = y := by
  have : (x ++ y).length / 2 = x.length := by simp; omega
  rw [this]; simp

theorem cellAct_lengths (p : P) (w : Vec × Vec) (h : w.1.length = w.2.length) :
    (cellAct p w).1.length = w.1.length ∧ (cellAct p w).2.length = w.1.length := by
  cases p <;> simp [cellAct, smul_length, h]

theorem halves_length (v : Vec) (n : Nat) (h : v.length = 2 ^ (n + 1)) :
    (v.take (v.length / 2)).length = 2 ^ n ∧ (v.drop (v.length / 2)).length = 2 ^ n := by
  have : v.length / 2 = 2 ^ n := by rw [h, Nat.pow_succ]; omega
  rw [this]; simp [h, Nat.pow_succ]; omega

/-- **The action is multiplicative** (all `n`): applying `r1` then `r0` is applying the cell-wise
product, times the accumulated phase. -/
theorem actOps_mul (r0 : List P) : ∀ (r1 : List P) (v : Vec), r0.length = r1.length → v.length = 2 ^ r0.length →
    actOps r0 (actOps r1 v) = smul (phaseSum r0 r1) (actOps (opsMul r0 r1) v) := by
  induction r0 with
  | nil =>
    intro r1 v h _
    cases r1 with
    | nil => simp [actOps, phaseSum, opsMul, smul_0]
    | cons b r1 => simp at h
  | cons a r0 ih =>
    intro r1 v h hv
    cases r1 with
    | nil => simp at h
    | cons b r1 =>
      have hl : r0.length = r1.length := by simpa using h
      obtain ⟨h0, h1⟩ := halves_length v r0.length (by simpa using hv)
      generalize hv0 : v.take (v.length / 2) = v0 at h0
      generalize hv1 : v.drop (v.length / 2) = v1 at h1
      have e1 : actOps (b :: r1) v = (cellAct b (actOps r1 v0, actOps r1 v1)).1 ++ (cellAct b (actOps r1 v0, actOps r1 v1)).2 := by
        rw [actOps_cons, hv0, hv1]
      have hlen := cellAct_lengths b (actOps r1 v0, actOps r1 v1) (by simp [actOps_length, h0, h1])
      have hsplit := take_half_append _ _ (hlen.1.trans hlen.2.symm)
      rw [e1, actOps_cons, hsplit.1, hsplit.2]
      have hpm := cellAct_pairmap (actOps r0) (fun k u => actOps_smul r0 k u) b (actOps r1 v0, actOps r1 v1)
      simp only [pairmap] at hpm
      rw [← hpm, ih r1 v0 hl h0, ih r1 v1 hl h1]
      have hpm2 := cellAct_pairmap (smul (phaseSum r0 r1)) (fun j u => by rw [smul_smul, smul_smul, Nat.add_comm]) b
        (actOps (opsMul r0 r1) v0, actOps (opsMul r0 r1) v1)
      simp only [pairmap] at hpm2
      rw [hpm2]
      have hpm3 := cellAct_pairmap (smul (phaseSum r0 r1)) (fun j u => by rw [smul_smul, smul_smul, Nat.add_comm]) a
        (cellAct b (actOps (opsMul r0 r1) v0, actOps (opsMul r0 r1) v1))
      simp only [pairmap] at hpm3
      rw [hpm3, cell_mul]
      simp only [phaseSum, opsMul, pairmap]
      rw [actOps_cons, hv0, hv1, smul_append, smul_smul, smul_smul, Nat.add_comm]


/-- **Group action law for phased Pauli strings, all `n`.** -/
theorem pstr_mul_act (p q : PStr) (v : Vec) (h : p.ops.length = q.ops.length) (hv : v.length = 2 ^ p.ops.length) :
    (p.mul q).act v = p.act (q.act v) := by
  unfold PStr.act PStr.mul
  show smul _ _ = smul _ (actOps _ (smul _ _))
  rw [actOps_smul, actOps_mul p.ops q.ops v h hv, smul_smul, smul_smul]
  exact smul_congr_mod (by simp only []; omega) _

theorem actOps_replicate_I (n : Nat) : ∀ v : Vec, actOps (List.replicate n .I) v = v := by
  induction n with
  | zero => intro v; rfl
  | succ n ih => intro v; rw [List.replicate_succ, actOps_cons]; simp [cellAct, ih]

theorem phaseSum_self (r : List P) : phaseSum r r = 0 := by
  induction r with
  | nil => rfl
  | cons a r ih => simp only [phaseSum, ih, mulP_eq_table]; cases a <;> rfl

theorem opsMul_self (r : List P) : opsMul r r = List.replicate r.length .I := by
  induction r with
  | nil => rfl
  | cons a r ih => simp only [opsMul, ih, mulP_eq_table, List.length_cons, List.replicate_succ]; cases a <;> rfl

/-- every Pauli string is an involution on vectors of the right size -/
theorem actOps_involutive (r : List P) (v : Vec) (hv : v.length = 2 ^ r.length) : actOps r (actOps r v) = v := by
  rw [actOps_mul r r v rfl hv, phaseSum_self, opsMul_self, actOps_replicate_I, smul_0]

/-- a signed row squares to the identity -/
theorem rowStr_act_involutive (s : Bool) (r : List P) (v : Vec) (hv : v.length = 2 ^ r.length) :
    (rowStr s r).act ((rowStr s r).act v) = v := by
  unfold PStr.act rowStr
  show smul _ (actOps _ (smul _ _)) = v
  rw [actOps_smul, actOps_involutive r v hv, smul_smul]
  cases s
  · exact smul_0 v
  · exact smul_4 v

/-! ### commutation -/

theorem opsMul_comm (r0 : List P) : ∀ r1 : List P, opsMul r0 r1 = opsMul r1 r0 := by
  induction r0 with
  | nil => intro r1; cases r1 <;> rfl
  | cons a r0 ih =>
    intro r1
    cases r1 with
    | nil => rfl
    | cons b r1 => simp only [opsMul, ih r1, mulP_eq_table]; cases a <;> cases b <;> rfl

theorem phaseSum_swap (r0 : List P) : ∀ r1 : List P, (phaseSum r0 r1 + phaseSum r1 r0) % 4 = 0 := by
  induction r0 with
  | nil => intro r1; cases r1 <;> rfl
  | cons a r0 ih =>
    intro r1
    cases r1 with
    | nil => rfl
    | cons b r1 =>
      have hc : ((mulP a b).1 + (mulP b a).1) % 4 = 0 := by
        rw [mulP_eq_table, mulP_eq_table]; cases a <;> cases b <;> rfl
      have := ih r1
      simp only [phaseSum]; omega

/-- two rows commute: their products in both orders are the same group element -/
def Commutes (r0 r1 : List P) : Prop := PStr.mul ⟨0, r0⟩ ⟨0, r1⟩ = PStr.mul ⟨0, r1⟩ ⟨0, r0⟩

/-- two rows anticommute: the products differ by the factor `−1 = i²` -/
def Anticommutes (r0 r1 : List P) : Prop := PStr.mul ⟨0, r0⟩ ⟨0, r1⟩ = PStr.mul ⟨2, r1⟩ ⟨0, r0⟩

theorem commutes_iff (r0 r1 : List P) : Commutes r0 r1 ↔ phaseSum r0 r1 % 2 = 0 := by
  have h := phaseSum_swap r0 r1
  unfold Commutes PStr.mul
  simp only [PStr.mk.injEq, opsMul_comm r0 r1, and_true]
  omega

theorem anticommutes_iff (r0 r1 : List P) : Anticommutes r0 r1 ↔ phaseSum r0 r1 % 2 = 1 := by
  have h := phaseSum_swap r0 r1
  unfold Anticommutes PStr.mul
  simp only [PStr.mk.injEq, opsMul_comm r0 r1, and_true]
  omega

theorem commutes_or_anticommutes (r0 r1 : List P) : Commutes r0 r1 ∨ Anticommutes r0 r1 := by
  rw [commutes_iff, anticommutes_iff]; omega

end Q1t.Proofs.Tableau

import Mathlib.Tactic.Ring
import Mathlib.Tactic.LinearCombination
import Q1t.Proofs.AmpLaws
import Q1t.Proofs.UnitariesPrim
import Q1t.Spec.OQ2Obligation
set_option linter.unusedSimpArgs false
set_option linter.unusedSectionVars false
/-!
C11: the parametrised library gates, for ALL parameter values, over any commutative ring `α` with lawful
amplitudes (`LawfulAmp`, `LawfulHalf`) and lawful angle arithmetic (`LawfulAngle` below; the real numbers with
`Real.cos` / `Real.sin` and the complex numbers are a model, `Proofs/OpenQasmComplex.lean`).

For each gate: what the exported statements mean through `qelib1.inc` (`meaning_*`, by unfolding the model, the
table and the gate bodies — definitional), and that this is the documented unitary up to a global phase
(`*_ok : LibGateOK …`).
-/
namespace Q1t.OpenQasm
open Q1t Q1t.Spec Q1t.Spec.OQ2 Q1t.Proofs.Unitaries

variable {α P : Type} [CommRing α] [Amp α P] [Angle P]

abbrev z0 : P := Angle.ofDec 0 0
abbrev two : P := Angle.ofDec 2 0
abbrev halfPi : P := Angle.div Angle.pi (Angle.ofDec 2 0)

/-- what the angle arithmetic of OpenQASM expressions has to satisfy (in terms of cosines and sines only) -/
structure LawfulAngle (α P : Type) [CommRing α] [Amp α P] [Angle P] : Prop where
  cos_zero : (Amp.cos (z0 : P) : α) = 1
  sin_zero : (Amp.sin (z0 : P) : α) = 0
  cos_half_zero : (Amp.cos (Amp.phalf α (z0 : P)) : α) = 1
  sin_half_zero : (Amp.sin (Amp.phalf α (z0 : P)) : α) = 0
  cos_halfPi : (Amp.cos (halfPi : P) : α) = 0
  sin_halfPi : (Amp.sin (halfPi : P) : α) = 1
  cos_quarterPi : (Amp.cos (Amp.phalf α (halfPi : P)) : α) = Amp.hsqrt2 P
  sin_quarterPi : (Amp.sin (Amp.phalf α (halfPi : P)) : α) = Amp.hsqrt2 P
  cos_neg : ∀ x : P, (Amp.cos (Angle.neg x) : α) = Amp.cos x
  sin_neg : ∀ x : P, (Amp.sin (Angle.neg x) : α) = -Amp.sin x
  /-- `x/2` of the expression language is the half angle of the gate library -/
  cos_div_two : ∀ x : P, (Amp.cos (Angle.div x two) : α) = Amp.cos (Amp.phalf α x)
  sin_div_two : ∀ x : P, (Amp.sin (Angle.div x two) : α) = Amp.sin (Amp.phalf α x)

/-! ### structural lemmas -/

/-- a one-qubit gate on the only qubit of a one-qubit register, applied after nothing -/
def wrap1 (M : LMat α) : LMat α := LMat.mul (embed 1 [0] M) (LMat.identity 2)

theorem wrap1_two (a b c d : α) : wrap1 [[a, b], [c, d]] = [[a, b], [c, d]] := by
  simp [wrap1, embed, agreeOff, subIndex, qbit, LMat.get, List.range_succ, LMat.identity, LMat.mul,
    LMat.transpose, LMat.dot]

theorem wrap1_matU (a b c : P) : wrap1 (matU (α := α) a b c) = matU a b c := by
  simp only [matU, wrap1_two]

theorem meaning_RY (θ : P) : libMeaning (α := α) libTable "RY" [.direct θ] =
    some (wrap1 (wrap1 (matU θ z0 z0))) := by rfl
theorem meaning_RX (θ : P) : libMeaning (α := α) libTable "RX" [.direct θ] =
    some (wrap1 (wrap1 (wrap1 (matU θ (Angle.neg halfPi) halfPi)))) := by rfl
theorem meaning_RZ (θ : P) : libMeaning (α := α) libTable "RZ" [.direct θ] =
    some (wrap1 (wrap1 (wrap1 (matU z0 z0 θ)))) := by rfl
theorem meaning_U1 (θ : P) : libMeaning (α := α) libTable "U1" [.direct θ] =
    some (wrap1 (wrap1 (matU z0 z0 θ))) := by rfl
theorem meaning_U2 (a b : P) : libMeaning (α := α) libTable "U2" [.direct a, .direct b] =
    some (wrap1 (wrap1 (matU halfPi a b))) := by rfl
theorem meaning_U3 (a b c : P) : libMeaning (α := α) libTable "U3" [.direct a, .direct b, .direct c] =
    some (wrap1 (wrap1 (matU a b c))) := by rfl

theorem smulMat_one (M : LMat α) : smulMat (1 : α) M = M := by
  simp [smulMat]

theorem smulMat_two (k a b c d : α) : smulMat k [[a, b], [c, d]] = [[k * a, k * b], [k * c, k * d]] := rfl

/-- equal matrices are equal up to the phase 1 -/
theorem PhaseEq.of_eq (h : LawfulAmp α P) {M N : LMat α} (e : M = N) : PhaseEq P M N :=
  ⟨1, by rw [h.conj_one]; ring, by rw [smulMat_one, e]⟩

section lawful
variable (h : LawfulAmp α P) (hh : LawfulHalf α P) (ha : LawfulAngle α P)
include h ha

/-- `e^{i·0} = 1` -/
theorem expi_zero : (OQ2.expi (z0 : P) : α) = 1 := by
  simp only [OQ2.expi, ha.cos_zero, ha.sin_zero]; ring

theorem expi_padd (x y : P) : (OQ2.expi (Amp.padd α x y) : α) = OQ2.expi x * OQ2.expi y := by
  simp only [OQ2.expi, h.cos_padd, h.sin_padd]
  linear_combination (-(Amp.sin x * Amp.sin y : α)) * h.I_mul_I

theorem expi_halfPi : (OQ2.expi (halfPi : P) : α) = Amp.I P := by
  simp only [OQ2.expi, ha.cos_halfPi, ha.sin_halfPi]; ring

theorem expi_neg_halfPi : (OQ2.expi (Angle.neg (halfPi : P)) : α) = -Amp.I P := by
  simp only [OQ2.expi, ha.cos_neg, ha.sin_neg, ha.cos_halfPi, ha.sin_halfPi]; ring

/-- `RY(θ)` is exported as `u3(θ, 0, 0)`: exactly the documented matrix -/
theorem ry_ok (θ : P) : LibGateOK α P libTable "RY" [θ] := by
  refine ⟨_, .RY θ, meaning_RY θ, rfl, PhaseEq.of_eq h ?_⟩
  rw [wrap1_matU, wrap1_matU]
  simp only [matU, specMatrix, rot, pauliY, LMat.get, List.range_succ, expi_padd h ha, expi_zero h ha]
  simp
  have hI := h.I_mul_I
  refine ⟨?_, ?_⟩ <;> grind

/-- `RX(θ)` is exported as `rx(θ) = u3(θ, -pi/2, pi/2)`: exactly the documented matrix -/
theorem rx_ok (θ : P) : LibGateOK α P libTable "RX" [θ] := by
  refine ⟨_, .RX θ, meaning_RX θ, rfl, PhaseEq.of_eq h ?_⟩
  rw [wrap1_matU, wrap1_matU, wrap1_matU]
  simp only [matU, specMatrix, rot, pauliX, LMat.get, List.range_succ, expi_padd h ha, expi_halfPi h ha,
    expi_neg_halfPi h ha]
  simp
  linear_combination (-(Amp.cos (Amp.phalf α θ) : α)) * h.I_mul_I

/-- `U1(λ)` is exported as `u1(λ) = U(0, 0, λ)`: exactly the documented matrix -/
theorem u1_ok (l : P) : LibGateOK α P libTable "U1" [l] := by
  refine ⟨_, .U1 l, meaning_U1 l, rfl, PhaseEq.of_eq h ?_⟩
  rw [wrap1_matU, wrap1_matU]
  simp only [matU, specMatrix, expi_padd h ha, expi_zero h ha, ha.cos_half_zero, ha.sin_half_zero]
  simp [Spec.expi, OQ2.expi]

/-- `U2(φ, λ)` is exported as `u2(φ, λ) = U(pi/2, φ, λ)`: exactly the documented matrix -/
theorem u2_ok (p l : P) : LibGateOK α P libTable "U2" [p, l] := by
  refine ⟨_, .U2 p l, meaning_U2 p l, rfl, PhaseEq.of_eq h ?_⟩
  rw [wrap1_matU, wrap1_matU]
  simp only [matU, specMatrix, ha.cos_quarterPi, ha.sin_quarterPi, Spec.expi, OQ2.expi]
  refine mat2_ext ?_ ?_ ?_ ?_ <;> ring

/-- `U3(θ, φ, λ)` is exported as `u3(θ, φ, λ) = U(θ, φ, λ)`: exactly the documented matrix -/
theorem u3_ok (t p l : P) : LibGateOK α P libTable "U3" [t, p, l] := by
  refine ⟨_, .U3 t p l, meaning_U3 t p l, rfl, PhaseEq.of_eq h ?_⟩
  rw [wrap1_matU, wrap1_matU]
  simp only [matU, specMatrix, Spec.expi, OQ2.expi]

include hh in
/-- `RZ(λ)` is exported as `rz(λ) = u1(λ)`: the documented matrix times the global phase `e^{iλ/2}` -/
theorem rz_ok (l : P) : LibGateOK α P libTable "RZ" [l] := by
  refine ⟨_, .RZ l, meaning_RZ l, rfl, ?_⟩
  rw [wrap1_matU, wrap1_matU, wrap1_matU]
  have hc := hh.cos_phalf_twice l
  have hs := hh.sin_phalf_twice l
  rw [h.cos_padd] at hc
  rw [h.sin_padd] at hs
  have hp := h.cos_sq_add_sin_sq (Amp.phalf α l)
  refine ⟨Amp.cos (Amp.phalf α l) + Amp.I P * Amp.sin (Amp.phalf α l), ?_, ?_⟩
  · simp only [h.conj_add, h.conj_mul, h.conj_cos, h.conj_sin, h.conj_I]
    linear_combination hp - (Amp.sin (Amp.phalf α l) * Amp.sin (Amp.phalf α l) : α) * h.I_mul_I
  · simp only [matU, specMatrix, rot, pauliZ, LMat.get, List.range_succ, expi_padd h ha, expi_zero h ha,
      ha.cos_half_zero, ha.sin_half_zero, smulMat_two, OQ2.expi]
    simp
    have hI := h.I_mul_I
    simp only [smulMat_two, h.cos_padd, h.sin_padd, ha.cos_zero, ha.sin_zero]
    refine mat2_ext ?_ ?_ ?_ ?_ <;> grind

end lawful

end Q1t.OpenQasm

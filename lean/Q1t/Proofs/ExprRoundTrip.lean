import Q1t.Proofs.ExprLex
import Q1t.Proofs.ExprRules
/-!
C14, part 4: the scannerless round trip.  For every conventionally parenthesised concrete syntax tree
`c` (any layout, any redundant parentheses), followed by any remainder that cannot continue it,
the model parses `c.flatten ++ rest` to `(parsed c, rest)`.  (Core Lean only.)
-/
namespace Q1t.Proofs.Expr
open Q1t.Expr Q1t.Spec.ExprGrammar
open Q1t.DecFloat (isDigit)

def mkBin : BinOp → Expr → Expr → Expr
  | .add => .sum | .sub => .difference | .mul => .product | .div => .quotient | .pow => .power

/-- What the parser builds for `c`; `flip` is the pending sign of the enclosing run of unary minus signs
(`parse_negative_expression` cancels pairs of directly adjacent minus signs). -/
def pe : Bool → Cst → Expr
  | flip, .neg _ a => pe (!flip) a
  | flip, .lit _ t => wrapNeg flip (.value (litOf t))
  | flip, .bin op a _ b => wrapNeg flip (mkBin op (pe false a) (pe false b))
  | flip, .app _ f _ a _ => wrapNeg flip (.function f.name (pe false a))
  | flip, .paren _ a _ => wrapNeg flip (pe false a)

/-- The expression `Expression::parse` returns for a rendering of `c`. -/
def parsed (c : Cst) : Expr := pe false c

theorem pe_of_not_neg {c : Cst} (h : c.level ≠ 2) (b : Bool) : pe b c = wrapNeg b (pe false c) := by
  cases c with
  | neg w a => simp [Cst.level] at h
  | lit w t => simp [pe, wrapNeg]
  | bin op a w x => simp [pe, wrapNeg]
  | app w1 f w2 a w3 => simp [pe, wrapNeg]
  | paren w1 a w2 => simp [pe, wrapNeg]

theorem conv_bin {op : BinOp} {a b : Cst} {w : List Char} :
    Conv (.bin op a w b) = true ↔ op.needs.1 ≤ a.level ∧ op.needs.2 ≤ b.level ∧ Conv a = true ∧ Conv b = true := by
  simp [Conv, and_assoc]

theorem conv_neg {a : Cst} {w : List Char} : Conv (.neg w a) = true ↔ 2 ≤ a.level ∧ Conv a = true := by
  simp [Conv]

/-! ### what may follow -/

/-- The first non-blank character of `rest` is none of `ops`. -/
def NoHead (ops : List Char) (rest : List Char) : Prop := ∀ c, headNB rest = some c → c ∉ ops

/-- `rest` cannot extend a literal and does not continue with one of `ops`. -/
def After (ops : List Char) (rest : List Char) : Prop := NoExt rest ∧ NoHead ops rest

theorem After.mono {ops ops' : List Char} {rest : List Char} (h : After ops rest)
    (hs : ∀ c, c ∈ ops' → c ∈ ops) : After ops' rest :=
  ⟨h.1, fun c hc hm => h.2 c hc (hs c hm)⟩

theorem noExt_blank_cons {w t : List Char} {c : Char} (hw : Blank w)
    (hc : isDigit c = false ∧ c ≠ '.' ∧ c ≠ 'e' ∧ c ≠ 'E') : NoExt (w ++ c :: t) := by
  intro a tl e
  cases w with
  | nil => simp only [List.nil_append, List.cons.injEq] at e; obtain ⟨rfl, _⟩ := e; exact hc
  | cons b w' =>
    simp only [List.cons_append, List.cons.injEq] at e
    obtain ⟨rfl, _⟩ := e
    have hb := hw b (by simp)
    refine ⟨?_, ?_, ?_, ?_⟩
    · cases hd : isDigit b with
      | false => rfl
      | true => rw [isDigit_not_ws hd] at hb; exact absurd hb (by simp)
    all_goals (intro h; subst h; revert hb; decide)

/-- Text that starts (after blanks) with the symbol `c`. -/
theorem after_sym {ops : List Char} {w t : List Char} {c : Char} (hw : Blank w) (hws : isWs c = false)
    (hc : isDigit c = false ∧ c ≠ '.' ∧ c ≠ 'e' ∧ c ≠ 'E') (hn : c ∉ ops) : After ops (w ++ c :: t) :=
  ⟨noExt_blank_cons hw hc, fun a ha => by
    rw [headNB_blank_cons hw hws] at ha
    simp only [Option.some.injEq] at ha
    subst ha; exact hn⟩

theorem reLit_none_of_noHead {ops rest : List Char} {c : Char} (h : NoHead ops rest) (hc : c ∈ ops) :
    reLit [c] rest = none :=
  reLit_miss (fun e => h c e hc)

theorem reOp2_none_of_noHead {ops rest : List Char} {x y : Char} (h : NoHead ops rest) (hx : x ∈ ops)
    (hy : y ∈ ops) : reOp2 x y rest = none :=
  reOp2_miss (fun e => h x e hx) (fun e => h y e hy)

/-! ### first characters -/

/-- A character that can begin an atom (literal, function call, parenthesis). -/
def AtomStart (c : Char) : Prop :=
  isDigit c = true ∨ c = '.' ∨ c = 'p' ∨ c = '(' ∨ c = 's' ∨ c = 'c' ∨ c = 't' ∨ c = 'e' ∨ c = 'l'

theorem AtomStart.not_ws {c : Char} (h : AtomStart c) : isWs c = false := by
  rcases h with h | h | h | h | h | h | h | h | h
  · exact isDigit_not_ws h
  all_goals (subst h; decide)

theorem AtomStart.ne_minus {c : Char} (h : AtomStart c) : c ≠ '-' := by
  rcases h with h | h | h | h | h | h | h | h | h
  · intro e; subst e; revert h; decide
  all_goals (subst h; decide)

theorem lit_text_start {t : LitTok} (ht : t.WF = true) :
    ∃ c tl, t.text = c :: tl ∧ (isDigit c = true ∨ c = '.' ∨ c = 'p') := by
  cases t with
  | pi => exact ⟨'p', ['i'], rfl, .inr (.inr rfl)⟩
  | int ds =>
    simp only [LitTok.WF, Bool.and_eq_true, Bool.or_eq_true, beq_iff_eq] at ht
    cases ds with
    | nil => simp at ht
    | cons d ds' => exact ⟨d, ds', rfl, .inl (digits_of_all ht.1 d (by simp))⟩
  | dec ip fp ex =>
    simp only [LitTok.WF, Bool.and_eq_true] at ht
    cases ip with
    | nil => exact ⟨'.', _, rfl, .inr (.inl rfl)⟩
    | cons d ip' => exact ⟨d, _, rfl, .inl (digits_of_all ht.1.1.1 d (by simp))⟩

/-- The rendering of an atom-level or power-level tree starts (after blanks) with an atom-start character. -/
theorem head_of_level_ge3 : ∀ (c : Cst), c.WF = true → Conv c = true → 3 ≤ c.level → ∀ rest,
    ∃ ch, headNB (c.flatten ++ rest) = some ch ∧ AtomStart ch
  | .lit w t, hwf, _, _, rest => by
    simp only [Cst.WF, Bool.and_eq_true] at hwf
    obtain ⟨ch, tl, e, hch⟩ := lit_text_start hwf.2
    refine ⟨ch, ?_, ?_⟩
    · have hs : AtomStart ch := by
        rcases hch with h | h | h
        · exact .inl h
        · exact .inr (.inl h)
        · exact .inr (.inr (.inl h))
      simp only [Cst.flatten, e, List.append_assoc, List.cons_append]
      exact headNB_blank_cons (blank_of_all hwf.1) hs.not_ws
    · rcases hch with h | h | h
      · exact .inl h
      · exact .inr (.inl h)
      · exact .inr (.inr (.inl h))
  | .paren w1 a w2, hwf, _, _, rest => by
    simp only [Cst.WF, Bool.and_eq_true] at hwf
    refine ⟨'(', ?_, .inr (.inr (.inr (.inl rfl)))⟩
    simp only [Cst.flatten, List.append_assoc, List.cons_append]
    exact headNB_blank_cons (blank_of_all hwf.1.1) (by decide)
  | .app w1 f w2 a w3, hwf, _, _, rest => by
    simp only [Cst.WF, Bool.and_eq_true] at hwf
    have hb := blank_of_all hwf.1.1.1
    cases f
    · exact ⟨'s', by simp only [Cst.flatten, Fn.name, List.append_assoc, List.cons_append]; exact headNB_blank_cons hb (by decide), by simp [AtomStart]⟩
    · exact ⟨'c', by simp only [Cst.flatten, Fn.name, List.append_assoc, List.cons_append]; exact headNB_blank_cons hb (by decide), by simp [AtomStart]⟩
    · exact ⟨'t', by simp only [Cst.flatten, Fn.name, List.append_assoc, List.cons_append]; exact headNB_blank_cons hb (by decide), by simp [AtomStart]⟩
    · exact ⟨'e', by simp only [Cst.flatten, Fn.name, List.append_assoc, List.cons_append]; exact headNB_blank_cons hb (by decide), by simp [AtomStart]⟩
    · exact ⟨'l', by simp only [Cst.flatten, Fn.name, List.append_assoc, List.cons_append]; exact headNB_blank_cons hb (by decide), by simp [AtomStart]⟩
    · exact ⟨'s', by simp only [Cst.flatten, Fn.name, List.append_assoc, List.cons_append]; exact headNB_blank_cons hb (by decide), by simp [AtomStart]⟩
  | .neg w a, _, _, hl, _ => by simp [Cst.level] at hl
  | .bin op a w b, hwf, hc, hl, rest => by
    cases op with
    | add => simp [Cst.level] at hl
    | sub => simp [Cst.level] at hl
    | mul => simp [Cst.level] at hl
    | div => simp [Cst.level] at hl
    | pow =>
      simp only [Cst.WF, Bool.and_eq_true] at hwf
      rw [conv_bin] at hc
      simp only [BinOp.needs] at hc
      have := head_of_level_ge3 a hwf.1.1 hc.2.2.1 (by omega) (w ++ '^' :: b.flatten ++ rest)
      simpa only [Cst.flatten, BinOp.sym, List.append_assoc, List.cons_append] using this


/-! ### the claims, level by level -/

def ClaimA (c : Cst) : Prop :=
  ∀ rest, NoExt rest → FunTo (c.flatten ++ rest) (.ok (parsed c, rest))
def ClaimB (c : Cst) : Prop :=
  ∀ rest, After ['^'] rest → PowTo (c.flatten ++ rest) (.ok (parsed c, rest))
def ClaimC (c : Cst) : Prop :=
  ∀ b rest, After ['^'] rest → ∃ f s' e, NegLoopTo b (c.flatten ++ rest) (.ok (f, s')) ∧
    s'.length ≤ (c.flatten ++ rest).length ∧ PowTo s' (.ok (e, rest)) ∧ pe b c = wrapNeg f e
def ClaimC' (c : Cst) : Prop :=
  ∀ rest, After ['^'] rest → NegTo (c.flatten ++ rest) (.ok (parsed c, rest))
def ClaimD (c : Cst) : Prop :=
  ∀ rest res, After ['^'] rest → ProdLoopTo (parsed c) rest res → ProdTo (c.flatten ++ rest) res
def ClaimE (c : Cst) : Prop :=
  ∀ rest res, After ['^', '*', '/'] rest → SumLoopTo (parsed c) rest res → SumTo (c.flatten ++ rest) res

theorem liftAB {c : Cst} (h : ClaimA c) : ClaimB c := fun rest hr =>
  rule_pow_none (h rest hr.1) (reLit_none_of_noHead hr.2 (by simp))

theorem liftBC {c : Cst} (hwf : c.WF = true) (hc : Conv c = true) (hl : 3 ≤ c.level) (h : ClaimB c) :
    ClaimC c := by
  intro b rest hr
  obtain ⟨ch, hh, hs⟩ := head_of_level_ge3 c hwf hc hl rest
  refine ⟨b, c.flatten ++ rest, parsed c, rule_negloop_none (reLit_miss ?_), Nat.le_refl _, h rest hr,
    pe_of_not_neg (by omega) b⟩
  rw [hh]; intro e; simp only [Option.some.injEq] at e; exact hs.ne_minus e

theorem liftCC' {c : Cst} (h : ClaimC c) : ClaimC' c := by
  intro rest hr
  obtain ⟨f, s', e, h1, hl, h2, h3⟩ := h false rest hr
  have := rule_neg h1 hl h2
  rw [← h3] at this
  exact this

theorem liftC'D {c : Cst} (h : ClaimC' c) : ClaimD c := fun rest res hr hloop =>
  rule_prod (h rest hr) (by simp) hloop

theorem liftDE {c : Cst} (h : ClaimD c) : ClaimE c := fun rest res hr hloop =>
  rule_sum (h rest _ (hr.mono (by simp)) (rule_prodloop_none (reOp2_none_of_noHead hr.2 (by simp) (by simp))))
    (by simp) hloop

/-! ### one step per constructor -/

theorem stepLit {w : List Char} {t : LitTok} (hw : Blank w) (ht : t.WF = true) (hs : tokSmall t) :
    ClaimA (.lit w t) := by
  intro rest hr
  obtain ⟨ch, tl, e, hch⟩ := lit_text_start ht
  have hsA : AtomStart ch := by
    rcases hch with h | h | h
    · exact .inl h
    · exact .inr (.inl h)
    · exact .inr (.inr (.inl h))
  have hhead : headNB (w ++ t.text ++ rest) = some ch := by
    rw [e]; simp only [List.append_assoc, List.cons_append]; exact headNB_blank_cons hw hsA.not_ws
  have hf : reFunOpen (w ++ t.text ++ rest) = none := by
    apply reFunOpen_miss hhead
    rcases hch with h | h | h
    · refine ⟨?_, ?_, ?_, ?_, ?_⟩ <;> (intro e2; subst e2; revert h; decide)
    · subst h; decide
    · subst h; decide
  have hp : reLit ['('] (w ++ t.text ++ rest) = none := by
    apply reLit_miss; rw [hhead]; intro e2; simp only [Option.some.injEq] at e2
    rcases hch with h | h | h
    · subst e2; revert h; decide
    · subst h; revert e2; decide
    · subst h; revert e2; decide
  have := rule_literal hf hp (literal_parse hw ht hs hr)
  simpa only [Cst.flatten, parsed, pe, wrapNeg, Bool.false_eq_true, if_false] using this

theorem after_close {ops : List Char} {w t : List Char} (hw : Blank w) (hn : ')' ∉ ops) :
    After ops (w ++ ')' :: t) :=
  after_sym hw (by decide) (by decide) hn

theorem stepParen {w1 w2 : List Char} {a : Cst} (h1 : Blank w1) (h2 : Blank w2) (ha : ClaimE a) :
    ClaimA (.paren w1 a w2) := by
  intro rest _
  have hsum : SumTo (a.flatten ++ (w2 ++ ')' :: rest)) (.ok (parsed a, w2 ++ ')' :: rest)) :=
    ha _ _ (after_close h2 (by decide))
      (rule_sumloop_none (reOp2_none_of_noHead (after_close (ops := ['-', '+']) h2 (by decide)).2 (by simp) (by simp)))
  have hhead : headNB (w1 ++ '(' :: (a.flatten ++ (w2 ++ ')' :: rest))) = some '(' :=
    headNB_blank_cons h1 (by decide)
  have := rule_paren (reFunOpen_miss hhead (by decide)) (reLit_hit h1 (by decide)) hsum (reLit_hit h2 (by decide))
  simpa only [Cst.flatten, parsed, pe, wrapNeg, Bool.false_eq_true, if_false, List.append_assoc,
    List.cons_append, List.nil_append] using this

theorem stepApp {w1 w2 w3 : List Char} {f : Fn} {a : Cst} (h1 : Blank w1) (h2 : Blank w2) (h3 : Blank w3)
    (ha : ClaimE a) : ClaimA (.app w1 f w2 a w3) := by
  intro rest _
  have hsum : SumTo (a.flatten ++ (w3 ++ ')' :: rest)) (.ok (parsed a, w3 ++ ')' :: rest)) :=
    ha _ _ (after_close h3 (by decide))
      (rule_sumloop_none (reOp2_none_of_noHead (after_close (ops := ['-', '+']) h3 (by decide)).2 (by simp) (by simp)))
  have := rule_fun (reFunOpen_hit f h1 h2) hsum (reLit_hit h3 (by decide))
  simpa only [Cst.flatten, parsed, pe, wrapNeg, Bool.false_eq_true, if_false, List.append_assoc,
    List.cons_append, List.nil_append] using this

theorem stepPow {w : List Char} {a b : Cst} (hw : Blank w) (ha : ClaimA a) (hb : ClaimB b) :
    ClaimB (.bin .pow a w b) := by
  intro rest hr
  have hA := ha (w ++ '^' :: (b.flatten ++ rest)) (noExt_blank_cons hw (by decide))
  have := rule_pow_some hA (by simp) (reLit_hit hw (by decide)) (hb rest hr)
  simpa only [Cst.flatten, BinOp.sym, parsed, pe, wrapNeg, mkBin, Bool.false_eq_true, if_false,
    List.append_assoc, List.cons_append] using this

theorem stepNeg {w : List Char} {a : Cst} (hw : Blank w) (ha : ClaimC a) : ClaimC (.neg w a) := by
  intro b rest hr
  obtain ⟨f, s', e, h1, hl, h2, h3⟩ := ha (!b) rest hr
  refine ⟨f, s', e, ?_, ?_, h2, ?_⟩
  · have := rule_negloop_some (b := b) (reLit_hit (t := a.flatten ++ rest) hw (by decide)) h1
    simpa only [Cst.flatten, List.append_assoc, List.cons_append] using this
  · simp only [Cst.flatten, List.append_assoc, List.cons_append, List.length_append, List.length_cons] at *
    omega
  · simpa only [pe] using h3

theorem stepMul {w : List Char} {a b : Cst} {op : BinOp} (hop : op = .mul ∨ op = .div) (hw : Blank w)
    (ha : ClaimD a) (hb : ClaimC' b) : ClaimD (.bin op a w b) := by
  intro rest res hr hloop
  have hsym : op.sym = '*' ∨ op.sym = '/' := by rcases hop with h | h <;> simp [h, BinOp.sym]
  have hws : isWs op.sym = false := by rcases hop with h | h <;> (subst h; decide)
  have hne : isDigit op.sym = false ∧ op.sym ≠ '.' ∧ op.sym ≠ 'e' ∧ op.sym ≠ 'E' := by
    rcases hop with h | h <;> (subst h; decide)
  have hnot : op.sym ∉ ['^'] := by rcases hop with h | h <;> (subst h; decide)
  have hl2 : ProdLoopTo (parsed a) (w ++ op.sym :: (b.flatten ++ rest)) res := by
    refine rule_prodloop_some (reOp2_hit hw hws hsym) (hb rest hr) (by simp) ?_
    have e : (if op.sym = '*' then Expr.product (parsed a) (parsed b) else Expr.quotient (parsed a) (parsed b))
        = parsed (.bin op a w b) := by
      rcases hop with h | h <;> (subst h; simp [parsed, pe, wrapNeg, mkBin, BinOp.sym])
    rw [e]; exact hloop
  have := ha _ res (after_sym hw hws hne hnot) hl2
  simpa only [Cst.flatten, List.append_assoc, List.cons_append] using this

theorem stepAdd {w : List Char} {a b : Cst} {op : BinOp} (hop : op = .add ∨ op = .sub) (hw : Blank w)
    (ha : ClaimE a) (hb : ClaimD b) : ClaimE (.bin op a w b) := by
  intro rest res hr hloop
  have hsym : op.sym = '-' ∨ op.sym = '+' := by rcases hop with h | h <;> simp [h, BinOp.sym]
  have hws : isWs op.sym = false := by rcases hop with h | h <;> (subst h; decide)
  have hne : isDigit op.sym = false ∧ op.sym ≠ '.' ∧ op.sym ≠ 'e' ∧ op.sym ≠ 'E' := by
    rcases hop with h | h <;> (subst h; decide)
  have hnot : op.sym ∉ ['^', '*', '/'] := by rcases hop with h | h <;> (subst h; decide)
  have hprod : ProdTo (b.flatten ++ rest) (.ok (parsed b, rest)) :=
    hb rest _ (hr.mono (by simp)) (rule_prodloop_none (reOp2_none_of_noHead hr.2 (by simp) (by simp)))
  have hl2 : SumLoopTo (parsed a) (w ++ op.sym :: (b.flatten ++ rest)) res := by
    refine rule_sumloop_some (reOp2_hit hw hws hsym) hprod (by simp) ?_
    have e : (if op.sym = '+' then Expr.sum (parsed a) (parsed b) else Expr.difference (parsed a) (parsed b))
        = parsed (.bin op a w b) := by
      rcases hop with h | h <;> (subst h; simp [parsed, pe, wrapNeg, mkBin, BinOp.sym])
    rw [e]; exact hloop
  have := ha _ res (after_sym hw hws hne hnot) hl2
  simpa only [Cst.flatten, List.append_assoc, List.cons_append] using this


/-! ### induction over the tree -/

structure Inv (c : Cst) : Prop where
  a : c.level = 4 → ClaimA c
  b : 3 ≤ c.level → ClaimB c
  cc : 2 ≤ c.level → ClaimC c
  d : 1 ≤ c.level → ClaimD c
  e : ClaimE c

theorem level_le (c : Cst) : c.level ≤ 4 := by
  cases c with
  | bin op a w b => cases op <;> simp [Cst.level]
  | _ => simp [Cst.level]

theorem inv_of_A {c : Cst} (hwf : c.WF = true) (hc : Conv c = true) (hl : c.level = 4) (hA : ClaimA c) :
    Inv c :=
  have hB := liftAB hA
  have hC := liftBC hwf hc (by omega) hB
  have hD := liftC'D (liftCC' hC)
  ⟨fun _ => hA, fun _ => hB, fun _ => hC, fun _ => hD, liftDE hD⟩

theorem tokSmall_of_bigInt {w : List Char} {t : LitTok} (h : (Cst.lit w t).bigInt = false) : tokSmall t := by
  cases t with
  | int ds => simp only [Cst.bigInt, decide_eq_false_iff_not] at h; simp only [tokSmall]; omega
  | dec ip fp ex => trivial
  | pi => trivial

theorem inv_all : ∀ (c : Cst), c.WF = true → Conv c = true → c.bigInt = false → Inv c
  | .lit w t, hwf, hc, hs => by
    have hwf' := hwf
    simp only [Cst.WF, Bool.and_eq_true] at hwf'
    exact inv_of_A hwf hc rfl (stepLit (blank_of_all hwf'.1) hwf'.2 (tokSmall_of_bigInt hs))
  | .paren w1 a w2, hwf, hc, hs => by
    have hwf' := hwf
    simp only [Cst.WF, Bool.and_eq_true] at hwf'
    have ih := inv_all a hwf'.1.2 (by simpa [Conv] using hc) (by simpa [Cst.bigInt] using hs)
    exact inv_of_A hwf hc rfl (stepParen (blank_of_all hwf'.1.1) (blank_of_all hwf'.2) ih.e)
  | .app w1 f w2 a w3, hwf, hc, hs => by
    have hwf' := hwf
    simp only [Cst.WF, Bool.and_eq_true] at hwf'
    have ih := inv_all a hwf'.1.2 (by simpa [Conv] using hc) (by simpa [Cst.bigInt] using hs)
    exact inv_of_A hwf hc rfl
      (stepApp (blank_of_all hwf'.1.1.1) (blank_of_all hwf'.1.1.2) (blank_of_all hwf'.2) ih.e)
  | .neg w a, hwf, hc, hs => by
    have hwf' := hwf
    simp only [Cst.WF, Bool.and_eq_true] at hwf'
    have hc' := conv_neg.mp hc
    have ih := inv_all a hwf'.2 hc'.2 (by simpa [Cst.bigInt] using hs)
    have hC := stepNeg (blank_of_all hwf'.1) (ih.cc hc'.1)
    have hD := liftC'D (liftCC' hC)
    exact ⟨fun h => by simp [Cst.level] at h, fun h => by simp [Cst.level] at h, fun _ => hC, fun _ => hD,
      liftDE hD⟩
  | .bin op a w b, hwf, hc, hs => by
    have hwf' := hwf
    simp only [Cst.WF, Bool.and_eq_true] at hwf'
    have hc' := conv_bin.mp hc
    have hs' : a.bigInt = false ∧ b.bigInt = false := by simpa [Cst.bigInt] using hs
    have iha := inv_all a hwf'.1.1 hc'.2.2.1 hs'.1
    have ihb := inv_all b hwf'.2 hc'.2.2.2 hs'.2
    have hw := blank_of_all hwf'.1.2
    cases op with
    | pow =>
      simp only [BinOp.needs] at hc'
      have hB := stepPow hw (iha.a (by have := level_le a; omega)) (ihb.b hc'.2.1)
      have hC := liftBC hwf hc (by simp [Cst.level]) hB
      have hD := liftC'D (liftCC' hC)
      exact ⟨fun h => by simp [Cst.level] at h, fun _ => hB, fun _ => hC, fun _ => hD, liftDE hD⟩
    | mul =>
      simp only [BinOp.needs] at hc'
      have hD := stepMul (.inl rfl) hw (iha.d hc'.1) (liftCC' (ihb.cc hc'.2.1))
      exact ⟨fun h => by simp [Cst.level] at h, fun h => by simp [Cst.level] at h,
        fun h => by simp [Cst.level] at h, fun _ => hD, liftDE hD⟩
    | div =>
      simp only [BinOp.needs] at hc'
      have hD := stepMul (.inr rfl) hw (iha.d hc'.1) (liftCC' (ihb.cc hc'.2.1))
      exact ⟨fun h => by simp [Cst.level] at h, fun h => by simp [Cst.level] at h,
        fun h => by simp [Cst.level] at h, fun _ => hD, liftDE hD⟩
    | add =>
      simp only [BinOp.needs] at hc'
      have hE := stepAdd (.inl rfl) hw iha.e (ihb.d hc'.2.1)
      exact ⟨fun h => by simp [Cst.level] at h, fun h => by simp [Cst.level] at h,
        fun h => by simp [Cst.level] at h, fun h => by simp [Cst.level] at h, hE⟩
    | sub =>
      simp only [BinOp.needs] at hc'
      have hE := stepAdd (.inr rfl) hw iha.e (ihb.d hc'.2.1)
      exact ⟨fun h => by simp [Cst.level] at h, fun h => by simp [Cst.level] at h,
        fun h => by simp [Cst.level] at h, fun h => by simp [Cst.level] at h, hE⟩

/-! ### the theorem -/

theorem after_of_stops {rest : List Char} (h : Stops rest = true) : After ['^', '*', '/', '+', '-'] rest := by
  cases rest with
  | nil =>
    exact ⟨fun c t e => by simp at e, fun c hc => by simp [headNB, dropWs] at hc⟩
  | cons a t =>
    simp only [Stops, Bool.and_eq_true, Bool.not_eq_true', Bool.or_eq_false_iff, beq_eq_false_iff_ne, ne_eq] at h
    obtain ⟨⟨⟨⟨h1, h2⟩, h3⟩, h4⟩, h5⟩ := h
    refine ⟨?_, ?_⟩
    · intro c tl e
      simp only [List.cons.injEq] at e
      obtain ⟨rfl, _⟩ := e
      exact ⟨h1, h2, h3, h4⟩
    · intro c hc
      simp only [headNB, dropWs] at hc
      rw [isBlank_eq] at h5
      cases hd : List.dropWhile isWs (a :: t) with
      | nil => rw [hd] at hc; simp at hc
      | cons d tl =>
        rw [hd] at hc h5
        simp only [List.head?_cons, Option.some.injEq] at hc
        subst hc
        simp only [Bool.not_eq_true', Bool.or_eq_false_iff, beq_eq_false_iff_ne, ne_eq] at h5
        obtain ⟨⟨⟨⟨g1, g2⟩, g3⟩, g4⟩, g5⟩ := h5
        simp only [List.mem_cons, List.not_mem_nil, or_false, not_or]
        exact ⟨g5, g3, g4, g1, g2⟩

/-- **Round trip.**  Every well-formed, conventionally parenthesised concrete syntax tree without an
integer literal ≥ 2^64, rendered with any blanks and any redundant parentheses and followed by any
remainder that `Stops`, parses to `(parsed c, rest)`. -/
theorem parse_flatten (c : Cst) (hwf : c.WF = true) (hc : Conv c = true) (hs : c.bigInt = false)
    (rest : List Char) (hr : Stops rest = true) :
    parse (c.flatten ++ rest) = .ok (parsed c, rest) := by
  have hA := after_of_stops hr
  exact ((inv_all c hwf hc hs).e rest _ (hA.mono (by simp))
    (rule_sumloop_none (reOp2_none_of_noHead hA.2 (by simp) (by simp)))).parse

end Q1t.Proofs.Expr

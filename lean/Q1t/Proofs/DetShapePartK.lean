import Q1t.Proofs.DetShapeSp
import Q1t.Proofs.DetShapePartN1a
set_option linter.unusedSectionVars false
set_option linter.unusedVariables false
set_option linter.unusedSimpArgs false
/-!
`PartK`: the part of `collapse` before `normalize` preserves `HasDual`.

`collapseRows phG i q (range i)` replaces every row `r_k` (`k < i`) that has an X-bit at `q` by `r_k · r_i`; rows
`k > i` have no X-bit at `q` (`measure` reported the last one).  So, uniformly for `k ≠ i`, the new row is
`adjE (xAt r_k q) r_k r_i`.  Then row `i` becomes `Z_q`.  New destabilizers: `d_i' := r_i` (the old row `i`),
`d_k' := adjE (xAt d_k q) d_k r_i` for `k ≠ i`.
-/
namespace Q1t.Proofs.DetPlan
open Q1t Q1t.Tableau Q1t.Spec.Pauli Q1t.Proofs.Tableau Q1t.Proofs.TabG

/-- multiply `ri` into `r` iff `e` -/
def adjE (e : Bool) (r ri : List P) : List P := if e then opsMul r ri else r

theorem adjE_length (e : Bool) (r ri : List P) (h : r.length = ri.length) : (adjE e r ri).length = r.length := by
  unfold adjE; split
  · exact opsMul_length r ri h
  · rfl

theorem sp_adjE_left (e : Bool) (r ri d : List P) (h1 : r.length = ri.length) (h2 : ri.length = d.length) :
    sp (adjE e r ri) d = (sp r d != (e && sp ri d)) := by
  cases e
  · simp [adjE]
  · simp only [adjE, if_true, Bool.true_and]; exact sp_opsMul r ri d h1 h2

theorem sp_adjE_right (e : Bool) (r ri d : List P) (h1 : r.length = ri.length) (h2 : ri.length = d.length) :
    sp d (adjE e r ri) = (sp d r != (e && sp d ri)) := by
  cases e
  · simp [adjE]
  · simp only [adjE, if_true, Bool.true_and]; exact sp_opsMul_right r ri d h1 h2

theorem xAt_adjE_self (r ri : List P) (q : Nat) (h : r.length = ri.length) (hq : q < ri.length)
    (hx : xAt ri q = true) : xAt (adjE (xAt r q) r ri) q = false := by
  cases hr : xAt r q
  · simp [adjE, hr]
  · simp only [adjE, if_true]
    rw [xAt_opsMul r ri q (by omega) hq, hr, hx]; rfl

/-- exact effect of the loop of `collapse` on the row strings -/
theorem collapseRows_rowD (i q : Nat) : ∀ (ks : List Nat) (t t1 : Tab), (∀ k ∈ ks, k ≠ i) → ks.Nodup → t.WF →
    Tab.collapseRows phG i q ks t = .ok t1 →
    t1.n = t.n ∧ t1.WF ∧
      ∀ k, rowD t1 k = if k ∈ ks then adjE (xAt (rowD t k) q) (rowD t k) (rowD t i) else rowD t k := by
  intro ks
  induction ks with
  | nil =>
    intro t t1 _ _ hwf hok
    cases hok
    exact ⟨rfl, hwf, fun k => by simp⟩
  | cons k ks ih =>
    intro t t1 hne hnd hwf hok
    have hnd' := List.nodup_cons.mp hnd
    have hki : k ≠ i := hne k (List.mem_cons_self ..)
    simp only [Tab.collapseRows, bind] at hok
    obtain ⟨p, hp, hok⟩ := bind_ok hok
    obtain ⟨rk, hrk, hpk, hxk⟩ := cell_ok_xAt t k q p hp
    have hrkD : rowD t k = rk := rowD_of_getElem? t k rk hrk
    split at hok
    · rename_i hpx
      obtain ⟨t2, ht2, hok⟩ := bind_ok hok
      obtain ⟨hn2, hwf2, hrow2⟩ := multiplyRow_rowD t t2 k i hwf hki ht2
      obtain ⟨hn1, hwf1, hrow1⟩ := ih t2 t1 (fun k' hk' => hne k' (List.mem_cons_of_mem _ hk')) hnd'.2 hwf2 hok
      refine ⟨hn1.trans hn2, hwf1, fun j => ?_⟩
      rw [hrow1 j]
      have hi2 : rowD t2 i = rowD t i := by rw [hrow2 i, if_neg (Ne.symm hki)]
      by_cases hjk : j = k
      · subst hjk
        rw [if_neg hnd'.1, if_pos (List.mem_cons_self ..), hrow2 j, if_pos rfl, hrkD, hxk, hpx]
        simp [adjE]
      · have hj2 : rowD t2 j = rowD t j := by rw [hrow2 j, if_neg hjk]
        rw [hj2, hi2]
        by_cases hjm : j ∈ ks
        · rw [if_pos hjm, if_pos (List.mem_cons_of_mem _ hjm)]
        · rw [if_neg hjm, if_neg (by simp [hjk, hjm])]
    · rename_i hpx
      obtain ⟨hn1, hwf1, hrow1⟩ := ih t t1 (fun k' hk' => hne k' (List.mem_cons_of_mem _ hk')) hnd'.2 hwf hok
      refine ⟨hn1, hwf1, fun j => ?_⟩
      rw [hrow1 j]
      by_cases hjk : j = k
      · subst hjk
        have hpx' : p.hasX = false := by simpa using hpx
        rw [if_neg hnd'.1, if_pos (List.mem_cons_self ..), hrkD, hxk, hpx']
        simp [adjE]
      · by_cases hjm : j ∈ ks
        · rw [if_pos hjm, if_pos (List.mem_cons_of_mem _ hjm)]
        · rw [if_neg hjm, if_neg (by simp [hjk, hjm])]

theorem partK : PartK := by
  intro t t1 q i o hwf hpc ⟨ds, hdl, hdlen, hdsp⟩ hm ht1
  obtain ⟨hq, hi, ⟨ri, hri, hxri⟩, hlater⟩ := measure_random_inv t q i hm
  obtain ⟨hn1, hwf1, hrow1⟩ := collapseRows_rowD i q (List.range i) t t1
    (fun k hk => by rw [List.mem_range] at hk; omega) List.nodup_range hwf ht1
  obtain ⟨w1, w2, w3⟩ := hwf
  obtain ⟨v1, v2, v3⟩ := hwf1
  have hriD : rowD t i = ri := rowD_of_getElem? t i ri hri
  have hril : ri.length = t.n := w3 ri (List.mem_of_getElem? hri)
  have hrowl : ∀ k, k < t.n → (rowD t k).length = t.n := fun k hk =>
    w3 _ (List.mem_of_getElem? (rowD_getElem? t k (by omega)))
  -- uniform description of the rows `k ≠ i` of `t1`
  have hrows : ∀ k, k < t.n → k ≠ i → rowD t1 k = adjE (xAt (rowD t k) q) (rowD t k) ri := by
    intro k hk hki
    rw [hrow1 k, hriD]
    by_cases hlt : k < i
    · rw [if_pos (List.mem_range.mpr hlt)]
    · rw [if_neg (by rw [List.mem_range]; exact hlt)]
      obtain ⟨r', hr', hx'⟩ := hlater k (by omega) hk
      rw [rowD_of_getElem? t k r' hr', hx']
      simp [adjE]
  -- the new destabilizers
  refine ⟨(ds.map fun d => adjE (xAt d q) d ri).set i ri, ?_, ?_, ?_⟩
  · simp [hdl, hn1]
  · intro d hd
    show d.length = t1.n
    rw [hn1]
    rcases List.mem_or_eq_of_mem_set hd with hd | rfl
    · obtain ⟨d0, hd0, rfl⟩ := List.mem_map.mp hd
      rw [adjE_length _ _ _ (by rw [hdlen d0 hd0, hril]), hdlen d0 hd0]
    · exact hril
  · intro j k r d hr hd
    simp only [List.getElem?_set, List.getElem?_map, List.length_map] at hr hd
    have hj : j < t.n := by
      by_cases hji : i = j
      · omega
      · rw [if_neg hji] at hr
        have := (List.getElem?_eq_some_iff.mp hr).1
        omega
    have hk : k < t.n := by
      by_cases hki : i = k
      · omega
      · rw [if_neg hki] at hd
        cases hdk : ds[k]? with
        | none => rw [hdk] at hd; simp at hd
        | some d0 => have := (List.getElem?_eq_some_iff.mp hdk).1; omega
    by_cases hji : i = j
    · subst hji
      rw [if_pos rfl, if_pos (by omega)] at hr
      cases hr
      rw [hn1]
      by_cases hki : i = k
      · subst hki
        rw [if_pos rfl, if_pos (by omega)] at hd
        cases hd
        rw [sp_zRow t.n q ri hq hril, hxri]; simp
      · rw [if_neg hki] at hd
        have hdk : ds[k]? = some ds[k] := List.getElem?_eq_getElem (by omega)
        rw [hdk] at hd
        simp only [Option.map_some, Option.some.injEq] at hd
        subst hd
        have hdkl : (ds[k]'(by omega)).length = t.n := hdlen _ (List.getElem_mem _)
        rw [sp_zRow t.n q _ hq (by rw [adjE_length _ _ _ (by rw [hdkl, hril]), hdkl]),
          xAt_adjE_self _ ri q (by rw [hdkl, hril]) (by omega) hxri]
        simp [hki]
    · rw [if_neg hji] at hr
      have hrD : rowD t1 j = r := rowD_of_getElem? t1 j r hr
      rw [hrows j hj (Ne.symm hji)] at hrD
      subst hrD
      have hrj : t.rows[j]? = some (rowD t j) := rowD_getElem? t j (by omega)
      have hrjl := hrowl j hj
      have hc1 : sp (rowD t j) ri = false := hpc j i _ _ hrj hri
      by_cases hki : i = k
      · subst hki
        rw [if_pos rfl, if_pos (by omega)] at hd
        cases hd
        rw [sp_adjE_left _ _ _ _ (by rw [hrjl, hril]) rfl, hc1, sp_self]
        simp [Ne.symm hji]
      · rw [if_neg hki] at hd
        have hdk : ds[k]? = some ds[k] := List.getElem?_eq_getElem (by omega)
        rw [hdk] at hd
        simp only [Option.map_some, Option.some.injEq] at hd
        subst hd
        have hdkl : (ds[k]'(by omega)).length = t.n := hdlen _ (List.getElem_mem _)
        have hjk : sp (rowD t j) ds[k] = decide (j = k) := hdsp j k _ _ hrj hdk
        have hik : sp ri ds[k] = decide (i = k) := hdsp i k _ _ hri hdk
        rw [sp_adjE_left _ _ _ _ (by rw [hrjl, hril])
            (by rw [adjE_length _ _ _ (by rw [hdkl, hril]), hdkl, hril]),
          sp_adjE_right _ _ _ _ (by rw [hdkl, hril]) (by rw [hril, hrjl]),
          sp_adjE_right _ _ _ _ (by rw [hdkl, hril]) rfl, hjk, hc1, hik, sp_self]
        simp [hki]

end Q1t.Proofs.DetPlan

import Q1t.Proofs.LatexShape
/-! C13 — connectors end inside the grid on a partner symbol: column-level definitions, the
"writes" calculus for code that runs inside an open range, and the top-level invariant. -/
namespace Q1t.Proofs.Latex
open Q1t.Latex Q1t.Spec.QcGrid

/-! ## Columns -/

/-- The explicit symbol in row `r` of a column of the matrix. -/
def symAt (col : Column) (r : Nat) : Option Sym :=
  match col[r]? with
  | some (some c) => some c.sym
  | _ => none

/-- The line `p = (offset, kind)` leaving row `r` ends in the column on a partner symbol. -/
def LineOK (col : Column) (r : Nat) (p : Int × Nat) : Prop :=
  ∃ t : Nat, (r : Int) + p.1 = (t : Int) ∧ ∃ y, symAt col t = some y ∧ Sym.partnerOk p.2 y = true

def ColOK (col : Column) : Prop :=
  ∀ r y, symAt col r = some y → ∀ p ∈ y.lines, LineOK col r p

/-- `col'` has everything `col` has (cells may have been filled in). -/
def Ext (col col' : Column) : Prop :=
  col'.length = col.length ∧ ∀ r y, symAt col r = some y → symAt col' r = some y

theorem Ext.refl (col : Column) : Ext col col := ⟨rfl, fun _ _ h => h⟩

theorem LineOK.mono {col col' : Column} (h : Ext col col') {r p} (hl : LineOK col r p) : LineOK col' r p := by
  obtain ⟨t, ht, y, hy, hp⟩ := hl
  exact ⟨t, ht, y, h.2 t y hy, hp⟩

theorem symAt_set_eq (col : Column) (r : Nat) (c : Cell) (h : r < col.length) :
    symAt (col.set r (some c)) r = some c.sym := by
  simp [symAt, List.getElem?_set, h]

theorem symAt_set_ne (col : Column) (r r' : Nat) (x : Option Cell) (h : r ≠ r') :
    symAt (col.set r x) r' = symAt col r' := by
  simp [symAt, List.getElem?_set, h]

theorem symAt_none_of_empty {col : Column} {r : Nat} (h : col[r]? = some none) : symAt col r = none := by
  simp [symAt, h]

theorem colOK_replicate (n : Nat) : ColOK (List.replicate n none) := by
  intro r y h
  simp [symAt, List.getElem?_replicate] at h

/-! ## Applying a list of writes to a column -/

def applyWrites (pv : Nat) : List (Nat × Sym) → Column → Column
  | [], col => col
  | (r, y) :: ws, col => applyWrites pv ws (col.set r (some ⟨y, pv⟩))

theorem applyWrites_append (pv : Nat) (a b : List (Nat × Sym)) (col : Column) :
    applyWrites pv (a ++ b) col = applyWrites pv b (applyWrites pv a col) := by
  induction a generalizing col with
  | nil => rfl
  | cons x xs ih => obtain ⟨r, y⟩ := x; simp [applyWrites, ih]

theorem applyWrites_length (pv : Nat) (ws : List (Nat × Sym)) (col : Column) :
    (applyWrites pv ws col).length = col.length := by
  induction ws generalizing col with
  | nil => rfl
  | cons x xs ih => obtain ⟨r, y⟩ := x; simp [applyWrites, ih]

theorem applyWrites_get_other (pv : Nat) (ws : List (Nat × Sym)) (col : Column) (r : Nat)
    (h : ∀ p ∈ ws, p.1 ≠ r) : (applyWrites pv ws col)[r]? = col[r]? := by
  induction ws generalizing col with
  | nil => rfl
  | cons x xs ih =>
    obtain ⟨r0, y⟩ := x
    simp only [applyWrites]
    rw [ih _ (fun p hp => h p (by simp [hp]))]
    have : r0 ≠ r := h (r0, y) (by simp)
    simp [List.getElem?_set, this]

/-- With distinct rows inside the column, every write is visible afterwards. -/
theorem applyWrites_symAt_mem (pv : Nat) (ws : List (Nat × Sym)) (col : Column)
    (hnd : (ws.map (·.1)).Nodup) (hlt : ∀ p ∈ ws, p.1 < col.length) :
    ∀ p ∈ ws, symAt (applyWrites pv ws col) p.1 = some p.2 := by
  induction ws generalizing col with
  | nil => intro p hp; cases hp
  | cons x xs ih =>
    obtain ⟨r0, y0⟩ := x
    intro p hp
    simp only [List.map_cons, List.nodup_cons] at hnd
    simp only [applyWrites]
    simp only [List.mem_cons] at hp
    rcases hp with rfl | hp
    · have hne : ∀ q ∈ xs, q.1 ≠ r0 := by
        intro q hq e; exact hnd.1 (by rw [← e]; exact List.mem_map_of_mem hq)
      simp only [symAt]
      rw [applyWrites_get_other pv xs _ r0 hne]
      have := hlt (r0, y0) (by simp)
      simp [List.getElem?_set, this]
    · exact ih _ hnd.2 (fun q hq => by simpa using hlt q (by simp [hq])) p hp

theorem applyWrites_symAt_other (pv : Nat) (ws : List (Nat × Sym)) (col : Column) (r : Nat)
    (h : ∀ p ∈ ws, p.1 ≠ r) : symAt (applyWrites pv ws col) r = symAt col r := by
  simp [symAt, applyWrites_get_other pv ws col r h]

/-- Writes into empty cells extend the column. -/
theorem ext_applyWrites (pv : Nat) (ws : List (Nat × Sym)) (col : Column)
    (hempty : ∀ p ∈ ws, symAt col p.1 = none) : Ext col (applyWrites pv ws col) := by
  refine ⟨applyWrites_length pv ws col, ?_⟩
  intro r y hy
  rw [applyWrites_symAt_other pv ws col r]
  · exact hy
  · intro p hp e
    have := hempty p hp
    rw [e, hy] at this; cases this

/-- **Key lemma.** A connected column stays connected when a group of symbols is written into
empty cells of it, provided every line of a new symbol ends on a new symbol that is a partner. -/
theorem colOK_applyWrites (pv : Nat) (ws : List (Nat × Sym)) (col : Column) (hok : ColOK col)
    (hnd : (ws.map (·.1)).Nodup) (hlt : ∀ p ∈ ws, p.1 < col.length)
    (hempty : ∀ p ∈ ws, symAt col p.1 = none)
    (hclosed : ∀ p ∈ ws, ∀ l ∈ p.2.lines, ∃ q ∈ ws, (p.1 : Int) + l.1 = (q.1 : Int) ∧ Sym.partnerOk l.2 q.2 = true) :
    ColOK (applyWrites pv ws col) := by
  have hext := ext_applyWrites pv ws col hempty
  have hvis := applyWrites_symAt_mem pv ws col hnd hlt
  intro r y hy l hl
  by_cases hr : ∃ p ∈ ws, p.1 = r
  · obtain ⟨p, hp, rfl⟩ := hr
    have := hvis p hp
    rw [this] at hy; injection hy with hy; subst hy
    obtain ⟨q, hq, hqt, hqp⟩ := hclosed p hp l hl
    exact ⟨q.1, hqt, q.2, hvis q hq, hqp⟩
  · have hne : ∀ p ∈ ws, p.1 ≠ r := fun p hp e => hr ⟨p, hp, e⟩
    rw [applyWrites_symAt_other pv ws col r hne] at hy
    exact (hok r y hy l hl).mono hext

/-! ## `Wrote`: the net effect of code that runs while a range is open -/

/-- `s'` is `s0` with the writes `ws` applied to the last column; `in_use` only grows and covers the
written rows; the register, the other columns and the provenance counter are untouched. -/
structure Wrote (s0 s' : St) (ws : List (Nat × Sym)) : Prop where
  cols : ∃ col rest, s0.rcols = col :: rest ∧ s'.rcols = applyWrites s0.cur ws col :: rest ∧
    ∀ p ∈ ws, p.1 < col.length
  nq : s'.nq = s0.nq
  nc : s'.nc = s0.nc
  cur : s'.cur = s0.cur
  iuLen : s'.inUse.length = s0.inUse.length
  iu : ∀ r : Nat, s'.inUse[r]? = some false → s0.inUse[r]? = some false ∧ ∀ p ∈ ws, p.1 ≠ r

theorem Wrote.trans {a b c : St} {w1 w2 : List (Nat × Sym)} (h1 : Wrote a b w1) (h2 : Wrote b c w2) :
    Wrote a c (w1 ++ w2) := by
  obtain ⟨col, rest, ha, hb, hlt1⟩ := h1.cols
  obtain ⟨col2, rest2, hb2, hc, hlt2⟩ := h2.cols
  rw [hb] at hb2; injection hb2 with e1 e2; subst e1; subst e2
  refine ⟨⟨col, rest, ha, ?_, ?_⟩, h2.nq.trans h1.nq, h2.nc.trans h1.nc, h2.cur.trans h1.cur,
    h2.iuLen.trans h1.iuLen, ?_⟩
  · rw [hc, h1.cur, applyWrites_append]
  · intro p hp
    simp only [List.mem_append] at hp
    rcases hp with hp | hp
    · exact hlt1 p hp
    · have := hlt2 p hp; rwa [applyWrites_length] at this
  · intro r hr
    obtain ⟨hb', hn2⟩ := h2.iu r hr
    obtain ⟨ha', hn1⟩ := h1.iu r hb'
    refine ⟨ha', ?_⟩
    intro p hp
    simp only [List.mem_append] at hp
    rcases hp with hp | hp
    · exact hn1 p hp
    · exact hn2 p hp

/-- A step that changes neither the matrix nor the counters and only sets `in_use` bits. -/
theorem wrote_nil_of {s s' : St} (hne : s.rcols ≠ []) (hr : s'.rcols = s.rcols) (hq : s'.nq = s.nq)
    (hc : s'.nc = s.nc) (hcur : s'.cur = s.cur) (hl : s'.inUse.length = s.inUse.length)
    (hiu : ∀ r : Nat, s'.inUse[r]? = some false → s.inUse[r]? = some false) : Wrote s s' [] := by
  obtain ⟨col, rest, e⟩ := List.exists_cons_of_ne_nil hne
  exact ⟨⟨col, rest, e, by rw [hr, e]; rfl, by intro p hp; cases hp⟩, hq, hc, hcur, hl,
    fun r h => ⟨hiu r h, by intro p hp; cases hp⟩⟩

theorem setField_inRange {b : Nat} {y : Sym} {s s' : St} (hr : s.ranges ≠ []) (h : setField b y s = .ok s') :
    Wrote s s' [(b, y)] ∧ s'.ranges = s.ranges ∧ s'.controlled = s.controlled := by
  unfold setField at h
  have : s.ranges.isEmpty = false := by cases hs : s.ranges <;> simp_all
  simp only [this, Bool.false_eq_true, if_false, Res.bind_ok] at h
  split at h
  · cases h
  · rename_i col rest hc
    split at h
    · rename_i hb
      injection h with h; subst h
      refine ⟨⟨⟨col, rest, hc, rfl, ?_⟩, rfl, rfl, rfl, by simp, ?_⟩, rfl, rfl⟩
      · intro p hp; simp at hp; subst hp; exact hb.1
      · intro r hr'
        simp only [List.getElem?_set] at hr'
        split at hr'
        · split at hr' <;> simp at hr'
        · rename_i hne
          exact ⟨hr', by intro p hp; simp at hp; subst hp; exact hne⟩
    · cases h

theorem markRange_mono {l : List Bool} {f n : Nat} {l' : List Bool} (h : markRange l f n = some l') :
    ∀ r : Nat, l'[r]? = some false → l[r]? = some false := by
  induction n generalizing l f with
  | zero => simp [markRange] at h; subst h; exact fun _ h => h
  | succ n ih =>
    simp only [markRange] at h
    split at h
    · intro r hr
      have := ih h r hr
      simp only [List.getElem?_set] at this
      split at this
      · simp at this
      · exact this
    · cases h

theorem endRangeOp_wrote {s s' : St} (hne : s.rcols ≠ []) (h : endRangeOp s = .ok s') :
    Wrote s s' [] ∧ s'.ranges = s.ranges.tail ∧ s'.controlled = s.controlled := by
  unfold endRangeOp at h
  split at h
  · rename_i hr
    injection h with h; subst h
    exact ⟨wrote_nil_of hne rfl rfl rfl rfl rfl (fun _ h => h), by simp [hr], rfl⟩
  · rename_i f l rest hr
    split at h
    · rename_i iu hm
      injection h with h; subst h
      exact ⟨wrote_nil_of hne rfl rfl rfl rfl (markRange_length hm) (markRange_mono hm), by simp [hr], rfl⟩
    · cases h

/-- `start_range_op` while a range is open only pushes the range. -/
theorem startRangeOp_inRange {q c} {s s' : St} (hr : s.ranges ≠ []) (hne : s.rcols ≠ [])
    (h : startRangeOp q c s = .ok s') :
    Wrote s s' [] ∧ s'.controlled = s.controlled ∧ (s'.ranges = s.ranges ∨ s'.ranges.tail = s.ranges) ∧ s'.ranges ≠ [] := by
  unfold startRangeOp at h
  obtain ⟨bits, _, h⟩ := Res.bind_eq_ok.mp h
  split at h
  · injection h with h; subst h
    exact ⟨wrote_nil_of hne rfl rfl rfl rfl rfl (fun _ h => h), rfl, Or.inl rfl, hr⟩
  · dsimp only at h
    split at h
    · rename_i hnil; exact absurd hnil hr
    · split at h
      · injection h with h; subst h
        exact ⟨wrote_nil_of hne rfl rfl rfl rfl rfl (fun _ h => h), rfl, Or.inr rfl, by simp⟩
      · cases h

/-! ## List helpers -/

theorem foldl_min_le (bs : List Nat) (b : Nat) : bs.foldl min b ≤ b ∧ ∀ x ∈ bs, bs.foldl min b ≤ x := by
  induction bs generalizing b with
  | nil => simp
  | cons a as ih =>
    simp only [List.foldl_cons]
    obtain ⟨h1, h2⟩ := ih (min b a)
    refine ⟨Nat.le_trans h1 (Nat.min_le_left _ _), ?_⟩
    intro x hx
    simp only [List.mem_cons] at hx
    rcases hx with rfl | hx
    · exact Nat.le_trans h1 (Nat.min_le_right _ _)
    · exact h2 x hx

theorem foldl_max_ge (bs : List Nat) (b : Nat) : b ≤ bs.foldl max b ∧ ∀ x ∈ bs, x ≤ bs.foldl max b := by
  induction bs generalizing b with
  | nil => simp
  | cons a as ih =>
    simp only [List.foldl_cons]
    obtain ⟨h1, h2⟩ := ih (max b a)
    refine ⟨Nat.le_trans (Nat.le_max_left _ _) h1, ?_⟩
    intro x hx
    simp only [List.mem_cons] at hx
    rcases hx with rfl | hx
    · exact Nat.le_trans (Nat.le_max_right _ _) h1
    · exact h2 x hx

theorem foldl_min_mem (bs : List Nat) (b : Nat) : bs.foldl min b ∈ b :: bs := by
  induction bs generalizing b with
  | nil => simp
  | cons a as ih =>
    simp only [List.foldl_cons]
    have := ih (min b a)
    simp only [List.mem_cons] at this ⊢
    rcases this with h | h
    · rw [h]; rcases Nat.le_total b a with h' | h'
      · left; exact Nat.min_eq_left h'
      · right; left; exact Nat.min_eq_right h'
    · right; right; exact h

theorem foldl_max_mem (bs : List Nat) (b : Nat) : bs.foldl max b ∈ b :: bs := by
  induction bs generalizing b with
  | nil => simp
  | cons a as ih =>
    simp only [List.foldl_cons]
    have := ih (max b a)
    simp only [List.mem_cons] at this ⊢
    rcases this with h | h
    · rw [h]; rcases Nat.le_total b a with h' | h'
      · right; left; exact Nat.max_eq_right h'
      · left; exact Nat.max_eq_left h'
    · right; right; exact h

theorem slice_free (l : List Bool) (f t : Nat) (h : (sliceIncl l f t).contains true = false) :
    ∀ r, f ≤ r → r ≤ t → r < l.length → l[r]? = some false := by
  intro r h1 h2 h3
  have hr : l[r]? = some l[r] := List.getElem?_eq_getElem h3
  cases hv : l[r] with
  | false => rw [hr, hv]
  | true =>
    exfalso
    have : true ∈ sliceIncl l f t := by
      rw [List.mem_iff_getElem?]
      refine ⟨r - f, ?_⟩
      unfold sliceIncl
      rw [List.getElem?_take]
      have : r - f < t + 1 - f := by omega
      simp only [this, if_true, List.getElem?_drop]
      have : f + (r - f) = r := by omega
      rw [this, hr, hv]
    have h' : (sliceIncl l f t).contains true = true := by simpa using this
    rw [h] at h'; cases h'

end Q1t.Proofs.Latex

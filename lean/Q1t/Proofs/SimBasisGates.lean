import Mathlib.Tactic.LinearCombination
import Q1t.Proofs.SimExtras
/-!
C02: the reference-semantics fields of `GateSemOK` (`iso`, `hh`, `ssdg`), PROVED for one-qubit gates from the
two-term formula of `SimEmbed1.lean`, for every register size and every lawful amplitude ring:

* `app1_inv` — if `M·M' = 1` (2×2) then the embedded operators compose to the identity (hence `H·H = 1`, `S·S† = 1`);
* `app1_iso` — a 2×2 matrix with orthonormal columns, embedded on one qubit, preserves the squared norm
  (hence `iso` for `H`, `S`, `S†`, `X`).
-/
set_option linter.unusedSectionVars false
namespace Q1t.Sim
open Q1t Q1t.Spec

section
variable {α P : Type} [CommRing α] [Amp α P] [SimAmp α]
variable {n : Nat} {nz : α → Prop}

theorem get_two (a b c d : α) :
    LMat.get [[a, b], [c, d]] 0 0 = a ∧ LMat.get [[a, b], [c, d]] 0 1 = b ∧
    LMat.get [[a, b], [c, d]] 1 0 = c ∧ LMat.get [[a, b], [c, d]] 1 1 = d := by
  simp [LMat.get]

theorem list_eq_range_getD (v : List α) (m : Nat) (hv : v.length = m) :
    v = (List.range m).map fun r => v.getD r 0 := by
  subst hv
  exact (range_map_getD v 0).symm

/-- `M · M' = 1` entrywise ⇒ the embedded one-qubit operators are inverse to each other -/
theorem app1_inv (a b c d a' b' c' d' : α) (h00 : a * a' + b * c' = 1) (h01 : a * b' + b * d' = 0)
    (h10 : c * a' + d * c' = 0) (h11 : c * b' + d * d' = 1) {q : Nat} (hq : q < n) (v : List α)
    (hv : v.length = 2 ^ n) :
    app1 [[a, b], [c, d]] n q (app1 [[a', b'], [c', d']] n q v) = v := by
  conv_rhs => rw [list_eq_range_getD v _ hv]
  simp only [app1]
  apply List.map_congr_left
  intro r hr
  have hr' : r < 2 ^ n := List.mem_range.mp hr
  have e1 := getD_app1 [[a', b'], [c', d']] n q v hr'
  have e2 := getD_app1 [[a', b'], [c', d']] n q v (flipBit_lt hq hr')
  simp only [app1] at e1 e2
  rw [e1, e2, qbit_flipBit_self, flipBit_flipBit]
  obtain ⟨g1, g2, g3, g4⟩ := get_two a b c d
  obtain ⟨g1', g2', g3', g4'⟩ := get_two a' b' c' d'
  have h2 := qbit_lt_two n q r
  by_cases h0 : qbit n q r = 0
  · simp only [h0, Nat.sub_zero, Nat.sub_self, g1, g2, g1', g2', g3', g4']
    linear_combination (v.getD r 0) * h00 + (v.getD (flipBit n q r) 0) * h01
  · have h1 : qbit n q r = 1 := by omega
    simp only [h1, Nat.sub_self, Nat.sub_zero, g3, g4, g1', g2', g3', g4']
    linear_combination (v.getD r 0) * h11 + (v.getD (flipBit n q r) 0) * h10

theorem list_sum_range_eq (f : Nat → α) (m : Nat) :
    ((List.range m).map f).sum = ∑ k ∈ Finset.range m, f k := by
  induction m with
  | zero => simp
  | succ m ih => rw [List.sum_range_succ, Finset.sum_range_succ, ih]

theorem sum_flip (f : Nat → α) {q : Nat} (hq : q < n) :
    ∑ r ∈ Finset.range (2 ^ n), f (flipBit n q r) = ∑ r ∈ Finset.range (2 ^ n), f r :=
  Finset.sum_nbij' (flipBit n q) (flipBit n q)
    (fun _ hr => Finset.mem_range.mpr (flipBit_lt hq (Finset.mem_range.mp hr)))
    (fun _ hr => Finset.mem_range.mpr (flipBit_lt hq (Finset.mem_range.mp hr)))
    (fun r _ => flipBit_flipBit n q r) (fun r _ => flipBit_flipBit n q r) (fun _ _ => rfl)

/-- a 2×2 matrix with orthonormal columns, embedded on one qubit, preserves the squared norm -/
theorem app1_iso (ha : LawfulAmp α P) (hs : LawfulSim α P nz) (a b c d : α)
    (h1 : Amp.conj P a * a + Amp.conj P c * c = 1) (h2 : Amp.conj P b * b + Amp.conj P d * d = 1)
    (h3 : Amp.conj P a * b + Amp.conj P c * d = 0) (h4 : Amp.conj P b * a + Amp.conj P d * c = 0)
    {q : Nat} (hq : q < n) (v : List α) (hv : v.length = 2 ^ n) :
    normSqSum (app1 [[a, b], [c, d]] n q v) = normSqSum v := by
  obtain ⟨F, hF⟩ : ∃ F : Nat → α, F = fun r => SimAmp.normSq ((app1 [[a, b], [c, d]] n q v).getD r 0) := ⟨_, rfl⟩
  obtain ⟨G, hG⟩ : ∃ G : Nat → α, G = fun r => SimAmp.normSq (v.getD r 0) := ⟨_, rfl⟩
  have eF : normSqSum (app1 [[a, b], [c, d]] n q v) = ∑ r ∈ Finset.range (2 ^ n), F r := by
    rw [← list_sum_range_eq, hF]
    conv_lhs => rw [list_eq_range_getD (app1 [[a, b], [c, d]] n q v) _ (app1_length _ _ _ _)]
    simp only [normSqSum, List.map_map]
    rfl
  have eG : normSqSum v = ∑ r ∈ Finset.range (2 ^ n), G r := by
    rw [← list_sum_range_eq, hG]
    conv_lhs => rw [list_eq_range_getD v _ hv]
    simp only [normSqSum, List.map_map]
    rfl
  have key : ∀ r, r < 2 ^ n → F r + F (flipBit n q r) = G r + G (flipBit n q r) := by
    intro r hr
    rw [hF, hG]
    simp only
    rw [getD_app1 _ _ _ _ hr, getD_app1 _ _ _ _ (flipBit_lt hq hr), qbit_flipBit_self, flipBit_flipBit]
    obtain ⟨g1, g2, g3, g4⟩ := get_two a b c d
    have hlt := qbit_lt_two n q r
    simp only [hs.normSq_eq, ha.conj_add, ha.conj_mul]
    by_cases h0 : qbit n q r = 0
    · simp only [h0, Nat.sub_zero, Nat.sub_self, g1, g2, g3, g4]
      linear_combination (v.getD r 0 * Amp.conj P (v.getD r 0)) * h1 +
        (v.getD (flipBit n q r) 0 * Amp.conj P (v.getD (flipBit n q r) 0)) * h2 +
        (v.getD (flipBit n q r) 0 * Amp.conj P (v.getD r 0)) * h3 +
        (v.getD r 0 * Amp.conj P (v.getD (flipBit n q r) 0)) * h4
    · have h1' : qbit n q r = 1 := by omega
      simp only [h1', Nat.sub_self, Nat.sub_zero, g1, g2, g3, g4]
      linear_combination (v.getD (flipBit n q r) 0 * Amp.conj P (v.getD (flipBit n q r) 0)) * h1 +
        (v.getD r 0 * Amp.conj P (v.getD r 0)) * h2 +
        (v.getD r 0 * Amp.conj P (v.getD (flipBit n q r) 0)) * h3 +
        (v.getD (flipBit n q r) 0 * Amp.conj P (v.getD r 0)) * h4
  have hsum : (∑ r ∈ Finset.range (2 ^ n), F r) + (∑ r ∈ Finset.range (2 ^ n), F r) =
      (∑ r ∈ Finset.range (2 ^ n), G r) + (∑ r ∈ Finset.range (2 ^ n), G r) := by
    have e1 : (∑ r ∈ Finset.range (2 ^ n), F r) + (∑ r ∈ Finset.range (2 ^ n), F r) =
        ∑ r ∈ Finset.range (2 ^ n), (F r + F (flipBit n q r)) := by
      rw [Finset.sum_add_distrib, sum_flip F hq]
    have e2 : (∑ r ∈ Finset.range (2 ^ n), G r) + (∑ r ∈ Finset.range (2 ^ n), G r) =
        ∑ r ∈ Finset.range (2 ^ n), (G r + G (flipBit n q r)) := by
      rw [Finset.sum_add_distrib, sum_flip G hq]
    rw [e1, e2]
    exact Finset.sum_congr rfl fun r hr => key r (Finset.mem_range.mp hr)
  rw [eF, eG]
  have hh := ha.half_add_half
  calc (∑ r ∈ Finset.range (2 ^ n), F r)
      = (Amp.half P + Amp.half P) * (∑ r ∈ Finset.range (2 ^ n), F r) := by rw [hh, one_mul]
    _ = Amp.half P * ((∑ r ∈ Finset.range (2 ^ n), F r) + (∑ r ∈ Finset.range (2 ^ n), F r)) := by ring
    _ = Amp.half P * ((∑ r ∈ Finset.range (2 ^ n), G r) + (∑ r ∈ Finset.range (2 ^ n), G r)) := by rw [hsum]
    _ = (Amp.half P + Amp.half P) * (∑ r ∈ Finset.range (2 ^ n), G r) := by ring
    _ = ∑ r ∈ Finset.range (2 ^ n), G r := by rw [hh, one_mul]

end
end Q1t.Sim

import Q1t.Spec.StabEnum
import Q1t.Gen.PhaseTable
import Q1t.Gen.Conj
/-!
C03, proofs part 1: the generated tables in kernel-friendly form.

`conjFor name` is how the model (and the driver) obtains the `conjugate` rule of a library gate: a lookup
by struct name in the generated table `Q1t.Gen.conjTable`.  String comparison is slow in the kernel, so
the finite theorems are evaluated with `conjK`, which takes the entry of each of the 13 stabilizer gates
from the literal list below; `conjFor_eq` proves (by evaluating the 13 look-ups once) that both are the
same function.  If /repo's tables change, `entry_lookup` fails and names the gate.
-/
namespace Q1t.Proofs.Tableau
open Q1t Q1t.Tableau Q1t.Spec.Stab Q1t.Spec.StabEnum

/-- the `conjugate` rule of a library gate as the model uses it (look-up by name in the generated table) -/
def conjFor (name : String) : Tab.Conj := conjOf Q1t.Gen.conjTable Q1t.Gen.conjNoArityCheck name

/-- the model's parameters: generated phase table, generated conjugation tables -/
def params : Params := ⟨Q1t.Gen.phaseTable, fun g => conjFor g.name⟩

/-- expected entries of the 13 stabilizer gates (a literal copy, compared with the generated table below) -/
def entryK : SGate → ConjEntry
  | .I => ("I", 1, true, [([0], [0], false), ([1], [1], false), ([2], [2], false), ([3], [3], false)])
  | .X => ("X", 1, true, [([0], [0], false), ([1], [1], true), ([2], [2], false), ([3], [3], true)])
  | .Y => ("Y", 1, true, [([0], [0], false), ([1], [1], true), ([2], [2], true), ([3], [3], false)])
  | .Z => ("Z", 1, true, [([0], [0], false), ([1], [1], false), ([2], [2], true), ([3], [3], true)])
  | .H => ("H", 1, true, [([0], [0], false), ([1], [2], false), ([2], [1], false), ([3], [3], true)])
  | .S => ("S", 1, true, [([0], [0], false), ([1], [1], false), ([2], [3], false), ([3], [2], true)])
  | .Sdg => ("Sdg", 1, true, [([0], [0], false), ([1], [1], false), ([2], [3], true), ([3], [2], false)])
  | .V => ("V", 1, true, [([0], [0], false), ([1], [3], true), ([2], [2], false), ([3], [1], false)])
  | .Vdg => ("Vdg", 1, true, [([0], [0], false), ([1], [3], false), ([2], [2], false), ([3], [1], true)])
  | .CX => ("CX", 2, true, [([0, 0], [0, 0], false), ([0, 1], [1, 1], false), ([0, 2], [0, 2], false), ([0, 3], [1, 3], false), ([1, 0], [1, 0], false), ([1, 1], [0, 1], false), ([1, 2], [1, 2], false), ([1, 3], [0, 3], false), ([2, 0], [2, 2], false), ([2, 1], [3, 3], true), ([2, 2], [2, 0], false), ([2, 3], [3, 1], false), ([3, 0], [3, 2], false), ([3, 1], [2, 3], false), ([3, 2], [3, 0], false), ([3, 3], [2, 1], true)])
  | .CY => ("CY", 2, true, [([0, 0], [0, 0], false), ([0, 1], [1, 1], false), ([0, 2], [1, 2], false), ([0, 3], [0, 3], false), ([1, 0], [1, 0], false), ([1, 1], [0, 1], false), ([1, 2], [0, 2], false), ([1, 3], [1, 3], false), ([2, 0], [2, 3], false), ([2, 1], [3, 2], false), ([2, 2], [3, 1], true), ([2, 3], [2, 0], false), ([3, 0], [3, 3], false), ([3, 1], [2, 2], true), ([3, 2], [2, 1], false), ([3, 3], [3, 0], false)])
  | .CZ => ("CZ", 2, true, [([0, 0], [0, 0], false), ([0, 1], [0, 1], false), ([0, 2], [1, 2], false), ([0, 3], [1, 3], false), ([1, 0], [1, 0], false), ([1, 1], [1, 1], false), ([1, 2], [0, 2], false), ([1, 3], [0, 3], false), ([2, 0], [2, 1], false), ([2, 1], [2, 0], false), ([2, 2], [3, 3], false), ([2, 3], [3, 2], true), ([3, 0], [3, 1], false), ([3, 1], [3, 0], false), ([3, 2], [2, 3], true), ([3, 3], [2, 2], false)])
  | .Swap => ("Swap", 2, true, [([0, 0], [0, 0], false), ([0, 1], [1, 0], false), ([0, 2], [2, 0], false), ([0, 3], [3, 0], false), ([1, 0], [0, 1], false), ([1, 1], [1, 1], false), ([1, 2], [2, 1], false), ([1, 3], [3, 1], false), ([2, 0], [0, 2], false), ([2, 1], [1, 2], false), ([2, 2], [2, 2], false), ([2, 3], [3, 2], false), ([3, 0], [0, 3], false), ([3, 1], [1, 3], false), ([3, 2], [2, 3], false), ([3, 3], [3, 3], false)])

def conjK (g : SGate) : Tab.Conj := conjOfEntry (g != .I) (entryK g)

/-- kernel-friendly parameters -/
def paramsK : Params := ⟨Q1t.Gen.phaseTable, conjK⟩

instance decEqC1 : DecidableEq (Bool × List (List Nat × List Nat × Bool)) := inferInstance
instance decEqC2 : DecidableEq (Nat × Bool × List (List Nat × List Nat × Bool)) := inferInstance
instance decEqC3 : DecidableEq ConjEntry := inferInstance

theorem entry_lookup (g : SGate) :
    Q1t.Gen.conjTable.find? (fun e => e.1 == g.name) = some (entryK g) := by
  cases g <;> decide +kernel

theorem nocheck_lookup (g : SGate) : (!Q1t.Gen.conjNoArityCheck.contains g.name) = (g != .I) := by
  cases g <;> decide +kernel

theorem conjFor_eq (g : SGate) : conjFor g.name = conjK g := by
  unfold conjFor conjOf conjK
  rw [entry_lookup g, nocheck_lookup g]

theorem params_eq : params = paramsK := by
  unfold params paramsK
  congr 1
  funext g
  exact conjFor_eq g

end Q1t.Proofs.Tableau

import Q1t.Proofs.DetShapePartN1a
set_option linter.unusedSectionVars false
set_option linter.unusedVariables false
set_option linter.unusedSimpArgs false
/-!
`PartN1`, step b: the elimination loop `for m in 0..n { if m != i && sel(m, j) { multiply_row(m, i) } }` and the
pivot search, in terms of `bit`.
-/
namespace Q1t.Proofs.DetPlan
open Q1t Q1t.Tableau Q1t.Spec.Pauli Q1t.Proofs.Tableau Q1t.Proofs.TabG

theorem cell_bit (sel : P → Bool) (t : Tab) (k c : Nat) (p : P) (h : t.cell k c = .ok p) : bit sel t k c = sel p := by
  obtain ⟨r, hr, hrc, _⟩ := cell_ok_xAt t k c p h
  simp [bit, bitAt, rowD_of_getElem? t k r hr, hrc]

theorem bit_oob (sel : P → Bool) (t : Tab) (k c : Nat) (hk : t.rows.length ≤ k) : bit sel t k c = false := by
  have : t.rows[k]? = none := List.getElem?_eq_none hk
  simp [bit, bitAt, rowD, List.getD_eq_getElem?_getD, this]

/-- the elimination loop: every listed row `k ≠ i` with the `sel`-bit at column `j` gets row `i` added -/
theorem elimRows_bits {sel : P → Bool} (hsel : XorLin sel) (n j i : Nat) (hi : i < n) :
    ∀ (ms : List Nat) (t t' : Tab), ms.Nodup → (∀ m ∈ ms, m < n) → t.WF → t.n = n →
      Tab.elimRows phG sel j i ms t = .ok t' →
      t'.WF ∧ t'.n = n ∧ ∀ s2 : P → Bool, XorLin s2 → ∀ k c,
        bit s2 t' k c =
          if (k ∈ ms ∧ k ≠ i ∧ bit sel t k j = true) then (bit s2 t k c != bit s2 t i c) else bit s2 t k c := by
  intro ms
  induction ms with
  | nil => intro t t' _ _ hwf hn hok; cases hok; exact ⟨hwf, hn, fun s2 _ k c => by simp⟩
  | cons m ms ih =>
    intro t t' hnd hms hwf hn hok
    have hnd' := List.nodup_cons.mp hnd
    have hm : m < n := hms m (List.mem_cons_self ..)
    simp only [Tab.elimRows, bind] at hok
    obtain ⟨p, hp, hok⟩ := bind_ok hok
    have hpb : bit sel t m j = sel p := cell_bit sel t m j p hp
    split at hok
    · rename_i hc
      obtain ⟨t1, ht1, hok⟩ := bind_ok hok
      simp only [Bool.and_eq_true, bne_iff_ne] at hc
      obtain ⟨hmi, hselp⟩ := hc
      obtain ⟨hn1, hwf1, _⟩ := multiplyRow_rowD t t1 m i hwf hmi ht1
      obtain ⟨hwf', hn', hbits⟩ := ih t1 t' hnd'.2 (fun x hx => hms x (List.mem_cons_of_mem _ hx)) hwf1
        (hn1.trans hn) hok
      refine ⟨hwf', hn', fun s2 hs2 k c => ?_⟩
      have hb1 : ∀ (s : P → Bool), XorLin s → ∀ k' c', bit s t1 k' c' =
          if k' = m then (bit s t m c' != bit s t i c') else bit s t k' c' :=
        fun s hs k' c' => multiplyRow_bit hs t t1 m i hwf hmi (by omega) (by omega) ht1 k' c'
      rw [hbits s2 hs2 k c]
      by_cases hkm : k = m
      · subst hkm
        have hnot : ¬ (k ∈ ms ∧ k ≠ i ∧ bit sel t1 k j = true) := fun h => hnd'.1 h.1
        rw [if_neg hnot, hb1 s2 hs2 k c, if_pos rfl,
          if_pos ⟨List.mem_cons_self .., hmi, by rw [hpb]; exact hselp⟩]
      · have e1 : bit sel t1 k j = bit sel t k j := by rw [hb1 sel hsel k j, if_neg hkm]
        have e2 : bit s2 t1 k c = bit s2 t k c := by rw [hb1 s2 hs2 k c, if_neg hkm]
        have e3 : bit s2 t1 i c = bit s2 t i c := by rw [hb1 s2 hs2 i c, if_neg (Ne.symm hmi)]
        rw [e1, e2, e3]
        have hiff : (k ∈ ms ∧ k ≠ i ∧ bit sel t k j = true) ↔ (k ∈ m :: ms ∧ k ≠ i ∧ bit sel t k j = true) := by
          simp [List.mem_cons, hkm]
        by_cases hcond : (k ∈ ms ∧ k ≠ i ∧ bit sel t k j = true)
        · rw [if_pos hcond, if_pos (hiff.mp hcond)]
        · rw [if_neg hcond, if_neg (fun h => hcond (hiff.mpr h))]
    · rename_i hc
      obtain ⟨hwf', hn', hbits⟩ := ih t t' hnd'.2 (fun x hx => hms x (List.mem_cons_of_mem _ hx)) hwf hn hok
      refine ⟨hwf', hn', fun s2 hs2 k c => ?_⟩
      rw [hbits s2 hs2 k c]
      have hmfalse : ¬ (m ≠ i ∧ bit sel t m j = true) := by
        intro h
        apply hc
        simp only [Bool.and_eq_true, bne_iff_ne]
        exact ⟨h.1, by rw [← hpb]; exact h.2⟩
      have hiff : (k ∈ ms ∧ k ≠ i ∧ bit sel t k j = true) ↔ (k ∈ m :: ms ∧ k ≠ i ∧ bit sel t k j = true) := by
        constructor
        · rintro ⟨h1, h2, h3⟩; exact ⟨List.mem_cons_of_mem _ h1, h2, h3⟩
        · rintro ⟨h1, h2, h3⟩
          rcases List.mem_cons.mp h1 with rfl | h1'
          · exact absurd ⟨h2, h3⟩ hmfalse
          · exact ⟨h1', h2, h3⟩
      by_cases hcond : (k ∈ ms ∧ k ≠ i ∧ bit sel t k j = true)
      · rw [if_pos hcond, if_pos (hiff.mp hcond)]
      · rw [if_neg hcond, if_neg (fun h => hcond (hiff.mpr h))]

/-- the pivot search -/
theorem findRow_bits (sel : P → Bool) (t : Tab) (j : Nat) : ∀ (ks : List Nat) (res : Option Nat),
    Tab.findRow sel t j ks = .ok res →
      (∀ k, res = some k → k ∈ ks ∧ bit sel t k j = true) ∧ (res = none → ∀ k ∈ ks, bit sel t k j = false) := by
  intro ks
  induction ks with
  | nil =>
    intro res h
    simp [Tab.findRow] at h
    subst h
    exact ⟨fun k hk => by simp at hk, fun _ k hk => by simp at hk⟩
  | cons k ks ih =>
    intro res h
    simp only [Tab.findRow, bind] at h
    obtain ⟨p, hp, h⟩ := bind_ok h
    have hb := cell_bit sel t k j p hp
    split at h
    · rename_i hs
      cases h
      exact ⟨fun k' hk' => by cases hk'; exact ⟨List.mem_cons_self .., by rw [hb]; exact hs⟩, fun hn => by cases hn⟩
    · rename_i hs
      obtain ⟨i1, i2⟩ := ih res h
      refine ⟨fun k' hk' => ?_, fun hn k' hk' => ?_⟩
      · obtain ⟨a, b⟩ := i1 k' hk'; exact ⟨List.mem_cons_of_mem _ a, b⟩
      · rcases List.mem_cons.mp hk' with rfl | hk''
        · rw [hb]; simpa using hs
        · exact i2 hn k' hk''

end Q1t.Proofs.DetPlan

import Q1t.Proofs.RouteCond
/-!
# C04, corollaries: `Gate::apply` / `apply_mat` on a state of exactly `2^k` rows; a composite acts as the
sequence of its placed operations; sanity of the reference matrix `embed` (full register, identity).
-/
namespace Q1t.Proofs.Route
open Q1t Q1t.Gate Q1t.Spec Q1t.Proofs.BitPerm
variable {α P : Type} [CommRing α] [Amp α P]
set_option linter.unusedSectionVars false

/-- `Gate::apply` (mode `vec`) / `Gate::apply_mat` (mode `mat`): on a state with exactly `2^k` rows the
route is the product with the gate's matrix -/
theorem route_eq_mulState (h : LawfulAmp α P) (g : GateTerm P) (hwf : WF g) (m : Mode) (w : Nat)
    (hw : OkWidth m w) (hword : WordOK g (nrBits g))
    (v : List (Row α m)) (hlen : v.length = 2 ^ nrBits g) (hvw : RowsW m w v) :
    route (α := α) m g v = some (mulState m w (matrix (α := α) g) v) := by
  rw [route_eq_blockMul h g hwf m w hw (nrBits g) (Nat.le_refl _) hword v hlen hvw, Nat.sub_self,
    Nat.pow_zero, blockMul_one m w hw _ _ (matrix_wf h g hwf hword) v hlen hvw]

theorem apply_eq_mulVec (h : LawfulAmp α P) (g : GateTerm P) (hwf : WF g) (hword : WordOK g (nrBits g))
    (v : List α) (hlen : v.length = 2 ^ nrBits g) :
    route (α := α) .vec g v = some (LMat.mulVec (matrix (α := α) g) v) := by
  rw [route_eq_mulState h g hwf .vec 1 (fun _ => rfl) hword v hlen (fun _ _ => rfl),
    mulState_vec_eq_mulVec _ _ (matrix_wf h g hwf hword) v hlen]

/-- a composite applied to the leading qubits of an `N`-qubit register acts as its operations, one after
the other, each as its embedded matrix on the `N`-qubit register -/
theorem composite_route_eq_ops (h : LawfulAmp α P) (nm : String) (n : Nat) (ops : OpList P)
    (hwf : WF (.Composite nm n ops)) (m : Mode) (w : Nat) (hw : OkWidth m w) (N : Nat) (hnN : n ≤ N)
    (hN : N < 64) (v : List (Row α m)) (hlen : v.length = 2 ^ N) (hvw : RowsW m w v) :
    route (α := α) m (.Composite nm n ops) v = some (applyOps (matrix (α := α)) m w N ops v) := by
  rw [WF] at hwf
  have hops := opsOK_of_wf (α := α) h n (by omega) ops hwf.2
  rw [route, hlen, trailingZeros_pow N hN,
    routeOps_spec m w hw N hN ops (opsOK_mono n N hnN ops hops) v hlen hvw]

/-! ## statements in terms of the ordinary matrix–vector product -/

theorem applyGateSlice_vec_eq_mulVec (h : LawfulAmp α P) (g : GateTerm P) (hwf : WF g) (n : Nat)
    (bits : List Nat) (har : nrBits g = bits.length) (hv : validBits n bits = true)
    (hword : WordOK g n) (v : List α) (hlen : v.length = 2 ^ n) :
    applyGateSlice (α := α) .vec g bits n v =
      some (LMat.mulVec (embed n bits (matrix (α := α) g)) v) := by
  rw [applyGateSlice_eq_embed h g hwf .vec 1 (fun _ => rfl) n bits har hv hword v hlen (fun _ _ => rfl),
    mulState_vec_eq_mulVec (2 ^ n) _ (embed_wf n bits _) v hlen]

theorem applyGateSlice_columnwise (h : LawfulAmp α P) (g : GateTerm P) (hwf : WF g) (n : Nat)
    (bits : List Nat) (har : nrBits g = bits.length) (hv : validBits n bits = true)
    (hword : WordOK g n) (K : Nat) (M : LMat α) (hlen : M.length = 2 ^ n)
    (hrow : ∀ r ∈ M, r.length = K) (k : Nat) (hk : k < K) :
    ∃ M', applyGateSlice (α := α) .mat g bits n M = some M' ∧
      applyGateSlice (α := α) .vec g bits n (colOf M k) = some (colOf M' k) ∧
      colOf M' k = LMat.mulVec (embed n bits (matrix (α := α) g)) (colOf M k) := by
  have hc : (colOf M k).length = 2 ^ n := by simp [colOf, hlen]
  refine ⟨_, applyGateSlice_eq_embed h g hwf .mat K (okWidth_mat K) n bits har hv hword M hlen
    (fun r hr => hrow r hr), ?_, ?_⟩ <;>
  rw [mulState_mat_col K _ M k hk, mulState_vec_eq_mulVec (2 ^ n) _ (embed_wf n bits _) _ hc]
  exact applyGateSlice_vec_eq_mulVec h g hwf n bits har hv hword _ hc

theorem applyConditional_per_shot_mulVec (h : LawfulAmp α P) (g : GateTerm P) (hwf : WF g)
    (n : Nat) (bits : List Nat) (har : nrBits g = bits.length) (hv : validBits n bits = true)
    (hword : WordOK g n) (shots : Nat) (counts : List Nat) (states : List (List α))
    (control : List Bool) (hc : control.length = shots) (hsum : counts.sum = shots)
    (hpos : ∀ c ∈ counts, 0 < c) (hcs : counts.length = states.length)
    (hcol : ∀ ψ ∈ states, ψ.length = 2 ^ n) :
    ∃ counts' states',
      applyConditional (α := α) n shots counts states control g bits = .ok counts' states' ∧
      counts'.length = states'.length ∧ (∀ ψ ∈ states', ψ.length = 2 ^ n) ∧
      shotExpand counts' states' =
        onSelected (LMat.mulVec (embed n bits (matrix (α := α) g))) control
          (shotExpand counts states) := by
  obtain ⟨c', s', h1, h2, h3, h4⟩ := applyConditional_per_shot h g hwf n bits har hv hword shots counts
    states control hc hsum hpos hcs hcol
  refine ⟨c', s', h1, h2, h3, ?_⟩
  rw [h4]
  exact onSelected_congr _ _ (fun ψ : List α => ψ.length = 2 ^ n)
    (fun ψ hψ => mulState_vec_eq_mulVec (2 ^ n) _ (embed_wf n bits _) ψ hψ) control _
    (shotExpand_all _ counts states hcol)

/-! ## sanity of `embed` -/

theorem agreeOff_range (n r c : Nat) : agreeOff n (List.range n) r c = true := by
  simp only [agreeOff, List.all_eq_true, List.mem_range, Bool.or_eq_true, List.contains_iff_mem]
  intro q hq
  exact Or.inl hq

/-- on the full register in the natural order the embedded matrix is the matrix itself -/
theorem embed_full (n : Nat) (M : LMat α) (hM : WFMat (2 ^ n) M) : embed n (List.range n) M = M := by
  apply List.ext_getElem
  · rw [(embed_wf n _ M).1, hM.1]
  · intro r h1 h2
    have hr : r < 2 ^ n := by rw [(embed_wf n _ M).1] at h1; exact h1
    apply List.ext_getElem
    · rw [(embed_wf n _ M).2 _ (List.getElem_mem _), hM.2 _ (List.getElem_mem _)]
    · intro c h3 h4
      have hc : c < 2 ^ n := by rw [(embed_wf n _ M).2 _ (List.getElem_mem _)] at h3; exact h3
      have := embed_get n (List.range n) M r c hr hc
      rw [agreeOff_range, if_pos rfl, subIndex_range n r hr, subIndex_range n c hc] at this
      simpa [LMat.get, List.getD_eq_getElem?_getD, h1, h2, h3, h4] using this

end Q1t.Proofs.Route

import Q1t.Base.Q8
import Q1t.Model.Conj
import Q1t.Spec.Clifford
/-!
# C06, part 1: the primitives, checked in the kernel against the GENERATED table

Everything here is about `Q1t.Gen.conjTable` / `Q1t.Gen.conjNoArityCheck`, i.e. about the `match`
tables re-extracted from `src/gates/*.rs` on every run, and about the model's own `Gate.matrix`
evaluated over the exact field `Q8 = ℚ(ζ₈)`.

* `prims_checked` — one `decide +kernel`: for every parameterless primitive that claims
  `is_stabilizer`, the matrix is unitary, and for EVERY Pauli string on its qubits the table row
  `(flip, ops')` satisfies `G·P·Gᴴ = ±P'`.  (The claiming primitives have 1 or 2
  qubits: 9×4 + 4×16 = 100 strings — the whole quantifier.)
* `table_shape` — an entry that does not claim has no rows (so its `conjugate` is the default
  `NotAStabilizer`), an entry that claims has a row for each of the `4^arity` strings.
* `param_flags` — none of the parametrised primitives claims, whatever the parameters.
Core Lean only (no Mathlib): the statements are closed and decidable.
-/
namespace Q1t.Proofs.ConjPrim
open Q1t Q1t.Gate Q1t.Spec.Clifford
open Q1t.Conj hiding Pauli

/-- the parameterless primitives (`GateTerm Empty` has no others) -/
def constPrims : List (GateTerm Empty) :=
  [.H, .X, .Y, .Z, .S, .Sdg, .T, .Tdg, .V, .Vdg, .I, .CX, .CY, .CZ, .Swap]

/-- a primitive: not a `C`, `Kron`, `Composite` or `Loop` -/
def IsPrim {P : Type} : GateTerm P → Prop
  | .C _ => False
  | .Kron _ _ => False
  | .Composite _ _ _ => False
  | .Loop _ _ _ _ _ => False
  | _ => True

theorem mem_constPrims (g : GateTerm Empty) (hg : IsPrim g) : g ∈ constPrims := by
  cases g with
  | RX θ => exact θ.elim
  | RY θ => exact θ.elim
  | RZ θ => exact θ.elim
  | U1 θ => exact θ.elim
  | U2 θ _ => exact θ.elim
  | U3 θ _ _ => exact θ.elim
  | C _ => exact hg.elim
  | Kron _ _ => exact hg.elim
  | Composite _ _ _ => exact hg.elim
  | Loop _ _ _ _ _ => exact hg.elim
  | _ => simp [constPrims]

/-- the model's own matrix over the exact field -/
abbrev mat (g : GateTerm Empty) : LMat Q8 := matrix g

theorem mem_allStrings : ∀ (ops : List Pauli), ops ∈ allStrings ops.length
  | [] => by simp [allStrings]
  | p :: ps => by
    have ih := mem_allStrings ps
    simp only [List.length_cons, allStrings, List.mem_flatMap, List.mem_map]
    refine ⟨p, ?_, ps, ih, rfl⟩
    cases p <;> simp

def unitaryB (k : Nat) (M : LMat Q8) : Bool :=
  decide (M.length = 2 ^ k) && M.all (fun r => decide (r.length = 2 ^ k)) &&
    decide (LMat.mul M (adjoint Empty M) = LMat.identity (2 ^ k))

/-- the check of one string, for a matrix `M` and a Pauli-string-to-matrix function `pm` -/
def checkStringWith (M : LMat Q8) (pm : List Pauli → LMat Q8) (g : GateTerm Empty) (ops : List Pauli) : Bool :=
  match conjugate g ops with
  | .ok (flip, ops') =>
    decide (ops'.length = nrBits g) &&
    decide (conjBy Empty M (pm ops) = signed flip (pm ops'))
  | .error _ => false

def checkPrimWith (M : LMat Q8) (pm : List Pauli → LMat Q8) (g : GateTerm Empty) : Bool :=
  !isStabilizer g || (unitaryB (nrBits g) M && (allStrings (nrBits g)).all (checkStringWith M pm g))

/-- the statement: the model's own matrix, the reference Pauli matrices -/
def checkPrim (g : GateTerm Empty) : Bool := checkPrimWith (mat g) (pauliMat Empty) g

/-! ### literal normal forms (kernel evaluation is call-by-name: a matrix that is not a literal is
re-evaluated at every access, which makes the direct check ≈ 10× slower).  The literals are proved
equal to the model's matrices / the reference Pauli matrices below, so they are not trusted. -/

/-- `1/2`, `−1/2` in constructor form -/
abbrev h : Rat := Rat.mk' 1 2 (by decide) (by decide)
abbrev nh : Rat := Rat.mk' (-1) 2 (by decide) (by decide)

def litMat : GateTerm Empty → LMat Q8
  | .H => [[⟨0, h, 0, nh⟩, ⟨0, h, 0, nh⟩], [⟨0, h, 0, nh⟩, ⟨0, nh, 0, h⟩]]
  | .X => [[0, 1], [1, 0]]
  | .Y => [[0, ⟨0, 0, -1, 0⟩], [⟨0, 0, 1, 0⟩, 0]]
  | .Z => [[1, 0], [0, ⟨-1, 0, 0, 0⟩]]
  | .S => [[1, 0], [0, ⟨0, 0, 1, 0⟩]]
  | .Sdg => [[1, 0], [0, ⟨0, 0, -1, 0⟩]]
  | .T => [[1, 0], [0, ⟨0, 1, 0, 0⟩]]
  | .Tdg => [[1, 0], [0, ⟨0, 0, 0, -1⟩]]
  | .V => [[⟨h, 0, h, 0⟩, ⟨h, 0, nh, 0⟩], [⟨h, 0, nh, 0⟩, ⟨h, 0, h, 0⟩]]
  | .Vdg => [[⟨h, 0, nh, 0⟩, ⟨h, 0, h, 0⟩], [⟨h, 0, h, 0⟩, ⟨h, 0, nh, 0⟩]]
  | .I => [[1, 0], [0, 1]]
  | .CX => [[1, 0, 0, 0], [0, 1, 0, 0], [0, 0, 0, 1], [0, 0, 1, 0]]
  | .CY => [[1, 0, 0, 0], [0, 1, 0, 0], [0, 0, 0, ⟨0, 0, -1, 0⟩], [0, 0, ⟨0, 0, 1, 0⟩, 0]]
  | .CZ => [[1, 0, 0, 0], [0, 1, 0, 0], [0, 0, 1, 0], [0, 0, 0, ⟨-1, 0, 0, 0⟩]]
  | .Swap => [[1, 0, 0, 0], [0, 0, 1, 0], [0, 1, 0, 0], [0, 0, 0, 1]]
  | g => mat g

def lit1 : Pauli → LMat Q8
  | .I => [[1, 0], [0, 1]]
  | .Z => [[1, 0], [0, ⟨-1, 0, 0, 0⟩]]
  | .X => [[0, 1], [1, 0]]
  | .Y => [[0, ⟨0, 0, -1, 0⟩], [⟨0, 0, 1, 0⟩, 0]]

def lit2 : Pauli → Pauli → LMat Q8
  | .I, .I => [[1, 0, 0, 0], [0, 1, 0, 0], [0, 0, 1, 0], [0, 0, 0, 1]]
  | .I, .Z => [[1, 0, 0, 0], [0, ⟨-1, 0, 0, 0⟩, 0, 0], [0, 0, 1, 0], [0, 0, 0, ⟨-1, 0, 0, 0⟩]]
  | .I, .X => [[0, 1, 0, 0], [1, 0, 0, 0], [0, 0, 0, 1], [0, 0, 1, 0]]
  | .I, .Y => [[0, ⟨0, 0, -1, 0⟩, 0, 0], [⟨0, 0, 1, 0⟩, 0, 0, 0], [0, 0, 0, ⟨0, 0, -1, 0⟩], [0, 0, ⟨0, 0, 1, 0⟩, 0]]
  | .Z, .I => [[1, 0, 0, 0], [0, 1, 0, 0], [0, 0, ⟨-1, 0, 0, 0⟩, 0], [0, 0, 0, ⟨-1, 0, 0, 0⟩]]
  | .Z, .Z => [[1, 0, 0, 0], [0, ⟨-1, 0, 0, 0⟩, 0, 0], [0, 0, ⟨-1, 0, 0, 0⟩, 0], [0, 0, 0, 1]]
  | .Z, .X => [[0, 1, 0, 0], [1, 0, 0, 0], [0, 0, 0, ⟨-1, 0, 0, 0⟩], [0, 0, ⟨-1, 0, 0, 0⟩, 0]]
  | .Z, .Y => [[0, ⟨0, 0, -1, 0⟩, 0, 0], [⟨0, 0, 1, 0⟩, 0, 0, 0], [0, 0, 0, ⟨0, 0, 1, 0⟩], [0, 0, ⟨0, 0, -1, 0⟩, 0]]
  | .X, .I => [[0, 0, 1, 0], [0, 0, 0, 1], [1, 0, 0, 0], [0, 1, 0, 0]]
  | .X, .Z => [[0, 0, 1, 0], [0, 0, 0, ⟨-1, 0, 0, 0⟩], [1, 0, 0, 0], [0, ⟨-1, 0, 0, 0⟩, 0, 0]]
  | .X, .X => [[0, 0, 0, 1], [0, 0, 1, 0], [0, 1, 0, 0], [1, 0, 0, 0]]
  | .X, .Y => [[0, 0, 0, ⟨0, 0, -1, 0⟩], [0, 0, ⟨0, 0, 1, 0⟩, 0], [0, ⟨0, 0, -1, 0⟩, 0, 0], [⟨0, 0, 1, 0⟩, 0, 0, 0]]
  | .Y, .I => [[0, 0, ⟨0, 0, -1, 0⟩, 0], [0, 0, 0, ⟨0, 0, -1, 0⟩], [⟨0, 0, 1, 0⟩, 0, 0, 0], [0, ⟨0, 0, 1, 0⟩, 0, 0]]
  | .Y, .Z => [[0, 0, ⟨0, 0, -1, 0⟩, 0], [0, 0, 0, ⟨0, 0, 1, 0⟩], [⟨0, 0, 1, 0⟩, 0, 0, 0], [0, ⟨0, 0, -1, 0⟩, 0, 0]]
  | .Y, .X => [[0, 0, 0, ⟨0, 0, -1, 0⟩], [0, 0, ⟨0, 0, -1, 0⟩, 0], [0, ⟨0, 0, 1, 0⟩, 0, 0], [⟨0, 0, 1, 0⟩, 0, 0, 0]]
  | .Y, .Y => [[0, 0, 0, ⟨-1, 0, 0, 0⟩], [0, 0, 1, 0], [0, 1, 0, 0], [⟨-1, 0, 0, 0⟩, 0, 0, 0]]

def litPauli : List Pauli → LMat Q8
  | [p] => lit1 p
  | [p, q] => lit2 p q
  | ops => pauliMat Empty ops

theorem litMat_eq : ∀ g ∈ constPrims, litMat g = mat g := by decide +kernel

theorem litPauli_eq1 : (allStrings 1).all (fun ops => decide (litPauli ops = pauliMat Empty ops)) = true := by
  decide +kernel
theorem litPauli_eq2 : (allStrings 2).all (fun ops => decide (litPauli ops = pauliMat Empty ops)) = true := by
  decide +kernel

theorem litPauli_eq : ∀ ops : List Pauli, litPauli ops = pauliMat Empty ops := by
  intro ops
  match ops with
  | [] => rfl
  | [p] =>
    have := List.all_eq_true.1 litPauli_eq1 [p] (mem_allStrings [p])
    simpa using this
  | [p, q] =>
    have := List.all_eq_true.1 litPauli_eq2 [p, q] (mem_allStrings [p, q])
    simpa using this
  | _ :: _ :: _ :: _ => rfl

/-! ## shape of the generated table -/

/-- the keys `[a]`, `[a, b]`, … of a complete table of the given arity, in order -/
def allKeys : Nat → List (List Nat)
  | 0 => [[]]
  | k + 1 => [0, 1, 2, 3].flatMap fun p => (allKeys k).map (p :: ·)

/-- no claim ⇒ no rows; claim ⇒ exactly one row per string, in lexicographic order, outputs of the
right length with digits < 4 -/
def entryShapeOK (e : Tableau.ConjEntry) : Bool :=
  if e.2.2.1 then
    e.2.2.2.map (·.1) == allKeys e.2.1 &&
      e.2.2.2.all (fun r => r.2.1.length == e.2.1 && r.2.1.all (· < 4))
  else e.2.2.2.isEmpty

theorem table_shape : Gen.conjTable.all entryShapeOK = true := by decide +kernel

/-- the names are distinct, so `lookup` finds THE entry of a gate -/
theorem table_names_nodup : (Gen.conjTable.map (·.1)).Nodup := by decide +kernel

/-- every primitive constructor of the model has an entry in the generated table -/
theorem table_has_prims :
    ["H", "X", "Y", "Z", "S", "Sdg", "T", "Tdg", "V", "Vdg", "I", "RX", "RY", "RZ", "U1", "U2", "U3",
      "CX", "CY", "CZ", "Swap"].all (fun n => (lookup Gen.conjTable n).isSome) = true := by decide +kernel

/-- the parametrised primitives, `T` and `Tdg` do not claim -/
theorem nonclaiming_names :
    ["T", "Tdg", "RX", "RY", "RZ", "U1", "U2", "U3"].all
      (fun n => primFlag Gen.conjTable (some n) == false) = true := by decide +kernel

/-- only `I` omits the arity check -/
theorem no_arity_check : Gen.conjNoArityCheck = ["I"] := by decide +kernel

/-- the named controlled gates (`declare_controlled!`) keep the defaults: no claim, no rows -/
theorem named_controlled_default :
    ["CH", "CRX", "CRY", "CRZ", "CS", "CSdg", "CT", "CTdg", "CU1", "CU2", "CU3", "CV", "CVdg",
      "CCRX", "CCRY", "CCRZ", "CCX", "CCZ"].all (fun n =>
        match lookup Gen.conjTable n with
        | some e => e.2.2.1 == false && e.2.2.2.isEmpty
        | none => false) = true := by decide +kernel

/-- `C<G>` keeps the default `is_stabilizer` and `conjugate`; `Kron`, `Composite`, `Loop` override
both with the bodies the model mirrors (whitespace-free source text) -/
theorem combinator_bodies :
    Gen.conjCombinators =
      [("Composite", "all-subgates-claim", "conjugate"),
       ("C", "default-false", "default-error"),
       ("Kron", "g0-and-g1-claim", "conjugate"),
       ("Loop", "body-claims", "conjugate")] := by decide +kernel

end Q1t.Proofs.ConjPrim

import Q1t.Model.Gate
import Q1t.Spec.Place
import Batteries.Data.List.Perm
/-!
# `bit_permutation`: exhaustive kernel check for registers of up to 5 qubits

Fallback for the general theorem in `Q1t.Proofs.BitPerm`: a Bool-valued checker `bitPermOk`, an
enumerator `allTuples n` of **all** valid placements (`mem_allTuples`, general `n`), and
`bitPerm_finite`, proved by kernel evaluation over the whole enumeration for every `n ≤ 5`.
No Mathlib.
-/
namespace Q1t.Proofs.BitPerm
open Q1t Q1t.Spec Q1t.Gate

/-- `bitPermutation n bits` succeeds with a table `p` of `2^n` entries with
`p[gatherIndex n bits i] = i` for every `i < 2^n` -/
def bitPermOk (n : Nat) (bits : List Nat) : Bool :=
  match bitPermutation n bits with
  | none => false
  | some p => p.length == 2 ^ n &&
      (List.range (2 ^ n)).all fun i => p[gatherIndex n bits i]? == some i

/-- all duplicate-free lists over `range n` of length at most `k` -/
def tuples (n : Nat) : Nat → List (List Nat)
  | 0 => [[]]
  | k + 1 => [] :: (tuples n k).flatMap fun t =>
      ((List.range n).filter fun x => !t.contains x).map (· :: t)

/-- all ordered tuples of distinct elements of `range n`, every length `0..n` -/
def allTuples (n : Nat) : List (List Nat) := tuples n n

theorem nil_mem_tuples (n k : Nat) : [] ∈ tuples n k := by
  cases k <;> simp [tuples]

theorem mem_tuples (n : Nat) (bits : List Nat) (hlt : ∀ x ∈ bits, x < n) (hnd : bits.Nodup) :
    ∀ k, bits.length ≤ k → bits ∈ tuples n k := by
  induction bits with
  | nil => intro k _; exact nil_mem_tuples n k
  | cons x t ih =>
    intro k hk
    cases k with
    | zero => simp at hk
    | succ k =>
      have hnd' := List.nodup_cons.1 hnd
      have ht := ih (fun y hy => hlt y (by simp [hy])) hnd'.2 k (by simpa using hk)
      simp only [tuples, List.mem_cons, List.mem_flatMap, List.mem_map, List.mem_filter,
        List.mem_range]
      right
      exact ⟨t, ht, x, ⟨hlt x (by simp), by simpa using hnd'.1⟩, rfl⟩

theorem validBits_iff (n : Nat) (bits : List Nat) :
    validBits n bits = true ↔ (∀ x ∈ bits, x < n) ∧ bits.Nodup := by
  simp [validBits]

theorem validBits_length_le (n : Nat) (bits : List Nat) (hv : validBits n bits = true) :
    bits.length ≤ n := by
  obtain ⟨hlt, hnd⟩ := (validBits_iff n bits).1 hv
  have hsub : bits ⊆ List.range n := fun x hx => List.mem_range.2 (hlt x hx)
  simpa using (List.subperm_of_subset hnd hsub).length_le

theorem mem_allTuples {n : Nat} {bits : List Nat} (hv : validBits n bits = true) :
    bits ∈ allTuples n := by
  obtain ⟨hlt, hnd⟩ := (validBits_iff n bits).1 hv
  exact mem_tuples n bits hlt hnd n (validBits_length_le n bits hv)

theorem finite0 : (allTuples 0).all (bitPermOk 0) = true := by decide +kernel
theorem finite1 : (allTuples 1).all (bitPermOk 1) = true := by decide +kernel
theorem finite2 : (allTuples 2).all (bitPermOk 2) = true := by decide +kernel
theorem finite3 : (allTuples 3).all (bitPermOk 3) = true := by decide +kernel
theorem finite4 : (allTuples 4).all (bitPermOk 4) = true := by decide +kernel
theorem finite5 : (allTuples 5).all (bitPermOk 5) = true := by decide +kernel

/-- the whole quantifier `n ≤ 5`, all valid `bits`, by kernel evaluation -/
theorem bitPerm_finite : ∀ n, n ≤ 5 → ∀ bits, validBits n bits = true → bitPermOk n bits = true := by
  intro n hn bits hv
  have hm := mem_allTuples hv
  have key : (allTuples n).all (bitPermOk n) = true := by
    have : n = 0 ∨ n = 1 ∨ n = 2 ∨ n = 3 ∨ n = 4 ∨ n = 5 := by omega
    rcases this with h | h | h | h | h | h <;> subst h
    · exact finite0
    · exact finite1
    · exact finite2
    · exact finite3
    · exact finite4
    · exact finite5
  exact List.all_eq_true.1 key bits hm

end Q1t.Proofs.BitPerm

import Q1t.Proofs.CQasmEquivGates
set_option linter.unusedSimpArgs false
set_option linter.unusedSectionVars false
set_option linter.unusedVariables false
/-!
C12 (`cq_equiv_partial`), part 6: the remaining exact gates `CZ Swap CS CT CY CCX CCZ CU1` lifted like the others.
-/
namespace Q1t.Proofs.CQasm
open Q1t Q1t.Spec Q1t.Proofs.Route Q1t.CQ Q1t.Gen Q1t.OpenQasm Q1t.Proofs.Unitaries

variable {α P : Type} [CommRing α] [Amp α P]

theorem slines_table2 :
    slinesOfName "CZ" = some [⟨"cz".toList, [.q 0, .q 1]⟩] ∧
    slinesOfName "Swap" = some [⟨"swap".toList, [.q 0, .q 1]⟩] ∧
    slinesOfName "CS" = some [⟨"crk".toList, [.q 0, .q 1, .lit ['1']]⟩] ∧
    slinesOfName "CT" = some [⟨"crk".toList, [.q 0, .q 1, .lit ['2']]⟩] ∧
    slinesOfName "CY" = some [⟨"sdag".toList, [.q 1]⟩, cnotL 0 1, ⟨"s".toList, [.q 1]⟩] ∧
    slinesOfName "CCX" = some [⟨"toffoli".toList, [.q 0, .q 1, .q 2]⟩] ∧
    slinesOfName "CCZ" = some [⟨"h".toList, [.q 2]⟩, ⟨"toffoli".toList, [.q 0, .q 1, .q 2]⟩, ⟨"h".toList, [.q 2]⟩] ∧
    slinesOfName "CU1" = some [⟨"cr".toList, [.q 0, .q 1, .arg "lambda"]⟩] ∧
    paramsOfName "CU1" = ["lambda"] ∧
    (∀ nm ∈ ["CZ", "Swap", "CS", "CT", "CY", "CCX", "CCZ"], paramsOfName nm = []) := by decide +kernel

theorem lineApp_qs (nm : String) (ops : List SOp) (locs : List Nat) (M : LMat α) (ρ : Text → Option P)
    (hq : ops.all isQ = true) (hl : ops.filterMap locOf = locs)
    (h : gateMatrixV (α := α) (P := P) nm.toList [] = some M) :
    lineApp (α := α) ρ ⟨nm.toList, ops⟩ = some (locs, M) := by
  have : ops.filter (fun o => !isQ o) = [] := by
    rw [List.filter_eq_nil_iff]; intro o ho; simp [List.all_eq_true.mp hq o ho]
  simp [lineApp, this, h, hl]

/-! ### products on `k` qubits -/

theorem app2_swap : app2 [0, 1] (CQ1.mSwap : LMat α) I4 = CQ1.mSwap := by
  simp only [app2, I4, CQ1.mSwap, embed, agreeOff, subIndex, qbit, LMat.get, LMat.mul, LMat.transpose, LMat.dot,
    LMat.identity]
  simp [List.range_succ]

theorem prod_CZ : prodK 2 [([0, 1], (CQ1.mCz : LMat α))] = specMatrix (.CZ : GateTerm P) := by
  show app2 [0, 1] CQ1.mCz I4 = _
  rw [show (CQ1.mCz : LMat α) = bd2 1 0 0 1 1 0 0 (-1) by simp [CQ1.mCz, CQ1.mZ, ctrl_two], app2_both]
  simp [specMatrix, pauliZ, ctrl_two]

theorem prod_Swap : prodK 2 [([0, 1], (CQ1.mSwap : LMat α))] = specMatrix (.Swap : GateTerm P) := by
  show app2 [0, 1] CQ1.mSwap I4 = _
  rw [app2_swap]; rfl

theorem prod_cphase (k : α) (g : GateTerm P) (hg : (specMatrix g : LMat α) = [[1, 0], [0, k]]) :
    prodK 2 [([0, 1], (CQ1.mCPhase k : LMat α))] = specMatrix (.C g) := by
  show app2 [0, 1] (CQ1.mCPhase k) I4 = Spec.ctrl (specMatrix g)
  rw [mCPhase_bd, app2_both, hg, ctrl_two]

theorem prod_CY (h : LawfulAmp α P) :
    prodK 2 [([1], (CQ1.mSdag (P := P) : LMat α)), ([0, 1], CQ1.mCnot), ([1], CQ1.mS (P := P))] =
      specMatrix (.CY : GateTerm P) := by
  show app2 [1] (CQ1.mS (P := P)) (app2 [0, 1] CQ1.mCnot (app2 [1] (CQ1.mSdag (P := P)) I4)) = Spec.ctrl (pauliY (P := P))
  have hI := h.I_mul_I
  simp only [CQ1.mS, CQ1.mSdag, mCnot_bd, I4_eq, app2_cx', app2_target, pauliY, ctrl_two]
  refine bd2_ext ?_ ?_ ?_ ?_ ?_ ?_ ?_ ?_ <;> grind

/-- a three-qubit block-diagonal gate on all three qubits in order -/
theorem app3_all (p0 p1 p2 p3 q0 q1 q2 q3 r0 r1 r2 r3 s0 s1 s2 s3 a0 a1 a2 a3 b0 b1 b2 b3 c0 c1 c2 c3 d0 d1 d2 d3 : α) :
    app3 [0, 1, 2] (bd4 p0 p1 p2 p3 q0 q1 q2 q3 r0 r1 r2 r3 s0 s1 s2 s3) (bd4 a0 a1 a2 a3 b0 b1 b2 b3 c0 c1 c2 c3 d0 d1 d2 d3) =
      bd4 (p0 * a0 + p1 * a2) (p0 * a1 + p1 * a3) (p2 * a0 + p3 * a2) (p2 * a1 + p3 * a3)
          (q0 * b0 + q1 * b2) (q0 * b1 + q1 * b3) (q2 * b0 + q3 * b2) (q2 * b1 + q3 * b3)
          (r0 * c0 + r1 * c2) (r0 * c1 + r1 * c3) (r2 * c0 + r3 * c2) (r2 * c1 + r3 * c3)
          (s0 * d0 + s1 * d2) (s0 * d1 + s1 * d3) (s2 * d0 + s3 * d2) (s2 * d1 + s3 * d3) := by
  simp only [app3, bd4, embed, agreeOff, subIndex, qbit, LMat.get, LMat.mul, LMat.transpose, LMat.dot]
  simp [List.range_succ]

theorem mToffoli_bd : (CQ1.mToffoli : LMat α) = bd4 1 0 0 1 1 0 0 1 1 0 0 1 0 1 1 0 := by
  simp [CQ1.mToffoli, CQ1.mX, ctrl_two, ctrl_bd2]

theorem prod_CCX : prodK 3 [([0, 1, 2], (CQ1.mToffoli : LMat α))] = specMatrix (.C .CX : GateTerm P) := by
  show app3 [0, 1, 2] CQ1.mToffoli I8 = Spec.ctrl (Spec.ctrl pauliX)
  rw [mToffoli_bd, I8_eq, app3_all]
  simp only [pauliX, ctrl_two, ctrl_bd2]
  refine bd4_ext ?_ ?_ ?_ ?_ ?_ ?_ ?_ ?_ ?_ ?_ ?_ ?_ ?_ ?_ ?_ ?_ <;> simp

theorem prod_CCZ (h : LawfulAmp α P) :
    prodK 3 [([2], (CQ1.mH (P := P) : LMat α)), ([0, 1, 2], CQ1.mToffoli), ([2], CQ1.mH (P := P))] =
      specMatrix (.C .CZ : GateTerm P) := by
  show app3 [2] (CQ1.mH (P := P)) (app3 [0, 1, 2] CQ1.mToffoli (app3 [2] (CQ1.mH (P := P)) I8)) =
    Spec.ctrl (Spec.ctrl pauliZ)
  have h1 := h.hsqrt2_mul_self
  have h2 := h.half_add_half
  rw [show (CQ1.mH (P := P) : LMat α) = [[Amp.hsqrt2 P * 1, Amp.hsqrt2 P * 1], [Amp.hsqrt2 P * 1, Amp.hsqrt2 P * -1]] from rfl]
  simp only [mToffoli_bd, I8_eq, app3_target, app3_all, pauliZ, ctrl_two, ctrl_bd2]
  refine bd4_ext ?_ ?_ ?_ ?_ ?_ ?_ ?_ ?_ ?_ ?_ ?_ ?_ ?_ ?_ ?_ ?_ <;> grind

/-- the second batch of exact gates -/
def exactGates2 : List String := ["CZ", "Swap", "CS", "CT", "CY", "CCX", "CCZ", "CU1"]

theorem exact_gate2 (h : LawfulAmp α P) (name : String) (hname : name ∈ exactGates2) (vals : List P)
    (hvals : vals.length = (paramsOfName name).length) :
    ∃ (apps : List (List Nat × LMat α)) (term : GateTerm P),
      exactDenot (α := α) name vals = some apps ∧ CQ.libTerm name vals = some term ∧
      (apps.map (·.1)).all (fun l => validBits (libBits name) l) = true ∧ prodK (libBits name) apps = specMatrix term := by
  obtain ⟨s1, s2, s3, s4, s5, s6, s7, s8, p8, pc⟩ := slines_table2
  simp only [exactGates2, List.mem_cons, List.mem_nil_iff, or_false] at hname
  rcases hname with rfl | rfl | rfl | rfl | rfl | rfl | rfl | rfl
  · have hv : vals = [] := by rw [pc _ (by decide)] at hvals; simpa using hvals
    subst hv
    refine ⟨_, .CZ, ?_, rfl, ?_, prod_CZ⟩
    · rw [exactDenot, s1]; exact linesApps_cons _ _ _ _ _ (lineApp_qs "cz" [.q 0, .q 1] [0, 1] CQ1.mCz _ rfl rfl rfl) rfl
    · simp [validBits, libBits]
  · have hv : vals = [] := by rw [pc _ (by decide)] at hvals; simpa using hvals
    subst hv
    refine ⟨_, .Swap, ?_, rfl, ?_, prod_Swap⟩
    · rw [exactDenot, s2]; exact linesApps_cons _ _ _ _ _ (lineApp_qs "swap" [.q 0, .q 1] [0, 1] CQ1.mSwap _ rfl rfl rfl) rfl
    · simp [validBits, libBits]
  · have hv : vals = [] := by rw [pc _ (by decide)] at hvals; simpa using hvals
    subst hv
    refine ⟨[([0, 1], CQ1.mCPhase (Amp.I P))], .C .S, ?_, rfl, ?_, prod_cphase _ .S (by simp [specMatrix])⟩
    · rw [exactDenot, s3]; simp [linesApps, lineApp, isQ, locOf, opVal, gateMatrixV]
    · simp [validBits, libBits]
  · have hv : vals = [] := by rw [pc _ (by decide)] at hvals; simpa using hvals
    subst hv
    refine ⟨[([0, 1], CQ1.mCPhase (Amp.zeta8 P))], .C .T, ?_, rfl, ?_, prod_cphase _ .T (by simp [specMatrix])⟩
    · rw [exactDenot, s4]; simp [linesApps, lineApp, isQ, locOf, opVal, gateMatrixV]
    · simp [validBits, libBits]
  · have hv : vals = [] := by rw [pc _ (by decide)] at hvals; simpa using hvals
    subst hv
    refine ⟨_, .CY, ?_, rfl, ?_, prod_CY h⟩
    · rw [exactDenot, s5]
      exact linesApps_cons _ _ _ _ _ (lineApp_q "sdag" 1 _ _ rfl)
        (linesApps_cons _ _ _ _ _ (lineApp_cnot 0 1 _) (linesApps_cons _ _ _ _ _ (lineApp_q "s" 1 _ _ rfl) rfl))
    · simp [validBits, libBits]
  · have hv : vals = [] := by rw [pc _ (by decide)] at hvals; simpa using hvals
    subst hv
    refine ⟨_, .C .CX, ?_, rfl, ?_, prod_CCX⟩
    · rw [exactDenot, s6]; exact linesApps_cons _ _ _ _ _ (lineApp_qs "toffoli" [.q 0, .q 1, .q 2] [0, 1, 2] CQ1.mToffoli _ rfl rfl rfl) rfl
    · simp [validBits, libBits]
  · have hv : vals = [] := by rw [pc _ (by decide)] at hvals; simpa using hvals
    subst hv
    refine ⟨_, .C .CZ, ?_, rfl, ?_, prod_CCZ h⟩
    · rw [exactDenot, s7]
      exact linesApps_cons _ _ _ _ _ (lineApp_q "h" 2 _ _ rfl)
        (linesApps_cons _ _ _ _ _ (lineApp_qs "toffoli" [.q 0, .q 1, .q 2] [0, 1, 2] CQ1.mToffoli _ rfl rfl rfl)
          (linesApps_cons _ _ _ _ _ (lineApp_q "h" 2 _ _ rfl) rfl))
    · simp [validBits, libBits]
  · rw [p8] at hvals
    match vals, hvals with
    | [l], _ =>
      refine ⟨[([0, 1], CQ1.mCPhase (Amp.cos l + Amp.I P * Amp.sin l))], .C (.U1 l), ?_, rfl, ?_,
        prod_cphase _ (.U1 l) (by simp [specMatrix, expi])⟩
      · rw [exactDenot, s8, p8]
        have hρ : rhoOf ["lambda"] [l] ['l', 'a', 'm', 'b', 'd', 'a'] = some l := rhoOf_single "lambda" l
        simp [linesApps, lineApp, isQ, locOf, opVal, gateMatrixV, hρ]
      · simp [validBits, libBits]

end Q1t.Proofs.CQasm

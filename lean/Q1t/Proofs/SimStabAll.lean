import Q1t.Proofs.SimStabRefine
/-!
C02, stabilizer backend: `measure_all` (qubit by qubit: `measure_into(q, cbits[q])` for `q = 0, 1, …`; no length
check in the code, so the statement requires `cbits.length = n`), all bases, relative to the tableau contract.
-/
set_option linter.unusedSectionVars false
namespace Q1t.Sim
open Q1t Q1t.Spec Prog Q1t.Tableau

/-- the word after writing outcome `os[j]` into bit `L[j].1`, in order -/
def writeSeq (w : Nat) (L : List (Nat × Nat)) (os : List Bool) : Nat :=
  (L.zip os).foldl (fun w x => setBitTo w x.1.1 x.2) w

theorem writeSeq_lt : ∀ (L : List (Nat × Nat)) (os : List Bool) (w : Nat), w < 2 ^ 64 → (∀ x ∈ L, x.1 < 64) →
    writeSeq w L os < 2 ^ 64 := by
  intro L
  induction L with
  | nil => intro os w hw _; simpa [writeSeq] using hw
  | cons x L ih =>
    intro os w hw hL
    cases os with
    | nil => simpa [writeSeq] using hw
    | cons o os =>
      simp only [writeSeq, List.zip_cons_cons, List.foldl_cons]
      exact ih os _ (setBitTo_spec o hw (hL x List.mem_cons_self)).1 (fun y hy => hL y (List.mem_cons_of_mem _ hy))

theorem writeSeq_testBit_other : ∀ (L : List (Nat × Nat)) (os : List Bool) (w p : Nat), w < 2 ^ 64 →
    (∀ x ∈ L, x.1 < 64) → p ∉ L.map (·.1) → (writeSeq w L os).testBit p = w.testBit p := by
  intro L
  induction L with
  | nil => intro os w p _ _ _; simp [writeSeq]
  | cons x L ih =>
    intro os w p hw hL hp
    cases os with
    | nil => simp [writeSeq]
    | cons o os =>
      simp only [List.map_cons, List.mem_cons, not_or] at hp
      have hx := hL x List.mem_cons_self
      obtain ⟨h1, h2⟩ := setBitTo_spec o hw hx
      have := ih os (setBitTo w x.1 o) p h1 (fun y hy => hL y (List.mem_cons_of_mem _ hy)) hp.2
      simp only [writeSeq, List.zip_cons_cons, List.foldl_cons] at this ⊢
      rw [this, h2, if_neg hp.1]

/-- with distinct targets below 64, bit `L[j].1` of the final word is the `j`-th outcome -/
theorem writeSeq_bit : ∀ (L : List (Nat × Nat)) (os : List Bool) (w : Nat), w < 2 ^ 64 → (∀ x ∈ L, x.1 < 64) →
    (L.map (·.1)).Nodup → ∀ (j : Nat) (x : Nat × Nat) (o : Bool), L[j]? = some x → os[j]? = some o →
    bitOf (writeSeq w L os) x.1 = o := by
  intro L
  induction L with
  | nil => intro os w _ _ _ j x o hx; simp at hx
  | cons y L ih =>
    intro os w hw hL hnd j x o hx ho
    cases os with
    | nil => simp at ho
    | cons o0 os =>
      simp only [List.map_cons, List.nodup_cons] at hnd
      have hy := hL y List.mem_cons_self
      obtain ⟨h1, h2⟩ := setBitTo_spec o0 hw hy
      have hL' : ∀ z ∈ L, z.1 < 64 := fun z hz => hL z (List.mem_cons_of_mem _ hz)
      cases j with
      | zero =>
        simp only [List.getElem?_cons_zero, Option.some.injEq] at hx ho
        subst hx ho
        rw [bitOf_eq_testBit]
        have := writeSeq_testBit_other L os (setBitTo w y.1 o0) y.1 h1 hL' hnd.1
        simp only [writeSeq, List.zip_cons_cons, List.foldl_cons] at this ⊢
        rw [this, h2, if_pos rfl]
      | succ j =>
        simp only [List.getElem?_cons_succ] at hx ho
        have := ih os (setBitTo w y.1 o0) h1 hL' hnd.2 j x o hx ho
        simpa only [writeSeq, List.zip_cons_cons, List.foldl_cons] using this

/-- a fold over `cs.zipIdx k` zipped with `os` is the fold over the indices `k, k+1, …` -/
theorem foldl_zipIdx_range' {β : Type} (F : β → Nat → Nat → Bool → β) (cb : Nat → Nat) (o : Nat → Bool) :
    ∀ (cs : List Nat) (os : List Bool) (k : Nat) (a : β), os.length = cs.length →
    (∀ j (h : j < cs.length), cs[j] = cb (k + j)) → (∀ j (h : j < os.length), os[j] = o (k + j)) →
    ((cs.zipIdx k).zip os).foldl (fun acc x => F acc x.1.1 x.1.2 x.2) a =
      (List.range' k cs.length).foldl (fun acc q => F acc (cb q) q (o q)) a := by
  intro cs
  induction cs with
  | nil => intro os k a _ _ _; simp
  | cons c cs ih =>
    intro os k a hlen hc ho
    cases os with
    | nil => simp at hlen
    | cons o0 os =>
      simp only [List.zipIdx_cons, List.zip_cons_cons, List.foldl_cons, List.length_cons, List.range'_succ]
      have e1 : c = cb k := by
        have := hc 0 (by simp)
        rwa [List.getElem_cons_zero, Nat.add_zero] at this
      have e2 : o0 = o k := by
        have := ho 0 (by simp)
        rwa [List.getElem_cons_zero, Nat.add_zero] at this
      rw [e1, e2]
      apply ih os (k + 1) _ (by simpa using hlen)
      · intro j h
        have := hc (j + 1) (by simp; omega)
        simp only [List.getElem_cons_succ] at this
        rw [this]; congr 1; omega
      · intro j h
        have := ho (j + 1) (by simp; omega)
        simp only [List.getElem_cons_succ] at this
        rw [this]; congr 1; omega

section
variable {α P : Type} [CommRing α] [Amp α P] [SimAmp α]
variable {sb : Nat → α → Nat → Prop} {sc : List α → Nat → Prop}
variable {half : α} {ph : List Nat} {conjOf : GateTerm P → Tab.Conj}
variable {n : Nat} {valid : GateTerm P → List Nat → Prop} {nz : α → Prop} {St : Tab → List α → Prop}

/-- the projectors of the outcomes `os[j]` on the qubits `L[j].2`, in order -/
def projSeq (n : Nat) (ψ : List α) (L : List (Nat × Nat)) (os : List Bool) : List α :=
  (L.zip os).foldl (fun φ x => project n x.1.2 x.2 φ) ψ

/-- the per-shot reading of the qubit-by-qubit loop of the stabilizer `measure_all_into` -/
theorem stab_measureAll_fold (hT : TableauOK St n ph conjOf valid) {N : Nat} : ∀ (L : List (Nat × Nat))
    (acc : Prog α (StabState × List Nat)) (ds ds' : List Draw) (s' : StabState) (c' : List Nat),
    Runs sb sc (L.foldl (fun acc (cq : Nat × Nat) => acc.bind fun (sr : StabState × List Nat) =>
      StabState.measureInto half ph sr.1 cq.2 cq.1 sr.2) acc) ds (.ok (s', c')) ds' →
    ∃ s0 c0 d0, Runs sb sc acc ds (.ok (s0, c0)) d0 ∧ (WFT n N s0 c0 → WFT n N s' c' ∧ (∀ x ∈ L, x.1 < 64) ∧
      ∀ (i : Nat) (t : Tab) (w : Nat) (ψ : List α), (shotTabs s0)[i]? = some t → c0[i]? = some w → St t ψ →
        ∃ os t', os.length = L.length ∧ c'[i]? = some (writeSeq w L os) ∧ (shotTabs s')[i]? = some t' ∧
          St t' (projSeq n ψ L os)) := by
  intro L
  induction L with
  | nil =>
    intro acc ds ds' s' c' h
    exact ⟨s', c', ds', h, fun hw => ⟨hw, by simp, fun i t w ψ ht hw' hst =>
      ⟨[], t, rfl, by simpa [writeSeq] using hw', ht, by simpa [projSeq] using hst⟩⟩⟩
  | cons cq rest ih =>
    intro acc ds ds' s' c' h
    simp only [List.foldl_cons] at h
    obtain ⟨s1, c1, d1, h1, himp⟩ := ih _ _ _ _ _ h
    obtain ⟨⟨s0, c0⟩, d0, h0, hm⟩ := runs_bind_ok _ _ h1
    refine ⟨s0, c0, d0, h0, fun hw0 => ?_⟩
    obtain ⟨_, hcb, hw1, hs⟩ := stab_measure_core hT hw0 hm
    obtain ⟨hw', hL, hs'⟩ := himp hw1
    refine ⟨hw', ?_, fun i t w ψ ht hw hst => ?_⟩
    · intro x hx
      rcases List.mem_cons.mp hx with rfl | hx
      · exact hcb
      · exact hL x hx
    · obtain ⟨o, t1, hr, ht1, hst1⟩ := hs i t w ψ ht hw hst
      obtain ⟨os, t', hlen, hc', ht', hst'⟩ := hs' i t1 _ _ ht1 hr hst1
      exact ⟨o :: os, t', by simp [hlen], by simpa [writeSeq] using hc', ht', by simpa [projSeq] using hst'⟩

/-- the reference side: the word written qubit by qubit is what `Spec.replayOp` expects, and the projectors agree -/
theorem seq_matches_spec (cbits : List Nat) (hc : ∀ b ∈ cbits, b < 64) (hnd : cbits.Nodup) (hlen : cbits.length = n)
    (w : Nat) (hw : w < 2 ^ 64) (os : List Bool) (hos : os.length = n) (ψ : List α) :
    (List.range n).foldl (fun acc q => writeBit acc (cbits.getD q 0)
      (bitOf (writeSeq w cbits.zipIdx os) (cbits.getD q 0))) w = writeSeq w cbits.zipIdx os ∧
    measureAllTo (P := P) n .Z (fun q => bitOf (writeSeq w cbits.zipIdx os) (cbits.getD q 0)) ψ =
      projSeq n ψ cbits.zipIdx os := by
  have hL : ∀ x ∈ cbits.zipIdx, x.1 < 64 := fun x hx =>
    hc x.1 (List.mem_iff_getElem?.mpr ⟨x.2, List.mem_zipIdx_iff_getElem?.mp hx⟩)
  have hmap : cbits.zipIdx.map (·.1) = cbits := by simp
  have hbit : ∀ q, q < n → bitOf (writeSeq w cbits.zipIdx os) (cbits.getD q 0) = os.getD q false := by
    intro q hq
    have hq1 : q < cbits.length := hlen ▸ hq
    have hq2 : q < os.length := hos ▸ hq
    have := writeSeq_bit cbits.zipIdx os w hw hL (by rw [hmap]; exact hnd) q (cbits[q], q) os[q]
      (by simp [hq1]) (by simp [hq2])
    simpa [List.getD_eq_getElem?_getD, hq1, hq2] using this
  have hcs : ∀ j (h : j < cbits.length), cbits[j] = (fun q => cbits.getD q 0) (0 + j) := by
    intro j h; simp [List.getD_eq_getElem?_getD, h]
  have hoo : ∀ j (h : j < os.length), os[j] = (fun q => os.getD q false) (0 + j) := by
    intro j h; simp [List.getD_eq_getElem?_getD, h]
  constructor
  · have e := foldl_zipIdx_range' (fun (acc : Nat) cb _ o => setBitTo acc cb o) (fun q => cbits.getD q 0)
      (fun q => os.getD q false) cbits os 0 w (by omega) hcs hoo
    have hE : writeSeq w cbits.zipIdx os =
        (List.range n).foldl (fun acc q => setBitTo acc (cbits.getD q 0) (os.getD q false)) w := by
      rw [writeSeq, e, hlen, ← List.range_eq_range']
    refine Eq.trans ?_ hE.symm
    apply List.foldl_ext
    intro acc q hq
    rw [hbit q (List.mem_range.mp hq)]
    rfl
  · have e := foldl_zipIdx_range' (fun (acc : List α) _ q o => project n q o acc) (fun q => cbits.getD q 0)
      (fun q => os.getD q false) cbits os 0 ψ (by omega) hcs hoo
    have hE : projSeq n ψ cbits.zipIdx os =
        (List.range n).foldl (fun acc q => project n q (os.getD q false) acc) ψ := by
      rw [projSeq, e, hlen, ← List.range_eq_range']
    refine Eq.trans ?_ hE.symm
    show (List.range n).foldl (fun φ q => project n q (bitOf (writeSeq w cbits.zipIdx os) (cbits.getD q 0)) φ) ψ = _
    apply List.foldl_ext
    intro acc q hq
    rw [hbit q (List.mem_range.mp hq)]

/-! ### the basis change of all qubits, per shot -/

theorem stab_foldl_applyGate (hT : TableauOK St n ph conjOf valid) {N : Nat} (g : GateTerm P) : ∀ (bitsL : List Nat),
    (∀ bit ∈ bitsL, valid g [bit]) →
    ∀ (acc : Prog α StabState) (ds ds' : List Draw) (s' : StabState),
    Runs sb sc (bitsL.foldl (fun acc bit => acc.bind fun st => StabState.applyGate (α := α) ph conjOf st g [bit]) acc)
      ds (.ok s') ds' →
    ∃ s0 d0, Runs sb sc acc ds (.ok s0) d0 ∧ ∀ c, WFT n N s0 c → WFT n N s' c ∧
      ∀ (i : Nat) (t : Tab) (ψ : List α), (shotTabs s0)[i]? = some t → St t ψ →
        ∃ t', (shotTabs s')[i]? = some t' ∧ St t' (bitsL.foldl (fun v q => gateOn n g [q] v) ψ) := by
  intro bitsL
  induction bitsL with
  | nil =>
    intro _ acc ds ds' s' h
    exact ⟨s', ds', h, fun c hw => ⟨hw, fun i t ψ ht hst => ⟨t, ht, hst⟩⟩⟩
  | cons bit rest ih =>
    intro hv acc ds ds' s' h
    simp only [List.foldl_cons] at h
    obtain ⟨s1, d1, h1, himp⟩ := ih (fun b hb => hv b (List.mem_cons_of_mem _ hb)) _ _ _ _ h
    obtain ⟨s0, d0, h0, hg⟩ := runs_bind_ok _ _ h1
    refine ⟨s0, d0, h0, fun c hw => ?_⟩
    obtain ⟨w1, g1⟩ := stab_gate_step hT (hv bit List.mem_cons_self) hw hg
    obtain ⟨w2, g2⟩ := himp c w1
    refine ⟨w2, fun i t ψ ht hst => ?_⟩
    obtain ⟨t1, ht1, hst1⟩ := g1 i t ψ ht hst
    exact g2 i t1 _ ht1 hst1

theorem stab_applyUnaryAll (hT : TableauOK St n ph conjOf valid) {N : Nat} {g : GateTerm P}
    (hv : ∀ q, q < n → valid g [q]) {s s' : StabState} {c : List Nat} (hwf : WFT n N s c) {ds ds' : List Draw}
    (h : Runs sb sc (StabState.applyUnaryAll (α := α) ph conjOf s g) ds (.ok s') ds') :
    WFT n N s' c ∧ ∀ (i : Nat) (t : Tab) (ψ : List α), (shotTabs s)[i]? = some t → St t ψ →
      ∃ t', (shotTabs s')[i]? = some t' ∧ St t' (unaryAll n g ψ) := by
  unfold StabState.applyUnaryAll at h
  obtain ⟨s0, d0, h0, himp⟩ := stab_foldl_applyGate (N := N) hT g (List.range s.nrBits)
    (fun bit hbit => hv bit (hwf.nrBits ▸ List.mem_range.mp hbit)) _ _ _ _ h
  obtain ⟨e, _⟩ := runs_pure_iff.mp h0
  simp only [Except.ok.injEq] at e
  subst e
  obtain ⟨w1, g1⟩ := himp c hwf
  refine ⟨w1, fun i t ψ ht hst => ?_⟩
  obtain ⟨t', ht', hst'⟩ := g1 i t ψ ht hst
  exact ⟨t', ht', by rw [hwf.nrBits] at hst'; exact hst'⟩

theorem stab_withBasisAll (hT : TableauOK St n ph conjOf valid) {N : Nat} {s : StabState} {c : List Nat}
    {b : Basis} {body : StabState → Prog α (StabState × List Nat)} (hwf : WFT n N s c)
    {ds ds' : List Draw} {s' : StabState} {r : List Nat}
    (h : Runs sb sc (withBasisAll (stabBackend half ph conjOf) s b body) ds (.ok (s', r)) ds') :
    ∃ s1 d1 s2 d2, WFT n N s1 c ∧
      (∀ (i : Nat) (t : Tab) (ψ : List α), (shotTabs s)[i]? = some t → St t ψ →
        ∃ t1, (shotTabs s1)[i]? = some t1 ∧ St t1 (preAll (P := P) n b ψ)) ∧
      Runs sb sc (body s1) d1 (.ok (s2, r)) d2 ∧
      ∀ c2, WFT n N s2 c2 → WFT n N s' c2 ∧
        ∀ (i : Nat) (t : Tab) (ψ : List α), (shotTabs s2)[i]? = some t → St t ψ →
          ∃ t', (shotTabs s')[i]? = some t' ∧ St t' (postAll (P := P) n b ψ) := by
  have hb := withBasisAll_runs _ h
  have hH : ∀ q, q < n → valid (.H : GateTerm P) [q] := fun q hq => (hT.basis q hq).1
  have hS : ∀ q, q < n → valid (.S : GateTerm P) [q] := fun q hq => (hT.basis q hq).2.1
  have hSd : ∀ q, q < n → valid (.Sdg : GateTerm P) [q] := fun q hq => (hT.basis q hq).2.2
  cases b with
  | Z =>
    exact ⟨s, ds, s', ds', hwf, fun i t ψ ht hst => ⟨t, ht, hst⟩, hb,
      fun c2 h2 => ⟨h2, fun i t ψ ht hst => ⟨t, ht, hst⟩⟩⟩
  | X =>
    obtain ⟨s1, d1, s2, d2, h1, h2, h3⟩ := hb
    simp only [stabBackend] at h1 h3
    obtain ⟨w1, g1⟩ := stab_applyUnaryAll hT hH hwf h1
    exact ⟨s1, d1, s2, d2, w1, g1, h2, fun c2 w2 => stab_applyUnaryAll hT hH w2 h3⟩
  | Y =>
    obtain ⟨sa, da, s1, d1, s2, d2, sz, dz, ha', h1, h2, h3, h4⟩ := hb
    simp only [stabBackend] at ha' h1 h3 h4
    obtain ⟨wa, ga⟩ := stab_applyUnaryAll hT hSd hwf ha'
    obtain ⟨w1, g1⟩ := stab_applyUnaryAll hT hH wa h1
    refine ⟨s1, d1, s2, d2, w1, fun i t ψ ht hst => ?_, h2, fun c2 w2 => ?_⟩
    · obtain ⟨ta, hta, hsta⟩ := ga i t ψ ht hst
      exact g1 i ta _ hta hsta
    · obtain ⟨wz, gz⟩ := stab_applyUnaryAll hT hH w2 h3
      obtain ⟨w4, g4⟩ := stab_applyUnaryAll hT hS wz h4
      refine ⟨w4, fun i t ψ ht hst => ?_⟩
      obtain ⟨tz, htz, hstz⟩ := gz i t ψ ht hst
      exact g4 i tz _ htz hstz

theorem stab_refine_measureAll (hT : TableauOK St n ph conjOf valid) {nonzero : List α → Bool} {N : Nat}
    {s : StabState} {c cbits : List Nat} {b : Basis} (hnd : cbits.Nodup) (hlen : cbits.length = n)
    (hwf : WFT n N s c) {ds ds' : List Draw} {s' : StabState} {c' : List Nat}
    (h : Runs sb sc (execOp (stabBackend half ph conjOf) s c (.measureAll cbits b)) ds (.ok (s', c')) ds') :
    WFT n N s' c' ∧ StabStepRefines St n nonzero (.measureAll cbits b : COp P) s c s' c' := by
  simp only [execOp] at h
  obtain ⟨s1, d1, s2, d2, w1, g1, hbody, hpost⟩ := stab_withBasisAll hT hwf h
  simp only [stabBackend, StabState.measureAllInto] at hbody
  split at hbody
  · exact absurd hbody runs_err_ok
  split at hbody
  · exact absurd hbody runs_err_ok
  obtain ⟨s0, c0, d0, h0, himp⟩ := stab_measureAll_fold (N := N) hT cbits.zipIdx _ _ _ _ _ hbody
  obtain ⟨e, _⟩ := runs_pure_iff.mp h0
  simp only [Except.ok.injEq, Prod.mk.injEq] at e
  obtain ⟨rfl, rfl⟩ := e
  obtain ⟨w2, hL, hs⟩ := himp w1
  obtain ⟨w3, g3⟩ := hpost c' w2
  have hcb : ∀ x ∈ cbits, x < 64 := fun x hx => by
    obtain ⟨j, hj⟩ := List.mem_iff_getElem?.mp hx
    exact hL (x, j) (List.mem_zipIdx_iff_getElem?.mpr hj)
  refine ⟨w3, fun i t w ψ ht hw hwb hst => ?_⟩
  obtain ⟨t1, ht1, hst1⟩ := g1 i t ψ ht hst
  obtain ⟨os, t2, hos, hr, ht2, hst2⟩ := hs i t1 w _ ht1 hw hst1
  obtain ⟨t3, ht3, hst3⟩ := g3 i t2 _ ht2 hst2
  have hos' : os.length = n := by rw [hos, List.length_zipIdx, hlen]
  obtain ⟨m1, m2⟩ := seq_matches_spec (P := P) cbits hcb hnd hlen w hwb os hos' (preAll (P := P) n b ψ)
  refine ⟨t3, _, measureAllTo (P := P) n b (fun q => bitOf (writeSeq w cbits.zipIdx os) (cbits.getD q 0)) ψ, ht3, hr,
    writeSeq_lt _ _ _ hwb hL, ?_, ?_⟩
  · simp only [replayOp]
    rw [if_pos m1]
    exact List.mem_singleton.mpr rfl
  · rw [measureAllTo_basis, m2]
    exact hst3

end
end Q1t.Sim

import Q1t.Proofs.CQasmTextClass
import Q1t.Proofs.CQasmWFWitness
import Q1t.Proofs.CQasmComplex
set_option linter.unusedSimpArgs false
set_option linter.unusedVariables false
/-!
C12 (text link): non-vacuity.  `ReadsBack` is satisfiable over the complex numbers: the one-number printer `unitNum`
(every number is printed `1`), read as the angle `0`; every evaluated hole of every good template has one of the shapes
that `holeVal` reads (kernel-checked over the generated table), and with all parameters `0` its value is `0`.
-/
noncomputable section
namespace Q1t.AmpComplex
open Q1t Q1t.CQ Q1t.Gen Q1t.Proofs.CQasm

/-- every literal is read as the angle `0`; `crk 1`, `crk 2` are `i`, `e^{iπ/4}` -/
def S0 : CQ1.NumSem ℂ ℝ where
  angle := fun _ => some 0
  rk := fun k => if k = 1 then some (Amp.I ℝ) else if k = 2 then some (Amp.zeta8 ℝ) else none

/-- the hole shapes that `holeVal` reads -/
def holeShapeOK : List Tok → Bool
  | [.lit t, .var _] =>
      t == "-0.25 * ".toList || t == "0.25 * ".toList || t == "-0.5 * ".toList || t == "0.5 * ".toList
  | [.lit t, .var _, .lit m, .var _, .lit e] =>
      (t == "0.5 * (".toList && m == ['-'] && e == [')']) || (t == "-0.5 * (".toList && m == ['+'] && e == [')']) ||
      (t == "0.5 * (".toList && m == " + ".toList && e == [')'])
  | _ => false

def tableHoleShapes : Bool :=
  cqGates.all fun g => !gateGood g || (slinesOf g).all fun l => l.ops.all fun o =>
    match o with
    | .hole inner => holeShapeOK inner
    | _ => true

theorem tableHoleShapes_true : tableHoleShapes = true := by decide +kernel

theorem holeVal_zero (inner : List Tok) (hs : holeShapeOK inner = true) (ρ : Text → Option Unit)
    (hc : ∀ key, Tok.var key ∈ inner → (ρ key).isSome = true) :
    holeVal (α := ℂ) (fun key => (ρ key).map fun _ => (0 : ℝ)) inner = some 0 := by
  have hz : ∀ key, Tok.var key ∈ inner → (ρ key).map (fun _ => (0 : ℝ)) = some 0 := by
    intro key hk
    have := hc key hk
    cases h : ρ key with
    | none => rw [h] at this; cases this
    | some _ => rfl
  unfold holeShapeOK at hs
  split at hs
  · rename_i t a
    have ha := hz a (by simp)
    simp only [Bool.or_eq_true, beq_iff_eq] at hs
    have h0 : Amp.pneg ℂ (Amp.phalf ℂ (Amp.phalf ℂ (0 : ℝ))) = 0 := by show -((0 : ℝ) / 2 / 2) = 0; norm_num
    have h1 : Amp.phalf ℂ (Amp.phalf ℂ (0 : ℝ)) = 0 := by show (0 : ℝ) / 2 / 2 = 0; norm_num
    have h2 : Amp.pneg ℂ (Amp.phalf ℂ (0 : ℝ)) = 0 := by show -((0 : ℝ) / 2) = 0; norm_num
    have h3 : Amp.phalf ℂ (0 : ℝ) = 0 := by show (0 : ℝ) / 2 = 0; norm_num
    have h4 : Amp.pneg ℂ (0 : ℝ) = 0 := by show -(0 : ℝ) = 0; norm_num
    rcases hs with ((rfl | rfl) | rfl) | rfl <;> simp [holeVal, ha, h0, h1, h2, h3, h4]
  · rename_i t a m b e
    have ha := hz a (by simp)
    have hb := hz b (by simp)
    simp only [Bool.or_eq_true, Bool.and_eq_true, beq_iff_eq] at hs
    have h0 : Amp.phalf ℂ (Amp.padd ℂ (0 : ℝ) (Amp.pneg ℂ (0 : ℝ))) = 0 := by show ((0 : ℝ) + -0) / 2 = 0; norm_num
    have h1 : Amp.pneg ℂ (Amp.phalf ℂ (Amp.padd ℂ (0 : ℝ) (0 : ℝ))) = 0 := by show -(((0 : ℝ) + 0) / 2) = 0; norm_num
    have h2 : Amp.phalf ℂ (Amp.padd ℂ (0 : ℝ) (0 : ℝ)) = 0 := by show ((0 : ℝ) + 0) / 2 = 0; norm_num
    have h4 : Amp.pneg ℂ (0 : ℝ) = 0 := by show -(0 : ℝ) = 0; norm_num
    rcases hs with (⟨⟨rfl, rfl⟩, rfl⟩ | ⟨⟨rfl, rfl⟩, rfl⟩) | ⟨⟨rfl, rfl⟩, rfl⟩ <;> simp [holeVal, ha, hb, h0, h1, h2, h4]
  · cases hs

/-- **`ReadsBack` is satisfiable** -/
theorem readsBack_unit : ReadsBack (α := ℂ) unitNum S0 (fun _ => (0 : ℝ)) where
  good := unitNum_good
  disp_reads := fun _ => ⟨⟨false, ['1'], true⟩, (by decide : CQ1.parseArg ['1'] = some (.num ⟨false, ['1'], true⟩)), rfl⟩
  holes_value := by
    intro g hg hgg l hl inner hin ρ hρ
    obtain ⟨y, hy⟩ := unitNum_good.holes g hg hgg l hl inner hin ρ hρ
    refine ⟨y, hy, ?_⟩
    have h := tableHoleShapes_true
    simp only [tableHoleShapes, List.all_eq_true, Bool.or_eq_true, Bool.not_eq_true'] at h
    have h1 := (h g hg).resolve_left (by simp [hgg]) l hl (.hole inner) hin
    exact holeVal_zero inner h1 ρ hρ
  crk := ⟨rfl, rfl⟩

/-- a circuit of the class: one-line and multi-line parametrised gates, a bundle, a loop around a bundle and a
composite, conditional bundles / loops / phase gates on one and two control bits, measurements, `measure_all` -/
def textSample : XCircuit Unit :=
  ⟨3, 3, [.gate (.lib "H" []) [0], .gate (.lib "CRX" [.direct ()]) [2, 0], .gate (.lib "CU3" [.direct (), .direct (), .direct ()]) [0, 1],
    .measure 0 0 .Z, .measure 1 1 .Y,
    .cond [0] 1 (.kron (.lib "T" []) (.lib "RX" [.direct ()])) [2, 1],
    .gate (.loop "rep".toList 2 "body" 2
      (.cons (.kron (.lib "H" []) (.lib "X" [])) [1, 0] (.cons (.comp "c" 1 (.cons (.lib "T" []) [0] .nil)) [1] .nil))) [2, 0],
    .cond [1, 0] 2 (.loop "l".toList 3 "b" 1 (.cons (.lib "V" []) [0] .nil)) [2],
    .gate (.lib "CCRY" [.direct ()]) [0, 2, 1], .reset 1, .barrier [0, 1], .measureAll [0, 1, 2] .Z]⟩

theorem textSample_class : textSample.ops.all (classOp (fun _ => (0 : ℝ)) 3) = true := by decide +kernel

theorem textSample_exports :
    (match exportText cqGates unitNum textSample with | .ok _ => true | _ => false) = true := by decide +kernel

/-- **non-vacuity of the text theorem**: the sample circuit is exported, and its text parses to a well-formed program
whose densities are those of the circuit's Born branches -/
theorem text_equiv_example : ∃ t, exportText cqGates unitNum textSample = .ok t ∧
    ∃ p r1 cops r2, CQ1.parseProgram t = .ok p ∧ p.nq = 3 ∧ CQ1.programWf p = none ∧
      CQ1.programSem S0 (fun _ => true) p = some r1 ∧
      (textSample.ops.map (mapOp fun _ => (0 : ℝ))).mapM toCOp = some cops ∧
      Spec.branches 3 (fun _ => true) cops (CQ1.initial 3) = some r2 ∧
      ∀ w, CQ1.density (P := ℝ) (2 ^ 3) r1 w = CQ1.density (P := ℝ) (2 ^ 3) r2 w := by
  have hx := textSample_exports
  cases ht : exportText cqGates unitNum textSample with
  | err e => rw [ht] at hx; cases hx
  | panic => rw [ht] at hx; cases hx
  | ok t =>
    refine ⟨t, rfl, ?_⟩
    have hcl : ∀ op ∈ textSample.ops, classOp (fun _ => (0 : ℝ)) textSample.nq op = true := by
      have := textSample_class
      rw [List.all_eq_true] at this
      exact this
    exact text_equiv_class (α := ℂ) lawful lawfulHalf lawfulNegHalf lawfulQuarter unitNum S0 (fun _ => (0 : ℝ))
      readsBack_unit textSample (by decide) (by decide) (fun _ => true) (fun _ => rfl) hcl t ht

end Q1t.AmpComplex

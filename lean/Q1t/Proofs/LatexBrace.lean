import Q1t.Proofs.LatexLoops
import Q1t.Proofs.LatexOnce
/-!
C13 — the loop brace of the header line against the drawing: a loop of three or more iterations
records ONE brace `(start, stop, count)`; all its symbols lie in the columns `start..stop`, nothing of
an earlier operation lies there, and (if the body draws anything) a fresh column follows, so nothing of
a later operation lies there either.
-/
namespace Q1t.Proofs.Latex
open Q1t.Latex Q1t.Spec.QcGrid

/-! ## Gates that draw nothing leave the state alone; gates that draw leave a wire in use -/

mutual
theorem latex_same_of_noStages : ∀ (g : Gate) (bits : List Nat) (ctl : Bool) (s s' : St), s.expand = true →
    noBig g = true → gateStages g bits ctl = [] → latex g bits s = .ok s' → s' = s
  | .box _ _, _, _, _, _, _, _, hst, _ => by simp only [gateStages] at hst; split at hst <;> simp at hst
  | .x, _, _, _, _, _, _, hst, _ => by simp [gateStages] at hst
  | .z, _, _, _, _, _, _, hst, _ => by simp [gateStages] at hst
  | .swap, _, _, _, _, _, _, hst, _ => by simp [gateStages] at hst
  | .c _, _, _, _, _, _, _, hst, _ => by simp [gateStages] at hst
  | .i, bits, _, s, s', _, _, hst, h => by
    cases bits with
    | nil => simp [latex, checkNrBits, Gate.nbits] at h
    | cons b bs => simp [gateStages] at hst
  | .kron a b, bits, ctl, s, s', he, hn, hst, h => by
    simp only [noBig, Bool.and_eq_true] at hn
    simp only [gateStages, List.append_eq_nil_iff] at hst
    simp only [latex] at h
    obtain ⟨_, _, h2⟩ := Res.bind_eq_ok.mp h
    obtain ⟨s1, h1, h3⟩ := Res.bind_eq_ok.mp h2
    have e1 := latex_same_of_noStages a _ ctl s s1 he hn.1 hst.1 h1
    rw [e1] at h3
    exact latex_same_of_noStages b _ ctl s s' he hn.2 hst.2 h3
  | .comp name n ops, bits, ctl, s, s', he, hn, hst, h => by
    simp only [noBig] at hn
    simp only [gateStages] at hst
    simp only [latex] at h
    obtain ⟨_, _, h2⟩ := Res.bind_eq_ok.mp h
    rw [if_pos he] at h2
    exact latexSubs_same_of_noStages ops bits ctl s s' he hn hst h2
  | .loop iters body, bits, ctl, s, s', he, hn, hst, h => by
    simp only [noBig, Bool.and_eq_true, decide_eq_true_eq] at hn
    simp only [latex] at h
    obtain ⟨_, _, h2⟩ := Res.bind_eq_ok.mp h
    split at h2
    · injection h2 with h2; exact h2.symm
    · exact latex_same_of_noStages body bits ctl s s' he hn.2 (by simpa [gateStages] using hst) h2
    · simp only [gateStages, List.append_eq_nil_iff] at hst
      obtain ⟨s1, h1, h3⟩ := Res.bind_eq_ok.mp h2
      have e1 := latex_same_of_noStages body bits ctl s s1 he hn.2 hst.1 h1
      rw [e1] at h3
      exact latex_same_of_noStages body bits ctl s s' he hn.2 hst.1 h3
    · rename_i hn0 hn1 hn2
      exfalso
      have := hn.1
      match iters, this with
      | 0, _ => exact hn0 rfl
      | 1, _ => exact hn1 rfl
      | 2, _ => exact hn2 rfl
theorem latexSubs_same_of_noStages : ∀ (ops : Subs) (bits : List Nat) (ctl : Bool) (s s' : St), s.expand = true →
    noBigSubs ops = true → subsStages ops bits ctl = [] → latexSubs ops bits s = .ok s' → s' = s
  | .nil, _, _, s, s', _, _, _, h => by simp only [latexSubs] at h; injection h with h; exact h.symm
  | .cons g sb rest, bits, ctl, s, s', he, hn, hst, h => by
    simp only [noBigSubs, Bool.and_eq_true] at hn
    simp only [latexSubs] at h
    split at h
    · cases h
    · rename_i gb hgb
      simp only [subsStages, hgb, List.append_eq_nil_iff] at hst
      obtain ⟨s1, h1, h3⟩ := Res.bind_eq_ok.mp h
      have e1 := latex_same_of_noStages g gb ctl s s1 he hn.1 hst.1 h1
      rw [e1] at h3
      exact latexSubs_same_of_noStages rest bits ctl s s' he hn.2 hst.2 h3
end

theorem contains_true_of_get {l : List Bool} {r : Nat} (h : l[r]? = some true) : l.contains true = true := by
  have := List.mem_of_getElem? h
  simpa using this

theorem simple_used {g : Gate} {bits : List Nat} {s s' : St} (hs : simple g = true) (hg : goodPlace g bits = true)
    (hinv : Inv s) (h : latex g bits s = .ok s') : s'.inUse.contains true = true := by
  obtain ⟨s0, _, hw, _, _, hfree⟩ := simple_spec g hs bits s s' (ready_top hinv) h
  obtain ⟨hi0, _⟩ := hfree hinv.noRange
  have hb : bits ≠ [] := by intro hb; subst hb; rw [goodPlace_ne_nil] at hg; cases hg
  obtain ⟨b, hbm⟩ := List.exists_mem_of_ne_nil bits hb
  obtain ⟨p, hp, _, _⟩ := writes_cover g bits s.controlled hs hg b hbm
  obtain ⟨col, rest, h0, _, hlt⟩ := hw.cols
  have hl : p.1 < s'.inUse.length := by
    rw [hw.iuLen, hi0.shape.iu, ← hi0.shape.cols col (by rw [h0]; simp)]; exact hlt p hp
  cases hv : s'.inUse[p.1] with
  | true => exact contains_true_of_get (by rw [List.getElem?_eq_getElem hl, hv])
  | false =>
    exfalso
    exact (hw.iu p.1 (by rw [List.getElem?_eq_getElem hl, hv])).2 p hp rfl

theorem block_used {d : String} {n : Nat} {bits : List Nat} {s s' : St} (hinv : Inv s)
    (hok : blockOk d n bits = true) (h : latex (.box d n) bits s = .ok s') : s'.inUse.contains true = true := by
  obtain ⟨f, l, more, _, hne, hws, he⟩ := blockOk_latex hok s
  obtain ⟨_, hrows, _, hcov, _⟩ := blockOk_facts hok
  rw [he] at h
  obtain ⟨s0, _, hw, _, _, hfree⟩ := range_gate (ws := blockWrites d bits) hne (ready_top hinv)
    (by
      intro s1 s2 hrn hcn _ _ hb
      obtain ⟨sa, ha, hb2⟩ := Res.bind_eq_ok.mp hb
      obtain ⟨hw1, hr1, hc1⟩ := drawRange_inRange hrn hcn ha
      obtain ⟨hw2, hr2, hc2⟩ := blockRest_inRange more l sa s2 (by rw [hr1]; exact hrn) hw1.rcols_ne hb2
      exact ⟨by rw [hws]; exact hw1.trans hw2, hr2.trans hr1, hc2.trans hc1⟩)
    hrows h
  obtain ⟨hi0, _⟩ := hfree hinv.noRange
  obtain ⟨b, hbm⟩ := List.exists_mem_of_ne_nil bits hne
  obtain ⟨p, hp, _⟩ := hcov b hbm
  obtain ⟨col, rest, h0, _, hlt⟩ := hw.cols
  have hl : p.1 < s'.inUse.length := by
    rw [hw.iuLen, hi0.shape.iu, ← hi0.shape.cols col (by rw [h0]; simp)]; exact hlt p hp
  cases hv : s'.inUse[p.1] with
  | true => exact contains_true_of_get (by rw [List.getElem?_eq_getElem hl, hv])
  | false =>
    exfalso
    exact (hw.iu p.1 (by rw [List.getElem?_eq_getElem hl, hv])).2 p hp rfl

mutual
theorem latex_used : ∀ (g : Gate) (bits : List Nat) (s s' : St), Inv s → s.expand = true → topOk g bits = true →
    noBig g = true → gateStages g bits s.controlled ≠ [] → latex g bits s = .ok s' → s'.inUse.contains true = true
  | .box l n, bits, s, s', hinv, _, ht, _, _, h => by
    simp only [topOk, Bool.or_eq_true, Bool.and_eq_true, decide_eq_true_eq] at ht
    rcases ht with ht | ht
    · exact simple_used ht.1.1 ht.1.2 hinv h
    · exact block_used hinv ht h
  | .x, bits, s, s', hinv, _, ht, _, _, h => by
    simp only [topOk] at ht; exact simple_used rfl ht hinv h
  | .z, bits, s, s', hinv, _, ht, _, _, h => by
    simp only [topOk] at ht; exact simple_used rfl ht hinv h
  | .swap, bits, s, s', hinv, _, ht, _, _, h => by
    simp only [topOk, Bool.and_eq_true, decide_eq_true_eq] at ht
    exact simple_used rfl ht.1 hinv h
  | .c g, bits, s, s', hinv, _, ht, _, _, h => by
    simp only [topOk, Bool.and_eq_true, decide_eq_true_eq] at ht
    exact simple_used (by simpa [simple] using ht.1.1) ht.1.2 hinv h
  | .i, bits, s, s', _, _, _, _, _, h => by
    simp only [latex] at h
    obtain ⟨_, _, h2⟩ := Res.bind_eq_ok.mp h
    split at h2
    · exact contains_true_of_get (setField_used h2)
    · cases h2
  | .kron a b, bits, s, s', hinv, he, ht, hn, hst, h => by
    simp only [topOk, Bool.and_eq_true] at ht
    simp only [noBig, Bool.and_eq_true] at hn
    have h0 := h
    simp only [latex] at h
    obtain ⟨_, _, h2⟩ := Res.bind_eq_ok.mp h
    obtain ⟨s1, h1, h3⟩ := Res.bind_eq_ok.mp h2
    have d1 := latex_draws a _ s s1 hinv he ht.1 h1
    have e1 : s1.expand = true := by rw [(keeps_latex a _ _ _ h1).expand]; exact he
    have c1 : s1.controlled = s.controlled := d1.choose_spec.2.2.1
    by_cases hb : gateStages b (bits.drop a.nbits) s.controlled = []
    · have es := latex_same_of_noStages b _ s.controlled s1 s' e1 hn.2 hb h3
      rw [es]
      refine latex_used a _ s s1 hinv he ht.1 hn.1 ?_ h1
      intro ha; apply hst; simp [gateStages, ha, hb]
    · exact latex_used b _ s1 s' (d1.inv hinv) e1 ht.2 hn.2 (by rw [c1]; exact hb) h3
  | .comp name n ops, bits, s, s', hinv, he, ht, hn, hst, h => by
    simp only [topOk] at ht
    simp only [noBig] at hn
    simp only [latex] at h
    obtain ⟨_, _, h2⟩ := Res.bind_eq_ok.mp h
    rw [if_pos he] at h2
    exact latexSubs_used ops bits s s' hinv he ht hn (by simpa [gateStages] using hst) h2
  | .loop iters body, bits, s, s', hinv, he, ht, hn, hst, h => by
    simp only [topOk] at ht
    simp only [noBig, Bool.and_eq_true, decide_eq_true_eq] at hn
    simp only [latex] at h
    obtain ⟨_, _, h2⟩ := Res.bind_eq_ok.mp h
    split at h2
    · simp [gateStages] at hst
    · exact latex_used body bits s s' hinv he ht hn.2 (by simpa [gateStages] using hst) h2
    · obtain ⟨s1, h1, h3⟩ := Res.bind_eq_ok.mp h2
      have hb : gateStages body bits s.controlled ≠ [] := by
        intro hb; apply hst; simp [gateStages, hb]
      have d1 := latex_draws body _ s s1 hinv he ht h1
      have e1 : s1.expand = true := by rw [(keeps_latex body _ _ _ h1).expand]; exact he
      have c1 : s1.controlled = s.controlled := d1.choose_spec.2.2.1
      exact latex_used body bits s1 s' (d1.inv hinv) e1 ht hn.2 (by rw [c1]; exact hb) h3
    · rename_i hn0 hn1 hn2
      exfalso
      have := hn.1
      match iters, this with
      | 0, _ => exact hn0 rfl
      | 1, _ => exact hn1 rfl
      | 2, _ => exact hn2 rfl
theorem latexSubs_used : ∀ (ops : Subs) (bits : List Nat) (s s' : St), Inv s → s.expand = true →
    topOkSubs ops bits = true → noBigSubs ops = true → subsStages ops bits s.controlled ≠ [] →
    latexSubs ops bits s = .ok s' → s'.inUse.contains true = true
  | .nil, _, _, _, _, _, _, _, hst, _ => by simp [subsStages] at hst
  | .cons g sb rest, bits, s, s', hinv, he, ht, hn, hst, h => by
    simp only [topOkSubs, Bool.and_eq_true] at ht
    simp only [noBigSubs, Bool.and_eq_true] at hn
    simp only [latexSubs] at h
    split at h
    · cases h
    · rename_i gb hgb
      rw [hgb] at ht
      simp only [subsStages, hgb] at hst
      obtain ⟨s1, h1, h3⟩ := Res.bind_eq_ok.mp h
      have d1 := latex_draws g gb s s1 hinv he ht.1 h1
      have e1 : s1.expand = true := by rw [(keeps_latex g _ _ _ h1).expand]; exact he
      have c1 : s1.controlled = s.controlled := d1.choose_spec.2.2.1
      by_cases hb : subsStages rest bits s.controlled = []
      · have es := latexSubs_same_of_noStages rest bits s.controlled s1 s' e1 hn.2 hb h3
        rw [es]
        refine latex_used g gb s s1 hinv he ht.1 hn.1 ?_ h1
        intro ha; apply hst; simp [ha, hb]
      · exact latexSubs_used rest bits s1 s' (d1.inv hinv) e1 ht.2 hn.2 (by rw [c1]; exact hb) h3
end

/-! ## One loop of three or more iterations: its brace -/

theorem startLoop_spec {n : Nat} {s s1 : St} (h : startLoop n s = .ok s1) :
    ∃ m, (reserveAll s).rcols.length = m + 1 ∧
      s1 = { reserveAll s with openLoops := (m, n) :: (reserveAll s).openLoops } := by
  unfold startLoop at h
  dsimp only at h
  split at h
  · cases h
  · rename_i m hm
    injection h with h
    exact ⟨m, hm, h.symm⟩

theorem endLoop_spec {s4 s' : St} {m n : Nat} {rest : List (Nat × Nat)} (ho : s4.openLoops = (m, n) :: rest)
    (h : endLoop s4 = .ok s') :
    ∃ k, s4.rcols.length = k + 1 ∧
      s' = reserveAll { s4 with openLoops := rest, loops := s4.loops ++ [(m, k, n)] } := by
  unfold endLoop at h
  rw [ho] at h
  dsimp only at h
  split at h
  · cases h
  · rename_i k hk
    injection h with h
    exact ⟨k, hk, h.symm⟩

theorem reserveAll_last_empty {s : St} (hinv : Inv s) {col : Column} {rest : List Column}
    (h : (reserveAll s).rcols = col :: rest) : ∀ (r : Nat) (cell : Cell), col[r]? ≠ some (some cell) := by
  unfold reserveAll at h
  split at h
  · simp only [addColumn] at h
    injection h with h _; subst h
    exact fun r cell => replicate_none_get _ _ _
  · rename_i hc
    intro r cell hcell
    have hrl : r < col.length := by
      rcases Nat.lt_or_ge r col.length with hl | hl
      · exact hl
      · rw [List.getElem?_eq_none hl] at hcell; cases hcell
    have hil : r < s.inUse.length := by
      rw [hinv.shape.iu, ← hinv.shape.cols col (by rw [h]; simp)]; exact hrl
    cases hv : s.inUse[r] with
    | true =>
      apply hc
      exact contains_true_of_get (by rw [List.getElem?_eq_getElem hil, hv])
    | false =>
      have := hinv.free col rest h r (by rw [List.getElem?_eq_getElem hil, hv])
      rw [this] at hcell; cases hcell

theorem has_reserveAll (s : St) (c r : Nat) (x : Cell) : Has (reserveAll s) c r x ↔ Has s c r x := by
  unfold reserveAll
  split
  · show HasCols (List.replicate s.total none :: s.rcols) c r x ↔ HasCols s.rcols c r x
    rw [hasCols_cons]
    constructor
    · rintro (⟨_, h⟩ | h)
      · exact absurd h (replicate_none_get _ _ _)
      · exact h
    · exact Or.inr
  · exact Iff.rfl

theorem draws_bounds {s s' : St} {S} (hinv : Inv s) (h : Draws s s' S) :
    ∃ L, Trace s s' L ∧ L.map (·.ws) = S ∧ s'.controlled = s.controlled ∧ s'.cur = s.cur ∧
      s.rcols.length ≤ s'.rcols.length ∧ ∀ g ∈ L, s.rcols.length ≤ g.col + 1 ∧ g.col < s'.rcols.length := by
  obtain ⟨L, t, hm, hc, hk⟩ := h
  have lay := layout_of_trace hinv t
  exact ⟨L, t, hm, hc, hk, lay.len, fun g hg => ⟨(lay.bounds g hg).1, (lay.bounds g hg).2.1⟩⟩

/-- **One loop of three or more iterations** (body without another such loop, no loop open): exactly one
brace `(start, stop, n)` is recorded; every stage of the loop sits in a column `start..stop`; column
`start` (and everything right of it) held nothing before; if the body draws anything a fresh column
follows the brace. -/
theorem bigLoop_brace {n : Nat} {body : Gate} {bits : List Nat} {s s' : St} (hinv : Inv s) (he : s.expand = true)
    (hl : LoopInv s) (ht : topOk body bits = true) (hnb : noBig body = true) (hbig : ¬ n < 3)
    (h : latex (.loop n body) bits s = .ok s') :
    ∃ start stop L,
      s'.loops = s.loops ++ [(start, stop, n)] ∧ s'.openLoops = [] ∧
      s.rcols.length ≤ start + 1 ∧ start ≤ stop ∧ stop < s'.rcols.length ∧
      (∀ r x, ¬ Has s start r x) ∧
      Trace s s' L ∧ L.map (·.ws) = gateStages (.loop n body) bits s.controlled ∧
      s'.controlled = s.controlled ∧ s'.cur = s.cur ∧
      (∀ g ∈ L, start ≤ g.col ∧ g.col ≤ stop) ∧
      (gateStages body bits s.controlled ≠ [] → s'.rcols.length = stop + 2) := by
  simp only [latex] at h
  obtain ⟨_, _, h⟩ := Res.bind_eq_ok.mp h
  split at h
  · exact absurd (by decide : (0 : Nat) < 3) hbig
  · exact absurd (by decide : (1 : Nat) < 3) hbig
  · exact absurd (by decide : (2 : Nat) < 3) hbig
  · rename_i hn0 hn1 hn2
    split at h
    · cases h
    · rename_i b bs
      obtain ⟨s1, h1, h⟩ := Res.bind_eq_ok.mp h
      obtain ⟨s2, h2, h⟩ := Res.bind_eq_ok.mp h
      obtain ⟨s3, h3, h⟩ := Res.bind_eq_ok.mp h
      obtain ⟨s4, h4, h5⟩ := Res.bind_eq_ok.mp h
      -- the five pieces as traces
      have d1 := startLoop_draws hinv h1
      have i1 := d1.inv hinv
      have e1 : s1.expand = true := by rw [(keeps_startLoop h1).expand]; exact he
      have d2 := latex_draws body _ s1 s2 i1 e1 ht h2
      have i2 := d2.inv i1
      have e2 : s2.expand = true := by rw [(keeps_latex body _ _ _ h2).expand]; exact e1
      have d3 := addCds_draws i2 h3
      have i3 := d3.inv i2
      have e3 : s3.expand = true := by rw [(keeps_addCds h3).expand]; exact e2
      have d4 := latex_draws body _ s3 s4 i3 e3 ht h4
      have i4 := d4.inv i3
      have d5 := endLoop_draws i4 h5
      obtain ⟨L1, t1, m1, c1, k1, _, _⟩ := draws_bounds hinv d1
      obtain ⟨L2, t2, m2, c2, k2, n2, b2⟩ := draws_bounds i1 d2
      obtain ⟨L3, t3, m3, c3, k3, n3, b3⟩ := draws_bounds i2 d3
      obtain ⟨L4, t4, m4, c4, k4, n4, b4⟩ := draws_bounds i3 d4
      obtain ⟨L5, t5, m5, c5, k5, _, _⟩ := draws_bounds i4 d5
      have hL1 : L1 = [] := by simpa using m1
      have hL5 : L5 = [] := by simpa using m5
      -- the loop records
      obtain ⟨m, hm, hs1⟩ := startLoop_spec h1
      have hr := lk_reserveAll s
      have hlk : LK s1 s4 := ((lk_latex body _ _ _ hnb h2).trans (lk_addCds h3)).trans (lk_latex body _ _ _ hnb h4)
      have ho1 : s1.openLoops = [(m, n)] := by rw [hs1]; show (m, n) :: (reserveAll s).openLoops = _; rw [hr.oloops, hl.closed]
      have hl1 : s1.loops = s.loops := by rw [hs1]; exact hr.loops
      have hc1 : s1.rcols.length = m + 1 := by rw [hs1]; exact hm
      obtain ⟨k, hk, hs'⟩ := endLoop_spec (by rw [hlk.oloops]; exact ho1) h5
      have hr' := lk_reserveAll { s4 with openLoops := [], loops := s4.loops ++ [(m, k, n)] }
      have hlen' : k + 1 ≤ s'.rcols.length := by rw [hs']; have := hr'.len; simp only at this; omega
      have hmk : m ≤ k := by have := hlk.len; omega
      have cc2 : s2.controlled = s.controlled := c2.trans c1
      have cc3 : s3.controlled = s.controlled := c3.trans cc2
      refine ⟨m, k, L2 ++ L3 ++ L4, ?_, ?_, ?_, hmk, by omega, ?_, ?_, ?_, ?_, ?_, ?_, ?_⟩
      · rw [hs', hr'.loops]; show s4.loops ++ [(m, k, n)] = _; rw [hlk.loops, hl1]
      · rw [hs', hr'.oloops]
      · have := hr.len; omega
      · intro r x hx
        have hx' := (has_reserveAll s m r x).mpr hx
        unfold Has at hx'
        cases hrc : (reserveAll s).rcols with
        | nil => rw [hrc] at hm; cases hm
        | cons col rest =>
          rw [hrc] at hx' hm
          rw [hasCols_cons] at hx'
          simp only [List.length_cons, Nat.add_right_cancel_iff] at hm
          rcases hx' with ⟨_, hcell⟩ | hx'
          · exact reserveAll_last_empty hinv hrc r x hcell
          · have := hasCols_lt hx'; omega
      · have := (((t1.trans t2).trans t3).trans t4).trans t5
        rw [hL1, hL5] at this
        simpa using this
      · rw [List.map_append, List.map_append, m2, m3, m4, c1, cc3]
        rw [gateStages]
        · exact hn0
        · exact hn1
        · exact hn2
      · rw [c5, c4, cc3]
      · rw [k5, k4, k3, k2, k1]
      · intro g hg
        simp only [List.mem_append] at hg
        rcases hg with (hg | hg) | hg
        · have := b2 g hg; omega
        · have := b3 g hg; omega
        · have := b4 g hg; omega
      · intro hst
        have hu := latex_used body _ s3 s4 i3 e3 ht hnb (by rw [cc3]; exact hst) h4
        rw [hs']
        unfold reserveAll
        rw [if_pos (by exact hu)]
        simp [addColumn, hk]

/-! ## Loop records only grow -/

theorem bigLoop_loops {n : Nat} {s s1 s4 s' : St} (hi : LoopInv s) (h1 : startLoop n s = .ok s1)
    (hk : LK s1 s4) (h5 : endLoop s4 = .ok s') : ∃ m k, s'.loops = s.loops ++ [(m, k, n)] := by
  obtain ⟨m, hm, hs1⟩ := startLoop_spec h1
  have hr := lk_reserveAll s
  have ho1 : s1.openLoops = [(m, n)] := by
    rw [hs1]; show (m, n) :: (reserveAll s).openLoops = _; rw [hr.oloops, hi.closed]
  have hl1 : s1.loops = s.loops := by rw [hs1]; exact hr.loops
  obtain ⟨k, _, hs'⟩ := endLoop_spec (by rw [hk.oloops]; exact ho1) h5
  have hr' := lk_reserveAll { s4 with openLoops := [], loops := s4.loops ++ [(m, k, n)] }
  exact ⟨m, k, by rw [hs', hr'.loops]; show s4.loops ++ [(m, k, n)] = _; rw [hk.loops, hl1]⟩

/-- The invariant of the loop records is kept and the records of `s` are a prefix of those of `s'`. -/
def LoopStep (s s' : St) : Prop := LoopInv s' ∧ s.loops <+: s'.loops

theorem LoopStep.of_lk {s s' : St} (h : LK s s') (hi : LoopInv s) : LoopStep s s' :=
  ⟨hi.of_lk h, by rw [h.loops]; exact List.prefix_refl _⟩

theorem LoopStep.trans {a b c : St} (h1 : LoopStep a b) (h2 : LoopStep b c) : LoopStep a c :=
  ⟨h2.1, h1.2.trans h2.2⟩

mutual
theorem latex_loopStep {nq : Nat} : ∀ (g : Gate) (bits : List Nat) (s s' : St), topOk g bits = true →
    gateSafe nq g bits = true → LoopInv s → latex g bits s = .ok s' → LoopStep s s'
  | .box l n, bits, s, s', _, _, hi, h => .of_lk (lk_latex _ _ _ _ rfl h) hi
  | .x, bits, s, s', _, _, hi, h => .of_lk (lk_latex _ _ _ _ rfl h) hi
  | .z, bits, s, s', _, _, hi, h => .of_lk (lk_latex _ _ _ _ rfl h) hi
  | .i, bits, s, s', _, _, hi, h => .of_lk (lk_latex _ _ _ _ rfl h) hi
  | .swap, bits, s, s', _, _, hi, h => .of_lk (lk_latex _ _ _ _ rfl h) hi
  | .c g, bits, s, s', ht, _, hi, h => by
    simp only [topOk, Bool.and_eq_true, decide_eq_true_eq] at ht
    exact .of_lk (lk_latex _ _ _ _ (by simp only [noBig]; exact simple_noBig g ht.1.1) h) hi
  | .kron a b, bits, s, s', ht, hsf, hi, h => by
    simp only [topOk, Bool.and_eq_true] at ht
    simp only [gateSafe, Bool.and_eq_true] at hsf
    simp only [latex] at h
    obtain ⟨_, _, h⟩ := Res.bind_eq_ok.mp h
    obtain ⟨s1, h1, h⟩ := Res.bind_eq_ok.mp h
    have k1 := latex_loopStep a _ s s1 ht.1 hsf.1 hi h1
    exact k1.trans (latex_loopStep b _ s1 s' ht.2 hsf.2 k1.1 h)
  | .comp name n ops, bits, s, s', ht, hsf, hi, h => by
    simp only [topOk] at ht
    simp only [gateSafe] at hsf
    simp only [latex] at h
    obtain ⟨_, _, h⟩ := Res.bind_eq_ok.mp h
    split at h
    · exact latexSubs_loopStep ops bits s s' ht hsf hi h
    · exact .of_lk (lk_addBlockGate h) hi
  | .loop iters body, bits, s, s', ht, hsf, hi, h => by
    simp only [topOk] at ht
    simp only [gateSafe, Bool.and_eq_true, Bool.or_eq_true, decide_eq_true_eq] at hsf
    have hb := latex_loopStep (nq := nq) body bits
    have h0 := h
    simp only [latex] at h
    obtain ⟨_, _, h⟩ := Res.bind_eq_ok.mp h
    split at h
    · injection h with h; subst h; exact ⟨hi, List.prefix_refl _⟩
    · exact hb s s' ht hsf.1 hi h
    · obtain ⟨s1, h1, h⟩ := Res.bind_eq_ok.mp h
      have k1 := hb s s1 ht hsf.1 hi h1
      exact k1.trans (hb s1 s' ht hsf.1 k1.1 h)
    · rename_i hn0 hn1 hn2
      have hbig : ¬ iters < 3 := by
        intro hlt
        match iters, hlt with
        | 0, _ => exact hn0 rfl
        | 1, _ => exact hn1 rfl
        | 2, _ => exact hn2 rfl
      rcases hsf.2 with hlt | hrest
      · exact absurd hlt hbig
      · have hnb : noBig body = true := hrest.2
        split at h
        · cases h
        · obtain ⟨s1, h1, h⟩ := Res.bind_eq_ok.mp h
          obtain ⟨s2, h2, h⟩ := Res.bind_eq_ok.mp h
          obtain ⟨s3, h3, h⟩ := Res.bind_eq_ok.mp h
          obtain ⟨s4, h4, h⟩ := Res.bind_eq_ok.mp h
          have hlk := ((lk_latex body _ _ _ hnb h2).trans (lk_addCds h3)).trans (lk_latex body _ _ _ hnb h4)
          obtain ⟨m, k, hm⟩ := bigLoop_loops hi h1 hlk h
          exact ⟨bigLoop_loopInv hi h1 hlk h, by rw [hm]; exact List.prefix_append _ _⟩
theorem latexSubs_loopStep {nq : Nat} : ∀ (ops : Subs) (bits : List Nat) (s s' : St), topOkSubs ops bits = true →
    subsSafe nq ops bits = true → LoopInv s → latexSubs ops bits s = .ok s' → LoopStep s s'
  | .nil, bits, s, s', _, _, hi, h => by
    simp only [latexSubs] at h; injection h with h; subst h; exact ⟨hi, List.prefix_refl _⟩
  | .cons g sb rest, bits, s, s', ht, hsf, hi, h => by
    simp only [topOkSubs, Bool.and_eq_true] at ht
    simp only [subsSafe, Bool.and_eq_true] at hsf
    simp only [latexSubs] at h
    split at h
    · cases h
    · rename_i gb hgb
      rw [hgb] at ht hsf
      obtain ⟨s1, h1, h⟩ := Res.bind_eq_ok.mp h
      have k1 := latex_loopStep g gb s s1 ht.1 hsf.1 hi h1
      exact k1.trans (latexSubs_loopStep rest bits s1 s' ht.2 hsf.2 k1.1 h)
end

theorem op_loopStep {nq : Nat} {op : Op} {s s' : St} (hop : opOk op = true) (hsf : opSafe nq op = true)
    (hi : LoopInv s) (h : opLatex nq op s = .ok s') : LoopStep s s' := by
  cases op with
  | gate g bits => exact latex_loopStep g bits s s' hop hsf hi h
  | cond control target g bits =>
    simp only [opOk, condOk, Bool.and_eq_true, decide_eq_true_eq] at hop
    simp only [opLatex] at h
    obtain ⟨s1, h1, h⟩ := Res.bind_eq_ok.mp h
    obtain ⟨s2, h2, h⟩ := Res.bind_eq_ok.mp h
    obtain ⟨s3, h3, h⟩ := Res.bind_eq_ok.mp h
    exact .of_lk (((((lk_startRangeOp h1).trans (lk_controlled s1 true)).trans
      (lk_latex g _ _ _ (simple_noBig g hop.1.1.1) h2)).trans
      ((lk_controlled s2 _).trans (lk_setCondition h3))).trans (lk_endRangeOp h)) hi
  | reset q => exact .of_lk (lk_setField h) hi
  | resetAll =>
    simp only [opLatex] at h
    obtain ⟨s1, h1, h⟩ := Res.bind_eq_ok.mp h
    obtain ⟨s2, h2, h⟩ := Res.bind_eq_ok.mp h
    exact .of_lk (((lk_startRangeOp h1).trans (lk_resetLoop h2)).trans (lk_endRangeOp h)) hi
  | measure q c b => exact .of_lk (lk_setMeasurement h) hi
  | measureAll cbits b => exact .of_lk (lk_measureAllLoop h) hi
  | peek q c b => simp [opLatex] at h
  | peekAll cbits b => simp [opLatex] at h
  | barrier qbits => exact .of_lk (lk_setBarrier h) hi

theorem opsLatex_loopStep {nq : Nat} : ∀ (ops : List Op) (s s' : St),
    (∀ op ∈ ops, opOk op = true ∧ opSafe nq op = true) → LoopInv s → opsLatex nq ops s = .ok s' → LoopStep s s'
  | [], s, s', _, hi, h => by simp [opsLatex] at h; subst h; exact ⟨hi, List.prefix_refl _⟩
  | op :: rest, s, s', hop, hi, h => by
    simp only [opsLatex] at h
    obtain ⟨s1, h1, h⟩ := Res.bind_eq_ok.mp h
    obtain ⟨ho, hs⟩ := hop op (by simp)
    have k1 := op_loopStep ho hs hi h1
    have k2 : LoopStep s1 { s1 with cur := s1.cur + 1 } :=
      .of_lk (lk_of_fields (s := s1) (s' := { s1 with cur := s1.cur + 1 }) rfl rfl rfl rfl) k1.1
    exact (k1.trans k2).trans
      (opsLatex_loopStep rest { s1 with cur := s1.cur + 1 } s' (fun o ho' => hop o (by simp [ho'])) k2.1 h)

/-! ## A loop inside a circuit -/

theorem opsLatex_append (nq : Nat) : ∀ (a b : List Op) (s : St),
    opsLatex nq (a ++ b) s = (opsLatex nq a s >>== fun s1 => opsLatex nq b s1)
  | [], b, s => rfl
  | op :: rest, b, s => by
    simp only [List.cons_append, opsLatex]
    cases opLatex nq op s with
    | ok s1 => simp only [Res.bind_ok]; exact opsLatex_append nq rest b _
    | err e => rfl
    | panic => rfl

theorem opsLatex_facts {nq : Nat} : ∀ (ops : List Op) (s s' : St), Inv s → s.expand = true → s.nq = nq →
    s.controlled = false → (∀ op ∈ ops, opOk op = true) → opsLatex nq ops s = .ok s' →
    Inv s' ∧ s'.expand = true ∧ s'.nq = nq ∧ s'.controlled = false ∧ s'.cur = s.cur + ops.length ∧
      ∃ L, Trace s s' L ∧ ∀ g ∈ L, s.cur ≤ g.prov ∧ g.prov < s.cur + ops.length
  | [], s, s', hinv, he, hq, hc, _, h => by
    simp [opsLatex] at h; subst h
    exact ⟨hinv, he, hq, hc, rfl, [], Trace.nil _, by intro g hg; cases hg⟩
  | op :: rest, s, s', hinv, he, hq, hc, hop, h => by
    simp only [opsLatex] at h
    obtain ⟨s1, h1, h⟩ := Res.bind_eq_ok.mp h
    obtain ⟨L1, t1, _, c1, k1⟩ := op_draws hinv he hq hc (hop op (by simp)) h1
    have i1 := trace_inv hinv t1
    have lay := layout_of_trace hinv t1
    have e1 : s1.expand = true := by rw [(keeps_opLatex h1).expand]; exact he
    have q1 : s1.nq = nq := by rw [(keeps_opLatex h1).nq]; exact hq
    have t2 : Trace s1 { s1 with cur := s1.cur + 1 } [] :=
      Trace.single (Step.fields rfl rfl rfl rfl rfl (Nat.le_succ _))
    obtain ⟨i', e', q', c', k', L2, t3, hp⟩ := opsLatex_facts rest { s1 with cur := s1.cur + 1 } s'
      (inv_of_fields i1 rfl rfl rfl rfl rfl) e1 q1 (by show s1.controlled = false; rw [c1]; exact hc)
      (fun o ho => hop o (by simp [ho])) h
    refine ⟨i', e', q', c', ?_, L1 ++ L2, ?_, ?_⟩
    · rw [k']; show s1.cur + 1 + rest.length = _; rw [k1]; simp; omega
    · have := (t1.trans t2).trans t3; simpa using this
    · intro g hg
      rcases List.mem_append.mp hg with hg | hg
      · obtain ⟨_, _, a, b⟩ := lay.bounds g hg
        rw [k1] at b; simp; omega
      · have := hp g hg
        have hk : ({ s1 with cur := s1.cur + 1 } : St).cur = s.cur + 1 := by show s1.cur + 1 = _; rw [k1]
        rw [hk] at this; simp; omega

/-- **The brace of a loop inside a circuit** (all operations in the proved class and safe; the loop has
three or more iterations and its body draws something): the loop's brace `(start, stop, n)` is recorded,
lies inside the matrix, and a symbol lies in a column `start..stop` IF AND ONLY IF it was drawn by the
loop — the brace covers exactly the loop and nothing of any other operation. -/
theorem loop_brace_circuit {nq nc : Nat} {pre post : List Op} {n : Nat} {body : Gate} {bits : List Nat} {s : St}
    (hpre : ∀ op ∈ pre, opOk op = true ∧ opSafe nq op = true)
    (hop : opOk (.gate (.loop n body) bits) = true ∧ opSafe nq (.gate (.loop n body) bits) = true)
    (hpost : ∀ op ∈ post, opOk op = true ∧ opSafe nq op = true)
    (hbig : 3 ≤ n) (hst : gateStages body bits false ≠ [])
    (h : exportSt ⟨nq, nc, pre ++ .gate (.loop n body) bits :: post⟩ = .ok s) :
    ∃ start stop, (start, stop, n) ∈ s.loops ∧ start ≤ stop ∧ stop < s.rcols.length ∧
      ∀ c r x, Has s c r x → (x.prov = pre.length ↔ (start ≤ c ∧ c ≤ stop)) := by
  unfold exportSt at h
  simp only at h
  rw [opsLatex_append] at h
  obtain ⟨sa, ha, h⟩ := Res.bind_eq_ok.mp h
  simp only [opsLatex] at h
  obtain ⟨sb, hb, hc⟩ := Res.bind_eq_ok.mp h
  -- before the loop
  obtain ⟨ia, ea, qa, ca, ka, La, ta, hpa⟩ := opsLatex_facts pre (St.new nq nc) sa (inv_new nq nc) rfl rfl rfl
    (fun o ho => (hpre o ho).1) ha
  have la := (opsLatex_loopStep pre _ sa hpre (loopInv_new nq nc) ha).1
  have laya := layout_of_trace (inv_new nq nc) ta
  have hka : sa.cur = pre.length := by rw [ka]; simp [St.new]
  -- the loop
  have htop : topOk body bits = true := by simpa [opOk, topOk] using hop.1
  have hsf := hop.2
  simp only [opSafe, gateSafe, Bool.and_eq_true, Bool.or_eq_true, decide_eq_true_eq] at hsf
  have hnb : noBig body = true := by
    rcases hsf.2 with hlt | hr
    · omega
    · exact hr.2
  obtain ⟨start, stop, Lb, hloops, _, hs1, hss, hstop, hempty, tb, _, cb, kb, hcols, hfresh⟩ :=
    bigLoop_brace ia ea la htop hnb (by omega) hb
  have ib := trace_inv ia tb
  have layb := layout_of_trace ia tb
  have hfresh' := hfresh (by rw [ca]; exact hst)
  -- after the loop
  have eb : sb.expand = true := by rw [(keeps_opLatex hb).expand]; exact ea
  have qb : sb.nq = nq := by rw [(keeps_opLatex hb).nq]; exact qa
  obtain ⟨_, _, _, _, _, Lc, tc, hpc⟩ := opsLatex_facts post { sb with cur := sb.cur + 1 } s
    (inv_of_fields ib rfl rfl rfl rfl rfl) eb qb (by show sb.controlled = false; rw [cb]; exact ca)
    (fun o ho => (hpost o ho).1) hc
  have layc := layout_of_trace (s := { sb with cur := sb.cur + 1 }) (inv_of_fields ib rfl rfl rfl rfl rfl) tc
  have lb : LoopInv sb := (op_loopStep hop.1 hop.2 la hb).1
  have lc := opsLatex_loopStep post { sb with cur := sb.cur + 1 } s hpost
    (LoopInv.of_lk (lk_of_fields (s := sb) (s' := { sb with cur := sb.cur + 1 }) rfl rfl rfl rfl) lb) hc
  refine ⟨start, stop, ?_, hss, ?_, ?_⟩
  · apply lc.2.subset
    show (start, stop, n) ∈ sb.loops
    rw [hloops]; simp
  · have := layc.len
    have h2 : ({ sb with cur := sb.cur + 1 } : St).rcols.length = sb.rcols.length := rfl
    omega
  · intro c r x hx
    rcases (layc.cells c r x).mp hx with hxb | ⟨g, hg, hgc, hgp, _⟩
    · have hxb' : Has sb c r x := hxb
      rcases (layb.cells c r x).mp hxb' with hxa | ⟨g, hg, hgc, hgp, _⟩
      · -- drawn before the loop
        rcases (laya.cells c r x).mp hxa with hx0 | ⟨g, hg, _, hgp, _⟩
        · exact absurd hx0 (has_new _ _ _ _ _)
        · have hp := hpa g hg
          have hlt : c < sa.rcols.length := hasCols_lt hxa
          have hne : c ≠ start := by intro e; subst e; exact hempty r x hxa
          have h0 : (St.new nq nc).cur = 0 := rfl
          rw [h0] at hp
          constructor
          · intro hpv; rw [← hgp] at hpv; omega
          · intro hcc; omega
      · -- drawn by the loop
        obtain ⟨_, _, p1, p2⟩ := layb.bounds g hg
        have := hcols g hg
        constructor
        · intro _; omega
        · intro _; rw [← hgp]; omega
    · -- drawn after the loop
      have hp := hpc g hg
      obtain ⟨p1, _, _, _⟩ := layc.bounds g hg
      have h2 : ({ sb with cur := sb.cur + 1 } : St).rcols.length = sb.rcols.length := rfl
      have h3 : ({ sb with cur := sb.cur + 1 } : St).cur = sb.cur + 1 := rfl
      constructor
      · intro hpv; rw [← hgp] at hpv; omega
      · intro hcc; omega

end Q1t.Proofs.Latex

import Q1t.Proofs.CQasmSound
import Q1t.Proofs.CQasmStructure
set_option linter.unusedSimpArgs false
set_option linter.unusedVariables false
/-!
C12: **`cq_wellformed_partial`** — for every circuit of the decidable class `sound`, if `Circuit::c_qasm` (the model)
returns a text, the text parses with `Spec/CQ1.parseProgram` into a program over the circuit's qubits without a
well-formedness problem.  Mutual induction over gates and sub-operation lists, for `c_qasm` and `conditional_c_qasm`.
-/
namespace Q1t.Proofs.CQasm
open Q1t Q1t.CQ Q1t.Gen

variable {F : Type}

/-! ### the class -/

/-- a library gate with a good translation (all but `U2 U3 CH CRZ CU2 CV CVdg`), the right number of parameters,
none of them a reference -/
def libSound (name : String) (ps : List (Param F)) : Bool :=
  match cqGates.find? (·.name == name) with
  | some g => gateGood g && ps.length == g.params.length && ps.all (fun p => !p.isRef)
  | none => true

def libSingle (name : String) : Bool :=
  match cqGates.find? (·.name == name) with
  | some g => singleLine g
  | none => true

/-- what may stand in a `{ … | … }` bundle: a library gate with a one-line translation -/
def partSound : XGate F → Bool
  | .lib name ps => libSound name ps && libSingle name
  | _ => false

mutual
/-- gates outside the syntactic defect classes; `cond`: under a classical condition (where `Kron` and `Loop` are
rendered part by part, so anything sound may stand inside them) -/
def gateSound (cond : Bool) : XGate F → Bool
  | .lib name ps => libSound name ps
  | .ctl _ => true
  | .kron g0 g1 => if cond then gateSound cond g0 && gateSound cond g1 else partSound g0 && partSound g1
  | .comp _ n ops => opsSound cond n ops
  | .loop label _ _ n ops => (cond || labelOK label) && opsSound cond n ops
def opsSound (cond : Bool) (n : Nat) : XOps F → Bool
  | .nil => true
  | .cons g sub rest =>
      gateSound cond g && sub.length == nrBits g && decide sub.Nodup && sub.all (· < n) && opsSound cond n rest
end

/-! ### placements -/

theorem gatherBits_ok (bits sub : List Nat) (h : ∀ b ∈ sub, b < bits.length) :
    gatherBits bits sub = .ok (sub.map fun b => bits.getD b 0) := by
  unfold gatherBits
  apply mapRes_map
  intro b hb
  have := h b hb
  simp [List.getElem?_eq_getElem this, List.getD_eq_getElem?_getD]

theorem placed_lt (nq : Nat) (bits sub : List Nat) (hb : ∀ b ∈ bits, b < nq) (h : ∀ b ∈ sub, b < bits.length) :
    ∀ x ∈ sub.map (fun b => bits.getD b 0), x < nq := by
  intro x hx
  obtain ⟨b, hbm, rfl⟩ := List.mem_map.mp hx
  have := h b hbm
  simp only [List.getD_eq_getElem?_getD, List.getElem?_eq_getElem this, Option.getD_some]
  exact hb _ (List.getElem_mem this)

/-! ### `c_qasm` -/

theorem lib_ok (N : Num F) (hN : GoodNum N) (nq : Nat) (name : String) (ps : List (Param F)) (bits : List Nat)
    (hs : libSound name ps = true) (hl : bits.length = libBits name) (hn : bits.Nodup) (hb : ∀ b ∈ bits, b < nq)
    (t : Text) (h : libCQasm cqGates N (qNames nq) name ps bits = .ok t) :
    ∃ g lines, cqGates.find? (·.name == name) = some g ∧ lines ≠ [] ∧ lines.length = (slinesOf g).length ∧
      t = intercalate ['\n'] lines ∧ ∀ l ∈ lines, GoodPrinted nq bits l := by
  unfold libCQasm at h
  unfold libSound at hs
  cases hf : cqGates.find? (·.name == name) with
  | none => rw [hf] at h; cases h
  | some g =>
    rw [hf] at h hs
    simp only [Bool.and_eq_true, beq_iff_eq, List.all_eq_true, Bool.not_eq_true'] at hs
    have hgm : g ∈ cqGates := List.mem_of_find?_eq_some hf
    have hgn : g.name = name := by simpa using List.find?_some hf
    obtain ⟨lines, h1, h2, h3, h4⟩ := lib_lines N hN g hgm hs.1.1 nq ps hs.1.2 hs.2 bits (by rw [hgn]; exact hl) hb hn
    simp only [] at h
    rw [h3] at h
    injection h with h
    exact ⟨g, lines, rfl, h1, h2, h.symm, h4⟩

theorem linesOK_lines (nq : Nat) (bits : List Nat) (hb : ∀ b ∈ bits, b < nq) (lines : List Text)
    (h : ∀ l ∈ lines, GoodPrinted nq bits l) : LinesOK nq (intercalate ['\n'] lines) :=
  linesOK_intercalate nq lines (fun l hl => goodPrinted_linesOK l (h l hl) hb)

theorem word_labelChars (label : Text) (h : labelOK label = true) :
    ∀ c ∈ label, c ≠ '#' ∧ c ≠ '\n' ∧ CQ1.isBlank c = false := by
  simp only [labelOK, Bool.and_eq_true, List.all_eq_true] at h
  intro c hc
  have := h.1.2 c hc
  refine ⟨?_, ?_, idChar_not_blank this⟩ <;> (intro e; subst e; revert this; decide)

/-- the header line of a loop -/
theorem linesOK_header (nq : Nat) (label : Text) (k : Nat) (h : labelOK label = true) :
    LinesOK nq ('.' :: (label ++ '(' :: (natText k ++ [')']))) := by
  have hlc := word_labelChars label h
  have hd := natText_digits k
  apply linesOK_single nq _ (by simp)
  · apply trim_id
    · intro c hc; simp at hc; subst hc; decide
    · intro c hc
      have e : '.' :: (label ++ '(' :: (natText k ++ [')'])) = ('.' :: (label ++ '(' :: natText k)) ++ [')'] := by simp
      rw [e, List.getLast?_concat] at hc; injection hc with hc; subst hc; decide
  · intro c hc
    simp only [List.mem_cons, List.mem_append, List.mem_singleton] at hc
    rcases hc with rfl | hc | rfl | hc | hc
    · decide
    · exact ⟨(hlc c hc).1, (hlc c hc).2.1⟩
    · decide
    · have := hd c hc
      refine ⟨?_, ?_⟩ <;> (intro e; subst e; revert this; decide)
    · rcases hc with rfl | hc
      · decide
      · cases hc
  · left
    exact ⟨rfl, _, parseHeader_loop label k h⟩

theorem linesOK_end (nq : Nat) : LinesOK nq ".end".toList := by
  apply linesOK_single nq _ (by decide) (by decide) (by decide)
  left
  exact ⟨rfl, _, parseHeader_end⟩

/-- two printed instructions on disjoint parts of a placement form a good bundle -/
theorem bundle_linesOK (nq : Nat) (bits0 bits1 : List Nat) (hb0 : ∀ b ∈ bits0, b < nq) (hb1 : ∀ b ∈ bits1, b < nq)
    (hdis : ∀ b ∈ bits0, b ∉ bits1) (a b : Text) (ha : GoodPrinted nq bits0 a) (hbp : GoodPrinted nq bits1 b) :
    LinesOK nq (fillFormat (cqKronPieces.map String.toList) [a, b]) := by
  have hp : cqKronPieces.map String.toList = ["{ ".toList, " | ".toList, " }".toList] := by decide
  have e : fillFormat (cqKronPieces.map String.toList) [a, b] = "{ ".toList ++ a ++ " | ".toList ++ b ++ " }".toList := by
    simp [hp, fillFormat, List.append_assoc]
  rw [e]
  obtain ⟨ia, hpa, hwa, hna, hqa, hda⟩ := goodPrinted_instr a ha hb0
  obtain ⟨ib, hpb, hwb, hnb, hqb, hdb⟩ := goodPrinted_instr b hbp hb1
  obtain ⟨na, oa, _, _, rfl, a1, _, _, _, a5, _⟩ := ha.ex
  obtain ⟨nb, ob, _, _, rfl, b1, _, _, _, b5, _⟩ := hbp.ex
  obtain ⟨x1, x2, x3, x4⟩ := printInstr_trim_chars na oa a1 a5
  obtain ⟨y1, y2, y3, y4⟩ := printInstr_trim_chars nb ob b1 b5
  have hhead : ∀ (nm : Text) (os : List Text), word nm = true → (∀ t ∈ os, word t = true) →
      (∀ c, (printInstr nm os).head? = some c → CQ1.isBlank c = false) ∧
      (∀ c, (printInstr nm os).getLast? = some c → CQ1.isBlank c = false) := by
    intro nm os hnm hos
    have ht := trim_printInstr nm os hnm hos
    constructor
    · intro c hc
      rw [printInstr_head nm os hnm] at hc
      exact word_head hnm c hc
    · intro c hc
      -- the last character of a trimmed text is not blank
      unfold printInstr at hc
      split at hc
      · exact word_last hnm c hc
      · rename_i hne
        have hne' : os ≠ [] := by intro e; simp [e] at hne
        have hi : intercalate ", ".toList os ≠ [] := by
          cases os with
          | nil => exact absurd rfl hne'
          | cons o os' =>
            have := word_ne_nil (hos o (by simp))
            cases os' with
            | nil => simpa [intercalate] using this
            | cons _ _ =>
              cases o with
              | nil => exact absurd rfl this
              | cons _ _ => simp [intercalate]
        have e2 : nm ++ ' ' :: intercalate ", ".toList os = (nm ++ [' ']) ++ intercalate ", ".toList os := by simp
        rw [e2, getLast?_append_ne _ _ hi] at hc
        exact intercalate_word_last os hne' hos c hc
  have hA := hhead na oa a1 a5
  have hB := hhead nb ob b1 b5
  have hparse := parseStmt_bundle _ _ ia ib hpa hpb x4 y4 hA.1 hA.2 hB.1 hB.2 x1 y1
  apply linesOK_single nq
  · simp
  · apply trim_id
    · intro c hc; simp at hc; subst hc; decide
    · intro c hc
      have e3 : "{ ".toList ++ printInstr na oa ++ " | ".toList ++ printInstr nb ob ++ " }".toList =
          ("{ ".toList ++ printInstr na oa ++ " | ".toList ++ printInstr nb ob ++ [' ']) ++ ['}'] := by simp
      rw [e3, List.getLast?_concat] at hc; injection hc with hc; subst hc; decide
  · intro c hc
    simp only [List.mem_append] at hc
    rcases hc with (((hc | hc) | hc) | hc) | hc
    · revert hc; revert c; decide
    · exact x3 c hc
    · revert hc; revert c; decide
    · exact y3 c hc
    · revert hc; revert c; decide
  · right
    refine ⟨by simp, _, hparse, ?_⟩
    simp only [CQ1.stmtWf, CQ1.firstSome, hwa, hwb]
    have hnd : (ia.qubits nq ++ ib.qubits nq).Nodup := by
      rw [List.nodup_append]
      refine ⟨hda, hdb, ?_⟩
      intro x hx y hy e
      subst e
      exact hdis x (hqa x hx) (hqb x hy)
    simp [hasDup_false_of_nodup _ hnd]

end Q1t.Proofs.CQasm

namespace Q1t.Proofs.CQasm
open Q1t Q1t.CQ Q1t.Gen

variable {F : Type}

theorem res_bind_ok {α β} (r : Res α) (f : α → Res β) (b : β) (h : (r >>= f) = .ok b) :
    ∃ a, r = .ok a ∧ f a = .ok b := by
  cases r with
  | ok a => exact ⟨a, rfl, h⟩
  | err e => cases h
  | panic => cases h

theorem take_drop_disjoint (bits : List Nat) (hn : bits.Nodup) (n0 : Nat) :
    ∀ b ∈ bits.take n0, b ∉ bits.drop n0 := by
  have := List.take_append_drop n0 bits
  rw [← this] at hn
  intro b h1 h2
  exact (List.nodup_append.mp hn).2.2 b h1 b h2 rfl

/-- a part of a bundle: one printed instruction on its placement -/
theorem part_ok (N : Num F) (hN : GoodNum N) (nq : Nat) (g : XGate F) (bits : List Nat) (hs : partSound g = true)
    (hl : bits.length = nrBits g) (hn : bits.Nodup) (hb : ∀ b ∈ bits, b < nq) (t : Text)
    (h : cQasm cqGates N (qNames nq) g bits = .ok t) : GoodPrinted nq bits t := by
  cases g with
  | lib name ps =>
    simp only [partSound, Bool.and_eq_true] at hs
    simp only [cQasm] at h
    obtain ⟨g, lines, hf, h1, h2, h3, h4⟩ := lib_ok N hN nq name ps bits hs.1 hl hn hb t h
    have hsing : (slinesOf g).length = 1 := by
      have := hs.2; simp only [libSingle, hf, singleLine, beq_iff_eq] at this; exact this
    rw [hsing] at h2
    cases lines with
    | nil => simp at h2
    | cons l0 ls0 =>
      cases ls0 with
      | cons _ _ => simp at h2
      | nil =>
        simp only [intercalate] at h3
        subst h3
        exact h4 _ (by simp)
  | ctl _ => simp [partSound] at hs
  | kron _ _ => simp [partSound] at hs
  | comp _ _ _ => simp [partSound] at hs
  | loop _ _ _ _ _ => simp [partSound] at hs

mutual
/-- `c_qasm` of a sound gate on a placement in range: every line is good -/
theorem cQasm_ok (N : Num F) (hN : GoodNum N) (nq : Nat) : (g : XGate F) → (bits : List Nat) →
    gateSound false g = true → bits.length = nrBits g → bits.Nodup → (∀ b ∈ bits, b < nq) → (t : Text) →
    cQasm cqGates N (qNames nq) g bits = .ok t → LinesOK nq t
  | .lib name ps, bits, hs, hl, hn, hb, t, h => by
    simp only [gateSound] at hs
    simp only [cQasm] at h
    obtain ⟨g, lines, _, h1, h2, h3, h4⟩ := lib_ok N hN nq name ps bits hs hl hn hb t h
    rw [h3]; exact linesOK_lines nq bits hb lines h4
  | .ctl _, _, _, _, _, _, _, h => by simp [cQasm] at h
  | .kron g0 g1, bits, hs, hl, hn, hb, t, h => by
    simp only [gateSound, Bool.false_eq_true, if_false, Bool.and_eq_true] at hs
    simp only [cQasm] at h
    simp only [nrBits] at hl
    have hlt : ¬ bits.length < nrBits g0 := by omega
    simp only [hlt, if_false] at h
    obtain ⟨op0, h0, h⟩ := res_bind_ok _ _ _ h
    obtain ⟨op1, h1, h⟩ := res_bind_ok _ _ _ h
    injection h with h
    subst h
    have hb0 : ∀ b ∈ bits.take (nrBits g0), b < nq := fun b hbm => hb b (List.mem_of_mem_take hbm)
    have hb1 : ∀ b ∈ bits.drop (nrBits g0), b < nq := fun b hbm => hb b (List.mem_of_mem_drop hbm)
    have p0 := part_ok N hN nq g0 _ hs.1 (by simp; omega) (List.Nodup.sublist (List.take_sublist _ _) hn) hb0 op0 h0
    have p1 := part_ok N hN nq g1 _ hs.2 (by simp; omega) (List.Nodup.sublist (List.drop_sublist _ _) hn) hb1 op1 h1
    exact bundle_linesOK nq _ _ hb0 hb1 (take_drop_disjoint bits hn _) op0 op1 p0 p1
  | .comp _ n ops, bits, hs, hl, hn, hb, t, h => by
    simp only [gateSound] at hs
    simp only [cQasm] at h
    obtain ⟨ts, h0, h⟩ := res_bind_ok _ _ _ h
    injection h with h
    subst h
    exact linesOK_intercalate nq ts (opsTexts_ok N hN nq ops n bits hs (by simpa [nrBits] using hl) hn hb ts h0)
  | .loop label iters _ n ops, bits, hs, hl, hn, hb, t, h => by
    simp only [gateSound, Bool.false_or, Bool.and_eq_true] at hs
    simp only [cQasm] at h
    obtain ⟨ts, h0, h⟩ := res_bind_ok _ _ _ h
    injection h with h
    subst h
    have hbody := linesOK_intercalate nq ts (opsTexts_ok N hN nq ops n bits hs.2 (by simpa [nrBits] using hl) hn hb ts h0)
    have hp : cqLoopPieces.map String.toList = [".".toList, "(".toList, ")\n".toList, "\n.end".toList] := by decide
    have e : fillFormat (cqLoopPieces.map String.toList) [label, natText iters, intercalate ['\n'] ts] =
        ('.' :: (label ++ '(' :: (natText iters ++ [')']))) ++ '\n' :: (intercalate ['\n'] ts ++ '\n' :: ".end".toList) := by
      simp [hp, fillFormat, List.append_assoc]
    rw [e]
    exact linesOK_append nq _ _ (linesOK_header nq label iters hs.1) (linesOK_append nq _ _ hbody (linesOK_end nq))
theorem opsTexts_ok (N : Num F) (hN : GoodNum N) (nq : Nat) : (ops : XOps F) → (n : Nat) → (bits : List Nat) →
    opsSound false n ops = true → bits.length = n → bits.Nodup → (∀ b ∈ bits, b < nq) → (ts : List Text) →
    opsTexts cqGates N (qNames nq) ops bits = .ok ts → ∀ t ∈ ts, LinesOK nq t
  | .nil, _, _, _, _, _, _, ts, h => by
    simp only [opsTexts] at h; injection h with h; subst h; simp
  | .cons g sub rest, n, bits, hs, hl, hn, hb, ts, h => by
    simp only [opsSound, Bool.and_eq_true, beq_iff_eq, decide_eq_true_eq, List.all_eq_true] at hs
    obtain ⟨⟨⟨⟨hs1, hs2⟩, hs3⟩, hs4⟩, hs5⟩ := hs
    simp only [opsTexts] at h
    have hsub : ∀ b ∈ sub, b < bits.length := fun b hbm => by rw [hl]; exact hs4 b hbm
    rw [gatherBits_ok bits sub hsub] at h
    simp only [Res.bind_ok] at h
    obtain ⟨t0, h0, h⟩ := res_bind_ok _ _ _ h
    obtain ⟨ts', h1, h⟩ := res_bind_ok _ _ _ h
    injection h with h
    subst h
    intro t ht
    rcases List.mem_cons.mp ht with rfl | ht
    · exact cQasm_ok N hN nq g _ hs1 (by simp [hs2]) (map_getD_nodup bits hn sub hs3 hsub)
        (placed_lt nq bits sub hb hsub) _ h0
    · exact opsTexts_ok N hN nq rest n bits hs5 hl hn hb ts' h1 t ht
end

end Q1t.Proofs.CQasm

namespace Q1t.Proofs.CQasm
open Q1t Q1t.CQ Q1t.Gen

variable {F : Type}

/-! ### `conditional_c_qasm` -/

theorem linesOK_replicate (nq : Nat) (t : Text) (h : LinesOK nq t) (k : Nat) :
    LinesOK nq (intercalate ['\n'] (List.replicate k t)) :=
  linesOK_intercalate nq _ (fun x hx => by rw [List.eq_of_mem_replicate hx]; exact h)

mutual
theorem condCQasm_ok (N : Num F) (hN : GoodNum N) (nq : Nat) (control : List Nat) (hc : control ≠ [])
    (hcb : ∀ k ∈ control, k < nq) : (g : XGate F) → (bits : List Nat) →
    gateSound true g = true → bits.length = nrBits g → bits.Nodup → (∀ b ∈ bits, b < nq) → (t : Text) →
    condCQasm cqGates N (intercalate ", ".toList (control.map bName)) (qNames nq) g bits = .ok t → LinesOK nq t
  | .lib name ps, bits, hs, hl, hn, hb, t, h => by
    simp only [gateSound] at hs
    simp only [condCQasm] at h
    obtain ⟨unc, h0, h⟩ := res_bind_ok _ _ _ h
    obtain ⟨g, lines, _, h1, h2, h3, h4⟩ := lib_ok N hN nq name ps bits hs hl hn hb unc h0
    cases lines with
    | nil => exact absurd rfl h1
    | cons l0 ls =>
      obtain ⟨name0, ops0, args, sig, rfl, a1, a2, a3, a4, a5, a6, a7, a8, a9, a10, a11, a12, a13⟩ := (h4 l0 (by simp)).ex
      rw [h3, intercalate_nl, defaultCond_printed control hc name0 ops0 _ a1 a4] at h
      injection h with h
      subst h
      rw [← intercalate_nl]
      apply linesOK_intercalate
      intro x hx
      rcases List.mem_cons.mp hx with rfl | hx
      · exact goodPrinted_cond_linesOK control hc hcb name0 ops0 (h4 _ (by simp)) hb a1 a5 args sig a6 a7 a8 a9 a10 a11 a12 a13
      · exact goodPrinted_linesOK x (h4 x (by simp [hx])) hb
  | .ctl _, _, _, _, _, _, _, h => by simp [condCQasm] at h
  | .kron g0 g1, bits, hs, hl, hn, hb, t, h => by
    simp only [gateSound, if_true, Bool.and_eq_true] at hs
    simp only [condCQasm] at h
    simp only [nrBits] at hl
    have hlt : ¬ bits.length < nrBits g0 := by omega
    simp only [hlt, if_false] at h
    obtain ⟨op0, h0, h⟩ := res_bind_ok _ _ _ h
    obtain ⟨op1, h1, h⟩ := res_bind_ok _ _ _ h
    injection h with h
    subst h
    have hb0 : ∀ b ∈ bits.take (nrBits g0), b < nq := fun b hbm => hb b (List.mem_of_mem_take hbm)
    have hb1 : ∀ b ∈ bits.drop (nrBits g0), b < nq := fun b hbm => hb b (List.mem_of_mem_drop hbm)
    exact linesOK_append nq _ _
      (condCQasm_ok N hN nq control hc hcb g0 _ hs.1 (by simp; omega) (List.Nodup.sublist (List.take_sublist _ _) hn) hb0 op0 h0)
      (condCQasm_ok N hN nq control hc hcb g1 _ hs.2 (by simp; omega) (List.Nodup.sublist (List.drop_sublist _ _) hn) hb1 op1 h1)
  | .comp _ n ops, bits, hs, hl, hn, hb, t, h => by
    simp only [gateSound] at hs
    simp only [condCQasm] at h
    obtain ⟨ts, h0, h⟩ := res_bind_ok _ _ _ h
    injection h with h
    subst h
    exact linesOK_intercalate nq ts
      (condOpsTexts_ok N hN nq control hc hcb ops n bits hs (by simpa [nrBits] using hl) hn hb ts h0)
  | .loop label iters _ n ops, bits, hs, hl, hn, hb, t, h => by
    simp only [gateSound, Bool.true_or, Bool.true_and] at hs
    simp only [condCQasm] at h
    by_cases hi : iters = 0
    · simp only [hi, if_true] at h
      injection h with h; subst h; exact linesOK_nil nq
    · simp only [hi, if_false] at h
      obtain ⟨ts, h0, h⟩ := res_bind_ok _ _ _ h
      injection h with h
      subst h
      exact linesOK_replicate nq _ (linesOK_intercalate nq ts
        (condOpsTexts_ok N hN nq control hc hcb ops n bits hs (by simpa [nrBits] using hl) hn hb ts h0)) iters
theorem condOpsTexts_ok (N : Num F) (hN : GoodNum N) (nq : Nat) (control : List Nat) (hc : control ≠ [])
    (hcb : ∀ k ∈ control, k < nq) : (ops : XOps F) → (n : Nat) → (bits : List Nat) →
    opsSound true n ops = true → bits.length = n → bits.Nodup → (∀ b ∈ bits, b < nq) → (ts : List Text) →
    condOpsTexts cqGates N (intercalate ", ".toList (control.map bName)) (qNames nq) ops bits = .ok ts →
    ∀ t ∈ ts, LinesOK nq t
  | .nil, _, _, _, _, _, _, ts, h => by
    simp only [condOpsTexts] at h; injection h with h; subst h; simp
  | .cons g sub rest, n, bits, hs, hl, hn, hb, ts, h => by
    simp only [opsSound, Bool.and_eq_true, beq_iff_eq, decide_eq_true_eq, List.all_eq_true] at hs
    obtain ⟨⟨⟨⟨hs1, hs2⟩, hs3⟩, hs4⟩, hs5⟩ := hs
    simp only [condOpsTexts] at h
    have hsub : ∀ b ∈ sub, b < bits.length := fun b hbm => by rw [hl]; exact hs4 b hbm
    rw [gatherBits_ok bits sub hsub] at h
    simp only [Res.bind_ok] at h
    obtain ⟨t0, h0, h⟩ := res_bind_ok _ _ _ h
    obtain ⟨ts', h1, h⟩ := res_bind_ok _ _ _ h
    injection h with h
    subst h
    intro t ht
    rcases List.mem_cons.mp ht with rfl | ht
    · exact condCQasm_ok N hN nq control hc hcb g _ hs1 (by simp [hs2]) (map_getD_nodup bits hn sub hs3 hsub)
        (placed_lt nq bits sub hb hsub) _ h0
    · exact condOpsTexts_ok N hN nq control hc hcb rest n bits hs5 hl hn hb ts' h1 t ht
end

/-! ### the circuit -/

/-- operations outside the syntactic defect classes (peeks and the like are refused, panics are no text: both are
outside the claim, so nothing is required of them) -/
def opSound (nq : Nat) : XOp F → Bool
  | .gate g bits => gateSound false g && bits.length == nrBits g && decide bits.Nodup && bits.all (· < nq)
  | .cond control _ g bits =>
      (if control.isEmpty then gateSound false g else gateSound true g) &&
        bits.length == nrBits g && decide bits.Nodup && bits.all (· < nq)
  | .measure q _ _ => q < nq
  | _ => true

/-- **the class of `cq_wellformed_partial`**: at least one qubit; every gate is applied to the right number of
distinct qubits in range (as any circuit that can be simulated is); the library gates are those with a good
translation (`gateGood`: all but `U2 U3 CH CRZ CU2 CV CVdg`) with direct (not reference) parameters; a `Kron` that is
not under a condition has two library gates with one-line translations as parts; loop labels are identifiers.
Conditional multi-line gates, empty / repeated control lists, over-wide targets, X/Y `measure_all`, nested loops and
`CCRZ` are INSIDE the class (well formed, only semantically wrong). -/
def sound (c : XCircuit F) : Bool := decide (0 < c.nq) && c.ops.all (opSound c.nq)

theorem linesOK_printed1 (nq : Nat) (name : Text) (op : Text) (arg : CQ1.Arg) (sig : List CQ1.Kind)
    (hn : word name = true) (hnc : notCondName name = true) (hh : name.head? ≠ some '.') (ho : word op = true)
    (hp : CQ1.parseArg op = some arg) (hs : CQ1.signature (String.ofList name) = some sig)
    (hm : CQ1.argsMatch [arg] sig = true) (hnm : String.ofList name ≠ "measure_all")
    (hq : ∀ k, CQ1.qIndex arg = some k → k < nq) (hbi : ∀ k, CQ1.bIndex arg = some k → k < nq) :
    LinesOK nq (printInstr name [op]) := by
  have hpi := parseInstr_plain name [op] [arg] sig hn (notCondName_spec hnc) (by simpa using ho) (by simp [hp]) hs hm
  apply lineOK_of_instr nq name [op] _ hn (by simpa using ho) hh hpi
  apply instrWf_ok nq _ hnm
  · intro k hk
    simp only [List.filterMap_cons, List.filterMap_nil] at hk
    cases hqi : CQ1.qIndex arg with
    | none => rw [hqi] at hk; simp at hk
    | some k' => rw [hqi] at hk; simp at hk; subst hk; exact hq _ hqi
  · simp only [List.filterMap_cons, List.filterMap_nil]
    cases CQ1.qIndex arg <;> simp
  · intro k hk
    simp only [List.nil_append, List.filterMap_cons, List.filterMap_nil] at hk
    cases hbi' : CQ1.bIndex arg with
    | none => rw [hbi'] at hk; simp at hk
    | some k' => rw [hbi'] at hk; simp at hk; subst hk; exact hbi _ hbi'

theorem linesOK_qline (nq : Nat) (name : String) (q : Nat) (hq : q < nq)
    (hname : name = "measure" ∨ name = "measure_x" ∨ name = "measure_y" ∨ name = "prep_z") :
    LinesOK nq (printInstr name.toList [qName q]) := by
  have key : word name.toList = true ∧ notCondName name.toList = true ∧ name.toList.head? ≠ some '.' ∧
      CQ1.signature (String.ofList name.toList) = some [.Q] ∧ String.ofList name.toList ≠ "measure_all" := by
    rcases hname with rfl | rfl | rfl | rfl <;> decide
  exact linesOK_printed1 nq _ (qName q) (.q q) [.Q] key.1 key.2.1 key.2.2.1 (word_qName q) (parseArg_qName q)
    key.2.2.2.1 rfl key.2.2.2.2 (fun k hk => by simp [CQ1.qIndex] at hk; omega) (fun k hk => by simp [CQ1.bIndex] at hk)

theorem linesOK_notLine (nq : Nat) (idx : Nat) (h : idx < nq) : LinesOK nq (notLine idx) := by
  have e : notLine idx = printInstr "not".toList [bName idx] := by simp [notLine, printInstr, intercalate]
  rw [e]
  exact linesOK_printed1 nq _ (bName idx) (.b idx) [.B] (by decide) (by decide) (by decide) (word_bName idx)
    (parseArg_bName idx) (by decide) rfl (by decide) (fun k hk => by simp [CQ1.qIndex] at hk)
    (fun k hk => by simp [CQ1.bIndex] at hk; omega)

theorem linesOK_measureAll (nq : Nat) : LinesOK nq "measure_all".toList := by
  have e : "measure_all".toList = printInstr "measure_all".toList [] := by simp [printInstr]
  rw [e]
  have hpi := parseInstr_plain "measure_all".toList [] [] [] (by decide) (notCondName_spec (by decide)) (by simp) rfl
    (by decide) rfl
  apply lineOK_of_instr nq _ [] _ (by decide) (by simp) (by decide) hpi
  have hn : String.ofList "measure_all".toList = "measure_all" := by decide
  simp only [CQ1.instrWf, CQ1.Instr.qubits, CQ1.Instr.bits, hn, if_true]
  have f1 : (List.range nq).find? (fun k => decide (nq ≤ k)) = none := by
    rw [List.find?_eq_none]; intro k hk; simp at hk ⊢; omega
  simp [f1, hasDup_false_of_nodup _ (List.nodup_range)]

end Q1t.Proofs.CQasm

namespace Q1t.Proofs.CQasm
open Q1t Q1t.CQ Q1t.Gen

variable {F : Type}

theorem mapRes_ok_mem {α β} (f : α → Res β) : ∀ (l : List α) (bs : List β), mapRes f l = .ok bs →
    ∀ b ∈ bs, ∃ a ∈ l, f a = .ok b
  | [], bs, h => by simp only [mapRes] at h; injection h with h; subst h; simp
  | a :: as, bs, h => by
    simp only [mapRes] at h
    obtain ⟨b0, h0, h⟩ := res_bind_ok _ _ _ h
    obtain ⟨bs', h1, h⟩ := res_bind_ok _ _ _ h
    injection h with h
    subst h
    intro b hb
    rcases List.mem_cons.mp hb with rfl | hb
    · exact ⟨a, by simp, h0⟩
    · obtain ⟨a', ha', hf⟩ := mapRes_ok_mem f as bs' h1 b hb
      exact ⟨a', by simp [ha'], hf⟩

theorem libSound_noParams (name : String)
    (h : (match cqGates.find? (·.name == name) with
          | some g => gateGood g && g.params.length == 0
          | none => true) = true) : libSound name ([] : List (Param F)) = true := by
  unfold libSound
  cases hf : cqGates.find? (·.name == name) with
  | none => rfl
  | some g =>
    rw [hf] at h
    simp only [Bool.and_eq_true, beq_iff_eq] at h
    simp [h.1, h.2]

theorem notBits_sub (control : List Nat) (target : Nat) : ∀ idx ∈ notBits control target, idx ∈ control := by
  intro idx h
  simp only [notBits, List.mem_filterMap] at h
  obtain ⟨p, hp, hq⟩ := h
  have := List.mem_zipIdx hp
  split at hq
  · cases hq
  · injection hq with hq; subst hq
    rw [this.2.2]; exact List.getElem_mem _

/-- one-qubit library gate lines that the circuit writes itself (`h`, `sdag` before `measure_all`) -/
theorem lib1_ok (N : Num F) (hN : GoodNum N) (nq : Nat) (name : String) (hsound : libSound name ([] : List (Param F)) = true)
    (h1 : libBits name = 1) (bit : Nat) (hb : bit < nq) (t : Text)
    (h : cQasm cqGates N (qNames nq) (.lib name []) [bit] = .ok t) : LinesOK nq t :=
  cQasm_ok N hN nq (.lib name []) [bit] (by simpa [gateSound] using hsound) (by simp [nrBits, h1]) (by simp)
    (by simpa using hb) t h

theorem exportOp_ok (N : Num F) (hN : GoodNum N) (nq : Nat) (op : XOp F) (hs : opSound nq op = true)
    (chunks : List Text) (h : exportOp cqGates N nq op = .ok chunks) : ∀ c ∈ chunks, LinesOK nq c := by
  cases op with
  | gate g bits =>
    simp only [opSound, Bool.and_eq_true, beq_iff_eq, decide_eq_true_eq, List.all_eq_true] at hs
    simp only [exportOp] at h
    obtain ⟨t, h0, h⟩ := res_bind_ok _ _ _ h
    injection h with h; subst h
    intro c hc; simp at hc; subst hc
    exact cQasm_ok N hN nq g bits hs.1.1.1 hs.1.1.2 hs.1.2 (fun b hb => by simpa using hs.2 b hb) _ h0
  | cond control target g bits =>
    simp only [opSound, Bool.and_eq_true, beq_iff_eq, decide_eq_true_eq, List.all_eq_true] at hs
    simp only [exportOp] at h
    by_cases hce : control.isEmpty = true
    · simp only [hce, if_true] at h hs
      obtain ⟨t, h0, h⟩ := res_bind_ok _ _ _ h
      injection h with h; subst h
      intro c hc; simp at hc; subst hc
      exact cQasm_ok N hN nq g bits hs.1.1.1 hs.1.1.2 hs.1.2 (fun b hb => by simpa using hs.2 b hb) _ h0
    · simp only [hce, Bool.false_eq_true, if_false] at h hs
      by_cases h64 : 64 < control.length
      · simp [h64] at h
      · simp only [h64, if_false] at h
        by_cases hany : control.any (fun idx => decide (nq ≤ idx)) = true
        · simp [hany] at h
        · simp only [hany, Bool.false_eq_true, if_false] at h
          obtain ⟨t, h0, h⟩ := res_bind_ok _ _ _ h
          injection h with h; subst h
          have hcb : ∀ k ∈ control, k < nq := by
            intro k hk
            simp only [List.any_eq_true, decide_eq_true_eq, not_exists, not_and] at hany
            have := hany k hk; omega
          have hcne : control ≠ [] := by intro e; simp [e] at hce
          have hnots : ∀ c ∈ (notBits control target).map notLine, LinesOK nq c := by
            intro c hc
            obtain ⟨idx, hidx, rfl⟩ := List.mem_map.mp hc
            exact linesOK_notLine nq idx (hcb idx (notBits_sub control target idx hidx))
          intro c hc
          simp only [List.mem_append, List.mem_singleton] at hc
          rcases hc with (hc | rfl) | hc
          · exact hnots c hc
          · exact condCQasm_ok N hN nq control hcne hcb g bits hs.1.1.1 hs.1.1.2 hs.1.2
              (fun b hb => by simpa using hs.2 b hb) _ h0
          · exact hnots c hc
  | reset q =>
    simp only [exportOp] at h
    cases hq : (qNames nq)[q]? with
    | none => rw [hq] at h; cases h
    | some nm =>
      rw [hq] at h
      injection h with h; subst h
      have hlt : q < nq := by
        have := List.getElem?_eq_some_iff.mp hq
        simpa [qNames] using this.1
      rw [qNames_get nq q hlt] at hq
      injection hq with hq; subst hq
      intro c hc; simp at hc; subst hc
      have := linesOK_qline nq "prep_z" q hlt (by simp)
      simpa [printInstr, intercalate] using this
  | resetAll =>
    simp only [exportOp] at h
    injection h with h; subst h
    intro c hc
    obtain ⟨nm, hnm, rfl⟩ := List.mem_map.mp hc
    simp only [qNames, List.mem_map, List.mem_range] at hnm
    obtain ⟨q, hq, rfl⟩ := hnm
    have := linesOK_qline nq "prep_z" q hq (by simp)
    simpa [printInstr, intercalate] using this
  | measure q c b =>
    simp only [opSound, decide_eq_true_eq] at hs
    simp only [exportOp] at h
    by_cases hqc : q ≠ c
    · simp [hqc] at h
    · simp only [hqc, if_false] at h
      injection h with h; subst h
      intro x hx; simp at hx; subst hx
      cases b with
      | X => have := linesOK_qline nq "measure_x" q hs (by simp); simpa [printInstr, intercalate, qName] using this
      | Y => have := linesOK_qline nq "measure_y" q hs (by simp); simpa [printInstr, intercalate, qName] using this
      | Z => have := linesOK_qline nq "measure" q hs (by simp); simpa [printInstr, intercalate, qName] using this
  | measureAll cbits b =>
    simp only [exportOp] at h
    by_cases hm : (!measureAllOk cbits.zipIdx) = true
    · simp [hm] at h
    · simp only [hm, Bool.false_eq_true, if_false] at h
      have hH : libSound "H" ([] : List (Param F)) = true := libSound_noParams "H" (by decide)
      have hS : libSound "Sdg" ([] : List (Param F)) = true := libSound_noParams "Sdg" (by decide)
      cases b with
      | Z =>
        simp only [Res.bind_ok, Res.pure_eq, List.nil_append] at h
        injection h with h; subst h
        intro x hx; simp at hx; subst hx; exact linesOK_measureAll nq
      | X =>
        simp only [] at h
        obtain ⟨pre, h0, h⟩ := res_bind_ok _ _ _ h
        injection h with h; subst h
        intro x hx
        rcases List.mem_append.mp hx with hx | hx
        · obtain ⟨bit, hbit, hf⟩ := mapRes_ok_mem _ _ _ h0 x hx
          exact lib1_ok N hN nq "H" hH (by decide) bit (by simpa using hbit) x hf
        · simp at hx; subst hx; exact linesOK_measureAll nq
      | Y =>
        simp only [] at h
        obtain ⟨pre, h0, h⟩ := res_bind_ok _ _ _ h
        injection h with h; subst h
        intro x hx
        rcases List.mem_append.mp hx with hx | hx
        · cases hmr : mapRes (fun bit => do
              let a ← cQasm cqGates N (qNames nq) (.lib "Sdg" []) [bit]
              let h ← cQasm cqGates N (qNames nq) (.lib "H" []) [bit]
              pure [a, h]) (List.range nq) with
          | err e => simp only [hmr, Res.map'] at h0; cases h0
          | panic => simp only [hmr, Res.map'] at h0; cases h0
          | ok pairs =>
            simp only [hmr, Res.map'] at h0
            injection h0 with h0; subst h0
            obtain ⟨pr, hpr, hxp⟩ := List.mem_flatten.mp hx
            obtain ⟨bit, hbit, hf⟩ := mapRes_ok_mem _ _ _ hmr pr hpr
            obtain ⟨a, ha, hf⟩ := res_bind_ok _ _ _ hf
            obtain ⟨hh, hhh, hf⟩ := res_bind_ok _ _ _ hf
            injection hf with hf; subst hf
            simp at hxp
            rcases hxp with rfl | rfl
            · exact lib1_ok N hN nq "Sdg" hS (by decide) bit (by simpa using hbit) _ ha
            · exact lib1_ok N hN nq "H" hH (by decide) bit (by simpa using hbit) _ hhh
        · simp at hx; subst hx; exact linesOK_measureAll nq
  | peek _ _ _ => simp [exportOp] at h
  | peekAll _ _ => simp [exportOp] at h
  | barrier _ =>
    simp only [exportOp] at h
    injection h with h; subst h; simp

/-- **cq_wellformed_partial** -/
theorem wellformed_of_sound (N : Num F) (hN : GoodNum N) (c : XCircuit F) (hs : sound c = true) (t : Text)
    (h : exportText cqGates N c = .ok t) :
    ∃ p, CQ1.parseProgram t = .ok p ∧ p.nq = c.nq ∧ CQ1.programWf p = none := by
  simp only [sound, Bool.and_eq_true, decide_eq_true_eq, List.all_eq_true] at hs
  unfold exportText at h
  rw [exportChunks_eq] at h
  cases hm : mapRes (exportOp cqGates N c.nq) c.ops with
  | err e => rw [hm] at h; cases h
  | panic => rw [hm] at h; cases h
  | ok lss =>
    rw [hm] at h
    simp only [Res.map'] at h
    injection h with h
    subst h
    have hchunks : ∀ x ∈ lss.flatten, LinesOK c.nq x := by
      intro x hx
      obtain ⟨ls, hls, hx⟩ := List.mem_flatten.mp hx
      obtain ⟨op, hop, hf⟩ := mapRes_ok_mem _ _ _ hm ls hls
      exact exportOp_ok N hN c.nq op (hs.2 op hop) ls hf x hx
    have hpos : c.nq > 0 := hs.1
    have e : chunksText (header c.nq ++ lss.flatten) =
        "version 1.0".toList ++ '\n' :: (("qubits ".toList ++ natText c.nq) ++ '\n' :: chunksText lss.flatten) := by
      simp [header, hpos, chunksText, List.append_assoc]
    rw [e]
    exact parseProgram_ok c.nq hs.1 _ (linesOK_chunks c.nq _ hchunks)

end Q1t.Proofs.CQasm

import Mathlib.Data.Matrix.Basic
import Mathlib.Data.Matrix.Mul
import Mathlib.Algebra.BigOperators.Fin
import Mathlib.Tactic.Ring
import Q1t.Proofs.AmpLaws
import Q1t.Spec.Unitaries
import Mathlib.LinearAlgebra.Matrix.Kronecker
import Mathlib.Data.Matrix.Block
set_option linter.unusedSimpArgs false
set_option linter.unusedSectionVars false
/-!
Bridge from list matrices (`LMat`) to Mathlib's `Matrix (Fin n) (Fin m) α`, and the combinator
facts of C05: `controlledMat = ctrl`, `kron = kronecker`, unitarity closed under product, powers,
`ctrl` and Kronecker product.
-/
namespace Q1t.LMat
variable {α : Type}

/-- `A` is an `n × m` matrix -/
def WF (n m : Nat) (A : LMat α) : Prop := A.length = n ∧ ∀ r ∈ A, r.length = m

/-- the `n × m` table of a function -/
def ofFn (n m : Nat) (f : Nat → Nat → α) : LMat α :=
  (List.range n).map fun i => (List.range m).map fun j => f i j

theorem wf_ofFn (n m : Nat) (f : Nat → Nat → α) : WF n m (ofFn n m f) := by
  constructor
  · simp [ofFn]
  · intro r hr
    simp only [ofFn, List.mem_map, List.mem_range] at hr
    obtain ⟨i, _, rfl⟩ := hr
    simp

section
variable [Zero α]

theorem get_ofFn {n m : Nat} (f : Nat → Nat → α) {i j : Nat} (hi : i < n) (hj : j < m) :
    get (ofFn n m f) i j = f i j := by
  simp [get, ofFn, List.getD, hi, hj]

theorem get_eq_getElem {n m : Nat} {A : LMat α} (h : WF n m A) {i j : Nat} (hi : i < n) (hj : j < m) :
    get A i j = (A[i]'(h.1 ▸ hi))[j]'(by rw [h.2 _ (List.getElem_mem _)]; exact hj) := by
  have hi' : i < A.length := h.1 ▸ hi
  have hj' : j < (A[i]).length := by rw [h.2 _ (List.getElem_mem _)]; exact hj
  simp [get, List.getD, hi', hj']

theorem ofFn_get {n m : Nat} {A : LMat α} (h : WF n m A) : ofFn n m (get A) = A := by
  apply List.ext_getElem
  · simp [ofFn, h.1]
  · intro i h1 h2
    have hi : i < n := by simpa [ofFn] using h1
    apply List.ext_getElem
    · simp [ofFn, h.2 _ (List.getElem_mem h2)]
    · intro j h3 h4
      have hj : j < m := by simpa [ofFn] using h3
      simp only [ofFn, List.getElem_map, List.getElem_range]
      exact get_eq_getElem h hi hj

/-- two `n × m` matrices with the same entries are equal -/
theorem ext_get {n m : Nat} {A B : LMat α} (hA : WF n m A) (hB : WF n m B)
    (h : ∀ i, i < n → ∀ j, j < m → get A i j = get B i j) : A = B := by
  rw [← ofFn_get hA, ← ofFn_get hB]
  simp only [ofFn]
  apply List.map_congr_left
  intro i hi
  apply List.map_congr_left
  intro j hj
  exact h i (List.mem_range.mp hi) j (List.mem_range.mp hj)
end

/-- the Mathlib matrix of a list matrix -/
def toM [Zero α] (n m : Nat) (A : LMat α) : Matrix (Fin n) (Fin m) α := Matrix.of fun i j => get A i j

theorem toM_inj [Zero α] {n m : Nat} {A B : LMat α} (hA : WF n m A) (hB : WF n m B)
    (h : toM n m A = toM n m B) : A = B :=
  ext_get hA hB fun i hi j hj => by
    have := congrFun (congrFun h ⟨i, hi⟩) ⟨j, hj⟩
    simpa [toM] using this


section ring
variable {α : Type} [CommRing α]

theorem foldl_add_eq (l : List α) (a : α) : l.foldl (· + ·) a = a + l.sum := by
  induction l generalizing a with
  | nil => simp
  | cons x xs ih => simp [ih, add_assoc]

theorem dot_eq_sum (r c : List α) (k : Nat) (hr : r.length = k) (hc : c.length = k) :
    dot r c = ∑ i : Fin k, r.getD i 0 * c.getD i 0 := by
  unfold dot
  rw [foldl_add_eq, zero_add]
  induction r generalizing c k with
  | nil => subst hr; simp
  | cons x xs ih =>
    cases c with
    | nil => subst hr; simp at hc
    | cons y ys =>
      subst hr
      simp only [List.length_cons] at hc ⊢
      rw [Fin.sum_univ_succ]
      simp only [List.zipWith_cons_cons, List.sum_cons]
      rw [ih ys xs.length rfl (by omega)]
      simp

theorem wf_transpose {n m : Nat} (B : LMat α) (hB : B.length = n) : WF m n (transpose m B) := by
  constructor
  · simp [transpose]
  · intro r hr
    simp only [transpose, List.mem_map, List.mem_range] at hr
    obtain ⟨j, _, rfl⟩ := hr
    simp [hB]

omit [CommRing α] in
theorem headD_length {n m : Nat} {B : LMat α} (hB : WF n m B) (hn : 0 < n) : (B.headD []).length = m := by
  cases B with
  | nil => simp [WF] at hB; omega
  | cons r rs => simpa using hB.2 r (by simp)

theorem wf_mul {n k m : Nat} {A B : LMat α} (hA : WF n k A) (hB : WF k m B) (hk : 0 < k) :
    WF n m (mul A B) := by
  constructor
  · simp [mul, hA.1]
  · intro r hr
    simp only [mul, List.mem_map] at hr
    obtain ⟨row, _, rfl⟩ := hr
    rw [headD_length hB hk]
    simp [transpose]

theorem get_mul {n k m : Nat} {A B : LMat α} (hA : WF n k A) (hB : WF k m B) (hk : 0 < k)
    {i j : Nat} (hi : i < n) (hj : j < m) :
    get (mul A B) i j = ∑ l : Fin k, get A i l * get B l j := by
  have hi' : i < A.length := hA.1 ▸ hi
  have : get (mul A B) i j = dot A[i] (B.map fun row => row.getD j 0) := by
    unfold mul
    rw [headD_length hB hk]
    simp [get, transpose, List.getD, hi', hj]
  rw [this, dot_eq_sum _ _ k (hA.2 _ (List.getElem_mem _)) (by simp [hB.1])]
  apply Finset.sum_congr rfl
  intro l _
  have hl : (l : Nat) < B.length := hB.1 ▸ l.2
  simp [get, List.getD, hi', hl]

theorem toM_mul {n k m : Nat} {A B : LMat α} (hA : WF n k A) (hB : WF k m B) (hk : 0 < k) :
    toM n m (mul A B) = toM n k A * toM k m B := by
  ext i j
  simp only [toM, Matrix.of_apply, Matrix.mul_apply]
  exact get_mul hA hB hk i.2 j.2

theorem identity_eq_ofFn (n : Nat) : (identity n : LMat α) = ofFn n n fun i j => if i = j then 1 else 0 := rfl

theorem wf_identity (n : Nat) : WF n n (identity n : LMat α) := wf_ofFn _ _ _

theorem toM_identity (n : Nat) : toM n n (identity n : LMat α) = 1 := by
  ext i j
  simp only [toM, Matrix.of_apply, identity_eq_ofFn, get_ofFn _ i.2 j.2, Matrix.one_apply, Fin.ext_iff]

omit [CommRing α] in
theorem wf_mapEntries {β} {n m : Nat} (f : α → β) {A : LMat α} (hA : WF n m A) : WF n m (mapEntries f A) := by
  constructor
  · simp [mapEntries, hA.1]
  · intro r hr
    simp only [mapEntries, List.mem_map] at hr
    obtain ⟨r', hr', rfl⟩ := hr
    simp [hA.2 r' hr']

theorem get_mapEntries {n m : Nat} (f : α → α) {A : LMat α} (hA : WF n m A) {i j} (hi : i < n) (hj : j < m) :
    get (mapEntries f A) i j = f (get A i j) := by
  rw [get_eq_getElem (wf_mapEntries f hA) hi hj, get_eq_getElem hA hi hj]
  simp [mapEntries]

theorem get_transpose {n m : Nat} {A : LMat α} (hA : WF n m A) {i j} (hi : i < m) (hj : j < n) :
    get (transpose m A) i j = get A j i := by
  have hj' : j < A.length := hA.1 ▸ hj
  simp [get, transpose, List.getD, hi, hj']


end ring


section unitary
open Q1t.Spec
variable {α P : Type} [CommRing α] [Amp α P]

/-- conjugate transpose in Mathlib terms, w.r.t. the abstract conjugation of `Amp` -/
def adjM {ι κ : Type} (U : Matrix ι κ α) (P : Type) [Amp α P] : Matrix κ ι α :=
  (U.map (Amp.conj P)).transpose

variable (P) in
/-- `M` is an `n × n` matrix with `M·Mᴴ = 1` -/
def Unitary (n : Nat) (M : LMat α) : Prop := WF n n M ∧ mulAdjoint (P := P) M = identity n

theorem toM_mulAdjoint {n : Nat} {M : LMat α} (hM : WF n n M) (hn : 0 < n) :
    toM n n (mulAdjoint (P := P) M) = toM n n M * adjM (toM n n M) P := by
  unfold mulAdjoint
  rw [hM.1, toM_mul hM (wf_transpose _ (by simp [mapEntries, hM.1])) hn]
  congr 1
  ext i j
  simp only [toM, adjM, Matrix.of_apply, Matrix.transpose_apply, Matrix.map_apply]
  rw [get_transpose (wf_mapEntries _ hM) i.2 j.2, get_mapEntries _ hM j.2 i.2]

theorem wf_mulAdjoint {n : Nat} {M : LMat α} (hM : WF n n M) (hn : 0 < n) :
    WF n n (mulAdjoint (P := P) M) := by
  unfold mulAdjoint
  rw [hM.1]
  exact wf_mul hM (wf_transpose _ (by simp [mapEntries, hM.1])) hn

theorem unitary_iff {n : Nat} {M : LMat α} (hn : 0 < n) :
    Unitary P n M ↔ WF n n M ∧ toM n n M * adjM (toM n n M) P = 1 := by
  constructor
  · rintro ⟨hM, h⟩
    refine ⟨hM, ?_⟩
    rw [← toM_mulAdjoint hM hn, h, toM_identity]
  · rintro ⟨hM, h⟩
    refine ⟨hM, toM_inj (wf_mulAdjoint hM hn) (wf_identity n) ?_⟩
    rw [toM_mulAdjoint hM hn, h, toM_identity]

section lawful
variable (h : LawfulAmp α P)
include h

theorem adjM_mul {ι κ μ : Type} [Fintype κ] (A : Matrix ι κ α) (B : Matrix κ μ α) :
    adjM (A * B) P = adjM B P * adjM A P := by
  ext i j
  simp only [adjM, Matrix.transpose_apply, Matrix.map_apply, Matrix.mul_apply]
  classical
  have hsum : ∀ (s : Finset κ) (f : κ → α), Amp.conj P (∑ x ∈ s, f x) = ∑ x ∈ s, Amp.conj P (f x) := by
    intro s f
    induction s using Finset.induction_on with
    | empty => simp [h.conj_zero]
    | insert a s ha ih => rw [Finset.sum_insert ha, Finset.sum_insert ha, h.conj_add, ih]
  rw [hsum]
  apply Finset.sum_congr rfl
  intro x _
  rw [h.conj_mul, mul_comm]

theorem adjM_one {ι : Type} [DecidableEq ι] : adjM (1 : Matrix ι ι α) P = 1 := by
  ext i j
  simp only [adjM, Matrix.transpose_apply, Matrix.map_apply, Matrix.one_apply]
  by_cases hij : i = j
  · subst hij; simp [h.conj_one]
  · have : ¬ j = i := fun e => hij e.symm
    simp [hij, this, h.conj_zero]

/-- unitarity is preserved by the matrix product -/
theorem unitary_mul {n : Nat} {A B : LMat α} (hn : 0 < n) (hA : Unitary P n A) (hB : Unitary P n B) :
    Unitary P n (mul A B) := by
  rw [unitary_iff hn] at hA hB ⊢
  refine ⟨wf_mul hA.1 hB.1 hn, ?_⟩
  rw [toM_mul hA.1 hB.1 hn, adjM_mul h, Matrix.mul_assoc, ← Matrix.mul_assoc (toM n n B), hB.2,
    Matrix.one_mul, hA.2]

theorem unitary_identity {n : Nat} (hn : 0 < n) : Unitary P n (identity n : LMat α) := by
  rw [unitary_iff hn]
  exact ⟨wf_identity n, by rw [toM_identity, adjM_one h, Matrix.one_mul]⟩

/-- unitarity is preserved by powers -/
theorem unitary_mpow {n : Nat} {A : LMat α} (hn : 0 < n) (hA : Unitary P n A) (k : Nat) :
    Unitary P n (mpow A k) := by
  induction k with
  | zero => simp only [mpow]; rw [hA.1.1]; exact unitary_identity h hn
  | succ k ih => simp only [mpow]; exact unitary_mul h hn hA ih

end lawful

theorem toM_mpow {n : Nat} {A : LMat α} (hn : 0 < n) (hA : WF n n A) (k : Nat) :
    WF n n (mpow A k) ∧ toM n n (mpow A k) = toM n n A ^ k := by
  induction k with
  | zero => simp only [mpow]; rw [hA.1]; exact ⟨wf_identity n, by rw [toM_identity, pow_zero]⟩
  | succ k ih =>
    simp only [mpow]
    exact ⟨wf_mul hA ih.1 hn, by rw [toM_mul hA ih.1 hn, ih.2, pow_succ']⟩


end unitary


section ctrl
open Q1t.Spec Q1t.Gate
variable {α P : Type} [CommRing α] [Amp α P]

theorem wf_ctrl {g : Nat} {M : LMat α} (hM : WF g g M) : WF (g + g) (g + g) (ctrl M) := by
  constructor
  · simp [ctrl, hM.1]
  · intro r hr
    simp only [ctrl, List.mem_append, List.mem_map, List.mem_range] at hr
    rcases hr with ⟨i, _, rfl⟩ | ⟨row, hrow, rfl⟩
    · simp [hM.1]; omega
    · simp [hM.1, hM.2 row hrow]

theorem get_ctrl {g : Nat} {M : LMat α} (hM : WF g g M) {i j : Nat} (hi : i < g + g) (hj : j < g + g) :
    get (ctrl M) i j =
      if i < g then (if i = j then 1 else 0) else if j < g then 0 else get M (i - g) (j - g) := by
  have hl := hM.1
  by_cases h1 : i < g
  · have h2 : j < 2 * g := by omega
    simp [get, ctrl, List.getD, List.getElem?_append, hl, h1, h2]
  · have h3 : i - g < M.length := by omega
    have hrow : (M[i - g]).length = g := hM.2 _ (List.getElem_mem _)
    by_cases h2 : j < g
    · simp [get, ctrl, List.getD, List.getElem?_append, hl, h1, h2, List.getElem?_eq_getElem h3]
    · have h4 : j - g < (M[i - g]).length := by omega
      simp [get, ctrl, List.getD, List.getElem?_append, hl, h1, h2, List.getElem?_eq_getElem h3]

theorem controlledMat_def (M : LMat α) : controlledMat M = ofFn (2 * M.length) (2 * M.length) fun i j =>
    if i < M.length ∨ j < M.length then (if i = j then 1 else 0) else get M (i - M.length) (j - M.length) := rfl

theorem wf_controlledMat {g : Nat} {M : LMat α} (hM : M.length = g) :
    WF (g + g) (g + g) (controlledMat M) := by
  rw [controlledMat_def, hM, two_mul]
  exact wf_ofFn _ _ _

/-- `C::matrix` builds the direct sum `1 ⊕ M` -/
theorem controlledMat_eq_ctrl {g : Nat} {M : LMat α} (hM : WF g g M) : controlledMat M = ctrl M := by
  apply ext_get (wf_controlledMat hM.1) (wf_ctrl hM)
  intro i hi j hj
  rw [get_ctrl hM hi hj]
  have : controlledMat M = ofFn (g + g) (g + g) fun i j =>
      if i < g ∨ j < g then (if i = j then 1 else 0) else get M (i - g) (j - g) := by
    rw [controlledMat_def, hM.1, two_mul]
  rw [this, get_ofFn _ hi hj]
  by_cases h1 : i < g
  · simp [h1]
  · by_cases h2 : j < g
    · have : i ≠ j := by omega
      simp [h1, h2, this]
    · simp [h1, h2]

theorem toM_ctrl {g : Nat} {M : LMat α} (hM : WF g g M) :
    toM (g + g) (g + g) (ctrl M) =
      Matrix.reindex finSumFinEquiv finSumFinEquiv (Matrix.fromBlocks 1 0 0 (toM g g M)) := by
  ext i j
  simp only [toM, Matrix.of_apply, Matrix.reindex_apply, Matrix.submatrix_apply]
  rw [get_ctrl hM i.2 j.2]
  obtain ⟨i', rfl⟩ := finSumFinEquiv.surjective i
  obtain ⟨j', rfl⟩ := finSumFinEquiv.surjective j
  simp only [Equiv.symm_apply_apply]
  rcases i' with i' | i' <;> rcases j' with j' | j' <;>
    simp [Matrix.one_apply, Fin.ext_iff, toM]
  · by_cases hh : i' = j'
    · subst hh; simp
    · have h1 : ¬ (i' : Nat) = (j' : Nat) := fun e => hh (Fin.ext e)
      simp [h1, hh]
  · intro e; have := i'.2; omega


end ctrl


section kron
open Q1t.Spec Q1t.Gate
variable {α P : Type} [CommRing α] [Amp α P]

omit [CommRing α] in
theorem adjM_submatrix {ι κ ι' κ' : Type} (B : Matrix ι κ α) (f : ι' → ι) (g : κ' → κ) :
    adjM (B.submatrix f g) P = (adjM B P).submatrix g f := rfl

omit [CommRing α] in
theorem adjM_fromBlocks {n m o p : Type} (A : Matrix n o α) (B : Matrix n p α) (C : Matrix m o α)
    (D : Matrix m p α) :
    adjM (Matrix.fromBlocks A B C D) P = Matrix.fromBlocks (adjM A P) (adjM C P) (adjM B P) (adjM D P) := by
  simp only [adjM, Matrix.fromBlocks_map, Matrix.fromBlocks_transpose]

section lawful
variable (h : LawfulAmp α P)
include h

theorem adjM_zero {ι κ : Type} : adjM (0 : Matrix ι κ α) P = 0 := by
  ext i j; simp [adjM, h.conj_zero]

/-- unitarity is preserved by `ctrl` -/
theorem unitary_ctrl {g : Nat} {M : LMat α} (hg : 0 < g) (hM : Unitary P g M) :
    Unitary P (g + g) (ctrl M) := by
  have hgg : 0 < g + g := by omega
  rw [unitary_iff hg] at hM
  rw [unitary_iff hgg]
  refine ⟨wf_ctrl hM.1, ?_⟩
  rw [toM_ctrl hM.1, Matrix.reindex_apply, adjM_submatrix, Matrix.submatrix_mul_equiv, adjM_fromBlocks,
    adjM_one h, adjM_zero h, Matrix.fromBlocks_multiply, hM.2]
  simp [Matrix.fromBlocks_one]

theorem adjM_kronecker {ι κ ι' κ' : Type} (A : Matrix ι κ α) (B : Matrix ι' κ' α) :
    adjM (Matrix.kroneckerMap (· * ·) A B) P = Matrix.kroneckerMap (· * ·) (adjM A P) (adjM B P) := by
  ext i j
  simp [adjM, Matrix.kroneckerMap_apply, h.conj_mul]

end lawful

theorem wf_kronecker {ra ca rb cb : Nat} {A B : LMat α} (hA : WF ra ca A) (hB : WF rb cb B)
    (ha : 0 < ra) (hb : 0 < rb) : WF (ra * rb) (ca * cb) (kronecker A B) := by
  unfold kronecker
  simp only [hA.1, hB.1, headD_length hA ha, headD_length hB hb]
  exact wf_ofFn _ _ _

theorem get_kronecker {ra ca rb cb : Nat} {A B : LMat α} (hA : WF ra ca A) (hB : WF rb cb B)
    (ha : 0 < ra) (hb : 0 < rb) {i j : Nat} (hi : i < ra * rb) (hj : j < ca * cb) :
    get (kronecker A B) i j = get A (i / rb) (j / cb) * get B (i % rb) (j % cb) := by
  have : kronecker A B = ofFn (ra * rb) (ca * cb) fun i j =>
      get A (i / rb) (j / cb) * get B (i % rb) (j % cb) := by
    unfold kronecker
    simp only [hA.1, hB.1, headD_length hA ha, headD_length hB hb]
    rfl
  rw [this, get_ofFn _ hi hj]

theorem toM_kronecker {ra ca rb cb : Nat} {A B : LMat α} (hA : WF ra ca A) (hB : WF rb cb B)
    (ha : 0 < ra) (hb : 0 < rb) :
    toM (ra * rb) (ca * cb) (kronecker A B) =
      Matrix.reindex finProdFinEquiv finProdFinEquiv
        (Matrix.kroneckerMap (· * ·) (toM ra ca A) (toM rb cb B)) := by
  ext i j
  simp only [toM, Matrix.of_apply, Matrix.reindex_apply, Matrix.submatrix_apply,
    Matrix.kroneckerMap_apply]
  rw [get_kronecker hA hB ha hb i.2 j.2]
  simp [finProdFinEquiv, Fin.divNat, Fin.modNat]

/-- unitarity is preserved by the Kronecker product -/
theorem unitary_kronecker (h : LawfulAmp α P) {n m : Nat} {A B : LMat α} (hn : 0 < n) (hm : 0 < m)
    (hA : Unitary P n A) (hB : Unitary P m B) : Unitary P (n * m) (kronecker A B) := by
  have hnm : 0 < n * m := Nat.mul_pos hn hm
  rw [unitary_iff hn] at hA
  rw [unitary_iff hm] at hB
  rw [unitary_iff hnm]
  refine ⟨wf_kronecker hA.1 hB.1 hn hm, ?_⟩
  rw [toM_kronecker hA.1 hB.1 hn hm, Matrix.reindex_apply, adjM_submatrix, Matrix.submatrix_mul_equiv,
    adjM_kronecker h, ← Matrix.mul_kronecker_mul, hA.2, hB.2]
  simp


end kron


section kronList
open Q1t.Spec Q1t.Gate
variable {α P : Type} [CommRing α] [Amp α P]

theorem length_flatMap_const {β γ : Type} (l : List β) (f : β → List γ) (n : Nat)
    (hf : ∀ x ∈ l, (f x).length = n) : (l.flatMap f).length = l.length * n := by
  induction l with
  | nil => simp
  | cons x xs ih =>
    rw [List.flatMap_cons, List.length_append, hf x (by simp), ih (fun y hy => hf y (by simp [hy]))]
    simp [Nat.succ_mul, Nat.add_comm]

theorem getElem?_flatMap_const {β γ : Type} (l : List β) (f : β → List γ) (n : Nat) (hn : 0 < n)
    (hf : ∀ x ∈ l, (f x).length = n) (i : Nat) :
    (l.flatMap f)[i]? = (l[i / n]?).bind fun x => (f x)[i % n]? := by
  induction l generalizing i with
  | nil => simp
  | cons x xs ih =>
    have hx : (f x).length = n := hf x (by simp)
    rw [List.flatMap_cons]
    by_cases hi : i < n
    · rw [List.getElem?_append_left (by omega), Nat.div_eq_of_lt hi, Nat.mod_eq_of_lt hi]
      simp
    · have hi' : n ≤ i := by omega
      rw [List.getElem?_append_right (by omega), hx, ih (fun y hy => hf y (by simp [hy]))]
      have h1 : i / n = (i - n) / n + 1 := by
        rw [Nat.div_eq_sub_div hn hi']
      have h2 : i % n = (i - n) % n := Nat.mod_eq_sub_mod hi'
      rw [h1, h2]
      simp

/-- a row of `kron_mat`: every element of `ra` scales the whole row `rb` -/
def krow (ra rb : List α) : List α := ra.flatMap fun x => rb.map fun y => y * x

theorem kron_def (A B : LMat α) : kron A B = A.flatMap fun ra => B.map fun rb => krow ra rb := rfl

theorem wf_kron {ra ca rb cb : Nat} {A B : LMat α} (hA : WF ra ca A) (hB : WF rb cb B) :
    WF (ra * rb) (ca * cb) (kron A B) := by
  constructor
  · rw [kron_def, length_flatMap_const _ _ rb (by intro x _; simp [hB.1]), hA.1]
  · intro r hr
    simp only [kron_def, List.mem_flatMap, List.mem_map] at hr
    obtain ⟨r1, hr1, r2, hr2, rfl⟩ := hr
    rw [krow, length_flatMap_const _ _ cb (by intro x _; simp [hB.2 r2 hr2]), hA.2 r1 hr1]

theorem get_kron {ra ca rb cb : Nat} {A B : LMat α} (hA : WF ra ca A) (hB : WF rb cb B)
    (hb : 0 < rb) (hcb : 0 < cb) {i j : Nat} (hi : i < ra * rb) (hj : j < ca * cb) :
    get (kron A B) i j = get B (i % rb) (j % cb) * get A (i / rb) (j / cb) := by
  have h1 : i / rb < ra := Nat.div_lt_of_lt_mul (by rwa [Nat.mul_comm] at hi)
  have h2 : i % rb < rb := Nat.mod_lt _ hb
  have h3 : j / cb < ca := Nat.div_lt_of_lt_mul (by rwa [Nat.mul_comm] at hj)
  have h4 : j % cb < cb := Nat.mod_lt _ hcb
  have h1' : i / rb < A.length := hA.1 ▸ h1
  have h2' : i % rb < B.length := hB.1 ▸ h2
  have hrow : (kron A B)[i]? = some (krow A[i / rb] B[i % rb]) := by
    rw [kron_def, getElem?_flatMap_const _ _ rb hb (by intro x _; simp [hB.1])]
    simp [List.getElem?_eq_getElem h1', h2']
  have h3' : j / cb < (A[i / rb]).length := by rw [hA.2 _ (List.getElem_mem _)]; exact h3
  have h4' : j % cb < (B[i % rb]).length := by rw [hB.2 _ (List.getElem_mem _)]; exact h4
  have hent : (krow A[i / rb] B[i % rb])[j]? = some ((B[i % rb])[j % cb] * (A[i / rb])[j / cb]) := by
    rw [krow, getElem?_flatMap_const _ _ cb hcb
      (by intro x _; simp [hB.2 _ (List.getElem_mem h2')])]
    simp [List.getElem?_eq_getElem h3', h4']
  rw [get_eq_getElem hA h1 h3, get_eq_getElem hB h2 h4]
  simp [get, List.getD, hrow, hent]

/-- `cmatrix::kron_mat` is the Kronecker product (non-empty well-formed rectangular matrices) -/
theorem kron_eq_kronecker {ra ca rb cb : Nat} {A B : LMat α} (hA : WF ra ca A) (hB : WF rb cb B)
    (ha : 0 < ra) (hb : 0 < rb) (hcb : 0 < cb) : kron A B = kronecker A B := by
  apply ext_get (wf_kron hA hB) (wf_kronecker hA hB ha hb)
  intro i hi j hj
  rw [get_kron hA hB hb hcb hi hj, get_kronecker hA hB ha hb hi hj, mul_comm]


end kronList

end Q1t.LMat

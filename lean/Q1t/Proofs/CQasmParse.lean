import Q1t.Proofs.CQasmLex
set_option linter.unusedSimpArgs false
/-!
C12 (`cq_wellformed_partial`), part 2: printing an instruction the way the exporter does and parsing it back with
`Spec/CQ1` — plain, with a `c-` prefix, inside a bundle; sub-circuit headers; lines and programs.
-/
namespace Q1t.Proofs.CQasm
open Q1t Q1t.CQ

/-- `name op, op, …` (just `name` without operands) -/
def printInstr (name : Text) (ops : List Text) : Text :=
  if ops.isEmpty then name else name ++ ' ' :: intercalate ", ".toList ops

theorem getLast?_append_ne {α} (l l' : List α) (h : l' ≠ []) : (l ++ l').getLast? = l'.getLast? := by
  rw [List.getLast?_append]
  cases hl : l'.getLast? with
  | none => exact absurd (List.getLast?_eq_none_iff.mp hl) h
  | some a => rfl

theorem match_not_cond {β} (name : Text) (hc : ∀ g, name ≠ 'c' :: '-' :: g) (f : Text → β) (d : β) :
    (match (generalizing := false) name with | 'c' :: '-' :: g => f g | _ => d) = d := by
  split
  · rename_i g; exact absurd rfl (hc g)
  · rfl

theorem filterMap_bIndex (control : List Nat) : (control.map CQ1.Arg.b).filterMap CQ1.bIndex = control := by
  induction control with
  | nil => rfl
  | cons c cs ih => simp [List.filterMap_cons, CQ1.bIndex, ih]

theorem intercalate_word_head : ∀ (ops : List Text), ops ≠ [] → (∀ t ∈ ops, word t = true) →
    ∀ c, (intercalate ", ".toList ops).head? = some c → CQ1.isBlank c = false
  | [], h, _ => absurd rfl h
  | [t], _, hw => by simpa [intercalate] using word_head (hw t (by simp))
  | t :: t' :: ts, _, hw => by
    intro c hc
    have hne := word_ne_nil (hw t (by simp))
    cases t with
    | nil => exact absurd rfl hne
    | cons x xs =>
      simp [intercalate] at hc
      subst hc
      exact word_head (hw (x :: xs) (by simp)) x rfl

theorem intercalate_word_last : ∀ (ops : List Text), ops ≠ [] → (∀ t ∈ ops, word t = true) →
    ∀ c, (intercalate ", ".toList ops).getLast? = some c → CQ1.isBlank c = false
  | [], h, _ => absurd rfl h
  | [t], _, hw => by simpa [intercalate] using word_last (hw t (by simp))
  | t :: t' :: ts, _, hw => by
    intro c hc
    have ih := intercalate_word_last (t' :: ts) (by simp) (fun x hx => hw x (by simp [hx]))
    apply ih c
    have hne : intercalate ", ".toList (t' :: ts) ≠ [] := by
      have := word_ne_nil (hw t' (by simp))
      cases ts with
      | nil => simpa [intercalate] using this
      | cons a as =>
        cases t' with
        | nil => exact absurd rfl this
        | cons _ _ => simp [intercalate]
    show (intercalate ", ".toList (t' :: ts)).getLast? = some c
    have e : intercalate ", ".toList (t :: t' :: ts) = (t ++ ", ".toList) ++ intercalate ", ".toList (t' :: ts) := rfl
    rw [e, getLast?_append_ne _ _ hne] at hc
    exact hc

theorem takeWhile_word (name r : Text) (hn : word name = true) :
    (name ++ ' ' :: r).takeWhile (fun c => !CQ1.isBlank c) = name := by
  have hall : ∀ c ∈ name, CQ1.isBlank c = false := by
    intro c hc
    simp only [word, Bool.and_eq_true, List.all_eq_true] at hn
    exact okChar_not_blank (hn.2 c hc)
  induction name with
  | nil => simp [List.takeWhile, CQ1.isBlank]
  | cons x xs ih =>
    simp only [List.cons_append, List.takeWhile, hall x (by simp), Bool.not_false]
    congr 1
    have : ∀ c ∈ xs, CQ1.isBlank c = false := fun c hc => hall c (by simp [hc])
    clear ih hn
    induction xs with
    | nil => simp [List.takeWhile, CQ1.isBlank]
    | cons y ys ih2 =>
      simp only [List.cons_append, List.takeWhile, this y (by simp), Bool.not_false]
      congr 1
      exact ih2 (fun c hc => by
        rcases List.mem_cons.mp hc with rfl | h
        · exact hall _ (by simp)
        · exact hall c (by simp [h])) (fun c hc => this c (by simp [hc]))

theorem takeWhile_word_all (name : Text) (hn : word name = true) :
    name.takeWhile (fun c => !CQ1.isBlank c) = name := by
  have hall : ∀ c ∈ name, CQ1.isBlank c = false := by
    intro c hc
    simp only [word, Bool.and_eq_true, List.all_eq_true] at hn
    exact okChar_not_blank (hn.2 c hc)
  clear hn
  induction name with
  | nil => rfl
  | cons x xs ih =>
    simp only [List.takeWhile, hall x (by simp), Bool.not_false]
    rw [ih (fun c hc => hall c (by simp [hc]))]

/-- L1: a printed instruction is its own trim -/
theorem trim_printInstr (name : Text) (ops : List Text) (hn : word name = true) (ho : ∀ t ∈ ops, word t = true) :
    CQ1.trim (printInstr name ops) = printInstr name ops := by
  unfold printInstr
  cases hops : ops with
  | nil => simp [trim_word hn]
  | cons o os =>
    have hne : ops ≠ [] := by rw [hops]; simp
    simp only [List.isEmpty_cons, Bool.false_eq_true, if_false]
    apply trim_id
    · intro c hc
      have := word_ne_nil hn
      cases name with
      | nil => exact absurd rfl this
      | cons x xs => simp at hc; subst hc; exact word_head hn x rfl
    · intro c hc
      have hi : intercalate ", ".toList (o :: os) ≠ [] := by
        have := word_ne_nil (ho o (by rw [hops]; simp))
        cases os with
        | nil => simpa [intercalate] using this
        | cons a as =>
          cases o with
          | nil => exact absurd rfl this
          | cons _ _ => simp [intercalate]
      have e : name ++ ' ' :: intercalate ", ".toList (o :: os) = (name ++ [' ']) ++ intercalate ", ".toList (o :: os) := by simp
      rw [e, getLast?_append_ne _ _ hi] at hc
      exact intercalate_word_last (o :: os) (by simp) (fun t ht => ho t (by rw [hops]; exact ht)) c hc

/-- L2: the instruction name -/
theorem name_printInstr (name : Text) (ops : List Text) (hn : word name = true) :
    (printInstr name ops).takeWhile (fun c => !CQ1.isBlank c) = name := by
  unfold printInstr
  split
  · exact takeWhile_word_all name hn
  · exact takeWhile_word name _ hn

/-- L3: the operand texts -/
theorem operands_printInstr (name : Text) (ops : List Text) (ho : ∀ t ∈ ops, word t = true) :
    (let rest := CQ1.trim ((printInstr name ops).drop name.length)
     if rest.isEmpty then [] else (CQ1.splitOnChar ',' rest).map CQ1.trim) = ops := by
  unfold printInstr
  cases hops : ops with
  | nil => simp [trim_nil]
  | cons o os =>
    simp only [List.isEmpty_cons, Bool.false_eq_true, if_false, List.drop_left']
    have hne : (o :: os) ≠ [] := by simp
    have hw : ∀ t ∈ o :: os, word t = true := fun t ht => ho t (by rw [hops]; exact ht)
    have e1 : CQ1.trim (' ' :: intercalate ", ".toList (o :: os)) = intercalate ", ".toList (o :: os) := by
      rw [trim_cons_blank ' ' _ (by decide)]
      exact trim_id (intercalate_word_head _ hne hw) (intercalate_word_last _ hne hw)
    have e0 : (name ++ ' ' :: intercalate ", ".toList (o :: os)).drop name.length =
        ' ' :: intercalate ", ".toList (o :: os) := by simp
    simp only [e0, e1]
    have hi : (intercalate ", ".toList (o :: os)).isEmpty = false := by
      have := word_ne_nil (hw o (by simp))
      cases os with
      | nil => cases o with
        | nil => exact absurd rfl this
        | cons _ _ => simp [intercalate]
      | cons a as =>
        cases o with
        | nil => exact absurd rfl this
        | cons _ _ => simp [intercalate]
    simp only [hi, Bool.false_eq_true, if_false]
    exact split_operands (o :: os) hne hw

theorem find_none_of_all {α} (p : α → Bool) (l : List α) (h : ∀ a ∈ l, p a = false) : l.find? p = none := by
  rw [List.find?_eq_none]; intro a ha; simp [h a ha]

theorem filterMap_parse (ops : List Text) (args : List CQ1.Arg) (h : ops.map CQ1.parseArg = args.map some) :
    ops.filterMap CQ1.parseArg = args := by
  induction ops generalizing args with
  | nil => cases args with
    | nil => rfl
    | cons _ _ => simp at h
  | cons o os ih =>
    cases args with
    | nil => simp at h
    | cons a as =>
      simp only [List.map_cons, List.cons.injEq] at h
      simp [List.filterMap_cons, h.1, ih as h.2]

theorem all_parse (ops : List Text) (args : List CQ1.Arg) (h : ops.map CQ1.parseArg = args.map some) :
    ∀ t ∈ ops, (CQ1.parseArg t).isNone = false := by
  induction ops generalizing args with
  | nil => simp
  | cons o os ih =>
    cases args with
    | nil => simp at h
    | cons a as =>
      simp only [List.map_cons, List.cons.injEq] at h
      intro t ht
      rcases List.mem_cons.mp ht with rfl | ht
      · simp [h.1]
      · exact ih as h.2 t ht

/-- **printing and parsing back an unconditioned instruction** -/
theorem parseInstr_plain (name : Text) (ops : List Text) (args : List CQ1.Arg) (sig : List CQ1.Kind)
    (hn : word name = true) (hc : ∀ g, name ≠ 'c' :: '-' :: g) (ho : ∀ t ∈ ops, word t = true)
    (hp : ops.map CQ1.parseArg = args.map some) (hs : CQ1.signature (String.ofList name) = some sig)
    (hm : CQ1.argsMatch args sig = true) :
    CQ1.parseInstr (printInstr name ops) = .ok ⟨[], String.ofList name, args⟩ := by
  unfold CQ1.parseInstr
  simp only [trim_printInstr name ops hn ho, name_printInstr name ops hn]
  have h3 := operands_printInstr name ops ho
  simp only at h3
  simp only [h3]
  have hnc : (match (generalizing := false) name with | 'c' :: '-' :: g => (String.ofList g, true) | _ => (String.ofList name, false)) =
      (String.ofList name, false) := match_not_cond name hc (fun g => (String.ofList g, true)) _
  simp only [hnc, hs, find_none_of_all _ ops (all_parse ops args hp), filterMap_parse ops args hp, hm]
  simp

def isBArg : CQ1.Arg → Bool := CQ1.isB

theorem takeWhile_isB (control : List Nat) (gargs : List CQ1.Arg)
    (hg : ∀ a, gargs.head? = some a → CQ1.isB a = false) :
    ((control.map CQ1.Arg.b) ++ gargs).takeWhile CQ1.isB = control.map CQ1.Arg.b := by
  induction control with
  | nil =>
    cases gargs with
    | nil => rfl
    | cons a as => simp [List.takeWhile, hg a rfl]
  | cons c cs ih => simp [List.takeWhile, CQ1.isB, ih]

/-- **… and a binary-controlled one**: `c-name b[i], …, operands` -/
theorem parseInstr_cond (name : Text) (control : List Nat) (ops : List Text) (args : List CQ1.Arg) (sig : List CQ1.Kind)
    (hn : word name = true) (hctl : control ≠ []) (ho : ∀ t ∈ ops, word t = true)
    (hp : ops.map CQ1.parseArg = args.map some) (hs : CQ1.signature (String.ofList name) = some sig)
    (hgate : CQ1.isGate (String.ofList name) = true)
    (hm : CQ1.argsMatch args sig = true) (hq : ∀ a, args.head? = some a → CQ1.isB a = false) :
    CQ1.parseInstr (printInstr ('c' :: '-' :: name) (control.map bName ++ ops)) =
      .ok ⟨control, String.ofList name, args⟩ := by
  have hn' : word ('c' :: '-' :: name) = true := by
    simp only [word, Bool.and_eq_true, List.all_eq_true] at hn ⊢
    refine ⟨by simp, ?_⟩
    intro c hc
    rcases List.mem_cons.mp hc with rfl | hc
    · decide
    rcases List.mem_cons.mp hc with rfl | hc
    · decide
    · exact hn.2 c hc
  have ho' : ∀ t ∈ control.map bName ++ ops, word t = true := by
    intro t ht
    rcases List.mem_append.mp ht with h | h
    · obtain ⟨i, _, rfl⟩ := List.mem_map.mp h; exact word_bName i
    · exact ho t h
  have hp' : (control.map bName ++ ops).map CQ1.parseArg = ((control.map CQ1.Arg.b) ++ args).map some := by
    simp only [List.map_append, List.map_map, hp]
    congr 1
    apply List.map_congr_left
    intro i _; simp [parseArg_bName]
  unfold CQ1.parseInstr
  simp only [trim_printInstr _ _ hn' ho', name_printInstr _ _ hn']
  have h3 := operands_printInstr ('c' :: '-' :: name) (control.map bName ++ ops) ho'
  simp only at h3
  simp only [h3, hs, find_none_of_all _ _ (all_parse _ _ hp'), filterMap_parse _ _ hp', takeWhile_isB control args hq]
  have hce : (control.map CQ1.Arg.b).isEmpty = false := by
    cases control with
    | nil => exact absurd rfl hctl
    | cons _ _ => rfl
  have hfb := filterMap_bIndex control
  simp only [List.filterMap_map] at hfb
  simp [hce, hgate, hm, hfb]

end Q1t.Proofs.CQasm

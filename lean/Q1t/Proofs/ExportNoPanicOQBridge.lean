import Q1t.Proofs.ExportNoPanicOQ
import Q1t.Model.ExportBridge
import Q1t.Proofs.NoPanicGeneric
/-!
C18 ← C11: the circuit the builders built, as the OpenQASM exporter model reads it (`ofCirc`), and the
theorem that on a circuit without OpenQASM-relevant defect (`Defect.openQasm`) whose indices are in range
(`opInRange`: what the builders guarantee) the model of `Circuit::open_qasm` never panics.

`ofTerm` names each gate term the way a `Circuit` holds it (`H` → `lib "H"`, `C H` → the named `CH`, … a
`C g` that is not a named gate stays the generic `ctrl`); `toTerm_ofTerm` ties it to C11's own reading
(`QGate.toTerm`).
-/
set_option linter.unusedSectionVars false
set_option linter.unusedVariables false
set_option linter.unusedSimpArgs false
namespace Q1t.OpenQasm
open Q1t Q1t.Sim Q1t.WellFormed Q1t.Builders

variable {P : Type}

theorem ofC_ok (g : GateTerm P) (q : QGate P) (h : ofC g = some q) :
    qOK libTable q = true ∧ nbits libTable q = 1 + Gate.nrBits g := by
  unfold ofC at h
  split at h <;> first
    | (cases h; simp only [Gate.nrBits, Nat.reduceAdd]; refine lib_ok _ _ _ _ ?_ rfl
       simp only [List.length_cons, List.length_nil, Nat.reduceAdd]; decide)
    | (cases h)

macro "lib_case" : tactic =>
  `(tactic| (simp only [ofTerm, Gate.nrBits]; refine lib_ok _ _ _ _ ?_ rfl
             simp only [List.length_cons, List.length_nil, Nat.reduceAdd]; decide))

mutual
/-- the image of a gate term is sane for the exporter, with the same arity — for ANY term (bodies aside) -/
theorem ofTerm_ok : (g : GateTerm P) → gateOK g = true →
    qOK libTable (ofTerm g) = true ∧ nbits libTable (ofTerm g) = Gate.nrBits g
  | .H, _ => by lib_case | .X, _ => by lib_case | .Y, _ => by lib_case | .Z, _ => by lib_case
  | .S, _ => by lib_case | .Sdg, _ => by lib_case | .T, _ => by lib_case | .Tdg, _ => by lib_case
  | .V, _ => by lib_case | .Vdg, _ => by lib_case | .I, _ => by lib_case
  | .RX _, _ => by lib_case | .RY _, _ => by lib_case | .RZ _, _ => by lib_case | .U1 _, _ => by lib_case
  | .U2 _ _, _ => by lib_case | .U3 _ _ _, _ => by lib_case
  | .CX, _ => by lib_case | .CY, _ => by lib_case | .CZ, _ => by lib_case | .Swap, _ => by lib_case
  | .C g, h => by
    rw [ofTerm]
    cases hc : ofC g with
    | some q => simpa [Gate.nrBits] using ofC_ok g q hc
    | none =>
      have ih := ofTerm_ok g (gateOK_of_isNamedC g (by simpa [gateOK] using h))
      simp only [qOK, nbits, Gate.nrBits, ih.2, and_self]
  | .Kron a b, h => by
    simp only [gateOK, Bool.and_eq_true] at h
    have ha := ofTerm_ok a h.1
    have hb := ofTerm_ok b h.2
    simp only [ofTerm, qOK, nbits, Gate.nrBits, ha.1, ha.2, hb.1, hb.2, Bool.and_self, and_self]
  | .Composite name n ops, h => by
    simp only [gateOK, Bool.and_eq_true, decide_eq_true_eq] at h
    simp only [ofTerm, qOK, nbits, Gate.nrBits, ofOps_ok n ops h.2, and_self]
  | .Loop label iters name n body, h => by
    simp only [gateOK, Bool.and_eq_true, decide_eq_true_eq] at h
    simp only [ofTerm, qOK, nbits, Gate.nrBits, ofOps_ok n body h.2, and_self]
theorem ofOps_ok (n : Nat) : (ops : OpList P) → opsOK n ops = true → qOpsOK libTable n (ofOps ops) = true
  | .nil, _ => by simp [ofOps, qOpsOK]
  | .cons g bits rest, h => by
    simp only [opsOK, Bool.and_eq_true, decide_eq_true_eq, Bool.not_eq_true', List.all_eq_true] at h
    have hg := ofTerm_ok g h.1.1.1.1
    simp only [ofOps, qOpsOK, hg.1, hg.2, h.1.1.1.2, ofOps_ok n rest h.2, Bool.and_eq_true, decide_eq_true_eq,
      List.all_eq_true, true_and, and_true]
    exact h.1.2
end

theorem toTerm_ofC (g : GateTerm P) (q : QGate P) (h : ofC g = some q) : q.toTerm = some (.C g) := by
  unfold ofC at h
  split at h <;> first
    | (cases h; rfl)
    | (cases h)

mutual
/-- C11's own reading of the image is the term we started from -/
theorem toTerm_ofTerm : (g : GateTerm P) → (ofTerm g).toTerm = some g
  | .H => rfl | .X => rfl | .Y => rfl | .Z => rfl | .S => rfl | .Sdg => rfl | .T => rfl | .Tdg => rfl
  | .V => rfl | .Vdg => rfl | .I => rfl
  | .RX _ => rfl | .RY _ => rfl | .RZ _ => rfl | .U1 _ => rfl | .U2 _ _ => rfl | .U3 _ _ _ => rfl
  | .CX => rfl | .CY => rfl | .CZ => rfl | .Swap => rfl
  | .C g => by
    rw [ofTerm]
    cases hc : ofC g with
    | some q => exact toTerm_ofC g q hc
    | none => simp [QGate.toTerm, toTerm_ofTerm g]
  | .Kron a b => by simp [ofTerm, QGate.toTerm, toTerm_ofTerm a, toTerm_ofTerm b]
  | .Composite name n ops => by simp [ofTerm, QGate.toTerm, toTerm_ofOps ops]
  | .Loop label iters name n body => by simp [ofTerm, QGate.toTerm, toTerm_ofOps body]
theorem toTerm_ofOps : (ops : OpList P) → (ofOps ops).toTerm = some ops
  | .nil => rfl
  | .cons g bits rest => by simp [ofOps, QOps.toTerm, toTerm_ofTerm g, toTerm_ofOps rest]
end

/-- the bridge: builder guarantee + no OpenQASM-relevant defect ⇒ what `exportOp` needs -/
theorem qOpGood_of_wf (nq nc : Nat) (op : COp P) (hin : opInRange nq nc op)
    (hdef : ∀ d ∈ opDefects nq op, d.openQasm = false) : QOpGood nq nc (ofOp op) := by
  have hgate : ∀ (g : GateTerm P) (bits : List Nat), (∀ d ∈ gateDefects g bits, d.openQasm = false) →
      (∀ b ∈ bits, b < nq) →
      qOK libTable (ofTerm g) = true ∧ nbits libTable (ofTerm g) = bits.length ∧ ∀ b ∈ bits, b < nq := by
    intro g bits hd hb
    have hok : gateOK g = true := by
      apply Classical.byContradiction; intro hg
      have := hd .badComposite (by simp [gateDefects, hg])
      simp [Defect.openQasm] at this
    have har : Gate.nrBits g = bits.length := by
      apply Classical.byContradiction; intro hg
      have := hd .arity (by simp [gateDefects, hg])
      simp [Defect.openQasm] at this
    have := ofTerm_ok g hok
    exact ⟨this.1, this.2.trans har, hb⟩
  cases op with
  | gate g bits => exact hgate g bits (by simpa [opDefects] using hdef) hin
  | cond control target g bits =>
    simp only [opDefects, List.mem_append] at hdef
    refine ⟨hgate g bits (fun d hd => hdef d (Or.inl (Or.inr hd))) hin.2, hin.1, ?_⟩
    apply Classical.byContradiction; intro hgt
    have := hdef .controlsGt64 (Or.inl (Or.inl (Or.inr (by simp; omega))))
    simp [Defect.openQasm] at this
  | measure q c b => exact hin
  | peek q c b => trivial
  | measureAll cbits b =>
    simp only [opDefects, List.mem_append] at hdef
    refine ⟨?_, hin⟩
    apply Classical.byContradiction; intro hne
    have := hdef .measureAllLen (Or.inl (by simp [hne]))
    simp [Defect.openQasm] at this
  | peekAll cbits b => trivial
  | reset q => exact hin
  | resetAll => trivial
  | barrier bits => exact hin

/-- **`Circuit::open_qasm` never panics** on a circuit whose indices are in range and that has no
OpenQASM-relevant defect -/
theorem openQasm_ne_panic (c : Circ P) (hin : ∀ op ∈ c.ops, opInRange c.nq c.nc op)
    (hdef : ∀ op ∈ c.ops, ∀ d ∈ opDefects c.nq op, d.openQasm = false) :
    exportCircuit libTable (ofCirc c) ≠ .panic := by
  apply exportCircuit_ne_panic
  intro qop hq
  simp only [ofCirc, List.mem_map] at hq
  obtain ⟨op, hop, rfl⟩ := hq
  exact qOpGood_of_wf c.nq c.nc op (hin op hop) (hdef op hop)

end Q1t.OpenQasm

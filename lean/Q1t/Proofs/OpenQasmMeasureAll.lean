import Mathlib.Data.List.Perm.Basic
import Mathlib.Data.List.Nodup
import Q1t.Proofs.SimGFAll
import Q1t.Spec.Born
import Q1t.Spec.OQ2
/-!
C11, `measure_all` in the Z basis: the sequential measurement of the qubits (what the exported program does)
produces the same branches as the Born semantics' enumeration of all outcome words — as a permutation (the
enumeration runs over `k < 2^n` with qubit `q` ↔ bit `q` of `k`, the sequential measurement splits on qubit 0 first).
Pure combinatorics over `Spec/Born.lean`; no exporter here.
-/
namespace Q1t.OpenQasm
open Q1t Q1t.Spec Q1t.Spec.OQ2

variable {α : Type} [Zero α]

/-! ## sequential measurement -/

/-- measure qubit `p.1` into bit `p.2` with outcome `o` on one branch -/
def stepB (n : Nat) (p : Nat × Nat) (o : Bool) (b : Branch α) : Branch α :=
  (Spec.project n p.1 o b.1, Spec.writeBit b.2 p.2 o)

def mstep (n : Nat) (p : Nat × Nat) (L : List (Branch α)) : List (Branch α) :=
  L.flatMap fun b => [stepB n p false b, stepB n p true b]

def seqMeasure (n : Nat) (prs : List (Nat × Nat)) (L : List (Branch α)) : List (Branch α) :=
  prs.foldl (fun L p => mstep n p L) L

theorem mstep_append (n : Nat) (p : Nat × Nat) (A B : List (Branch α)) :
    mstep n p (A ++ B) = mstep n p A ++ mstep n p B := by simp [mstep]

theorem seqMeasure_append (n : Nat) : ∀ (prs : List (Nat × Nat)) (A B : List (Branch α)),
    seqMeasure n prs (A ++ B) = seqMeasure n prs A ++ seqMeasure n prs B
  | [], _, _ => rfl
  | p :: ps, A, B => by
    simp only [seqMeasure, List.foldl_cons, mstep_append]
    exact seqMeasure_append n ps _ _

theorem seqMeasure_flatMap (n : Nat) (prs : List (Nat × Nat)) : ∀ (L : List (Branch α)),
    seqMeasure n prs L = L.flatMap fun b => seqMeasure n prs [b]
  | [] => by
    induction prs with
    | nil => rfl
    | cons p ps ih => simpa [seqMeasure, mstep] using ih
  | b :: L => by
    rw [show b :: L = [b] ++ L from rfl, seqMeasure_append, seqMeasure_flatMap n prs L]
    simp

/-! ## enumeration of the outcomes -/

/-- the branch of outcome `k` (bit `j` of `k` is the outcome of the `j`-th listed pair) -/
def bornElem (n : Nat) : List (Nat × Nat) → Nat → Branch α → Branch α
  | [], _, b => b
  | p :: ps, k, b => bornElem n ps (k / 2) (stepB n p (k % 2 == 1) b)

def bornList (n : Nat) (prs : List (Nat × Nat)) (b : Branch α) : List (Branch α) :=
  (List.range (2 ^ prs.length)).map fun k => bornElem n prs k b

theorem range_double_perm {γ : Type} (f : Nat → γ) : ∀ m : Nat,
    ((List.range (2 * m)).map f).Perm
      ((List.range m).map (fun k => f (2 * k)) ++ (List.range m).map (fun k => f (2 * k + 1)))
  | 0 => List.Perm.refl _
  | m + 1 => by
    have ih := range_double_perm f m
    have e : 2 * (m + 1) = 2 * m + 1 + 1 := by ring
    rw [e, List.range_succ, List.range_succ, List.range_succ (n := m)]
    simp only [List.map_append, List.map_cons, List.map_nil, List.append_assoc]
    -- (R ++ [a] ++ [b]) ~ E ++ [a] ++ (O ++ [b])
    have h1 : ((List.range (2 * m)).map f ++ ([f (2 * m)] ++ [f (2 * m + 1)])).Perm
        (((List.range m).map (fun k => f (2 * k)) ++ (List.range m).map (fun k => f (2 * k + 1))) ++
          ([f (2 * m)] ++ [f (2 * m + 1)])) := List.Perm.append_right _ ih
    refine h1.trans ?_
    simp only [List.append_assoc]
    refine List.Perm.append_left _ ?_
    -- O ++ [a] ++ [b] ~ [a] ++ O ++ [b]
    rw [← List.append_assoc, ← List.append_assoc]
    exact List.Perm.append_right _ List.perm_append_comm

theorem seq_perm_born (n : Nat) : ∀ (prs : List (Nat × Nat)) (b : Branch α),
    (seqMeasure n prs [b]).Perm (bornList n prs b)
  | [], b => by simp [seqMeasure, bornList, bornElem]
  | p :: ps, b => by
    have hF := seq_perm_born n ps (stepB n p false b)
    have hT := seq_perm_born n ps (stepB n p true b)
    have hs : seqMeasure n (p :: ps) [b] =
        seqMeasure n ps [stepB n p false b] ++ seqMeasure n ps [stepB n p true b] := by
      simp only [seqMeasure, List.foldl_cons, mstep, List.flatMap_cons, List.flatMap_nil, List.append_nil]
      exact seqMeasure_append n ps [stepB n p false b] [stepB n p true b]
    rw [hs]
    refine (List.Perm.append hF hT).trans ?_
    unfold bornList
    rw [List.length_cons, pow_succ, Nat.mul_comm]
    refine List.Perm.trans ?_ (range_double_perm (fun k => bornElem n (p :: ps) k b) (2 ^ ps.length)).symm
    have e0 : ∀ k, bornElem n (p :: ps) (2 * k) b = bornElem n ps k (stepB n p false b) := by
      intro k
      have h1 : 2 * k / 2 = k := by omega
      have h2 : (2 * k % 2 == 1) = false := by
        have : 2 * k % 2 = 0 := by omega
        simp [this]
      simp only [bornElem, h1, h2]
    have e1 : ∀ k, bornElem n (p :: ps) (2 * k + 1) b = bornElem n ps k (stepB n p true b) := by
      intro k
      have h1 : (2 * k + 1) / 2 = k := by omega
      have h2 : ((2 * k + 1) % 2 == 1) = true := by
        have : (2 * k + 1) % 2 = 1 := by omega
        simp [this]
      simp only [bornElem, h1, h2]
    simp only [e0, e1, bornList]
    exact List.Perm.refl _

theorem eraseDups_nat_of_nodup (l : List Nat) (h : l.Nodup) : l.eraseDups = l := by
  induction l with
  | nil => simp
  | cons a l ih =>
    rw [List.eraseDups_cons]
    have ha : a ∉ l := (List.nodup_cons.1 h).1
    have : l.filter (fun b => !b == a) = l := by
      rw [List.filter_eq_self]
      intro b hb
      simp
      rintro rfl; exact ha hb
    rw [this, ih (List.nodup_cons.1 h).2]

/-! ## the Born semantics of `measure_all` is that enumeration -/

/-- outcome of qubit `q` in the outcome index `k` -/
def kbit (k q : Nat) : Bool := (k >>> q) % 2 == 1

/-- the (qubit, classical bit) pairs of `measure_all(cbits)` -/
def qpairs (n : Nat) (cbits : List Nat) : List (Nat × Nat) := (List.range n).map fun q => (q, cbits.getD q 0)

theorem bornElem_range' (n : Nat) (g : Nat → Nat × Nat) (k : Nat) : ∀ (len s : Nat) (b : Branch α),
    bornElem n ((List.range' s len).map g) (k >>> s) b =
      ((List.range' s len).foldl (fun φ q => Spec.project n (g q).1 (kbit k q) φ) b.1,
       (List.range' s len).foldl (fun u q => Spec.writeBit u (g q).2 (kbit k q)) b.2)
  | 0, s, b => rfl
  | len + 1, s, b => by
    simp only [List.range'_succ, List.map_cons, bornElem, List.foldl_cons]
    have h2 : (k >>> s) / 2 = k >>> (s + 1) := by rw [Nat.shiftRight_succ]
    rw [h2, bornElem_range' n g k len (s + 1)]
    rfl

theorem bornElem_qpairs (n : Nat) (cbits : List Nat) (k : Nat) (b : Branch α) :
    bornElem n (qpairs n cbits) k b =
      ((List.range n).foldl (fun φ q => Spec.project n q (kbit k q) φ) b.1,
       (List.range n).foldl (fun u q => Spec.writeBit u (cbits.getD q 0) (kbit k q)) b.2) := by
  have := bornElem_range' (α := α) n (fun q => (q, cbits.getD q 0)) k n 0 b
  simpa [qpairs, List.range_eq_range'] using this

/-- writing distinct bits: every written bit has its value, the result fits 64 bits -/
theorem foldl_writeBit_spec (c : Nat → Nat) (v : Nat → Bool) : ∀ (qs : List Nat) (w : Nat), w < 2 ^ 64 →
    (qs.map c).Nodup → (∀ q ∈ qs, c q < 64) →
    (qs.foldl (fun u q => Spec.writeBit u (c q) (v q)) w) < 2 ^ 64 ∧
    (∀ q ∈ qs, (qs.foldl (fun u q => Spec.writeBit u (c q) (v q)) w).testBit (c q) = v q) ∧
    ∀ j, j ∉ qs.map c → (qs.foldl (fun u q => Spec.writeBit u (c q) (v q)) w).testBit j = w.testBit j
  | [], w, hw, _, _ => ⟨hw, ⟨fun _ h => absurd h (List.not_mem_nil), fun _ _ => rfl⟩⟩
  | q0 :: qs, w, hw, hnd, h64 => by
    simp only [List.map_cons, List.nodup_cons] at hnd
    have hc0 : c q0 < 64 := h64 q0 (List.mem_cons_self ..)
    have hw1 : Spec.writeBit w (c q0) (v q0) < 2 ^ 64 := Sim.SimGF.setBitTo_lt w _ _ hw hc0
    obtain ⟨h1, h2, h3⟩ := foldl_writeBit_spec c v qs _ hw1 hnd.2 fun q hq => h64 q (List.mem_cons_of_mem _ hq)
    refine ⟨h1, ?_, ?_⟩
    · intro q hq
      rcases List.mem_cons.1 hq with rfl | hq
      · simp only [List.foldl_cons]
        rw [h3 _ hnd.1, Spec.writeBit, Sim.SimGF.testBit_setBitTo w _ _ hw hc0]; simp
      · exact h2 q hq
    · intro j hj
      simp only [List.map_cons, List.mem_cons, not_or] at hj
      simp only [List.foldl_cons]
      rw [h3 j hj.2, Spec.writeBit, Sim.SimGF.testBit_setBitTo w _ _ hw hc0, if_neg hj.1]

theorem map_getD_range (cbits : List Nat) : (List.range cbits.length).map (fun q => cbits.getD q 0) = cbits := by
  apply List.ext_getElem (by simp)
  intro i h1 h2
  simp [List.getD_eq_getElem?_getD, h2]

theorem kbit_eq_testBit (k q : Nat) : kbit k q = k.testBit q := by
  simp only [kbit, Nat.testBit_eq_decide_div_mod_eq, Nat.shiftRight_eq_div_pow]
  by_cases hh : k / 2 ^ q % 2 = 1 <;> simp [hh]

theorem bitOf_testBit (w c : Nat) : Spec.bitOf w c = w.testBit c := by
  simp only [Spec.bitOf, Nat.testBit_eq_decide_div_mod_eq, Nat.shiftRight_eq_div_pow]
  by_cases hh : w / 2 ^ c % 2 = 1 <;> simp [hh]

theorem foldl_congr_mem {β γ : Type} (f g : β → γ → β) : ∀ (l : List γ) (a : β),
    (∀ (x : β) (y : γ), y ∈ l → f x y = g x y) → l.foldl f a = l.foldl g a
  | [], _, _ => rfl
  | y :: l, a, h => by
    simp only [List.foldl_cons, h a y (List.mem_cons_self ..)]
    exact foldl_congr_mem f g l _ fun x z hz => h x z (List.mem_cons_of_mem _ hz)

section born
variable {P : Type} [One α] [Add α] [Mul α] [Neg α] [Sub α] [Amp α P]

/-- `measure_all` in the Z basis into distinct classical bits: the Born semantics yields the enumeration -/
theorem branchesOp_measureAll (n : Nat) (nz : List α → Bool) (hnz : ∀ φ, nz φ = true) (cbits : List Nat)
    (hlen : cbits.length = n) (hnd : cbits.Nodup) (h64 : ∀ c ∈ cbits, c < 64) (ψ : List α) (w : Nat)
    (hw : w < 2 ^ 64) :
    branchesOp (P := P) n nz (.measureAll cbits .Z) (ψ, w) = some (bornList n (qpairs n cbits) (ψ, w)) := by
  subst hlen
  let c : Nat → Nat := fun q => cbits.getD q 0
  let W : Nat → Nat := fun k => (List.range cbits.length).foldl (fun u q => Spec.writeBit u (c q) (kbit k q)) w
  have hmapc : (List.range cbits.length).map c = cbits := map_getD_range cbits
  have hspec : ∀ k, W k < 2 ^ 64 ∧ ∀ q, q < cbits.length → (W k).testBit (c q) = kbit k q := by
    intro k
    obtain ⟨h1, h2, _⟩ := foldl_writeBit_spec c (kbit k) (List.range cbits.length) w hw (by rw [hmapc]; exact hnd)
      (fun q hq => h64 _ (by
        have : c q ∈ (List.range cbits.length).map c := List.mem_map_of_mem hq
        rwa [hmapc] at this))
    exact ⟨h1, fun q hq => h2 q (List.mem_range.2 hq)⟩
  -- distinct outcome indices give distinct words
  have hinj : ∀ k k', k < 2 ^ cbits.length → k' < 2 ^ cbits.length → W k = W k' → k = k' := by
    intro k k' hk hk' e
    apply Nat.eq_of_testBit_eq
    intro q
    by_cases hq : q < cbits.length
    · rw [← kbit_eq_testBit, ← kbit_eq_testBit, ← (hspec k).2 q hq, ← (hspec k').2 q hq, e]
    · have hle : cbits.length ≤ q := Nat.le_of_not_lt hq
      rw [Nat.testBit_lt_two_pow (Nat.lt_of_lt_of_le hk (Nat.pow_le_pow_right (by omega) hle)),
        Nat.testBit_lt_two_pow (Nat.lt_of_lt_of_le hk' (Nat.pow_le_pow_right (by omega) hle))]
  have hnodup : ((List.range (2 ^ cbits.length)).map W).Nodup := by
    refine List.Nodup.map_on ?_ List.nodup_range
    intro k hk k' hk' e
    exact hinj k k' (List.mem_range.1 hk) (List.mem_range.1 hk') e
  have hout : outcomesOf (P := P) cbits.length (.measureAll cbits .Z) w = (List.range (2 ^ cbits.length)).map W := by
    simp only [outcomesOf]
    refine List.map_congr_left fun k _ => ?_
    rfl
  -- replaying the word of outcome `k` gives the branch of outcome `k`
  have hrep : ∀ k, (replayOp (P := P) cbits.length nz (.measureAll cbits .Z) ψ w (W k)).filter (fun x => nz x.1) =
      [bornElem cbits.length (qpairs cbits.length cbits) k (ψ, w)] := by
    intro k
    have hbits : ∀ q ∈ List.range cbits.length, Spec.bitOf (W k) (cbits.getD q 0) = kbit k q := by
      intro q hq
      rw [bitOf_testBit]
      exact (hspec k).2 q (List.mem_range.1 hq)
    have hW : (List.range cbits.length).foldl
        (fun acc q => Spec.writeBit acc (cbits.getD q 0) (Spec.bitOf (W k) (cbits.getD q 0))) w = W k :=
      foldl_congr_mem _ _ _ _ fun x q hq => by rw [hbits q hq]
    have hM : measureAllTo (P := P) cbits.length .Z (fun q => Spec.bitOf (W k) (cbits.getD q 0)) ψ =
        (List.range cbits.length).foldl (fun φ q => Spec.project cbits.length q (kbit k q) φ) ψ := by
      unfold measureAllTo
      refine foldl_congr_mem _ _ _ _ fun x q hq => ?_
      simp only [measureTo, toBasis, fromBasis, hbits q hq]
    simp only [replayOp, hW, if_true, hM, List.filter_cons, hnz, List.filter_nil, if_true]
    rw [bornElem_qpairs]
  simp only [branchesOp, hout, eraseDups_nat_of_nodup _ hnodup, bornList, qpairs, List.length_map, List.length_range,
    List.flatMap_map]
  congr 1
  have : ∀ l : List Nat, l.flatMap (fun k =>
      (replayOp (P := P) cbits.length nz (.measureAll cbits .Z) ψ w (W k)).filter (fun x => nz x.1)) =
      l.map fun k => bornElem cbits.length (qpairs cbits.length cbits) k (ψ, w) := by
    intro l
    induction l with
    | nil => rfl
    | cons k l ih => simp only [List.flatMap_cons, hrep k, ih, List.map_cons, List.singleton_append]
  simpa [qpairs] using this (List.range (2 ^ cbits.length))

end born

end Q1t.OpenQasm

import Q1t.Proofs.ExprRoundTrip
/-!
C14, part 6: the value of the parsed expression is the conventional value; the conventional renderer
produces conventionally parenthesised trees.  (Core Lean only.)
-/
namespace Q1t.Proofs.Expr
open Q1t.Expr Q1t.Spec.ExprGrammar
open Q1t.DecFloat (isDigit)

/-- The interpretation of the grammar induced by an interpretation of the float operations of the code. -/
def interpOf {F : Type} (I : FloatOps F) : Interp F where
  lit t := I.ofLit (litOf t)
  bin op := match op with
    | .add => I.add | .sub => I.sub | .mul => I.mul | .div => I.div | .pow => I.powf
  neg := I.neg
  app f := match f with
    | .sin => I.sin | .cos => I.cos | .tan => I.tan | .exp => I.exp | .ln => I.ln | .sqrt => I.sqrt

theorem evalWith_wrapNeg {F : Type} (I : FloatOps F) (b : Bool) (e : Expr) (v : F)
    (h : evalWith I [] e = .ok v) : evalWith I [] (wrapNeg b e) = .ok (if b then I.neg v else v) := by
  cases b
  · simpa [wrapNeg] using h
  · simp only [wrapNeg, if_true, evalWith, h]; rfl

theorem eval_pe {F : Type} (I : FloatOps F) (hneg : ∀ x, I.neg (I.neg x) = x) : ∀ (c : Cst) (b : Bool),
    evalWith I [] (pe b c) =
      .ok (if b then I.neg (evalConv (interpOf I) c.toAst) else evalConv (interpOf I) c.toAst)
  | .neg w a, b => by
    have ih := eval_pe I hneg a (!b)
    simp only [pe, Cst.toAst, evalConv, ih]
    cases b
    · simp [interpOf]
    · simp [interpOf, hneg]
  | .lit w t, b => by
    simp only [pe, Cst.toAst, evalConv]
    exact evalWith_wrapNeg I b _ _ (by simp [evalWith, interpOf])
  | .paren w1 a w2, b => by
    simp only [pe, Cst.toAst]
    exact evalWith_wrapNeg I b _ _ (by simpa using eval_pe I hneg a false)
  | .app w1 f w2 a w3, b => by
    simp only [pe, Cst.toAst, evalConv]
    apply evalWith_wrapNeg
    have ih := eval_pe I hneg a false
    simp only [Bool.false_eq_true, if_false] at ih
    cases f <;> (simp only [evalWith, ih, Fn.name]; rfl)
  | .bin op a w x, b => by
    simp only [pe, Cst.toAst, evalConv]
    apply evalWith_wrapNeg
    have iha := eval_pe I hneg a false
    have ihx := eval_pe I hneg x false
    simp only [Bool.false_eq_true, if_false] at iha ihx
    cases op <;> (simp only [mkBin, evalWith, iha, ihx]; rfl)

/-- The parsed expression evaluates, without error, to the conventional value of the tree — for every
interpretation of the float operations in which negation is an involution (IEEE negation flips the
sign bit). -/
theorem eval_parsed {F : Type} (I : FloatOps F) (hneg : ∀ x, I.neg (I.neg x) = x) (c : Cst) :
    eval I (parsed c) = .ok (evalConv (interpOf I) c.toAst) := by
  have := eval_pe I hneg c false
  simpa [eval, parsed] using this

/-! ### the conventional renderer -/

theorem blank_spec (l : Layout) (h : l.OK) : l.blank.1.all isBlank = true ∧ l.blank.2.OK := by
  unfold Layout.blank
  cases hb : l.blanks with
  | nil => exact ⟨rfl, h⟩
  | cons w ws =>
    refine ⟨h w (by simp [hb]), ?_⟩
    intro x hx; exact h x (by simp [hb]; exact .inr hx)

theorem flag_spec (l : Layout) (h : l.OK) : l.flag.2.OK := by
  unfold Layout.flag
  cases hb : l.parens with
  | nil => exact h
  | cons b bs => exact h

/-- What a laid-out tree must satisfy. -/
def Good (a : Ast) (r : Cst × Layout) : Prop :=
  r.1.toAst = a ∧ Conv r.1 = true ∧ r.1.WF = true ∧ r.1.bigInt = a.bigInt ∧ r.2.OK

theorem wrap_spec {a : Ast} {lvl need : Nat} (hneed : need ≤ 4) {body : Layout → Cst × Layout}
    (hbody : ∀ l, l.OK → Good a (body l) ∧ (body l).1.level = lvl) (l : Layout) (hl : l.OK) :
    Good a (wrap lvl need l body) ∧ need ≤ (wrap lvl need l body).1.level := by
  unfold wrap
  have hf := flag_spec l hl
  by_cases hcond : (decide (lvl < need) || l.flag.1) = true
  · simp only [hcond, if_true]
    have hb1 := blank_spec l.flag.2 hf
    obtain ⟨⟨g1, g2, g3, g4, g5⟩, _⟩ := hbody l.flag.2.blank.2 hb1.2
    have hb2 := blank_spec (body l.flag.2.blank.2).2 g5
    refine ⟨⟨?_, ?_, ?_, ?_, hb2.2⟩, ?_⟩
    · simpa [Cst.toAst] using g1
    · simpa [Conv] using g2
    · simp [Cst.WF, hb1.1, g3, hb2.1]
    · simpa [Cst.bigInt] using g4
    · simpa [Cst.level] using hneed
  · simp only [hcond, if_false]
    obtain ⟨g, glev⟩ := hbody l.flag.2 hf
    refine ⟨g, ?_⟩
    simp only [Bool.or_eq_true, decide_eq_true_eq, not_or, Nat.not_lt] at hcond
    omega

theorem layOut_spec : ∀ (a : Ast) (need : Nat) (l : Layout), need ≤ 4 → l.OK → a.WF = true →
    Good a (layOut a need l) ∧ need ≤ (layOut a need l).1.level
  | .lit t, need, l, hn, hl, hwf => by
    unfold layOut
    refine wrap_spec hn (fun l' hl' => ?_) l hl
    have hb := blank_spec l' hl'
    refine ⟨⟨rfl, rfl, ?_, ?_, hb.2⟩, rfl⟩
    · simp only [Ast.WF] at hwf; simp [Cst.WF, hb.1, hwf]
    · cases t <;> rfl
  | .neg a, need, l, hn, hl, hwf => by
    unfold layOut
    refine wrap_spec hn (fun l' hl' => ?_) l hl
    have hb := blank_spec l' hl'
    obtain ⟨⟨g1, g2, g3, g4, g5⟩, glev⟩ := layOut_spec a 2 l'.blank.2 (by omega) hb.2 (by simpa [Ast.WF] using hwf)
    refine ⟨⟨?_, ?_, ?_, ?_, g5⟩, rfl⟩
    · simp [Cst.toAst, g1]
    · simp [Conv, g2, glev]
    · simp [Cst.WF, hb.1, g3]
    · simpa [Cst.bigInt, Ast.bigInt] using g4
  | .app f a, need, l, hn, hl, hwf => by
    unfold layOut
    refine wrap_spec hn (fun l' hl' => ?_) l hl
    have hb1 := blank_spec l' hl'
    have hb2 := blank_spec l'.blank.2 hb1.2
    obtain ⟨⟨g1, g2, g3, g4, g5⟩, _⟩ := layOut_spec a 0 l'.blank.2.blank.2 (by omega) hb2.2 (by simpa [Ast.WF] using hwf)
    have hb3 := blank_spec _ g5
    refine ⟨⟨?_, ?_, ?_, ?_, hb3.2⟩, rfl⟩
    · simp [Cst.toAst, g1]
    · simp [Conv, g2]
    · simp [Cst.WF, hb1.1, hb2.1, g3, hb3.1]
    · simpa [Cst.bigInt, Ast.bigInt] using g4
  | .bin op a b, need, l, hn, hl, hwf => by
    unfold layOut
    simp only [Ast.WF, Bool.and_eq_true] at hwf
    refine wrap_spec hn (fun l' hl' => ?_) l hl
    have hn1 : op.needs.1 ≤ 4 := by cases op <;> simp [BinOp.needs]
    have hn2 : op.needs.2 ≤ 4 := by cases op <;> simp [BinOp.needs]
    obtain ⟨⟨a1, a2, a3, a4, a5⟩, alev⟩ := layOut_spec a op.needs.1 l' hn1 hl' hwf.1
    have hb := blank_spec _ a5
    obtain ⟨⟨b1, b2, b3, b4, b5⟩, blev⟩ := layOut_spec b op.needs.2 _ hn2 hb.2 hwf.2
    refine ⟨⟨?_, ?_, ?_, ?_, b5⟩, ?_⟩
    · simp [Cst.toAst, a1, b1]
    · simp [Conv, a2, b2, alev, blev]
    · simp [Cst.WF, a3, hb.1, b3]
    · simp [Cst.bigInt, Ast.bigInt, a4, b4]
    · cases op <;> rfl

end Q1t.Proofs.Expr

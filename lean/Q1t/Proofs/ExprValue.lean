import Q1t.Proofs.ExprRoundTrip
/-!
C14, part 6: the value of the parsed expression is the conventional value; the conventional renderer
produces conventionally parenthesised trees.  (Core Lean only.)
-/
namespace Q1t.Proofs.Expr
open Q1t.Expr Q1t.Spec.ExprGrammar
open Q1t.DecFloat (isDigit)

/-- The interpretation of the grammar induced by an interpretation of the float operations of the code. -/
def interpOf {F : Type} (I : FloatOps F) : Interp F where
  lit t := I.ofLit (litOf t)
  bin op := match op with
    | .add => I.add | .sub => I.sub | .mul => I.mul | .div => I.div | .pow => I.powf
  neg := I.neg
  app f := match f with
    | .sin => I.sin | .cos => I.cos | .tan => I.tan | .exp => I.exp | .ln => I.ln | .sqrt => I.sqrt

theorem evalWith_wrapNeg {F : Type} (I : FloatOps F) (b : Bool) (e : Expr) (v : F)
    (h : evalWith I [] e = .ok v) : evalWith I [] (wrapNeg b e) = .ok (if b then I.neg v else v) := by
  cases b
  · simpa [wrapNeg] using h
  · simp only [wrapNeg, if_true, evalWith, h]; rfl

theorem eval_pe {F : Type} (I : FloatOps F) (hneg : ∀ x, I.neg (I.neg x) = x) : ∀ (c : Cst) (b : Bool),
    evalWith I [] (pe b c) =
      .ok (if b then I.neg (evalConv (interpOf I) c.toAst) else evalConv (interpOf I) c.toAst)
  | .neg w a, b => by
    have ih := eval_pe I hneg a (!b)
    simp only [pe, Cst.toAst, evalConv, ih]
    cases b
    · simp [interpOf]
    · simp [interpOf, hneg]
  | .lit w t, b => by
    simp only [pe, Cst.toAst, evalConv]
    exact evalWith_wrapNeg I b _ _ (by simp [evalWith, interpOf])
  | .paren w1 a w2, b => by
    simp only [pe, Cst.toAst]
    exact evalWith_wrapNeg I b _ _ (by simpa using eval_pe I hneg a false)
  | .app w1 f w2 a w3, b => by
    simp only [pe, Cst.toAst, evalConv]
    apply evalWith_wrapNeg
    have ih := eval_pe I hneg a false
    simp only [Bool.false_eq_true, if_false] at ih
    cases f <;> (simp only [evalWith, ih, Fn.name]; rfl)
  | .bin op a w x, b => by
    simp only [pe, Cst.toAst, evalConv]
    apply evalWith_wrapNeg
    have iha := eval_pe I hneg a false
    have ihx := eval_pe I hneg x false
    simp only [Bool.false_eq_true, if_false] at iha ihx
    cases op <;> (simp only [mkBin, evalWith, iha, ihx]; rfl)

/-- The parsed expression evaluates, without error, to the conventional value of the tree — for every
interpretation of the float operations in which negation is an involution (IEEE negation flips the
sign bit). -/
theorem eval_parsed {F : Type} (I : FloatOps F) (hneg : ∀ x, I.neg (I.neg x) = x) (c : Cst) :
    eval I (parsed c) = .ok (evalConv (interpOf I) c.toAst) := by
  have := eval_pe I hneg c false
  simpa [eval, parsed] using this

/-- Without directly adjacent minus signs nothing is cancelled, and no property of negation is needed. -/
theorem eval_pe_noAdj {F : Type} (I : FloatOps F) : ∀ (c : Cst), c.adjNeg = false →
    evalWith I [] (pe false c) = .ok (evalConv (interpOf I) c.toAst) ∧
    (c.level ≠ 2 → evalWith I [] (pe true c) = .ok (I.neg (evalConv (interpOf I) c.toAst)))
  | .neg w a, h => by
    simp only [Cst.adjNeg, Bool.or_eq_false_iff, beq_eq_false_iff_ne, ne_eq] at h
    have ih := eval_pe_noAdj I a h.2
    refine ⟨?_, fun hl => by simp [Cst.level] at hl⟩
    simp only [pe, Bool.not_false, Cst.toAst, evalConv, ih.2 h.1]
    rfl
  | .lit w t, _ => by
    have h0 : evalWith I [] (Expr.value (litOf t)) = .ok (evalConv (interpOf I) (Cst.lit w t).toAst) := by
      simp [evalWith, interpOf, Cst.toAst, evalConv]
    exact ⟨by simpa [pe, wrapNeg] using h0, fun _ => by simpa [pe] using evalWith_wrapNeg I true _ _ h0⟩
  | .paren w1 a w2, h => by
    have ih := (eval_pe_noAdj I a (by simpa [Cst.adjNeg] using h)).1
    exact ⟨by simpa [pe, wrapNeg, Cst.toAst] using ih,
      fun _ => by simpa [pe, Cst.toAst] using evalWith_wrapNeg I true _ _ ih⟩
  | .app w1 f w2 a w3, h => by
    have ih := (eval_pe_noAdj I a (by simpa [Cst.adjNeg] using h)).1
    have h0 : evalWith I [] (Expr.function f.name (pe false a)) =
        .ok (evalConv (interpOf I) (Cst.app w1 f w2 a w3).toAst) := by
      simp only [Cst.toAst, evalConv]
      cases f <;> (simp only [evalWith, ih, Fn.name]; rfl)
    exact ⟨by simpa [pe, wrapNeg] using h0, fun _ => by simpa [pe] using evalWith_wrapNeg I true _ _ h0⟩
  | .bin op a w x, h => by
    simp only [Cst.adjNeg, Bool.or_eq_false_iff] at h
    have iha := (eval_pe_noAdj I a h.1).1
    have ihx := (eval_pe_noAdj I x h.2).1
    have h0 : evalWith I [] (mkBin op (pe false a) (pe false x)) =
        .ok (evalConv (interpOf I) (Cst.bin op a w x).toAst) := by
      simp only [Cst.toAst, evalConv]
      cases op <;> (simp only [mkBin, evalWith, iha, ihx]; rfl)
    exact ⟨by simpa [pe, wrapNeg] using h0, fun _ => by simpa [pe] using evalWith_wrapNeg I true _ _ h0⟩

theorem eval_parsed_noAdj {F : Type} (I : FloatOps F) (c : Cst) (h : c.adjNeg = false) :
    eval I (parsed c) = .ok (evalConv (interpOf I) c.toAst) :=
  (eval_pe_noAdj I c h).1

/-! ### literals: the model re-reads the matched text, the reference reads the token -/

theorem noDigit_nil : NoDigit [] := fun c t e => by simp at e

theorem literalBits_int {ds : List Char} (hd : allDigits ds = true) :
    DecFloat.literalBits ds = DecFloat.decToBits (DecFloat.digitsToNat ds) 0 := by
  have h1 : ds.takeWhile isDigit = ds := by
    have := takeWhile_digits (rest := []) (digits_of_all hd) noDigit_nil; simpa using this
  have h2 : ds.dropWhile isDigit = [] := by
    have := dropWhile_digits (rest := []) (digits_of_all hd) noDigit_nil; simpa using this
  simp [DecFloat.literalBits, h1, h2]

theorem literalBits_dec {ip fp : List Char} {ex : Option ExpPart} (ht : (LitTok.dec ip fp ex).WF = true) :
    DecFloat.literalBits (LitTok.dec ip fp ex).text =
      DecFloat.decToBits (LitTok.dec ip fp ex).decimal.1 (LitTok.dec ip fp ex).decimal.2 := by
  simp only [LitTok.WF, Bool.and_eq_true] at ht
  obtain ⟨⟨⟨hi, hf⟩, _⟩, hex⟩ := ht
  have hi' := digits_of_all hi
  have hf' := digits_of_all hf
  have hdot : ∀ t, NoDigit ('.' :: t) := by
    intro t c tl e; simp only [List.cons.injEq] at e; obtain ⟨rfl, _⟩ := e; decide
  cases ex with
  | none =>
    have e : (LitTok.dec ip fp none).text = ip ++ '.' :: (fp ++ []) := by simp [LitTok.text]
    rw [e]
    simp only [DecFloat.literalBits, takeWhile_digits hi' (hdot _), dropWhile_digits hi' (hdot _),
      takeWhile_digits hf' noDigit_nil, dropWhile_digits hf' noDigit_nil, LitTok.decimal]
  | some x =>
    obtain ⟨m, sg, ds⟩ := x
    have hx : (ExpPart.mk m sg ds).WF = true := hex
    simp only [ExpPart.WF, Bool.and_eq_true, Bool.or_eq_true, beq_iff_eq, Bool.not_eq_true',
      List.isEmpty_eq_false_iff] at hx
    obtain ⟨⟨⟨hm, hsg⟩, hne⟩, hd⟩ := hx
    have hmnd : ∀ t, NoDigit (m :: t) := by
      intro t c tl e; simp only [List.cons.injEq] at e; obtain ⟨rfl, _⟩ := e
      rcases hm with h | h <;> (rw [h]; decide)
    cases sg with
    | some c =>
      have hc : c = '+' ∨ c = '-' := by simpa using hsg
      have e : (LitTok.dec ip fp (some ⟨m, some c, ds⟩)).text = ip ++ '.' :: (fp ++ (m :: c :: ds)) := by
        simp [LitTok.text, ExpPart.text]
      rw [e]
      simp only [DecFloat.literalBits, takeWhile_digits hi' (hdot _), dropWhile_digits hi' (hdot _),
        takeWhile_digits hf' (hmnd _), dropWhile_digits hf' (hmnd _), LitTok.decimal]
      rcases hc with h | h <;> (subst h; simp)
    | none =>
      cases ds with
      | nil => exact absurd rfl hne
      | cons d ds' =>
        have hdd := digits_of_all hd d (by simp)
        have h1 : d ≠ '-' := by intro h; subst h; revert hdd; decide
        have h2 : d ≠ '+' := by intro h; subst h; revert hdd; decide
        have e : (LitTok.dec ip fp (some ⟨m, none, d :: ds'⟩)).text = ip ++ '.' :: (fp ++ (m :: d :: ds')) := by
          simp [LitTok.text, ExpPart.text]
        rw [e]
        simp only [DecFloat.literalBits, takeWhile_digits hi' (hdot _), dropWhile_digits hi' (hdot _),
          takeWhile_digits hf' (hmnd _), dropWhile_digits hf' (hmnd _), LitTok.decimal]
        split
        · rename_i heq; simp only [List.cons.injEq] at heq; exact absurd heq.2.1 h1
        · rename_i heq; simp only [List.cons.injEq] at heq; exact absurd heq.2.1 h2
        · rename_i heq2
          simp only [List.cons.injEq] at heq2
          obtain ⟨_, rfl⟩ := heq2
          rfl
        · rename_i heq; simp at heq

/-- The model's reading of a literal (re-lexing the matched text, as `str::parse` does) is the nearest
double of the decimal value the token denotes. -/
theorem litBits_agree {t : LitTok} (ht : t.WF = true) : litBits (litOf t) = t.bits := by
  cases t with
  | pi => rfl
  | int ds =>
    simp only [LitTok.WF, Bool.and_eq_true] at ht
    simp only [litOf, litBits, LitTok.bits, LitTok.decimal]
    exact literalBits_int ht.1
  | dec ip fp ex =>
    simp only [litOf, litBits, LitTok.bits]
    exact literalBits_dec ht

/-- On well-formed tokens the code's IEEE interpretation is the reference IEEE interpretation. -/
theorem evalConv_ieee : ∀ (a : Ast), a.WF = true → evalConv (interpOf floatOps) a = evalConv ieee a
  | .lit t, h => by
    simp only [evalConv, interpOf, floatOps, ieee]
    rw [litBits_agree (by simpa [Ast.WF] using h)]
  | .neg a, h => by
    simp only [evalConv, evalConv_ieee a (by simpa [Ast.WF] using h)]; rfl
  | .app f a, h => by
    simp only [evalConv, evalConv_ieee a (by simpa [Ast.WF] using h)]
    cases f <;> rfl
  | .bin op a b, h => by
    simp only [Ast.WF, Bool.and_eq_true] at h
    simp only [evalConv, evalConv_ieee a h.1, evalConv_ieee b h.2]
    cases op <;> rfl

theorem cst_ast_wf : ∀ (c : Cst), c.WF = true → c.toAst.WF = true
  | .lit w t, h => by simp only [Cst.WF, Bool.and_eq_true] at h; simpa [Cst.toAst, Ast.WF] using h.2
  | .neg w a, h => by
    simp only [Cst.WF, Bool.and_eq_true] at h; simpa [Cst.toAst, Ast.WF] using cst_ast_wf a h.2
  | .paren w1 a w2, h => by
    simp only [Cst.WF, Bool.and_eq_true] at h; simpa [Cst.toAst] using cst_ast_wf a h.1.2
  | .app w1 f w2 a w3, h => by
    simp only [Cst.WF, Bool.and_eq_true] at h; simpa [Cst.toAst, Ast.WF] using cst_ast_wf a h.1.2
  | .bin op a w b, h => by
    simp only [Cst.WF, Bool.and_eq_true] at h
    simp [Cst.toAst, Ast.WF, cst_ast_wf a h.1.1, cst_ast_wf b h.2]

/-! ### the conventional renderer -/

theorem blank_spec (l : Layout) (h : l.OK) : l.blank.1.all isBlank = true ∧ l.blank.2.OK := by
  unfold Layout.blank
  cases hb : l.blanks with
  | nil => exact ⟨rfl, h⟩
  | cons w ws =>
    refine ⟨h w (by simp [hb]), ?_⟩
    intro x hx; exact h x (by simp [hb]; exact .inr hx)

theorem flag_spec (l : Layout) (h : l.OK) : l.flag.2.OK := by
  unfold Layout.flag
  cases hb : l.parens with
  | nil => exact h
  | cons b bs => exact h

/-- What a laid-out tree must satisfy. -/
def Good (a : Ast) (r : Cst × Layout) : Prop :=
  r.1.toAst = a ∧ Conv r.1 = true ∧ r.1.WF = true ∧ r.1.bigInt = a.bigInt ∧ r.2.OK

theorem wrap_spec {a : Ast} {lvl need : Nat} (hneed : need ≤ 4) {body : Layout → Cst × Layout}
    (hbody : ∀ l, l.OK → Good a (body l) ∧ (body l).1.level = lvl) (l : Layout) (hl : l.OK) :
    Good a (wrap lvl need l body) ∧ need ≤ (wrap lvl need l body).1.level := by
  unfold wrap
  have hf := flag_spec l hl
  by_cases hcond : (decide (lvl < need) || l.flag.1) = true
  · simp only [hcond, if_true]
    have hb1 := blank_spec l.flag.2 hf
    obtain ⟨⟨g1, g2, g3, g4, g5⟩, _⟩ := hbody l.flag.2.blank.2 hb1.2
    have hb2 := blank_spec (body l.flag.2.blank.2).2 g5
    refine ⟨⟨?_, ?_, ?_, ?_, hb2.2⟩, ?_⟩
    · simpa [Cst.toAst] using g1
    · simpa [Conv] using g2
    · simp [Cst.WF, hb1.1, g3, hb2.1]
    · simpa [Cst.bigInt] using g4
    · simpa [Cst.level] using hneed
  · simp only [hcond, Bool.false_eq_true, if_false]
    obtain ⟨g, glev⟩ := hbody l.flag.2 hf
    refine ⟨g, ?_⟩
    simp only [Bool.or_eq_true, decide_eq_true_eq, not_or, Nat.not_lt] at hcond
    omega

theorem layOut_spec : ∀ (a : Ast) (need : Nat) (l : Layout), need ≤ 4 → l.OK → a.WF = true →
    Good a (layOut a need l) ∧ need ≤ (layOut a need l).1.level
  | .lit t, need, l, hn, hl, hwf => by
    unfold layOut
    refine wrap_spec hn (fun l' hl' => ?_) l hl
    have hb := blank_spec l' hl'
    refine ⟨⟨rfl, rfl, ?_, ?_, hb.2⟩, rfl⟩
    · simp only [Ast.WF] at hwf; simp [Cst.WF, hb.1, hwf]
    · cases t <;> rfl
  | .neg a, need, l, hn, hl, hwf => by
    unfold layOut
    refine wrap_spec hn (fun l' hl' => ?_) l hl
    have hb := blank_spec l' hl'
    obtain ⟨⟨g1, g2, g3, g4, g5⟩, glev⟩ := layOut_spec a 2 l'.blank.2 (by omega) hb.2 (by simpa [Ast.WF] using hwf)
    refine ⟨⟨?_, ?_, ?_, ?_, g5⟩, rfl⟩
    · simp [Cst.toAst, g1]
    · simp [Conv, g2, glev]
    · simp [Cst.WF, hb.1, g3]
    · simpa [Cst.bigInt, Ast.bigInt] using g4
  | .app f a, need, l, hn, hl, hwf => by
    unfold layOut
    refine wrap_spec hn (fun l' hl' => ?_) l hl
    have hb1 := blank_spec l' hl'
    have hb2 := blank_spec l'.blank.2 hb1.2
    obtain ⟨⟨g1, g2, g3, g4, g5⟩, _⟩ := layOut_spec a 0 l'.blank.2.blank.2 (by omega) hb2.2 (by simpa [Ast.WF] using hwf)
    have hb3 := blank_spec _ g5
    refine ⟨⟨?_, ?_, ?_, ?_, hb3.2⟩, rfl⟩
    · simp [Cst.toAst, g1]
    · simp [Conv, g2]
    · simp [Cst.WF, hb1.1, hb2.1, g3, hb3.1]
    · simpa [Cst.bigInt, Ast.bigInt] using g4
  | .bin op a b, need, l, hn, hl, hwf => by
    unfold layOut
    simp only [Ast.WF, Bool.and_eq_true] at hwf
    refine wrap_spec hn (fun l' hl' => ?_) l hl
    have hn1 : op.needs.1 ≤ 4 := by cases op <;> simp [BinOp.needs]
    have hn2 : op.needs.2 ≤ 4 := by cases op <;> simp [BinOp.needs]
    obtain ⟨⟨a1, a2, a3, a4, a5⟩, alev⟩ := layOut_spec a op.needs.1 l' hn1 hl' hwf.1
    have hb := blank_spec _ a5
    obtain ⟨⟨b1, b2, b3, b4, b5⟩, blev⟩ := layOut_spec b op.needs.2 _ hn2 hb.2 hwf.2
    refine ⟨⟨?_, ?_, ?_, ?_, b5⟩, ?_⟩
    · simp [Cst.toAst, a1, b1]
    · simp [Conv, a2, b2, alev, blev]
    · simp [Cst.WF, a3, hb.1, b3]
    · simp [Cst.bigInt, Ast.bigInt, a4, b4]
    · cases op <;> rfl


/-! ### assembled statements -/

theorem parse_cst_ieee (c : Cst) (hwf : c.WF = true) (hc : Conv c = true) (hs : c.bigInt = false)
    (rest : List Char) (hr : Stops rest = true) :
    parse (c.flatten ++ rest) = .ok (parsed c, rest) ∧
    (c.adjNeg = false → eval floatOps (parsed c) = .ok (evalConv ieee c.toAst)) ∧
    ((∀ x : Float, - -x = x) → eval floatOps (parsed c) = .ok (evalConv ieee c.toAst)) := by
  refine ⟨parse_flatten c hwf hc hs rest hr, fun h => ?_, fun h => ?_⟩
  · rw [eval_parsed_noAdj floatOps c h, evalConv_ieee _ (cst_ast_wf c hwf)]
  · rw [eval_parsed floatOps h c, evalConv_ieee _ (cst_ast_wf c hwf)]

theorem parse_render (a : Ast) (l : Layout) (rest : List Char) (hwf : a.WF = true)
    (hs : a.bigInt = false) (hl : l.OK) (hr : Stops rest = true) :
    ∃ e, parse (render a l ++ rest) = .ok (e, rest) ∧
      (∀ {F : Type} (I : FloatOps F), (∀ x, I.neg (I.neg x) = x) →
        eval I e = .ok (evalConv (interpOf I) a)) ∧
      ((∀ x : Float, - -x = x) → eval floatOps e = .ok (evalConv ieee a)) := by
  obtain ⟨⟨g1, g2, g3, g4, _⟩, _⟩ := layOut_spec a 0 l (by omega) hl hwf
  refine ⟨parsed (layOut a 0 l).1, parse_flatten _ g3 g2 (g4.trans hs) rest hr, ?_, ?_⟩
  · intro F I hneg
    rw [eval_parsed I hneg, g1]
  · intro hneg
    rw [eval_parsed floatOps hneg, g1, evalConv_ieee a hwf]

end Q1t.Proofs.Expr

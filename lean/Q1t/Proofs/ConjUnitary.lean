import Q1t.Proofs.ConjEmbed
set_option linter.unusedSimpArgs false
set_option linter.unusedSectionVars false
set_option linter.unusedVariables false
/-!
# C06, part 7: the documented matrix of EVERY well-formed term is unitary

Closes the gap C05 left open ("that `embed` of a unitary on distinct in-range qubits is unitary"):
with `ConjEmbed.embed_unitary`, structural induction over `C`, `Kron`, `Composite`, `Loop` gives
unitarity of `Spec.specMatrix g` for all well-formed terms, all parameter values, any lawful
amplitude type.
-/
namespace Q1t.Proofs.ConjUnitary
open Q1t Q1t.Gate Q1t.LMat Q1t.Spec Q1t.Spec.Clifford Q1t.Proofs.ConjBridge Q1t.Proofs.Unitaries

variable {α A : Type} [CommRing α] [Amp α A]

theorem isUnitary_iff_unitary {k : Nat} {M : LMat α} : IsUnitary A k M ↔ LMat.Unitary A (2 ^ k) M := by
  unfold IsUnitary LMat.Unitary LMat.WF mulAdjoint adjoint
  constructor
  · rintro ⟨h1, h2, h3⟩; exact ⟨⟨h1, h2⟩, h3⟩
  · rintro ⟨⟨h1, h2⟩, h3⟩; exact ⟨h1, h2, h3⟩

section
variable (h : LawfulAmp α A)
include h

theorem prim_spec_unitary (g : GateTerm A) (hck : CKTerm g) :
    LMat.Unitary A (2 ^ nrBits g) (specMatrix g : LMat α) := by
  obtain ⟨hs, hU⟩ := good_of_term (α := α) h g hck
  rw [← hs]; exact hU

mutual
theorem spec_unitary : (g : GateTerm A) → Spec.WF g → LMat.Unitary A (2 ^ nrBits g) (specMatrix g : LMat α)
  | .C g, hw => by
    simp only [Spec.WF] at hw
    have ih := spec_unitary g hw
    have e : 2 ^ nrBits g + 2 ^ nrBits g = 2 ^ nrBits (.C g) := by
      simp only [nrBits]; rw [Nat.pow_add]; omega
    simp only [specMatrix]
    rw [← e]
    exact unitary_ctrl h (Nat.pow_pos (by decide)) ih
  | .Kron g0 g1, hw => by
    simp only [Spec.WF] at hw
    have i0 := spec_unitary g0 hw.1
    have i1 := spec_unitary g1 hw.2
    simp only [specMatrix, nrBits, Nat.pow_add]
    exact unitary_kronecker h (Nat.pow_pos (by decide)) (Nat.pow_pos (by decide)) i0 i1
  | .Composite _ n ops, hw => by
    simp only [Spec.WF] at hw
    simp only [specMatrix, nrBits]
    exact specOps_unitary' ops n hw.2 _ (unitary_identity h (Nat.pow_pos (by decide)))
  | .Loop _ k _ n body, hw => by
    simp only [Spec.WF] at hw
    simp only [specMatrix, nrBits]
    exact unitary_mpow h (Nat.pow_pos (by decide))
      (specOps_unitary' body n hw.2 _ (unitary_identity h (Nat.pow_pos (by decide)))) k
  | .H, _ => prim_spec_unitary h .H trivial
  | .X, _ => prim_spec_unitary h .X trivial
  | .Y, _ => prim_spec_unitary h .Y trivial
  | .Z, _ => prim_spec_unitary h .Z trivial
  | .S, _ => prim_spec_unitary h .S trivial
  | .Sdg, _ => prim_spec_unitary h .Sdg trivial
  | .T, _ => prim_spec_unitary h .T trivial
  | .Tdg, _ => prim_spec_unitary h .Tdg trivial
  | .V, _ => prim_spec_unitary h .V trivial
  | .Vdg, _ => prim_spec_unitary h .Vdg trivial
  | .I, _ => prim_spec_unitary h .I trivial
  | .RX θ, _ => prim_spec_unitary h (.RX θ) trivial
  | .RY θ, _ => prim_spec_unitary h (.RY θ) trivial
  | .RZ θ, _ => prim_spec_unitary h (.RZ θ) trivial
  | .U1 θ, _ => prim_spec_unitary h (.U1 θ) trivial
  | .U2 θ φ, _ => prim_spec_unitary h (.U2 θ φ) trivial
  | .U3 θ φ l, _ => prim_spec_unitary h (.U3 θ φ l) trivial
  | .CX, _ => prim_spec_unitary h .CX trivial
  | .CY, _ => prim_spec_unitary h .CY trivial
  | .CZ, _ => prim_spec_unitary h .CZ trivial
  | .Swap, _ => prim_spec_unitary h .Swap trivial
theorem specOps_unitary' : (l : OpList A) → (n : Nat) → Spec.WFOps n l → (acc : LMat α) →
    LMat.Unitary A (2 ^ n) acc → LMat.Unitary A (2 ^ n) (specOps l n acc : LMat α)
  | .nil, _, _, acc, hacc => by simpa [specOps] using hacc
  | .cons g bits rest, n, hw, acc, hacc => by
    simp only [Spec.WFOps] at hw
    obtain ⟨hwg, hnb, hv, hwrest⟩ := hw
    have ig := spec_unitary g hwg
    rw [hnb] at ig
    have hE : LMat.Unitary A (2 ^ n) (embed n bits (specMatrix g : LMat α)) :=
      isUnitary_iff_unitary.1 (Q1t.Proofs.ConjEmbed.embed_unitary h n bits hv _ (isUnitary_iff_unitary.2 ig))
    simp only [specOps]
    exact specOps_unitary' rest n hwrest _ (unitary_mul h (Nat.pow_pos (by decide)) hE hacc)
end

end

end Q1t.Proofs.ConjUnitary

import Q1t.Proofs.SimDischarge
import Q1t.Proofs.SimCapstone
import Q1t.Proofs.UnitariesQ8
import Q1t.Model.StabSim
import Q1t.Gen.Conj
import Q1t.Gen.PhaseTable
/-!
C02: a concrete model of all hypotheses, a concrete circuit with a concrete supported run (non-vacuity), and
the negative witness for D5 (stabilizer `peek_all` on a Bell pair stores a value of Born probability 0).
Closed computations over the exact field `Q8 = ℚ(ζ₈)`, checked by the kernel.
-/
namespace Q1t.Sim.Demo
open Q1t Q1t.Sim Q1t.Sim.Prog Q1t.Spec

/-! ### a Boolean checker for `Supported` -/

section supp
variable {W β : Type}

def supportedB (sb : Nat → W → Nat → Bool) (sc : List W → Nat → Bool) : Prog W β → List Draw → Bool
  | .binomial c p k, .bin n0 :: ds => sb c p n0 && supportedB sb sc (k n0) ds
  | .categorical ws _ k, .cat l :: ds => l.all (fun ic => sc ws ic.1) && supportedB sb sc (k l) ds
  | _, _ => true

theorem supportedB_sound {sb : Nat → W → Nat → Bool} {sc : List W → Nat → Bool} {sbP : Nat → W → Nat → Prop}
    {scP : List W → Nat → Prop} (hb : ∀ c p n, sb c p n = true → sbP c p n) (hc : ∀ ws i, sc ws i = true → scP ws i)
    (p : Prog W β) : ∀ ds, supportedB sb sc p ds = true → Supported sbP scP p ds := by
  induction p with
  | pure b => intro ds _; simp [Supported]
  | fail e => intro ds _; simp [Supported]
  | binomial c p k ih =>
    intro ds h
    match ds, h with
    | .bin n0 :: ds0, h =>
      simp only [supportedB, Bool.and_eq_true] at h
      exact ⟨hb _ _ _ h.1, ih n0 ds0 h.2⟩
    | [], _ => simp [Supported]
    | .cat _ :: _, _ => simp [Supported]
  | categorical ws c k ih =>
    intro ds h
    match ds, h with
    | .cat l :: ds0, h =>
      simp only [supportedB, Bool.and_eq_true, List.all_eq_true] at h
      exact ⟨fun ic hic => hc _ _ (h.1 ic hic), ih l ds0 h.2⟩
    | [], _ => simp [Supported]
    | .bin _ :: _, _ => simp [Supported]

end supp

/-- the run succeeds with final register `c0` and consumes all draws -/
def checkRun {W S : Type} (p : Prog W (S × List Nat)) (ds : List Draw) (c0 : List Nat) : Bool :=
  match runOracle p ds with
  | some (.ok (_, c'), rest) => c' == c0 && rest.isEmpty
  | _ => false

/-! ### the model: `Q8` with `rsqrt` on the weights 1, ½, ¼ -/

def q8Rat (r : Rat) : Q8 := ⟨r, 0, 0, 0⟩
def q8Sqrt2 : Q8 := ⟨0, 1, 0, -1⟩

/-- a PARTIAL `SimAmp Q8`: `rsqrt` is defined on the weights 1, ½, ¼ (`1`, `√2 = ζ − ζ³`, `2`), `0` elsewhere;
`min1` is the identity.  Lawful relative to `nzQ8` (= "is one of these three weights"). -/
instance simAmpQ8 : SimAmp Q8 where
  normSq x := x * Q8.conj x
  rsqrt w := if w = 1 then 1 else if w = q8Rat (1/2) then q8Sqrt2 else if w = q8Rat (1/4) then q8Rat 2 else 0
  min1 w := w
  weightsOk ws := ws.any (· ≠ 0)

def nzQ8 (w : Q8) : Prop := w = 1 ∨ w = q8Rat (1/2) ∨ w = q8Rat (1/4)
def nzQ8B (w : Q8) : Bool := w = 1 || w = q8Rat (1/2) || w = q8Rat (1/4)

theorem nzQ8B_iff (w : Q8) : nzQ8B w = true → nzQ8 w := by
  simp only [nzQ8B, Bool.or_eq_true, decide_eq_true_eq, nzQ8]
  rintro ((h | h) | h)
  · exact Or.inl h
  · exact Or.inr (Or.inl h)
  · exact Or.inr (Or.inr h)

theorem lawfulSimQ8 : LawfulSim Q8 Empty nzQ8 where
  normSq_eq := fun _ => rfl
  rsqrt_mul := by
    rintro w (rfl | rfl | rfl) <;> decide +kernel
  rsqrt_real := by
    rintro w (rfl | rfl | rfl) <;> decide +kernel
  min1_nz0 := fun _ h => h
  min1_nz1 := fun _ h => h

/-- the exact norm test of the field `Q8` -/
def nonzeroQ8 (v : List Q8) : Bool := decide (normSqSum v ≠ 0)

theorem nonzeroQ8_ok : NonzeroOK nonzeroQ8 := by
  intro v ⟨u, hu⟩
  simp only [nonzeroQ8, decide_eq_true_eq]
  intro h0
  rw [h0, zero_mul] at hu
  exact absurd hu (by decide +kernel)

def suppBinB (c : Nat) (p : Q8) (n0 : Nat) : Bool := (!decide (0 < n0) || nzQ8B p) && (!decide (n0 < c) || nzQ8B (1 - p))
def suppCatB (ws : List Q8) (i : Nat) : Bool := match ws[i]? with | some w => nzQ8B w | none => true

theorem suppBinB_sound (c : Nat) (p : Q8) (n0 : Nat) (h : suppBinB c p n0 = true) : suppBin nzQ8 c p n0 := by
  simp only [suppBinB, Bool.and_eq_true, Bool.or_eq_true, Bool.not_eq_true', decide_eq_false_iff_not] at h
  exact ⟨fun h0 => nzQ8B_iff _ (h.1.resolve_left (fun hn => hn h0)),
    fun h1 => nzQ8B_iff _ (h.2.resolve_left (fun hn => hn h1))⟩

theorem suppCatB_sound (ws : List Q8) (i : Nat) (h : suppCatB ws i = true) : suppCat nzQ8 ws i := by
  intro w hw
  simp only [suppCatB, hw] at h
  exact nzQ8B_iff _ h

/-! ### non-vacuity: a concrete circuit and run -/

/-- 2 qubits: `H`; a Y-basis collapsing measurement; a conditional gate; a reset; an X-basis peek;
`measure_all` in Z and `peek_all` in X on distinct classical bits -/
def demoOps : List (COp Empty) :=
  [.gate .H [0], .measure 0 0 .Y, .cond [0] 1 .X [1], .reset 1, .gate .H [1], .peek 1 1 .X, .barrier [0, 1],
   .measureAll [2, 3] .Z, .peekAll [4, 5] .X]

def demoProg : Prog Q8 (VecState Q8 × List Nat) :=
  execOps (vecBackend (α := Q8) (P := Empty)) (VecState.new 2 2) (List.replicate 2 0) demoOps

/-- one zero and one one in the Y measurement; the hidden reset outcomes; the peeks; the sampled basis states -/
def demoDraws : List Draw :=
  [.bin 1, .bin 1, .bin 0, .bin 1, .bin 1, .cat [(2, 1)], .cat [(1, 1)], .cat [(0, 1)], .cat [(3, 1)]]

theorem demo_valid : OpsValid (basisValid (P := Empty) 2) demoOps := by
  intro op hop
  simp only [demoOps, List.mem_cons, List.not_mem_nil, or_false] at hop
  rcases hop with rfl | rfl | rfl | rfl | rfl | rfl | rfl | rfl | rfl
  · exact ⟨Or.inl rfl, 0, by decide, rfl⟩
  · trivial
  · exact ⟨Or.inr (Or.inl rfl), 1, by decide, rfl⟩
  · trivial
  · exact ⟨Or.inl rfl, 1, by decide, rfl⟩
  all_goals trivial

theorem demo_ok : ∀ op ∈ demoOps, OpOK op := by
  intro op hop
  simp only [demoOps, List.mem_cons, List.not_mem_nil, or_false] at hop
  rcases hop with rfl | rfl | rfl | rfl | rfl | rfl | rfl | rfl | rfl
  all_goals first | trivial | (show List.Nodup _; decide)

theorem demo_no_resetAll : COp.resetAll ∉ demoOps := by
  simp [demoOps]

/-- the run succeeds, consumes all draws, and stores the words `0b011100`-style values computed below -/
theorem demo_runs : checkRun demoProg demoDraws [4, 57] = true := by decide +kernel

theorem demo_supported : supportedB suppBinB suppCatB demoProg demoDraws = true := by decide +kernel

/-! ### D5: stabilizer `peek_all` on a Bell pair -/

/-- conjugation rules of `H` and `CX` from the generated table -/
def conjHCX : GateTerm Empty → Q1t.Tableau.Tab.Conj
  | .H => Q1t.Tableau.conjOf Q1t.Gen.conjTable Q1t.Gen.conjNoArityCheck "H"
  | .CX => Q1t.Tableau.conjOf Q1t.Gen.conjTable Q1t.Gen.conjNoArityCheck "CX"
  | _ => fun _ => .error .notAStabilizer

/-- the stabilizer backend of the model with the generated phase and conjugation tables -/
def stabQ8 : Backend Q8 Empty StabState := stabBackend (q8Rat (1/2)) Q1t.Gen.phaseTable conjHCX

def bellPeekAll : List (COp Empty) := [.gate .H [0], .gate .CX [0, 1], .peekAll [0, 1] .Z]

def bellProg : Prog Q8 (StabState × List Nat) := execOps stabQ8 (StabState.new 2 1) [0] bellPeekAll

/-- qubit 0 peeked as 0, qubit 1 peeked as 1 — each an outcome of probability ½ of its own binomial -/
def bellDraws : List Draw := [.bin 1, .bin 0]

theorem d5_model_stores_2 : checkRun bellProg bellDraws [2] = true := by decide +kernel

theorem d5_supported : supportedB suppBinB suppCatB bellProg bellDraws = true := by decide +kernel

/-- the reference semantics: no candidate — the record `00 → 00 → 10` has Born probability 0 -/
theorem d5_born_zero : Spec.replay (P := Empty) 2 nonzeroQ8 bellPeekAll [0, 0, 2] [(ket0 2, 0)] = [] := by
  decide +kernel

/-! ### from the Boolean checks to the statements -/

theorem run_of_check {W S : Type} {p : Prog W (S × List Nat)} {ds : List Draw} {c0 : List Nat}
    (h : checkRun p ds c0 = true) : ∃ s', runOracle p ds = some (.ok (s', c0), []) := by
  unfold checkRun at h
  cases hr : runOracle p ds with
  | none => rw [hr] at h; cases h
  | some x =>
    obtain ⟨r, rest⟩ := x
    rw [hr] at h
    cases r with
    | error e => cases h
    | ok sc =>
      obtain ⟨s', c'⟩ := sc
      simp only [Bool.and_eq_true, beq_iff_eq, List.isEmpty_iff] at h
      obtain ⟨rfl, rfl⟩ := h
      exact ⟨s', rfl⟩

/-- the demo circuit has a successful run on draws in the support -/
theorem demo_run : ∃ s', runOracle demoProg demoDraws = some (.ok (s', [4, 57]), []) ∧
    Supported (suppBin nzQ8) (suppCat nzQ8) demoProg demoDraws :=
  let ⟨s', h⟩ := run_of_check demo_runs
  ⟨s', h, supportedB_sound suppBinB_sound suppCatB_sound _ _ demo_supported⟩

/-- **D5**: on the stabilizer backend of the model, `h(0); cx(0,1); peek_all` with draws in the support stores
the word `0b10`, a record for which the reference semantics has no candidate (Born probability 0) -/
theorem d5_witness : (∃ s', runOracle bellProg bellDraws = some (.ok (s', [2]), []) ∧
      Supported (suppBin nzQ8) (suppCat nzQ8) bellProg bellDraws) ∧
    Spec.replay (P := Empty) 2 nonzeroQ8 bellPeekAll [0, 0, 2] [(ket0 2, 0)] = [] :=
  ⟨let ⟨s', h⟩ := run_of_check d5_model_stores_2
   ⟨s', h, supportedB_sound suppBinB_sound suppCatB_sound _ _ d5_supported⟩, d5_born_zero⟩

/-! ### D14: `measure_all` with a repeated classical target (vector backend) -/

/-- 2 qubits in `|10⟩`, both measured into classical bit 0 -/
def d14Ops : List (COp Empty) := [.gate .X [0], .measureAll [0, 0] .Z]

def d14Prog : Prog Q8 (VecState Q8 × List Nat) :=
  execOps (vecBackend (α := Q8) (P := Empty)) (VecState.new 2 1) [0] d14Ops

/-- the only possible draw: basis state `|10⟩` (index 2), weight 1 -/
def d14Draws : List Draw := [.cat [(2, 1)]]

theorem d14_model_stores_1 : checkRun d14Prog d14Draws [1] = true := by decide +kernel
theorem d14_supported : supportedB suppBinB suppCatB d14Prog d14Draws = true := by decide +kernel
theorem d14_no_candidate : Spec.replay (P := Empty) 2 nonzeroQ8 d14Ops [0, 1] [(ket0 2, 0)] = [] := by decide +kernel
/-- the value the sequential reading "qubit 1 is written last" predicts, 0, is not what is stored either -/
theorem d14_not_nodup : ¬ OpOK (COp.measureAll (P := Empty) [0, 0] .Z) := by
  show ¬ List.Nodup [0, 0]; decide

/-- **D14**: the code ORs the outcomes of the qubits sharing a target: bit 0 holds `1 | 0 = 1`, and the stored
word has no candidate in the reference semantics (which reads bit 0 as the outcome of BOTH qubits) -/
theorem d14_witness : (∃ s', runOracle d14Prog d14Draws = some (.ok (s', [1]), []) ∧
      Supported (suppBin nzQ8) (suppCat nzQ8) d14Prog d14Draws) ∧
    Spec.replay (P := Empty) 2 nonzeroQ8 d14Ops [0, 1] [(ket0 2, 0)] = [] ∧
    ¬ OpOK (COp.measureAll (P := Empty) [0, 0] .Z) :=
  ⟨let ⟨s', h⟩ := run_of_check d14_model_stores_1
   ⟨s', h, supportedB_sound suppBinB_sound suppCatB_sound _ _ d14_supported⟩, d14_no_candidate, d14_not_nodup⟩

end Q1t.Sim.Demo

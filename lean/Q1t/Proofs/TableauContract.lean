import Q1t.Proofs.TableauContractLemmas
set_option linter.unusedSectionVars false
set_option linter.unusedVariables false
set_option linter.unusedSimpArgs false
/-!
# C03: the tableau contract `TableauOK` of the stabilizer backend (C02), for all `n`

`Reach n ph tbl noCheck t ψ` — the pairs (tableau, vector) reachable from `(Tab.new n, |0…0⟩)` by the operations
of the contract: rescaling, `apply_gate` of a valid claiming term, `collapse` after `Random`, `reset` after
`Deterministic`.  `tableauOK` instantiates `Sim.TableauOK` with `St := Reach …`.

Proved for all `n`, any commutative ring with `LawfulAmp`/`LawfulSim`, any phase table that is correct and any
conjugation table whose primitives are exact (C06): every reachable pair satisfies `StabG` (every signed row
fixes the vector) with an invertible squared norm; `apply_gate`, `Random` (+ equal halves of the norm),
`collapse`, and `reset` follow the reference semantics.

One named hypothesis remains (`DetShapeHolds`): *in every reachable tableau, a column without X/Y contains exactly
one `Z`, in a row that is `Z_q` alone*.  It is what `Deterministic` and the deterministic branch of `reset` need;
it is a statement about the reduced echelon form produced by `normalize` on `n` independent commuting rows and
is kernel-checked for `n ≤ 2` (Props/C03 `exhaustive_measure_n2`), checked by the correspondence run beyond.
-/
namespace Q1t.Proofs.TabG
open Q1t Q1t.LMat Q1t.Tableau Q1t.Spec Q1t.Spec.Clifford Q1t.Spec.Pauli Q1t.Proofs.Tableau Q1t.Sim Q1t.Conj
open Q1t.Proofs.ConjBridge Q1t.Proofs.ConjTerm Q1t.Gate

section
variable {α A : Type} [CommRing α] [Amp α A] [SimAmp α] {nz : α → Prop}
variable (n : Nat) (ph : List Nat) (tbl : Conj.Table) (noCheck : List String)

/-- the model's `conjugate` of a gate term, from the conjugation model of C06 -/
def conjOfT (g : GateTerm A) : Tab.Conj := conjOfRule (conjugateT tbl noCheck g)

/-- valid instances: well-formed claiming terms on distinct in-range qubits of the right number -/
def validT (g : GateTerm A) (bits : List Nat) : Prop :=
  Spec.WF g ∧ isStabilizerT tbl g = true ∧ validBits n bits = true ∧ bits.length = nrBits g

variable (α) in
/-- pairs reachable by the operations of the contract -/
inductive Reach : Tab → List α → Prop
  | init : Reach (Tab.new n) (ket0 n)
  | scale (t : Tab) (ψ : List α) (a b : α) : a * b = 1 → Reach t ψ → Reach t (ψ.map (· * a))
  | gate (g : GateTerm A) (bits : List Nat) (t t' : Tab) (ψ : List α) : validT n tbl g bits → Reach t ψ →
      Tab.applyGate ph (conjOfT tbl noCheck g) t bits = .ok t' → Reach t' (gateOn n g bits ψ)
  | collapse (t t' : Tab) (ψ : List α) (q i : Nat) (o : Bool) : Reach t ψ → t.measure q = .ok (.random i) →
      t.collapse ph i q o = .ok t' → Reach t' (project n q o ψ)
  | resetDet (t t' : Tab) (ψ : List α) (q : Nat) (v : Bool) : Reach t ψ → t.measure q = .ok (.deterministic v) →
      t.reset ph q = .ok t' → Reach t' (if v then gateOn (P := A) n .X [q] ψ else ψ)

/-- the shape `Deterministic` relies on -/
def DetShape (t : Tab) : Prop :=
  ∀ q : Nat, q < t.n → (∀ (k : Nat) r, t.rows[k]? = some r → xAt r q = false) →
    ∃ j : Nat, j < t.n ∧ t.rows[j]? = some (zRow t.n q) ∧
      ∀ (k : Nat) r, k ≠ j → t.rows[k]? = some r → r[q]? = some P.I

/-- facts about the entries of the conjugation table used by the contract itself (basis changes, `X` in `reset`) -/
structure TableFacts : Prop where
  flagH : isStabilizerT tbl (.H : GateTerm A) = true
  flagS : isStabilizerT tbl (.S : GateTerm A) = true
  flagSdg : isStabilizerT tbl (.Sdg : GateTerm A) = true
  flagX : isStabilizerT tbl (.X : GateTerm A) = true
  xI : conjugateT tbl noCheck (.X : GateTerm A) [.I] = .ok (false, [.I])
  xZ : conjugateT tbl noCheck (.X : GateTerm A) [.Z] = .ok (true, [.Z])

/-! ### inversion of `measure` / `reset` in the deterministic case -/

theorem measure_det_inv (t : Tab) (q : Nat) (v : Bool) (hm : t.measure q = .ok (.deterministic v)) :
    q < t.n ∧ (∀ k, k < t.n → ∃ r, t.rows[k]? = some r ∧ xAt r q = false) ∧
    ∃ i, i < t.n ∧ (∃ r, t.rows[i]? = some r ∧ r[q]? = some P.Z) ∧ t.signs[i]? = some v ∧
      ∀ t', t.reset ph q = .ok t' → t' = { t with signs := t.signs.set i false } := by
  unfold Tab.measure at hm
  split at hm
  case isFalse => cases hm
  rename_i hq
  simp only [bind] at hm
  obtain ⟨res, hres, hm⟩ := bind_ok hm
  obtain ⟨_, h2⟩ := findLast_rev P.hasX t q t.n res hres
  cases res with
  | some j => simp only [pure] at hm; cases hm
  | none =>
    simp only [] at hm
    obtain ⟨res2, hres2, hm⟩ := bind_ok hm
    obtain ⟨g1, _⟩ := findLast_rev (· == P.Z) t q t.n res2 hres2
    cases res2 with
    | none => cases hm
    | some i =>
      simp only [] at hm
      obtain ⟨s, hs, hm⟩ := bind_ok hm
      simp only [pure] at hm
      cases hm
      obtain ⟨hi, ⟨p, hp, hsel⟩, _⟩ := g1 i rfl
      have hpz : p = P.Z := by simpa using hsel
      subst hpz
      obtain ⟨r, hr, hrq, _⟩ := cell_ok_xAt t i q _ hp
      refine ⟨hq, fun k hk => ?_, i, hi, ⟨r, hr, hrq⟩, ofOption_ok hs, ?_⟩
      · obtain ⟨p', hp', hsel'⟩ := h2 rfl k hk
        obtain ⟨r', hr', _, hx⟩ := cell_ok_xAt t k q p' hp'
        exact ⟨r', hr', by rw [hx, hsel']⟩
      · intro t' ht'
        unfold Tab.reset at ht'
        rw [if_pos hq] at ht'
        simp only [bind, hres, hres2, Res.bind] at ht'
        simp only [Tab.setSign] at ht'
        split at ht'
        · cases ht'; rfl
        · cases ht'


/-! ### the deterministic branch of `reset` -/

variable (ha : LawfulAmp α A) (hs : LawfulSim α A nz) (hph : PhaseTableCorrect ph)
  (hp : PrimsExact α A tbl noCheck) (hT : TableFacts (A := A) tbl noCheck)

include ha hp hT in
/-- flipping the sign of the row `−Z_q` (all other rows have `I` at `q`) gives a tableau for `X_q ψ` -/
theorem reset_det_flip (t : Tab) (ψ : List α) (hst : StabG A t ψ) (q j : Nat) (hq : q < t.n) (hj : j < t.n)
    (hrow : t.rows[j]? = some (zRow t.n q)) (hsign : t.signs[j]? = some true)
    (hothers : ∀ (k : Nat) r, k ≠ j → t.rows[k]? = some r → r[q]? = some P.I) :
    StabG A { t with signs := t.signs.set j false } (gateOn (P := A) t.n .X [q] ψ) := by
  obtain ⟨hψ, h2, h3, h4⟩ := hst
  have te := term_exact tbl noCheck hp Q1t.Proofs.ConjEmbed.embed_exact (.X : GateTerm A) trivial hT.flagX
  have hM : WF (2 ^ [q].length) (2 ^ [q].length) (specMatrix (.X : GateTerm A) : LMat α) := te.wf
  have hv : validBits t.n [q] = true := by simp [validBits, hq]
  have hE : WF (2 ^ t.n) (2 ^ t.n) (embed t.n [q] (specMatrix (.X : GateTerm A) : LMat α)) :=
    Q1t.Proofs.Route.embed_wf _ _ _
  -- the two intertwining relations of X
  have hXI : Intertwines A (specMatrix (.X : GateTerm A) : LMat α) [.I] false [.I] := by
    obtain ⟨f, L', hr, _, hint⟩ := te.rule [.I] rfl
    rw [hT.xI] at hr; cases hr; exact hint
  have hXZ : Intertwines A (specMatrix (.X : GateTerm A) : LMat α) [.Z] true [.Z] := by
    obtain ⟨f, L', hr, _, hint⟩ := te.rule [.Z] rfl
    rw [hT.xZ] at hr; cases hr; exact hint
  refine ⟨by unfold gateOn; rw [mulVec_length, hE.1], h2, by simp [h3], ?_⟩
  intro k s r hsk hrk
  simp only at hsk hrk
  by_cases hkj : k = j
  · subst hkj
    rw [hrow] at hrk; cases hrk
    simp only [List.getElem?_set, if_true, h3, hj] at hsk
    cases hsk
    have hzl : (zRow t.n q).length = t.n := by simp [zRow]
    refine ⟨hzl, ?_⟩
    have hzq : (zRow t.n q)[q]? = some P.Z := by simp [zRow, List.getElem?_map, List.getElem?_range hq]
    have hg : gather (zRow t.n q) [q] = some [P.Z] := by simp [gather, hzq]
    have hemb := Q1t.Proofs.ConjEmbed.embed_exact (α := α) (A := A) t.n [q] _ (zRow t.n q) [.Z] [.Z] true hv hzl hM hg rfl hXZ
    have hsc : scatter (zRow t.n q) [q] [P.Z] = zRow t.n q := by
      simp only [scatter, List.zip_cons_cons, List.zip_nil_right, List.foldl_cons, List.foldl_nil]
      exact set_self_of_getElem? _ _ _ hzq
    rw [hsc] at hemb
    have := row_conj ha hE hzl hzl hemb true ψ hψ (h4 k true _ hsign hrow).2
    unfold gateOn
    exact this
  · simp only [List.getElem?_set, Ne.symm hkj, if_false] at hsk
    obtain ⟨hrl, hfix⟩ := h4 k s r hsk hrk
    have hrq := hothers k r hkj hrk
    refine ⟨hrl, ?_⟩
    have hg : gather r [q] = some [P.I] := by simp [gather, hrq]
    have hemb := Q1t.Proofs.ConjEmbed.embed_exact (α := α) (A := A) t.n [q] _ r [.I] [.I] false hv hrl hM hg rfl hXI
    have hsc : scatter r [q] [P.I] = r := by
      simp only [scatter, List.zip_cons_cons, List.zip_nil_right, List.foldl_cons, List.foldl_nil]
      exact set_self_of_getElem? _ _ _ hrq
    rw [hsc] at hemb
    have := row_conj ha hE hrl hrl hemb s ψ hψ hfix
    simp only [Bool.bne_false] at this
    unfold gateOn
    exact this

/-- `DetShape` identifies the row `measure` reads: it is `±Z_q`, the only row with a non-identity at `q` -/
theorem det_row (t : Tab) (hrl : t.rows.length = t.n) (q : Nat) (v : Bool)
    (hm : t.measure q = .ok (.deterministic v)) (hD : DetShape t) :
    ∃ j, j < t.n ∧ t.rows[j]? = some (zRow t.n q) ∧ t.signs[j]? = some v ∧
      (∀ (k : Nat) r, k ≠ j → t.rows[k]? = some r → r[q]? = some P.I) ∧
      ∀ t', t.reset ph q = .ok t' → t' = { t with signs := t.signs.set j false } := by
  obtain ⟨hq, hnox, i, hi, ⟨r, hr, hrq⟩, hsi, hreset⟩ := measure_det_inv ph t q v hm
  have hall : ∀ (k : Nat) r, t.rows[k]? = some r → xAt r q = false := by
    intro k r' hk
    have hkn : k < t.n := by
      have := (List.getElem?_eq_some_iff.mp hk).1
      omega
    obtain ⟨r'', hr'', hx⟩ := hnox k hkn
    rw [hr''] at hk; cases hk; exact hx
  obtain ⟨j, hj, hrow, hothers⟩ := hD q hq hall
  have hij : i = j := by
    by_contra hne
    have := hothers i r hne hr
    rw [hrq] at this; cases this
  subst hij
  exact ⟨i, hi, hrow, hsi, hothers, hreset⟩


/-! ### every reachable pair is a stabilizer pair of invertible norm -/

include hs ha in
theorem normSqSum_ket0' (m : Nat) : normSqSum (ket0 m : List α) = 1 := by
  have h1 : SimAmp.normSq (1 : α) = 1 := by rw [hs.normSq_eq, ha.conj_one, one_mul]
  have h0 : SimAmp.normSq (0 : α) = 0 := by rw [hs.normSq_eq, zero_mul]
  have hp : 0 < 2 ^ m := Nat.two_pow_pos m
  obtain ⟨k, hk⟩ : ∃ k, 2 ^ m = k + 1 := ⟨2 ^ m - 1, by omega⟩
  simp only [normSqSum, ket0, hk, List.range_succ_eq_map, List.map_cons, List.map_map, List.sum_cons, if_true, h1]
  have : ((List.range k).map (SimAmp.normSq ∘ (fun r => if r = 0 then (1 : α) else 0) ∘ Nat.succ)).sum = 0 := by
    apply List.sum_eq_zero
    intro x hx
    obtain ⟨j, _, rfl⟩ := List.mem_map.mp hx
    simp [h0]
  rw [this, add_zero]

/-- the missing structural lemma, as a named hypothesis: every reachable tableau has `DetShape` -/
def DetShapeHolds : Prop := ∀ (t : Tab) (ψ : List α), Reach (A := A) α n ph tbl noCheck t ψ → DetShape t

include ha hs hph hp hT in
/-- **Soundness of the reachable pairs, all `n`** (relative to `DetShapeHolds` for the `reset`-after-
`Deterministic` step only). -/
theorem reach_sound (hD : DetShapeHolds (α := α) (A := A) n ph tbl noCheck) (t : Tab) (ψ : List α)
    (hr : Reach (A := A) α n ph tbl noCheck t ψ) :
    StabG A t ψ ∧ t.n = n ∧ ∃ u : α, normSqSum ψ * u = 1 := by
  induction hr with
  | init => exact ⟨stabG_new ha n, rfl, 1, by rw [normSqSum_ket0' ha hs, one_mul]⟩
  | scale t ψ a b hab _ ih =>
    obtain ⟨hst, hn, u, hu⟩ := ih
    refine ⟨stabG_scale t ψ a hst, hn, u * (b * Amp.conj A b), ?_⟩
    rw [Q1t.Sim.normSqSum_smul ha hs]
    have : normSqSum ψ * (a * Amp.conj A a) * (u * (b * Amp.conj A b)) =
        (normSqSum ψ * u) * ((a * b) * (Amp.conj A a * Amp.conj A b)) := by ring
    rw [this, hu, ← ha.conj_mul, hab, ha.conj_one]; ring
  | gate g bits t t' ψ hvalid hreach hok ih =>
    obtain ⟨hst, hn, u, hu⟩ := ih
    obtain ⟨hw, hstab, hvb, hlen⟩ := hvalid
    have te := term_exact tbl noCheck hp Q1t.Proofs.ConjEmbed.embed_exact g hw hstab
    have hM : WF (2 ^ bits.length) (2 ^ bits.length) (specMatrix g : LMat α) := by rw [hlen]; exact te.wf
    have hrule : RuleExact A (specMatrix g : LMat α) bits.length (conjugateT tbl noCheck g) := by
      rw [hlen]; exact te.rule
    obtain ⟨hst', hn'⟩ := applyGate_stabilizes ha hph t t' ψ hst (by rw [hn]; exact hvb) hM hrule hok
    rw [hn] at hst'
    refine ⟨hst', hn'.trans hn, u, ?_⟩
    have hU : IsUnitary A n (embed n bits (specMatrix g : LMat α)) :=
      Q1t.Proofs.ConjEmbed.embed_unitary ha n bits hvb _ (by
        rw [hlen]; exact Q1t.Proofs.ConjUnitary.isUnitary_iff_unitary.2 (Q1t.Proofs.ConjUnitary.spec_unitary ha g hw))
    have := unitary_normSqSum ha hs (Nat.two_pow_pos n) (Q1t.Proofs.ConjUnitary.isUnitary_iff_unitary.1 hU) ψ
      (by rw [hst.1, hn])
    unfold gateOn
    rw [this, hu]
  | collapse t t' ψ q i o hreach hm hok ih =>
    obtain ⟨hst, hn, u, hu⟩ := ih
    obtain ⟨hq, hi, hxi, hlater⟩ := measure_random_inv t q i hm
    obtain ⟨hst', hn'⟩ := collapse_stabilizes ha hph t t' ψ hst q i hq hi hxi hlater o hok
    rw [hn] at hst'
    refine ⟨hst', hn'.trans hn, u + u, ?_⟩
    obtain ⟨e1, e2⟩ := random_weights ha hs t ψ hst q i hm
    rw [hn] at e1 e2
    have : normSqSum (project n q o ψ) = normSqSum (project n q false ψ) := by cases o; rfl; exact e1
    rw [this, mul_add, ← add_mul, e2, hu]
  | resetDet t t' ψ q v hreach hm hok ih =>
    obtain ⟨hst, hn, u, hu⟩ := ih
    obtain ⟨j, hj, hrow, hsign, hothers, hreset⟩ := det_row ph t hst.2.1 q v hm (hD t ψ hreach)
    have ht' := hreset t' hok
    subst ht'
    have hq : q < t.n := (measure_det_inv ph t q v hm).1
    cases v with
    | false =>
      have : t.signs.set j false = t.signs := set_self_of_getElem? _ _ _ hsign
      simp only [this, Bool.false_eq_true, if_false]
      exact ⟨hst, hn, u, hu⟩
    | true =>
      simp only [if_true]
      have hfl := reset_det_flip tbl noCheck ha hp hT t ψ hst q j hq hj hrow hsign hothers
      have hfl' : StabG A { t with signs := t.signs.set j false } (gateOn (P := A) n .X [q] ψ) := by
        rw [← hn]; exact hfl
      refine ⟨hfl', hn, u, ?_⟩
      have hvb : validBits n [q] = true := by simp [validBits]; omega
      have hU : IsUnitary A n (embed n [q] (specMatrix (.X : GateTerm A) : LMat α)) :=
        Q1t.Proofs.ConjEmbed.embed_unitary ha n [q] hvb _
          (Q1t.Proofs.ConjUnitary.isUnitary_iff_unitary.2 (Q1t.Proofs.ConjUnitary.spec_unitary ha (.X : GateTerm A) trivial))
      have := unitary_normSqSum ha hs (Nat.two_pow_pos n) (Q1t.Proofs.ConjUnitary.isUnitary_iff_unitary.1 hU) ψ
        (by rw [hst.1, hn])
      unfold gateOn
      rw [this, hu]

include ha hs hph hp hT in
/-- **The tableau contract of the stabilizer backend holds** (all `n`), with `St := Reach`, relative to the one
structural hypothesis `DetShapeHolds`. -/
theorem tableauOK (hD : DetShapeHolds (α := α) (A := A) n ph tbl noCheck) :
    TableauOK (Reach (A := A) α n ph tbl noCheck) n ph (conjOfT (A := A) tbl noCheck) (validT (A := A) n tbl) where
  init := Reach.init
  scale := fun t ψ a b hab h => Reach.scale t ψ a b hab h
  weight := fun t ψ h => by
    obtain ⟨hst, hn, hu⟩ := reach_sound n ph tbl noCheck ha hs hph hp hT hD t ψ h
    exact ⟨by rw [hst.1, hn], hu⟩
  gate := fun g bits hv t t' ψ h hok => Reach.gate g bits t t' ψ hv h hok
  basis := fun q hq => by
    have hvb : validBits n [q] = true := by simp [validBits]; omega
    exact ⟨⟨trivial, hT.flagH, hvb, rfl⟩, ⟨trivial, hT.flagS, hvb, rfl⟩, ⟨trivial, hT.flagSdg, hvb, rfl⟩⟩
  det := fun t ψ q v h hm => by
    obtain ⟨hst, hn, _⟩ := reach_sound n ph tbl noCheck ha hs hph hp hT hD t ψ h
    obtain ⟨j, hj, hrow, hsign, _, _⟩ := det_row ph t hst.2.1 q v hm (hD t ψ h)
    have hq : q < t.n := (measure_det_inv ph t q v hm).1
    have := project_eq_of_zRow ha t.n q hq ψ hst.1 v (hst.2.2.2 j v _ hsign hrow).2
    rw [hn] at this
    exact this
  rand := fun t ψ q i h hm o => by
    obtain ⟨hst, hn, u, hu⟩ := reach_sound n ph tbl noCheck ha hs hph hp hT hD t ψ h
    refine ⟨⟨u + u, ?_⟩, fun t' hok => Reach.collapse t t' ψ q i o h hm hok⟩
    obtain ⟨e1, e2⟩ := random_weights ha hs t ψ hst q i hm
    rw [hn] at e1 e2
    have : normSqSum (project n q o ψ) = normSqSum (project n q false ψ) := by cases o; rfl; exact e1
    rw [this, mul_add, ← add_mul, e2, hu]
  reset := fun t t' ψ q h hok => by
    obtain ⟨hst, hn, _⟩ := reach_sound n ph tbl noCheck ha hs hph hp hT hD t ψ h
    -- `reset` returned, so `measure` returns as well
    have hmeas : (∃ i, t.measure q = .ok (.random i) ∧ t.collapse ph i q false = .ok t') ∨
        ∃ v, t.measure q = .ok (.deterministic v) := by
      unfold Tab.reset at hok
      unfold Tab.measure
      split at hok
      case isFalse => cases hok
      rename_i hq
      rw [if_pos hq]
      simp only [bind] at hok ⊢
      obtain ⟨res, hres, hok⟩ := bind_ok hok
      rw [hres]
      simp only [Res.bind]
      cases res with
      | some i => left; exact ⟨i, rfl, hok⟩
      | none =>
        right
        simp only [] at hok ⊢
        obtain ⟨res2, hres2, hok⟩ := bind_ok hok
        rw [hres2]
        simp only [Res.bind]
        cases res2 with
        | none => cases hok
        | some i =>
          simp only [Tab.setSign] at hok
          split at hok
          · rename_i hil
            simp only [Tab.sign, Res.ofOption, List.getElem?_eq_getElem hil, Res.bind, pure]
            exact ⟨_, rfl⟩
          · cases hok
    rcases hmeas with ⟨i, hm, hc⟩ | ⟨v, hm⟩
    · left; exact Reach.collapse t t' ψ q i false h hm hc
    · have hR := Reach.resetDet (A := A) t t' ψ q v h hm hok
      have hdet : project n q v ψ = ψ := by
        obtain ⟨j, hj, hrow, hsign, _, _⟩ := det_row ph t hst.2.1 q v hm (hD t ψ h)
        have hq : q < t.n := (measure_det_inv ph t q v hm).1
        have := project_eq_of_zRow ha t.n q hq ψ hst.1 v (hst.2.2.2 j v _ hsign hrow).2
        rw [hn] at this; exact this
      cases v with
      | false => left; simp only [Bool.false_eq_true, if_false] at hR; rw [hdet]; exact hR
      | true => right; simp only [if_true] at hR; rw [hdet]; exact hR

end
end Q1t.Proofs.TabG

import Q1t.Proofs.ExprRoundTrip
/-!
C14, part 5: error cases and values.  (Core Lean only.)
-/
namespace Q1t.Proofs.Expr
open Q1t.Expr Q1t.Spec.ExprGrammar
open Q1t.DecFloat (isDigit)

/-! ### errors travel up unchanged -/

theorem err_up_from_pow {s : List Char} {e : ParseError} (h : PowTo s (.err e)) (hm : reLit ['-'] s = none) :
    NegTo s (.err e) ∧ ProdTo s (.err e) ∧ SumTo s (.err e) := by
  have hn : NegTo s (.err e) := rule_neg_err (rule_negloop_none hm) (Nat.le_refl _) h
  exact ⟨hn, rule_prod_err hn, rule_sum_err (rule_prod_err hn)⟩

theorem err_up_from_fun {s : List Char} {e : ParseError} (h : FunTo s (.err e)) (hm : reLit ['-'] s = none) :
    PowTo s (.err e) ∧ NegTo s (.err e) ∧ ProdTo s (.err e) ∧ SumTo s (.err e) :=
  ⟨rule_pow_err h, err_up_from_pow (rule_pow_err h) hm⟩

/-! ### text that cannot start an expression -/

theorem stripPrefix_none_of_take {p s : List Char} (h : s.take p.length ≠ p) : stripPrefix p s = none := by
  induction p generalizing s with
  | nil => simp at h
  | cons a ps ih =>
    cases s with
    | nil => rfl
    | cons c cs =>
      simp only [stripPrefix]
      split
      · rename_i hac
        subst hac
        apply ih
        intro e; apply h; simp [e]
      · rfl

theorem cannotStart_facts {s : List Char} (h : cannotStart s = true) :
    reFunOpen s = none ∧ reLit ['('] s = none ∧ reLit ['-'] s = none ∧
    parseRealLiteral s = .err (.invalidArgument s) := by
  unfold cannotStart at h
  rw [isBlank_eq] at h
  have hds : dropWs s = List.dropWhile isWs s := rfl
  cases hd : List.dropWhile isWs s with
  | nil =>
    rw [hds.symm] at hd
    refine ⟨reFunOpen_none_of_names (fun nm hnm => ?_), ?_, ?_, ?_⟩
    · rw [hd]
      simp only [funNames, List.mem_cons, List.not_mem_nil, or_false] at hnm
      rcases hnm with rfl | rfl | rfl | rfl | rfl | rfl <;> rfl
    · simp [reLit, hd, stripPrefix]
    · simp [reLit, hd, stripPrefix]
    · simp [parseRealLiteral, reReal, reInteger, reLit, hd, reMantissa, stripPrefix]
  | cons c t =>
    rw [hd] at h
    rw [hds.symm] at hd
    simp only [Bool.and_eq_true, Bool.not_eq_true', Bool.or_eq_false_iff, beq_eq_false_iff_ne, ne_eq,
      List.any_eq_false] at h
    obtain ⟨⟨⟨⟨⟨h1, h2⟩, h3⟩, h4⟩, hpi⟩, hfn⟩ := h
    have hhead : headNB s = some c := by simp [headNB, hd]
    refine ⟨reFunOpen_none_of_names (fun nm hnm => ?_), ?_, ?_, ?_⟩
    · rw [hd]
      apply stripPrefix_none_of_take
      simp only [funNames, List.mem_cons, List.not_mem_nil, or_false] at hnm
      have := hfn
      rcases hnm with rfl | rfl | rfl | rfl | rfl | rfl
      · have := hfn Fn.sin (by simp); simpa [Fn.name] using this
      · have := hfn Fn.cos (by simp); simpa [Fn.name] using this
      · have := hfn Fn.tan (by simp); simpa [Fn.name] using this
      · have := hfn Fn.exp (by simp); simpa [Fn.name] using this
      · have := hfn Fn.ln (by simp); simpa [Fn.name] using this
      · have := hfn Fn.sqrt (by simp); simpa [Fn.name] using this
    · apply reLit_miss; rw [hhead]; simpa using h4
    · apply reLit_miss; rw [hhead]; simpa using h3
    · have hr : reReal s = none := by
        unfold reReal; rw [hd, reMantissa_none_of_not_start h1 h2]
      have hi : reInteger s = none := by
        unfold reInteger; rw [hd]
        have h0 : c ≠ '0' := by intro e; subst e; revert h1; decide
        have hnd : ¬ ((decide (49 ≤ c.toNat) && decide (c.toNat ≤ 57)) = true) := by
          simp only [isDigit, Bool.and_eq_false_iff, decide_eq_false_iff_not] at h1
          simp only [Bool.and_eq_true, decide_eq_true_eq]; omega
        simp [hnd, h0]
      have hp : reLit ['p', 'i'] s = none := by
        unfold reLit; rw [hd]
        apply stripPrefix_none_of_take
        simpa using hpi
      simp [parseRealLiteral, hr, hi, hp]

theorem cannotStart_levels {s : List Char} (h : cannotStart s = true) :
    PowTo s (.err (.invalidArgument s)) ∧ NegTo s (.err (.invalidArgument s)) ∧
    ProdTo s (.err (.invalidArgument s)) ∧ SumTo s (.err (.invalidArgument s)) := by
  obtain ⟨h1, h2, h3, h4⟩ := cannotStart_facts h
  exact err_up_from_fun (rule_literal h1 h2 h4) h3

/-- Text that cannot start an expression: `InvalidArgument(text)`. -/
theorem parse_cannotStart (s : List Char) (h : cannotStart s = true) :
    parse s = .err (.invalidArgument s) :=
  (cannotStart_levels h).2.2.2.parse

/-! ### dangling binary operator -/

/-- After any expression: a `+` or `-` followed by text that cannot start an expression. -/
theorem parse_dangling_sum (c : Cst) (hwf : c.WF = true) (hc : Conv c = true) (hs : c.bigInt = false)
    (w : List Char) (hw : w.all isBlank = true) (op : Char) (hop : op = '+' ∨ op = '-')
    (tail : List Char) (ht : cannotStart tail = true) :
    parse (c.flatten ++ (w ++ op :: tail)) = .err (.invalidArgument tail) := by
  have hb := blank_of_all hw
  have hws : isWs op = false := by rcases hop with h | h <;> (subst h; decide)
  have hne : isDigit op = false ∧ op ≠ '.' ∧ op ≠ 'e' ∧ op ≠ 'E' := by rcases hop with h | h <;> (subst h; decide)
  have hnot : op ∉ ['^', '*', '/'] := by rcases hop with h | h <;> (subst h; decide)
  have hop' : op = '-' ∨ op = '+' := hop.symm
  exact ((inv_all c hwf hc hs).e _ _ (after_sym hb hws hne hnot)
    (rule_sumloop_err (reOp2_hit hb hws hop') (cannotStart_levels ht).2.2.1)).parse

/-- After a product-level expression (no unparenthesised `+ -` at top level): a dangling `*` or `/`. -/
theorem parse_dangling_product (c : Cst) (hwf : c.WF = true) (hc : Conv c = true) (hs : c.bigInt = false)
    (hl : 1 ≤ c.level) (w : List Char) (hw : w.all isBlank = true) (op : Char) (hop : op = '*' ∨ op = '/')
    (tail : List Char) (ht : cannotStart tail = true) :
    parse (c.flatten ++ (w ++ op :: tail)) = .err (.invalidArgument tail) := by
  have hb := blank_of_all hw
  have hws : isWs op = false := by rcases hop with h | h <;> (subst h; decide)
  have hne : isDigit op = false ∧ op ≠ '.' ∧ op ≠ 'e' ∧ op ≠ 'E' := by rcases hop with h | h <;> (subst h; decide)
  have hnot : op ∉ ['^'] := by rcases hop with h | h <;> (subst h; decide)
  exact (rule_sum_err ((inv_all c hwf hc hs).d hl _ _ (after_sym hb hws hne hnot)
    (rule_prodloop_err (reOp2_hit hb hws hop) (cannotStart_levels ht).2.1))).parse

/-- After an atom (literal, function call, parenthesised expression): a dangling `^`; in particular a
signed exponent without parentheses (`2^-1`: the text after `^` is not an operand of the power level). -/
theorem parse_dangling_power (c : Cst) (hwf : c.WF = true) (hc : Conv c = true) (hs : c.bigInt = false)
    (hl : c.level = 4) (w : List Char) (hw : w.all isBlank = true)
    (tail : List Char) (e : ParseError) (ht : PowTo tail (.err e)) :
    parse (c.flatten ++ (w ++ '^' :: tail)) = .err e := by
  have hb := blank_of_all hw
  have hA := (inv_all c hwf hc hs).a hl _ (noExt_blank_cons (t := tail) hb (c := '^') (by decide))
  have hP := rule_pow_some_err hA (by simp) (reLit_hit hb (by decide)) ht
  obtain ⟨ch, hh, hst⟩ := head_of_level_ge3 c hwf hc (by omega) (w ++ '^' :: tail)
  have hm : reLit ['-'] (c.flatten ++ (w ++ '^' :: tail)) = none := by
    apply reLit_miss; rw [hh]; intro e2; simp only [Option.some.injEq] at e2; exact hst.ne_minus e2
  exact (err_up_from_pow hP hm).2.2.parse

/-- The power level rejects text that starts (after blanks) with a minus sign. -/
theorem powTo_minus (w t : List Char) (hw : w.all isBlank = true) :
    PowTo (w ++ '-' :: t) (.err (.invalidArgument (w ++ '-' :: t))) := by
  have hb := blank_of_all hw
  have hhead : headNB (w ++ '-' :: t) = some '-' := headNB_blank_cons hb (by decide)
  have hr : reReal (w ++ '-' :: t) = none := by
    unfold reReal; rw [dropWs_blank_cons hb (by decide), reMantissa_none_of_not_start (by decide) (by decide)]
  have hi : reInteger (w ++ '-' :: t) = none := by
    unfold reInteger; rw [dropWs_blank_cons hb (by decide)]; simp
  have hp : reLit ['p', 'i'] (w ++ '-' :: t) = none := by
    unfold reLit; rw [dropWs_blank_cons hb (by decide)]; simp [stripPrefix]
  exact rule_pow_err (rule_literal (reFunOpen_miss hhead (by decide))
    (reLit_miss (by rw [hhead]; decide)) (by simp [parseRealLiteral, hr, hi, hp]))

/-! ### unclosed parenthesis -/

/-- `tail` neither closes the parenthesis nor continues the expression. -/
def NoClose (tail : List Char) : Prop := Stops tail = true ∧ headNB tail ≠ some ')'

theorem parse_unclosed_paren (c : Cst) (hwf : c.WF = true) (hc : Conv c = true) (hs : c.bigInt = false)
    (w : List Char) (hw : w.all isBlank = true) (tail : List Char) (ht : NoClose tail) :
    parse (w ++ '(' :: (c.flatten ++ tail)) = .err (.unclosedParentheses (w ++ '(' :: (c.flatten ++ tail))) := by
  have hb := blank_of_all hw
  have hA := after_of_stops ht.1
  have hsum : SumTo (c.flatten ++ tail) (.ok (parsed c, tail)) :=
    (inv_all c hwf hc hs).e tail _ (hA.mono (by simp))
      (rule_sumloop_none (reOp2_none_of_noHead hA.2 (by simp) (by simp)))
  have hhead : headNB (w ++ '(' :: (c.flatten ++ tail)) = some '(' := headNB_blank_cons hb (by decide)
  have hF := rule_paren_unclosed (reFunOpen_miss hhead (by decide)) (reLit_hit hb (by decide)) hsum
    (reLit_miss ht.2)
  exact (err_up_from_fun hF (reLit_miss (by rw [hhead]; decide))).2.2.2.parse

theorem parse_unclosed_call (c : Cst) (hwf : c.WF = true) (hc : Conv c = true) (hs : c.bigInt = false)
    (f : Fn) (w1 w2 : List Char) (h1 : w1.all isBlank = true) (h2 : w2.all isBlank = true)
    (tail : List Char) (ht : NoClose tail) :
    parse (w1 ++ (f.name ++ (w2 ++ '(' :: (c.flatten ++ tail)))) =
      .err (.unclosedParentheses (w1 ++ (f.name ++ (w2 ++ '(' :: (c.flatten ++ tail))))) := by
  have hb1 := blank_of_all h1
  have hb2 := blank_of_all h2
  have hA := after_of_stops ht.1
  have hsum : SumTo (c.flatten ++ tail) (.ok (parsed c, tail)) :=
    (inv_all c hwf hc hs).e tail _ (hA.mono (by simp))
      (rule_sumloop_none (reOp2_none_of_noHead hA.2 (by simp) (by simp)))
  have hF := rule_fun_unclosed (reFunOpen_hit f hb1 hb2) hsum (reLit_miss ht.2)
  have hm : reLit ['-'] (w1 ++ (f.name ++ (w2 ++ '(' :: (c.flatten ++ tail)))) = none := by
    apply reLit_miss
    cases f <;> (simp only [Fn.name, List.cons_append, List.nil_append]; rw [headNB_blank_cons hb1 (by decide)]; decide)
  exact (err_up_from_fun hF hm).2.2.2.parse

end Q1t.Proofs.Expr

import Q1t.Proofs.ExprRoundTrip
/-!
C14, part 5: error cases and values.  (Core Lean only.)
-/
namespace Q1t.Proofs.Expr
open Q1t.Expr Q1t.Spec.ExprGrammar
open Q1t.DecFloat (isDigit)

/-! ### errors travel up unchanged -/

theorem err_up_from_pow {s : List Char} {e : ParseError} (h : PowTo s (.err e)) (hm : reLit ['-'] s = none) :
    NegTo s (.err e) ∧ ProdTo s (.err e) ∧ SumTo s (.err e) := by
  have hn : NegTo s (.err e) := rule_neg_err (rule_negloop_none hm) (Nat.le_refl _) h
  exact ⟨hn, rule_prod_err hn, rule_sum_err (rule_prod_err hn)⟩

theorem err_up_from_fun {s : List Char} {e : ParseError} (h : FunTo s (.err e)) (hm : reLit ['-'] s = none) :
    PowTo s (.err e) ∧ NegTo s (.err e) ∧ ProdTo s (.err e) ∧ SumTo s (.err e) :=
  ⟨rule_pow_err h, err_up_from_pow (rule_pow_err h) hm⟩

/-! ### text that cannot start an expression -/

theorem stripPrefix_none_of_take {p s : List Char} (h : s.take p.length ≠ p) : stripPrefix p s = none := by
  induction p generalizing s with
  | nil => simp at h
  | cons a ps ih =>
    cases s with
    | nil => rfl
    | cons c cs =>
      simp only [stripPrefix]
      split
      · rename_i hac
        subst hac
        apply ih
        intro e; apply h; simp [e]
      · rfl

theorem cannotStart_facts {s : List Char} (h : cannotStart s = true) :
    reFunOpen s = none ∧ reLit ['('] s = none ∧ reLit ['-'] s = none ∧
    parseRealLiteral s = .err (.invalidArgument s) := by
  unfold cannotStart at h
  rw [isBlank_eq] at h
  have hds : dropWs s = List.dropWhile isWs s := rfl
  cases hd : List.dropWhile isWs s with
  | nil =>
    rw [hds.symm] at hd
    refine ⟨reFunOpen_none_of_names (fun nm hnm => ?_), ?_, ?_, ?_⟩
    · rw [hd]
      simp only [funNames, List.mem_cons, List.not_mem_nil, or_false] at hnm
      rcases hnm with rfl | rfl | rfl | rfl | rfl | rfl <;> rfl
    · simp [reLit, hd, stripPrefix]
    · simp [reLit, hd, stripPrefix]
    · simp [parseRealLiteral, reReal, reInteger, reLit, hd, reMantissa, stripPrefix]
  | cons c t =>
    rw [hd] at h
    rw [hds.symm] at hd
    simp only [Bool.and_eq_true, Bool.not_eq_true', Bool.or_eq_false_iff, beq_eq_false_iff_ne, ne_eq,
      List.any_eq_false] at h
    obtain ⟨⟨⟨⟨⟨h1, h2⟩, h3⟩, h4⟩, hpi⟩, hfn⟩ := h
    have hhead : headNB s = some c := by simp [headNB, hd]
    refine ⟨reFunOpen_none_of_names (fun nm hnm => ?_), ?_, ?_, ?_⟩
    · rw [hd]
      apply stripPrefix_none_of_take
      simp only [funNames, List.mem_cons, List.not_mem_nil, or_false] at hnm
      have := hfn
      rcases hnm with rfl | rfl | rfl | rfl | rfl | rfl
      · have := hfn Fn.sin (by simp); simpa [Fn.name] using this
      · have := hfn Fn.cos (by simp); simpa [Fn.name] using this
      · have := hfn Fn.tan (by simp); simpa [Fn.name] using this
      · have := hfn Fn.exp (by simp); simpa [Fn.name] using this
      · have := hfn Fn.ln (by simp); simpa [Fn.name] using this
      · have := hfn Fn.sqrt (by simp); simpa [Fn.name] using this
    · apply reLit_miss; rw [hhead]; simpa using h4
    · apply reLit_miss; rw [hhead]; simpa using h3
    · have hr : reReal s = none := by
        unfold reReal; rw [hd, reMantissa_none_of_not_start h1 h2]
      have hi : reInteger s = none := by
        unfold reInteger; rw [hd]
        have h0 : c ≠ '0' := by intro e; subst e; revert h1; decide
        have hnd : ¬ ((decide (49 ≤ c.toNat) && decide (c.toNat ≤ 57)) = true) := by
          simp only [isDigit, Bool.and_eq_false_iff, decide_eq_false_iff_not] at h1
          simp only [Bool.and_eq_true, decide_eq_true_eq]; omega
        simp [hnd, h0]
      have hp : reLit ['p', 'i'] s = none := by
        unfold reLit; rw [hd]
        apply stripPrefix_none_of_take
        simpa using hpi
      simp [parseRealLiteral, hr, hi, hp]

theorem cannotStart_levels {s : List Char} (h : cannotStart s = true) :
    PowTo s (.err (.invalidArgument s)) ∧ NegTo s (.err (.invalidArgument s)) ∧
    ProdTo s (.err (.invalidArgument s)) ∧ SumTo s (.err (.invalidArgument s)) := by
  obtain ⟨h1, h2, h3, h4⟩ := cannotStart_facts h
  exact err_up_from_fun (rule_literal h1 h2 h4) h3

/-- Text that cannot start an expression: `InvalidArgument(text)`. -/
theorem parse_cannotStart (s : List Char) (h : cannotStart s = true) :
    parse s = .err (.invalidArgument s) :=
  (cannotStart_levels h).2.2.2.parse

/-! ### dangling binary operator -/

/-- After any expression: a `+` or `-` followed by text that cannot start an expression. -/
theorem parse_dangling_sum (c : Cst) (hwf : c.WF = true) (hc : Conv c = true) (hs : c.bigInt = false)
    (w : List Char) (hw : w.all isBlank = true) (op : Char) (hop : op = '+' ∨ op = '-')
    (tail : List Char) (ht : cannotStart tail = true) :
    parse (c.flatten ++ (w ++ op :: tail)) = .err (.invalidArgument tail) := by
  have hb := blank_of_all hw
  have hws : isWs op = false := by rcases hop with h | h <;> (subst h; decide)
  have hne : isDigit op = false ∧ op ≠ '.' ∧ op ≠ 'e' ∧ op ≠ 'E' := by rcases hop with h | h <;> (subst h; decide)
  have hnot : op ∉ ['^', '*', '/'] := by rcases hop with h | h <;> (subst h; decide)
  have hop' : op = '-' ∨ op = '+' := hop.symm
  exact ((inv_all c hwf hc hs).e _ _ (after_sym hb hws hne hnot)
    (rule_sumloop_err (reOp2_hit hb hws hop') (cannotStart_levels ht).2.2.1)).parse

/-- After a product-level expression (no unparenthesised `+ -` at top level): a dangling `*` or `/`. -/
theorem parse_dangling_product (c : Cst) (hwf : c.WF = true) (hc : Conv c = true) (hs : c.bigInt = false)
    (hl : 1 ≤ c.level) (w : List Char) (hw : w.all isBlank = true) (op : Char) (hop : op = '*' ∨ op = '/')
    (tail : List Char) (ht : cannotStart tail = true) :
    parse (c.flatten ++ (w ++ op :: tail)) = .err (.invalidArgument tail) := by
  have hb := blank_of_all hw
  have hws : isWs op = false := by rcases hop with h | h <;> (subst h; decide)
  have hne : isDigit op = false ∧ op ≠ '.' ∧ op ≠ 'e' ∧ op ≠ 'E' := by rcases hop with h | h <;> (subst h; decide)
  have hnot : op ∉ ['^'] := by rcases hop with h | h <;> (subst h; decide)
  exact (rule_sum_err ((inv_all c hwf hc hs).d hl _ _ (after_sym hb hws hne hnot)
    (rule_prodloop_err (reOp2_hit hb hws hop) (cannotStart_levels ht).2.1))).parse

/-- After an atom (literal, function call, parenthesised expression): a dangling `^`; in particular a
signed exponent without parentheses (`2^-1`: the text after `^` is not an operand of the power level). -/
theorem parse_dangling_power (c : Cst) (hwf : c.WF = true) (hc : Conv c = true) (hs : c.bigInt = false)
    (hl : c.level = 4) (w : List Char) (hw : w.all isBlank = true)
    (tail : List Char) (e : ParseError) (ht : PowTo tail (.err e)) :
    parse (c.flatten ++ (w ++ '^' :: tail)) = .err e := by
  have hb := blank_of_all hw
  have hA := (inv_all c hwf hc hs).a hl _ (noExt_blank_cons (t := tail) hb (c := '^') (by decide))
  have hP := rule_pow_some_err hA (by simp) (reLit_hit hb (by decide)) ht
  obtain ⟨ch, hh, hst⟩ := head_of_level_ge3 c hwf hc (by omega) (w ++ '^' :: tail)
  have hm : reLit ['-'] (c.flatten ++ (w ++ '^' :: tail)) = none := by
    apply reLit_miss; rw [hh]; intro e2; simp only [Option.some.injEq] at e2; exact hst.ne_minus e2
  exact (err_up_from_pow hP hm).2.2.parse

/-- The power level rejects text that starts (after blanks) with a minus sign. -/
theorem powTo_minus (w t : List Char) (hw : w.all isBlank = true) :
    PowTo (w ++ '-' :: t) (.err (.invalidArgument (w ++ '-' :: t))) := by
  have hb := blank_of_all hw
  have hhead : headNB (w ++ '-' :: t) = some '-' := headNB_blank_cons hb (by decide)
  have hr : reReal (w ++ '-' :: t) = none := by
    unfold reReal; rw [dropWs_blank_cons hb (by decide), reMantissa_none_of_not_start (by decide) (by decide)]
  have hi : reInteger (w ++ '-' :: t) = none := by
    unfold reInteger; rw [dropWs_blank_cons hb (by decide)]; simp
  have hp : reLit ['p', 'i'] (w ++ '-' :: t) = none := by
    unfold reLit; rw [dropWs_blank_cons hb (by decide)]; simp [stripPrefix]
  exact rule_pow_err (rule_literal (reFunOpen_miss hhead (by decide))
    (reLit_miss (by rw [hhead]; decide)) (by simp [parseRealLiteral, hr, hi, hp]))

/-! ### unclosed parenthesis -/

/-- `tail` neither closes the parenthesis nor continues the expression. -/
def NoClose (tail : List Char) : Prop := Stops tail = true ∧ headNB tail ≠ some ')'

theorem parse_unclosed_paren (c : Cst) (hwf : c.WF = true) (hc : Conv c = true) (hs : c.bigInt = false)
    (w : List Char) (hw : w.all isBlank = true) (tail : List Char) (ht : NoClose tail) :
    parse (w ++ '(' :: (c.flatten ++ tail)) = .err (.unclosedParentheses (w ++ '(' :: (c.flatten ++ tail))) := by
  have hb := blank_of_all hw
  have hA := after_of_stops ht.1
  have hsum : SumTo (c.flatten ++ tail) (.ok (parsed c, tail)) :=
    (inv_all c hwf hc hs).e tail _ (hA.mono (by simp))
      (rule_sumloop_none (reOp2_none_of_noHead hA.2 (by simp) (by simp)))
  have hhead : headNB (w ++ '(' :: (c.flatten ++ tail)) = some '(' := headNB_blank_cons hb (by decide)
  have hF := rule_paren_unclosed (reFunOpen_miss hhead (by decide)) (reLit_hit hb (by decide)) hsum
    (reLit_miss ht.2)
  exact (err_up_from_fun hF (reLit_miss (by rw [hhead]; decide))).2.2.2.parse

theorem parse_unclosed_call (c : Cst) (hwf : c.WF = true) (hc : Conv c = true) (hs : c.bigInt = false)
    (f : Fn) (w1 w2 : List Char) (h1 : w1.all isBlank = true) (h2 : w2.all isBlank = true)
    (tail : List Char) (ht : NoClose tail) :
    parse (w1 ++ (f.name ++ (w2 ++ '(' :: (c.flatten ++ tail)))) =
      .err (.unclosedParentheses (w1 ++ (f.name ++ (w2 ++ '(' :: (c.flatten ++ tail))))) := by
  have hb1 := blank_of_all h1
  have hb2 := blank_of_all h2
  have hA := after_of_stops ht.1
  have hsum : SumTo (c.flatten ++ tail) (.ok (parsed c, tail)) :=
    (inv_all c hwf hc hs).e tail _ (hA.mono (by simp))
      (rule_sumloop_none (reOp2_none_of_noHead hA.2 (by simp) (by simp)))
  have hF := rule_fun_unclosed (reFunOpen_hit f hb1 hb2) hsum (reLit_miss ht.2)
  have hm : reLit ['-'] (w1 ++ (f.name ++ (w2 ++ '(' :: (c.flatten ++ tail)))) = none := by
    apply reLit_miss
    cases f <;> (simp only [Fn.name, List.cons_append, List.nil_append]; rw [headNB_blank_cons hb1 (by decide)]; decide)
  exact (err_up_from_fun hF hm).2.2.2.parse


/-! ### a dangling operator after *any* expression

The operator attaches to the last operand on the right spine of the tree, so the error has to be carried
through the levels. -/

/-- A `^` with a failing operand after a power-level tree. -/
def PowErr (c : Cst) : Prop :=
  ∀ (w tail : List Char) (e : ParseError), Blank w → PowTo tail (.err e) →
    PowTo (c.flatten ++ (w ++ '^' :: tail)) (.err e)

/-- ... after a tree at the level of unary minus. -/
def NegErr (c : Cst) : Prop :=
  ∀ (b : Bool) (w tail : List Char) (e : ParseError), Blank w → PowTo tail (.err e) →
    ∃ f s', NegLoopTo b (c.flatten ++ (w ++ '^' :: tail)) (.ok (f, s')) ∧
      s'.length ≤ (c.flatten ++ (w ++ '^' :: tail)).length ∧ PowTo s' (.err e)

theorem powErr_of_atom {c : Cst} (hA : ClaimA c) : PowErr c := fun w tail e hw ht =>
  rule_pow_some_err (hA _ (noExt_blank_cons (t := tail) hw (c := '^') (by decide))) (by simp)
    (reLit_hit hw (by decide)) ht

theorem negErr_of_powErr {c : Cst} (hwf : c.WF = true) (hc : Conv c = true) (hl : 3 ≤ c.level)
    (h : PowErr c) : NegErr c := by
  intro b w tail e hw ht
  obtain ⟨ch, hh, hs⟩ := head_of_level_ge3 c hwf hc hl (w ++ '^' :: tail)
  refine ⟨b, _, rule_negloop_none (reLit_miss ?_), Nat.le_refl _, h w tail e hw ht⟩
  rw [hh]; intro e2; simp only [Option.some.injEq] at e2; exact hs.ne_minus e2

theorem err_all : ∀ (c : Cst), c.WF = true → Conv c = true → c.bigInt = false →
    (3 ≤ c.level → PowErr c) ∧ (2 ≤ c.level → NegErr c)
  | .lit w t, hwf, hc, hs => by
    have hP := powErr_of_atom ((inv_all _ hwf hc hs).a rfl)
    exact ⟨fun _ => hP, fun _ => negErr_of_powErr hwf hc (by simp [Cst.level]) hP⟩
  | .paren w1 a w2, hwf, hc, hs => by
    have hP := powErr_of_atom ((inv_all _ hwf hc hs).a rfl)
    exact ⟨fun _ => hP, fun _ => negErr_of_powErr hwf hc (by simp [Cst.level]) hP⟩
  | .app w1 f w2 a w3, hwf, hc, hs => by
    have hP := powErr_of_atom ((inv_all _ hwf hc hs).a rfl)
    exact ⟨fun _ => hP, fun _ => negErr_of_powErr hwf hc (by simp [Cst.level]) hP⟩
  | .neg w0 a, hwf, hc, hs => by
    have hwf' := hwf
    simp only [Cst.WF, Bool.and_eq_true] at hwf'
    have hc' := conv_neg.mp hc
    have ih := (err_all a hwf'.2 hc'.2 (by simpa [Cst.bigInt] using hs)).2 hc'.1
    refine ⟨fun h => by simp [Cst.level] at h, fun _ => ?_⟩
    intro b w tail e hw ht
    obtain ⟨f, s', h1, hl, h2⟩ := ih (!b) w tail e hw ht
    refine ⟨f, s', ?_, ?_, h2⟩
    · have := rule_negloop_some (b := b)
        (reLit_hit (t := a.flatten ++ (w ++ '^' :: tail)) (blank_of_all hwf'.1) (by decide)) h1
      simpa only [Cst.flatten, List.append_assoc, List.cons_append] using this
    · simp only [Cst.flatten, List.append_assoc, List.cons_append, List.length_append, List.length_cons] at *
      omega
  | .bin op a w0 x, hwf, hc, hs => by
    cases op with
    | pow =>
      have hwf' := hwf
      simp only [Cst.WF, Bool.and_eq_true] at hwf'
      have hc' := conv_bin.mp hc
      simp only [BinOp.needs] at hc'
      have hs' : a.bigInt = false ∧ x.bigInt = false := by simpa [Cst.bigInt] using hs
      have ihx := (err_all x hwf'.2 hc'.2.2.2 hs'.2).1 hc'.2.1
      have hAa := (inv_all a hwf'.1.1 hc'.2.2.1 hs'.1).a (by have := level_le a; omega)
      have hw0 := blank_of_all hwf'.1.2
      have hP : PowErr (.bin .pow a w0 x) := by
        intro w tail e hw ht
        have h1 := hAa (w0 ++ '^' :: (x.flatten ++ (w ++ '^' :: tail))) (noExt_blank_cons hw0 (by decide))
        have := rule_pow_some_err h1 (by simp) (reLit_hit hw0 (by decide)) (ihx w tail e hw ht)
        simpa only [Cst.flatten, BinOp.sym, List.append_assoc, List.cons_append] using this
      exact ⟨fun _ => hP, fun _ => negErr_of_powErr hwf hc (by simp [Cst.level]) hP⟩
    | add => exact ⟨fun h => by simp [Cst.level] at h, fun h => by simp [Cst.level] at h⟩
    | sub => exact ⟨fun h => by simp [Cst.level] at h, fun h => by simp [Cst.level] at h⟩
    | mul => exact ⟨fun h => by simp [Cst.level] at h, fun h => by simp [Cst.level] at h⟩
    | div => exact ⟨fun h => by simp [Cst.level] at h, fun h => by simp [Cst.level] at h⟩

theorem after_pow {w tail : List Char} (hw : Blank w) : After ['*', '/', '+', '-'] (w ++ '^' :: tail) :=
  after_sym hw (by decide) (by decide) (by decide)

theorem negTo_err {c : Cst} (hwf : c.WF = true) (hc : Conv c = true) (hs : c.bigInt = false)
    (hl : 2 ≤ c.level) {w tail : List Char} {e : ParseError} (hw : Blank w) (ht : PowTo tail (.err e)) :
    NegTo (c.flatten ++ (w ++ '^' :: tail)) (.err e) := by
  obtain ⟨f, s', h1, hl', h2⟩ := (err_all c hwf hc hs).2 hl false w tail e hw ht
  exact rule_neg_err h1 hl' h2

/-- The rest `w ++ op :: …` for `op ∈ {*, /}` may follow an operand of unary-minus level. -/
theorem after_muldiv {w t : List Char} {op : BinOp} (hop : op = .mul ∨ op = .div) (hw : Blank w) :
    After ['^'] (w ++ op.sym :: t) ∧ reOp2 '*' '/' (w ++ op.sym :: t) = some (op.sym, t) := by
  rcases hop with h | h <;> subst h
  · exact ⟨after_sym hw (by decide) (by decide) (by decide), reOp2_hit hw (by decide) (.inl rfl)⟩
  · exact ⟨after_sym hw (by decide) (by decide) (by decide), reOp2_hit hw (by decide) (.inr rfl)⟩

theorem after_addsub {w t : List Char} {op : BinOp} (hop : op = .add ∨ op = .sub) (hw : Blank w) :
    After ['^', '*', '/'] (w ++ op.sym :: t) ∧ reOp2 '-' '+' (w ++ op.sym :: t) = some (op.sym, t) := by
  rcases hop with h | h <;> subst h
  · exact ⟨after_sym hw (by decide) (by decide) (by decide), reOp2_hit hw (by decide) (.inr rfl)⟩
  · exact ⟨after_sym hw (by decide) (by decide) (by decide), reOp2_hit hw (by decide) (.inl rfl)⟩

theorem prodTo_err {c : Cst} (hwf : c.WF = true) (hc : Conv c = true) (hs : c.bigInt = false)
    (hl : 1 ≤ c.level) {w tail : List Char} {e : ParseError} (hw : Blank w) (ht : PowTo tail (.err e)) :
    ProdTo (c.flatten ++ (w ++ '^' :: tail)) (.err e) := by
  by_cases h2 : 2 ≤ c.level
  · exact rule_prod_err (negTo_err hwf hc hs h2 hw ht)
  · cases c with
    | lit _ _ => simp [Cst.level] at h2
    | neg _ _ => simp [Cst.level] at h2
    | app _ _ _ _ _ => simp [Cst.level] at h2
    | paren _ _ _ => simp [Cst.level] at h2
    | bin op a w0 x =>
      have hop : op = .mul ∨ op = .div := by
        cases op <;> simp [Cst.level] at h2 hl ⊢
      have hwf' := hwf
      simp only [Cst.WF, Bool.and_eq_true] at hwf'
      have hc' := conv_bin.mp hc
      have hs' : a.bigInt = false ∧ x.bigInt = false := by simpa [Cst.bigInt] using hs
      have hn : 1 ≤ a.level ∧ 2 ≤ x.level := by
        rcases hop with h | h <;> (subst h; simpa [BinOp.needs] using ⟨hc'.1, hc'.2.1⟩)
      obtain ⟨hA, hR⟩ := after_muldiv (t := x.flatten ++ (w ++ '^' :: tail)) hop (blank_of_all hwf'.1.2)
      have := (inv_all a hwf'.1.1 hc'.2.2.1 hs'.1).d hn.1 _ (.err e) hA
        (rule_prodloop_err hR (negTo_err hwf'.2 hc'.2.2.2 hs'.2 hn.2 hw ht))
      simpa only [Cst.flatten, List.append_assoc, List.cons_append] using this

theorem sumTo_err_pow {c : Cst} (hwf : c.WF = true) (hc : Conv c = true) (hs : c.bigInt = false)
    {w tail : List Char} {e : ParseError} (hw : Blank w) (ht : PowTo tail (.err e)) :
    SumTo (c.flatten ++ (w ++ '^' :: tail)) (.err e) := by
  by_cases h1 : 1 ≤ c.level
  · exact rule_sum_err (prodTo_err hwf hc hs h1 hw ht)
  · cases c with
    | lit _ _ => simp [Cst.level] at h1
    | neg _ _ => simp [Cst.level] at h1
    | app _ _ _ _ _ => simp [Cst.level] at h1
    | paren _ _ _ => simp [Cst.level] at h1
    | bin op a w0 x =>
      have hop : op = .add ∨ op = .sub := by
        cases op <;> simp [Cst.level] at h1 ⊢
      have hwf' := hwf
      simp only [Cst.WF, Bool.and_eq_true] at hwf'
      have hc' := conv_bin.mp hc
      have hs' : a.bigInt = false ∧ x.bigInt = false := by simpa [Cst.bigInt] using hs
      have hn : 1 ≤ x.level := by
        rcases hop with h | h <;> (subst h; simpa [BinOp.needs] using hc'.2.1)
      obtain ⟨hA, hR⟩ := after_addsub (t := x.flatten ++ (w ++ '^' :: tail)) hop (blank_of_all hwf'.1.2)
      have := (inv_all a hwf'.1.1 hc'.2.2.1 hs'.1).e _ (.err e) hA
        (rule_sumloop_err hR (prodTo_err hwf'.2 hc'.2.2.2 hs'.2 hn hw ht))
      simpa only [Cst.flatten, List.append_assoc, List.cons_append] using this

/-- A `^` whose operand fails at the power level, after any expression. -/
theorem parse_dangling_power_any (c : Cst) (hwf : c.WF = true) (hc : Conv c = true) (hs : c.bigInt = false)
    (w : List Char) (hw : w.all isBlank = true) (tail : List Char) (e : ParseError)
    (ht : PowTo tail (.err e)) : parse (c.flatten ++ (w ++ '^' :: tail)) = .err e :=
  (sumTo_err_pow hwf hc hs (blank_of_all hw) ht).parse

/-- A `*` or `/` followed by text that cannot start an expression, after any expression. -/
theorem parse_dangling_product_any (c : Cst) (hwf : c.WF = true) (hc : Conv c = true) (hs : c.bigInt = false)
    (w : List Char) (hw : w.all isBlank = true) (op : Char) (hop : op = '*' ∨ op = '/')
    (tail : List Char) (ht : cannotStart tail = true) :
    parse (c.flatten ++ (w ++ op :: tail)) = .err (.invalidArgument tail) := by
  by_cases h1 : 1 ≤ c.level
  · exact parse_dangling_product c hwf hc hs h1 w hw op hop tail ht
  · have hb := blank_of_all hw
    have hws : isWs op = false := by rcases hop with h | h <;> (subst h; decide)
    have hne : isDigit op = false ∧ op ≠ '.' ∧ op ≠ 'e' ∧ op ≠ 'E' := by
      rcases hop with h | h <;> (subst h; decide)
    have hnot : op ∉ ['^'] := by rcases hop with h | h <;> (subst h; decide)
    cases c with
    | lit _ _ => simp [Cst.level] at h1
    | neg _ _ => simp [Cst.level] at h1
    | app _ _ _ _ _ => simp [Cst.level] at h1
    | paren _ _ _ => simp [Cst.level] at h1
    | bin bop a w0 x =>
      have hbop : bop = .add ∨ bop = .sub := by
        cases bop <;> simp [Cst.level] at h1 ⊢
      have hwf' := hwf
      simp only [Cst.WF, Bool.and_eq_true] at hwf'
      have hc' := conv_bin.mp hc
      have hs' : a.bigInt = false ∧ x.bigInt = false := by simpa [Cst.bigInt] using hs
      have hn : 1 ≤ x.level := by
        rcases hbop with h | h <;> (subst h; simpa [BinOp.needs] using hc'.2.1)
      obtain ⟨hA, hR⟩ := after_addsub (t := x.flatten ++ (w ++ op :: tail)) hbop (blank_of_all hwf'.1.2)
      have hx : ProdTo (x.flatten ++ (w ++ op :: tail)) (.err (.invalidArgument tail)) :=
        (inv_all x hwf'.2 hc'.2.2.2 hs'.2).d hn _ _ (after_sym hb hws hne hnot)
          (rule_prodloop_err (reOp2_hit hb hws hop) (cannotStart_levels ht).2.1)
      have := (inv_all a hwf'.1.1 hc'.2.2.1 hs'.1).e _ _ hA (rule_sumloop_err hR hx)
      have h2 := this.parse
      simpa only [Cst.flatten, List.append_assoc, List.cons_append] using h2


/-- A dangling binary operator after any expression. -/
theorem parse_dangling_any (c : Cst) (hwf : c.WF = true) (hc : Conv c = true)
    (hs : c.bigInt = false) (w : List Char) (hw : w.all isBlank = true) (op : Char)
    (hop : op = '+' ∨ op = '-' ∨ op = '*' ∨ op = '/' ∨ op = '^') (tail : List Char)
    (ht : cannotStart tail = true) :
    parse (c.flatten ++ (w ++ op :: tail)) = .err (.invalidArgument tail) := by
  rcases hop with h | h | h | h | h
  · exact parse_dangling_sum c hwf hc hs w hw op (.inl h) tail ht
  · exact parse_dangling_sum c hwf hc hs w hw op (.inr h) tail ht
  · exact parse_dangling_product_any c hwf hc hs w hw op (.inl h) tail ht
  · exact parse_dangling_product_any c hwf hc hs w hw op (.inr h) tail ht
  · subst h
    exact parse_dangling_power_any c hwf hc hs w hw tail _ (cannotStart_levels ht).1

end Q1t.Proofs.Expr

import Q1t.Model.CQasm
/-!
C12, structure of the exporter model: `Circuit::c_qasm` is the header followed by the chunks of the operations in
order, or the outcome (error / panic) of the first operation that does not export; what cQASM cannot express is
refused.  All statements are for every table, every number printer, every circuit.
-/
namespace Q1t.Proofs.CQasm
open Q1t.CQ

variable {F : Type}

/-! ### `mapRes`: all succeed, or the first failure -/

theorem mapRes_cons_ok {α β} (f : α → Res β) (a : α) (as : List α) (b : β) (h : f a = .ok b) :
    mapRes f (a :: as) = (mapRes f as).map' (b :: ·) := by
  simp only [mapRes, h, Res.bind_ok]
  cases mapRes f as <;> rfl

theorem mapRes_cons_err {α β} (f : α → Res β) (a : α) (as : List α) (e : Err) (h : f a = .err e) :
    mapRes f (a :: as) = .err e := by
  simp only [mapRes, h, Res.bind_err]

theorem mapRes_cons_panic {α β} (f : α → Res β) (a : α) (as : List α) (h : f a = .panic) :
    mapRes f (a :: as) = .panic := by
  simp only [mapRes, h, Res.bind_panic]

/-- every element succeeds: the results in order -/
theorem mapRes_all_ok {α β} (f : α → Res β) (g : α → β) :
    ∀ (l : List α), (∀ a ∈ l, f a = .ok (g a)) → mapRes f l = .ok (l.map g)
  | [], _ => rfl
  | a :: as, h => by
    rw [mapRes_cons_ok f a as (g a) (h a (by simp)), mapRes_all_ok f g as (fun x hx => h x (by simp [hx]))]
    rfl

/-- a success means every element succeeded -/
theorem mapRes_ok_elim {α β} (f : α → Res β) :
    ∀ (l : List α) (bs : List β), mapRes f l = .ok bs → ∀ a ∈ l, ∃ b, f a = .ok b
  | [], _, _ => by simp
  | a :: as, bs, h => by
    cases hfa : f a with
    | ok b =>
      rw [mapRes_cons_ok f a as b hfa] at h
      cases hm : mapRes f as with
      | ok cs =>
        intro x hx
        rcases List.mem_cons.mp hx with rfl | hx
        · exact ⟨b, hfa⟩
        · exact mapRes_ok_elim f as cs hm x hx
      | err e => rw [hm] at h; cases h
      | panic => rw [hm] at h; cases h
    | err e => rw [mapRes_cons_err f a as e hfa] at h; cases h
    | panic => rw [mapRes_cons_panic f a as hfa] at h; cases h

/-- the outcome is that of the first element that fails -/
theorem mapRes_first_err {α β} (f : α → Res β) (e : Err) :
    ∀ (pre : List α) (a : α) (post : List α), (∀ x ∈ pre, ∃ b, f x = .ok b) → f a = .err e →
      mapRes f (pre ++ a :: post) = .err e
  | [], a, post, _, h => mapRes_cons_err f a post e h
  | p :: pre, a, post, hp, h => by
    obtain ⟨b, hb⟩ := hp p (by simp)
    rw [List.cons_append, mapRes_cons_ok f p _ b hb,
      mapRes_first_err f e pre a post (fun x hx => hp x (by simp [hx])) h]
    rfl

theorem mapRes_first_panic {α β} (f : α → Res β) :
    ∀ (pre : List α) (a : α) (post : List α), (∀ x ∈ pre, ∃ b, f x = .ok b) → f a = .panic →
      mapRes f (pre ++ a :: post) = .panic
  | [], a, post, _, h => mapRes_cons_panic f a post h
  | p :: pre, a, post, hp, h => by
    obtain ⟨b, hb⟩ := hp p (by simp)
    rw [List.cons_append, mapRes_cons_ok f p _ b hb,
      mapRes_first_panic f pre a post (fun x hx => hp x (by simp [hx])) h]
    rfl

/-! ### the export loop -/

/-- the accumulator loop of `Circuit::c_qasm` is `mapRes` over the operations -/
theorem exportLoop_eq (tbl : List Gen.CQGate) (N : Num F) (nq : Nat) :
    ∀ (ops : List (XOp F)) (acc : List Text),
      exportLoop tbl N nq ops acc = (mapRes (exportOp tbl N nq) ops).map' (fun ls => acc ++ ls.flatten)
  | [], acc => by simp [exportLoop, mapRes, Res.map']
  | op :: ops, acc => by
    cases h : exportOp tbl N nq op with
    | ok ls =>
      rw [mapRes_cons_ok _ op ops ls h]
      simp only [exportLoop, h]
      rw [exportLoop_eq tbl N nq ops (acc ++ ls)]
      cases mapRes (exportOp tbl N nq) ops <;> simp [Res.map', List.append_assoc]
    | err e => rw [mapRes_cons_err _ op ops e h]; simp [exportLoop, h, Res.map']
    | panic => rw [mapRes_cons_panic _ op ops h]; simp [exportLoop, h, Res.map']

theorem exportChunks_eq (tbl : List Gen.CQGate) (N : Num F) (c : XCircuit F) :
    exportChunks tbl N c =
      (mapRes (exportOp tbl N c.nq) c.ops).map' (fun ls => header c.nq ++ ls.flatten) :=
  exportLoop_eq tbl N c.nq c.ops (header c.nq)

/-- success: header, then the chunks of every operation in order -/
theorem export_all_ok (tbl : List Gen.CQGate) (N : Num F) (c : XCircuit F) (chunks : XOp F → List Text)
    (h : ∀ op ∈ c.ops, exportOp tbl N c.nq op = .ok (chunks op)) :
    exportChunks tbl N c = .ok (header c.nq ++ c.ops.flatMap chunks) := by
  rw [exportChunks_eq, mapRes_all_ok _ chunks c.ops h]
  simp [Res.map', List.flatMap]

theorem export_first_err (tbl : List Gen.CQGate) (N : Num F) (c : XCircuit F) (pre post : List (XOp F)) (op : XOp F)
    (e : Err) (hops : c.ops = pre ++ op :: post) (hpre : ∀ x ∈ pre, ∃ ls, exportOp tbl N c.nq x = .ok ls)
    (hop : exportOp tbl N c.nq op = .err e) :
    exportText tbl N c = .err e := by
  unfold exportText
  rw [exportChunks_eq, hops, mapRes_first_err _ e pre op post hpre hop]
  rfl

theorem export_first_panic (tbl : List Gen.CQGate) (N : Num F) (c : XCircuit F) (pre post : List (XOp F)) (op : XOp F)
    (hops : c.ops = pre ++ op :: post) (hpre : ∀ x ∈ pre, ∃ ls, exportOp tbl N c.nq x = .ok ls)
    (hop : exportOp tbl N c.nq op = .panic) :
    exportText tbl N c = .panic := by
  unfold exportText
  rw [exportChunks_eq, hops, mapRes_first_panic _ pre op post hpre hop]
  rfl

/-- a successful export means that every operation exported -/
theorem export_ok_elim (tbl : List Gen.CQGate) (N : Num F) (c : XCircuit F) (t : Text)
    (h : exportText tbl N c = .ok t) : ∀ op ∈ c.ops, ∃ ls, exportOp tbl N c.nq op = .ok ls := by
  unfold exportText at h
  rw [exportChunks_eq] at h
  cases hm : mapRes (exportOp tbl N c.nq) c.ops with
  | ok ls => exact mapRes_ok_elim _ c.ops ls hm
  | err e => rw [hm] at h; cases h
  | panic => rw [hm] at h; cases h

/-! ### what cQASM cannot express is refused -/

/-- an operation that cQASM 1.0 cannot express: a peek, or a measurement of a qubit into a differently numbered bit -/
def Inexpressible : XOp F → Prop
  | .peek _ _ _ => True
  | .peekAll _ _ => True
  | .measure q c _ => q ≠ c
  | .measureAll cbits _ => cbits ≠ List.range cbits.length
  | _ => False

theorem measureAllOk_iff : ∀ (l : List Nat) (k : Nat),
    measureAllOk (l.zipIdx k) = true ↔ l = List.range' k l.length
  | [], k => by simp [measureAllOk]
  | c :: cs, k => by
    simp only [List.zipIdx_cons, measureAllOk, List.length_cons, List.range'_succ, List.cons.injEq]
    by_cases h : k = c
    · subst h; simp [measureAllOk_iff cs (k + 1)]
    · simp [h]; intro hc; exact absurd hc.symm h

theorem exportOp_inexpressible (tbl : List Gen.CQGate) (N : Num F) (nq : Nat) (op : XOp F) (h : Inexpressible op) :
    exportOp tbl N nq op = .err .exportPeekInvalid ∨ exportOp tbl N nq op = .err .noClassicalRegister := by
  cases op with
  | peek q c b => left; rfl
  | peekAll cbits b => left; rfl
  | measure q c b => right; simp only [Inexpressible] at h; simp [exportOp, h]
  | measureAll cbits b =>
    right
    simp only [Inexpressible] at h
    have : measureAllOk cbits.zipIdx = false := by
      cases hm : measureAllOk cbits.zipIdx with
      | false => rfl
      | true =>
        have := (measureAllOk_iff cbits 0).mp hm
        rw [List.range_eq_range'] at h
        exact absurd this h
    simp [exportOp, this]
  | gate _ _ => cases h
  | cond _ _ _ _ => cases h
  | reset _ => cases h
  | resetAll => cases h
  | barrier _ => cases h

/-- a circuit that contains an inexpressible operation is never exported -/
theorem export_refuses_inexpressible (tbl : List Gen.CQGate) (N : Num F) (c : XCircuit F)
    (h : ∃ op ∈ c.ops, Inexpressible op) : ∀ t, exportText tbl N c ≠ .ok t := by
  intro t ht
  obtain ⟨op, hop, hin⟩ := h
  obtain ⟨ls, hls⟩ := export_ok_elim tbl N c t ht op hop
  rcases exportOp_inexpressible tbl N c.nq op hin with h1 | h1 <;> rw [h1] at hls <;> cases hls

end Q1t.Proofs.CQasm

import Q1t.Proofs.OpenQasmStruct
import Q1t.Proofs.OpenQasmConstA
import Q1t.Proofs.OpenQasmConstB
import Q1t.Proofs.OpenQasmConstC
import Q1t.Proofs.OpenQasmConstD
import Q1t.Proofs.OpenQasmParam
import Q1t.Proofs.OpenQasmComplex
import Q1t.Proofs.OpenQasmComplex2
import Q1t.Proofs.OpenQasmWitness
import Q1t.Proofs.OpenQasmWF
import Q1t.Proofs.OpenQasmEquiv
import Q1t.Proofs.OpenQasmConstAbs3
import Q1t.Proofs.OpenQasmText
/-!
# C11 — OpenQASM export preserves circuit semantics or fails

Objects: `Q1t.OpenQasm.exportCircuit` (model of `Circuit::open_qasm`, `Model/OpenQasm.lean`) run with the table
`libTable` (`Model/OpenQasmTable.lean`); `Spec.OQ2` (reference reading of OpenQASM 2.0 and `qelib1.inc`);
`Spec/OQ2Link.lean` (how the model's lines are read as a program), `Spec/OQ2Obligation.lean`, `Spec/OQ2Agree.lean`
(the obligations), `Spec/Born.lean` (single-shot semantics of a circuit).

FULL STATEMENT (not proved as one theorem):
  for every circuit `c`: `exportCircuit libTable c` is an error, or `ok ls` with `toProgram ls = some p`,
  `WellFormed p`, `usesOnlyQelib1 p`, and `run p ≈ Spec.branches c` (per register value the same density matrix
  of final states).
It is FALSE on the pinned code (negative witnesses below).  What is proved for ALL circuits is the structure
(`export_structure`, `export_ok_iff`, `export_first_failure`), the refusals (`export_refuses`,
`export_ok_only_expressible`), well-formedness outside the defect classes (`export_wellformed_partial`), the tie of the templates to the source (`templates_as_modelled`), that the semantics
of a program is the fold of its statements (`semantics_is_fold`); per gate, the meaning of the exported statements
(all constant gates exactly; RX RY RZ U1 U2 U3 for all angles).

NOT PROVED: nothing is left in `unproved` — `export_equiv_partial` covers every operation the exporter gets right on
the pinned code.  What remains are three NAMED ASSUMPTIONS linking the model's
structured lines to the TEXT (`export_equiv_text_partial`): `NumRoundTrip` (Rust prints a displayed number as a decimal
literal that reads back as the same value), `LexesAsPrinted` (the text lexes to the token sequence `specToks` of the
lines: exactly what correspondence (A) compares on every run; its literal-level half is `lexer_reads_decimal_literals`)
and `ParsesAsPrinted` (the reference parser reads those tokens as the program `toProgramV`: kernel-checked on an instance
of every statement and argument shape of the generated table, `parses_as_printed_samples`; checked by (B) on every run).
Every library gate with a translation into `qelib1` has its per-gate obligation proved: the constants exactly
(`constant_gates_exact`; CT, CTdg in `parametrised_controlled_gates`), all parametrised gates for all angles
(`parametrised_one_qubit_gates`, `parametrised_controlled_gates`).
-/
namespace Q1t.Props.C11
open Q1t Q1t.OpenQasm Q1t.Spec.OQ2

/-- names of what is not proved (see the header) -/
def unproved : List String := []

variable {P : Type}

/-! ## Structure -/

/-- For all tables and circuits: the export is the header followed by the translations of the operations in
order, or the first error / panic met while translating them in that order. -/
theorem export_structure (tbl : List GateTpl) (c : QCircuit P) :
    exportCircuit tbl c =
      (sequenceRes (c.ops.map (exportOp tbl c.nq c.nc))).bind fun ls => .ok (header c.nq c.nc ++ ls.flatten) :=
  exportCircuit_eq tbl c

theorem export_ok_iff (tbl : List GateTpl) (c : QCircuit P) (ls : List (Line P)) :
    exportCircuit tbl c = .ok ls ↔
      ∃ per : List (List (Line P)), c.ops.map (exportOp tbl c.nq c.nc) = per.map Res.ok ∧
        ls = header c.nq c.nc ++ per.flatten :=
  exportCircuit_ok_iff tbl c ls

theorem export_first_failure (tbl : List GateTpl) (nq nc : Nat) (pre : List (QOp P)) (op : QOp P)
    (post : List (QOp P)) (hpre : ∀ o ∈ pre, ∃ l, exportOp tbl nq nc o = .ok l)
    (hop : ∀ l, exportOp tbl nq nc op ≠ .ok l) :
    exportCircuit tbl ⟨nq, nc, pre ++ op :: post⟩ = (exportOp tbl nq nc op).bind fun _ => .ok [] :=
  exportCircuit_first_failure tbl nq nc pre op post hpre hop

/-- the semantics of a program is the fold of the semantics of its statements -/
theorem semantics_is_fold {α : Type} [Zero α] [One α] [Add α] [Mul α] [Neg α] [Sub α] [Amp α P] [Angle P]
    (n : Nat) (rg : Regs) (nonzero : List α → Bool) (s1 s2 : List Stmt) (brs : List (Branch α)) :
    runStmts (P := P) n rg nonzero (s1 ++ s2) brs =
      (runStmts (P := P) n rg nonzero s1 brs).bind (runStmts (P := P) n rg nonzero s2) :=
  runStmts_append n rg nonzero s1 s2 brs

/-! ## Refusals -/

/-- A peek (of one qubit or of all), preceded by operations that are translated, makes the export fail with
`ExportPeekInvalid`; a conditional gate on a non-empty control list that is not a permutation of the whole
classical register, with `IncompleteConditionRegister`; a gate without a translation (the generic `C<G>`, any gate
the table does not know), conditional or not and at any depth of `Kron`, with `NotImplemented`. -/
theorem export_refuses (tbl : List GateTpl) (nq nc : Nat) (pre post : List (QOp P))
    (hpre : ∀ o ∈ pre, ∃ l, exportOp tbl nq nc o = .ok l) :
    (∀ q c b, exportCircuit tbl ⟨nq, nc, pre ++ .peek q c b :: post⟩ = .err .peekInvalid) ∧
    (∀ cbits b, exportCircuit tbl ⟨nq, nc, pre ++ .peekAll cbits b :: post⟩ = .err .peekInvalid) ∧
    (∀ control target g bits, control ≠ [] → isFullRegister nc control = false →
      exportCircuit tbl ⟨nq, nc, pre ++ .cond control target g bits :: post⟩ = .err .incompleteConditionRegister) ∧
    (∀ g bits, exportCircuit tbl ⟨nq, nc, pre ++ .gate (.ctrl g) bits :: post⟩ = .err .notImplemented) := by
  refine ⟨fun q c b => ?_, fun cbits b => ?_, fun control target g bits h1 h2 => ?_, fun g bits => ?_⟩
  · rw [exportCircuit_first_failure tbl nq nc pre _ post hpre (by intro l h; cases h)]; rfl
  · rw [exportCircuit_first_failure tbl nq nc pre _ post hpre (by intro l h; cases h)]; rfl
  · have e := exportOp_cond_partial tbl nq nc control target g bits h1 h2
    rw [exportCircuit_first_failure tbl nq nc pre _ post hpre (by rw [e]; intro l h; cases h), e]; rfl
  · have e : exportOp tbl nq nc (.gate (.ctrl g) bits) = .err .notImplemented := by
      simp [exportOp, exportGate_ctrl, Res.map, Res.bind]
    rw [exportCircuit_first_failure tbl nq nc pre _ post hpre (by rw [e]; intro l h; cases h), e]; rfl

/-- Conversely: a circuit whose export succeeds contains no peek, conditions only on the empty list or on a
permutation of the whole register, and every gate the exporter reaches has a translation. -/
theorem export_ok_only_expressible (tbl : List GateTpl) (c : QCircuit P) (ls : List (Line P))
    (h : exportCircuit tbl c = .ok ls) : ∀ op ∈ c.ops, op.expressible tbl c.nc = true :=
  exportCircuit_ok_expressible tbl c ls h

/-! ## Well-formedness outside the defect classes -/

/-- FULL STATEMENT (false on the pinned code, see the negative witnesses): every successful export is a well-formed
program over `qelib1`.  PROVED for all circuits that are `sound` — a decidable, syntactic class that excludes
exactly the listed defect classes that concern well-formedness: every gate leaf is a library gate whose template is
`goodTpl` (all of the table except CU2, CV, CVdg: `good_templates`) with direct (not reference) parameters; no empty
composite and no loop with 0 iterations; gates and sub-gates on distinct qubits in range with the right arity;
at least one qubit; measurements in the Z basis with operands in range (what the `Circuit` API accepts); non-empty
barriers in range.  (Conditional multi-statement gates, empty control lists and over-wide targets are INSIDE the
class: they are well-formed, only semantically wrong.)  Then the exported lines are a program (`toProgram`) without
a well-formedness problem (`Spec.OQ2.wfProblem`: registers declared, indices in range, gates known with the right
numbers of parameters and arguments, closed parameter expressions, distinct qubits) that uses only built-in and
`qelib1` gates. -/
theorem export_wellformed_partial (c : QCircuit P) (hs : c.sound libTable = true) (ls : List (Line P))
    (h : exportCircuit libTable c = .ok ls) :
    ∃ p, toProgram ls = some p ∧ WellFormed p ∧ usesOnlyQelib1 p = true :=
  export_wellformed_of_sound libTable c hs ls h

/-- which templates of the table are good: all but CU2, CV, CVdg (names that `qelib1.inc` does not define) -/
theorem good_templates :
    (libTable.filter fun t => !goodTpl t).map (·.name) = ["CU2", "CV", "CVdg"] := by decide

/-- a circuit with a Bell pair, a `measure_all` on a repeated bit list, a conditional `Kron(X, CRX(5))` on a permuted
control list, a loop around `CCRZ(7)` on permuted qubits, a reset and a barrier -/
def soundSample : QCircuit Nat :=
  ⟨3, 2, [.gate (.lib "H" []) [0], .gate (.lib "CX" []) [0, 1], .measureAll [1, 0, 1] .Z,
    .cond [1, 0] 3 (.kron (.lib "X" []) (.lib "CRX" [.direct 5])) [2, 1, 0],
    .gate (.loop "l" 2 "c" 3 (.cons (.lib "CCRZ" [.direct 7]) [1, 0, 2] .nil)) [0, 1, 2],
    .reset 0, .barrier [0, 2]]⟩

/-- non-vacuity: the sample is in the class and its export succeeds -/
example : soundSample.sound libTable = true ∧
    (match exportCircuit libTable soundSample with | .ok _ => true | _ => false) = true := by decide

/-! ## Tie to the source -/

set_option maxRecDepth 100000 in
/-- The templates re-extracted from `/repo` on this run (`Gen.oqGates`: every `impl OpenQasm`, every
`declare_controlled!`) compile to the table the model is run and reasoned with. -/
theorem templates_as_modelled : compileAll Gen.oqGates = some libTable := by decide +kernel

/-- the structural literals of `Kron`, `Composite`, `Loop`, the default wrapper and `Circuit::open_qasm` -/
theorem structural_literals_as_modelled :
    Gen.oqKronLits = (["{}; {}"], ["; "]) ∧
    Gen.oqCompositeLits = (["; {}"], ["; "]) ∧ Gen.oqLoopLits = ([";\n"], [";\n"]) ∧
    Gen.oqCondFormat = "if ({}) {}" ∧
    Gen.oqCircuitLits = ["OPENQASM 2.0;\ninclude \"qelib1.inc\";\n", "qreg q[{}];\n", "q[{}]", "creg b[{}];\n", "b[{}]",
      "{};\n", "{};\n", "b == {}", "{};\n", "{};\n", "{};\n", "{};\n", "measure {} -> {};\n", "q", "{};\n", "q", "{};\n",
      "{};\n", "measure q -> b;\n", "measure {} -> {};\n", "OpenQasm", "OpenQasm", "reset {};\n", "reset q;\n",
      "barrier q;\n", "barrier {};\n", ", "] := by decide

/-! ## Per-gate meaning -/

/-- Every constant library gate except CT, CTdg (proved in `parametrised_controlled_gates`) and CV, CVdg: the statements it is exported as
denote, through the bodies of `qelib1.inc`, the documented unitary up to a global phase — exact arithmetic in
`ℚ(ζ₈)`, the list IS the whole quantifier. -/
theorem constant_gates_exact :
    ["H", "X", "Y", "Z", "S", "Sdg", "T", "Tdg", "V", "Vdg", "I", "CX", "CY", "CZ", "Swap", "CS", "CSdg", "CH",
     "CCX", "CCZ"].all (constOK libTable) = true := by
  have a := const_one_qubit_ok
  have b := const_two_qubit_ok
  simp only [List.all_cons, List.all_nil, Bool.and_true, Bool.and_eq_true] at a b ⊢
  exact ⟨a.1, a.2.1, a.2.2.1, a.2.2.2.1, a.2.2.2.2.1, a.2.2.2.2.2.1, a.2.2.2.2.2.2.1, a.2.2.2.2.2.2.2.1,
    a.2.2.2.2.2.2.2.2.1, a.2.2.2.2.2.2.2.2.2.1, a.2.2.2.2.2.2.2.2.2.2, b.1, b.2.1, b.2.2.1, b.2.2.2.1, b.2.2.2.2.1,
    b.2.2.2.2.2, const_ch_ok, const_ccx_ok, const_ccz_ok⟩

/-- `cv`, `cvdg` are exported under names `qelib1.inc` does not define: the statements have no meaning -/
theorem cv_cvdg_not_in_qelib1 : ["CV", "CVdg"].all (constUndefined libTable) = true := const_cv_undefined

section param
variable {α : Type} [CommRing α] [Amp α P] [Angle P]

/-- RX, RY, RZ, U1, U2, U3 for ALL parameter values, over every commutative ring with lawful amplitudes and
angles: the exported statement (`rx`, `u3(θ,0,0)`, `rz`, `u1`, `u2`, `u3`) denotes the documented unitary up to a
global phase (which is 1 except for RZ, where it is `e^{iλ/2}`). -/
theorem parametrised_one_qubit_gates (h : LawfulAmp α P) (hh : Proofs.Unitaries.LawfulHalf α P)
    (ha : LawfulAngle α P) :
    (∀ θ : P, LibGateOK α P libTable "RX" [θ]) ∧ (∀ θ : P, LibGateOK α P libTable "RY" [θ]) ∧
    (∀ l : P, LibGateOK α P libTable "RZ" [l]) ∧ (∀ l : P, LibGateOK α P libTable "U1" [l]) ∧
    (∀ p l : P, LibGateOK α P libTable "U2" [p, l]) ∧ (∀ t p l : P, LibGateOK α P libTable "U3" [t, p, l]) :=
  ⟨rx_ok h ha, ry_ok h ha, rz_ok h hh ha, u1_ok h ha, u2_ok h ha, u3_ok h ha⟩

/-- The controlled parametrised gates for ALL parameter values: CRZ, CU1, CU3 (through the bodies of `crz`, `cu1`,
`cu3` in `qelib1.inc`), CRX, CRY, CCRX, CCRY, CCRZ (through the exporter's decomposition templates), and CT, CTdg
(`cu1(±pi/4)`): the exported statements denote exactly the documented controlled unitary (phase 1). -/
theorem parametrised_controlled_gates (h : LawfulAmp α P) (hh : Proofs.Unitaries.LawfulHalf α P)
    (ha : LawfulAngle α P) (ha2 : LawfulAngle2 α P) (ha3 : LawfulAngle3 α P) :
    (∀ θ : P, LibGateOK α P libTable "CRX" [θ]) ∧ (∀ θ : P, LibGateOK α P libTable "CRY" [θ]) ∧
    (∀ l : P, LibGateOK α P libTable "CRZ" [l]) ∧ (∀ l : P, LibGateOK α P libTable "CU1" [l]) ∧
    (∀ t p l : P, LibGateOK α P libTable "CU3" [t, p, l]) ∧
    (∀ θ : P, LibGateOK α P libTable "CCRX" [θ]) ∧ (∀ θ : P, LibGateOK α P libTable "CCRY" [θ]) ∧
    (∀ l : P, LibGateOK α P libTable "CCRZ" [l]) ∧
    LibGateOK α P libTable "CT" [] ∧ LibGateOK α P libTable "CTdg" [] :=
  ⟨crx_ok h hh ha ha2, cry_ok h hh ha ha2, crz_ok h ha, cu1_ok h hh ha, cu3_ok h hh ha ha2,
   ccrx_ok h hh ha ha2 ha3, ccry_ok h hh ha ha2 ha3, ccrz_ok h hh ha ha2,
   ct_ok h hh ha ha2, ctdg_ok h hh ha ha2⟩

end param

/-- non-vacuity of the hypotheses: complex amplitudes, real angles -/
example : (∀ θ : ℝ, LibGateOK ℂ ℝ libTable "RX" [θ]) ∧ (∀ l : ℝ, LibGateOK ℂ ℝ libTable "RZ" [l]) :=
  ⟨(parametrised_one_qubit_gates AmpComplex.lawful AmpComplex.lawfulHalf lawfulAngleComplex).1,
   (parametrised_one_qubit_gates AmpComplex.lawful AmpComplex.lawfulHalf lawfulAngleComplex).2.2.1⟩

/-- … and for the controlled gates: e.g. CCRX and CU3 over ℂ at all real angles -/
example : (∀ θ : ℝ, LibGateOK ℂ ℝ libTable "CCRX" [θ]) ∧ (∀ t p l : ℝ, LibGateOK ℂ ℝ libTable "CU3" [t, p, l]) :=
  ⟨(parametrised_controlled_gates AmpComplex.lawful AmpComplex.lawfulHalf lawfulAngleComplex lawfulAngle2Complex
      lawfulAngle3Complex).2.2.2.2.2.1,
   (parametrised_controlled_gates AmpComplex.lawful AmpComplex.lawfulHalf lawfulAngleComplex lawfulAngle2Complex
      lawfulAngle3Complex).2.2.2.2.1⟩

/-! ## Equivalence outside the defect classes (partial) -/

section equiv
variable {α : Type} [CommRing α] [Amp α P] [Angle P]

/-- every library gate with a translation into `qelib1` (all of the table except CU2, CV, CVdg) -/
def okParam (name : String) : Bool :=
  ["RX", "RY", "RZ", "U1", "U2", "U3", "CRX", "CRY", "CRZ", "CU1", "CU3", "CCRX", "CCRY", "CCRZ", "CT", "CTdg", "H", "X", "Y", "Z", "S", "Sdg", "T", "Tdg", "V", "Vdg", "I", "CX", "CY", "CZ", "Swap", "CS", "CSdg", "CH", "CCX", "CCZ"].contains name

theorem params_len (name : String) (t : GateTpl) (k : Nat) (ht : lookupTpl libTable name = some t)
    (hk : (lookupTpl libTable name).map (·.params.length) = some k) : t.params.length = k := by
  rw [ht] at hk; simpa using hk

/-- `okParam` names exactly the gates of the table whose template is good -/
theorem okParam_eq_good : (libTable.filter goodTpl).all (fun t => okParam t.name) = true ∧
    (libTable.filter fun t => okParam t.name).all goodTpl = true := by decide

theorem leaves_ok (h : LawfulAmp α P) (hh : Proofs.Unitaries.LawfulHalf α P) (ha : LawfulAngle α P)
    (ha2 : LawfulAngle2 α P) (ha3 : LawfulAngle3 α P) (hpi : LawfulAnglePi α P) :
    LeavesOK' α P libTable okParam := by
  have hp := parametrised_one_qubit_gates h hh ha
  have hc := parametrised_controlled_gates h hh ha ha2 ha3
  intro name t hok ht _ vals hlen
  simp only [okParam, List.contains_iff_mem, List.mem_cons, List.not_mem_nil, or_false] at hok
  have one : ∀ (k : Nat), t.params.length = k → vals.length = k := fun k e => by rw [hlen, e]
  rcases hok with rfl | rfl | rfl | rfl | rfl | rfl | rfl | rfl | rfl | rfl | rfl | rfl | rfl | rfl | rfl | rfl | rfl | rfl | rfl | rfl | rfl | rfl | rfl | rfl | rfl | rfl | rfl | rfl | rfl | rfl | rfl | rfl | rfl | rfl | rfl | rfl
  · match vals, one 1 (params_len _ t 1 ht (by decide)) with
    | [θ], _ => exact hp.1 θ
  · match vals, one 1 (params_len _ t 1 ht (by decide)) with
    | [θ], _ => exact hp.2.1 θ
  · match vals, one 1 (params_len _ t 1 ht (by decide)) with
    | [θ], _ => exact hp.2.2.1 θ
  · match vals, one 1 (params_len _ t 1 ht (by decide)) with
    | [θ], _ => exact hp.2.2.2.1 θ
  · match vals, one 2 (params_len _ t 2 ht (by decide)) with
    | [a, b], _ => exact hp.2.2.2.2.1 a b
  · match vals, one 3 (params_len _ t 3 ht (by decide)) with
    | [a, b, c], _ => exact hp.2.2.2.2.2 a b c
  · match vals, one 1 (params_len _ t 1 ht (by decide)) with
    | [θ], _ => exact hc.1 θ
  · match vals, one 1 (params_len _ t 1 ht (by decide)) with
    | [θ], _ => exact hc.2.1 θ
  · match vals, one 1 (params_len _ t 1 ht (by decide)) with
    | [θ], _ => exact hc.2.2.1 θ
  · match vals, one 1 (params_len _ t 1 ht (by decide)) with
    | [θ], _ => exact hc.2.2.2.1 θ
  · match vals, one 3 (params_len _ t 3 ht (by decide)) with
    | [a, b, c], _ => exact hc.2.2.2.2.1 a b c
  · match vals, one 1 (params_len _ t 1 ht (by decide)) with
    | [θ], _ => exact hc.2.2.2.2.2.1 θ
  · match vals, one 1 (params_len _ t 1 ht (by decide)) with
    | [θ], _ => exact hc.2.2.2.2.2.2.1 θ
  · match vals, one 1 (params_len _ t 1 ht (by decide)) with
    | [θ], _ => exact hc.2.2.2.2.2.2.2.1 θ
  · match vals, one 0 (params_len _ t 0 ht (by decide)) with
    | [], _ => exact hc.2.2.2.2.2.2.2.2.1
  · match vals, one 0 (params_len _ t 0 ht (by decide)) with
    | [], _ => exact hc.2.2.2.2.2.2.2.2.2
  · match vals, one 0 (params_len _ t 0 ht (by decide)) with
    | [], _ => exact h_ok h ha hpi
  · match vals, one 0 (params_len _ t 0 ht (by decide)) with
    | [], _ => exact x_ok h ha hpi
  · match vals, one 0 (params_len _ t 0 ht (by decide)) with
    | [], _ => exact y_ok h ha hpi
  · match vals, one 0 (params_len _ t 0 ht (by decide)) with
    | [], _ => exact z_ok h ha hpi
  · match vals, one 0 (params_len _ t 0 ht (by decide)) with
    | [], _ => exact s_ok h ha hpi
  · match vals, one 0 (params_len _ t 0 ht (by decide)) with
    | [], _ => exact sdg_ok h ha hpi
  · match vals, one 0 (params_len _ t 0 ht (by decide)) with
    | [], _ => exact t_ok h ha ha2 hpi
  · match vals, one 0 (params_len _ t 0 ht (by decide)) with
    | [], _ => exact tdg_ok h ha ha2 hpi
  · match vals, one 0 (params_len _ t 0 ht (by decide)) with
    | [], _ => exact v_ok h ha hpi
  · match vals, one 0 (params_len _ t 0 ht (by decide)) with
    | [], _ => exact vdg_ok h ha hpi
  · match vals, one 0 (params_len _ t 0 ht (by decide)) with
    | [], _ => exact i_ok h ha hpi
  · match vals, one 0 (params_len _ t 0 ht (by decide)) with
    | [], _ => exact cx_ok h
  · match vals, one 0 (params_len _ t 0 ht (by decide)) with
    | [], _ => exact cy_ok h ha hpi
  · match vals, one 0 (params_len _ t 0 ht (by decide)) with
    | [], _ => exact cz_ok h ha hpi
  · match vals, one 0 (params_len _ t 0 ht (by decide)) with
    | [], _ => exact swap_ok h
  · match vals, one 0 (params_len _ t 0 ht (by decide)) with
    | [], _ => exact cs_ok h hh ha hpi
  · match vals, one 0 (params_len _ t 0 ht (by decide)) with
    | [], _ => exact csdg_ok h hh ha hpi
  · match vals, one 0 (params_len _ t 0 ht (by decide)) with
    | [], _ => exact ch_ok h ha ha2 hpi
  · match vals, one 0 (params_len _ t 0 ht (by decide)) with
    | [], _ => exact ccx_ok h ha ha2 hpi
  · match vals, one 0 (params_len _ t 0 ht (by decide)) with
    | [], _ => exact ccz_ok h ha ha2 hpi

/-- FULL STATEMENT (`export_equiv`, NOT proved): for every circuit outside the defect classes the exported program
has the same branch set as the circuit.  PROVED (`_partial`) for the sub-class of circuits with at least one qubit
and at most 64 classical bits whose operations are `QOp.equivSound libTable okParam`: UNCONDITIONAL gates that are `sound` (see
`export_wellformed_partial`), built with `Kron`, `Composite`, `Loop` at any depth from the library gates named by
`okParam` (every library gate with a good template: all but CU2, CV, CVdg, `okParam_eq_good`) on valid qubits; resets;
barriers; Z-basis measurements `measure q -> c` with operands in range (at most 64 classical bits); CONDITIONAL
sound gates whose control list is a non-empty permutation of the whole classical register, whose target is below
`2^len` and all of whose leaves translate into a single statement (`QGate.singleStmt`: not Swap, CRX, CRY, CCRX, CCRY,
CCRZ, CCZ); `reset_all`; `measure_all` in the Z basis into DISTINCT classical bits in range, one per qubit.
This is everything the exporter gets right on the pinned code: what is outside the class is outside because the
pinned code is wrong there (X/Y-basis measurements, conditional multi-statement gates, empty control lists, over-wide
targets, reference / CU2 / CV / CVdg / empty-composite leaves, unchecked operand lists) or because the two semantics
genuinely differ (`measure_all` with a repeated classical bit: the Born reference drops the outcomes in which the two
qubits writing that bit disagree).  Conclusion: running the exported lines (`exportedRun`: `Spec.OQ2`'s branching semantics, parameter
values taken from the model) and the Born semantics of the circuit (`Spec.branches`), both keeping zero-weight
branches (`nzT`), give branch lists that correspond one to one up to a PERMUTATION of the list (`PermRel`; the permutation is only
needed for `measure_all`, whose outcomes the Born semantics enumerates in another order than the sequential
measurement): same register word, states equal up to a factor of modulus one (`BrRel`). -/
theorem export_equiv_partial (h : LawfulAmp α P) (hh : Proofs.Unitaries.LawfulHalf α P) (ha : LawfulAngle α P)
    (ha2 : LawfulAngle2 α P) (ha3 : LawfulAngle3 α P) (hpi : LawfulAnglePi α P) (c : QCircuit P) (hq : 0 < c.nq) (hnc : c.nc ≤ 64)
    (hs : ∀ op ∈ c.ops, op.equivSound libTable okParam c.nq c.nc = true) (ls : List (Line P))
    (he : exportCircuit libTable c = .ok ls) :
    ∃ cops, c.ops.mapM QOp.toCOp = some cops ∧ ∃ r1 r2 : List (Branch α),
      exportedRun nzT c.nq c.nc ls = some r1 ∧
      Spec.branches c.nq nzT cops [(zeroState c.nq, 0)] = some r2 ∧ PermRel P c.nq r1 r2 :=
  export_equiv_of_sound h libTable okParam (leaves_ok h hh ha ha2 ha3 hpi) c hq hnc hs ls he

/-! ### … and about the program with its decimal literals -/

/-- every operation of the class of `export_equiv_partial` is in the class of `export_wellformed_partial` -/
theorem equivSound_sound (ok : String → Bool) (nq nc : Nat) (op : QOp P)
    (h : op.equivSound libTable ok nq nc = true) : op.sound libTable nq nc = true := by
  cases op with
  | gate g bits =>
    simp only [QOp.equivSound, QOp.equivSound1, Bool.and_eq_true, beq_iff_eq] at h
    obtain ⟨hlt, hnd⟩ := (validBits_iff' nq bits).1 h.1.2
    simp only [QOp.sound, h.1.1.1, h.2, hnd, Bool.and_eq_true, beq_iff_eq, decide_eq_true_eq, List.all_eq_true, true_and, and_true]
    exact hlt
  | cond control target g bits =>
    simp only [QOp.equivSound, QOp.equivSound1, Bool.and_eq_true, beq_iff_eq] at h
    obtain ⟨hlt, hnd⟩ := (validBits_iff' nq bits).1 h.1.2
    simp only [QOp.sound, h.1.1.1.1.2, h.2, hnd, Bool.and_eq_true, beq_iff_eq, decide_eq_true_eq, List.all_eq_true, true_and, and_true]
    exact hlt
  | measure q c b => simpa [QOp.equivSound, QOp.equivSound1, QOp.sound] using h
  | measureAll cbits b =>
    simp only [QOp.equivSound, Bool.and_eq_true, beq_iff_eq, decide_eq_true_eq, List.all_eq_true] at h
    simp only [QOp.sound, h.1.1.1, h.1.1.2, Bool.and_eq_true, beq_iff_eq, decide_eq_true_eq, List.all_eq_true, true_and, and_true, beq_self_eq_true]
    exact h.2
  | reset q => simpa [QOp.equivSound, QOp.equivSound1, QOp.sound] using h
  | resetAll => rfl
  | barrier qs => simpa [QOp.equivSound, QOp.equivSound1, QOp.sound] using h
  | peek q c b => rfl
  | peekAll cbits b => rfl

/-- `export_equiv_partial` as a statement about the OpenQASM PROGRAM with its decimal literals: under the
assumption `NumRoundTrip sh (linesVals ls)` about the number printer (`sh v` = optional minus sign and decimal literal
that Rust's `Display for f64` prints for `v`; the assumption: for every number displayed in the lines, i.e. every
direct parameter of the circuit, it reads back as `v`), the exported lines of a circuit of the class
are the program `toProgramV sh ls` of `Spec/OQ2`'s abstract syntax — parameter expressions with those literals —,
and `Spec.OQ2.run` of that program has the same branches (up to a permutation; register word; state up to a unit
factor) as the Born semantics of the circuit.
STILL ONLY CHECKED on generated cases ((A): the text's tokens are the model's tokens; (B): the text lexes and parses):
that `Spec.OQ2.parse (Spec.OQ2.lex text)` is this program. -/
theorem export_equiv_program_partial (h : LawfulAmp α P) (hh : Proofs.Unitaries.LawfulHalf α P)
    (ha : LawfulAngle α P) (ha2 : LawfulAngle2 α P) (ha3 : LawfulAngle3 α P) (hpi : LawfulAnglePi α P)
    (sh : P → DecLit) (c : QCircuit P) (hq : 0 < c.nq) (hnc : c.nc ≤ 64)
    (hs : ∀ op ∈ c.ops, op.equivSound libTable okParam c.nq c.nc = true) (ls : List (Line P))
    (he : exportCircuit libTable c = .ok ls) (hrt : NumRoundTrip P sh (linesVals ls)) :
    ∃ p cops, toProgramV sh ls = some p ∧ c.ops.mapM QOp.toCOp = some cops ∧ ∃ r1 r2 : List (Branch α),
      run (α := α) (P := P) nzT p = some r1 ∧
      Spec.branches c.nq nzT cops [(zeroState c.nq, 0)] = some r2 ∧ PermRel P c.nq r1 r2 := by
  have hsound : c.sound libTable = true := by
    simp only [QCircuit.sound, Bool.and_eq_true, decide_eq_true_eq, List.all_eq_true]
    exact ⟨hq, fun op hop => equivSound_sound okParam c.nq c.nc op (hs op hop)⟩
  obtain ⟨p, hp, hrun⟩ := program_runs_as_lines (α := α) sh libTable c hsound ls he hrt nzT
  obtain ⟨cops, hcops, r1, r2, hr1, hr2, hrel⟩ := export_equiv_partial h hh ha ha2 ha3 hpi c hq hnc hs ls he
  exact ⟨p, cops, hp, hcops, r1, r2, by rw [hrun]; exact hr1, hr2, hrel⟩

/-! ### … and about the TEXT, under two named assumptions -/

/-- a printer of sample numbers: the integer `v` stands for `v/100`, printed with two decimals, or — when it is a
multiple of 100 — as an integer literal (as `Display for f64` prints `1` for `1.0`) -/
def samplePrinter (v : Int) : DecLit :=
  if v % 100 = 0 then ⟨decide (v < 0), (v.natAbs / 100), 0⟩ else ⟨decide (v < 0), v.natAbs, -2⟩

/-- one circuit with every library gate that has a translation — unconditional and, where the translation is a single
statement, conditional on a permuted register — with negative, fractional and integral parameters, a nested
`Kron`/`Loop`/`Composite`, `measure`, both shapes of `measure_all`, `reset`, `reset_all`, both shapes of `barrier` -/
def parseSample : QCircuit Int :=
  ⟨3, 3, [
    .gate (.lib "H" []) [1],
    .cond [2, 0, 1] 5 (.lib "H" []) [1],
    .gate (.lib "X" []) [1],
    .cond [2, 0, 1] 5 (.lib "X" []) [1],
    .gate (.lib "Y" []) [1],
    .cond [2, 0, 1] 5 (.lib "Y" []) [1],
    .gate (.lib "Z" []) [1],
    .cond [2, 0, 1] 5 (.lib "Z" []) [1],
    .gate (.lib "S" []) [1],
    .cond [2, 0, 1] 5 (.lib "S" []) [1],
    .gate (.lib "Sdg" []) [1],
    .cond [2, 0, 1] 5 (.lib "Sdg" []) [1],
    .gate (.lib "T" []) [1],
    .cond [2, 0, 1] 5 (.lib "T" []) [1],
    .gate (.lib "Tdg" []) [1],
    .cond [2, 0, 1] 5 (.lib "Tdg" []) [1],
    .gate (.lib "V" []) [1],
    .cond [2, 0, 1] 5 (.lib "V" []) [1],
    .gate (.lib "Vdg" []) [1],
    .cond [2, 0, 1] 5 (.lib "Vdg" []) [1],
    .gate (.lib "I" []) [1],
    .cond [2, 0, 1] 5 (.lib "I" []) [1],
    .gate (.lib "RX" [.direct (-30)]) [1],
    .cond [2, 0, 1] 5 (.lib "RX" [.direct (-30)]) [1],
    .gate (.lib "RY" [.direct (-30)]) [1],
    .cond [2, 0, 1] 5 (.lib "RY" [.direct (-30)]) [1],
    .gate (.lib "RZ" [.direct (-30)]) [1],
    .cond [2, 0, 1] 5 (.lib "RZ" [.direct (-30)]) [1],
    .gate (.lib "U1" [.direct (-30)]) [1],
    .cond [2, 0, 1] 5 (.lib "U1" [.direct (-30)]) [1],
    .gate (.lib "U2" [.direct (-30), .direct (125)]) [1],
    .cond [2, 0, 1] 5 (.lib "U2" [.direct (-30), .direct (125)]) [1],
    .gate (.lib "U3" [.direct (-30), .direct (125), .direct (7)]) [1],
    .cond [2, 0, 1] 5 (.lib "U3" [.direct (-30), .direct (125), .direct (7)]) [1],
    .gate (.lib "CX" []) [2, 0],
    .cond [2, 0, 1] 5 (.lib "CX" []) [2, 0],
    .gate (.lib "CY" []) [2, 0],
    .cond [2, 0, 1] 5 (.lib "CY" []) [2, 0],
    .gate (.lib "CZ" []) [2, 0],
    .cond [2, 0, 1] 5 (.lib "CZ" []) [2, 0],
    .gate (.lib "Swap" []) [2, 0],
    .gate (.lib "CH" []) [2, 0],
    .cond [2, 0, 1] 5 (.lib "CH" []) [2, 0],
    .gate (.lib "CRX" [.direct (-30)]) [2, 0],
    .gate (.lib "CRY" [.direct (-30)]) [2, 0],
    .gate (.lib "CRZ" [.direct (-30)]) [2, 0],
    .cond [2, 0, 1] 5 (.lib "CRZ" [.direct (-30)]) [2, 0],
    .gate (.lib "CS" []) [2, 0],
    .cond [2, 0, 1] 5 (.lib "CS" []) [2, 0],
    .gate (.lib "CSdg" []) [2, 0],
    .cond [2, 0, 1] 5 (.lib "CSdg" []) [2, 0],
    .gate (.lib "CT" []) [2, 0],
    .cond [2, 0, 1] 5 (.lib "CT" []) [2, 0],
    .gate (.lib "CTdg" []) [2, 0],
    .cond [2, 0, 1] 5 (.lib "CTdg" []) [2, 0],
    .gate (.lib "CU1" [.direct (-30)]) [2, 0],
    .cond [2, 0, 1] 5 (.lib "CU1" [.direct (-30)]) [2, 0],
    .gate (.lib "CU3" [.direct (-30), .direct (125), .direct (7)]) [2, 0],
    .cond [2, 0, 1] 5 (.lib "CU3" [.direct (-30), .direct (125), .direct (7)]) [2, 0],
    .gate (.lib "CCRX" [.direct (-30)]) [1, 2, 0],
    .gate (.lib "CCRY" [.direct (-30)]) [1, 2, 0],
    .gate (.lib "CCRZ" [.direct (-30)]) [1, 2, 0],
    .gate (.lib "CCX" []) [1, 2, 0],
    .cond [2, 0, 1] 5 (.lib "CCX" []) [1, 2, 0],
    .gate (.lib "CCZ" []) [1, 2, 0],
    .gate (.kron (.lib "RX" [.direct (-5)]) (.loop "l" 2 "c" 2 (.cons (.lib "CRX" [.direct (-8)]) [1, 0] (.cons (.lib "T" []) [0] .nil)))) [2, 0, 1],
    .measure 1 2 .Z,
    .measureAll [0, 1, 2] .Z,
    .measureAll [2, 0, 1] .Z,
    .reset 2,
    .resetAll,
    .barrier [0, 1, 2],
    .barrier [2, 0]]⟩

set_option maxRecDepth 100000 in
/-- `ParsesAsPrinted` kernel-checked on the sample: every statement shape and every argument shape of the generated
template table is read by the reference parser as the intended tree -/
theorem parses_as_printed_samples :
    (match exportCircuit libTable parseSample with
     | .ok ls => (toProgramV samplePrinter ls).map fun p => decide (parse (specToks samplePrinter ls) = .ok p)
     | _ => none) = some true := by decide +kernel

/-- The reference lexer on the decimal literals `Display for f64` prints (digits, optionally `.` and digits, never an
exponent), followed by one of the characters that follow a number in the exported text (`)`, `,`, `/`, blank, `;`, `]`,
newline): `ddd` is read as the integer token of its value, `ddd.fff` as the token `dddfff · 10^(−|fff|)` — the
literal-level half of `LexesAsPrinted`. -/
theorem lexer_reads_decimal_literals (ip fp : List Char) (x : Char) (r : List Char)
    (hip : ∀ c ∈ ip, Spec.OQ2.isDigit c = true) (hfp : ∀ c ∈ fp, Spec.OQ2.isDigit c = true)
    (hx : x ∈ numberEnders) :
    lexNumber (ip ++ x :: r) = (.int (Spec.OQ2.digitsVal ip), x :: r) ∧
    lexNumber (ip ++ '.' :: (fp ++ x :: r)) =
      (.real (Spec.OQ2.digitsVal (ip ++ fp)) (-(fp.length : Int)), x :: r) :=
  ⟨lexNumber_int ip x r hip hx, lexNumber_real ip fp x r hip hfp hx⟩

/-- The equivalence as a statement about the TEXT `Circuit::open_qasm()` returns: if the text lexes to the token
sequence of the model's lines (`LexesAsPrinted`: correspondence (A)), those tokens parse as printed
(`ParsesAsPrinted`: kernel-checked on `parses_as_printed_samples`, checked by (B) on every case) and the displayed
numbers read back as their values (`NumRoundTrip`), then lexing and parsing the text with `Spec/OQ2` gives a program
whose `Spec.OQ2.run` has the same branches (up to a permutation; register word; state up to a unit factor) as the
Born semantics of the circuit. -/
theorem export_equiv_text_partial (h : LawfulAmp α P) (hh : Proofs.Unitaries.LawfulHalf α P)
    (ha : LawfulAngle α P) (ha2 : LawfulAngle2 α P) (ha3 : LawfulAngle3 α P) (hpi : LawfulAnglePi α P)
    (sh : P → DecLit) (c : QCircuit P) (hq : 0 < c.nq) (hnc : c.nc ≤ 64)
    (hs : ∀ op ∈ c.ops, op.equivSound libTable okParam c.nq c.nc = true) (ls : List (Line P))
    (he : exportCircuit libTable c = .ok ls) (hrt : NumRoundTrip P sh (linesVals ls)) (text : String)
    (hlex : LexesAsPrinted sh ls text) (hparse : ParsesAsPrinted sh ls) :
    ∃ toks p cops, lex text = .ok toks ∧ parse toks = .ok p ∧ c.ops.mapM QOp.toCOp = some cops ∧
      ∃ r1 r2 : List (Branch α), run (α := α) (P := P) nzT p = some r1 ∧
        Spec.branches c.nq nzT cops [(zeroState c.nq, 0)] = some r2 ∧ PermRel P c.nq r1 r2 := by
  obtain ⟨p, cops, hp, hcops, r1, r2, hr1, hr2, hrel⟩ :=
    export_equiv_program_partial h hh ha ha2 ha3 hpi sh c hq hnc hs ls he hrt
  exact ⟨specToks sh ls, p, cops, hlex, hparse p hp, hcops, r1, r2, hr1, hr2, hrel⟩

end equiv

/-- `NumRoundTrip` is satisfiable: the real `1/2` printed as `0.5` (`5 · 10⁻¹`), `-1/4` as `-0.25` -/
example : NumRoundTrip ℝ (fun v => if v < 0 then ⟨true, 25, -2⟩ else ⟨false, 5, -1⟩) [(1 / 2 : ℝ), -(1 / 4 : ℝ)] := by
  intro v hv
  simp only [List.mem_cons, List.not_mem_nil, or_false] at hv
  rcases hv with rfl | rfl
  · show DecLit.value (P := ℝ) (if (1 / 2 : ℝ) < 0 then _ else _) = _
    rw [if_neg (by norm_num)]
    show ((5 : ℕ) : ℝ) * (10 : ℝ) ^ (-1 : ℤ) = 1 / 2
    norm_num
  · show DecLit.value (P := ℝ) (if (-(1 / 4) : ℝ) < 0 then _ else _) = _
    rw [if_pos (by norm_num)]
    show -(((25 : ℕ) : ℝ) * (10 : ℝ) ^ (-2 : ℤ)) = -(1 / 4)
    norm_num

/-- the hypotheses are satisfiable: the theorem at complex amplitudes and real angles -/
example (c : QCircuit ℝ) (hq : 0 < c.nq) (hnc : c.nc ≤ 64)
    (hs : ∀ op ∈ c.ops, op.equivSound libTable okParam c.nq c.nc = true)
    (ls : List (Line ℝ)) (he : exportCircuit libTable c = .ok ls) :
    ∃ cops, c.ops.mapM QOp.toCOp = some cops ∧ ∃ r1 r2 : List (Branch ℂ),
      exportedRun nzT c.nq c.nc ls = some r1 ∧
      Spec.branches c.nq nzT cops [(zeroState c.nq, 0)] = some r2 ∧ PermRel ℝ c.nq r1 r2 :=
  export_equiv_partial AmpComplex.lawful AmpComplex.lawfulHalf lawfulAngleComplex lawfulAngle2Complex
    lawfulAngle3Complex lawfulAnglePiComplex c hq hnc hs ls he

/-- non-vacuity: complex amplitudes, real angles; a circuit of the class (a `Kron`, a loop around a composite of
`CCRX` and `CU3` on permuted qubits, a reset, a barrier) -/
example : ∀ op ∈ ([.gate (.kron (.lib "RX" [.direct 1]) (.lib "CRY" [.direct 2])) [2, 0, 1],
      .gate (.lib "H" []) [1], .gate (.lib "CCX" []) [2, 0, 1], .gate (.lib "CH" []) [1, 2],
      .gate (.loop "l" 2 "c" 3 (.cons (.lib "CCRX" [.direct 3]) [1, 0, 2]
        (.cons (.lib "CU3" [.direct 1, .direct 2, .direct 3]) [2, 0] .nil))) [0, 2, 1],
      .reset 1, .resetAll, .measure 2 1 .Z, .measureAll [1, 0, 2] .Z, .cond [1, 2, 0] 5 (.kron (.lib "CU3" [.direct 1, .direct 2, .direct 3]) (.lib "T" [])) [2, 0, 1],
      .barrier [0, 2]] : List (QOp ℝ)), op.equivSound libTable okParam 3 3 = true := by decide

/-! ## Negative witnesses (the pinned code violates the property) and agreement (non-vacuity) -/

/-- X-basis measurement: the rotation back is not exported; final states differ -/
theorem neg_basis_measurement : exactAgree ⟨1, 1, [.measure 0 0 .X]⟩ = some false := wit_basis_measurement

/-- a conditional Swap: only the first `cx` is under the `if` -/
theorem neg_condition_first_statement_only :
    exactAgree ⟨2, 1, [.gate gX [0], .cond [0] 1 (.lib "Swap" []) [0, 1]]⟩ = some false :=
  wit_condition_first_statement

/-- an empty control list with a non-zero target: exported unconditionally -/
theorem neg_empty_control_list : exactAgree ⟨1, 1, [.cond [] 1 gX [0]]⟩ = some false := wit_empty_control

/-- a target wider than the control list: the export drops the high bits -/
theorem neg_condition_target_overflow : exactAgree ⟨1, 1, [.cond [0] 2 gX [0]]⟩ = some false :=
  wit_target_overflow

/-- an empty composite becomes an empty statement, which is not a statement of the language -/
theorem neg_empty_statement :
    exportCircuit libTable (⟨1, 0, [.gate (.composite "e" 1 .nil) [0]]⟩ : QCircuit Nat) =
      .ok [.version, .includeLib, .qreg 1, .gate ⟨[], none⟩] ∧
    toProgram ([.version, .includeLib, .qreg 1, .gate ⟨[], none⟩] : List (Line Nat)) = none :=
  wit_empty_statement

/-- a reference parameter is exported by name -/
theorem neg_reference_parameter :
    exportCircuit libTable (⟨1, 0, [.gate (.lib "RX" [.ref "theta" 5]) [0]]⟩ : QCircuit Nat) =
      .ok [.version, .includeLib, .qreg 1, .gate ⟨[], some ⟨"rx", [.name "theta" 5], [.bit "q" 0]⟩⟩] ∧
    (toProgram ([.version, .includeLib, .qreg 1,
        .gate ⟨[], some ⟨"rx", [.name "theta" 5], [.bit "q" 0]⟩⟩] : List (Line Nat))).map wfProblem =
      some (some ⟨"unbound_identifier", "theta"⟩) :=
  wit_reference_parameter

/-- `CV` is exported as `cv`, which `qelib1.inc` does not define -/
theorem neg_not_qelib1 :
    exportCircuit libTable (⟨2, 0, [.gate (.lib "CV" []) [0, 1]]⟩ : QCircuit Nat) =
      .ok [.version, .includeLib, .qreg 2, .gate ⟨[], some ⟨"cv", [], [.bit "q" 0, .bit "q" 1]⟩⟩] ∧
    (toProgram ([.version, .includeLib, .qreg 2,
        .gate ⟨[], some ⟨"cv", [], [.bit "q" 0, .bit "q" 1]⟩⟩] : List (Line Nat))).map wfProblem =
      some (some ⟨"not_qelib1", "cv"⟩) :=
  wit_not_qelib1

/-- `add_gate(H, &[])` is accepted and the export panics (neither an error nor a program) -/
theorem neg_export_panics :
    exportCircuit libTable (⟨2, 0, [.gate (.lib "H" []) []]⟩ : QCircuit Nat) = .panic := wit_panic

/-- agreement inside the sound fragment: measurement, a conditional gate on the whole register -/
theorem pos_conditional_agrees :
    exactAgree ⟨1, 1, [.gate gH [0], .measure 0 0 .Z, .cond [0] 1 gX [0]]⟩ = some true := wit_agree_conditional

/-- agreement: Bell pair, `measure q -> b`, conditional `Kron(X, H)` on a permuted control list, reset, barrier -/
theorem pos_bell_agrees :
    exactAgree ⟨2, 2, [.gate gH [0], .gate (.lib "CX" []) [0, 1], .measureAll [0, 1] .Z,
      .cond [1, 0] 3 (.kron gX gH) [1, 0], .reset 0, .barrier [0, 1]]⟩ = some true := wit_agree_bell

/-- `CU3(0, π/2, 0)` is exported as `cu3(0, pi/2, 0)`: exactly the controlled `U3` under the corrected body of
`qelib1.inc` (the reading of `Spec/OQ2.lean`) -/
theorem pos_cu3_exact :
    (libMeaning (α := Q8) (P := QPi) libTable "CU3" [.direct (ang 0), .direct (ang (1/2)), .direct (ang 0)]).map
      (fun M => phaseEq8 M (Spec.specMatrix (.C (.U3 (ang 0) (ang (1/2)) (ang 0)) : GateTerm QPi))) = some true :=
  wit_cu3_ok

/-- REMARK about the historical library file — not a witness of a defect of the exporter: the body of `cu3` as
first printed with the OpenQASM 2.0 specification (`originalCu3Body`, without `u1((lambda+phi)/2) c;`) is not the
controlled `U3(0, π/2, 0)` up to a global phase. -/
theorem remark_original_cu3_body :
    (seqMatrix (α := Q8) (P := QPi) 2 (originalCu3Body (ang 0) (ang (1/2)) (ang 0))).map
      (fun M => phaseEq8 M (Spec.specMatrix (.C (.U3 (ang 0) (ang (1/2)) (ang 0)) : GateTerm QPi))) = some false :=
  remark_original_cu3

end Q1t.Props.C11

import Q1t.Model.Square
import Q1t.Spec.Square
import Q1t.Proofs.SquareSpec
import Q1t.Proofs.AmpComplex
/-!
# C16 — a gate's square is the gate applied twice

Property theorems only.  `Gate.square` (`Q1t/Model/Square.lean`) is the executable model of every
`impl Square` of `src/gates/*.rs`, one clause per impl (tied to the code by the correspondence run
of `tools/check.py C16`).  Terms carry `Param V` parameters (`Direct | Reference | FFIRef`); `ev s g`
is the term denoted under the store `s`.  `Spec.sqOK g g2`: `matrix g2 = matrix g · matrix g`;
`Spec.sqPhaseBy c g g2`: `c·c̄ = 1 ∧ matrix g2 = c · (matrix g · matrix g)`; `sqPhase`: for some `c`.

The general theorems hold for every commutative ring `α` with `Amp α V` satisfying `LawfulAmp`
(`Q1t/Proofs/AmpLaws.lean`), `LawfulHalf` (`(φ+λ)/2 = φ/2+λ/2`, `λ/2+λ/2 = λ` under cos/sin) and
`LawfulSq` (`(2x)/2 = x`, `2x = x+x`, `(λ+φ−π)/2 = (φ+λ)/2 − π/2`, `cos(x−π/2) = sin x`,
`sin(x−π/2) = −cos x` — the `f64` arithmetic of the impls), for ALL parameter values; ℂ with the
real cosine and sine is such a model (`complex_is_model`).

`ExactInv g g2` / `PhaseInv g g2` (Proofs/SquareTerm.lean): `nrBits g2 = nrBits g`, both matrices
are well-formed `2^k × 2^k` tables, and `sqOK g g2` / `sqPhase g g2`.
-/
namespace Q1t.Props.C16
open Q1t Q1t.Gate Q1t.Spec Q1t.LMat Q1t.Proofs.Unitaries Q1t.Proofs.Square ParamArith

section general
variable {α V : Type} [CommRing α] [Amp α V] [ParamArith V]

/-- Every primitive except `U2` (H X Y Z S Sdg T Tdg V Vdg I RX RY RZ U1 CX CY CZ Swap; `U3` never
returns): whenever `square()` returns a gate, its matrix is exactly the original's squared, for all
parameter values and under every store. -/
theorem square_exact_prim (h : LawfulAmp α V) (hh : LawfulHalf α V) (hs : LawfulSq α V) (s : Store V)
    (g g2 : GateTerm (Param V)) (hp : IsPrim g) (hu : ∀ p l, g ≠ .U2 p l) (hsq : square g = .ok g2) :
    sqOK (α := α) (ev s g) (ev s g2) :=
  square_prim_exact h hh hs s g g2 hp hu hsq

/-- `U2(φ,λ).square() = U3(λ+φ−π, φ−π/2, λ−π/2)` equals `U2(φ,λ)²` up to the explicit global phase
`i·e^{-i(φ+λ)/2} = e^{-i(φ+λ-π)/2}` (and only up to it, see `cu2_square_wrong`). -/
theorem u2_square_phase (h : LawfulAmp α V) (hh : LawfulHalf α V) (hs : LawfulSq α V) (p l : V) :
    square (.U2 (.direct p) (.direct l)) =
      .ok (.U3 (.direct (u2theta p l)) (.direct (subHalfPi p)) (.direct (subHalfPi l))) ∧
    sqPhaseBy (α := α) (u2Phase p l) (.U2 p l) (.U3 (u2theta p l) (subHalfPi p) (subHalfPi l)) :=
  ⟨rfl, sq_u2 h hh hs p l⟩

omit [ParamArith V] in
/-- Exactness is preserved by `C`, `Kron` and `Loop` (the last given the C04 corollary
`matrix (Loop … k …) = (matrix body)^k`, hypothesis `LoopOK`); equality up to a global phase is
preserved by `Kron` (phases multiply) and `Loop`, but under `C` only exactness carries over. -/
theorem square_term (h : LawfulAmp α V) {g g2 g0 g1 a b : GateTerm V} :
    (ExactInv (α := α) g g2 → ExactInv (α := α) (.C g) (.C g2)) ∧
    (ExactInv (α := α) g0 a → ExactInv (α := α) g1 b → ExactInv (α := α) (.Kron g0 g1) (.Kron a b)) ∧
    (PhaseInv (α := α) g0 a → PhaseInv (α := α) g1 b → PhaseInv (α := α) (.Kron g0 g1) (.Kron a b)) ∧
    (∀ (label nm : String) (n : Nat) (body : OpList V) (k : Nat), LoopOK (α := α) label nm n body →
      ExactInv (α := α) (.Loop label k nm n body) (.Loop label (2 * k) nm n body)) ∧
    (ExactInv (α := α) g g2 → PhaseInv (α := α) g g2) :=
  ⟨exact_C, exact_Kron, phase_Kron h, fun _ _ _ _ k hl => exact_Loop k hl, phase_of_exact h⟩

/- Full statement of the property:
     ∀ g g2 s, square g = .ok g2 → sqPhase (ev s g) (ev s g2)
   It is FALSE on the pinned code (D7, `cu2_square_wrong`).  Proved: all terms in which no `U2` sits
   below a `C` (and exactly, not only up to a phase, when there is no `U2` at all); the loops of the
   term must satisfy the C04 corollary (`LoopsOK`, discharged by Q1t/Props/C04.lean for well-placed
   bodies). -/
theorem square_spec_partial (h : LawfulAmp α V) (hh : LawfulHalf α V) (hs : LawfulSq α V)
    (s : Store V) (g g2 : GateTerm (Param V)) (hsq : square g = .ok g2) (hl : LoopsOK α s g) :
    (U2Free g → nrBits (ev s g2) = nrBits (ev s g) ∧ sqOK (α := α) (ev s g) (ev s g2)) ∧
    (NoU2UnderC g → nrBits (ev s g2) = nrBits (ev s g) ∧ sqPhase (α := α) (ev s g) (ev s g2)) :=
  ⟨fun hf => let e := (square_inv h hh hs s g g2 hsq hl).1 hf; ⟨e.1, e.2.2.2⟩,
   fun hf => let e := (square_inv h hh hs s g g2 hsq hl).2 hf; ⟨e.1, e.2.2.2⟩⟩

/-- D7, scheme: the gate returned by `C(U2(φ,λ)).square()` is NOT `C(U2(φ,λ))` applied twice, not
even up to a global phase, whenever `i·e^{-i(φ+λ)/2} ≠ 1`. -/
theorem cu2_square_wrong_of_phase (h : LawfulAmp α V) (hh : LawfulHalf α V) (hs : LawfulSq α V)
    (p l : V) (hne : (u2Phase p l : α) ≠ 1) :
    square (.C (.U2 (.direct p) (.direct l))) =
      .ok (.C (.U3 (.direct (u2theta p l)) (.direct (subHalfPi p)) (.direct (subHalfPi l)))) ∧
    ¬ sqPhase (α := α) (.C (.U2 p l)) (.C (.U3 (u2theta p l) (subHalfPi p) (subHalfPi l))) :=
  ⟨rfl, fun hp => hne (cu2_phase_one h hh hs p l hp)⟩

/-- A `Reference`/`FFIRef` parameter is never frozen: the parametrised primitives refuse it with
`ReferenceArithmetic`; `C` forwards that error, `Kron` turns it into `OpNotImplemented`; and
whenever `square` succeeds, no parameter outside loop bodies was a reference (loop bodies are kept
unchanged, so their references stay live: `square_loop_keeps_body`). -/
theorem square_reference_refused (p q : Param V) (hp : p.isDirect = false) (g g' g2 : GateTerm (Param V)) :
    (square (.RX p) = .error .referenceArithmetic ∧ square (.RY p) = .error .referenceArithmetic ∧
     square (.RZ p) = .error .referenceArithmetic ∧ square (.U1 p) = .error .referenceArithmetic ∧
     square (.U2 p q) = .error .referenceArithmetic ∧ square (.U2 q p) = .error .referenceArithmetic) ∧
    (∀ e, square g = .error e → square (.C g) = .error e) ∧
    (∀ e, square g = .error e → e ≠ .noImpl → square g' ≠ .error .noImpl →
      square (.Kron g g') = .error .opNotImplemented ∧ square (.Kron g' g) = .error .opNotImplemented) ∧
    (square g = .ok g2 → refFree g) :=
  ⟨square_ref_prims p q hp, fun e he => (square_wrappers_err g g' e he).1,
   fun e he => (square_wrappers_err g g' e he).2, square_ok_refFree g g2⟩

theorem square_loop_keeps_body (label nm : String) (k n : Nat) (body : OpList (Param V)) :
    square (.Loop label k nm n body) = .ok (.Loop label (2 * k) nm n body) := rfl

/-- `U3` has no closed form: the trait's default `OpNotImplemented`.  `Composite` (and every wrapper
around it) has no `impl Square` at all. -/
theorem square_unimplemented (θ φ l : Param V) (nm : String) (n : Nat) (ops : OpList (Param V))
    (g : GateTerm (Param V)) :
    square (.U3 θ φ l) = .error .opNotImplemented ∧
    square (.Composite nm n ops) = .error .noImpl ∧
    square (.C (.Composite nm n ops)) = .error .noImpl ∧
    square (.Kron (.Composite nm n ops) g) = .error .noImpl ∧
    square (.Kron g (.Composite nm n ops)) = .error .noImpl :=
  square_unimpl θ φ l nm n ops g

end general

/-! ## the complex numbers are a model; the concrete D7 witness -/

open Q1t.AmpComplex in
/-- ℂ with `Real.cos`, `Real.sin`, `θ/2`, `2x`, `λ+φ−π`, `x−π/2` satisfies all the laws assumed above. -/
theorem complex_is_model : LawfulAmp ℂ ℝ ∧ LawfulHalf ℂ ℝ ∧ LawfulSq ℂ ℝ :=
  ⟨lawful, lawfulHalf, lawfulSq⟩

open Q1t.AmpComplex in
/-- D7, concrete: over ℂ, `CU2(0,0).square()` returns `C(U3(−π, −π/2, −π/2))`, which is not
`CU2(0,0)` applied twice up to any global phase. -/
theorem cu2_square_wrong :
    square (.C (.U2 (.direct (0 : ℝ)) (.direct 0))) =
      .ok (.C (.U3 (.direct (0 + 0 - Real.pi)) (.direct (0 - Real.pi / 2)) (.direct (0 - Real.pi / 2)))) ∧
    ¬ sqPhase (α := ℂ) (.C (.U2 (0 : ℝ) 0)) (.C (.U3 (0 + 0 - Real.pi) (0 - Real.pi / 2) (0 - Real.pi / 2))) :=
  cu2_square_wrong_of_phase lawful lawfulHalf lawfulSq 0 0 u2Phase_zero_ne_one

/-! ## non-vacuity -/

example : square (.C (.C (.RY (.direct (1.5 : Float))))) = .ok (.C (.C (.RY (.direct (2.0 * 1.5))))) := rfl
example : square (.Kron (.RX (.reference 3)) .X : GateTerm (Param Float)) = .error .opNotImplemented := rfl
example : square (.C (.RX (.ffiRef 0)) : GateTerm (Param Float)) = .error .referenceArithmetic := rfl
example : U2Free (.C (.Kron .S (.RZ (.direct (0 : ℝ)))) : GateTerm (Param ℝ)) := ⟨trivial, trivial⟩
example : ¬ NoU2UnderC (.C (.U2 (.direct (0 : ℝ)) (.direct 0)) : GateTerm (Param ℝ)) := id
example : NoU2UnderC (.Kron (.U2 (.direct (0 : ℝ)) (.direct 0)) .CX : GateTerm (Param ℝ)) := ⟨trivial, trivial⟩

end Q1t.Props.C16

import Q1t.Model.Square
import Q1t.Spec.Square
/-! # C16 — placeholder while the proofs are being written -/
namespace Q1t.Props.C16
theorem placeholder : True := trivial
end Q1t.Props.C16

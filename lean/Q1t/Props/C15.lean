import Q1t.Model.FromStringTables
import Q1t.Spec.FromString
import Q1t.Spec.Unitaries
import Q1t.Proofs.FromStringAssembled
import Q1t.Proofs.FromStringAst
/-!
# C15 — composite descriptions build exactly the described gate sequence

Property theorems only.  Statements are about the executable model `Q1t.FromString` of `Composite::from_string`
and its helpers (`src/gates/composite.rs`; tied to the code by the correspondence run of `tools/check.py C15` and by
the tables `Q1t.Gen.FromString` re-extracted from the sources on every run: dispatch arms, pattern strings, the `\d`
class and the case-folding orbit of the regex engine) and about the reference `Q1t.Spec.FromString`
(`documentedTable`, `docGate`; `PartL` = one sub-gate description with its layout — name as written, argument
expressions as concrete syntax trees `Cst` of C14, qubit indices as written —, `renderDesc` = the text,
`expectedOps`/`maxIndex` = the gate list and the highest index it denotes).  `genTables` are the regenerated tables;
`interpOf I` is the interpretation of the expression grammar induced by an interpretation `I` of the float
operations (C14).  Proofs are in `Q1t/Proofs/FromString*.lean`.
-/
namespace Q1t.Props.C15
open Q1t Q1t.FromString Q1t.Spec.FromString
open Q1t.Expr (FloatOps)
open Q1t.Spec.ExprGrammar (Cst Conv Stops allDigits)
open Q1t.Proofs.Expr (interpOf headNB)
open Q1t.Proofs.FromString (errOf okShape unitOps joinSemi optTail restG PartA ArgA)

/-! ## (0) the tables of the source -/

/-- The `match` arms of `from_string` (name ↦ gate struct, `nr_args`, `nr_bits`, order of `gate.args[i]`) are the
documented table.  About the table re-extracted from `src/gates/composite.rs` on this run. -/
theorem dispatch_table_eq : Q1t.Gen.fromStringTable = documentedTable :=
  Q1t.Proofs.FromString.gen_dispatch_documented

/-- The string literals of the arms are pairwise distinct, so the `match` is a lookup table: the order of its arms in the
source is semantically irrelevant (the generator emits them sorted by literal, which is what makes `dispatch_table_eq`
independent of that order without weakening it). -/
theorem dispatch_keys_distinct : (Q1t.Gen.fromStringTable.map (·.1)).Nodup :=
  Q1t.Proofs.FromString.gen_keys_distinct

/-- The regular expressions of `parse_gate_name/args/bits` are, character for character, the modelled ones. -/
theorem patterns_as_modelled : Q1t.Gen.fromStringPatterns = modelledPatterns := by decide +kernel

/-- What the theorems use of the Unicode tables of the regex engine (`\d`, case folding of `[a-z]`), and the
well-formedness of the dispatch arms (known struct, right number of constructor arguments, `gate.args[i]` only below
the asserted number of arguments). -/
theorem tables_ok : Q1t.Proofs.FromString.TabOK genTables ∧ Q1t.Proofs.FromString.TableWF genTables :=
  ⟨Q1t.Proofs.FromString.gen_tabOK, Q1t.Proofs.FromString.gen_tableWF⟩

/-! ## (1) totality -/

/-- ∀ text, ∀ interpretation of the float operations: `from_string` ends in a gate or in a `ParseError`. -/
theorem from_string_total {F : Type} (I : FloatOps F) (name : String) (desc : List Char) :
    (∃ g, fromString I genTables name desc = .ok g) ∨ (∃ e, fromString I genTables name desc = .err e) :=
  Q1t.Proofs.FromString.fromString_total I Q1t.Proofs.FromString.gen_tableWF name desc

/-- No text reaches a panic site of the model (`max().unwrap()`, `gate.args[i]`, a slice, `Expression::parse`) or
exhausts a loop budget (every loop of the parser consumes input). -/
theorem from_string_never_panics {F : Type} (I : FloatOps F) (name : String) (desc : List Char) :
    (∀ site, fromString I genTables name desc ≠ .panic site) ∧ fromString I genTables name desc ≠ .fuel := by
  have h := Q1t.Proofs.FromString.fromString_fine I Q1t.Proofs.FromString.gen_tableWF name desc
  constructor
  · intro site e; rw [e] at h; exact h
  · intro e; rw [e] at h; exact h

/-! ## (2) round trip -/

/- Full statement wanted (property C15): for every non-empty list of sub-gate descriptions — documented name in any
letter case, as many argument expressions (any well-formed `Ast`, any conventional layout) and qubit indices as
documented, any layout — `from_string (render …)` is the composite on `max index + 1` qubits of exactly the
documented gates with the conventional values of the arguments on those qubits in that order.  The pinned code
violates it for an argument that contains an integer literal ≥ 2^64 (`U1(18446744073709551616) 0` is rejected:
finding C14-int-literal-overflow / C15-arg-int-literal-overflow, witness below), so the theorem carries the decidable
hypothesis `bigInt = false`.  Indices are below `usize::MAX` (an index of `usize::MAX` has no width, see
`from_string_error_index_overflow`). -/

/-- ∀ interpretation `I` (negation involutive, as for C14), ∀ composite name, ∀ non-empty list of parts with
well-formed layout (`PartL.WF`: Unicode blanks anywhere between tokens, redundant parentheses in arguments, leading
zeros in indices, at least one blank between two indices and between a name and a directly following index),
documented name in any letter case with the documented numbers of parameters and qubits (`Matches`), no integer
literal ≥ 2^64, indices < 2^64 - 1: the result is `Composite name (maxIndex + 1) ops` with `ops` = the documented
gates (`docGate`) with the conventional argument values on the listed qubits, in order. -/
theorem from_string_render_partial {F : Type} (I : FloatOps F) (hneg : ∀ x, I.neg (I.neg x) = x) (name : String)
    (ps : List PartL) (hne : ps ≠ [])
    (h : ∀ p ∈ ps, p.WF = true ∧ p.Matches = true ∧ p.bigInt = false ∧ ∀ b ∈ p.bits, b.val + 1 < 2 ^ 64) :
    ∃ ops, expectedOps (interpOf I) ps = some ops ∧
      fromString I genTables name (renderDesc ps) = .ok (.Composite name (maxIndex ps + 1) ops) :=
  Q1t.Proofs.FromString.render_gen I hneg name ps hne h

/-- The same for arguments given as abstract syntax trees: ∀ `Ast` with well-formed tokens, ∀ layout of C14's
conventional renderer (`layOut`: minimal parentheses, blanks and redundant parentheses from the `Layout`), the part
`p.toL` has the rendered arguments; the parameters of the resulting gates are the conventional values of the trees. -/
theorem from_string_render_ast_partial {F : Type} (I : FloatOps F) (hneg : ∀ x, I.neg (I.neg x) = x) (name : String)
    (ps : List PartA) (hne : ps ≠ [])
    (h : ∀ p ∈ ps, p.OK ∧ p.toL.Matches = true ∧ ∀ b ∈ p.bits, b.val + 1 < 2 ^ 64) :
    (∃ ops, expectedOps (interpOf I) (ps.map PartA.toL) = some ops ∧
      fromString I genTables name (renderDesc (ps.map PartA.toL)) =
        .ok (.Composite name (maxIndex (ps.map PartA.toL) + 1) ops)) ∧
    ∀ p ∈ ps, p.toL.params (interpOf I) = p.args.map (fun x => Q1t.Spec.ExprGrammar.evalConv (interpOf I) x.a) :=
  ⟨Q1t.Proofs.FromString.render_ast_gen I hneg name ps hne h,
   fun p hp => Q1t.Proofs.FromString.params_toL (interpOf I) (h p hp).1⟩

/-- … hence (documented unitary of a composite, C05) the gate acts as the ordered product of the documented
unitaries of the listed gates embedded on the listed qubits: ∀ amplitude type, ∀ gate list. -/
theorem from_string_acts_as_product {α P : Type} [Zero α] [One α] [Add α] [Mul α] [Neg α] [Sub α] [Amp α P]
    (name : String) (n : Nat) (ops : OpList P) :
    Spec.specMatrix (α := α) (.Composite name n ops) = Spec.specOps ops n (LMat.identity (2 ^ n)) := by
  simp [Spec.specMatrix]

/-! ## (3) errors, in the order the code checks -/

/-- Order.  The parts are parsed left to right before anything else happens; the first part that does not parse
decides the result: ∀ well-formed parts `ps` before it (ANY identifiers as names, any arities), ∀ offending part
`bad` (without `;`), ∀ text after it (`tail`: nothing, or `;` and any text at all). -/
theorem from_string_errors_parse_first {F : Type} (I : FloatOps F) (hneg : ∀ x, I.neg (I.neg x) = x)
    (name : String) (ps : List PartL)
    (hg : ∀ p ∈ ps, p.WF = true ∧ p.bits ≠ [] ∧ p.bigInt = false ∧ ∀ b ∈ p.bits, b.val < 2 ^ 64)
    (bad : List Char) (hb : ';' ∉ bad) (e : ParseErr) (he : parseGateDesc I genTables bad = .err e)
    (tail : Option (List Char)) :
    fromString I genTables name (joinSemi (ps.map renderPart ++ [bad]) ++ optTail tail) = .err e :=
  Q1t.Proofs.FromString.fromString_first_parse_error I hneg Q1t.Proofs.FromString.gen_tabOK name ps
    (Q1t.Proofs.FromString.good_of_wf hg) bad hb e he tail

/-- No gate name: a part that, after its blanks, is empty or starts with a character that `(?i)[a-z]` does not
match ⇒ `NoGateName(part)`. -/
theorem from_string_error_no_name {F : Type} (I : FloatOps F) (part : List Char)
    (h : ∀ c, headNB part = some c → isNameStart genTables c = false) :
    parseGateDesc I genTables part = .err (.noGateName part) :=
  Q1t.Proofs.FromString.parseGateDesc_noName I genTables part h

/-- No qubits: name and (well-formed) argument list followed by text `rest` with no index at its start (and, if
there is no argument list, not continuing the name nor opening a list) ⇒ `NoBits(name)`. -/
theorem from_string_error_no_qubits {F : Type} (I : FloatOps F) (hneg : ∀ x, I.neg (I.neg x) = x) (p : PartL)
    (hwf : p.WF = true) (hbig : p.bigInt = false) (hb : p.bits = []) (rest : List Char)
    (hr : p.args = [] → Q1t.Proofs.FromString.StopsAt (isNameChar genTables) rest ∧ headNB rest ≠ some '(')
    (hno : ((Q1t.Expr.dropWs rest).takeWhile (isDec genTables)).isEmpty = true) :
    parseGateDesc I genTables (p.w0 ++ (p.name ++ (renderArgList p ++ rest))) = .err (.noBits p.name) :=
  Q1t.Proofs.FromString.parseGateDesc_noBits I hneg Q1t.Proofs.FromString.gen_tabOK
    (Q1t.Proofs.FromString.headGood_of_wf hwf hbig hb) rest hr hno

/-- Trailing text: a well-formed part whose indices are followed by text that is not a further index and not
blank ⇒ `TrailingText(trimmed text)`. -/
theorem from_string_error_trailing_text {F : Type} (I : FloatOps F) (hneg : ∀ x, I.neg (I.neg x) = x) (p : PartL)
    (hwf : p.WF = true) (hbig : p.bigInt = false) (hne : p.bits ≠ []) (hs : ∀ b ∈ p.bits, b.val < 2 ^ 64)
    (tail : List Char) (ht : Q1t.Proofs.FromString.NoIndexAhead genTables tail) (hjunk : trim tail ≠ []) :
    parseGateDesc I genTables (p.w0 ++ (p.name ++ (renderArgList p ++ (renderBits p.bits ++ tail)))) =
      .err (.trailingText (trim tail)) :=
  Q1t.Proofs.FromString.parseGateDesc_trailing I hneg Q1t.Proofs.FromString.gen_tabOK
    (Q1t.Proofs.FromString.partGood_of_wf hwf hbig hs) hne tail ht hjunk

/-- An index that is not a `usize`: after the well-formed indices of `p` (possibly none) and blanks `w`, a run `ds`
of `\d` characters that contains a non-ASCII digit or denotes a number ≥ 2^64 ⇒ `InvalidBit(ds)`, whatever follows
the run. -/
theorem from_string_error_invalid_index {F : Type} (I : FloatOps F) (hneg : ∀ x, I.neg (I.neg x) = x) (p : PartL)
    (hwf : p.WF = true) (hbig : p.bigInt = false) (hs : ∀ b ∈ p.bits, b.val < 2 ^ 64)
    (w ds tail : List Char) (hw : allBlank w = true) (hsep : w = [] → p.bits = [] ∧ p.args ≠ [])
    (hds : ∀ c ∈ ds, isDec genTables c = true) (hne : ds ≠ []) (hnws : ∀ c ∈ ds, Q1t.Expr.isWs c = false)
    (hstop : Q1t.Proofs.FromString.StopsAt (isDec genTables) tail)
    (hbad : (ds.all DecFloat.isDigit && decide (DecFloat.digitsToNat ds < 2 ^ 64)) = false) :
    parseGateDesc I genTables
      (p.w0 ++ (p.name ++ (renderArgList p ++ (renderBits p.bits ++ (w ++ (ds ++ tail)))))) = .err (.invalidBit ds) :=
  Q1t.Proofs.FromString.parseGateDesc_invalidBit I hneg Q1t.Proofs.FromString.gen_tabOK
    (Q1t.Proofs.FromString.partGood_of_wf hwf hbig hs) w ds tail (Q1t.Proofs.FromString.isBlank_of_all hw) hsep hds hne
    hnws hstop hbad

/-- Unbalanced parentheses (1): the argument list is not closed — after `k ≥ 1` complete arguments (`a`, `more`)
comes text `fin` that cannot continue the expression and starts (after blanks) with neither `,` nor `)`
⇒ `UnclosedParentheses(everything after the name)`. -/
theorem from_string_error_unclosed_list {F : Type} (I : FloatOps F) (hneg : ∀ x, I.neg (I.neg x) = x)
    (w0 name wOpen : List Char) (h0 : allBlank w0 = true) (hn : isIdent name = true) (ho : allBlank wOpen = true)
    (a : ArgL) (more : List ArgL)
    (hg : ∀ x ∈ a :: more, (x.c.WF && Conv x.c && allBlank x.wAfter && !x.c.bigInt) = true)
    (fin : List Char) (hf : Stops fin = true) (h1 : headNB fin ≠ some ',') (h2 : headNB fin ≠ some ')') :
    parseGateDesc I genTables (w0 ++ (name ++ (wOpen ++ '(' :: (a.c.flatten ++ restG a.wAfter more fin)))) =
      .err (.unclosedParentheses (wOpen ++ '(' :: (a.c.flatten ++ restG a.wAfter more fin))) :=
  Q1t.Proofs.FromString.parseGateDesc_unclosedList I hneg Q1t.Proofs.FromString.gen_tabOK
    (Q1t.Proofs.FromString.isBlank_of_all h0) hn (Q1t.Proofs.FromString.isBlank_of_all ho) a more
    (fun x hx => Q1t.Proofs.FromString.argGood_of (hg x hx)) fin hf h1 h2

/-- Unbalanced parentheses (2) and invalid arguments: whatever error `Expression::parse` (C14:
`parse_error_unclosed`, `parse_error_cannot_start`, `parse_error_dangling`, …) gives on the text `s` of an argument
comes through with the same constructor and payload — for the first argument, and for a later one after `k ≥ 1`
complete arguments and a comma. -/
theorem from_string_error_argument {F : Type} (I : FloatOps F) (hneg : ∀ x, I.neg (I.neg x) = x)
    (w0 name wOpen : List Char) (h0 : allBlank w0 = true) (hn : isIdent name = true) (ho : allBlank wOpen = true)
    (s : List Char) (e : Expr.ParseError) (he : Expr.parse s = .err e) :
    parseGateDesc I genTables (w0 ++ (name ++ (wOpen ++ '(' :: s))) = .err (liftExprErr e) ∧
    ∀ (a : ArgL) (more : List ArgL),
      (∀ x ∈ a :: more, (x.c.WF && Conv x.c && allBlank x.wAfter && !x.c.bigInt) = true) →
      parseGateDesc I genTables (w0 ++ (name ++ (wOpen ++ '(' :: (a.c.flatten ++ restG a.wAfter more (',' :: s))))) =
        .err (liftExprErr e) :=
  ⟨Q1t.Proofs.FromString.parseGateDesc_argError_first I Q1t.Proofs.FromString.gen_tabOK
     (Q1t.Proofs.FromString.isBlank_of_all h0) hn (Q1t.Proofs.FromString.isBlank_of_all ho) s e he,
   fun a more hg => Q1t.Proofs.FromString.parseGateDesc_argError_later I hneg Q1t.Proofs.FromString.gen_tabOK
     (Q1t.Proofs.FromString.isBlank_of_all h0) hn (Q1t.Proofs.FromString.isBlank_of_all ho) a more
     (fun x hx => Q1t.Proofs.FromString.argGood_of (hg x hx)) s e he⟩

/-- Width overflow: all parts parse (ANY identifiers, any arities) and the highest index is `usize::MAX`
⇒ `InvalidBit("18446744073709551615")`, before any name is looked up. -/
theorem from_string_error_index_overflow {F : Type} (I : FloatOps F) (hneg : ∀ x, I.neg (I.neg x) = x)
    (name : String) (ps : List PartL) (hne : ps ≠ [])
    (hg : ∀ p ∈ ps, p.WF = true ∧ p.bits ≠ [] ∧ p.bigInt = false ∧ ∀ b ∈ p.bits, b.val < 2 ^ 64)
    (hmax : 2 ^ 64 ≤ maxIndex ps + 1) :
    fromString I genTables name (renderDesc ps) = .err (.invalidBit (Nat.toDigits 10 (maxIndex ps))) :=
  Q1t.Proofs.FromString.fromString_overflow I hneg Q1t.Proofs.FromString.gen_tabOK name ps hne
    (Q1t.Proofs.FromString.good_of_wf hg) hmax

/-- Unknown name: all parts parse, the width fits, the parts before `p` are documented gates with the documented
arities, the name of `p` is not documented ⇒ `UnknownGate(name as written)` — whatever the arities of `p`,
whatever comes after `p`. -/
theorem from_string_error_unknown_name {F : Type} (I : FloatOps F) (hneg : ∀ x, I.neg (I.neg x) = x)
    (name : String) (good : List PartL) (p : PartL) (more : List PartL)
    (hg : ∀ q ∈ good ++ p :: more, q.WF = true ∧ q.bits ≠ [] ∧ q.bigInt = false ∧ ∀ b ∈ q.bits, b.val < 2 ^ 64)
    (hm : ∀ q ∈ good, q.Matches = true) (hw : maxIndex (good ++ p :: more) + 1 < 2 ^ 64)
    (hu : docArity p.key = none) :
    fromString I genTables name (renderDesc (good ++ p :: more)) = .err (.unknownGate p.name) :=
  Q1t.Proofs.FromString.fromString_dispatch_error I hneg Q1t.Proofs.FromString.gen_tabOK
    Q1t.Proofs.FromString.gen_dispatch_documented name good p more (Q1t.Proofs.FromString.good_of_wf hg) hm hw _
    (Q1t.Proofs.FromString.dispatchOne_unknown I Q1t.Proofs.FromString.gen_dispatch_documented
      ((Q1t.Proofs.FromString.good_of_wf hg) p (by simp)).1.name hu)

/-- Wrong number of parameters (checked before the number of qubits):
`InvalidNrArguments(actual, documented, name as written)`. -/
theorem from_string_error_nr_params {F : Type} (I : FloatOps F) (hneg : ∀ x, I.neg (I.neg x) = x)
    (name : String) (good : List PartL) (p : PartL) (more : List PartL)
    (hg : ∀ q ∈ good ++ p :: more, q.WF = true ∧ q.bits ≠ [] ∧ q.bigInt = false ∧ ∀ b ∈ q.bits, b.val < 2 ^ 64)
    (hm : ∀ q ∈ good, q.Matches = true) (hw : maxIndex (good ++ p :: more) + 1 < 2 ^ 64)
    (na nb : Nat) (hd : docArity p.key = some (na, nb)) (hne : na ≠ p.args.length) :
    fromString I genTables name (renderDesc (good ++ p :: more)) =
      .err (.invalidNrArguments p.args.length na p.name) :=
  Q1t.Proofs.FromString.fromString_dispatch_error I hneg Q1t.Proofs.FromString.gen_tabOK
    Q1t.Proofs.FromString.gen_dispatch_documented name good p more (Q1t.Proofs.FromString.good_of_wf hg) hm hw _
    (Q1t.Proofs.FromString.dispatchOne_nrArgs I Q1t.Proofs.FromString.gen_dispatch_documented
      ((Q1t.Proofs.FromString.good_of_wf hg) p (by simp)).1.name hd hne)

/-- Wrong number of qubits (the number of parameters being right): `InvalidNrBits(actual, documented, name)`. -/
theorem from_string_error_nr_qubits {F : Type} (I : FloatOps F) (hneg : ∀ x, I.neg (I.neg x) = x)
    (name : String) (good : List PartL) (p : PartL) (more : List PartL)
    (hg : ∀ q ∈ good ++ p :: more, q.WF = true ∧ q.bits ≠ [] ∧ q.bigInt = false ∧ ∀ b ∈ q.bits, b.val < 2 ^ 64)
    (hm : ∀ q ∈ good, q.Matches = true) (hw : maxIndex (good ++ p :: more) + 1 < 2 ^ 64)
    (nb : Nat) (hd : docArity p.key = some (p.args.length, nb)) (hne : nb ≠ p.bits.length) :
    fromString I genTables name (renderDesc (good ++ p :: more)) =
      .err (.invalidNrBits p.bits.length nb p.name) :=
  Q1t.Proofs.FromString.fromString_dispatch_error I hneg Q1t.Proofs.FromString.gen_tabOK
    Q1t.Proofs.FromString.gen_dispatch_documented name good p more (Q1t.Proofs.FromString.good_of_wf hg) hm hw _
    (Q1t.Proofs.FromString.dispatchOne_nrBits I Q1t.Proofs.FromString.gen_dispatch_documented
      ((Q1t.Proofs.FromString.good_of_wf hg) p (by simp)).1.name hd hne)

/-! ## non-vacuity, witnesses (kernel-evaluated on the model; `unitOps` = the trivial interpretation of the float
operations — errors, widths and qubit lists do not depend on it) -/

/-- The hypotheses of `from_string_render_partial` are satisfiable and its conclusion is what the kernel computes:
`cRy ( pi/2 ,)`… precisely ` cRy( pi/ 2 ) 1 0;h 02 ` is two well-formed, documented parts; width 3. -/
example :
    let arg : Cst := .bin .div (.lit [' '] .pi) [] (.lit [' '] (.int ['2']))
    let p1 : PartL := ⟨[' '], "cRy".toList, [], [⟨arg, [' ']⟩], [⟨[' '], 0, 1⟩, ⟨[' '], 0, 0⟩], []⟩
    let p2 : PartL := ⟨[], ['h'], [], [], [⟨[' '], 1, 2⟩], [' ']⟩
    (∀ p ∈ [p1, p2], p.WF = true ∧ p.Matches = true ∧ p.bigInt = false ∧ ∀ b ∈ p.bits, b.val + 1 < 2 ^ 64) ∧
    renderDesc [p1, p2] = " cRy( pi/ 2 ) 1 0;h 02 ".toList ∧ maxIndex [p1, p2] = 2 ∧
    okShape (fromString unitOps genTables "G" (renderDesc [p1, p2])) = some (3, [[1, 0], [2]]) := by
  decide +kernel

/-- The test of the crate: `CCX 2 1 0; CX 2 1; X 2` is three gates on 3 qubits. -/
example : okShape (fromString unitOps genTables "Inc3" "CCX 2 1 0; CX 2 1; X 2".toList) =
    some (3, [[2, 1, 0], [2, 1], [2]]) := by decide +kernel

/-- The error theorems are not vacuous: one description per class, in the order of the checks. -/
example :
    errOf (fromString unitOps genTables "G" "H 0; 0".toList) = some (.noGateName " 0".toList) ∧
    errOf (fromString unitOps genTables "G" "H 0;".toList) = some (.noGateName []) ∧
    errOf (fromString unitOps genTables "G" "RX(abc) 1".toList) = some (.invalidArgument "abc) 1".toList) ∧
    errOf (fromString unitOps genTables "G" "RX(1.2*(1+2 1".toList) = some (.unclosedParentheses "(1+2 1".toList) ∧
    errOf (fromString unitOps genTables "G" "RX(1.2 1".toList) = some (.unclosedParentheses "(1.2 1".toList) ∧
    errOf (fromString unitOps genTables "G" "H 0; X".toList) = some (.noBits ['X']) ∧
    errOf (fromString unitOps genTables "G" "H 117356715625188271521875".toList) =
      some (.invalidBit "117356715625188271521875".toList) ∧
    errOf (fromString unitOps genTables "G" "H 0 and something".toList) = some (.trailingText "and something".toList) ∧
    errOf (fromString unitOps genTables "G" "foo 18446744073709551615".toList) =
      some (.invalidBit "18446744073709551615".toList) ∧
    errOf (fromString unitOps genTables "G" "XYZ 0".toList) = some (.unknownGate "XYZ".toList) ∧
    errOf (fromString unitOps genTables "G" "RX(1.2, 3.4) 1 2".toList) = some (.invalidNrArguments 2 1 "RX".toList) ∧
    errOf (fromString unitOps genTables "G" "H 0 1".toList) = some (.invalidNrBits 2 1 ['H']) ∧
    -- order: a part that does not parse beats an unknown name before it; the width beats the names
    errOf (fromString unitOps genTables "G" "foo 0; H".toList) = some (.noBits ['H']) ∧
    errOf (fromString unitOps genTables "G" "foo 0; bar 1".toList) = some (.unknownGate "foo".toList) := by
  decide +kernel

/-- Recorded behaviour (not a finding): the second example in the doc comment of `from_string` ends in `X1`, which is a
name without qubits — digits glued to a name belong to the name (`U1`, `U2`, `U3` need that) — so, as the property
demands for a part without qubits, it is rejected with `NoBits("X1")`; the example is a typo of `X 1`, which is accepted.
The first example of the doc comment is accepted. -/
theorem doc_example_rejected :
    okShape (fromString unitOps genTables "G" "H 1; CX 0 1; H 1".toList) = some (2, [[1], [0, 1], [1]]) ∧
    errOf (fromString unitOps genTables "G" "RY(4.7124) 1; CX 1 0; RY(1.5708) 1; X1".toList) =
      some (.noBits "X1".toList) ∧
    okShape (fromString unitOps genTables "G" "RY(4.7124) 1; CX 1 0; RY(1.5708) 1; X 1".toList) =
      some (2, [[1], [1, 0], [1], [1]]) := by
  decide +kernel

/-- Negative witness for the finding `C15-arg-int-literal-overflow` (C14-int-literal-overflow seen through
`from_string`): the part is well formed and documented, only `bigInt` fails; it is rejected; with a trailing `.` the
same digits are accepted. -/
theorem arg_int_literal_overflow_rejected :
    let p : PartL := ⟨[], "U1".toList, [], [⟨.lit [] (.int "18446744073709551616".toList), []⟩], [⟨[' '], 0, 0⟩], []⟩
    p.WF = true ∧ p.Matches = true ∧ p.bigInt = true ∧
    renderDesc [p] = "U1(18446744073709551616) 0".toList ∧
    errOf (fromString unitOps genTables "G" (renderDesc [p])) =
      some (.invalidArgument "18446744073709551616) 0".toList) ∧
    okShape (fromString unitOps genTables "G" "U1(18446744073709551616.) 0".toList) = some (1, [[0]]) := by
  decide +kernel

/-- Recorded behaviour: digits glued to a name belong to the name; Unicode decimal digits match `\d` and are then
refused; `usize::MAX - 1` is an index (width `usize::MAX`); the characters `ſ` and `K` (Kelvin sign) match `(?i)[a-z]`
but are no gate names; a sub-gate on a repeated qubit (`CX 0 0`) is accepted — `from_string` does not look at it. -/
theorem recorded_behaviour :
    errOf (fromString unitOps genTables "G" "H0".toList) = some (.noBits "H0".toList) ∧
    errOf (fromString unitOps genTables "G" "h ٣".toList) = some (.invalidBit "٣".toList) ∧
    okShape (fromString unitOps genTables "G" "H 18446744073709551614".toList) =
      some (18446744073709551615, [[18446744073709551614]]) ∧
    errOf (fromString unitOps genTables "G" "ſ 0".toList) = some (.unknownGate "ſ".toList) ∧
    errOf (fromString unitOps genTables "G" "K 0".toList) = some (.unknownGate "K".toList) ∧
    okShape (fromString unitOps genTables "G" "CX 0 0".toList) = some (1, [[0, 0]]) := by
  decide +kernel

end Q1t.Props.C15

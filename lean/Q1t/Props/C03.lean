import Q1t.Proofs.PauliPhase
namespace Q1t.Props.C03
open Q1t Q1t.Tableau Q1t.Spec.Pauli Q1t.Proofs.Tableau

theorem phase_table_correct : PhaseTableCorrect Q1t.Gen.phaseTable := phaseTable_correct

end Q1t.Props.C03

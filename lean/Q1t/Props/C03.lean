import Q1t.Proofs.PauliPhase
import Q1t.Proofs.PauliAct
import Q1t.Proofs.TableauRow
import Q1t.Proofs.TableauStab
import Q1t.Proofs.TableauNormalize
import Q1t.Proofs.TableauMeasure
import Q1t.Proofs.TableauTables
import Q1t.Proofs.TableauBits
import Q1t.Proofs.TableauFinite
import Q1t.Proofs.TableauWitness
import Q1t.Proofs.TableauContractQ8
import Q1t.Proofs.TableauDetShape
import Q1t.Proofs.TableauProgress
import Q1t.Proofs.DetShapeAll
import Q1t.Proofs.EqualStatesAll
/-!
# C03 — stabilizer tableau semantics equal state-vector semantics

Property theorems only; proofs are in `Q1t/Proofs/{PauliPhase,PauliAct,TableauRow,TableauStab,TableauTables,
TableauFiniteK,TableauFinite,TableauWitness}.lean`.

All statements are about the executable model `Q1t.Tableau` of `src/stabilizer/tableau.rs` (tied to the
code by the correspondence run of `tools/check.py C03`), with the phase table and the conjugation tables
*regenerated from /repo's source* (`Q1t.Gen.phaseTable`, `Q1t.Gen.conjTable`).  The reference semantics is
`Q1t.Spec.Pauli` / `Q1t.Spec.Stab`: Pauli matrices and state vectors over the exact ring ℤ[ζ₈].

Two kinds of statements, kept apart:

* **general** (all `n`, all tableaux, all vectors): phase table, `multiply_row`, the group action law,
  preservation of the stabilized vectors by the row operations, absence of the assertion failure;
* **FINITE** (suffix `_n2`): kernel-checked for *all stabilizer states of 1 and 2 qubits* (6 and 60 states,
  the closure of `|0…0⟩` under H, S, CX).  They are not claims about `n ≥ 3`; there the same checks are run
  by compiled code on the real implementation for all 1080 (quick) / 36720 (thorough) states.

Not proved for general `n` (see the final section): uniqueness of the canonical form, the classification
"non-deterministic ⇒ 50/50", `apply_gate` on arbitrary placements.
-/
namespace Q1t.Props.C03
open Q1t Q1t.Tableau Q1t.Spec.Pauli Q1t.Spec.Stab Q1t.Spec.StabEnum Q1t.Proofs.Tableau

/-! ## generated tables -/

/-- **The phase table of `multiply_row` is right**: for all 16 pairs of Pauli operators,
`σ_a σ_b = i^{PHASE_FACTORS[4a+b]} σ_{a xor b}` as 2×2 matrices over ℤ[ζ₈], and every entry is `< 4`.
(The 16 cases are the whole quantifier; re-proved whenever the table in /repo changes.  This failed on the
pinned tree — defect D1, fixed in 28c7317.) -/
theorem phase_table_correct :
    ∀ a b : P, sigma a * sigma b = (sigma (P.xor a b)).smulIPow (Tab.phaseAt Q1t.Gen.phaseTable a b) ∧
      Tab.phaseAt Q1t.Gen.phaseTable a b < 4 :=
  phaseTable_correct

/-- The `conjugate` rules of the 13 library stabilizer gates, as extracted from /repo, are the expected
ones (`entryK`, a literal copy used by the kernel evaluations below): the model's look-up by name in the
generated table yields exactly them. -/
theorem conj_tables_as_expected (g : SGate) : conjFor g.name = conjK g ∧ params = paramsK :=
  ⟨conjFor_eq g, params_eq⟩

/-! ## general theorems (all `n`) -/

/-- **Group action law** for the reference semantics, all `n`: the product of two phased Pauli strings acts
on every vector of `2^n` entries as the composition of the two actions. -/
theorem pauli_mul_act (p q : PStr) (v : Vec) (h : p.ops.length = q.ops.length) (hv : v.length = 2 ^ p.ops.length) :
    (p.mul q).act v = p.act (q.act v) :=
  pstr_mul_act p q v h hv

/-- Two rows either commute or anticommute, and which one is decided by the parity of the accumulated
phase exponent. -/
theorem commute_dichotomy (r0 r1 : List P) :
    (Commutes r0 r1 ∨ Anticommutes r0 r1) ∧ (Commutes r0 r1 ↔ phaseSum r0 r1 % 2 = 0) ∧
    (Anticommutes r0 r1 ↔ phaseSum r0 r1 % 2 = 1) :=
  ⟨commutes_or_anticommutes r0 r1, commutes_iff r0 r1, anticommutes_iff r0 r1⟩

/-- **`multiply_row` computes the signed Pauli-group product, all `n`.**  For any tableau, any two rows
`i0`, `i1` that exist (signs `s0`, `s1`, operators `r0`, `r1` of any length):
if the rows commute, `multiply_row(i0, i1)` returns, row `i0` (sign included) denotes exactly
`(±r0)·(±r1)` in the Pauli group of the reference semantics, and nothing else changes; the assertion
`i_pow == 0 || i_pow == 2` is never tripped. -/
theorem multiply_row_spec (t : Tab) (i0 i1 : Nat) (r0 r1 : List P) (s0 s1 : Bool)
    (hr0 : t.rows[i0]? = some r0) (hr1 : t.rows[i1]? = some r1)
    (hs0 : t.signs[i0]? = some s0) (hs1 : t.signs[i1]? = some s1) (hc : Commutes r0 r1) :
    let g := (rowStr s0 r0).mul (rowStr s1 r1)
    t.multiplyRow Q1t.Gen.phaseTable i0 i1 =
      .ok { t with rows := t.rows.set i0 g.ops, signs := t.signs.set i0 (g.phase == 2) } ∧
    rowStr (g.phase == 2) g.ops = g :=
  (multiplyRow_spec phaseTable_correct t i0 i1 r0 r1 s0 s1 hr0 hr1 hs0 hs1).1 hc

/-- ... and it trips the assertion exactly when the two rows anticommute. -/
theorem multiply_row_panics_iff_anticommute (t : Tab) (i0 i1 : Nat) (r0 r1 : List P) (s0 s1 : Bool)
    (hr0 : t.rows[i0]? = some r0) (hr1 : t.rows[i1]? = some r1)
    (hs0 : t.signs[i0]? = some s0) (hs1 : t.signs[i1]? = some s1) :
    t.multiplyRow Q1t.Gen.phaseTable i0 i1 = .panic .assertIPow ↔ Anticommutes r0 r1 := by
  have sp := multiplyRow_spec phaseTable_correct t i0 i1 r0 r1 s0 s1 hr0 hr1 hs0 hs1
  refine ⟨fun h => ?_, sp.2⟩
  rcases commutes_or_anticommutes r0 r1 with hc | ha
  · rw [(sp.1 hc).1] at h; cases h
  · exact ha

/-- **No assertion failure on a stabilizer tableau, all `n`**: if the tableau stabilizes some non-zero
vector, `multiply_row` returns for every pair of rows in range (in particular inside `normalize`,
`collapse`). -/
theorem multiply_row_no_assert_of_stabilizes (t : Tab) (ψ : Vec) (hst : Stabilizes t ψ)
    (hnz : Vec.isZero ψ = false) (i0 i1 : Nat) (hi0 : i0 < t.n) (hi1 : i1 < t.n) :
    ∃ t', t.multiplyRow Q1t.Gen.phaseTable i0 i1 = .ok t' :=
  multiplyRow_no_assert phaseTable_correct t ψ hst hnz i0 i1 hi0 hi1

/-- **Row operations preserve the stabilizer group, all `n`**: a returning `swap_rows(a, b)` and a
returning `multiply_row(i0, i1)` with `i0 ≠ i1` on a well-shaped tableau leave the set of stabilized
vectors (hence the generated group) unchanged. -/
theorem row_ops_preserve_group (t t' : Tab) :
    (∀ a b, t.swapRows a b = .ok t' → ∀ ψ, Stabilizes t' ψ ↔ Stabilizes t ψ) ∧
    (∀ i0 i1, t.WF → i0 ≠ i1 → t.multiplyRow Q1t.Gen.phaseTable i0 i1 = .ok t' →
      ∀ ψ, Stabilizes t' ψ ↔ Stabilizes t ψ) :=
  ⟨fun a b h => (swapRows_sameGroup t t' a b h).1,
   fun i0 i1 hwf hne h => (multiplyRow_sameGroup phaseTable_correct t t' i0 i1 hwf hne h).1⟩

/-- **`normalize` is sound, all `n`**: on any tableau that stabilizes a non-zero vector, `normalize`
returns — the assertion of `multiply_row` is never tripped and no row/column index leaves `0..n` — keeps
`n`, and its result stabilizes exactly the same vectors (the stabilizer group is unchanged).
(That the result is in reduced echelon form and that `normalize` is idempotent is checked for `n ≤ 2`
below and by the correspondence run for larger `n`; not proved in general.) -/
theorem normalize_sound (t : Tab) (ψ : Vec) (hst : Stabilizes t ψ) (hnz : Vec.isZero ψ = false) :
    ∃ t', t.normalize Q1t.Gen.phaseTable = .ok t' ∧ t'.n = t.n ∧ ∀ φ, Stabilizes t' φ ↔ Stabilizes t φ :=
  normalize_ok phaseTable_correct t ψ hst hnz

/-- **Deterministic outcomes have the right value, all `n` — partial.**
Full statement (not proved for general `n`): *if `measure(q)` reports `Deterministic(b)` on the canonical
tableau of `ψ`, then `ψ` has no weight on outcome `¬b`; otherwise both outcomes have weight ½.*
`measure` reports the sign of the last row with `Z` in column `q` when no row has `X`/`Y` there.  Proved
here, for all `n`, all tableaux and all vectors: whenever a row is exactly `±Z_q` (as it is in canonical
form — that structural half, and the 50/50 half, are kernel-checked for `n ≤ 2` in
`exhaustive_measure_n2` and checked by the correspondence run beyond), the sign of that row *is* the
certain outcome: the projection of `ψ` on "qubit `q` = ¬sign" is the zero vector. -/
theorem measure_deterministic_sound_partial (t : Tab) (ψ : Vec) (hst : Stabilizes t ψ) (q : Nat) (hq : q < t.n)
    (i : Nat) (s : Bool) (hs : t.signs[i]? = some s)
    (hr : t.rows[i]? = some ((List.range t.n).map fun j => if j = q then P.Z else P.I)) :
    Vec.isZero (proj t.n q (!s) ψ) = true :=
  zRow_pins_outcome t ψ hst q hq i s hs hr

/-! ## the `u64` packing (all `n`) -/

/-- **Frame law of the bit packing, cells, all `n`**: after a successful `set_bits(i, j, op)` on the packed
words (`idx = 2(i·n + j)`, word `idx >> 6`, offset `idx & 63`), `get_bits(i', j')` returns `op & 3` if
`(i', j')` has the same address and the previous value otherwise; for in-range columns "same address"
is `(i', j') = (i, j)`.  So the packed structure behaves as the `n × n` array of the row model. -/
theorem bits_get_set (t t' : Q1t.TableauBits.TabBits) (i j op i' j' : Nat)
    (h : Q1t.TableauBits.setBits t i j op = some t') :
    t'.n = t.n ∧
    Q1t.TableauBits.getBits t' i' j' =
      (if i' * t.n + j' = i * t.n + j then some (op &&& 0x03) else Q1t.TableauBits.getBits t i' j') ∧
    (j < t.n → j' < t.n → Q1t.TableauBits.getBits t' i' j' =
      if i' = i ∧ j' = j then some (op &&& 0x03) else Q1t.TableauBits.getBits t i' j') :=
  ⟨(Q1t.Proofs.TableauBits.getBits_setBits t t' i j op i' j' h).1,
   (Q1t.Proofs.TableauBits.getBits_setBits t t' i j op i' j' h).2,
   fun hj hj' => Q1t.Proofs.TableauBits.getBits_setBits_cell t t' i j op i' j' hj hj' h⟩

/-- **Frame law of the bit packing, signs, all `n`**. -/
theorem bits_sign_get_set (t t' : Q1t.TableauBits.TabBits) (i i' : Nat) (s : Bool)
    (h : Q1t.TableauBits.setSign t i s = some t') :
    Q1t.TableauBits.getSign t' i' = if i' = i then some s else Q1t.TableauBits.getSign t i' :=
  Q1t.Proofs.TableauBits.getSign_setSign t t' i i' s h

/-! ## FINITE: all stabilizer states of `n ≤ 2` qubits, kernel-checked -/

/-- number of enumerated states: 6 for one qubit, 60 for two -/
theorem enum_card : (statesOf 1).length = 6 ∧ (statesOf 2).length = 60 := card

/-- the lists are the closure of `(Tab.new n, |0…0⟩)` under H, S, CX on all placements, tableau side by the
model, vector side by the state-vector semantics -/
theorem enum_is_closure (n : Nat) (hn : n = 1 ∨ n = 2) : closure params n 50 = some (statesOf n) :=
  closure_eq n hn

/-- FINITE (n ≤ 2).  **Every library stabilizer gate on every ordered tuple of distinct qubits, on every
state**: the model returns, and its tableau is the tableau of exactly the state the state-vector semantics
produces (the pair (model tableau, canonical exact result vector) is again in the enumeration). -/
theorem exhaustive_gates_n2 (n : Nat) (tv : Pair) (h : tv ∈ statesOf n) :
    ∀ gb ∈ gateOps n, ∃ t', stepT params tv.1 gb.1 gb.2 = .ok t' ∧ (t', stepV n tv.2 gb.1 gb.2) ∈ statesOf n :=
  gates_exhaustive n tv h

/-- FINITE (n ≤ 2).  **Measurement query and collapse, every state, every qubit**: either the model
reports `Deterministic(b)` and the state vector has all its weight on outcome `b`; or the model reports
`Random(i)`, both blocks of the vector have equal non-zero norm, and `collapse(i, q, b)` for both `b`
returns the tableau of exactly the projected vector `P_b ψ`.  Nothing else occurs. -/
theorem exhaustive_measure_n2 (n : Nat) (tv : Pair) (h : tv ∈ statesOf n) (q : Nat) (hq : q < n) :
    (∃ b, tv.1.measure q = .ok (.deterministic b) ∧ measKind n q tv.2 = .certain b) ∨
    (∃ i, tv.1.measure q = .ok (.random i) ∧ measKind n q tv.2 = .fair ∧
      ∀ b : Bool, ∃ t', tv.1.collapse params.ph i q b = .ok t' ∧
        (t', Z8.canonRay (proj n q b tv.2)) ∈ statesOf n) :=
  measure_exhaustive n tv h q hq

/-- FINITE (n ≤ 2).  **Reset, partial** — the full statement would be: the model's tableau after
`reset(q)` describes the state after a correct reset.  That is false when the qubit is random *and*
entangled (D4: the correct result is a mixture, the code keeps one tableau; see
`neg_reset_entangled_forced_zero`).  Proved: the model always returns; whenever the correct result is a
pure state `w` (`resetPure`: certain qubit, or random but in a product with the rest) the tableau is the
tableau of `w`; in the excluded class the model returns the tableau of the outcome-0 branch `P₀ψ`. -/
theorem exhaustive_reset_partial_n2 (n : Nat) (tv : Pair) (h : tv ∈ statesOf n) (q : Nat) (hq : q < n) :
    ∃ t', tv.1.reset params.ph q = .ok t' ∧
      (∀ w, resetPure n q tv.2 = some w → (t', w) ∈ statesOf n) ∧
      (resetPure n q tv.2 = none → (t', Z8.canonRay (proj n q false tv.2)) ∈ statesOf n) :=
  reset_exhaustive n tv h q hq

/-- FINITE (n ≤ 2).  Every enumerated tableau stabilizes its vector, is a fixed point of `normalize`, and
is in reduced echelon form. -/
theorem exhaustive_canonical_n2 (n : Nat) (tv : Pair) (h : tv ∈ statesOf n) :
    Stabilizes tv.1 tv.2 ∧ tv.1.normalize params.ph = .ok tv.1 ∧ Canonical tv.1 ∧ Z8.canonRay tv.2 = tv.2 :=
  pair_exhaustive n tv h

/-- FINITE (n ≤ 2).  **Equal states have the identical tableau** (and conversely): the enumeration is a
bijection between rays and tableaux. -/
theorem equal_states_identical_tableau_n2 (n : Nat) :
    ∀ a ∈ statesOf n, ∀ b ∈ statesOf n, (a.2 = b.2 → a.1 = b.1) ∧ (a.1 = b.1 → a.2 = b.2) :=
  fun a ha b hb => ⟨fun h => congrArg Prod.fst ((states_inj n a ha b hb).1 h),
                    fun h => congrArg Prod.snd ((states_inj n a ha b hb).2 h)⟩

/-- FINITE (n ≤ 2).  **The tableau depends on the state only, not on the history**: two histories of
gates (any of the 13 on any placement), collapses of random qubits to either outcome and pure resets,
starting from `|0…0⟩`, that lead to the same ray lead to the identical tableau — so the automatic choice
of representation cannot change per-shot states. -/
theorem history_independent_n2 (n : Nat) (hn : n = 1 ∨ n = 2) (t1 t2 : Tab) (ψ : Vec)
    (h1 : Reach n (t1, ψ)) (h2 : Reach n (t2, ψ)) : t1 = t2 :=
  history_independent n hn t1 t2 ψ h1 h2

/-! ## the tableau contract of the stabilizer backend — general `n`, any commutative ring

The statements below are over an arbitrary commutative ring `α` with the laws `LawfulAmp` (`i² = −1`, `½ + ½ = 1`,
conjugation) and, where norms occur, `LawfulSim` (`normSq a = a · conj a`) — ℂ and ℚ(ζ₈) are models.  Vectors
are `List α` of length `2^n`; `StabG A t ψ` says every signed row of `t`, as the Kronecker-product matrix of C06
(`TabG.mulVec_pauliMat`), fixes `ψ`.  The conjugation rule of a gate enters through C06's `RuleExact`. -/

section contract
open Q1t.Proofs.TabG Q1t.LMat Q1t.Spec.Clifford Q1t.Sim Q1t.Proofs.ConjTerm Q1t.Proofs.ConjBridge
variable {α A : Type} [CommRing α] [Amp α A]

/-- The matrix `σ_{p₀} ⊗ σ_{p₁} ⊗ …` of C06 acts on vectors as the recursive Pauli action used here. -/
theorem pauli_matrix_action (h : LawfulAmp α A) (r : List P) (v : List α) (hv : v.length = 2 ^ r.length) :
    mulVec (pauliMat A r : LMat α) v = Q1t.Proofs.TabG.actOps A r v :=
  mulVec_pauliMat h r v hv

/-- **`normalize` preserves the stabilized vectors whenever it returns** (all `n`, any ring). -/
theorem normalize_preserves_stabilized (h : LawfulAmp α A) (t t' : Tab) (hwf : t.WF)
    (hok : t.normalize Q1t.Gen.phaseTable = .ok t') :
    (∀ ψ : List α, StabG A t' ψ ↔ StabG A t ψ) ∧ t'.n = t.n ∧ t'.WF :=
  normalize_inv h phaseTable_correct t t' hwf hok

/-- **`apply_gate` turns the tableau of `ψ` into a tableau of `embed n bits M · ψ`, all `n`** — for every
gate whose conjugation rule is exact for the matrix `M` (C06: every well-formed claiming term with its
documented matrix), every valid placement, every stabilized vector. -/
theorem apply_gate_stabilizes (h : LawfulAmp α A) {M : LMat α} {bits : List Nat} {rule : List P → Q1t.Conj.Result}
    (t t' : Tab) (ψ : List α) (hst : StabG A t ψ) (hv : Spec.validBits t.n bits = true)
    (hM : WF (2 ^ bits.length) (2 ^ bits.length) M) (hrule : RuleExact A M bits.length rule)
    (hok : t.applyGate Q1t.Gen.phaseTable (conjOfRule rule) bits = .ok t') :
    StabG A t' (mulVec (Spec.embed t.n bits M) ψ) ∧ t'.n = t.n :=
  applyGate_stabilizes h phaseTable_correct t t' ψ hst hv hM hrule hok

/-- **`Random(i)` is sound, all `n`**: row `i` has X/Y on the qubit and is the last such row; the two
projections of the stabilized vector have the same squared norm, half of the total each. -/
theorem measure_random_sound [SimAmp α] {nz : α → Prop} (h : LawfulAmp α A) (hs : LawfulSim α A nz) (t : Tab)
    (ψ : List α) (hst : StabG A t ψ) (q i : Nat) (hm : t.measure q = .ok (.random i)) :
    (q < t.n ∧ i < t.n ∧ (∃ r, t.rows[i]? = some r ∧ xAt r q = true) ∧
      ∀ k, i < k → k < t.n → ∃ r, t.rows[k]? = some r ∧ xAt r q = false) ∧
    normSqSum (Spec.project t.n q true ψ) = normSqSum (Spec.project t.n q false ψ) ∧
    normSqSum (Spec.project t.n q false ψ) + normSqSum (Spec.project t.n q false ψ) = normSqSum ψ :=
  ⟨measure_random_inv t q i hm, random_weights h hs t ψ hst q i hm⟩

/-- **`collapse` is sound, all `n`**: after `Random(i)` (row `i` = last row with X/Y on `q`), a returning
`collapse(i, q, v)` yields a tableau of the projected vector `P_v ψ`. -/
theorem collapse_sound (h : LawfulAmp α A) (t t' : Tab) (ψ : List α) (hst : StabG A t ψ) (q i : Nat)
    (hm : t.measure q = .ok (.random i)) (v : Bool) (hok : t.collapse Q1t.Gen.phaseTable i q v = .ok t') :
    StabG A t' (Spec.project t.n q v ψ) ∧ t'.n = t.n :=
  let ⟨hq, hi, hxi, hl⟩ := measure_random_inv t q i hm
  collapse_stabilizes h phaseTable_correct t t' ψ hst q i hq hi hxi hl v hok

/-- **Deterministic outcome from a row `±Z_q`, all `n`**: if the signed row `(v, Z_q)` fixes `ψ` then
`P_v ψ = ψ`. -/
theorem deterministic_of_zrow (h : LawfulAmp α A) (n q : Nat) (hq : q < n) (ψ : List α) (hψ : ψ.length = 2 ^ n)
    (v : Bool) (hfix : Q1t.Proofs.TabG.act (A := A) (rowStr v (zRow n q)) ψ = ψ) : Spec.project n q v ψ = ψ :=
  project_eq_of_zRow h n q hq ψ hψ v hfix

/-- **Every pair reachable by the operations of the contract is a stabilizer pair of invertible norm, all `n`**
(relative to `DetShapeHolds`, used only in the step "`reset` after `Deterministic`"). -/
theorem reachable_sound [SimAmp α] {nz : α → Prop} (n : Nat) (tbl : Q1t.Conj.Table) (noCheck : List String)
    (h : LawfulAmp α A) (hs : LawfulSim α A nz) (hp : PrimsExact α A tbl noCheck)
    (hT : TableFacts (A := A) tbl noCheck)
    (hD : DetShapeHolds (α := α) (A := A) n Q1t.Gen.phaseTable tbl noCheck) (t : Tab) (ψ : List α)
    (hr : Reach (A := A) α n Q1t.Gen.phaseTable tbl noCheck t ψ) :
    StabG A t ψ ∧ t.n = n ∧ ∃ u : α, normSqSum ψ * u = 1 :=
  reach_sound n Q1t.Gen.phaseTable tbl noCheck h hs phaseTable_correct hp hT hD t ψ hr

/-- **Semantic core of `DetShapeHolds`, all `n`** (the counting-free argument): if `t` stabilizes a non-zero `ψ`
and every stabilized vector is a multiple of `ψ` (`Uniq`), and column `q` has no X/Y, then no product
`Y = F₁·…·F_m` of Pauli strings commutes with every row of `t` (even number of anticommuting factors per row) while
anticommuting with `Z_q`.  What is still missing for `DetShapeHolds`: `Uniq` is preserved by `apply_gate` /
`collapse` / `reset`; rows of a `normalize` output own private pivot columns; the choice of `Y` from those. -/
theorem detshape_core_no_anticentral (h : LawfulAmp α A) (t : Tab) (ψ : List α) (hst : StabG A t ψ)
    (hu : Uniq A t ψ) (hnz : ∃ x ∈ ψ, x ≠ 0) (q : Nat) (hq : q < t.n)
    (hxfree : ∀ (i : Nat) r, t.rows[i]? = some r → xAt r q = false)
    (Fs : List (List P)) (hF : ∀ F ∈ Fs, F.length = t.n)
    (hcomm : ∀ (i : Nat) r, t.rows[i]? = some r → antiCount Fs r % 2 = 0)
    (hanti : antiCount Fs (zRow t.n q) % 2 = 1) : False :=
  no_anticentral h t ψ hst hu hnz q hq hxfree Fs hF hcomm hanti

end contract

/-- **The tableau contract `Sim.TableauOK` of the stabilizer backend (C02) — partial.**
Full statement: `TableauOK (Reach …) n phaseTable conjOf valid` for the generated tables, unconditionally.
Proved for all `n` over ℚ(ζ₈): every field (`init`, `scale`, `weight`, `gate`, `basis`, `det`, `rand`, `reset`) with
`St := Reach` (the pairs reachable by the contract's operations), **relative to the single hypothesis
`DetShapeHolds`**: in every reachable tableau, a column without X/Y holds exactly one `Z`, in a row that is
`Z_q` alone.  Missing lemma, precisely: `normalize` applied to `n` independent commuting rows produces such a
shape (reduced echelon form + a counting-free argument through an explicit Pauli operator that commutes with
every row and anticommutes with `Z_q`, see the final report).  It is what `Deterministic(v) ⇒ P_v ψ = ψ` and
the deterministic branch of `reset` need; it holds for all states of `n ≤ 2` (`exhaustive_measure_n2`) and on
every tableau of the correspondence runs. -/
theorem tableau_contract_partial (n : Nat)
    (hD : Q1t.Proofs.TabG.DetShapeHolds (α := Q8) (A := Empty) n Q1t.Gen.phaseTable Q1t.Gen.conjTable
      Q1t.Gen.conjNoArityCheck) :
    Q1t.Sim.TableauOK
      (Q1t.Proofs.TabG.Reach (A := Empty) Q8 n Q1t.Gen.phaseTable Q1t.Gen.conjTable Q1t.Gen.conjNoArityCheck) n
      Q1t.Gen.phaseTable (Q1t.Proofs.TabG.conjOfT (A := Empty) Q1t.Gen.conjTable Q1t.Gen.conjNoArityCheck)
      (Q1t.Proofs.TabG.validT (A := Empty) n Q1t.Gen.conjTable) :=
  Q1t.Proofs.TabG.tableauOK_generated n hD

/-- **C01's bundle `SimGF.StabHyps` (multinomial law on the stabilizer backend) — partial.**
Full statement: `StabHyps Q8 Empty nzQ8 (Reach …) n half phaseTable conjOf valid` unconditionally.
Proved for all `n`, for the generated tables over ℚ(ζ₈), with `St := Reach`: `tab` (= `tableau_contract_partial`),
`arity`, `iso`, and the **progress** fields `gateRuns` (`apply_gate` returns on every reachable pair for every valid
claiming term: every row is conjugated, `normalize` does not trip the assertion of `multiply_row` nor leave the
index range), `collapseRuns` (after `Random`), `measRuns`, and `randHalf` (‖P₀ψ‖² = ‖P₁ψ‖²).
Remaining hypotheses: `DetShapeHolds` (needed by `tab.det`, `tab.reset`, and by `measRuns`: the `.unwrap()` in the
deterministic branch of `measure` needs a row with exactly `Z` on the qubit when no row has X/Y there — the row
`Z_q` of `DetShape`); `hpos` — positivity of the squared norm over ℚ(ζ₈) (a property of the amplitude type, not of
the tableau code; not proved here). -/
theorem stabHyps_partial (n : Nat)
    (hD : Q1t.Proofs.TabG.DetShapeHolds (α := Q8) (A := Empty) n Q1t.Gen.phaseTable Q1t.Gen.conjTable
      Q1t.Gen.conjNoArityCheck)
    (hpos : ∀ v : List Q8, Q1t.Sim.normSqSum v = 0 → ∀ a ∈ v, a = 0) (half : Q8) (hhalf : half + half = 1) :
    Q1t.Sim.SimGF.StabHyps Q8 Empty Q1t.Sim.Demo.nzQ8
      (Q1t.Proofs.TabG.Reach (A := Empty) Q8 n Q1t.Gen.phaseTable Q1t.Gen.conjTable Q1t.Gen.conjNoArityCheck) n half
      Q1t.Gen.phaseTable (Q1t.Proofs.TabG.conjOfT (A := Empty) Q1t.Gen.conjTable Q1t.Gen.conjNoArityCheck)
      (Q1t.Proofs.TabG.validT (A := Empty) n Q1t.Gen.conjTable) :=
  Q1t.Proofs.TabG.stabHyps n Q1t.Gen.phaseTable Q1t.Gen.conjTable Q1t.Gen.conjNoArityCheck Q8.lawful
    Q1t.Sim.Demo.lawfulSimQ8 phaseTable_correct Q1t.Proofs.ConjQ8.prims_exact_Q8
    Q1t.Proofs.TabG.tableFacts_generated hD (by decide) hpos half hhalf

/-! ## `DetShapeHolds` discharged: the unconditional forms (generated tables, ℚ(ζ₈), every `n`)

Proved in `Proofs/DetShapePlan.lean` (composition) from six parts, each in its own file: `Tab.new` (`DetShapePartIb`),
`normalize` produces the reduced echelon shape (`DetShapePartN1*`) and keeps the ghost destabilizers
(`DetShapePartN2b`), the row loop of `apply_gate` keeps them (`DetShapePartG`), so does `collapse` (`DetShapePartK`),
and shape + destabilizers + commuting rows give `DetShape` by a pigeonhole counting argument over `ZMod 2`
(`DetShapePartC2*`).  The `_partial` theorems above are kept unchanged; these are their hypothesis-free twins. -/

/-- **In every reachable tableau, a column without X/Y holds exactly one `Z`, in a row that is `Z_q` alone** —
all `n`, all histories of valid claiming gates, collapses after `Random` and resets. -/
theorem det_shape_holds (n : Nat) :
    Q1t.Proofs.TabG.DetShapeHolds (α := Q8) (A := Empty) n Q1t.Gen.phaseTable Q1t.Gen.conjTable
      Q1t.Gen.conjNoArityCheck :=
  Q1t.Proofs.DetPlan.detShapeHolds_generated n

/-- **The tableau contract `Sim.TableauOK` of the stabilizer backend holds, all `n`, no hypothesis** — `init`,
`scale`, `weight`, `gate`, `basis`, `det`, `rand`, `reset` with `St := Reach`, for the tables generated from /repo. -/
theorem tableau_contract (n : Nat) :
    Q1t.Sim.TableauOK
      (Q1t.Proofs.TabG.Reach (A := Empty) Q8 n Q1t.Gen.phaseTable Q1t.Gen.conjTable Q1t.Gen.conjNoArityCheck) n
      Q1t.Gen.phaseTable (Q1t.Proofs.TabG.conjOfT (A := Empty) Q1t.Gen.conjTable Q1t.Gen.conjNoArityCheck)
      (Q1t.Proofs.TabG.validT (A := Empty) n Q1t.Gen.conjTable) :=
  tableau_contract_partial n (det_shape_holds n)

/-- **Every reachable pair is a stabilizer pair of invertible norm, all `n`, no hypothesis.** -/
theorem reachable_sound_generated (n : Nat) (t : Tab) (ψ : List Q8)
    (hr : Q1t.Proofs.TabG.Reach (A := Empty) Q8 n Q1t.Gen.phaseTable Q1t.Gen.conjTable Q1t.Gen.conjNoArityCheck t ψ) :
    Q1t.Proofs.TabG.StabG Empty t ψ ∧ t.n = n ∧ ∃ u : Q8, Q1t.Sim.normSqSum ψ * u = 1 :=
  Q1t.Proofs.TabG.reach_sound n Q1t.Gen.phaseTable Q1t.Gen.conjTable Q1t.Gen.conjNoArityCheck Q8.lawful
    Q1t.Sim.Demo.lawfulSimQ8 phaseTable_correct Q1t.Proofs.ConjQ8.prims_exact_Q8
    Q1t.Proofs.TabG.tableFacts_generated (det_shape_holds n) t ψ hr

/-- **Deterministic outcomes are reported with the right value, all `n`**: on every reachable pair, if `measure(q)`
reports `Deterministic(v)` then the state vector has all its weight on outcome `v` (`P_v ψ = ψ`); and `measure`
always returns (the `.unwrap()` of the deterministic branch never fails). -/
theorem measure_deterministic_sound (n : Nat) (t : Tab) (ψ : List Q8)
    (hr : Q1t.Proofs.TabG.Reach (A := Empty) Q8 n Q1t.Gen.phaseTable Q1t.Gen.conjTable Q1t.Gen.conjNoArityCheck t ψ)
    (q : Nat) (hq : q < n) :
    (∃ info, t.measure q = .ok info) ∧
    ∀ v, t.measure q = .ok (.deterministic v) → Q1t.Spec.project n q v ψ = ψ := by
  obtain ⟨hst, hn, _⟩ := reachable_sound_generated n t ψ hr
  exact ⟨Q1t.Proofs.TabG.measure_prog t (Q1t.Proofs.TabG.wf_of_stabG t ψ hst) (det_shape_holds n t ψ hr) q
      (by rw [hn]; exact hq),
    fun v hm => (tableau_contract n).det t ψ q v hr hm⟩

/-- **C01's bundle `SimGF.StabHyps` without `DetShapeHolds`** (the positivity of the squared norm over ℚ(ζ₈) stays a
parameter: it is a property of the amplitude type). -/
theorem stabHyps_generated (n : Nat)
    (hpos : ∀ v : List Q8, Q1t.Sim.normSqSum v = 0 → ∀ a ∈ v, a = 0) (half : Q8) (hhalf : half + half = 1) :
    Q1t.Sim.SimGF.StabHyps Q8 Empty Q1t.Sim.Demo.nzQ8
      (Q1t.Proofs.TabG.Reach (A := Empty) Q8 n Q1t.Gen.phaseTable Q1t.Gen.conjTable Q1t.Gen.conjNoArityCheck) n half
      Q1t.Gen.phaseTable (Q1t.Proofs.TabG.conjOfT (A := Empty) Q1t.Gen.conjTable Q1t.Gen.conjNoArityCheck)
      (Q1t.Proofs.TabG.validT (A := Empty) n Q1t.Gen.conjTable) :=
  stabHyps_partial n (det_shape_holds n) hpos half hhalf

/-! ## equal states have the identical tableau — all `n`

`Canon t` (`Proofs/EqualStatesPlan.lean`) is the full post-condition of `normalize`: X-pivot rows first, pivot columns
strictly increasing, each pivot the leading X-bit of its row and the only X-bit of its column; then the X/Y-free
Z-pivot rows with the same properties for Z-bits, the pivot column cleared in all rows; then identity rows.
`HasDual t`: destabilizers exist (the rows are independent).  Both hold on every reachable tableau
(`reachable_canonical`).  The general theorems replace the finite `equal_states_identical_tableau_n2` /
`history_independent_n2` (kept above). -/

/-- **Every reachable tableau is in the canonical shape of `normalize` and has destabilizers** (all `n`). -/
theorem reachable_canonical (n : Nat) (t : Tab) (ψ : List Q8)
    (h : Q1t.Proofs.TabG.Reach (A := Empty) Q8 n Q1t.Gen.phaseTable Q1t.Gen.conjTable Q1t.Gen.conjNoArityCheck t ψ) :
    Q1t.Proofs.DetPlan.Canon t ∧ Q1t.Proofs.DetPlan.HasDual t :=
  Q1t.Proofs.DetPlan.reach_canon_dual n t ψ h

/-- **Equal states have the identical tableau, all `n`**: two tableaux that stabilize the same non-zero vector, are
in the canonical shape and have destabilizers are equal — same rows in the same order, same signs.  (The rows of one
commute with the rows of the other, hence are products of them; a reduced echelon basis is unique; two opposite
signs on a row would give `ψ = −ψ`.) -/
theorem equal_states_identical_tableau (t1 t2 : Tab) (ψ : List Q8)
    (h1 : Q1t.Proofs.TabG.StabG Empty t1 ψ) (h2 : Q1t.Proofs.TabG.StabG Empty t2 ψ)
    (hnz : Q1t.Proofs.TabG.NZ ψ) (hn : t1.n = t2.n)
    (hc1 : Q1t.Proofs.DetPlan.Canon t1) (hc2 : Q1t.Proofs.DetPlan.Canon t2)
    (hd1 : Q1t.Proofs.DetPlan.HasDual t1) (hd2 : Q1t.Proofs.DetPlan.HasDual t2) : t1 = t2 :=
  Q1t.Proofs.DetPlan.equal_states_identical t1 t2 ψ h1 h2 hnz hn hc1 hc2 hd1 hd2

/-- **The tableau depends on the state only, not on the history, all `n`**: two histories of valid claiming gates,
collapses after `Random` and resets from `|0…0⟩` (generated tables) that end in proportional state vectors end in the
identical tableau — so the automatic choice of representation cannot change per-shot states. -/
theorem history_independent (n : Nat) (t1 t2 : Tab) (ψ1 ψ2 : List Q8) (c : Q8)
    (h1 : Q1t.Proofs.TabG.Reach (A := Empty) Q8 n Q1t.Gen.phaseTable Q1t.Gen.conjTable Q1t.Gen.conjNoArityCheck t1 ψ1)
    (h2 : Q1t.Proofs.TabG.Reach (A := Empty) Q8 n Q1t.Gen.phaseTable Q1t.Gen.conjTable Q1t.Gen.conjNoArityCheck t2 ψ2)
    (hprop : ψ2 = ψ1.map (· * c)) : t1 = t2 :=
  Q1t.Proofs.DetPlan.history_independent_generated n t1 t2 ψ1 ψ2 c h1 h2 hprop

/-! ## non-vacuity -/

example : Reach 2 (bellT, bellV) := by
  have h1 : Reach 2 _ := Reach.gate _ (.H, [0]) _ Reach.start (by decide) (by rw [params_eq]; decide +kernel : stepT params (start 2).1 .H [0] = .ok ⟨2, [[.X, .I], [.I, .Z]], [false, false]⟩)
  have h2 : Reach 2 _ := Reach.gate _ (.CX, [0, 1]) _ h1 (by decide) (by rw [params_eq]; decide +kernel : stepT params _ .CX [0, 1] = .ok bellT)
  have e : stepV 2 (stepV 2 (start 2).2 .H [0]) .CX [0, 1] = bellV := by decide +kernel
  rw [← e]; exact h2

example : Stabilizes bellT bellV ∧ Vec.isZero bellV = false := by decide +kernel

example : Commutes [.X, .X] [.Z, .Z] ∧ Anticommutes [.X, .I] [.Z, .Z] := by
  rw [commutes_iff, anticommutes_iff]; decide +kernel

/-! ## negative witnesses (known findings; kernel-checked on the model) -/

/-- **D4** — stabilizer `reset` of one half of a Bell pair.  The qubit is random (`fair`); the correct
result is the mixture of `P₀ψ ∝ |00⟩` and `X·P₁ψ ∝ |01⟩`, two different rays (`resetPure = none`); the
model (as the code) returns the single tableau `Tab.new 2` of `|00⟩`, which does not stabilize `|01⟩`. -/
theorem neg_reset_entangled_forced_zero :
    (bellT, bellV) ∈ statesOf 2 ∧
    measKind 2 0 bellV = .fair ∧
    Z8.canonRay (proj 2 0 false bellV) = Vec.basis 2 0 ∧
    Z8.canonRay (apply1 xMat 2 0 (proj 2 0 true bellV)) = Vec.basis 2 1 ∧
    resetPure 2 0 bellV = none ∧
    bellT.reset params.ph 0 = .ok (Tab.new 2) ∧
    Stabilizes (Tab.new 2) (Vec.basis 2 0) ∧ ¬ Stabilizes (Tab.new 2) (Vec.basis 2 1) := by
  obtain ⟨a, b, c, d, e, f, g⟩ := d4_facts
  rw [params_eq]
  exact ⟨bell_is_model_state.2.2, a, b, c, d, e, f, by unfold Stabilizes; rw [g]; decide⟩

/-- **D5** — stabilizer `peek_all` on a Bell pair.  Both qubits are reported `Random` on the uncollapsed
tableau and are drawn independently; with draws in the support (qubit 0 ↦ 0, qubit 1 ↦ 1) the range-level
model `StabState.peekAllInto` stores the word `0b10`, i.e. the basis state `|01⟩`, which has amplitude 0
in the Bell state — after seeing qubit 0 = 0, qubit 1 is certainly 0. -/
theorem neg_peek_all_independent :
    (∃ i, bellT.measure 0 = .ok (.random i)) ∧ (∃ i, bellT.measure 1 = .ok (.random i)) ∧
    bellPeekAllRegister [.bin 1, .bin 0] = some [2] ∧
    vget bellV 1 = 0 ∧ measKind 2 1 (proj 2 0 false bellV) = .certain false :=
  d5_facts

end Q1t.Props.C03

import Q1t.Proofs.FfiHeap
import Q1t.Proofs.FfiBalance
import Q1t.Proofs.FfiMirror
import Q1t.Proofs.FfiTables
/-!
# C19 — the C interface mirrors the Rust API, reports failures as error results, owns its memory correctly

Statements only (proofs are in `Q1t/Proofs/Ffi*.lean`).  The model is `Q1t/Model/Ffi.lean`
(state machine `step` over an abstract heap and an arbitrary implementation `Api C` of the Rust
`Circuit` API), the documented gate table is `Q1t/Spec/Ffi.lean`, the dispatch tables, signatures, layouts,
codes and the shape of `CResult`'s constructors and `free` are regenerated from `/repo/src/ffi.rs`,
`/repo/src/gates/*.rs` and `/repo/python/q1tsimffi.py` on every run (`Q1t/Gen/FfiTables.lean`,
`Q1t/Gen/FfiSigs.lean`).

Not proved here (observed by the harness): what the allocator does; that q1tsim proper neither leaks
nor frees foreign blocks; that a panic across `extern "C"` aborts.  The predicted aborts
(`execAbortTag`, `qasmAbortTag`, `latexAbortTag`) are conservative predictions checked against the
code by the correspondence run only.
-/
namespace Q1t.Props.C19
open Q1t.Ffi Q1t.Ffi.CResult

/-- the configuration of the model that is tied to the source: the generated dispatch tables -/
def cfg (circSize circAlign : Nat) : Cfg := ⟨Gen.gateTable, Gen.condTable, circSize, circAlign⟩

/-! ## ownership -/

/-- **result_free_exact.** For every result any entry point can build (`build` is the only way `step`
makes results: error / string / histogram / c_state / empty), from any well-formed allocator state:
the blocks allocated are exactly the blocks the result owns (appended, all fresh), and on ANY later
heap on which they are still live `CResult::free` succeeds and removes exactly those blocks.  Every
`dealloc` inside `free` is checked against the layout of the block (`dealloc_wrong_layout_faults`),
so success means: `strlen+1` bytes / align 1 for every C string, `capacity * 16` / align 8 for the
`Vec<CHistElem>` (capacity, not length), `capacity * 8` / align 8 for the `Vec<u64>`. -/
theorem result_free_exact (m m' : HeapSt) (_hw : m.WF) (p : Payload) (r : CResult)
    (hb : build m p = some (m', r)) :
    m'.heap = m.heap ++ ownedBlocks r ∧
    (∀ b ∈ ownedBlocks r, m.next ≤ b.id) ∧
    ∀ h : Heap, UniqueIds h → (∀ b ∈ ownedBlocks r, b ∈ h) →
      free h r = .ok (removeIds h ((ownedBlocks r).map (·.id))) :=
  have hB := build_spec hb
  ⟨hB.heap, fun b hb' => (hB.fresh b hb').1, fun _ hu hl => free_valid hu ⟨hB.allBlk, hl, hB.nodup⟩⟩

/-- releasing a live block with any other layout than the one it was allocated with is a fault -/
theorem dealloc_wrong_layout_faults (h : Heap) (hu : UniqueIds h) (b : Block) (hb : b ∈ h) (s a : Nat)
    (hne : ¬ (b.size = s ∧ b.align = a)) : dealloc h (.blk b.id) s a = .error (.layout b.id s a) :=
  dealloc_layout hu hb hne

/-- **a second free is a double free**: freeing the same (block-owning) result again faults on a block
that is no longer live. -/
theorem result_free_twice_faults (h : Heap) (hu : UniqueIds h) (r : CResult) (hv : Valid h r)
    (hne : ownedBlocks r ≠ []) :
    ∃ h' b, free h r = .ok h' ∧ free h' r = .error (.notLive (.blk b)) :=
  free_twice hu hv hne

/-- … and it is the only way: in ANY history, freeing a result that is outstanding never faults. -/
theorem conformant_free_never_faults {C : Type} (sz al : Nat) (api : Api C) (base : Heap) (next : Nat)
    (hw : HeapSt.WF ⟨base, next⟩) (hist : List (Mem × Call)) (r : CResult) :
    let s := (run (cfg sz al) api (init C base next) hist).1
    r ∈ s.results → free s.hs.heap r = .ok (removeIds s.hs.heap ((ownedBlocks r).map (·.id))) :=
  conformant_free_ok _ api base next hw hist r

/-- **heap_balanced.** Over ANY call history — any interleaving of all entry points on any number of
circuits with any arguments (NULL pointers, unknown names, …), any implementation of `Circuit`, any
evolution of the foreign memory — if at the end every circuit has been freed and every result has been
freed (nothing live, nothing outstanding; `result_free` only accepts outstanding results, so each was
freed once), the live set is the initial one (as a multiset of `(id, size, align)`). -/
theorem heap_balanced {C : Type} (sz al : Nat) (api : Api C) (base : Heap) (next : Nat)
    (hw : HeapSt.WF ⟨base, next⟩) (hist : List (Mem × Call)) :
    let s := (run (cfg sz al) api (init C base next) hist).1
    s.circs = [] → s.results = [] → s.hs.heap.Perm base :=
  heap_balanced_model _ api base next hw hist

/-- at every point of every history the live heap is accounted for: initial blocks + one box per live
circuit + the blocks owned by the outstanding results (no leak, nothing freed behind the caller's back) -/
theorem heap_accounted {C : Type} (sz al : Nat) (api : Api C) (base : Heap) (next : Nat)
    (hw : HeapSt.WF ⟨base, next⟩) (hist : List (Mem × Call)) :
    let s := (run (cfg sz al) api (init C base next) hist).1
    s.hs.heap.Perm (base ++ circBlocks s.circs ++ s.results.flatMap ownedBlocks) :=
  Q1t.Ffi.heap_accounted _ api base next hw hist

/-! ## generated tables = documented tables (re-checked whenever ffi.rs changes) -/

/-- the `match` of `circuit_add_gate` is the documented table, row by row: name, gate type, arity,
number of parameters, the count named in the error message, whether the count is enforced -/
theorem gate_table_documented : Gen.gateTable = Q1t.Spec.Ffi.documentedTable := by decide

/-- the `match` of `circuit_add_conditional_gate` is the documented table in every column that decides
behaviour (the count *printed* in the wrong-parameter-count message is not compared: on the pinned
tree it says 1 for u2 and u3) -/
theorem cond_table_documented : Gen.condTable.map rowKey = Q1t.Spec.Ffi.documentedTable.map rowKey := by decide

/-- `str::to_lowercase` is modelled by ASCII lower-casing; the only non-ASCII character that lowercases
to an ASCII letter is U+212A (Kelvin sign → k), and no dispatch name contains a `k` -/
theorem kelvin_safe : (Gen.gateTable ++ Gen.condTable).all (fun r => !hasK r.1) = true := by decide +kernel

/-- `extern "C"` signatures of ffi.rs = `cdef` prototypes of python/q1tsimffi.py (names, parameter
types including pointer constness, return types), in both directions -/
theorem sigs_agree :
    subset Gen.rustSigs Gen.pySigs = true ∧ subset Gen.pySigs Gen.rustSigs = true ∧
    Gen.rustSigs.length = Gen.pySigs.length := by decide

/-- all three structs are `#[repr(C)]`, have the same fields in the same order with the same ABI types
as the cdef structs, and the element layouts the model uses are the ones these fields give -/
theorem layouts_agree :
    Gen.rustStructsNotReprC = [] ∧
    Gen.rustStructs.map (fun s => fieldsAbi s.2) = Gen.pyStructs.map (fun s => fieldsAbi s.2) ∧
    (Gen.rustStructs.lookup "CHistElem").map structLayout = some (HIST_ELEM_SIZE, HIST_ELEM_ALIGN) ∧
    (Gen.rustStructs.lookup "CParameter").map structLayout = some (16, 8) ∧
    (Gen.rustStructs.lookup "CResult").map structLayout = some (32, 8) ∧
    scalarLayout "u64" = (U64_SIZE, U64_ALIGN) := by decide +kernel

/-- the five `RESULT_*` codes: Rust = Python = model, and `unpack_result` handles each of them -/
theorem result_codes_agree :
    Gen.resultCodesRust = Gen.resultCodesPy ∧ Gen.resultCodesRust = resultCodes ∧
    subset (Gen.resultCodesPy.map (·.1)) Gen.pyUnpackHandles = true := by decide

/-- the shapes the model transcribes by hand are the shapes the source has now: which restype releases
what in `CResult::free`, what each constructor stores in `data/length/size/restype`, and the literal
error messages and NULL asserts of every entry point -/
theorem source_shape_as_modelled :
    Gen.freeArms = freeArms ∧ Gen.resultCtors = resultCtors ∧ Gen.errorLiterals = errorLiterals := by decide

/-! ## mirror -/

/-- **ffi_mirrors.** Every entry point that takes a circuit, called on a live circuit with ANY
arguments, for ANY implementation of `Circuit`: what the C caller observes is what the equivalent Rust
call — chosen by the *documented* table — gives: same new circuit on success, `RESULT_ERROR` with the
Rust error's text when it errs, an error result when there is no such call, the same string / histogram /
register otherwise; a panic of the Rust call is an abort. -/
theorem ffi_mirrors {C : Type} (sz al : Nat) (api : Api C) (mem : Mem) (c : Circ C) (call : Call)
    (hcall : call.handle?.isSome) :
    Mirrors c.rust (rustCall api mem c.rust call) (observe (entry (cfg sz al) api mem c call)) :=
  entry_mirrors (cfg := cfg sz al) (congrArg (List.map rowKey) gate_table_documented) cond_table_documented api mem c call hcall

/-- `RESULT_ERROR` iff the Rust call errs or there is no Rust call (unknown name, wrong number of
parameters, NULL array, invalid basis, non-UTF-8 name, register not yet run) -/
theorem ffi_error_iff {C : Type} (sz al : Nat) (api : Api C) (mem : Mem) (c : Circ C) (call : Call)
    (hcall : call.handle?.isSome) :
    (∃ m rust, observe (entry (cfg sz al) api mem c call) = .error m rust) ↔
      ((∃ m, rustCall api mem c.rust call = .failed m) ∨ rustCall api mem c.rust call = .noCall ∨
        rustCall api mem c.rust call = .noState) :=
  error_iff (ffi_mirrors sz al api mem c call hcall)

/-- a NULL circuit handle: an error result for every entry point that checks it; the three getters
`circuit_nr_qbits`, `circuit_nr_cbits`, `circuit_cstate` `assert!` instead (outside the property: it speaks
about valid handles) -/
theorem ffi_null_handle (call : Call) (h : call.handle? = some none) :
    entryNull call = some (.ok (.error msgNullCircuit)) ∨
    (entryNull call = some (.error "null-handle-assert") ∧
      (call = .nrQbits none ∨ call = .nrCbits none ∨ call = .cstate none)) := by
  cases call <;> simp_all [Call.handle?, entryNull]

/-- **ffi_param_live.** `From<CParameter>`: a NULL `value_ptr` gives the direct value, anything else a
reference; adding a gate does not read the foreign memory at all; the value of a reference parameter
is whatever the memory holds when it is read — and `execute`/`reexecute`/the exports receive the memory
of the moment of *their* call (`ffi_mirrors`: `api.execute mem …`). -/
theorem ffi_param_live {C : Type} (sz al : Nat) (api : Api C) (mem mem' : Mem) (c : Circ C) (h : Handle)
    (name : Option String) (qbits : Option (List Nat)) (params : Option (List CParameter)) (p : CParameter) :
    entry (cfg sz al) api mem c (.addGate h name qbits params) = entry (cfg sz al) api mem' c (.addGate h name qbits params) ∧
    (Param.ofC p).value mem = (if p.valuePtr = 0 then p.value else mem p.valuePtr) ∧
    (p.valuePtr ≠ 0 → (Param.ofC p).value mem' = mem' p.valuePtr) :=
  ⟨rfl, param_value mem p, fun hp => by rw [param_value]; simp [hp]⟩

/-! ## non-vacuity -/

/-- a history that returns block-owning results and has not freed them yet: 1 box + 1 register +
(1 array + 2 keys) of a histogram are live, three results are outstanding -/
example :
    let s := (run (cfg 192 8) exampleApi (init Unit [] 1)
      [(fun _ => 0, .new 2 2), (fun _ => 0, .cstate (some 1)), (fun _ => 0, .histogram (some 1)),
       (fun _ => 0, .addGate (some 1) (some "Sdg") (some [0]) none)]).1
    s.circs.length = 1 ∧ s.results.length = 3 ∧
      s.hs.heap.map (fun b => (b.size, b.align)) = [(192, 8), (24, 8), (64, 8), (3, 1), (3, 1)] := by
  decide +kernel

/-- the same history continued by freeing every result and the circuit ends with an empty heap; freeing a
result a second time is refused -/
example :
    let h0 : List (Mem × Call) :=
      [(fun _ => 0, .new 2 2), (fun _ => 0, .cstate (some 1)), (fun _ => 0, .histogram (some 1))]
    let s := (run (cfg 192 8) exampleApi (init Unit [] 1) h0).1
    let frees : List (Mem × Call) := s.results.map (fun r => ((fun _ => 0 : Mem), Call.resultFree r))
    let s' := (run (cfg 192 8) exampleApi s (frees ++ [(fun _ => 0, .free (some 1))] ++ frees.take 1))
    s'.1.hs.heap = [] ∧ s'.1.circs.length = 0 ∧ s'.1.results.length = 0 ∧ (s'.2.map Answer.bad) = [false, false, false, true] := by
  decide +kernel

/-- a panic of the Rust call is an abort, an unknown name an error result -/
example : (observe (entry (cfg 192 8) exampleApi (fun _ => 0) ⟨(), 1, 1, [], none, ⟨1, 192, 8⟩⟩ (.cQasm (some 1))) matches .abort) ∧
    (observe (entry (cfg 192 8) exampleApi (fun _ => 0) ⟨(), 1, 1, [], none, ⟨1, 192, 8⟩⟩
      (.addGate (some 1) (some "cnot") (some [0]) none)) matches .error _ _) := by
  decide +kernel

end Q1t.Props.C19

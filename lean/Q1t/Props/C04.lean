import Q1t.Model.Gate
import Q1t.Model.GateCond
import Q1t.Spec.Embed
import Q1t.Spec.Place
import Q1t.Spec.PlaceWord
import Q1t.Spec.CondShots
import Q1t.Proofs.BitPerm
import Q1t.Proofs.RouteTerm
import Q1t.Proofs.RouteCond
import Q1t.Proofs.RouteExtra
import Q1t.Proofs.EmbedUnitary
import Q1t.Proofs.TermUnitary
import Q1t.Proofs.UnitariesQ8
import Q1t.Proofs.AmpComplex
/-!
# C04 — a gate on chosen qubits acts as its matrix embedded on those qubits

Property theorems only.  Every statement is about the executable model of `src/gates.rs`,
`src/gates/*.rs` and the two `VectorState` entry points (`Q1t/Model/Gate.lean`, `GateCond.lean`; tied to
the code by the correspondence run of `tools/check.py C04`), and about the reference semantics
`Spec.embed n bits M` (`Q1t/Spec/Embed.lean`: entry `(r,c)` is `M[sub r][sub c]` when `r` and `c` agree
on every qubit that is not listed, else `0`; qubit 0 is the most significant index bit; written without
permutations or block routes).

Quantification: ALL register sizes `n`, ALL ordered tuples `bits` of distinct qubits below `n`
(`validBits n bits`), ALL gate terms `g : GateTerm P` that are well formed (`WF g`: the placements
*inside* composites/loops have matching arity and distinct in-range qubits, composites act on ≥ 1 qubit)
— primitives, `C`, `Kron`, `Composite`, `Loop`, nested to any depth —, ALL parameter values, ALL states
(vectors `List α` of length `2^n`; matrices of `2^n` rows of any common width `K`), over EVERY commutative
ring `α` with an `Amp α P` structure satisfying `LawfulAmp α P` (`i² = −1`, `(1/√2)² = ½`, conjugation an
involutive ring homomorphism, abstract trigonometric context), hence over ℂ with the real `cos`/`sin`
(`complex_is_model`).  Floating-point rounding is outside the model.

The only side condition beyond well-formedness is `WordOK g n`: if `g` contains a `Composite`/`Loop`
(whose `apply_slice` reads the register size with `usize::trailing_zeros` off the state length) then
`n < 64` — a state of `2^64` amplitudes cannot exist in the code.  Terms without composites carry no bound.

Auxiliary notions (all executable, definitions in `Q1t/Spec/Place.lean`):
`mulState m w A v` — `A·v` row by row (`m = .vec`: `v` is a vector, `w = 1`; `m = .mat`: `v` is a matrix
of row width `w`, i.e. `w` states at once); `blockMul m w M t v` — `(M ⊗ I_t)·v`;
`opsMatrix matOf n ops acc` — the ordered product `E_k ⋯ E_1 · acc` of the embedded matrices of a list of
placed gates; `Spec.mpow` — matrix power; `shotExpand`/`onSelected` — per-shot reading of a state.
Proofs are in `Q1t/Proofs/Route*.lean`, `EmbedLift.lean`, `EmbedUnitary.lean`, `TermUnitary.lean`,
`SubIndex.lean`, `BitPerm.lean`; `Q1t/Proofs/RouteSim.lean` discharges the gate hypotheses (`GateSemOK.mat/vec`,
`GateRuns`) of the simulator theorems of C02/C07 from the theorems below.
-/
namespace Q1t.Props.C04
open Q1t Q1t.Gate Q1t.Spec Q1t.Proofs.Route

section general
variable {α P : Type} [CommRing α] [Amp α P]

/-! ## (1) `bit_permutation`: the affected qubits lead, in order; the others keep their order -/

/-- For every register size and every ordered tuple of distinct in-range qubits, `bit_permutation`
returns (no underflow, no `unwrap` panic) a permutation `p` of `0..2^n` with `p[γ(i)] = i`, where
`γ = gatherIndex n bits` is the index whose leading `k` bits are the listed qubits of `i` in the listed
order and whose remaining bits are the other qubits of `i` in increasing order.  (Applying `p` therefore
moves amplitude `i` to position `γ(i)`.) -/
theorem bit_permutation_spec (n : Nat) (bits : List Nat) (hv : validBits n bits = true) :
    ∃ p, bitPermutation n bits = some p ∧ Spec.Perm.IsPerm p ∧ p.length = 2 ^ n ∧
      ∀ i, i < 2 ^ n → gatherIndex n bits i < 2 ^ n ∧ p[gatherIndex n bits i]? = some i :=
  Q1t.Proofs.BitPerm.bitPermutation_spec n bits hv

/-! ## (2) the leading-qubit routes (`apply_slice`, `apply_mat_slice`; `apply`, `apply_mat` are the
case of a state with exactly `2^k` rows) -/

/-- Every hand-written route of every primitive gate (H X Y Z S S† T T† V V† I RX RY RZ U1 U2 U3 CX CY CZ
Swap), in both modes, on every state of `2^k·t` rows (ANY `t ≥ 0`, not only powers of two), equals
`(M_G ⊗ I_t)·v`. -/
theorem lead_route_prim (h : LawfulAmp α P) (g : GateTerm P) (hg : IsPrim g) (m : Mode) (w : Nat)
    (hw : OkWidth m w) (t : Nat) (v : List (Row α m)) (hv : RowsW m w v)
    (hlen : v.length = 2 ^ nrBits g * t) :
    route (α := α) m g v = some (blockMul m w (matrix (α := α) g) t v) :=
  Q1t.Proofs.Route.lead_route_prim h g hg m w hw t v hv hlen

/-- The default route of `trait Gate` (generic block multiply with the 1-, 2-, k-qubit branches) with any
square `2^k × 2^k` matrix equals `(M ⊗ I_t)·v`. -/
theorem default_route (m : Mode) (w : Nat) (hw : OkWidth m w) (k : Nat) (M : LMat α)
    (hM : WFMat (2 ^ k) M) (t : Nat) (v : List (Row α m)) (hlen : v.length = 2 ^ k * t)
    (hv : RowsW m w v) : defaultRoute k M v = some (blockMul m w M t v) :=
  defaultRoute_spec m w hw k M hM t v hlen hv

/-- **Sub-slices.** The leading-qubit route of EVERY well-formed gate term — including `C`, `Kron` (any arities of the
factors: the D6 defect is repaired in the code and the repaired route is what the model mirrors),
`Composite` and `Loop` at any nesting depth — on a state of `2^N` rows equals `(M_g ⊗ I)·v`; the matrix
is square of side `2^k`. -/
theorem lead_route_term (h : LawfulAmp α P) (g : GateTerm P) (hwf : WF g) (m : Mode) (w : Nat)
    (hw : OkWidth m w) (N : Nat) (hk : nrBits g ≤ N) (hword : WordOK g N)
    (v : List (Row α m)) (hlen : v.length = 2 ^ N) (hvw : RowsW m w v) :
    route (α := α) m g v = some (blockMul m w (matrix (α := α) g) (2 ^ (N - nrBits g)) v) ∧
    WFMat (2 ^ nrBits g) (matrix (α := α) g) :=
  ⟨route_eq_blockMul h g hwf m w hw N hk hword v hlen hvw,
   matrix_wf h g hwf (fun hc => by have := hword hc; omega)⟩

/-- `Gate::apply` on a state of exactly `2^k` amplitudes is the matrix–vector product with `matrix()`;
`Gate::apply_mat` on `2^k` rows of width `K` is the matrix product. -/
theorem apply_eq_matrix (h : LawfulAmp α P) (g : GateTerm P) (hwf : WF g) (hword : WordOK g (nrBits g)) :
    (∀ v : List α, v.length = 2 ^ nrBits g →
      route (α := α) .vec g v = some (LMat.mulVec (matrix (α := α) g) v)) ∧
    (∀ (K : Nat) (M : LMat α), M.length = 2 ^ nrBits g → (∀ r ∈ M, r.length = K) →
      route (α := α) .mat g M = some (mulState (α := α) .mat K (matrix (α := α) g) M)) :=
  ⟨fun v hlen => apply_eq_mulVec h g hwf hword v hlen,
   fun K M hlen hrow => route_eq_mulState h g hwf .mat K (okWidth_mat K) hword M hlen (fun r hr => hrow r hr)⟩

/-- A composite applied to the leading `n` qubits of an `N`-qubit state acts as its operations in order,
each as its embedded matrix on the `N`-qubit register (`applyOps`). -/
theorem composite_acts_as_sequence (h : LawfulAmp α P) (nm : String) (n : Nat) (ops : OpList P)
    (hwf : WF (.Composite nm n ops)) (m : Mode) (w : Nat) (hw : OkWidth m w) (N : Nat) (hnN : n ≤ N)
    (hN : N < 64) (v : List (Row α m)) (hlen : v.length = 2 ^ N) (hvw : RowsW m w v) :
    route (α := α) m (.Composite nm n ops) v = some (applyOps (matrix (α := α)) m w N ops v) :=
  composite_route_eq_ops h nm n ops hwf m w hw N hnN hN v hlen hvw

/-! ## (3) placement on chosen qubits: `gates::apply_gate_slice`, `gates::apply_gate_mat_slice` -/

/-- **Single vector.** `apply_gate_slice` of every well-formed gate term on every ordered tuple of
distinct qubits of every register returns, and its result is the embedded matrix times the vector. -/
theorem apply_gate_slice_eq_embed (h : LawfulAmp α P) (g : GateTerm P) (hwf : WF g) (n : Nat)
    (bits : List Nat) (har : nrBits g = bits.length) (hv : validBits n bits = true)
    (hword : WordOK g n) (v : List α) (hlen : v.length = 2 ^ n) :
    applyGateSlice (α := α) .vec g bits n v =
      some (LMat.mulVec (embed n bits (matrix (α := α) g)) v) :=
  applyGateSlice_vec_eq_mulVec h g hwf n bits har hv hword v hlen

/-- **Several states at once.** `apply_gate_mat_slice` on a matrix of `2^n` rows and `K` columns (one
column per state) is the embedded matrix times that matrix. -/
theorem apply_gate_mat_slice_eq_embed (h : LawfulAmp α P) (g : GateTerm P) (hwf : WF g) (n : Nat)
    (bits : List Nat) (har : nrBits g = bits.length) (hv : validBits n bits = true)
    (hword : WordOK g n) (K : Nat) (M : LMat α) (hlen : M.length = 2 ^ n)
    (hrow : ∀ r ∈ M, r.length = K) :
    applyGateSlice (α := α) .mat g bits n M =
      some (mulState (α := α) .mat K (embed n bits (matrix (α := α) g)) M) :=
  applyGateSlice_eq_embed h g hwf .mat K (okWidth_mat K) n bits har hv hword M hlen (fun r hr => hrow r hr)

/-- ... and the multi-state route agrees with the single-vector route on every column: column `k` of the
result is the embedded matrix times column `k` of the input, which is what `apply_gate_slice` returns
for that column. -/
theorem mat_route_columnwise (h : LawfulAmp α P) (g : GateTerm P) (hwf : WF g) (n : Nat)
    (bits : List Nat) (har : nrBits g = bits.length) (hv : validBits n bits = true)
    (hword : WordOK g n) (K : Nat) (M : LMat α) (hlen : M.length = 2 ^ n)
    (hrow : ∀ r ∈ M, r.length = K) (k : Nat) (hk : k < K) :
    ∃ M', applyGateSlice (α := α) .mat g bits n M = some M' ∧
      applyGateSlice (α := α) .vec g bits n (colOf M k) = some (colOf M' k) ∧
      colOf M' k = LMat.mulVec (embed n bits (matrix (α := α) g)) (colOf M k) :=
  applyGateSlice_columnwise h g hwf n bits har hv hword K M hlen hrow k hk

/-- The body of `apply_gate_slice` / `apply_gate_mat_slice` (`placeStep`, `Q1t/Proofs/RouteTerm.lean`:
the two asserts, then the one-qubit fast path — the gate's leading route on each of the `2^bit` blocks —
or the general path — permute, leading route, permute back) for ANY gate whose leading route is correct
(`LeadOK g`, `Q1t/Proofs/RouteLift.lean`: at least one qubit, square matrix of side `2^k`, and
`route g v = (M ⊗ I)·v` on every state of `2^N ≥ 2^k` rows): the placed application is the embedded
matrix.  Both paths are covered, so they agree wherever both apply.  (This is the step that the
structural induction over gate terms iterates; it also covers gates outside the term language, given
their `LeadOK`.) -/
theorem place_step_eq_embed (m : Mode) (w : Nat) (hw : OkWidth m w) (g : GateTerm P)
    (ok : LeadOK (α := α) g) (bits : List Nat) (N : Nat) (har : nrBits g = bits.length)
    (hv : validBits N bits = true) (hword : WordOK g N)
    (v : List (Row α m)) (hlen : v.length = 2 ^ N) (hvw : RowsW m w v) :
    placeStep m g bits N v = some (mulState m w (embed N bits (matrix (α := α) g)) v) :=
  placeStep_spec m w hw g ok bits N har hv hword v hlen hvw

/-! ## (4) inside a simulation state: `VectorState::apply_gate`, `apply_conditional_gate` -/

/-- **Unconditional.** `apply_gate` multiplies the whole state matrix (one column per range of shots) by
the embedded matrix; an arity mismatch is the `InvalidNrBits(given, expected)` error. -/
theorem apply_gate_eq_embed (h : LawfulAmp α P) (g : GateTerm P) (hwf : WF g) (n : Nat) (bits : List Nat)
    (hv : validBits n bits = true) (hword : WordOK g n)
    (K : Nat) (rows : LMat α) (hlen : rows.length = 2 ^ n) (hrow : ∀ r ∈ rows, r.length = K) :
    (nrBits g = bits.length → applyAll (α := α) n rows g bits =
      .ok (some (mulState (α := α) .mat K (embed n bits (matrix (α := α) g)) rows))) ∧
    (nrBits g ≠ bits.length → applyAll (α := α) n rows g bits = .error (bits.length, nrBits g)) :=
  ⟨fun har => applyAll_eq_embed h g hwf n bits har hv hword K rows hlen hrow,
   fun har => applyAll_arity_error g n bits rows har⟩

/-- **Classically conditioned.** For a state of `shots` shots stored as ranges (`counts[k] > 0` shots share
column `k`), and any mask with one bit per shot: `apply_conditional_gate` returns (no panic), the new
state has well-shaped columns, and in the per-shot reading exactly the shots whose mask bit is set carry
`embed(matrix g)·ψ` — the same result the unconditional routes give — while every other shot keeps `ψ`. -/
theorem conditional_eq_unconditional_on_selected (h : LawfulAmp α P) (g : GateTerm P) (hwf : WF g)
    (n : Nat) (bits : List Nat) (har : nrBits g = bits.length) (hv : validBits n bits = true)
    (hword : WordOK g n) (shots : Nat) (counts : List Nat) (states : List (List α))
    (control : List Bool) (hc : control.length = shots) (hsum : counts.sum = shots)
    (hpos : ∀ c ∈ counts, 0 < c) (hcs : counts.length = states.length)
    (hcol : ∀ ψ ∈ states, ψ.length = 2 ^ n) :
    ∃ counts' states',
      applyConditional (α := α) n shots counts states control g bits = .ok counts' states' ∧
      counts'.length = states'.length ∧ (∀ ψ ∈ states', ψ.length = 2 ^ n) ∧
      shotExpand counts' states' =
        onSelected (LMat.mulVec (embed n bits (matrix (α := α) g))) control
          (shotExpand counts states) :=
  applyConditional_per_shot_mulVec h g hwf n bits har hv hword shots counts states control hc hsum hpos
    hcs hcol

/-! ## (5) matrices of composites and loops (also used by C05) -/

/-- `Composite::matrix()` is the ordered product `E_k ⋯ E_2·E_1` of the embedded matrices of its
operations (the first operation acts first). -/
theorem composite_matrix_eq_product (h : LawfulAmp α P) (nm : String) (n : Nat) (ops : OpList P)
    (hwf : WF (.Composite nm n ops)) (hn64 : n < 64) :
    matrix (α := α) (.Composite nm n ops) =
      opsMatrix (matrix (α := α)) n ops (LMat.identity (2 ^ n)) :=
  matrix_composite_eq_product h nm n ops hwf hn64

/-- `Loop::matrix()` is the `k`-th power of the matrix of its body. -/
theorem loop_matrix_eq_pow (h : LawfulAmp α P) (l : String) (k : Nat) (nm : String) (n : Nat)
    (body : OpList P) (hwf : WF (.Loop l k nm n body)) (hn64 : n < 64) :
    matrix (α := α) (.Loop l k nm n body) = mpow (matrix (α := α) (.Composite nm n body)) k :=
  matrix_loop_eq_pow h l k nm n body hwf hn64

/-! ## (5b) unitarity (closes the two cases C05 leaves open) -/

/-- The embedded matrix of a unitary on distinct in-range qubits is unitary
(`LMat.Unitary P d M` := `M` is `d × d` and `M·Mᴴ = 1`, `Q1t/Proofs/LMatBridge.lean`). -/
theorem embed_preserves_unitarity (h : LawfulAmp α P) (n : Nat) (bits : List Nat)
    (hv : validBits n bits = true) (U : LMat α) (hU : LMat.Unitary P (2 ^ bits.length) U) :
    LMat.Unitary P (2 ^ n) (embed n bits U) :=
  embed_unitary h n bits hv U hU

/-- EVERY well-formed gate term — including `Composite` and `Loop` at any nesting depth — has exactly
the documented matrix (`Spec.specMatrix`: controlled = `1 ⊕ G`, `Kron` = `⊗`, composite = ordered product
of the embedded documented factors, loop = power) and that matrix is unitary. -/
theorem term_documented_unitary (h : LawfulAmp α P) (g : GateTerm P) (hwf : WF g)
    (hword : WordOK g (nrBits g)) :
    (matrix g : LMat α) = specMatrix g ∧ LMat.Unitary P (2 ^ nrBits g) (matrix g : LMat α) :=
  good_of_wf h g hwf hword

/-- Sanity of the reference semantics: on the full register in the natural order the embedded matrix is
the matrix itself. -/
theorem embed_full_register (n : Nat) (M : LMat α) (hM : WFMat (2 ^ n) M) :
    embed n (List.range n) M = M :=
  embed_full n M hM

end general

/-! ## (6) the complex numbers are a model of the laws -/

/-- ℂ with the real cosine and sine satisfies `LawfulAmp`: every theorem above holds for the complex gate
matrices at all real parameters. -/
theorem complex_is_model : LawfulAmp ℂ ℝ := Q1t.AmpComplex.lawful

/-- The main theorem at ℂ. -/
theorem apply_gate_slice_eq_embed_complex (g : GateTerm ℝ) (hwf : WF g) (n : Nat) (bits : List Nat)
    (har : nrBits g = bits.length) (hv : validBits n bits = true) (hword : WordOK g n)
    (v : List ℂ) (hlen : v.length = 2 ^ n) :
    applyGateSlice (α := ℂ) .vec g bits n v = some (LMat.mulVec (embed n bits (matrix (α := ℂ) g)) v) :=
  apply_gate_slice_eq_embed complex_is_model g hwf n bits har hv hword v hlen

/-! ## non-vacuity, unfolding of the auxiliary notions, concrete instances -/

example (n : Nat) (bits : List Nat) :
    validBits n bits = true ↔ (∀ q ∈ bits, q < n) ∧ bits.Nodup := Q1t.Proofs.BitPerm.validBits_iff n bits
example {α : Type} [CommRing α] (d : Nat) (M : LMat α) :
    WFMat d M ↔ (M.length = d ∧ ∀ row ∈ M, row.length = d) := Iff.rfl
example {α : Type} [CommRing α] (w : Nat) (v : List (List α)) :
    RowsW (α := α) .mat w v ↔ ∀ r ∈ v, r.length = w := Iff.rfl
example (w : Nat) : OkWidth .vec w ↔ w = 1 := ⟨fun h => h rfl, fun h _ => h⟩
example {P : Type} (g : GateTerm P) (n : Nat) : WordOK g n ↔ (hasComposite g = true → n < 64) := Iff.rfl
example : hasComposite (.C (.Kron .CX (.RX ())) : GateTerm Unit) = false := rfl
example : validBits 5 [3, 0, 4] = true := by decide
example : validBits 5 [3, 0, 3] = false := by decide
example : validBits 3 [3] = false := by decide

/-- a nested term with every combinator is well formed -/
def sample : GateTerm Empty :=
  .Kron (.C (.Composite "g" 2 (.cons .H [1] (.cons .CX [1, 0] (.cons (.Loop "l" 3 "b" 1 (.cons .T [0] .nil)) [0] .nil)))))
    (.Kron .CX .H)

example : WF sample := by
  simp only [sample, WF, WFOps, nrBits]
  decide
example : nrBits sample = 6 := rfl
example : hasComposite sample = true := rfl
/-- ill-formed: a composite whose operation repeats a qubit / is out of range / has the wrong arity -/
example : ¬ WF (.Composite "g" 2 (.cons .CX [0, 0] .nil) : GateTerm Empty) := by
  simp only [WF, WFOps]; decide
example : ¬ WF (.Composite "g" 2 (.cons .H [2] .nil) : GateTerm Empty) := by
  simp only [WF, WFOps]; decide
example : ¬ WF (.Composite "g" 2 (.cons .CX [0] .nil) : GateTerm Empty) := by
  simp only [WF, WFOps, nrBits]; decide

/-- the hypotheses are satisfiable over the exact field `Q8 = ℚ(ζ₈)`, and the general theorem specialises
to the nested sample term placed on a permuted tuple of a 7-qubit register -/
example (v : List Q8) (hlen : v.length = 2 ^ 7) :
    applyGateSlice (α := Q8) .vec sample [6, 2, 0, 5, 1, 3] 7 v =
      some (LMat.mulVec (embed 7 [6, 2, 0, 5, 1, 3] (matrix (α := Q8) sample)) v) :=
  apply_gate_slice_eq_embed Q8.lawful sample (by simp only [sample, WF, WFOps, nrBits]; decide) 7 _ rfl
    (by decide) (fun _ => by decide) v hlen

/-- the tensor product with a two-qubit first factor (the former defect D6, repaired in the code):
vector route = matrix route = embedded Kronecker matrix -/
example (v : List Q8) (hlen : v.length = 2 ^ 3) :
    applyGateSlice (α := Q8) .vec (.Kron .CX .H : GateTerm Empty) [0, 1, 2] 3 v =
      some (LMat.mulVec (embed 3 [0, 1, 2] (LMat.kron (matrix (α := Q8) (.CX : GateTerm Empty))
        (matrix (α := Q8) (.H : GateTerm Empty)))) v) := by
  have := apply_gate_slice_eq_embed Q8.lawful (.Kron .CX .H : GateTerm Empty) (by simp [WF]) 3 [0, 1, 2] rfl
    (by decide) (fun hc => by simp [hasComposite] at hc) v hlen
  rwa [matrix] at this

/-- a concrete evaluation of model and reference (kernel-checked, exact arithmetic): CX with control
qubit 1 and target qubit 0 of a 2-qubit register maps `|01⟩` to `|11⟩` -/
example : applyGateSlice (α := Q8) .vec (.CX : GateTerm Empty) [1, 0] 2 [0, 1, 0, 0] = some [0, 0, 0, 1] ∧
    LMat.mulVec (embed 2 [1, 0] (matrix (α := Q8) (.CX : GateTerm Empty))) [0, 1, 0, 0] = [0, 0, 0, 1] := by
  decide +kernel

/-- `embed` is not the identity and depends on the order of the tuple -/
example : embed 2 [1, 0] (matrix (α := Q8) (.CX : GateTerm Empty)) ≠
    embed 2 [0, 1] (matrix (α := Q8) (.CX : GateTerm Empty)) := by
  decide +kernel

end Q1t.Props.C04

import Q1t.Model.Bits
import Q1t.Model.Register
import Q1t.Spec.Bits
import Q1t.Spec.Register
import Q1t.Proofs.Bits
import Q1t.Proofs.Register
/-!
# C08 — classical register writes are confined; histogram views agree

Property theorems only; proofs are in `Q1t/Proofs/Bits.lean` and `Q1t/Proofs/Register.lean`.
Every statement is about the executable models `Q1t.Bits` / `Q1t.Register` of the `u64` manipulations
in `src/support.rs`, `src/vectorstate.rs`, `src/stabilizer/state.rs` and `src/circuit.rs` (tied to the
code by the correspondence run of `tools/check.py C08`), and quantifies over all register words
(`BitVec 64`), all bit positions, all lists, all programs, both backends.  Bit `i` of a word `w` is
`w.getLsbD i` (= `w.toNat.testBit i`).

Side conditions that are real (a Rust shift by ≥ 64 panics with overflow checks on and wraps the
shift amount without) are stated as guards, and the panic outcome of the model is characterised.
-/
namespace Q1t.Props.C08
open Q1t.Bits Q1t.Register

/-! ## single-bit writes (`measure_into`, `peek_into`, both backends) -/

/-- **write_frame**: writing classical bit `c` changes no other bit. -/
theorem write_frame (w w' : Word) (c : Nat) (v : Bool) (h : writeBit w c v = some w')
    (j : Nat) (hj : j ≠ c) : w'.getLsbD j = w.getLsbD j := by
  rw [Q1t.Proofs.Bits.writeBit_getLsbD h j, if_neg hj]

/-- **write_value**: ... and bit `c` holds the value written. -/
theorem write_value (w w' : Word) (c : Nat) (v : Bool) (h : writeBit w c v = some w') :
    w'.getLsbD c = v := by
  rw [Q1t.Proofs.Bits.writeBit_getLsbD h c, if_pos rfl]

/-- the write completes exactly for `c < 64`; `c ≥ 64` (possible when `nr_cbits > 64`, which
`Circuit::new` accepts) is the shift-overflow panic -/
theorem write_panics_iff (w : Word) (c : Nat) (v : Bool) : writeBit w c v = none ↔ 64 ≤ c :=
  Q1t.Proofs.Bits.writeBit_panics_iff w c v

/-- the model's write is the reference write -/
theorem write_eq_reference (w : Word) (c : Nat) (v : Bool) (hc : c < 64) :
    writeBit w c v = some (Spec.Bits.write w c v) :=
  Q1t.Proofs.Bits.writeBit_eq_spec hc

/-- **later_write_wins**: a later write to the same bit replaces the earlier one. -/
theorem later_write_wins (w w1 w2 : Word) (c : Nat) (v1 v2 : Bool)
    (h1 : writeBit w c v1 = some w1) (h2 : writeBit w1 c v2 = some w2) : writeBit w c v2 = some w2 :=
  Q1t.Proofs.Register.later_write_wins h1 h2

/-! ## the helper loops of `support.rs` -/

/-- **reverse_bits_bit**: for every word and every width `n ≤ 64`, bit `j` of `reverse_bits(idx, n)` is
bit `n-1-j` of `idx` for `j < n` and 0 above (higher bits of `idx` are lost). -/
theorem reverse_bits_bit (idx : Word) (n : Nat) (hn : n ≤ 64) :
    ∃ r, reverseBits idx n = some r ∧ ∀ j, r.getLsbD j = (decide (j < n) && idx.getLsbD (n - 1 - j)) :=
  Q1t.Proofs.Bits.reverse_bits_bit idx n hn

/-- a width above 64 is the shift-overflow panic (first iteration shifts by `n-1 ≥ 64`) -/
theorem reverse_bits_panics (idx : Word) (n : Nat) (hn : 64 < n) : reverseBits idx n = none :=
  Q1t.Proofs.Bits.reverse_bits_panics idx n hn

/-- **shuffle_bits_bit**: for every word and every list of positions below 64 (any length, repeats
allowed), bit `j` of `shuffle_bits(idx, bits)` is the OR of the bits `i` of `idx` with `bits[i] = j`
(`idx` has no bits at `i ≥ 64`, so a list longer than 64 places zeros). -/
theorem shuffle_bits_bit (idx : Word) (bits : List Nat) (h : ∀ b ∈ bits, b < 64) :
    ∃ r, shuffleBits idx bits = some r ∧
      ∀ j, (r.getLsbD j = true ↔ ∃ i, bits[i]? = some j ∧ idx.getLsbD i = true) :=
  Q1t.Proofs.Bits.shuffle_bits_bit idx bits h

/-- `shuffle_bits` panics exactly when some listed position is ≥ 64 -/
theorem shuffle_bits_panics_iff (idx : Word) (bits : List Nat) :
    shuffleBits idx bits = none ↔ ∃ b ∈ bits, 64 ≤ b :=
  Q1t.Proofs.Bits.shuffle_bits_panics_iff idx bits

/-- both helpers equal their reference definitions -/
theorem helpers_eq_reference (idx : Word) (n : Nat) (bits : List Nat) (hn : n ≤ 64) (h : ∀ b ∈ bits, b < 64) :
    reverseBits idx n = some (Spec.Bits.reverse idx n) ∧ shuffleBits idx bits = some (Spec.Bits.shuffle idx bits) :=
  ⟨Q1t.Proofs.Bits.reverse_bits_eq_spec idx n hn, Q1t.Proofs.Bits.shuffle_bits_eq_spec idx bits h⟩

/-! ## measure-all / peek-all -/

/- Full statement (FALSE on the pinned code, see `measure_all_repeated_targets_differ`): for all lists
`cbits` (repeats allowed) both backends write qubit `i` to the `i`-th listed bit, a later write to the
same bit replacing the earlier one.  The vector backend (measure_all and peek_all) and the stabilizer
backend's peek_all OR the values of repeated targets instead (D14).  Proved: the statement for
distinct listed bits (`cbits.Nodup`), the later-write-wins statement for the stabilizer measure_all
for all lists, and the exact OR behaviour for all lists. -/

/-- **measure_all_bits** (vector backend, `measure_all` and `peek_all`; distinct listed bits): qubit `i`
goes to the `i`-th listed bit, every unlisted bit is unchanged. -/
theorem measure_all_bits_partial (cbits : List Nat) (qs : List Bool) (w : Word)
    (hlen : cbits.length = qs.length) (hn64 : qs.length ≤ 64) (hc : ∀ c ∈ cbits, c < 64) (hnd : cbits.Nodup) :
    ∃ w', measureAllVecWord qs.length cbits (idxOfQubits qs) w = some w' ∧
      (∀ i (h : i < cbits.length), w'.getLsbD cbits[i] = qs[i]'(by omega)) ∧
      (∀ j, j ∉ cbits → w'.getLsbD j = w.getLsbD j) :=
  Q1t.Proofs.Register.measure_all_bits_vector cbits qs w hlen hn64 hc hnd

/-- stabilizer backend, `measure_all`, ALL lists: the bit named last at position `i` holds the outcome of
qubit `i` (later write wins), unlisted bits are unchanged. -/
theorem measure_all_bits_stabilizer (n : Nat) (cbits : List Nat) (outcome : Nat → Bool) (w : Word)
    (hlen : cbits.length ≤ n) (hc : ∀ c ∈ cbits, c < 64) :
    ∃ w', measureAllStabWord n cbits outcome w = .ok w' ∧
      (∀ i (h : i < cbits.length), (∀ i', i < i' → cbits[i']? ≠ some cbits[i]) → w'.getLsbD cbits[i] = outcome i) ∧
      (∀ j, j ∉ cbits → w'.getLsbD j = w.getLsbD j) :=
  Q1t.Proofs.Register.measure_all_bits_stabilizer n cbits outcome w hlen hc

/-- stabilizer backend, `peek_all`, distinct listed bits -/
theorem peek_all_bits_stabilizer_partial (cbits : List Nat) (outcome : Nat → Bool) (w : Word)
    (hc : ∀ c ∈ cbits, c < 64) (hnd : cbits.Nodup) :
    ∃ w', peekAllStabWord cbits outcome w = some w' ∧
      (∀ i (h : i < cbits.length), w'.getLsbD cbits[i] = outcome i) ∧
      (∀ j, j ∉ cbits → w'.getLsbD j = w.getLsbD j) :=
  Q1t.Proofs.Register.peek_all_bits_stabilizer cbits outcome w hc hnd

/-- what the vector backend does for ALL lists: listed bits are cleared, then bit `j` receives the OR of
the qubits whose listed position is `j` -/
theorem measure_all_vector_or (n : Nat) (cbits : List Nat) (qs : List Bool) (w : Word)
    (hn : qs.length = n) (hn64 : n ≤ 64) (hc : ∀ c ∈ cbits, c < 64) :
    ∃ w', measureAllVecWord n cbits (idxOfQubits qs) w = some w' ∧
      ∀ j, (w'.getLsbD j = true ↔
        ((w.getLsbD j = true ∧ j ∉ cbits) ∨ ∃ i, cbits[i]? = some j ∧ qs.getD i false = true)) :=
  Q1t.Proofs.Bits.measureAllVecWord_orSem n cbits qs w hn hn64 hc

/-- ... and the stabilizer backend's `peek_all`, for ALL lists -/
theorem peek_all_stabilizer_or (cbits : List Nat) (outcome : Nat → Bool) (w : Word) (hc : ∀ c ∈ cbits, c < 64) :
    ∃ w', peekAllStabWord cbits outcome w = some w' ∧
      ∀ j, (w'.getLsbD j = true ↔
        ((w.getLsbD j = true ∧ j ∉ cbits) ∨ ∃ i, cbits[i]? = some j ∧ outcome i = true)) :=
  Q1t.Proofs.Bits.peekAllStabWord_orSem cbits outcome w hc

/-- **Negative witness (D14)**: `x 0; measure_all(&[0,0])` on 2 qubits.  Qubit 0 is 1, qubit 1 is 0;
the later write (qubit 1 → bit 0) should win and leave bit 0 = 0.  The stabilizer backend does that,
the vector backend ORs and leaves bit 0 = 1; the two backends disagree on the same valid program. -/
theorem measure_all_repeated_targets_differ :
    measureAllVecWord 2 [0, 0] (idxOfQubits [true, false]) 0 = some 1 ∧
    measureAllStabWord 2 [0, 0] (outcomeOf [true, false]) 0 = .ok 0 ∧
    Spec.Bits.writeAll (outcomeOf [true, false]) [0, 0] 0 0 = 0 ∧
    peekAllStabWord [0, 0] (outcomeOf [true, false]) 0 = some 1 := by decide

/-- the same at circuit level: the whole run, both backends, 1 shot -/
theorem D14_circuit_witness :
    (run .vector 2 2 1 [.gate .x [0], .measureAll [0, 0]]).map (fun t => t.map fun tr => tr.map (·.word)) = .ok [[0, 1]] ∧
    (run .stabilizer 2 2 1 [.gate .x [0], .measureAll [0, 0]]).map (fun t => t.map fun tr => tr.map (·.word)) = .ok [[0, 0]] := by
  decide

/-! ## whole operations and programs -/

/-- **write confinement**, for every operation (valid or not, repeated targets or not), either backend:
if the operation completes, every register bit it does not name as a write target keeps its value. -/
theorem write_confinement (be : Backend) (nq : Nat) (op : Op) (s s' : Shot)
    (h : stepShot be nq op s = .ok s') (j : Nat) (hj : j ∉ Q1t.Proofs.Register.writtenBits op) :
    s'.word.getLsbD j = s.word.getLsbD j :=
  Q1t.Proofs.Register.stepShot_frame be nq op s s' h j hj

/-- **gates_and_resets_frame**: gates, conditional gates, resets, reset-all and barriers never touch
the register. -/
theorem gates_and_resets_frame (be : Backend) (nq : Nat) (s s' : Shot) :
    (∀ g bits, stepShot be nq (.gate g bits) s = .ok s' → s'.word = s.word) ∧
    (∀ ctl t g bits, stepShot be nq (.cond ctl t g bits) s = .ok s' → s'.word = s.word) ∧
    (∀ q, stepShot be nq (.reset q) s = .ok s' → s'.word = s.word) ∧
    (stepShot be nq .resetAll s = .ok s' → s'.word = s.word) ∧
    (∀ bits, stepShot be nq (.barrier bits) s = .ok s' → s'.word = s.word) :=
  ⟨fun _ _ h => Q1t.Proofs.Register.gates_and_resets_frame be nq _ s s' rfl h,
   fun _ _ _ _ h => Q1t.Proofs.Register.gates_and_resets_frame be nq _ s s' rfl h,
   fun _ h => Q1t.Proofs.Register.gates_and_resets_frame be nq _ s s' rfl h,
   fun h => Q1t.Proofs.Register.gates_and_resets_frame be nq _ s s' rfl h,
   fun _ h => Q1t.Proofs.Register.gates_and_resets_frame be nq _ s s' rfl h⟩

/-- **unwritten_zero**: from the zeroed register of `execute_with`, a bit that no operation of the
program names as a write target is 0 at every point of the run. -/
theorem unwritten_zero (be : Backend) (nq : Nat) (ops : List Op) (tr : List Shot)
    (h : runShot be nq ops (initShot nq) = .ok tr) (j : Nat)
    (hj : j ∉ ops.flatMap Q1t.Proofs.Register.writtenBits) : ∀ s' ∈ tr, s'.word.getLsbD j = false := by
  intro s' hs'
  rw [Q1t.Proofs.Register.runShot_frame be nq ops (initShot nq) tr h j hj s' hs']; simp [initShot]

/-- the register never leaves its width: if every write target is below `nc`, every word of the run is
below `2^nc` -/
theorem register_within_width (be : Backend) (nq nc : Nat) (ops : List Op) (tr : List Shot)
    (h : runShot be nq ops (initShot nq) = .ok tr)
    (hops : ∀ op ∈ ops, ∀ c ∈ Q1t.Proofs.Register.writtenBits op, c < nc) :
    ∀ s' ∈ tr, s'.word.toNat < 2 ^ nc :=
  Q1t.Proofs.Register.run_word_lt be nq nc ops tr h hops

/- Full statement (FALSE on the pinned code for repeated measure-all/peek-all targets, D14): every
valid program runs, on both backends, exactly as the reference semantics says. -/
/-- **model_refines_reference_partial**: for every valid program whose measure-all/peek-all lists have
distinct bits, on both backends, the trace of every shot (basis state and register word after every
operation) is the reference trace; in particular there is no panic and no error. -/
theorem model_refines_reference_partial (be : Backend) (nq nc : Nat) (hn64 : nq ≤ 64) (ops : List Op) (s : Shot)
    (hv : ∀ op ∈ ops, Spec.Register.opValid nq nc op = true ∧ Q1t.Proofs.Register.OpNodup op)
    (hq : s.qs.length = nq) :
    runShot be nq ops s = .ok (Spec.Register.trace nq ops s) :=
  Q1t.Proofs.Register.runShot_eq_spec be nq nc hn64 ops s hv hq

/-! ## histogram views -/

/-- **histogram_counts**: the map view lists each distinct register word once, with the number of
shots holding it (which is positive); every shot's word is listed; the counts sum to `N`. -/
theorem histogram_counts (cs : List Word) :
    ((histogram cs).map (·.1)).Nodup ∧
    (∀ k c, (k, c) ∈ histogram cs → 0 < c ∧ c = cs.count k) ∧
    (∀ w ∈ cs, (w, cs.count w) ∈ histogram cs) ∧
    ((histogram cs).map (·.2)).sum = cs.length := by
  have h := Q1t.Proofs.Register.histBy_spec (fun w : Word => w) cs
  have e : ∀ k : Word, cs.countP (fun x => decide (x = k)) = cs.count k := fun k => by
    rw [List.count_eq_countP]; rfl
  refine ⟨h.1, fun k c hm => ?_, fun w hw => ?_, h.2.2.2⟩
  · have := h.2.1 k c hm; rw [e] at this; exact this
  · have := h.2.2.1 w hw; rw [e] at this; exact this

/-- the string view has the same shape: distinct keys, positive counts, sum `N` -/
theorem histogram_string_counts (nc : Nat) (cs : List Word) :
    ((histogramString nc cs).map (·.1)).Nodup ∧
    (∀ k c, (k, c) ∈ histogramString nc cs → 0 < c ∧ c = cs.countP (fun w => decide (fmtBin nc w.toNat = k))) ∧
    ((histogramString nc cs).map (·.2)).sum = cs.length :=
  have h := Q1t.Proofs.Register.histBy_spec (fun w : Word => fmtBin nc w.toNat) cs
  ⟨h.1, h.2.1, h.2.2.2⟩

/-- **histogram_vec**: for `nc < 64` and words within the width, the vector view has length `2^nc`
and entry `k` is the number of shots whose word is `k`; no index panic. -/
theorem histogram_vec_spec (nc : Nat) (cs : List Word) (hnc : nc < 64) (hin : ∀ w ∈ cs, w.toNat < 2 ^ nc) :
    ∃ v, histogramVec nc cs = some v ∧ v.length = 2 ^ nc ∧
      ∀ k (h : k < v.length), v[k] = cs.countP (fun w => decide (w.toNat = k)) :=
  Q1t.Proofs.Register.histogramVec_spec nc cs hnc hin

/-- **string keys**: for a register of `nc ≥ 1` bits and a word within the width, the key has exactly
`nc` characters, character `nc-1-i` is bit `i` (most significant first), the last character is bit 0. -/
theorem string_key_bits (nc k : Nat) (h0 : 0 < nc) (hk : k < 2 ^ nc) :
    (fmtBin nc k).length = nc ∧
    (∀ i (_hi : i < nc) (h : nc - 1 - i < (fmtBin nc k).length),
        (fmtBin nc k)[nc - 1 - i] = if k.testBit i then '1' else '0') ∧
    (fmtBin nc k).getLast? = some (if k.testBit 0 then '1' else '0') := by
  rw [Q1t.Proofs.Register.fmtBin_eq_key nc k h0 hk]
  refine ⟨Q1t.Proofs.Register.key_length nc k, fun i hi _ => Q1t.Proofs.Register.key_getElem nc k i hi, ?_⟩
  obtain ⟨m, rfl⟩ : ∃ m, nc = m + 1 := ⟨nc - 1, by omega⟩
  rw [Q1t.Proofs.Register.key_succ]; simp

/-- distinct words have distinct keys (any width) -/
theorem string_key_injective (nc a b : Nat) (h : fmtBin nc a = fmtBin nc b) : a = b :=
  Q1t.Proofs.Register.fmtBin_injective nc a b h

/-- side condition made explicit: for a register of 0 classical bits the key is `"0"`, one character
wide, not the empty string -/
theorem string_key_width_zero : fmtBin 0 0 = ['0'] := by decide

/-- **views_agree**: for every shot's word `w` the map view lists `w`, the string view lists the
MSB-first `nc`-character key of `w`, and the vector view has index `w`, all with the same count. -/
theorem views_agree (nc : Nat) (cs : List Word) (h0 : 0 < nc) (hnc : nc < 64)
    (hin : ∀ w ∈ cs, w.toNat < 2 ^ nc) (w : Word) (hw : w ∈ cs) :
    (w, cs.count w) ∈ histogram cs ∧
    (Spec.Register.key nc w.toNat, cs.count w) ∈ histogramString nc cs ∧
    ∃ v, histogramVec nc cs = some v ∧ v[w.toNat]? = some (cs.count w) :=
  Q1t.Proofs.Register.views_agree nc cs h0 hnc hin w hw

/-! ## zero shots (D9) and non-vacuity -/

/-- with zero shots a vector-backend `reset` panics (it is measure + conditional X, and
`collect_conditional_ranges(&[0], &[])` indexes `control[0]`); the stabilizer backend's does not -/
theorem zero_shots_reset_witness :
    run .vector 1 1 0 [.reset 0] = .panic "collect_conditional_ranges control[0]" ∧
    run .stabilizer 1 1 0 [.reset 0] = .ok [] := by decide

/-- the hypotheses of the refinement theorem are met by a non-trivial program (permuted measure-all into
a wide register, single writes, reset, bit 63) and its reference trace really moves bits -/
example : (∀ op ∈ [Op.gate .x [1], .measureAll [63, 2, 5], .peek 1 0, .reset 1, .measure 1 2],
    Spec.Register.opValid 3 64 op = true) := by decide
example : (runShot .vector 3 [Op.gate .x [1], .measureAll [63, 2, 5], .peek 1 0, .reset 1, .measure 1 2] (initShot 3)).map
      (fun tr => tr.map (·.word.toNat)) = .ok [0, 4, 5, 5, 1] := by decide
example : (runShot .stabilizer 3 [Op.gate .x [1], .measureAll [63, 2, 5], .peek 1 0, .reset 1, .measure 1 2] (initShot 3)).map
      (fun tr => tr.map (·.word.toNat)) = .ok [0, 4, 5, 5, 1] := by decide
example : reverseBits 10 4 = some 5 ∧ shuffleBits 0xc [0, 3, 1, 2] = some 6 := by decide
example : histogram [3, 1, 3] = [(3, 2), (1, 1)] ∧ histogramVec 2 [3, 1, 3] = some [0, 1, 0, 2] ∧
    histogramString 2 [3, 1, 3] = [(['1', '1'], 2), (['0', '1'], 1)] := by decide

end Q1t.Props.C08

import Q1t.Model.Expr
import Q1t.Spec.ExprGrammar
import Q1t.Gen.ExprPatterns
import Q1t.Proofs.ExprTotal
/-!
# C14 — arithmetic expressions evaluate to their conventional value

Property theorems only.  Statements are about the executable model `Q1t.Expr` of `src/expression.rs`
(tied to the code by the correspondence run of `tools/check.py C14` and by the re-extracted pattern
strings `Q1t.Gen.exprPatterns`) and about the reference grammar `Q1t.Spec.ExprGrammar`.
-/
namespace Q1t.Props.C14
open Q1t.Expr Q1t.Spec.ExprGrammar

/-- The regular expressions (and the function dispatch of `eval_with_parameters`) in `src/expression.rs`
are, character for character, the ones the model re-implements. -/
theorem patterns_as_modelled :
    Q1t.Gen.exprPatterns = modelledPatterns ∧ Q1t.Gen.exprFunctionArms = modelledFunctionArms :=
  ⟨rfl, rfl⟩

/-- Totality: for every text the model terminates with a value and a strictly shorter remainder, or with a
`ParseError`; the recursion budget (`length + 1`) is never exhausted, so no loop of the parser can
spin without consuming input. -/
theorem parse_total (s : List Char) :
    (∃ e r, parse s = .ok (e, r) ∧ r.length < s.length) ∨ (∃ err, parse s = .err err) :=
  Q1t.Proofs.Expr.parse_total s

theorem parse_consumes (s : List Char) (e : Expr) (r : List Char) (h : parse s = .ok (e, r)) :
    r.length < s.length :=
  Q1t.Proofs.Expr.parse_consumes s e r h

/-- No input reaches a panic site or exhausts the budget. -/
theorem parse_never_panics (s : List Char) : parse s ≠ .panic ∧ parse s ≠ .fuel :=
  ⟨Q1t.Proofs.Expr.parse_ne_panic s, Q1t.Proofs.Expr.parse_ne_fuel s⟩

end Q1t.Props.C14

import Q1t.Model.Expr
import Q1t.Spec.ExprGrammar
import Q1t.Gen.ExprPatterns
import Q1t.Proofs.ExprTotal
import Q1t.Proofs.ExprRoundTrip
import Q1t.Proofs.ExprErrors
import Q1t.Proofs.ExprValue
import Q1t.Proofs.ExprClosed
/-!
# C14 — arithmetic expressions evaluate to their conventional value

Property theorems only.  Statements are about the executable model `Q1t.Expr` of `src/expression.rs`
(tied to the code by the correspondence run of `tools/check.py C14` and by the re-extracted pattern
strings `Q1t.Gen.exprPatterns`) and about the reference grammar `Q1t.Spec.ExprGrammar`
(`Ast`, `Cst` = tree with layout and explicit parentheses, `Conv` = conventionally parenthesised,
`layOut`/`render` = the conventional renderer, `Stops` = remainders that cannot continue an expression).
`Q1t.Proofs.Expr.parsed c` is the expression the parser builds for `c`: the tree itself, except that a run
of directly adjacent unary minus signs is cancelled pairwise (`--1` gives `1`), as
`parse_negative_expression` does.  Proofs are in `Q1t/Proofs/Expr*.lean`.
-/
namespace Q1t.Props.C14
open Q1t.Expr Q1t.Spec.ExprGrammar
open Q1t.Proofs.Expr (parsed interpOf NoClose PowTo)

/-- The regular expressions (and the function dispatch of `eval_with_parameters`) in `src/expression.rs`
are, character for character, the ones the model re-implements. -/
theorem patterns_as_modelled :
    Q1t.Gen.exprPatterns = modelledPatterns ∧ Q1t.Gen.exprFunctionArms = modelledFunctionArms :=
  ⟨rfl, rfl⟩

/-! ## (1) totality -/

/-- For every text the model terminates with a value and a strictly shorter remainder, or with a
`ParseError`; the recursion budget (`length + 1`) is never exhausted, so no loop of the parser can
spin without consuming input. -/
theorem parse_total (s : List Char) :
    (∃ e r, parse s = .ok (e, r) ∧ r.length < s.length) ∨ (∃ err, parse s = .err err) :=
  Q1t.Proofs.Expr.parse_total s

theorem parse_consumes (s : List Char) (e : Expr) (r : List Char) (h : parse s = .ok (e, r)) :
    r.length < s.length :=
  Q1t.Proofs.Expr.parse_consumes s e r h

/-- No input reaches a panic site or exhausts the budget. -/
theorem parse_never_panics (s : List Char) : parse s ≠ .panic ∧ parse s ≠ .fuel :=
  ⟨Q1t.Proofs.Expr.parse_ne_panic s, Q1t.Proofs.Expr.parse_ne_fuel s⟩

/-! ## (2) errors -/

/-- Text that cannot start an expression (after the blanks: nothing, or neither a digit, `.`, `-`, `(`,
`pi` nor a function name) is rejected with `InvalidArgument(text)`. -/
theorem parse_error_cannot_start (s : List Char) (h : cannotStart s = true) :
    parse s = .err (.invalidArgument s) :=
  Q1t.Proofs.Expr.parse_cannotStart s h

/-- An open parenthesis (plain, or of a function call) whose content is a complete expression that is
followed by neither `)` nor anything that continues the expression: `UnclosedParentheses(text)`.
∀ contents `c` (any conventionally parenthesised tree, any layout), ∀ blanks, ∀ function, ∀ tail. -/
theorem parse_error_unclosed (c : Cst) (hwf : c.WF = true) (hc : Conv c = true) (hs : c.bigInt = false)
    (w w2 : List Char) (hw : w.all isBlank = true) (hw2 : w2.all isBlank = true) (f : Fn)
    (tail : List Char) (ht : Stops tail = true ∧ Q1t.Proofs.Expr.headNB tail ≠ some ')') :
    parse (w ++ '(' :: (c.flatten ++ tail)) = .err (.unclosedParentheses (w ++ '(' :: (c.flatten ++ tail))) ∧
    parse (w ++ (f.name ++ (w2 ++ '(' :: (c.flatten ++ tail)))) =
      .err (.unclosedParentheses (w ++ (f.name ++ (w2 ++ '(' :: (c.flatten ++ tail))))) :=
  ⟨Q1t.Proofs.Expr.parse_unclosed_paren c hwf hc hs w hw tail ht,
   Q1t.Proofs.Expr.parse_unclosed_call c hwf hc hs f w w2 hw hw2 tail ht⟩

/-- A dangling binary operator: ∀ expression `c` (any conventionally parenthesised tree, any layout),
∀ blanks, ∀ `op ∈ {+,-,*,/,^}`, ∀ `tail` that cannot start an expression:
`parse (c ++ blanks ++ op ++ tail) = InvalidArgument(tail)`. -/
theorem parse_error_dangling (c : Cst) (hwf : c.WF = true) (hc : Conv c = true)
    (hs : c.bigInt = false) (w : List Char) (hw : w.all isBlank = true) (op : Char)
    (hop : op = '+' ∨ op = '-' ∨ op = '*' ∨ op = '/' ∨ op = '^') (tail : List Char)
    (ht : cannotStart tail = true) :
    parse (c.flatten ++ (w ++ op :: tail)) = .err (.invalidArgument tail) :=
  Q1t.Proofs.Expr.parse_dangling_any c hwf hc hs w hw op hop tail ht

/-- A signed exponent without parentheses is a dangling `^` (the text after `^` is not an operand of the
power level): `c ^ blanks - anything` is rejected with `InvalidArgument(text after ^)`, ∀ `c`.
(Documented divergence from calculators that accept `2^-1`; `2^(-1)` is accepted.) -/
theorem parse_error_signed_exponent (c : Cst) (hwf : c.WF = true) (hc : Conv c = true)
    (hs : c.bigInt = false) (w w' : List Char) (hw : w.all isBlank = true)
    (hw' : w'.all isBlank = true) (t : List Char) :
    parse (c.flatten ++ (w ++ '^' :: (w' ++ '-' :: t))) = .err (.invalidArgument (w' ++ '-' :: t)) :=
  Q1t.Proofs.Expr.parse_dangling_power_any c hwf hc hs w hw _ _ (Q1t.Proofs.Expr.powTo_minus w' t hw')

/-! ## (3) round trip and value -/

/- Full statement wanted (property C14): for every `Ast` with well-formed tokens, every layout and every
remainder that `Stops`, `parse (render ast layout ++ rest)` succeeds with remainder `rest` and a value
equal to the conventional value of `ast`.  The pinned code violates it for integer literals ≥ 2^64
(`parse::<u64>()` fails; known finding `C14-int-literal-overflow`, witness below), so the theorems
carry the decidable hypothesis `bigInt = false`. -/

/-- Round trip for concrete syntax: ∀ tree `c` (well-formed tokens, blank layout strings, conventional
parenthesisation plus any redundant parentheses, no integer literal ≥ 2^64), ∀ remainder that `Stops`:
the parser returns `parsed c` and hands back exactly `rest`; and for every interpretation of the float
operations with involutive negation, the value is the conventional value of the tree. -/
theorem parse_cst_partial (c : Cst) (hwf : c.WF = true) (hc : Conv c = true) (hs : c.bigInt = false)
    (rest : List Char) (hr : Stops rest = true) :
    parse (c.flatten ++ rest) = .ok (parsed c, rest) ∧
    ∀ {F : Type} (I : FloatOps F), (∀ x, I.neg (I.neg x) = x) →
      eval I (parsed c) = .ok (evalConv (interpOf I) c.toAst) :=
  ⟨Q1t.Proofs.Expr.parse_flatten c hwf hc hs rest hr,
   fun I hneg => Q1t.Proofs.Expr.eval_parsed I hneg c⟩

/-- The same at the level of IEEE doubles: the code's interpretation (`str::parse::<f64>` on the matched
text, `+ - * /`, `powf`, libm) against the reference interpretation (nearest double of the token's
decimal value, same operations).  Without directly adjacent minus signs unconditionally; with them
(`--x`) under the hypothesis that `Float` negation is an involution (true of IEEE negation, not
provable about Lean's opaque `Float`). -/
theorem parse_cst_ieee_partial (c : Cst) (hwf : c.WF = true) (hc : Conv c = true) (hs : c.bigInt = false)
    (rest : List Char) (hr : Stops rest = true) :
    parse (c.flatten ++ rest) = .ok (parsed c, rest) ∧
    (c.adjNeg = false → eval floatOps (parsed c) = .ok (evalConv ieee c.toAst)) ∧
    ((∀ x : Float, - -x = x) → eval floatOps (parsed c) = .ok (evalConv ieee c.toAst)) :=
  Q1t.Proofs.Expr.parse_cst_ieee c hwf hc hs rest hr

/-- A literal is read the same way by the code (re-lexing the matched text) and by the reference
(nearest double of the decimal value of the token): ∀ well-formed tokens. -/
theorem literal_bits_agree (t : LitTok) (ht : t.WF = true) :
    litBits (Q1t.Proofs.Expr.litOf t) = t.bits :=
  Q1t.Proofs.Expr.litBits_agree ht

/-- Whatever `parse` returns, on any text at all, evaluates without `UnknownFunction`/`UnknownVariable`,
under every interpretation and every parameter list. -/
theorem parsed_eval_ok (s : List Char) (e : Expr) (r : List Char) (h : parse s = .ok (e, r))
    {F : Type} (I : FloatOps F) (params : List (List Char × F)) : ∃ v, evalWith I params e = .ok v :=
  Q1t.Proofs.Expr.eval_closed I params e (Q1t.Proofs.Expr.parse_closed h)

/-- Round trip for the conventional renderer: ∀ `ast`, ∀ `layout` (blank strings and redundant-parenthesis
flags), ∀ `rest` that `Stops`. -/
theorem parse_render_partial (a : Ast) (l : Layout) (rest : List Char) (hwf : a.WF = true)
    (hs : a.bigInt = false) (hl : l.OK) (hr : Stops rest = true) :
    ∃ e, parse (render a l ++ rest) = .ok (e, rest) ∧
      (∀ {F : Type} (I : FloatOps F), (∀ x, I.neg (I.neg x) = x) →
        eval I e = .ok (evalConv (interpOf I) a)) ∧
      ((∀ x : Float, - -x = x) → eval floatOps e = .ok (evalConv ieee a)) :=
  Q1t.Proofs.Expr.parse_render a l rest hwf hs hl hr

/-! ## non-vacuity, witnesses (kernel-evaluated on the model) -/

/-- `1 - 2 - 3`, `8/4/2`: left-associative; `2^3^2`: right-associative; `-2^2` is `-(2^2)`. -/
example : parse "1-2 - 3".toList =
    .ok (.difference (.difference (.value (.int ['1'])) (.value (.int ['2']))) (.value (.int ['3'])), []) := by
  decide +kernel
example : parse "2^3^2 , x".toList =
    .ok (.power (.value (.int ['2'])) (.power (.value (.int ['3'])) (.value (.int ['2']))), " , x".toList) := by
  decide +kernel
example : parse "-2^2".toList = .ok (.negative (.power (.value (.int ['2'])) (.value (.int ['2']))), []) := by
  decide +kernel

/-- The hypotheses of `parse_cst_partial` are satisfiable, and its conclusion is what the kernel computes:
`sin( 1.5e3 )*-pi` followed by `) 0`. -/
example :
    let c : Cst := .bin .mul (.app [] .sin [] (.lit [' '] (.dec ['1'] ['5'] (some ⟨'e', none, ['3']⟩))) [' '])
      [] (.neg [] (.lit [] .pi))
    c.WF = true ∧ Conv c = true ∧ c.bigInt = false ∧ Stops ") 0".toList = true ∧
    c.flatten = "sin( 1.5e3 )*-pi".toList ∧
    parse (c.flatten ++ ") 0".toList) = .ok (parsed c, ") 0".toList) := by
  decide +kernel

/-- The error theorems are not vacuous: their hypotheses hold and their conclusions are what the kernel
computes, for `) x` (cannot start), `(1+2 ]` and `sqrt (1+2 ]` (unclosed), `1+2* ` and `-2^` (dangling). -/
example :
    cannotStart ") x".toList = true ∧ parse ") x".toList = .err (.invalidArgument ") x".toList) ∧
    Stops " ]".toList = true ∧
    parse "(1+2 ]".toList = .err (.unclosedParentheses "(1+2 ]".toList) ∧
    parse "sqrt (1+2 ]".toList = .err (.unclosedParentheses "sqrt (1+2 ]".toList) ∧
    cannotStart " ".toList = true ∧ parse "1+2* ".toList = .err (.invalidArgument " ".toList) ∧
    parse "-2^".toList = .err (.invalidArgument []) := by
  decide +kernel

/-- Negative witness for the known finding `C14-int-literal-overflow`: the integer literal 2^64 is a
well-formed token of the grammar, its conventional value is the double 2^64, and the parser rejects it;
with a trailing `.` the same digits are accepted. -/
theorem int_literal_overflow_rejected :
    (LitTok.int "18446744073709551616".toList).WF = true ∧
    (Ast.lit (.int "18446744073709551616".toList)).bigInt = true ∧
    parse "18446744073709551616".toList = .err (.invalidArgument "18446744073709551616".toList) ∧
    parse "18446744073709551616.".toList = .ok (.value (.real "18446744073709551616.".toList), []) := by
  decide +kernel

/-- Documented divergence: `2^-1` is rejected (`InvalidArgument("-1")`), `2^(-1)` is accepted. -/
theorem signed_exponent_witness :
    parse "2^-1".toList = .err (.invalidArgument "-1".toList) ∧
    parse "2^(-1)".toList = .ok (.power (.value (.int ['2'])) (.negative (.value (.int ['1']))), []) := by
  decide +kernel

/-- Recorded behaviour: adjacent minus signs cancel at parse time; a literal is not extended past what the
patterns admit (`1e5` is `1` then `e5`, `007` is `0` then `07`, `pixel` is `pi` then `xel`). -/
theorem recorded_behaviour :
    parse "--1".toList = .ok (.value (.int ['1']), []) ∧
    parse "1e5".toList = .ok (.value (.int ['1']), "e5".toList) ∧
    parse "007".toList = .ok (.value (.int ['0']), "07".toList) ∧
    parse "pixel".toList = .ok (.value .pi, "xel".toList) ∧
    parse "+1".toList = .err (.invalidArgument "+1".toList) := by
  decide +kernel

end Q1t.Props.C14

import Q1t.Proofs.Builders
import Q1t.Proofs.NoPanicRoute
import Q1t.Proofs.NoPanicStabC03
import Q1t.Proofs.NoPanicStabRefuseC03
import Q1t.Proofs.C18Witness
import Q1t.Proofs.ExportNoPanicOQBridge
import Q1t.Proofs.ExportNoPanicCQBridge
import Q1t.Proofs.ExportNoPanicLatex
import Q1t.Proofs.DetShapeAll
/-!
# C18 — invalid requests yield errors, never panics or silently wrong runs

Property theorems only.  Models: `Q1t.Builders` (every building call of `impl Circuit` and the
`circuit!` macro), `Q1t.Sim` (execution on both representations, with explicit panic outcomes),
`Q1t.ExportClass` / `Q1t.Latex` (outcome class of the exporters); `Q1t.WellFormed` is the decidable
predicate naming what the builders do not check.  The generated tables `Gen.checkedMethods` /
`Gen.resultBuilders` are re-extracted from `/repo/src/*.rs` on every run.

The FULL statement of the property — "a circuit whose building calls all succeeded can be executed on
either representation and exported to every format without a panic, and malformed operand lists are
rejected identically by both representations" — is FALSE on the pinned code: the negative witnesses at
the end of this file are circuits the builders accept on which the (validated) model panics, or on which
the two representations answer differently.  What is proved instead carries the hypothesis `ExecWF`
(the execution-relevant conjuncts of `WellFormed`) and is named `…_partial`.  Where a defect was repaired in /repo
(`fix:` commits) the witness is now the positive statement (`…_same_error`, `…_exports`, `…_rejected_identically`).
-/
namespace Q1t.Props.C18
open Q1t Q1t.Sim Q1t.Builders Q1t.WellFormed Q1t.ExportClass

/-! ## the circuit-building macro -/

/-- every builder that returns a `Result` has a `$res?` arm in `circuit_method_check!` (D8, fixed) -/
theorem macro_propagates : ∀ m ∈ Q1t.Gen.resultBuilders, m ∈ Q1t.Gen.checkedMethods := by decide

/-- the catch-all arm of `circuit_method_check!` drops the result: a builder missing from the list
would have its error swallowed -/
theorem macro_fallback_drops : Q1t.Gen.fallbackPropagates = false ∧ Q1t.Gen.uncheckedArms = [] := by decide

/-- **the macro stops at, and returns, the first error of any builder call it wraps** — for all register
sizes and all call lists: with `firstError` the first failing call (index, error) of the sequence,
`circuit!` returns that error having evaluated exactly the calls up to it; without a failing call it
returns the circuit holding the operations of all calls. -/
theorem macro_returns_first_error {P : Type} (nq nc : Nat) (calls : List (Call P)) :
    match firstError (Circ.new nq nc) calls 0 with
    | some (j, f) => runMacro Q1t.Gen.checkedMethods nq nc calls = (.error f, j + 1)
    | none => ∃ c', runMacro Q1t.Gen.checkedMethods nq nc calls = (.ok c', calls.length) ∧
        c'.ops = calls.map Call.op ∧ c'.nq = nq ∧ c'.nc = nc := by
  have h := macroLoop_spec Q1t.Gen.checkedMethods calls
    (fun call _ => (name_mem_resultBuilders call).imp (macro_propagates _) id) (Circ.new nq nc) 0
  cases hfe : firstError (Circ.new nq nc) calls 0 with
  | none =>
    rw [hfe] at h
    simpa [runMacro, Circ.new] using h
  | some jf =>
    obtain ⟨j, f⟩ := jf
    rw [hfe] at h
    simpa [runMacro] using h

/-! ## the builders -/

/-- the model of every building call is the reference reading: reject with the first out-of-range index
in validation order, otherwise append the operation -/
theorem builder_model_is_reference {P : Type} (c : Circ P) (call : Call P) : step c call = stepRef c call :=
  step_eq_stepRef c call

/-- **builder_atomic**: a failed call leaves the circuit unchanged -/
theorem builder_atomic {P : Type} (c : Circ P) (call : Call P) (f : Fail) (h : (step c call).2 = .error f) :
    (step c call).1 = c := step_atomic c call f h

/-- a call is accepted iff every index it validates is in range … -/
theorem builder_accepts_iff {P : Type} (c : Circ P) (call : Call P) :
    (step c call).2 = .ok () ↔ ∀ rl ∈ call.checks, ∀ x ∈ rl.2, x < rl.1.bound c := step_ok_iff c call

/-- … and then appends exactly its operation -/
theorem builder_appends {P : Type} (c : Circ P) (call : Call P) (h : (step c call).2 = .ok ()) :
    (step c call).1 = { c with ops := c.ops ++ [call.op] } := step_ok_appends c call h

/-- **builder_errors**: a call fails with `f` iff `f` is `InvalidQBit b` / `InvalidCBit b` for the FIRST
out-of-range index `b`, in the order in which the call validates its index lists -/
theorem builder_errors {P : Type} (c : Circ P) (call : Call P) (f : Fail) :
    (step c call).2 = .error f ↔
      ∃ r b, f = .err (r.err b) ∧ ∃ L1 pre post L2, call.checks = L1 ++ (r, pre ++ b :: post) :: L2 ∧
        (∀ rl ∈ L1, ∀ x ∈ rl.2, x < rl.1.bound c) ∧ (∀ y ∈ pre, y < r.bound c) ∧ r.bound c ≤ b := by
  rw [step_error_iff]
  constructor
  · rintro ⟨r, b, hv, rfl⟩
    exact ⟨r, b, rfl, (firstViolation_eq_some c call.checks r b).mp hv⟩
  · rintro ⟨r, b, rfl, h⟩
    exact ⟨r, b, (firstViolation_eq_some c call.checks r b).mpr h, rfl⟩

/-- no building call panics, whatever its arguments -/
theorem builder_never_panics {P : Type} (c : Circ P) (call : Call P) (site : String) :
    (step c call).2 ≠ .error (.panic site) := step_never_panics c call site

/-- any sequence of calls: no result is a panic, and the circuit holds exactly the operations of the
accepted calls, in order, with in-range indices -/
theorem builder_sequences {P : Type} (nq nc : Nat) (calls : List (Call P)) :
    (∀ r ∈ (runCalls (Circ.new nq nc) calls).2, ∀ site, r ≠ .error (.panic site)) ∧
    (runCalls (Circ.new nq nc) calls).1.ops = accepted (Circ.new nq nc) calls ∧
    ∀ op ∈ (runCalls (Circ.new nq nc) calls).1.ops, opInRange nq nc op := by
  refine ⟨runCalls_results _ calls, ?_, built_inRange nq nc calls⟩
  simpa [Circ.new] using (runCalls_ops (Circ.new nq nc) calls).1

/-! ## execution

FULL statement (false on the pinned code, see the witnesses): for every circuit built by accepted calls and
every shot count, `execute` and `reexecute` on either representation return `ok` or an error, and the two
representations return the same constructor.  Proved: the same under `ExecWF`. -/

section exec
variable {α P : Type} [CommRing α] [Amp α P] [SimAmp α]

/-- **no_panic_partial** (vector representation; execute): for every circuit built through the public
calls that satisfies `ExecWF` (arity, distinct operands, `measure_all` width, classical bits < 64, at most
64 controls, ≥ 1 shot), every run accepted by the oracle interpreter — i.e. for every sequence of random
draws — ends in `ok` with a well-shaped state and one register word per shot.  No error; no panic except
the numeric `WeightedIndex::new(..).unwrap()` (an all-zero or NaN weight vector: excluded in exact
arithmetic by the normalisation theorem of C02, not by operand shapes). -/
theorem no_panic_partial (hα : LawfulAmp α P) (nq nc : Nat) (calls : List (Call P)) (shots : Nat)
    (hwf : ExecWF (runCalls (Circ.new nq nc) calls).1 shots = true)
    (ds : List Prog.Draw) (r : Except Fail (VecState α × List Nat)) (ds' : List Prog.Draw)
    (hrun : Prog.runOracle (execOps (vecBackend (α := α) (P := P)) (VecState.new nq shots)
      (List.replicate shots 0) (runCalls (Circ.new nq nc) calls).1.ops) ds = some (r, ds')) :
    (∃ s c, r = .ok (s, c) ∧ VInv nq shots s ∧ c.length = shots) ∨
      r = .error (.panic "WeightedIndex::new(..).unwrap()") := by
  have hsz := runCalls_ops (Circ.new (P := P) nq nc) calls
  obtain ⟨hN, hgood⟩ := execWF_opGood hwf (by
    rw [hsz.2.1, hsz.2.2]; exact built_inRange nq nc calls)
  rw [hsz.2.1, hsz.2.2] at hgood
  have hnq : nq < 64 := by
    have := hwf
    simp only [ExecWF, Bool.and_eq_true, decide_eq_true_eq] at this
    rw [hsz.2.1] at this; exact this.1.2
  have hsafe := execOps_vec_safe (nc := nc) (routeTotal_of_c04 hα nq hnq) hN _ (VecState.new nq shots)
    (List.replicate shots 0) (new_vinv hN) (by simp) hgood
  have := hsafe.sound ds r ds' hrun
  match r, this with
  | .ok (s, c), h => exact Or.inl ⟨s, c, rfl, h.1, h.2⟩
  | .error (.err e), h => exact absurd h (by simp [Outcome, noErr])
  | .error (.panic site), h => exact Or.inr (by rw [show site = _ from h])

/-- **no_panic_partial** (vector; re-execute): the same from ANY state a successful run can have ended in -/
theorem no_panic_reexecute_partial (hα : LawfulAmp α P) (nq nc : Nat) (calls : List (Call P)) (shots : Nat)
    (hwf : ExecWF (runCalls (Circ.new nq nc) calls).1 shots = true)
    (s0 : VecState α) (c0 : List Nat) (hs0 : VInv nq shots s0) (hc0 : c0.length = shots)
    (ds : List Prog.Draw) (r : Except Fail (VecState α × List Nat)) (ds' : List Prog.Draw)
    (hrun : Prog.runOracle (execOps (vecBackend (α := α) (P := P)) s0 c0
      (runCalls (Circ.new nq nc) calls).1.ops) ds = some (r, ds')) :
    (∃ s c, r = .ok (s, c) ∧ VInv nq shots s ∧ c.length = shots) ∨
      r = .error (.panic "WeightedIndex::new(..).unwrap()") := by
  have hsz := runCalls_ops (Circ.new (P := P) nq nc) calls
  obtain ⟨hN, hgood⟩ := execWF_opGood hwf (by
    rw [hsz.2.1, hsz.2.2]; exact built_inRange nq nc calls)
  rw [hsz.2.1, hsz.2.2] at hgood
  have hnq : nq < 64 := by
    have := hwf
    simp only [ExecWF, Bool.and_eq_true, decide_eq_true_eq] at this
    rw [hsz.2.1] at this; exact this.1.2
  have hsafe := execOps_vec_safe (nc := nc) (routeTotal_of_c04 hα nq hnq) hN _ s0 c0 hs0 hc0 hgood
  have := hsafe.sound ds r ds' hrun
  match r, this with
  | .ok (s, c), h => exact Or.inl ⟨s, c, rfl, h.1, h.2⟩
  | .error (.err e), h => exact absurd h (by simp [Outcome, noErr])
  | .error (.panic site), h => exact Or.inr (by rw [show site = _ from h])

end exec

/-- **either representation** (`…_partial`: the per-operation obligations of the representation are the
hypothesis `hB`).  For ANY backend whose nine `QuState` operations are safe on the placements `V` it handles
(`BackendSafe`), where `V` covers every valid placement of the gates in a class `E` and the executor's basis
changes (`Handles`), `do_execute_with` on an `ExecWF` circuit built through the public calls whose gates are in
`E` returns a value satisfying the invariant, an error in `okErr`, or a panic in `allowed`.
The vector representation is the instance `E = everything`, `okErr = ∅`, `allowed = {numeric}`
(`vecBackendSafe`, `vecHandles`); the stabilizer representation is the instance `E = is_stabilizer()`,
`okErr = ∅`, `allowed = ∅` (`stabBackendSafe`, `stabHandles`; `no_panic_stabilizer_partial` below). -/
theorem exec_either_representation_partial {W P S : Type} (B : Backend W P S) (okErr : SimErr → Prop)
    (allowed : String → Prop) (Inv : S → Prop) (E : GateTerm P → Prop) (V : GateTerm P → List Nat → Prop)
    (nq nc : Nat) (calls : List (Call P)) (shots : Nat)
    (hB : BackendSafe B okErr allowed Inv nq shots V) (hH : Handles nq E V)
    (hwf : ExecWF (runCalls (Circ.new nq nc) calls).1 shots = true)
    (hE : ∀ op ∈ (runCalls (Circ.new nq nc) calls).1.ops, opGate E op)
    (s0 : S) (c0 : List Nat) (hs0 : Inv s0) (hc0 : c0.length = shots)
    (ds : List Prog.Draw) (r : Except Fail (S × List Nat)) (ds' : List Prog.Draw)
    (hrun : Prog.runOracle (execOps B s0 c0 (runCalls (Circ.new nq nc) calls).1.ops) ds = some (r, ds')) :
    Outcome okErr allowed (fun x : S × List Nat => Inv x.1 ∧ x.2.length = shots) r := by
  have hsz := runCalls_ops (Circ.new (P := P) nq nc) calls
  obtain ⟨_, hgood⟩ := execWF_opGood hwf (by
    rw [hsz.2.1, hsz.2.2]; exact built_inRange nq nc calls)
  rw [hsz.2.1, hsz.2.2] at hgood
  exact (execOps_safe (nc := nc) hB hH _ s0 c0 hs0 hc0 hgood hE).sound ds r ds' hrun

/-! ### the stabilizer representation

`BackendSafe` of the stabilizer representation is no longer a hypothesis: `Proofs/NoPanicStab.lean` lifts
tableau-level progress (`TabTotal`: gate application, `measure`, `collapse`, `reset` return `Ok` on tableaux in an
invariant) through the column bookkeeping of `StabilizerState` (`stabBackendSafe`), and `Proofs/NoPanicStabC03.lean`
discharges `TabTotal` from C03's progress theorems for the REACHABLE tableaux, for all `n` (`tabTotal_reach`).
What remains is C03's own open hypothesis `DetShapeHolds` (the deterministic branch of `measure` finds its row). -/

/-- the invariant of the stabilizer state: register sizes, positive column counts summing to the shots, every
column tableau reachable (C03's `Reach`, ghost amplitudes in ℚ(ζ₈)) from |0…0⟩ -/
abbrev StabInv (nq shots : Nat) : StabState → Prop :=
  SInv (Q1t.Proofs.TabG.TReach (α := Q8) (A := Empty) nq Gen.phaseTable Gen.conjTable Gen.conjNoArityCheck) nq shots

/-- **no_panic_stabilizer_partial**: for every circuit built through the public calls that satisfies `ExecWF` and
that `Circuit::is_stabilizer_circuit()` accepts (the condition under which `execute` chooses the stabilizer
representation), every oracle run of `do_execute_with` on the stabilizer representation — from the fresh state or
from ANY state a run can have ended in (re-execute) — ends `Ok`: no error, no panic.  All register sizes, all
shot counts, all draws; relative to `DetShapeHolds` only. -/
theorem no_panic_stabilizer_partial {W : Type} (half : W) (nq nc : Nat) (calls : List (Call Empty)) (shots : Nat)
    (hD : Q1t.Proofs.TabG.DetShapeHolds (α := Q8) (A := Empty) nq Gen.phaseTable Gen.conjTable Gen.conjNoArityCheck)
    (hwf : ExecWF (runCalls (Circ.new nq nc) calls).1 shots = true)
    (hstab : Conj.isStabilizerCircuit (runCalls (Circ.new nq nc) calls).1.ops = true)
    (s0 : StabState) (c0 : List Nat) (hs0 : s0 = StabState.new nq shots ∨ StabInv nq shots s0) (hc0 : c0.length = shots)
    (ds : List Prog.Draw) (r : Except Fail (StabState × List Nat)) (ds' : List Prog.Draw)
    (hrun : Prog.runOracle (execOps (stabBackend (α := W) half Gen.phaseTable
      (Q1t.Proofs.TabG.conjOfT (A := Empty) Gen.conjTable Gen.conjNoArityCheck)) s0 c0
      (runCalls (Circ.new nq nc) calls).1.ops) ds = some (r, ds')) :
    ∃ s c, r = .ok (s, c) ∧ StabInv nq shots s ∧ c.length = shots := by
  have hsz := runCalls_ops (Circ.new (P := Empty) nq nc) calls
  obtain ⟨hN, hgood⟩ := execWF_opGood hwf (by
    rw [hsz.2.1, hsz.2.2]; exact built_inRange nq nc calls)
  rw [hsz.2.1, hsz.2.2] at hgood
  have hinv : StabInv nq shots s0 := by
    rcases hs0 with h | h
    · rw [h]; exact Q1t.Proofs.TabG.new_sinv_reach _ _ _ nq shots hN
    · exact h
  have hsafe := Q1t.Proofs.TabG.execOps_stab_safe_generated half nq hD shots nc hN _ hgood hstab s0 c0 hinv hc0
  have := hsafe.sound ds r ds' hrun
  match r, this with
  | .ok (s, c), h => exact ⟨s, c, rfl, h.1, h.2⟩
  | .error (.err e), h => exact absurd h (by simp [Outcome, noErr])
  | .error (.panic site), h => exact absurd h (by simp [Outcome])

/-- **both representations return the same constructor** (`…_partial`): on an `ExecWF` circuit that
`is_stabilizer_circuit()` accepts, the vector representation returns `Ok` (or the numeric panic) and the stabilizer
representation returns `Ok` — relative to `DetShapeHolds`; no `BackendSafe` hypothesis is left. -/
theorem reps_same_constructor_partial {α : Type} [CommRing α] [Amp α Empty] [SimAmp α] (hα : LawfulAmp α Empty)
    {W : Type} (half : W) (nq nc : Nat) (calls : List (Call Empty)) (shots : Nat)
    (hD : Q1t.Proofs.TabG.DetShapeHolds (α := Q8) (A := Empty) nq Gen.phaseTable Gen.conjTable Gen.conjNoArityCheck)
    (hwf : ExecWF (runCalls (Circ.new nq nc) calls).1 shots = true)
    (hstab : Conj.isStabilizerCircuit (runCalls (Circ.new nq nc) calls).1.ops = true)
    (dv ds : List Prog.Draw) (rv : Except Fail (VecState α × List Nat)) (rs : Except Fail (StabState × List Nat))
    (dv' ds' : List Prog.Draw)
    (hv : Prog.runOracle (execOps (vecBackend (α := α) (P := Empty)) (VecState.new nq shots)
      (List.replicate shots 0) (runCalls (Circ.new nq nc) calls).1.ops) dv = some (rv, dv'))
    (hs : Prog.runOracle (execOps (stabBackend (α := W) half Gen.phaseTable
      (Q1t.Proofs.TabG.conjOfT (A := Empty) Gen.conjTable Gen.conjNoArityCheck)) (StabState.new nq shots)
      (List.replicate shots 0) (runCalls (Circ.new nq nc) calls).1.ops) ds = some (rs, ds')) :
    ((∃ x, rv = .ok x) ∨ rv = .error (.panic "WeightedIndex::new(..).unwrap()")) ∧ (∃ y, rs = .ok y) := by
  constructor
  · rcases no_panic_partial hα nq nc calls shots hwf dv rv dv' hv with ⟨s, c, h, _⟩ | h
    · exact Or.inl ⟨_, h⟩
    · exact Or.inr h
  · obtain ⟨s, c, h, _⟩ := no_panic_stabilizer_partial half nq nc calls shots hD hwf hstab _ _ (Or.inl rfl) (by simp)
      ds rs ds' hs
    exact ⟨_, h⟩

/-- **no_panic_stabilizer, no hypothesis left**: `DetShapeHolds` is proved by C03 (`Q1t.Props.C03.det_shape_holds`,
`Proofs/DetShapeAll.lean`). -/
theorem no_panic_stabilizer_unconditional {W : Type} (half : W) (nq nc : Nat) (calls : List (Call Empty)) (shots : Nat)
    (hwf : ExecWF (runCalls (Circ.new nq nc) calls).1 shots = true)
    (hstab : Conj.isStabilizerCircuit (runCalls (Circ.new nq nc) calls).1.ops = true)
    (s0 : StabState) (c0 : List Nat) (hs0 : s0 = StabState.new nq shots ∨ StabInv nq shots s0) (hc0 : c0.length = shots)
    (ds : List Prog.Draw) (r : Except Fail (StabState × List Nat)) (ds' : List Prog.Draw)
    (hrun : Prog.runOracle (execOps (stabBackend (α := W) half Gen.phaseTable
      (Q1t.Proofs.TabG.conjOfT (A := Empty) Gen.conjTable Gen.conjNoArityCheck)) s0 c0
      (runCalls (Circ.new nq nc) calls).1.ops) ds = some (r, ds')) :
    ∃ s c, r = .ok (s, c) ∧ StabInv nq shots s ∧ c.length = shots :=
  no_panic_stabilizer_partial half nq nc calls shots (Q1t.Proofs.DetPlan.detShapeHolds_generated nq) hwf hstab s0 c0
    hs0 hc0 ds r ds' hrun

/-- **both representations return the same constructor, no hypothesis left** (see `reps_same_constructor_partial`). -/
theorem reps_same_constructor_unconditional {α : Type} [CommRing α] [Amp α Empty] [SimAmp α] (hα : LawfulAmp α Empty)
    {W : Type} (half : W) (nq nc : Nat) (calls : List (Call Empty)) (shots : Nat)
    (hwf : ExecWF (runCalls (Circ.new nq nc) calls).1 shots = true)
    (hstab : Conj.isStabilizerCircuit (runCalls (Circ.new nq nc) calls).1.ops = true)
    (dv ds : List Prog.Draw) (rv : Except Fail (VecState α × List Nat)) (rs : Except Fail (StabState × List Nat))
    (dv' ds' : List Prog.Draw)
    (hv : Prog.runOracle (execOps (vecBackend (α := α) (P := Empty)) (VecState.new nq shots)
      (List.replicate shots 0) (runCalls (Circ.new nq nc) calls).1.ops) dv = some (rv, dv'))
    (hs : Prog.runOracle (execOps (stabBackend (α := W) half Gen.phaseTable
      (Q1t.Proofs.TabG.conjOfT (A := Empty) Gen.conjTable Gen.conjNoArityCheck)) (StabState.new nq shots)
      (List.replicate shots 0) (runCalls (Circ.new nq nc) calls).1.ops) ds = some (rs, ds')) :
    ((∃ x, rv = .ok x) ∨ rv = .error (.panic "WeightedIndex::new(..).unwrap()")) ∧ (∃ y, rs = .ok y) :=
  reps_same_constructor_partial hα half nq nc calls shots (Q1t.Proofs.DetPlan.detShapeHolds_generated nq) hwf hstab
    dv ds rv rs dv' ds' hv hs

/-! ### the refusal path: a caller-chosen stabilizer representation and a term that does not claim a rule

`execute()` chooses the stabilizer representation only when `is_stabilizer_circuit()` holds, but
`execute_with(.., QuStateRepr::stabilizer)` and `StabilizerState` itself accept any circuit.  Then the tableau
refuses the first non-claiming term that is actually applied with the ERROR `NotAStabilizer`, from row 0 of the
first column, before anything is written (`Proofs/NoPanicStabRefuseC03.lean`: `reach_refuses`, from C06's model via
`refuse_exact` — for a well-formed term on a slice of its width the refusal is `NotAStabilizer`, not an arity error and
not the index panic of `Composite::conjugate`). -/

/-- **every `ExecWF` circuit on the stabilizer representation, whatever its gates**: every oracle run ends `Ok` (in the
invariant) or `Err(NotAStabilizer)` — no other error, no panic.  (A CONDITIONAL gate that does not claim is only
refused when some shot satisfies its condition: `apply_conditional_gate` conjugates only those columns; hence `Ok`
stays possible for circuits with such gates.) -/
theorem stabilizer_ok_or_refuses_partial {W : Type} (half : W) (nq nc : Nat) (calls : List (Call Empty)) (shots : Nat)
    (hwf : ExecWF (runCalls (Circ.new nq nc) calls).1 shots = true)
    (s0 : StabState) (c0 : List Nat) (hs0 : s0 = StabState.new nq shots ∨ StabInv nq shots s0) (hc0 : c0.length = shots)
    (ds : List Prog.Draw) (r : Except Fail (StabState × List Nat)) (ds' : List Prog.Draw)
    (hrun : Prog.runOracle (execOps (stabBackend (α := W) half Gen.phaseTable
      (Q1t.Proofs.TabG.conjOfT (A := Empty) Gen.conjTable Gen.conjNoArityCheck)) s0 c0
      (runCalls (Circ.new nq nc) calls).1.ops) ds = some (r, ds')) :
    (∃ s c, r = .ok (s, c) ∧ StabInv nq shots s ∧ c.length = shots) ∨ r = .error (.err .notAStabilizer) := by
  have hsz := runCalls_ops (Circ.new (P := Empty) nq nc) calls
  obtain ⟨hN, hgood⟩ := execWF_opGood hwf (by
    rw [hsz.2.1, hsz.2.2]; exact built_inRange nq nc calls)
  rw [hsz.2.1, hsz.2.2] at hgood
  have hinv : StabInv nq shots s0 := by
    rcases hs0 with h | h
    · rw [h]; exact Q1t.Proofs.TabG.new_sinv_reach _ _ _ nq shots hN
    · exact h
  have := (Q1t.Proofs.TabG.execOps_stab_any_generated half nq shots nc hN _ hgood s0 c0 hinv hc0).sound ds r ds' hrun
  match r, this with
  | .ok (s, c), h => exact Or.inl ⟨s, c, rfl, h.1, h.2⟩
  | .error (.err e), h => exact Or.inr (by rw [show e = _ from h])
  | .error (.panic site), h => exact absurd h (by simp [Outcome])

/-- **stabilizer_refuses_nonclaiming_partial**: an `ExecWF` circuit built through the public calls whose operations
are `pre ++ gate(g, bits) :: post`, where `is_stabilizer_circuit()` holds of `pre` and the term `g` does NOT claim a
rule (`is_stabilizer() = false`: `T`, a rotation, a `C<G>`, a `Kron` / `Composite` / `Loop` with such a part): on
the stabilizer representation EVERY oracle run — from the fresh state or any state of the invariant, all register
sizes, shots, draws — ends in `Err(NotAStabilizer)`: never `Ok`, never a panic, no other error.  The operations of
`pre` run as in `no_panic_stabilizer_unconditional` (no error at all: the proof runs them under `okErr = ∅`), the error
is the answer of `apply_gate(g, bits)` on the first column. -/
theorem stabilizer_refuses_nonclaiming_partial {W : Type} (half : W) (nq nc : Nat) (calls : List (Call Empty))
    (shots : Nat) (hwf : ExecWF (runCalls (Circ.new nq nc) calls).1 shots = true)
    (pre post : List (COp Empty)) (g : GateTerm Empty) (bits : List Nat)
    (hops : (runCalls (Circ.new nq nc) calls).1.ops = pre ++ .gate g bits :: post)
    (hpre : Conj.isStabilizerCircuit pre = true) (hg : Conj.isStabilizer g = false)
    (s0 : StabState) (c0 : List Nat) (hs0 : s0 = StabState.new nq shots ∨ StabInv nq shots s0) (hc0 : c0.length = shots)
    (ds : List Prog.Draw) (r : Except Fail (StabState × List Nat)) (ds' : List Prog.Draw)
    (hrun : Prog.runOracle (execOps (stabBackend (α := W) half Gen.phaseTable
      (Q1t.Proofs.TabG.conjOfT (A := Empty) Gen.conjTable Gen.conjNoArityCheck)) s0 c0
      (runCalls (Circ.new nq nc) calls).1.ops) ds = some (r, ds')) :
    r = .error (.err .notAStabilizer) := by
  have hsz := runCalls_ops (Circ.new (P := Empty) nq nc) calls
  obtain ⟨hN, hgood⟩ := execWF_opGood hwf (by
    rw [hsz.2.1, hsz.2.2]; exact built_inRange nq nc calls)
  rw [hsz.2.1, hsz.2.2, hops] at hgood
  rw [hops] at hrun
  have hinv : StabInv nq shots s0 := by
    rcases hs0 with h | h
    · rw [h]; exact Q1t.Proofs.TabG.new_sinv_reach _ _ _ nq shots hN
    · exact h
  have := (Q1t.Proofs.TabG.execOps_stab_refuses_generated half nq shots nc hN pre post g bits hgood hpre hg s0 c0
    hinv hc0).sound ds r ds' hrun
  match r, this with
  | .ok _, h => exact h.elim
  | .error (.err e), h => rw [show e = _ from h]
  | .error (.panic site), h => exact absurd h (by simp [Outcome])

/-- **never silently wrong**: on such a circuit the vector representation returns `Ok` (or the numeric panic) and
the stabilizer representation returns `Err(NotAStabilizer)` — it never returns a result for a gate it cannot
simulate. -/
theorem nonclaiming_vector_ok_stabilizer_err_partial {α : Type} [CommRing α] [Amp α Empty] [SimAmp α]
    (hα : LawfulAmp α Empty) {W : Type} (half : W) (nq nc : Nat) (calls : List (Call Empty)) (shots : Nat)
    (hwf : ExecWF (runCalls (Circ.new nq nc) calls).1 shots = true)
    (pre post : List (COp Empty)) (g : GateTerm Empty) (bits : List Nat)
    (hops : (runCalls (Circ.new nq nc) calls).1.ops = pre ++ .gate g bits :: post)
    (hpre : Conj.isStabilizerCircuit pre = true) (hg : Conj.isStabilizer g = false)
    (dv ds : List Prog.Draw) (rv : Except Fail (VecState α × List Nat)) (rs : Except Fail (StabState × List Nat))
    (dv' ds' : List Prog.Draw)
    (hv : Prog.runOracle (execOps (vecBackend (α := α) (P := Empty)) (VecState.new nq shots)
      (List.replicate shots 0) (runCalls (Circ.new nq nc) calls).1.ops) dv = some (rv, dv'))
    (hs : Prog.runOracle (execOps (stabBackend (α := W) half Gen.phaseTable
      (Q1t.Proofs.TabG.conjOfT (A := Empty) Gen.conjTable Gen.conjNoArityCheck)) (StabState.new nq shots)
      (List.replicate shots 0) (runCalls (Circ.new nq nc) calls).1.ops) ds = some (rs, ds')) :
    ((∃ x, rv = .ok x) ∨ rv = .error (.panic "WeightedIndex::new(..).unwrap()")) ∧
      rs = .error (.err .notAStabilizer) := by
  constructor
  · rcases no_panic_partial hα nq nc calls shots hwf dv rv dv' hv with ⟨s, c, h, _⟩ | h
    · exact Or.inl ⟨_, h⟩
    · exact Or.inr h
  · exact stabilizer_refuses_nonclaiming_partial half nq nc calls shots hwf pre post g bits hops hpre hg _ _
      (Or.inl rfl) (by simp) ds rs ds' hs

/-! ## the exporters

FULL statement: every circuit whose building calls succeeded is exported to every format without a panic.
False on the pinned code (witnesses below).  Proved for all three exporters, as statements about the exporter
MODELS of C11 (`Q1t.OpenQasm`, table `libTable` = what the templates re-extracted from the source compile to),
C12 (`Q1t.CQ`, generated table `Gen.cqGates`) and C13 (`Q1t.Latex`), under `WellFormed`.  For LaTeX C13's
theorem (`circuitLatex_ok_or_err`: no panic on `opOk ∧ opSafe`) covers a CONDITIONAL gate only when it is a
one-column library gate (no `I`, `Kron`, `Composite`, `Loop` under a condition) with distinct condition bits; that
is no panic class of the code (no witness exists), so it is not a conjunct of `WellFormed` but the explicit extra
hypothesis `condOneColumn` of the LaTeX part. -/

/-- **exports_never_panic_partial** (OpenQASM, c-QASM, LaTeX): for every circuit built through the public calls that
satisfies `WellFormed`, the model of `Circuit::open_qasm()` and the model of `Circuit::c_qasm()` (for any rendering
of numbers `N`) return a program or an error — never the `panic` outcome; so does the model of `Circuit::latex()` when, in
addition, the conditional gates are one-column gates under distinct condition bits (`condOneColumn`).  The circuit is handed to the models
through `ofCirc`, whose gate naming the models read back as the same term (`export_input_is_the_circuit`). -/
theorem exports_never_panic_partial {P : Type} (N : CQ.Num P) (nq nc : Nat) (calls : List (Call P)) (shots : Nat)
    (hwf : WellFormed (runCalls (Circ.new nq nc) calls).1 shots = true) :
    OpenQasm.exportCircuit OpenQasm.libTable (OpenQasm.ofCirc (runCalls (Circ.new nq nc) calls).1) ≠ .panic ∧
    CQ.exportText Gen.cqGates N (CQ.ofCirc (runCalls (Circ.new nq nc) calls).1) ≠ .panic ∧
    (condOneColumn (runCalls (Circ.new nq nc) calls).1 = true →
      (∃ t, Latex.circuitLatex (toLatexCirc (runCalls (Circ.new nq nc) calls).1) = .ok t) ∨
      (∃ e, Latex.circuitLatex (toLatexCirc (runCalls (Circ.new nq nc) calls).1) = .err e)) := by
  have hsz := runCalls_ops (Circ.new (P := P) nq nc) calls
  have hin : ∀ op ∈ (runCalls (Circ.new nq nc) calls).1.ops,
      opInRange (runCalls (Circ.new nq nc) calls).1.nq (runCalls (Circ.new nq nc) calls).1.nc op := by
    rw [hsz.2.1, hsz.2.2]; exact built_inRange nq nc calls
  have hnone : ∀ op ∈ (runCalls (Circ.new nq nc) calls).1.ops,
      opDefects (runCalls (Circ.new nq nc) calls).1.nq op = [] := by
    intro op hop
    simp only [WellFormed.WellFormed, Bool.and_eq_true, List.all_eq_true] at hwf
    exact List.isEmpty_iff.mp (hwf.2 op hop)
  exact ⟨OpenQasm.openQasm_ne_panic _ hin (fun op hop d hd => by rw [hnone op hop] at hd; cases hd),
    CQ.cQasm_ne_panic_circ N _ hin (fun op hop d hd => by rw [hnone op hop] at hd; cases hd),
    fun hcond => latex_ne_panic _ hin hnone hcond⟩

/-- the table the OpenQASM model is run with IS what the templates re-extracted from the Rust source compile to
(re-checked on every run: `Gen.oqGates` is regenerated by the translator) -/
theorem openqasm_table_is_current : OpenQasm.compileAll Gen.oqGates = some OpenQasm.libTable := by decide +kernel

/-- the exporter models read the gate naming of `ofCirc` back as the term it came from -/
theorem export_input_is_the_circuit {P : Type} (g : GateTerm P) :
    (OpenQasm.ofTerm g).toTerm = some g := OpenQasm.toTerm_ofTerm g

/-- `WellFormed` contains `ExecWF` -/
theorem wellFormed_implies_execWF {P : Type} (c : Circ P) (shots : Nat) (h : WellFormed c shots = true) :
    ExecWF c shots = true := Q1t.WellFormed.WellFormed.execWF h

/-! ## non-vacuity -/

open Q1t.C18W in
/-- a circuit built by accepted calls that is `WellFormed`, exports to all three formats -/
example : allAccepted 2 2 wGood = true ∧ WellFormed (built 2 2 wGood) 3 = true ∧
    openQasmCls (built 2 2 wGood) = .ok ∧ cQasmCls (built 2 2 wGood) = .ok ∧
    latexOutcome (built 2 2 wGood) = .ok () :=
  ⟨good_accepted, good_wf, good_oq, good_cq, good_latex⟩

open Q1t.C18W in
/-- the hypotheses of `no_panic_stabilizer_partial` other than `DetShapeHolds` are satisfiable: `wGood` (H, CX,
measure_all) is `ExecWF` and a stabilizer circuit; a circuit with `T` is not one -/
example : ExecWF (runCalls (Circ.new 2 2) wGood).1 3 = true ∧
    Conj.isStabilizerCircuit (runCalls (Circ.new 2 2) wGood).1.ops = true ∧
    Conj.isStabilizerCircuit (runCalls (Circ.new (P := Empty) 1 1) [.addGate .T [0]]).1.ops = false := by decide +kernel

/-- the hypotheses of `stabilizer_refuses_nonclaiming_partial` are satisfiable: `h 0; T 0; measure` -/
example : ExecWF (runCalls (Circ.new (P := Empty) 1 1) [.h 0, .addGate .T [0], .measure 0 0]).1 2 = true ∧
    (runCalls (Circ.new (P := Empty) 1 1) [.h 0, .addGate .T [0], .measure 0 0]).1.ops =
      [.gate .H [0]] ++ .gate .T [0] :: [.measure 0 0 .Z] ∧
    Conj.isStabilizerCircuit ([.gate .H [0]] : List (COp Empty)) = true ∧
    Conj.isStabilizer (.T : GateTerm Empty) = false :=
  ⟨by decide +kernel, rfl, by decide +kernel, by decide +kernel⟩

/-- the builders reject: `cx(0, 5)` on two qubits is `InvalidQBit(5)` and leaves the circuit alone -/
example : (step (Circ.new (P := Empty) 2 1) (.cx 0 5)).2 = .error (.err (.invalidQBit 5)) ∧
    (step (Circ.new (P := Empty) 2 1) (.cx 0 5)).1.ops.length = 0 := by decide

/-- `measure(1, 7)`: the qubit is checked before the classical bit -/
example : (step (Circ.new (P := Empty) 1 1) (.measure 1 7)).2 = .error (.err (.invalidQBit 1)) := by decide

/-! ## negative witnesses: one per excluded conjunct.  Every circuit below is ACCEPTED by the builders. -/

open Q1t.C18W

/-- **D9, shots ≥ 1**: a conditional gate executed with 0 shots panics on both representations (index
into the empty control slice); with 1 shot both run it. -/
theorem neg_zero_shots : allAccepted 1 1 wCond = true ∧ circDefects (built 1 1 wCond) = [] ∧
    runVec (built 1 1 wCond) 0 [] = .panic ∧ runStab (built 1 1 wCond) 0 [] = .panic ∧
    runVec (built 1 1 wCond) 1 [] = .ok ∧ runStab (built 1 1 wCond) 1 [] = .ok :=
  ⟨cond_accepted, cond_defects, cond_zero_vec, cond_zero_stab, cond_one_vec, cond_one_stab⟩

/-- **D10, distinct operands**: `cx(0, 0)` is accepted; on two qubits BOTH representations simulate it as if
it meant something; on one qubit the vector representation panics and the stabilizer one runs; LaTeX panics -/
theorem neg_repeated_qubit : allAccepted 2 0 wDup = true ∧ circDefects (built 2 0 wDup) = [.dupQubits] ∧
    runVec (built 2 0 wDup) 1 [] = .ok ∧ runStab (built 2 0 wDup) 1 [] = .ok ∧
    runVec (built 1 0 wDup) 1 [] = .panic ∧ runStab (built 1 0 wDup) 1 [] = .ok ∧
    latexOutcome (built 2 0 wDup) = .panic :=
  ⟨dup_accepted, dup_defects, dup_vec, dup_stab, dup1_vec, dup1_stab, dup_latex⟩

/-- **D10, `measure_all` width** (finding C18-measure-all-len-diverges, fixed): `measure_all(&[0])` on two qubits is
accepted by the builder (the conjunct `measureAllLen` of `WellFormed` is still needed for a run to end in `ok`, and the
OpenQASM exporter still relies on it) and is now the SAME error `InvalidNrMeasurementBits(1, 2)` on both
representations (the stabilizer one used to measure the listed prefix only) -/
theorem measure_all_short_same_error : allAccepted 2 2 wMeasureAllShort = true ∧
    circDefects (built 2 2 wMeasureAllShort) = [.measureAllLen] ∧
    runVec (built 2 2 wMeasureAllShort) 1 [] = .err (.invalidNrMeasurementBits 1 2) ∧
    runStab (built 2 2 wMeasureAllShort) 1 [] = .err (.invalidNrMeasurementBits 1 2) :=
  ⟨mall_accepted, mall_defects, mall_vec, mall_stab⟩

/-- `peek_all` with more bits than qubits (finding C19-abort-exec-measure-all-len, fixed): the same error
`InvalidNrMeasurementBits(2, 1)` on both representations (the stabilizer one used to read past the tableau and panic) -/
theorem peek_all_long_same_error : allAccepted 1 2 wPeekAllLong = true ∧
    runVec (built 1 2 wPeekAllLong) 1 [] = .err (.invalidNrMeasurementBits 2 1) ∧
    runStab (built 1 2 wPeekAllLong) 1 [] = .err (.invalidNrMeasurementBits 2 1) :=
  ⟨pall_accepted, pall_vec, pall_stab⟩

/-- **the repaired width check in general**: for ALL states of equal size, bit lists of the wrong length and result
arrays, `measure_all_into` and `peek_all_into` of both representations return the same error —
`InvalidNrMeasurementBits(len, nr_bits)`, or `NotEnoughSpace` first — before anything is sampled or written -/
theorem measure_all_len_rejected_identically {α : Type} [Zero α] [One α] [Add α] [Mul α] [Neg α] [Sub α]
    [SimAmp α] (half : α) (ph : List Nat) (sv : VecState α) (ss : StabState)
    (cbits res : List Nat) (collapse : Bool) (hn : sv.nrBits = ss.nrBits) (hN : sv.nrShots = ss.nrShots)
    (hl : cbits.length ≠ ss.nrBits) :
    ∃ e, (e = .notEnoughSpace res.length ss.nrShots ∨ e = .invalidNrMeasurementBits cbits.length ss.nrBits) ∧
      VecState.measureAllHelper sv cbits res collapse = Prog.err e ∧
      StabState.measureAllInto half ph ss cbits res = Prog.err e ∧
      StabState.peekAllInto half ss cbits res = Prog.err e :=
  Q1t.C18W.measure_all_len_rejected_identically half ph sv ss cbits res collapse hn hN hl

/-- **D10, classical bits < 64**: measuring into bit 64 of a 65-bit register panics (shift overflow) -/
theorem neg_cbit_ge_64 : allAccepted 1 65 wCbit64 = true ∧ circDefects (built 1 65 wCbit64) = [.cbitGe64] ∧
    runVec (built 1 65 wCbit64) 1 [.bin 1] = .panic ∧ runStab (built 1 65 wCbit64) 1 [] = .panic :=
  ⟨cbit_accepted, cbit_defects, cbit_vec, cbit_stab⟩

/-- at most 64 control bits: 65 of them overflow the control word on both representations -/
theorem neg_controls_gt_64 : allAccepted 1 65 wControls65 = true ∧
    runVec (built 1 65 wControls65) 1 [] = .panic ∧ runStab (built 1 65 wControls65) 1 [] = .panic :=
  ⟨controls65_accepted, controls65_vec, controls65_stab⟩

/-- **arity**, executed (finding C18-cond-arity-diverges, fixed): a conditional gate with the wrong number of
operands whose condition never holds, the identity gate on two qubits (its `conjugate` has no arity check), and a
one-qubit gate on no qubit of a circuit without qubits (no tableau row) are the SAME error `InvalidNrBits` on both
representations (the stabilizer one used to run all three) -/
theorem cond_arity_same_error : allAccepted 1 1 wCondArity = true ∧
    circDefects (built 1 1 wCondArity) = [.arity] ∧
    runVec (built 1 1 wCondArity) 1 [] = .err (.invalidNrBits 0 1) ∧
    runStab (built 1 1 wCondArity) 1 [] = .err (.invalidNrBits 0 1) ∧
    allAccepted 2 0 wIdentityArity = true ∧
    runVec (built 2 0 wIdentityArity) 1 [] = .err (.invalidNrBits 2 1) ∧
    runStab (built 2 0 wIdentityArity) 1 [] = .err (.invalidNrBits 2 1) ∧
    allAccepted 0 0 wEmptyOperands = true ∧
    runVec (built 0 0 wEmptyOperands) 1 [] = .err (.invalidNrBits 0 1) ∧
    runStab (built 0 0 wEmptyOperands) 1 [] = .err (.invalidNrBits 0 1) :=
  ⟨condArity_accepted, condArity_defects, condArity_vec, condArity_stab, identityArity_accepted, identityArity_vec,
   identityArity_stab, empty0_accepted, empty0_vec, empty0_stab⟩

/-- **the repaired arity check in general**: for ALL states, gates, operand lists of the wrong length and control
masks, `apply_gate` of both representations returns `InvalidNrBits(len, arity)`, and `apply_conditional_gate` of
both returns the same error (`InvalidNrControlBits` for a mask of the wrong length, else `InvalidNrBits`) -/
theorem gate_arity_rejected_identically {α P : Type} [Zero α] [One α] [Add α] [Mul α] [Neg α] [Sub α]
    [Amp α P] [SimAmp α] (ph : List Nat) (conjOf : GateTerm P → Tableau.Tab.Conj) (sv : VecState α)
    (ss : StabState) (g : GateTerm P) (bits : List Nat) (control : List Bool) (hN : sv.nrShots = ss.nrShots)
    (hl : Gate.nrBits g ≠ bits.length) :
    VecState.applyGate sv g bits = Prog.err (.invalidNrBits bits.length (Gate.nrBits g)) ∧
    StabState.applyGate (α := α) ph conjOf ss g bits = Prog.err (.invalidNrBits bits.length (Gate.nrBits g)) ∧
    ∃ e, VecState.applyConditional sv control g bits = Prog.err e ∧
      StabState.applyConditional (α := α) ph conjOf ss control g bits = Prog.err e :=
  Q1t.C18W.gate_arity_rejected_identically ph conjOf sv ss g bits control hN hl

/-- **D11, arity**, exported: `add_gate(H, &[])` is accepted; OpenQASM and c-QASM export index `bits[0]`
and panic (execution returns `InvalidNrBits`) -/
theorem neg_empty_operands_export : allAccepted 1 0 wEmptyOperands = true ∧
    circDefects (built 1 0 wEmptyOperands) = [.arity] ∧ openQasmCls (built 1 0 wEmptyOperands) = .panic ∧
    cQasmCls (built 1 0 wEmptyOperands) = .panic ∧
    runVec (built 1 0 wEmptyOperands) 1 [] = .err (.invalidNrBits 0 1) :=
  ⟨empty_accepted, empty_defects, empty_oq, empty_cq, empty_vec⟩

/-- **D11, drawable**: Toffoli on `[1, 0, 2]` (control between the other operands) panics in LaTeX -/
theorem neg_ctrl_between_targets : allAccepted 3 0 wCtrlBetween = true ∧
    circDefects (built 3 0 wCtrlBetween) = [.ctrlBetweenTargets] ∧ latexOutcome (built 3 0 wCtrlBetween) = .panic :=
  ⟨ctrl_accepted, ctrl_defects, ctrl_latex⟩

/-- `reset_all` on a circuit without qubits (findings C13-resetall-zero-qubits-panic / C19-abort-export-latex-reset-all-0q,
fixed) is well-formed — the conjunct `resetAllNoQubits` of `WellFormed` is gone — and the LaTeX export succeeds -/
theorem reset_all_no_qubits_exports : allAccepted 0 0 wResetAll0 = true ∧
    circDefects (built 0 0 wResetAll0) = [] ∧ WellFormed (built 0 0 wResetAll0) 1 = true ∧
    latexOutcome (built 0 0 wResetAll0) = .ok () :=
  ⟨resetAll0_accepted, resetAll0_defects, resetAll0_wf, resetAll0_latex⟩

/-- `barrier(&[])` (finding C18-latex-empty-barrier-panic, fixed) is well-formed — the conjunct `emptyBarrier` of
`WellFormed` is gone — and the LaTeX export succeeds -/
theorem empty_barrier_exports : allAccepted 1 0 wBarrier0 = true ∧
    circDefects (built 1 0 wBarrier0) = [] ∧ WellFormed (built 1 0 wBarrier0) 1 = true ∧
    latexOutcome (built 1 0 wBarrier0) = .ok () :=
  ⟨barrier0_accepted, barrier0_defects, barrier0_wf, barrier0_latex⟩

/-- well-formed composite bodies: a `Composite` holding `H` on local qubit 1 of a one-qubit composite is accepted
by `Composite::add_gate` and `Circuit::add_gate`; execution (vector) and all three exporters panic -/
theorem neg_composite_subgate_out_of_range : allAccepted 1 0 wCompSub = true ∧
    circDefects (built 1 0 wCompSub) = [.badComposite] ∧ runVec (built 1 0 wCompSub) 1 [] = .panic ∧
    openQasmCls (built 1 0 wCompSub) = .panic ∧ cQasmCls (built 1 0 wCompSub) = .panic ∧
    latexOutcome (built 1 0 wCompSub) = .panic :=
  ⟨compSub_accepted, compSub_defects, compSub_vec, compSub_oq, compSub_cq, compSub_latex⟩

/-- non-vacuity for composites: a well-formed `Composite` and a `Loop` with 0 iterations are `WellFormed` -/
example : allAccepted 2 2 wCompGood = true ∧ WellFormed (built 2 2 wCompGood) 2 = true ∧
    openQasmCls (built 2 2 wCompGood) = .ok ∧ latexOutcome (built 2 2 wCompGood) = .ok () :=
  ⟨compGood_accepted, compGood_wf, compGood_oq, compGood_latex⟩

/-- drawable: a `Loop` of 3 iterations inside a `Loop` of 3 iterations is accepted and exported to OpenQASM; LaTeX
panics while it computes the loop-header offsets (`C13.neg_nested_loop_panics`) -/
theorem neg_nested_loop : allAccepted 1 0 wNestedLoop = true ∧
    circDefects (built 1 0 wNestedLoop) = [.nestedLoop] ∧ latexOutcome (built 1 0 wNestedLoop) = .panic ∧
    openQasmCls (built 1 0 wNestedLoop) = .ok :=
  ⟨nested_accepted, nested_defects, nested_latex, nested_oq⟩

/-- c-QASM names only `nr_qbits` classical bits: a condition on classical bit 1 of a one-qubit circuit panics -/
theorem neg_cqasm_control_ge_nq : allAccepted 1 2 wCondCtl = true ∧
    circDefects (built 1 2 wCondCtl) = [.condControlGeNq] ∧ cQasmCls (built 1 2 wCondCtl) = .panic :=
  ⟨condCtl_accepted, condCtl_defects, condCtl_cq⟩

end Q1t.Props.C18

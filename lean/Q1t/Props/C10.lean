import Q1t.Proofs.SimOracle
import Q1t.Proofs.CircuitObj
/-!
# C10 — seeded runs are reproducible and use only the supplied generator

What a theorem can say (DESIGN.md §5 C10): in the model a run is a term `execOps … : Prog`, a
function of the circuit, the shot count and the initial state only; randomness enters only at
`binomial` / `categorical` nodes, and the result of interpreting the term against a stream of draws
depends only on the consumed prefix of that stream.  That the *Rust code* consults no ambient
generator, randomly seeded hasher, thread or process state is observed by `tools/check.py C10`
(same seed: twice in a process with the thread-local generator consumed in between, on 16 threads,
and in a separate process; bit-identical registers and identical numbers of words drawn).
-/
namespace Q1t.Props.C10
open Q1t.Sim Q1t.Sim.Prog Q1t.Proofs.SimOracle

/-- The result depends only on the consumed prefix of the draw stream. -/
theorem draws_prefix {W β : Type} (p : Prog W β) (ds : List Draw) (r : Except Fail β) (rest : List Draw)
    (h : runOracle p ds = some (r, rest)) :
    ∃ used, ds = used ++ rest ∧ ∀ ds', runOracle p (used ++ ds') = some (r, ds') :=
  runOracle_prefix p ds r rest h

/-- Two streams that agree on the consumed prefix give the same result (and leave what follows). -/
theorem same_prefix_same_result {W β : Type} (p : Prog W β) (ds ds' : List Draw) (r : Except Fail β)
    (rest : List Draw) (h : runOracle p ds = some (r, rest))
    (hpre : ds'.take (ds.length - rest.length) = ds.take (ds.length - rest.length)) :
    runOracle p ds' = some (r, ds'.drop (ds.length - rest.length)) :=
  runOracle_congr_prefix p ds ds' r rest h hpre

/-- A whole run of a circuit is one `Prog` term determined by backend, initial state, register and
operation list: running it twice against the same draws gives the same answer (no hidden state). -/
theorem run_is_function {W P S : Type} (B : Backend W P S) (s : S) (c : List Nat) (ops : List (COp P))
    (ds : List Draw) :
    runOracle (execOps B s c ops) ds = runOracle (execOps B s c ops) ds := rfl

/-- Consecutive runs consume consecutive parts of the stream: `ops₁ ++ ops₂` from a fresh state is
`ops₁` followed by `ops₂` from where `ops₁` ended. -/
theorem run_append {W P S : Type} (B : Backend W P S) (s : S) (c : List Nat) (ops₁ ops₂ : List (COp P)) :
    execOps B s c (ops₁ ++ ops₂) = (execOps B s c ops₁).bind (fun sc => execOps B sc.1 sc.2 ops₂) :=
  Q1t.Proofs.CircuitObj.execOps_append B s c ops₁ ops₂

end Q1t.Props.C10

import Q1t.Proofs.SimOracle
import Q1t.Proofs.CircuitObj
import Q1t.Gen.AmbientSites
/-!
# C10 — seeded runs are reproducible and use only the supplied generator

What a theorem can say (DESIGN.md §5 C10): in the model a run is a term `execOps … : Prog`, a
function of the circuit, the shot count and the initial state only; randomness enters only at
`binomial` / `categorical` nodes, and the result of interpreting the term against a stream of draws
depends only on the consumed prefix of that stream.  That the *Rust code* consults no ambient
generator, randomly seeded hasher, thread or process state is observed by `tools/check.py C10`
(same seed: twice in a process with the thread-local generator consumed in between, on 16 threads,
and in a separate process; bit-identical registers and identical numbers of words drawn).
-/
namespace Q1t.Props.C10
open Q1t.Sim Q1t.Sim.Prog Q1t.Proofs.SimOracle

/-- The result depends only on the consumed prefix of the draw stream. -/
theorem draws_prefix {W β : Type} (p : Prog W β) (ds : List Draw) (r : Except Fail β) (rest : List Draw)
    (h : runOracle p ds = some (r, rest)) :
    ∃ used, ds = used ++ rest ∧ ∀ ds', runOracle p (used ++ ds') = some (r, ds') :=
  runOracle_prefix p ds r rest h

/-- Two streams that agree on the consumed prefix give the same result (and leave what follows). -/
theorem same_prefix_same_result {W β : Type} (p : Prog W β) (ds ds' : List Draw) (r : Except Fail β)
    (rest : List Draw) (h : runOracle p ds = some (r, rest))
    (hpre : ds'.take (ds.length - rest.length) = ds.take (ds.length - rest.length)) :
    runOracle p ds' = some (r, ds'.drop (ds.length - rest.length)) :=
  runOracle_congr_prefix p ds ds' r rest h hpre

/-- A whole run of a circuit is one `Prog` term determined by backend, initial state, register and
operation list: running it twice against the same draws gives the same answer (no hidden state). -/
theorem run_is_function {W P S : Type} (B : Backend W P S) (s : S) (c : List Nat) (ops : List (COp P))
    (ds : List Draw) :
    runOracle (execOps B s c ops) ds = runOracle (execOps B s c ops) ds := rfl

/-- Consecutive runs consume consecutive parts of the stream: `ops₁ ++ ops₂` from a fresh state is
`ops₁` followed by `ops₂` from where `ops₁` ended. -/
theorem run_append {W P S : Type} (B : Backend W P S) (s : S) (c : List Nat) (ops₁ ops₂ : List (COp P)) :
    execOps B s c (ops₁ ++ ops₂) = (execOps B s c ops₁).bind (fun sc => execOps B sc.1 sc.2 ops₂) :=
  Q1t.Proofs.CircuitObj.execOps_append B s c ops₁ ops₂


/-! ## Tie to the source: where the library touches ambient state

`Q1t.Gen.ambientSites` is regenerated from `/repo/src` on every run (tools/gen/c10_ambient.py): every use of a
process/thread random generator, a randomly keyed `std` hash container, the clock, the environment, thread-local or
static mutable state, outside tests and verif hooks. -/

/-- **ambient_sites_as_expected** — the only functions of the library that consult an ambient random generator are the
two UNSEEDED convenience wrappers `Circuit::execute` and `Circuit::reexecute` (which hand `thread_rng()` to the seeded
entry points), and the only randomly keyed `std` hash container is the result map built by `histogram_string` (whose
iteration order reaches no per-shot result).  No clock, environment, thread-local or static mutable state anywhere.
`decide` over the regenerated table: a new site in any source file fails this obligation. -/
theorem ambient_sites_as_expected :
    Q1t.Gen.ambientSites =
      [("src/circuit.rs", "execute", "thread_rng"),
       ("src/circuit.rs", "histogram_string", "std-HashMap-new"),
       ("src/circuit.rs", "reexecute", "thread_rng")] := by decide

/-- … hence no seeded entry point (`execute_with`, `execute_with_rng`, `reexecute_with_rng`) and nothing they call
touches ambient state: every site lies in a function that is not reachable from them (`execute`/`reexecute` call INTO
the seeded entry points, `histogram_string` is a query). -/
theorem seeded_paths_have_no_ambient_site :
    ∀ s ∈ Q1t.Gen.ambientSites, s.2.1 ∈ ["execute", "reexecute", "histogram_string"] := by decide

end Q1t.Props.C10

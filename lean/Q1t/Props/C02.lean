import Q1t.Proofs.SimCapstone
/-!
# C02 — every shot is a possible run and holds the exact conditional state

Property theorems only; proofs are in `Q1t/Proofs/Sim{Basic,Alg,Gate,Reg,Measure,Ranges,Shots,Exec,Rel,
BitsAll,Refine,MeasAll,Capstone}.lean`.

Objects.  `Sim.execOps vecBackend` is the executable model of `Circuit::do_execute_with` on the vector
backend (`Q1t/Model/Sim.lean`; tied to the code by correspondence (A) of `tools/check.py C02`): a term of the
free monad `Prog` whose only random nodes are `binomial` / `categorical`; `Prog.runOracle` runs it on a list
of recorded draws.  `Spec.replay` (`Q1t/Spec/Born.lean`) is the reference semantics: one shot, every recorded
outcome forced, documented unitaries embedded on their qubits, textbook projectors, states unnormalised (the
squared norm of a result is the probability of the forced record); a reset has a hidden outcome, so the result
is a list of candidates.

Amplitudes: any commutative ring `α` with `Amp α P`, `SimAmp α` satisfying `LawfulAmp` (C05) and `LawfulSim`
(`normSq a = a·conj a`; `rsqrt w` real with `rsqrt(w)²·w = 1` on the valid non-zero weights `nz`; the clamp
`min1` maps no impossible outcome to a possible one).  The draws are *in the support*: `suppBin nz` (a zero
is drawn only if `p` is a valid non-zero weight, a one only if `1 - p` is), `suppCat nz` (a basis state is
drawn only if its weight is).

**Explicit hypothesis `GateSemOK α n valid`** (`Q1t/Proofs/SimGate.lean`): on gate instances accepted by
`valid`, both application routes of the gate model return the documented unitary embedded on the chosen qubits
(`mat`, `vec`: to be discharged by C04 + C05), the embedded documented unitary preserves the squared norm
(`iso`), `H`, `S`, `S†`, `X` on a qubit below `n` are valid instances (`basis`), and `H·H = 1`, `S·S† = 1`
for the embedded documented matrices (`hh`, `ssdg`).  It is NOT proved here.
-/
namespace Q1t.Props.C02
open Q1t Q1t.Sim Q1t.Spec Q1t.Sim.Prog

section
variable {α P : Type} [CommRing α] [Amp α P] [SimAmp α]
variable {n : Nat} {valid : GateTerm P → List Nat → Prop} {nz : α → Prop}

/-! ## the capstone -/

/- FULL STATEMENT (`shot_refinement`): as below for every operation list whose gate instances are valid and
   whose `measure_all` / `peek_all` targets are distinct (D14 excluded).
   PROVED (`shot_refinement_partial`): the same for operation lists satisfying `OpOK`, i.e. additionally
   * `measure_all` / `peek_all` only in the Z basis (single-qubit `measure` / `peek` in all of X, Y, Z), and
   * no `reset_all`.
   Missing for the full statement: commutation of the single-qubit basis-change gates with gates and
   projectors on other qubits (for X/Y `measure_all`/`peek_all`), and the action of the embedded `X` on basis
   states (for `reset_all`); both are facts about `Spec.embed` only. -/

/-- **shot_refinement (partial: `OpOK`)** — for every register size `n`, every number of shots `N`, every
circuit `ops` (gates and conditional gates on valid instances, barriers, `measure`/`peek` in the bases X, Y, Z,
`reset`, `measure_all`/`peek_all` in the Z basis on distinct classical bits), every draw list `ds` in the
support: if the model run succeeds with final state `s'` and register `c'`, then
* the ranges account for exactly `N` shots and the register has `N` words (`WFState`);
* there is the trace `regs` of register snapshots after each operation (`RunsTrace`: the same run, operation by
  operation), and for every shot `i < N` the column `outs` of its words in that trace (`ShotRecord`: the
  bits written for the shot, at the time they were written) is a possible run: the forced replay
  `Spec.replay n nonzero ops outs` from `|0…0⟩` has a candidate `(φ, w)` with `w` the shot's final word,
  of non-zero weight (`normSqSum φ` is invertible), and the simulator's state `col` of shot `i` is `φ` up to a
  scalar and has unit norm (`Rel`). -/
theorem shot_refinement_partial (ha : LawfulAmp α P) (hs : LawfulSim α P nz) (hsem : GateSemOK α n valid)
    {nonzero : List α → Bool} (hnzb : NonzeroOK nonzero) {N : Nat} (ops : List (COp P))
    (hv : OpsValid valid ops) (hok : ∀ op ∈ ops, OpOK op) {ds ds' : List Draw} {s' : VecState α} {c' : List Nat}
    (hrun : runOracle (execOps (vecBackend (α := α) (P := P)) (VecState.new n N) (List.replicate N 0) ops) ds =
      some (.ok (s', c'), ds'))
    (hsupp : Supported (suppBin nz) (suppCat nz)
      (execOps (vecBackend (α := α) (P := P)) (VecState.new n N) (List.replicate N 0) ops) ds) :
    WFState n N s' c' ∧
    ∃ regs, RunsTrace (vecBackend (α := α) (P := P)) (suppBin nz) (suppCat nz) (VecState.new n N)
        (List.replicate N 0) ops ds regs s' c' ds' ∧
      ∀ i, i < N → ∃ outs col w φ, ShotRecord regs i outs ∧ (shotStates s')[i]? = some col ∧ c'[i]? = some w ∧
        (φ, w) ∈ replay n nonzero ops outs [(ket0 n, 0)] ∧ Rel n col φ ∧ ∃ u : α, normSqSum φ * u = 1 :=
  shot_refinement_runs ha hs hsem hnzb ops hv hok ((runs_iff _ _ _ _ _ _).mpr ⟨hrun, hsupp⟩)

/-- the invariant behind it, from ANY well-formed intermediate state (so also for `reexecute`, C09): a shot
related to a candidate of the replay so far stays related to a candidate of the replay continued with the
shot's own outcome record -/
theorem refinement_invariant (ha : LawfulAmp α P) (hs : LawfulSim α P nz) (hsem : GateSemOK α n valid)
    {nonzero : List α → Bool} (hnzb : NonzeroOK nonzero) {N : Nat} (ops : List (COp P)) (s : VecState α)
    (c : List Nat) (hv : OpsValid valid ops) (hok : ∀ op ∈ ops, OpOK op) (hwf : WFState n N s c)
    {ds ds' : List Draw} {s' : VecState α} {c' : List Nat} {regs : List (List Nat)}
    (ht : RunsTrace (vecBackend (α := α) (P := P)) (suppBin nz) (suppCat nz) s c ops ds regs s' c' ds')
    (i : Nat) (col : List α) (w : Nat) (ψ : List α) (cands : List (List α × Nat))
    (hcol : (shotStates s)[i]? = some col) (hw : c[i]? = some w) (hwb : w < 2 ^ 64) (hrel : Rel n col ψ)
    (hmem : (ψ, w) ∈ cands) :
    ∃ outs col' w' φ, ShotRecord regs i outs ∧ (shotStates s')[i]? = some col' ∧ c'[i]? = some w' ∧
      w' < 2 ^ 64 ∧ (φ, w') ∈ replay n nonzero ops outs cands ∧ Rel n col' φ :=
  execOps_refine ha hs hsem hnzb ops s c hv hok hwf ht i col w ψ cands hcol hw hwb hrel hmem

/-- `RunsTrace` is nothing but the run itself, cut at the operation boundaries -/
theorem trace_iff_run {W S : Type} (B : Backend W P S) (sb : Nat → W → Nat → Prop) (sc : List W → Nat → Prop)
    (ops : List (COp P)) (s : S) (c : List Nat) (ds : List Draw) (s' : S) (c' : List Nat) (ds' : List Draw) :
    Runs sb sc (execOps B s c ops) ds (.ok (s', c')) ds' ↔ ∃ regs, RunsTrace B sb sc s c ops ds regs s' c' ds' :=
  runs_execOps_iff_trace ops s c ds s' c' ds'

/-- `Runs` with support predicates is `runOracle` plus `Supported` -/
theorem runs_iff_oracle {W β : Type} (sb : Nat → W → Nat → Prop) (sc : List W → Nat → Prop) (p : Prog W β)
    (ds : List Draw) (r : Except Fail β) (ds' : List Draw) :
    Runs sb sc p ds r ds' ↔ (runOracle p ds = some (r, ds') ∧ Supported sb sc p ds) :=
  runs_iff sb sc p ds r ds'

/-! ## the parts -/

/-- **counts / shape invariant** (needs only the shape part of `GateSemOK`; ALL operations, all bases):
after any successful run the range counts sum to `N`, the register has `N` words, the state matrix has `2^n`
rows and one column per range -/
theorem counts_invariant (hshape : GateShapeOK α n valid) (hbasis : BasisValid n valid) {N : Nat}
    {sb : Nat → α → Nat → Prop} {sc : List α → Nat → Prop}
    (ops : List (COp P)) (s : VecState α) (c : List Nat) (hv : OpsValid valid ops) (hwf : WFState n N s c)
    {ds ds' : List Draw} {s' : VecState α} {c' : List Nat}
    (h : Runs sb sc (execOps (vecBackend (α := α) (P := P)) s c ops) ds (.ok (s', c')) ds') :
    s'.counts.sum = N ∧ c'.length = N ∧ (shotStates s').length = N ∧ s'.states.length = 2 ^ n ∧
      ∀ row ∈ s'.states, row.length = s'.counts.length := by
  have hw := execOps_wf hshape hbasis ops s c hv hwf h
  exact ⟨hw.wfs.counts_sum.trans hw.nrShots, hw.reg, (shotStates_length hw.wfs).trans hw.nrShots,
    hw.wfs.rows.trans (by rw [hw.nrBits]), hw.wfs.row_len⟩

/-- **collapse = project + renormalise**: `collapse` keeps the amplitudes whose index has qubit `q` equal to the
kept outcome, zeroes the others and multiplies by `rsqrt` of the given weight … -/
theorem collapse_is_project_rescale (n q : Nat) (col : List α) (keep : Bool) (w : α) :
    VecState.collapseCol n q col keep w = (project n q keep col).map (· * SimAmp.rsqrt w) :=
  collapseCol_eq n q col keep w

/-- … the weight `w0` the code computes (sum of `|a|²` over the blocks with the index bit clear) is
`‖P₀ψ‖²`, and `‖P₀ψ‖² + ‖P₁ψ‖² = ‖ψ‖²` … -/
theorem weight_is_born (hs : LawfulSim α P nz) (n q : Nat) (col : List α) :
    w0Of n q col = normSqSum (project n q false col) ∧
    normSqSum (project n q false col) + normSqSum (project n q true col) = normSqSum col :=
  ⟨prob0_eq_born hs n q col, normSqSum_split hs n q col⟩

/-- … so a collapsing measurement with an outcome of valid non-zero weight sends a shot in the exact state
(up to a scalar) to the exact projected state (up to a scalar), renormalised to unit norm -/
theorem collapse_exact (ha : LawfulAmp α P) (hs : LawfulSim α P nz) (q : Nat) (o : Bool) {col ψ : List α}
    (h : Rel n col ψ) (hnz : nz (if o then 1 - w0Of n q col else w0Of n q col)) :
    Rel n (collapseShot n q col o) (project n q o ψ) ∧ normSqSum (collapseShot n q col o) = 1 :=
  ⟨h.collapse ha hs q o hnz, (h.collapse ha hs q o hnz).2.1⟩

/-- **measure, per shot**: shot `i` gets an outcome `o` of valid non-zero weight, written into bit `cbit` of
its word and nowhere else; its state is collapsed accordingly -/
theorem measure_per_shot (hs : LawfulSim α P nz) {sc : List α → Nat → Prop} {s : VecState α} {q cbit : Nat}
    {res : List Nat} (hwf : WFS s)
    (hres : res.length = s.nrShots) {ds ds' : List Draw} {s' : VecState α} {res' : List Nat}
    (h : Runs (suppBin nz) sc (VecState.measureInto s q cbit res) ds (.ok (s', res')) ds') :
    ∃ n0s, ∀ (i : Nat) (w : Nat) (col : List α), res[i]? = some w → (shotStates s)[i]? = some col →
      ∃ o, (measOuts s.counts n0s)[i]? = some o ∧ res'[i]? = some (setBitTo w cbit o) ∧
        (shotStates s')[i]? = some (collapseShot s.nrBits q col o) ∧
        nz (if o then 1 - w0Of s.nrBits q col else w0Of s.nrBits q col) :=
  (measure_shot hs hwf hres h).2.2.2.2.2.2

/-- **reset, per shot**: a hidden outcome `o` of valid non-zero weight, collapse, then `X` iff `o = 1`;
the other qubits are in the state matching the hidden outcome -/
theorem reset_per_shot (hs : LawfulSim α P nz) (hsem : GateSemOK α n valid) {sc : List α → Nat → Prop}
    {s : VecState α} {q : Nat}
    (hn : s.nrBits = n) (hwf : WFS s) {ds ds' : List Draw} {s' : VecState α}
    (h : Runs (suppBin nz) sc (VecState.reset (P := P) s q) ds (.ok s') ds') :
    q < n ∧ s'.nrBits = s.nrBits ∧ s'.nrShots = s.nrShots ∧ WFS s' ∧
    ∃ n0s, ∀ (i : Nat) (col : List α), (shotStates s)[i]? = some col →
      ∃ o, (measOuts s.counts n0s)[i]? = some o ∧
        (shotStates s')[i]? = some (resetShot (P := P) n q col o) ∧
        nz (if o then 1 - w0Of n q col else w0Of n q col) :=
  reset_shot hs hsem hn hwf h

end
end Q1t.Props.C02

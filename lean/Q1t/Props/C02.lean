import Mathlib.Algebra.Field.Basic
import Q1t.Proofs.SimCapstone
import Q1t.Proofs.SimExtras
import Q1t.Proofs.SimDischarge
import Q1t.Proofs.SimDemo
import Q1t.Proofs.SimComplex
import Q1t.Proofs.SimDischargeAll
import Q1t.Proofs.SimHypsComplex
import Q1t.Proofs.SimStabCapstone
import Q1t.Proofs.TableauContractQ8
import Q1t.Proofs.Q8Field
import Q1t.Proofs.DetShapeAll
/-!
# C02 — every shot is a possible run and holds the exact conditional state

Property theorems only; proofs are in `Q1t/Proofs/Sim{Basic,Alg,Gate,Reg,Measure,Ranges,Shots,Exec,Rel,
BitsAll,Refine,MeasAll,Embed1,BasisAll,ResetAll,Capstone,Extras,BasisGates,Discharge,Demo,Complex,UnitaryNorm,DischargeAll,HypsComplex,Stab,StabRefine,StabAll,StabCapstone}.lean`.

Objects.  `Sim.execOps vecBackend` is the executable model of `Circuit::do_execute_with` on the vector
backend (`Q1t/Model/Sim.lean`; tied to the code by correspondence (A) of `tools/check.py C02`): a term of the
free monad `Prog` whose only random nodes are `binomial` / `categorical`; `Prog.runOracle` runs it on a list
of recorded draws.  `Spec.replay` (`Q1t/Spec/Born.lean`) is the reference semantics: one shot, every recorded
outcome forced, documented unitaries embedded on their qubits, textbook projectors, states unnormalised (the
squared norm of a result is the probability of the forced record); a reset has a hidden outcome, so the result
is a list of candidates.

Amplitudes: any commutative ring `α` with `Amp α P`, `SimAmp α` satisfying `LawfulAmp` (C05) and `LawfulSim`
(`normSq a = a·conj a`; `rsqrt w` real with `rsqrt(w)²·w = 1` on the valid non-zero weights `nz`; the clamp
`min1` maps no impossible outcome to a possible one).  The draws are *in the support*: `suppBin nz` (a zero
is drawn only if `p` is a valid non-zero weight, a one only if `1 - p` is), `suppCat nz` (a basis state is
drawn only if its weight is).

**Explicit hypothesis `GateSemOK α n valid`** (`Q1t/Proofs/SimGate.lean`): on gate instances accepted by
`valid`, both application routes of the gate model return the documented unitary embedded on the chosen qubits
(`mat`, `vec`: these follow from C04 + C05, `Q1t/Proofs/RouteSim.lean`), the embedded documented unitary
preserves the squared norm (`iso`), `H`, `S`, `S†`, `X` on a qubit below `n` are valid instances (`basis`), and
`H·H = 1`, `S·S† = 1` for the embedded documented matrices (`hh`, `ssdg`).  It is a hypothesis of
`shot_refinement`; it is PROVED COMPLETELY (`gateSemOK_all_terms`) for `valid` = `Route.Placed n` = every
well-formed gate term (primitives, `C`, `Kron`, `Composite`, `Loop`) on a valid placement, from C04 + C05
(`RouteSim`, `TermUnitary`, `EmbedUnitary`) and "a unitary preserves the squared norm" (`SimUnitaryNorm`), so
**`shot_refinement_unconditional` has no gate hypothesis at all**.

Other hypotheses: `NonzeroOK nonzero` (the norm test handed to the reference semantics accepts every vector of
invertible weight; the exact test of a field does); `LocalWeights α` (a sum of two weights is invertible only
if one is; every field) — needed only for circuits containing `reset_all`; `OpOK` (the classical targets of a
`measure_all`/`peek_all` are distinct: D14 excluded).
-/
namespace Q1t.Props.C02
open Q1t Q1t.Sim Q1t.Spec Q1t.Sim.Prog

section
variable {α P : Type} [CommRing α] [Amp α P] [SimAmp α]
variable {n : Nat} {valid : GateTerm P → List Nat → Prop} {nz : α → Prop}

/-! ## the capstone -/

/-- **shot_refinement** — for every register size `n`, every number of shots `N`, every circuit `ops` over
ALL operation kinds (gates and conditional gates on valid instances; barriers; `measure`, `peek`, `measure_all`,
`peek_all` in the bases X, Y, Z; `reset`; `reset_all`) with distinct `measure_all`/`peek_all` targets, every
draw list `ds` in the support: if the model run succeeds with final state `s'` and register `c'`, then
* the ranges account for exactly `N` shots and the register has `N` words (`WFState`);
* there is the trace `regs` of register snapshots after each operation (`RunsTrace`: the same run, operation by
  operation), and for every shot `i < N` the column `outs` of its words in that trace (`ShotRecord`: the
  bits written for the shot, at the time they were written) is a possible run: the forced replay
  `Spec.replay n nonzero ops outs` from `|0…0⟩` has a candidate `(φ, w)` with `w` the shot's final word,
  of non-zero weight (`normSqSum φ` is invertible), and the simulator's state `col` of shot `i` is `φ` up to a
  scalar and has unit norm (`Rel`). -/
theorem shot_refinement (ha : LawfulAmp α P) (hs : LawfulSim α P nz) (hsem : GateSemOK α n valid)
    {nonzero : List α → Bool} (hnzb : NonzeroOK nonzero) {N : Nat} (ops : List (COp P))
    (hv : OpsValid valid ops) (hok : ∀ op ∈ ops, OpOK op) (hloc : COp.resetAll ∈ ops → LocalWeights α)
    {ds ds' : List Draw} {s' : VecState α} {c' : List Nat}
    (hrun : runOracle (execOps (vecBackend (α := α) (P := P)) (VecState.new n N) (List.replicate N 0) ops) ds =
      some (.ok (s', c'), ds'))
    (hsupp : Supported (suppBin nz) (suppCat nz)
      (execOps (vecBackend (α := α) (P := P)) (VecState.new n N) (List.replicate N 0) ops) ds) :
    WFState n N s' c' ∧
    ∃ regs, RunsTrace (vecBackend (α := α) (P := P)) (suppBin nz) (suppCat nz) (VecState.new n N)
        (List.replicate N 0) ops ds regs s' c' ds' ∧
      ∀ i, i < N → ∃ outs col w φ, ShotRecord regs i outs ∧ (shotStates s')[i]? = some col ∧ c'[i]? = some w ∧
        (φ, w) ∈ replay n nonzero ops outs [(ket0 n, 0)] ∧ Rel n col φ ∧ ∃ u : α, normSqSum φ * u = 1 :=
  shot_refinement_runs ha hs hsem hnzb ops hv hok hloc ((runs_iff _ _ _ _ _ _).mpr ⟨hrun, hsupp⟩)

/-- the invariant behind it, from ANY well-formed intermediate state (so also for `reexecute`, C09): a shot
related to a candidate of the replay so far stays related to a candidate of the replay continued with the
shot's own outcome record -/
theorem refinement_invariant (ha : LawfulAmp α P) (hs : LawfulSim α P nz) (hsem : GateSemOK α n valid)
    {nonzero : List α → Bool} (hnzb : NonzeroOK nonzero) {N : Nat} (ops : List (COp P)) (s : VecState α)
    (c : List Nat) (hv : OpsValid valid ops) (hok : ∀ op ∈ ops, OpOK op)
    (hloc : COp.resetAll ∈ ops → LocalWeights α) (hwf : WFState n N s c)
    {ds ds' : List Draw} {s' : VecState α} {c' : List Nat} {regs : List (List Nat)}
    (ht : RunsTrace (vecBackend (α := α) (P := P)) (suppBin nz) (suppCat nz) s c ops ds regs s' c' ds')
    (i : Nat) (col : List α) (w : Nat) (ψ : List α) (cands : List (List α × Nat))
    (hcol : (shotStates s)[i]? = some col) (hw : c[i]? = some w) (hwb : w < 2 ^ 64) (hrel : Rel n col ψ)
    (hmem : (ψ, w) ∈ cands) :
    ∃ outs col' w' φ, ShotRecord regs i outs ∧ (shotStates s')[i]? = some col' ∧ c'[i]? = some w' ∧
      w' < 2 ^ 64 ∧ (φ, w') ∈ replay n nonzero ops outs cands ∧ Rel n col' φ :=
  execOps_refine ha hs hsem hnzb ops s c hv hok hloc hwf ht i col w ψ cands hcol hw hwb hrel hmem

/-- one operation refines one step of the forced replay (`StepRefines`), every operation kind -/
theorem step_refinement (ha : LawfulAmp α P) (hs : LawfulSim α P nz) (hsem : GateSemOK α n valid)
    {nonzero : List α → Bool} (hnzb : NonzeroOK nonzero) {N : Nat} {s : VecState α} {c : List Nat} {op : COp P}
    (hloc : op = .resetAll → LocalWeights α) (hop : OpValid valid op) (hok : OpOK op) (hwf : WFState n N s c)
    {ds ds' : List Draw} {s' : VecState α} {c' : List Nat}
    (h : Runs (suppBin nz) (suppCat nz) (execOp (vecBackend (α := α) (P := P)) s c op) ds (.ok (s', c')) ds') :
    StepRefines n nonzero op s c s' c' :=
  execOp_refine ha hs hsem hnzb hloc hop hok hwf h

/-- `RunsTrace` is nothing but the run itself, cut at the operation boundaries -/
theorem trace_iff_run {W S : Type} (B : Backend W P S) (sb : Nat → W → Nat → Prop) (sc : List W → Nat → Prop)
    (ops : List (COp P)) (s : S) (c : List Nat) (ds : List Draw) (s' : S) (c' : List Nat) (ds' : List Draw) :
    Runs sb sc (execOps B s c ops) ds (.ok (s', c')) ds' ↔ ∃ regs, RunsTrace B sb sc s c ops ds regs s' c' ds' :=
  runs_execOps_iff_trace ops s c ds s' c' ds'

/-- `Runs` with support predicates is `runOracle` plus `Supported` -/
theorem runs_iff_oracle {W β : Type} (sb : Nat → W → Nat → Prop) (sc : List W → Nat → Prop) (p : Prog W β)
    (ds : List Draw) (r : Except Fail β) (ds' : List Draw) :
    Runs sb sc p ds r ds' ↔ (runOracle p ds = some (r, ds') ∧ Supported sb sc p ds) :=
  runs_iff sb sc p ds r ds'

/-! ## discharging the hypotheses -/

/-- **`GateSemOK` is proved** for `H`, `X`, `S`, `S†` on any qubit of any register (mat/vec routes from C04 +
C05; `iso`, `hh`, `ssdg` from the two-term formula of a one-qubit embedding), every lawful amplitude ring -/
theorem gateSemOK_basis_gates (ha : LawfulAmp α P) (hs : LawfulSim α P nz) (n : Nat) :
    GateSemOK α n (basisValid (P := P) n) :=
  gateSemOK_basis ha hs n

/-- `shot_refinement` with NO gate hypothesis, for circuits whose (plain or conditional) gates are `H`, `X`,
`S`, `S†` on one qubit, and all measurement / peek / reset operations in all bases -/
theorem shot_refinement_basis_gates (ha : LawfulAmp α P) (hs : LawfulSim α P nz)
    {nonzero : List α → Bool} (hnzb : NonzeroOK nonzero) {n N : Nat} (ops : List (COp P))
    (hv : OpsValid (basisValid (P := P) n) ops) (hok : ∀ op ∈ ops, OpOK op)
    (hloc : COp.resetAll ∈ ops → LocalWeights α)
    {ds ds' : List Draw} {s' : VecState α} {c' : List Nat}
    (hrun : runOracle (execOps (vecBackend (α := α) (P := P)) (VecState.new n N) (List.replicate N 0) ops) ds =
      some (.ok (s', c'), ds'))
    (hsupp : Supported (suppBin nz) (suppCat nz)
      (execOps (vecBackend (α := α) (P := P)) (VecState.new n N) (List.replicate N 0) ops) ds) :
    WFState n N s' c' ∧
    ∃ regs, RunsTrace (vecBackend (α := α) (P := P)) (suppBin nz) (suppCat nz) (VecState.new n N)
        (List.replicate N 0) ops ds regs s' c' ds' ∧
      ∀ i, i < N → ∃ outs col w φ, ShotRecord regs i outs ∧ (shotStates s')[i]? = some col ∧ c'[i]? = some w ∧
        (φ, w) ∈ replay n nonzero ops outs [(ket0 n, 0)] ∧ Rel n col φ ∧ ∃ u : α, normSqSum φ * u = 1 :=
  shot_refinement ha hs (gateSemOK_basis ha hs n) hnzb ops hv hok hloc hrun hsupp

open Q1t.Proofs.Route in
/-- **`GateSemOK` is proved for ALL well-formed terms on valid placements** (`Route.Placed n g bits`: `Spec.WF g`,
`nrBits g = bits.length`, distinct qubits below `n`, and `n < 64` if `g` contains a composite), every register
size, every lawful amplitude ring, all parameter values -/
theorem gateSemOK_all_terms (ha : LawfulAmp α P) (hs : LawfulSim α P nz) (n : Nat) :
    GateSemOK α n (Placed (P := P) n) :=
  gateSemOK_placed ha hs n

open Q1t.Proofs.Route in
/-- **shot_refinement_unconditional** — `shot_refinement` with NO gate hypothesis: all `n`, `N`, all circuits
over all operation kinds whose (plain or conditional) gates are well-formed terms on valid placements and whose
`measure_all`/`peek_all` targets are distinct, all draws in the support, any lawful amplitude ring. -/
theorem shot_refinement_unconditional (ha : LawfulAmp α P) (hs : LawfulSim α P nz)
    {nonzero : List α → Bool} (hnzb : NonzeroOK nonzero) {n N : Nat} (ops : List (COp P))
    (hv : OpsValid (Placed (P := P) n) ops) (hok : ∀ op ∈ ops, OpOK op)
    (hloc : COp.resetAll ∈ ops → LocalWeights α)
    {ds ds' : List Draw} {s' : VecState α} {c' : List Nat}
    (hrun : runOracle (execOps (vecBackend (α := α) (P := P)) (VecState.new n N) (List.replicate N 0) ops) ds =
      some (.ok (s', c'), ds'))
    (hsupp : Supported (suppBin nz) (suppCat nz)
      (execOps (vecBackend (α := α) (P := P)) (VecState.new n N) (List.replicate N 0) ops) ds) :
    WFState n N s' c' ∧
    ∃ regs, RunsTrace (vecBackend (α := α) (P := P)) (suppBin nz) (suppCat nz) (VecState.new n N)
        (List.replicate N 0) ops ds regs s' c' ds' ∧
      ∀ i, i < N → ∃ outs col w φ, ShotRecord regs i outs ∧ (shotStates s')[i]? = some col ∧ c'[i]? = some w ∧
        (φ, w) ∈ replay n nonzero ops outs [(ket0 n, 0)] ∧ Rel n col φ ∧ ∃ u : α, normSqSum φ * u = 1 :=
  shot_refinement ha hs (gateSemOK_placed ha hs n) hnzb ops hv hok hloc hrun hsupp

/-- every field has `LocalWeights` -/
theorem localWeights_of_field (K : Type) [Field K] : LocalWeights K := by
  intro a b ⟨u, hu⟩
  by_cases ha : a = 0
  · right
    subst ha
    exact ⟨u, by rwa [zero_add] at hu⟩
  · exact Or.inl ⟨a⁻¹, mul_inv_cancel₀ ha⟩

/-! ## the parts -/

/-- **counts / shape invariant** (needs only the shape part of `GateSemOK`; ALL operations, all bases):
after any successful run the range counts sum to `N`, the register has `N` words, the state matrix has `2^n`
rows and one column per range -/
theorem counts_invariant (hshape : GateShapeOK α n valid) (hbasis : BasisValid n valid) {N : Nat}
    {sb : Nat → α → Nat → Prop} {sc : List α → Nat → Prop}
    (ops : List (COp P)) (s : VecState α) (c : List Nat) (hv : OpsValid valid ops) (hwf : WFState n N s c)
    {ds ds' : List Draw} {s' : VecState α} {c' : List Nat}
    (h : Runs sb sc (execOps (vecBackend (α := α) (P := P)) s c ops) ds (.ok (s', c')) ds') :
    s'.counts.sum = N ∧ c'.length = N ∧ (shotStates s').length = N ∧ s'.states.length = 2 ^ n ∧
      ∀ row ∈ s'.states, row.length = s'.counts.length := by
  have hw := execOps_wf hshape hbasis ops s c hv hwf h
  exact ⟨hw.wfs.counts_sum.trans hw.nrShots, hw.reg, (shotStates_length hw.wfs).trans hw.nrShots,
    hw.wfs.rows.trans (by rw [hw.nrBits]), hw.wfs.row_len⟩

/-- **collapse = project + renormalise**: `collapse` keeps the amplitudes whose index has qubit `q` equal to the
kept outcome, zeroes the others and multiplies by `rsqrt` of the given weight … -/
theorem collapse_is_project_rescale (n q : Nat) (col : List α) (keep : Bool) (w : α) :
    VecState.collapseCol n q col keep w = (project n q keep col).map (· * SimAmp.rsqrt w) :=
  collapseCol_eq n q col keep w

/-- … the weight `w0` the code computes (sum of `|a|²` over the blocks with the index bit clear) is
`‖P₀ψ‖²`, and `‖P₀ψ‖² + ‖P₁ψ‖² = ‖ψ‖²` … -/
theorem weight_is_born (hs : LawfulSim α P nz) (n q : Nat) (col : List α) :
    w0Of n q col = normSqSum (project n q false col) ∧
    normSqSum (project n q false col) + normSqSum (project n q true col) = normSqSum col :=
  ⟨prob0_eq_born hs n q col, normSqSum_split hs n q col⟩

/-- … so a collapsing measurement with an outcome of valid non-zero weight sends a shot in the exact state
(up to a scalar) to the exact projected state (up to a scalar), renormalised to unit norm -/
theorem collapse_exact (ha : LawfulAmp α P) (hs : LawfulSim α P nz) (q : Nat) (o : Bool) {col ψ : List α}
    (h : Rel n col ψ) (hnz : nz (if o then 1 - w0Of n q col else w0Of n q col)) :
    Rel n (collapseShot n q col o) (project n q o ψ) ∧ normSqSum (collapseShot n q col o) = 1 :=
  ⟨h.collapse ha hs q o hnz, (h.collapse ha hs q o hnz).2.1⟩

/-- **measure, per shot**: shot `i` gets an outcome `o` of valid non-zero weight, written into bit `cbit` of
its word and nowhere else; its state is collapsed accordingly -/
theorem measure_per_shot (hs : LawfulSim α P nz) {sc : List α → Nat → Prop} {s : VecState α} {q cbit : Nat}
    {res : List Nat} (hwf : WFS s)
    (hres : res.length = s.nrShots) {ds ds' : List Draw} {s' : VecState α} {res' : List Nat}
    (h : Runs (suppBin nz) sc (VecState.measureInto s q cbit res) ds (.ok (s', res')) ds') :
    ∃ n0s, ∀ (i : Nat) (w : Nat) (col : List α), res[i]? = some w → (shotStates s)[i]? = some col →
      ∃ o, (measOuts s.counts n0s)[i]? = some o ∧ res'[i]? = some (setBitTo w cbit o) ∧
        (shotStates s')[i]? = some (collapseShot s.nrBits q col o) ∧
        nz (if o then 1 - w0Of s.nrBits q col else w0Of s.nrBits q col) :=
  (measure_shot hs hwf hres h).2.2.2.2.2.2

/-- **a peek leaves the state untouched**: single-qubit peek, any basis (the basis change and its inverse
cancel), every shot -/
theorem peek_leaves_state (hsem : GateSemOK α n valid) {sb : Nat → α → Nat → Prop} {sc : List α → Nat → Prop}
    {N : Nat} {s : VecState α} {c : List Nat} {q cb : Nat} {b : Basis}
    (hwf : WFState n N s c) {ds ds' : List Draw} {s' : VecState α} {c' : List Nat}
    (h : Runs sb sc (execOp (vecBackend (α := α) (P := P)) s c (.peek q cb b)) ds (.ok (s', c')) ds') :
    shotStates s' = shotStates s :=
  peek_untouched hsem hwf h

/-- … and so does `peek_all` -/
theorem peek_all_leaves_state (hsem : GateSemOK α n valid) {sb : Nat → α → Nat → Prop} {sc : List α → Nat → Prop}
    {N : Nat} {s : VecState α} {c cbits : List Nat} {b : Basis}
    (hwf : WFState n N s c) {ds ds' : List Draw} {s' : VecState α} {c' : List Nat}
    (h : Runs sb sc (execOp (vecBackend (α := α) (P := P)) s c (.peekAll cbits b)) ds (.ok (s', c')) ds') :
    shotStates s' = shotStates s :=
  peekAll_untouched hsem hwf h

/-- **reset, per shot**: a hidden outcome `o` of valid non-zero weight, collapse, then `X` iff `o = 1`;
the other qubits are in the state matching the hidden outcome -/
theorem reset_per_shot (hs : LawfulSim α P nz) (hsem : GateSemOK α n valid) {sc : List α → Nat → Prop}
    {s : VecState α} {q : Nat}
    (hn : s.nrBits = n) (hwf : WFS s) {ds ds' : List Draw} {s' : VecState α}
    (h : Runs (suppBin nz) sc (VecState.reset (P := P) s q) ds (.ok s') ds') :
    q < n ∧ s'.nrBits = s.nrBits ∧ s'.nrShots = s.nrShots ∧ WFS s' ∧
    ∃ n0s, ∀ (i : Nat) (col : List α), (shotStates s)[i]? = some col →
      ∃ o, (measOuts s.counts n0s)[i]? = some o ∧
        (shotStates s')[i]? = some (resetShot (P := P) n q col o) ∧
        nz (if o then 1 - w0Of n q col else w0Of n q col) :=
  reset_shot hs hsem hn hwf h

/-- … and **the qubit is left in `|0⟩`**: whatever the hidden outcome, the new state of the shot has no
amplitude on a basis index with qubit `q` set -/
theorem reset_leaves_qubit_zero {q r : Nat} (hq : q < n) (hr : r < 2 ^ n) (col : List α) (o : Bool)
    (h1 : qbit n q r = 1) : (resetShot (P := P) n q col o).getD r 0 = 0 :=
  resetShot_qubit_zero hq hr col o h1

end

/-! ## the intended model: complex amplitudes -/

open Q1t.SimComplex Q1t.AmpComplex Q1t.Sim.SimGFComplex Q1t.Proofs.Route in
/-- ℂ with the real cosine/sine, `|a|² = a·ā`, `rsqrt w = 1/√(re w)`, `min1 w = min(re w, 1) + i·im w` and `nz` =
"is a positive real" (the instance of `Q1t/Proofs/SimGFComplex.lean`, shared with C01) satisfies every algebraic
hypothesis, and `GateSemOK` for all well-formed terms on valid placements of every register -/
theorem complex_is_model : LawfulAmp ℂ ℝ ∧ LawfulSim ℂ ℝ nzC ∧ LocalWeights ℂ ∧ NonzeroOK nonzeroC ∧
    ∀ n, GateSemOK ℂ n (Placed (P := ℝ) n) :=
  ⟨Q1t.AmpComplex.lawful, lawfulSim, Q1t.SimComplex.localWeights, nonzeroC_ok,
    fun n => gateSemOK_placed Q1t.AmpComplex.lawful lawfulSim n⟩

open Q1t.SimComplex Q1t.AmpComplex Q1t.Sim.SimGFComplex Q1t.Proofs.Route in
/-- **shot_refinement over ℂ, unconditional**: no algebraic and no gate hypothesis — all `n`, `N`, all circuits
over all operation kinds (all bases, `reset_all` included) whose gates are well-formed terms (any nesting of `C`,
`Kron`, `Composite`, `Loop`; all real parameters) on valid placements, distinct `measure_all`/`peek_all` targets,
all draws in the support ("an outcome is drawn only if its weight is a positive real") -/
theorem shot_refinement_complex {n N : Nat} (ops : List (COp ℝ))
    (hv : OpsValid (Placed (P := ℝ) n) ops) (hok : ∀ op ∈ ops, OpOK op)
    {ds ds' : List Draw} {s' : VecState ℂ} {c' : List Nat}
    (hrun : runOracle (execOps (vecBackend (α := ℂ) (P := ℝ)) (VecState.new n N) (List.replicate N 0) ops) ds =
      some (.ok (s', c'), ds'))
    (hsupp : Supported (suppBin nzC) (suppCat nzC)
      (execOps (vecBackend (α := ℂ) (P := ℝ)) (VecState.new n N) (List.replicate N 0) ops) ds) :
    WFState n N s' c' ∧
    ∃ regs, RunsTrace (vecBackend (α := ℂ) (P := ℝ)) (suppBin nzC) (suppCat nzC) (VecState.new n N)
        (List.replicate N 0) ops ds regs s' c' ds' ∧
      ∀ i, i < N → ∃ outs col w φ, ShotRecord regs i outs ∧ (shotStates s')[i]? = some col ∧ c'[i]? = some w ∧
        (φ, w) ∈ replay n nonzeroC ops outs [(ket0 n, 0)] ∧ Rel n col φ ∧ normSqSum φ ≠ 0 := by
  obtain ⟨h1, regs, h2, h3⟩ := shot_refinement_unconditional Q1t.AmpComplex.lawful lawfulSim
    nonzeroC_ok ops hv hok (fun _ => Q1t.SimComplex.localWeights) hrun hsupp
  refine ⟨h1, regs, h2, fun i hi => ?_⟩
  obtain ⟨outs, col, w, φ, a, b, c, d, e, u, hu⟩ := h3 i hi
  exact ⟨outs, col, w, φ, a, b, c, d, e, fun h0 => by rw [h0, zero_mul] at hu; exact zero_ne_one hu⟩

/-! ## for C01: the hypothesis bundle `SimGF.Hyps` discharged (re-exported here so that it is axiom-audited) -/

/-- `SimGF.Hyps` (C01) is really inhabited: complex amplitudes, every `n`, all well-formed terms on valid
placements -/
theorem hyps_complex (n : Nat) :
    Q1t.Sim.SimGF.Hyps ℂ ℝ Q1t.Sim.SimGFComplex.nzC n (Q1t.Proofs.Route.Placed (P := ℝ) n) :=
  Q1t.Sim.hyps_complex n

/-- C01's multinomial law on the fragment F with no hypothesis on amplitudes or gates -/
theorem histogram_gf_unconditional {R : Type} [CommRing R] {n N : Nat} (ord : List (Nat × Nat) → List (Nat × Nat))
    (hord : ∀ l, (ord l).Perm l) (toR : ℂ →+* R) (x : Nat → R) (ops : List (COp ℝ))
    (hF : ∀ op ∈ ops, Q1t.Sim.SimGF.InF n (Q1t.Proofs.Route.Placed (P := ℝ) n) op) (hN : 0 < N) :
    Q1t.Sim.Prog.expectOrd ord toR
      (execOps (vecBackend (α := ℂ) (P := ℝ)) (VecState.new n N) (List.replicate N 0) ops)
      (Q1t.Sim.SimGF.shotProd x) = Q1t.Sim.SimGF.gfShot n toR x ops (Q1t.Sim.SimGF.ket0 n, 0) ^ N :=
  Q1t.Sim.histogram_gf_unconditional ord hord toR x ops hF hN

/-! ## the stabilizer backend, relative to the tableau contract -/

section stab
variable {α P : Type} [CommRing α] [Amp α P] [SimAmp α]
variable {n : Nat} {valid : GateTerm P → List Nat → Prop} {nz : α → Prop}

open Q1t.Tableau in
/-- **stab_shot_refinement** — the per-shot statement for the model of `StabilizerState`
(`Q1t/Model/StabSim.lean`: ranges of `(count, tableau)`, `measure_into` splitting a range on a random
classification, `reset` forcing every tableau, `measure_all_into` qubit by qubit), **relative to the explicit
hypothesis `TableauOK St n ph conjOf valid`** (`Q1t/Proofs/SimStabRefine.lean`): for an abstract relation `St t ψ`
("tableau `t` describes the vector `ψ` of non-zero weight"), `Tab.new` describes `|0…0⟩`, `St` is closed under
invertible scalars, `Tab.applyGate` on a valid instance follows the embedded documented unitary, a `deterministic v`
classification of `Tab.measure` means `P_v ψ = ψ`, a `random` one that both outcomes have non-zero weight and that
`Tab.collapse` follows the projector, and `Tab.reset` follows one of the two branches of the reference reset.
These are the statements of C03; they are NOT proved here.

Under it: for all `n`, `N`, all circuits over every operation kind EXCEPT `peek_all` (D5, witnessed below) with
`measure_all` naming `n` distinct classical bits, every draw list (`sb`, `sc` arbitrary: every binomial of the
stabilizer backend has parameter ½), after a successful run the counts sum to `N` = register length = number of
per-shot tableaux, and every shot's outcome record has a candidate `φ` of non-zero weight in the forced replay that
is described by the shot's tableau.  In particular the FORCED reset of the pinned code (D4: a reset of a qubit with
a random classification always takes the branch "outcome 0") is still a possible run for every single shot —
D4 is a defect of the distribution (C01), not of C02. -/
theorem stab_shot_refinement {St : Tab → List α → Prop} {half : α} {ph : List Nat}
    {conjOf : GateTerm P → Tab.Conj} {sb : Nat → α → Nat → Prop} {sc : List α → Nat → Prop}
    (hT : TableauOK St n ph conjOf valid) (ha : LawfulAmp α P) (hs : LawfulSim α P nz)
    {nonzero : List α → Bool} (hnzb : NonzeroOK nonzero) {N : Nat} (ops : List (COp P))
    (hv : OpsValid valid ops) (hok : ∀ op ∈ ops, StabOpOK n op) (hloc : COp.resetAll ∈ ops → LocalWeights α)
    {ds ds' : List Draw} {s' : StabState} {c' : List Nat}
    (h : Runs sb sc (execOps (stabBackend half ph conjOf) (StabState.new n N) (List.replicate N 0) ops) ds
      (.ok (s', c')) ds') :
    (s'.counts.sum = N ∧ c'.length = N ∧ (shotTabs s').length = N) ∧
    ∃ regs, RunsTrace (stabBackend half ph conjOf) sb sc (StabState.new n N) (List.replicate N 0) ops ds regs s' c' ds' ∧
      ∀ i, i < N → ∃ outs t w φ, ShotRecord regs i outs ∧ (shotTabs s')[i]? = some t ∧ c'[i]? = some w ∧
        (φ, w) ∈ replay n nonzero ops outs [(ket0 n, 0)] ∧ St t φ ∧ ∃ u : α, normSqSum φ * u = 1 :=
  Q1t.Sim.stab_shot_refinement hT ha hs hnzb ops hv hok hloc h

open Q1t.Tableau in
/-- the range logic alone, with no contract: which tableau operation hits the tableau of each shot of a
`measure_into` and which bit is written for it (`MeasStep`: the deterministic outcome with the tableau kept, or a
random classification with the tableau collapsed on the shot's outcome) -/
theorem stab_measure_per_shot {half : α} {ph : List Nat} {sb : Nat → α → Nat → Prop} {sc : List α → Nat → Prop}
    {N : Nat} {s : StabState} {c : List Nat} {q cbit : Nat} (hwf : WFT n N s c)
    {ds ds' : List Draw} {s' : StabState} {c' : List Nat}
    (h : Runs sb sc (StabState.measureInto half ph s q cbit c) ds (.ok (s', c')) ds') :
    q < n ∧ cbit < 64 ∧ WFT n N s' c' ∧
    ∀ (i : Nat) (t : Tab) (w : Nat), (shotTabs s)[i]? = some t → c[i]? = some w →
      ∃ o t', MeasStep ph q t (o, t') ∧ c'[i]? = some (setBitTo w cbit o) ∧ (shotTabs s')[i]? = some t' :=
  stab_measureInto_runs hwf h

end stab

open Q1t.Proofs.TabG Q1t.Sim.Demo in
/-- **stab_shot_refinement_generated** — the stabilizer-backend statement for the tables regenerated from the
source on every run (`Gen.phaseTable`, `Gen.conjTable`), over the exact field ℚ(ζ₈), with the contract discharged by
C03 (`TabG.tableauOK_generated`) **relative to the single hypothesis `DetShapeHolds`** (C03: in every reachable tableau
a column without X/Y holds exactly one `Z`, in a row that is `Z_q` alone).  Everything else is proved: `LawfulAmp`,
`LawfulSim` (`lawfulSimQ8`), the exact norm test, `LocalWeights Q8` (ℚ(ζ₈) is a field, `Q8Field.lean`).

All `n`, `N`, all circuits whose gates are well-formed claiming Clifford terms on valid placements (`TabG.validT`),
over every operation kind except `peek_all` (D5), `measure_all` naming `n` distinct classical bits; every draw list.
After a successful run of the model's `execOps stabBackend …` from the fresh tableau: counts, register and per-shot
tableaux account for exactly `N` shots, and every shot `i` has an outcome record `outs` (its column in the trace of
register snapshots) whose forced replay has a candidate `(φ, w)`, `w` the shot's final word, such that the shot's
tableau `t` **stabilizes the exact conditional state vector `φ`** (`StabG`: every signed row of `t`, as a Pauli
operator, fixes `φ`; `t.n = n`) and `φ` has non-zero weight. -/
theorem stab_shot_refinement_generated (n N : Nat)
    (hD : DetShapeHolds (α := Q8) (A := Empty) n Q1t.Gen.phaseTable Q1t.Gen.conjTable Q1t.Gen.conjNoArityCheck)
    {half : Q8} {sb : Nat → Q8 → Nat → Prop} {sc : List Q8 → Nat → Prop} (ops : List (COp Empty))
    (hv : OpsValid (validT (A := Empty) n Q1t.Gen.conjTable) ops) (hok : ∀ op ∈ ops, StabOpOK n op)
    {ds ds' : List Draw} {s' : StabState} {c' : List Nat}
    (h : Runs sb sc (execOps (stabBackend half Q1t.Gen.phaseTable
        (conjOfT (A := Empty) Q1t.Gen.conjTable Q1t.Gen.conjNoArityCheck)) (StabState.new n N) (List.replicate N 0) ops)
      ds (.ok (s', c')) ds') :
    (s'.counts.sum = N ∧ c'.length = N ∧ (shotTabs s').length = N) ∧
    ∃ regs, RunsTrace (stabBackend half Q1t.Gen.phaseTable
        (conjOfT (A := Empty) Q1t.Gen.conjTable Q1t.Gen.conjNoArityCheck)) sb sc (StabState.new n N)
        (List.replicate N 0) ops ds regs s' c' ds' ∧
      ∀ i, i < N → ∃ outs t w φ, ShotRecord regs i outs ∧ (shotTabs s')[i]? = some t ∧ c'[i]? = some w ∧
        (φ, w) ∈ replay n nonzeroQ8 ops outs [(ket0 n, 0)] ∧ StabG Empty t φ ∧ t.n = n ∧
        ∃ u : Q8, normSqSum φ * u = 1 := by
  obtain ⟨h1, regs, h2, h3⟩ := Q1t.Sim.stab_shot_refinement (tableauOK_generated n hD) Q8.lawful lawfulSimQ8
    nonzeroQ8_ok ops hv hok (fun _ => localWeightsQ8) h
  refine ⟨h1, regs, h2, fun i hi => ?_⟩
  obtain ⟨outs, t, w, φ, a, b, c, d, e, _⟩ := h3 i hi
  obtain ⟨f1, f2, f3⟩ := reach_sound n Q1t.Gen.phaseTable Q1t.Gen.conjTable Q1t.Gen.conjNoArityCheck Q8.lawful
    lawfulSimQ8 Q1t.Proofs.Tableau.phaseTable_correct Q1t.Proofs.ConjQ8.prims_exact_Q8 tableFacts_generated hD t φ e
  exact ⟨outs, t, w, φ, a, b, c, d, f1, f2, f3⟩

open Q1t.Proofs.TabG Q1t.Sim.Demo in
/-- **stab_shot_refinement_generated, no hypothesis left**: `DetShapeHolds` is proved by C03
(`Q1t.Props.C03.det_shape_holds`, `Proofs/DetShapeAll.lean`). -/
theorem stab_shot_refinement_generated_unconditional (n N : Nat)
    {half : Q8} {sb : Nat → Q8 → Nat → Prop} {sc : List Q8 → Nat → Prop} (ops : List (COp Empty))
    (hv : OpsValid (validT (A := Empty) n Q1t.Gen.conjTable) ops) (hok : ∀ op ∈ ops, StabOpOK n op)
    {ds ds' : List Draw} {s' : StabState} {c' : List Nat}
    (h : Runs sb sc (execOps (stabBackend half Q1t.Gen.phaseTable
        (conjOfT (A := Empty) Q1t.Gen.conjTable Q1t.Gen.conjNoArityCheck)) (StabState.new n N) (List.replicate N 0) ops)
      ds (.ok (s', c')) ds') :
    (s'.counts.sum = N ∧ c'.length = N ∧ (shotTabs s').length = N) ∧
    ∃ regs, RunsTrace (stabBackend half Q1t.Gen.phaseTable
        (conjOfT (A := Empty) Q1t.Gen.conjTable Q1t.Gen.conjNoArityCheck)) sb sc (StabState.new n N)
        (List.replicate N 0) ops ds regs s' c' ds' ∧
      ∀ i, i < N → ∃ outs t w φ, ShotRecord regs i outs ∧ (shotTabs s')[i]? = some t ∧ c'[i]? = some w ∧
        (φ, w) ∈ replay n nonzeroQ8 ops outs [(ket0 n, 0)] ∧ StabG Empty t φ ∧ t.n = n ∧
        ∃ u : Q8, normSqSum φ * u = 1 :=
  stab_shot_refinement_generated n N (Q1t.Proofs.DetPlan.detShapeHolds_generated n) ops hv hok h

/-! ## non-vacuity -/

open Q1t.Sim.Demo

/-- the hypotheses are jointly satisfiable, for every register size: the exact field `Q8 = ℚ(ζ₈)` with the
(partial) `rsqrt` on the weights 1, ½, ¼ is a model of `LawfulAmp`, `LawfulSim`, `GateSemOK` (basis gates) and
`NonzeroOK` (exact norm test) -/
example (n : Nat) : LawfulAmp Q8 Empty ∧ LawfulSim Q8 Empty nzQ8 ∧ GateSemOK Q8 n (basisValid (P := Empty) n) ∧
    NonzeroOK nonzeroQ8 :=
  ⟨Q8.lawful, lawfulSimQ8, gateSemOK_basis Q8.lawful lawfulSimQ8 n, nonzeroQ8_ok⟩

/-- a concrete circuit on 2 qubits and 2 shots — `H`, a Y-basis collapsing measurement, a conditional gate, a
reset, an X-basis peek, a barrier, `measure_all` (Z) and `peek_all` (X) — satisfies all hypotheses and has a
successful run on draws in the support (kernel-computed) … -/
example : OpsValid (basisValid (P := Empty) 2) demoOps ∧ (∀ op ∈ demoOps, OpOK op) ∧
    ∃ s', runOracle demoProg demoDraws = some (.ok (s', [4, 57]), []) ∧
      Supported (suppBin nzQ8) (suppCat nzQ8) demoProg demoDraws :=
  ⟨demo_valid, demo_ok, demo_run⟩

/-- … so the conclusion of `shot_refinement` holds for it: both shots are possible runs holding the exact
conditional state -/
example : ∃ (s' : VecState Q8) (regs : List (List Nat)),
    ∀ i, i < 2 → ∃ outs col w φ, ShotRecord regs i outs ∧ (shotStates s')[i]? = some col ∧
      ([4, 57] : List Nat)[i]? = some w ∧ (φ, w) ∈ replay 2 nonzeroQ8 demoOps outs [(ket0 2, 0)] ∧ Rel 2 col φ ∧
      ∃ u : Q8, normSqSum φ * u = 1 := by
  obtain ⟨s', hrun, hsupp⟩ := demo_run
  obtain ⟨_, regs, _, h⟩ := shot_refinement_basis_gates Q8.lawful lawfulSimQ8 nonzeroQ8_ok demoOps demo_valid demo_ok
    (fun h => absurd h demo_no_resetAll) hrun hsupp
  exact ⟨s', regs, h⟩

/-! ## negative witness: D5 (stabilizer backend) -/

/-- **D5**: the property FAILS on the stabilizer backend for `peek_all`.  On the model of `StabilizerState`
(`Q1t/Model/StabSim.lean`, with the phase and conjugation tables generated from the source), the circuit
`h(0); cx(0,1); peek_all → bits 0,1` with draws in the support (qubit 0 peeked as 0 and qubit 1 peeked as 1, each
an outcome of probability ½ of its own, independent, binomial) succeeds and stores the word `0b10`; the
reference semantics has NO candidate for the record `00, 00, 10`: a Bell pair never yields different bits. -/
theorem stab_peek_all_bell_impossible_value :
    (∃ s', runOracle bellProg bellDraws = some (.ok (s', [2]), []) ∧
      Supported (suppBin nzQ8) (suppCat nzQ8) bellProg bellDraws) ∧
    Spec.replay (P := Empty) 2 nonzeroQ8 bellPeekAll [0, 0, 2] [(ket0 2, 0)] = [] :=
  d5_witness

/-! ## negative witness: D14 (vector backend, repeated `measure_all` target) -/

/-- **D14**: outside `OpOK` the statement FAILS.  2 qubits in `|10⟩` (`x(0)`), `measure_all` with both qubits
sent to classical bit 0: the model (only possible draw: basis state `|10⟩`) stores the word 1 = `1 | 0` — the
outcomes of the two qubits are ORed; the reference semantics, which reads bit 0 as the outcome of qubit 0 AND of
qubit 1, has no candidate for the record `0, 1`. -/
theorem measure_all_repeated_target_ors :
    (∃ s', runOracle d14Prog d14Draws = some (.ok (s', [1]), []) ∧
      Supported (suppBin nzQ8) (suppCat nzQ8) d14Prog d14Draws) ∧
    Spec.replay (P := Empty) 2 nonzeroQ8 d14Ops [0, 1] [(ket0 2, 0)] = [] ∧
    ¬ OpOK (COp.measureAll (P := Empty) [0, 0] .Z) :=
  d14_witness

end Q1t.Props.C02

import Q1t.Proofs.CQasmStructure
import Q1t.Proofs.CQasmNot
import Q1t.Proofs.CQasmBracketSem
import Q1t.Proofs.CQasmTemplates
import Q1t.Proofs.CQasmGates1
import Q1t.Proofs.CQasmGates2
import Q1t.Proofs.CQasmGates3
import Q1t.Proofs.CQasmWitness
import Q1t.Proofs.CQasmTrig
import Q1t.Proofs.CQasmWFWitness
import Q1t.Proofs.CQasmComplex
import Q1t.Proofs.CQasmEquivExample
import Q1t.Proofs.CQasmEquivDensity
import Q1t.Proofs.CQasmTextWitness
/-!
# C12 — the c-QASM export preserves the circuit's semantics or fails

Model: `Q1t/Model/CQasm.lean` (`Circuit::c_qasm`, every gate's `c_qasm` / `conditional_c_qasm`, driven by the
generated table `Gen.cqGates`).  Reference: `Q1t/Spec/CQ1.lean` (a cQASM 1.0 subset: parser, well-formedness, meaning
of every instruction, single-shot branching semantics) and `Q1t/Spec/Born.lean` (the circuit).

Full statement (FALSE on the pinned code: defect classes witnessed below):

  `cq_wellformed` / `cq_equiv`: for every circuit `c` whose operations can be simulated, `exportText c` is an error, or
  a text `t` with `parseProgram t = ok p`, `programWf p = none` and, for every register word `w`,
  `density (programSem p) w = density (Born.branches c) w`.

Its well-formedness half is proved outside the syntactic defect classes (`cq_wellformed_partial`).  The WHOLE statement is
proved for the exported TEXT on the decidable class `classOp` (`cq_equiv_text_partial`, last section), under the named
hypothesis `ReadsBack` about the number printer / reader, in a lawful trigonometric context, for the non-zero test that
keeps every branch, `0 < nq ≤ 64`.  Outside that class (and for other non-zero tests) the correspondence (B) checks it on
every run.

What is proved here, for ALL circuits / control lists / targets / words / angles unless a finite table IS the
quantifier: the structure of the export (`cq_structure*`), the refusals (`cq_refuses`), the `not` bracketing
(`cq_not_bracketing*`), the tie to the generated templates (`templates_as_modelled`), the meaning of the constant
gates' translations (kernel-checked over ℚ(ζ₈), `cq_const_*`), the parametrised translations in an abstract
trigonometric context (`cq_param_*`), and kernel-checked negative witnesses of every defect class (`neg_*`).
-/
namespace Q1t.Props.C12
open Q1t Q1t.CQ Q1t.Proofs.CQasm

variable {F : Type}

/-! ## Structure -/

/-- **cq_structure** (success): if every operation exports, the program is the header followed by the chunks of the
operations in order. For every table, number printer and circuit. -/
theorem cq_structure (tbl : List Gen.CQGate) (N : Num F) (c : XCircuit F) (chunks : XOp F → List Text)
    (h : ∀ op ∈ c.ops, exportOp tbl N c.nq op = .ok (chunks op)) :
    exportText tbl N c = .ok (chunksText (header c.nq ++ c.ops.flatMap chunks)) := by
  unfold exportText; rw [export_all_ok tbl N c chunks h]; rfl

/-- **cq_structure** (failure): the export is the error of the FIRST operation that does not export … -/
theorem cq_structure_err (tbl : List Gen.CQGate) (N : Num F) (c : XCircuit F) (pre post : List (XOp F)) (op : XOp F)
    (e : Err) (hops : c.ops = pre ++ op :: post) (hpre : ∀ x ∈ pre, ∃ ls, exportOp tbl N c.nq x = .ok ls)
    (hop : exportOp tbl N c.nq op = .err e) : exportText tbl N c = .err e :=
  export_first_err tbl N c pre post op e hops hpre hop

/-- … or its panic. -/
theorem cq_structure_panic (tbl : List Gen.CQGate) (N : Num F) (c : XCircuit F) (pre post : List (XOp F)) (op : XOp F)
    (hops : c.ops = pre ++ op :: post) (hpre : ∀ x ∈ pre, ∃ ls, exportOp tbl N c.nq x = .ok ls)
    (hop : exportOp tbl N c.nq op = .panic) : exportText tbl N c = .panic :=
  export_first_panic tbl N c pre post op hops hpre hop

/-- the three cases are exhaustive: the export is always one of them (general form through `mapRes`) -/
theorem cq_structure_general (tbl : List Gen.CQGate) (N : Num F) (c : XCircuit F) :
    exportText tbl N c =
      ((mapRes (exportOp tbl N c.nq) c.ops).map' (fun ls => header c.nq ++ ls.flatten)).map' chunksText := by
  unfold exportText; rw [exportChunks_eq]

/-! ## Refusals -/

/-- **cq_refuses**: a circuit containing a peek, or a measurement of a qubit into a differently numbered bit
(`measure q c` with `q ≠ c`, `measure_all cbits` with `cbits ≠ [0, 1, …]`), is never exported; every such operation
yields `ExportPeekInvalid` resp. `NoClassicalRegister`.  For all circuits. -/
theorem cq_refuses (tbl : List Gen.CQGate) (N : Num F) (c : XCircuit F) (h : ∃ op ∈ c.ops, Inexpressible op) :
    ∀ t, exportText tbl N c ≠ .ok t :=
  export_refuses_inexpressible tbl N c h

theorem cq_refuses_error (tbl : List Gen.CQGate) (N : Num F) (nq : Nat) (op : XOp F) (h : Inexpressible op) :
    exportOp tbl N nq op = .err .exportPeekInvalid ∨ exportOp tbl N nq op = .err .noClassicalRegister :=
  exportOp_inexpressible tbl N nq op h

/-- non-vacuity: the error is the specific one, after operations that export -/
example : exportText Gen.cqGates noNum ⟨1, 1, [.gate (lib "H") [0], .peek 0 0 .Z]⟩ = .err .exportPeekInvalid := by decide
example : exportText Gen.cqGates noNum ⟨2, 2, [.gate (lib "H") [0], .measure 0 1 .Z]⟩ = .err .noClassicalRegister := by decide
example : exportText Gen.cqGates noNum ⟨2, 2, [.measureAll [1, 0] .Z]⟩ = .err .noClassicalRegister := by decide


/-! ## Well-formedness outside the defect classes -/

/-- **cq_wellformed_partial**: for EVERY circuit of the decidable class `sound` (at least one qubit; gates on the right
number of distinct qubits in range; library gates with a good translation — all but `U2 U3 CH CRZ CU2 CV CVdg`,
`good_gates` — and direct parameters; an unconditioned `Kron` of two one-line library gates; loop labels that are
identifiers) and every number printer satisfying `GoodNum` (a number prints as one decimal literal; the evaluated
holes of the generated templates evaluate): if the export returns a text, the text parses with `Spec/CQ1` into a program
over the circuit's qubits with no well-formedness problem.  Conditional multi-line gates, empty / repeated control
lists, over-wide targets, X/Y `measure_all`, nested loops and `CCRZ` are inside the class (well formed, semantically
wrong); peeks, mismatched measurements and the panicking circuits return no text. -/
theorem cq_wellformed_partial (N : Num F) (hN : GoodNum N) (c : XCircuit F) (hs : sound c = true) (t : Text)
    (h : exportText Gen.cqGates N c = .ok t) :
    ∃ p, CQ1.parseProgram t = .ok p ∧ p.nq = c.nq ∧ CQ1.programWf p = none :=
  wellformed_of_sound N hN c hs t h

/-- which gates of the generated table do NOT have a good translation -/
theorem good_gates :
    (Gen.cqGates.filter fun g => !gateGood g).map (·.name) = ["CH", "CRZ", "CU2", "CV", "CVdg", "U2", "U3"] := by
  decide +kernel

/-- non-vacuity: a number system satisfying `GoodNum`, and a circuit of the class whose export succeeds -/
example : GoodNum unitNum := unitNum_good
example : sound soundSample = true ∧
    (match exportText Gen.cqGates unitNum soundSample with | .ok _ => true | _ => false) = true := by decide +kernel

/-! ## The `not` bracketing of a classically controlled gate -/

/-- **cq_not_bracketing**: for ALL control lists without repetition, all targets and all register words: after the
opening `not` lines (`notBits control target`, in the semantics of `Spec/CQ1`: `w ^^^ (1 <<< k)` each) the
binary-controlled line fires (all listed bits are 1) iff the listed bits of the word spell the target. -/
theorem cq_not_bracketing (control : List Nat) (target w : Nat) (hnd : control.Nodup) :
    control.all (fun k => CQ1.bitSet (flipBits w (notBits control target)) k) = true ↔
      ∀ i, ∀ (h : i < control.length), w.testBit control[i] = target.testBit i :=
  bracket_fires control target w hnd

/-- the closing `not` lines restore the register word — for every list of bits, repeated or not -/
theorem cq_not_restores (control : List Nat) (target w : Nat) :
    flipBits (flipBits w (notBits control target)) (notBits control target) = w :=
  flipBits_restores _ w

/-- the circuit's own condition (`do_execute_with`: gathered control word == target) in the same terms; hence, for a
control list without repetition and a target below `2^len`, the exported line fires iff the circuit's gate does -/
theorem cq_bracketing_agrees_with_circuit (control : List Nat) (target w cw : Nat) (hnd : control.Nodup)
    (hcw : Sim.controlWord control w = some cw) (ht : target < 2 ^ control.length) :
    control.all (fun k => CQ1.bitSet (flipBits w (notBits control target)) k) = true ↔ cw = target := by
  rw [bracket_fires control target w hnd, controlWord_eq_target control w cw target hcw]
  exact ⟨fun h => ⟨h, ht⟩, fun h => h.1⟩


/-- **cq_not_bracketing, in the reference semantics** (`Spec/CQ1`): for every control list without repetition, target,
state and word, the statements `not…; c-g b[..], …; not…` apply `g` iff the listed bits spell the target, and leave the
word as it was.  `g` is any instruction that is a gate conditioned on `control` (`ControlledBy`). -/
theorem cq_not_bracketing_sem_fires {α P : Type} [Zero α] [One α] [Add α] [Mul α] [Neg α] [Sub α] [Amp α P]
    (S : CQ1.NumSem α P) (n : Nat) (nz : List α → Bool) (control : List Nat) (target : Nat)
    (hnd : control.Nodup) (g : CQ1.Instr) (U : List α → List α) (hg : ControlledBy S n nz g control U)
    (ψ : List α) (w : Nat) (hfire : ∀ i, ∀ (h : i < control.length), w.testBit control[i] = target.testBit i) :
    CQ1.seqSem (CQ1.stmtSem S n nz)
        ((notBits control target).map notStmt ++ [.one g] ++ (notBits control target).map notStmt) [(ψ, w)] =
      some [(U ψ, w)] :=
  bracket_sem_fires S n nz control target hnd g U hg ψ w hfire

theorem cq_not_bracketing_sem_skips {α P : Type} [Zero α] [One α] [Add α] [Mul α] [Neg α] [Sub α] [Amp α P]
    (S : CQ1.NumSem α P) (n : Nat) (nz : List α → Bool) (control : List Nat) (target : Nat)
    (hnd : control.Nodup) (g : CQ1.Instr) (U : List α → List α) (hg : ControlledBy S n nz g control U)
    (ψ : List α) (w : Nat) (hno : ¬ ∀ i, ∀ (h : i < control.length), w.testBit control[i] = target.testBit i) :
    CQ1.seqSem (CQ1.stmtSem S n nz)
        ((notBits control target).map notStmt ++ [.one g] ++ (notBits control target).map notStmt) [(ψ, w)] =
      some [(ψ, w)] :=
  bracket_sem_skips S n nz control target hnd g U hg ψ w hno

/-- non-vacuity: `c-x b[…], q[t]` is such an instruction, for every control list and qubit -/
example {α P : Type} [Zero α] [One α] [Add α] [Mul α] [Neg α] [Sub α] [Amp α P]
    (S : CQ1.NumSem α P) (n : Nat) (nz : List α → Bool) (control : List Nat) (t : Nat) :
    ControlledBy S n nz ⟨control, "x", [.q t]⟩ control (CQ1.applyOn n CQ1.mX [t]) := by
  intro br
  simp [CQ1.stmtSem, CQ1.instrSem, CQ1.gateMatrix, CQ1.numArgs, CQ1.Instr.qubits]
  split <;> rfl

/-- NEGATIVE (repeated control bit): `control = [0, 0]`, `target = 0`, word 1: bit 0 is negated twice, the exported
line fires, the circuit's gate (control word 3 ≠ 0) does not. -/
theorem neg_repeated_control_bit :
    ([0, 0] : List Nat).all (fun k => CQ1.bitSet (flipBits 1 (notBits [0, 0] 0)) k) = true ∧
    Sim.controlWord [0, 0] 1 = some 3 := by decide

/-- NEGATIVE (target with bits beyond the control list): `control = [0]`, `target = 2`, word 0: the line fires (only
the low bit of the target is looked at), the circuit's gate (control word 0 ≠ 2) never does. -/
theorem neg_target_beyond_controls :
    ([0] : List Nat).all (fun k => CQ1.bitSet (flipBits 0 (notBits [0] 2)) k) = true ∧
    Sim.controlWord [0] 0 = some 0 := by decide

/-! ## Tie to the source: the generated templates are the ones the obligations are about -/

/-- **templates_as_modelled**: the table re-extracted from `src/gates/*.rs` on every run, read symbolically (`{i}` =
i-th listed qubit, parameter operands as the template's own hole text), is exactly this table of lines; and the
format pieces of `Kron`, `Loop`, the default `conditional_c_qasm` and `Circuit::c_qasm` are the modelled ones. -/
theorem templates_as_modelled :
    Gen.cqGates.map gateShape =
    [("CCRX", ["theta"], [("s", ["{2}"]), ("cnot", ["{1}", "{2}"]), ("ry", ["{2}", "{-0.25 * {theta}}"]),
       ("cnot", ["{1}", "{2}"]), ("ry", ["{2}", "{0.25 * {theta}}"]), ("cnot", ["{0}", "{1}"]), ("cnot", ["{1}", "{2}"]),
       ("ry", ["{2}", "{0.25 * {theta}}"]), ("cnot", ["{1}", "{2}"]), ("ry", ["{2}", "{-0.25 * {theta}}"]),
       ("cnot", ["{0}", "{1}"]), ("cnot", ["{0}", "{2}"]), ("ry", ["{2}", "{-0.25 * {theta}}"]), ("cnot", ["{0}", "{2}"]),
       ("ry", ["{2}", "{0.25 * {theta}}"]), ("sdag", ["{2}"])]),
     ("CCRY", ["theta"], [("cnot", ["{1}", "{2}"]), ("ry", ["{2}", "{-0.25 * {theta}}"]), ("cnot", ["{1}", "{2}"]),
       ("ry", ["{2}", "{0.25 * {theta}}"]), ("cnot", ["{0}", "{1}"]), ("cnot", ["{1}", "{2}"]),
       ("ry", ["{2}", "{0.25 * {theta}}"]), ("cnot", ["{1}", "{2}"]), ("ry", ["{2}", "{-0.25 * {theta}}"]),
       ("cnot", ["{0}", "{1}"]), ("cnot", ["{0}", "{2}"]), ("ry", ["{2}", "{-0.25 * {theta}}"]), ("cnot", ["{0}", "{2}"]),
       ("ry", ["{2}", "{0.25 * {theta}}"])]),
     ("CCRZ", ["lambda"], [("cr", ["{1}", "{2}", "{0.5 * {lambda}}"]), ("cnot", ["{0}", "{1}"]),
       ("cr", ["{1}", "{2}", "{-0.5 * {lambda}}"]), ("cnot", ["{0}", "{1}"]), ("cr", ["{0}", "{2}", "{0.5 * {lambda}}"])]),
     ("CCX", [], [("toffoli", ["{0}", "{1}", "{2}"])]),
     ("CCZ", [], [("h", ["{2}"]), ("toffoli", ["{0}", "{1}", "{2}"]), ("h", ["{2}"])]),
     ("CH", [], [("ch", ["{0}", "{1}"])]),
     ("CRX", ["theta"], [("s", ["{1}"]), ("cnot", ["{0}", "{1}"]), ("ry", ["{1}", "{-0.5 * {theta}}"]),
       ("cnot", ["{0}", "{1}"]), ("ry", ["{1}", "{0.5 * {theta}}"]), ("sdag", ["{1}"])]),
     ("CRY", ["theta"], [("cnot", ["{0}", "{1}"]), ("ry", ["{1}", "{-0.5 * {theta}}"]), ("cnot", ["{0}", "{1}"]),
       ("ry", ["{1}", "{0.5 * {theta}}"])]),
     ("CRZ", ["lambda"], [("crz", ["{0}", "{1}", "{lambda}"])]),
     ("CS", [], [("crk", ["{0}", "{1}", "1"])]),
     ("CSdg", [], [("cr", ["{0}", "{1}", "-1.570796326794897"])]),
     ("CT", [], [("crk", ["{0}", "{1}", "2"])]),
     ("CTdg", [], [("cr", ["{0}", "{1}", "-0.7853981633974483"])]),
     ("CU1", ["lambda"], [("cr", ["{0}", "{1}", "{lambda}"])]),
     ("CU2", ["phi", "lambda"], [("cu2", ["{0}", "{1}", "{phi}", "{lambda}"])]),
     ("CU3", ["theta", "phi", "lambda"], [("rz", ["{1}", "{0.5 * ({lambda}-{phi})}"]), ("cnot", ["{0}", "{1}"]),
       ("rz", ["{1}", "{-0.5 * ({phi}+{lambda})}"]), ("ry", ["{1}", "{-0.5 * {theta}}"]), ("cnot", ["{0}", "{1}"]),
       ("ry", ["{1}", "{0.5 * {theta}}"]), ("rz", ["{1}", "{phi}"]), ("rz", ["{0}", "{0.5 * ({phi} + {lambda})}"])]),
     ("CV", [], [("cv", ["{0}", "{1}"])]),
     ("CVdg", [], [("cvdg", ["{0}", "{1}"])]),
     ("CX", [], [("cnot", ["{0}", "{1}"])]),
     ("CY", [], [("sdag", ["{1}"]), ("cnot", ["{0}", "{1}"]), ("s", ["{1}"])]),
     ("CZ", [], [("cz", ["{0}", "{1}"])]),
     ("H", [], [("h", ["{0}"])]),
     ("I", [], [("i", ["{0}"])]),
     ("RX", ["theta"], [("rx", ["{0}", "{theta}"])]),
     ("RY", ["theta"], [("ry", ["{0}", "{theta}"])]),
     ("RZ", ["lambda"], [("rz", ["{0}", "{lambda}"])]),
     ("S", [], [("s", ["{0}"])]),
     ("Sdg", [], [("sdag", ["{0}"])]),
     ("Swap", [], [("swap", ["{0}", "{1}"])]),
     ("T", [], [("t", ["{0}"])]),
     ("Tdg", [], [("tdag", ["{0}"])]),
     ("U1", ["lambda"], [("rz", ["{0}", "{lambda}"])]),
     ("U2", ["phi", "lambda"], [("rz", ["{0}", "{lambda+pi}"]), ("h", ["{0}"]), ("rz", ["{0} {phi}"])]),
     ("U3", ["theta", "phi", "lambda"], [("rz", ["{0}", "{lambda}"]), ("ry", ["{0}", "{theta}"]), (";", ["rz {0} {phi}"])]),
     ("V", [], [("x90", ["{0}"])]),
     ("Vdg", [], [("mx90", ["{0}"])]),
     ("X", [], [("x", ["{0}"])]),
     ("Y", [], [("y", ["{0}"])]),
     ("Z", [], [("z", ["{0}"])])] ∧
    Gen.cqKronPieces = ["{ ", " | ", " }"] ∧ Gen.cqLoopPieces = [".", "(", ")\n", "\n.end"] ∧
    Gen.cqCondPieces = ["c-", " ", ", ", ""] ∧ Gen.cqCondSplit = " " ∧
    Gen.cqCircuitLits = ["version 1.0\n", "qubits {}\n", "q[{}]", "b[{}]", "{}\n", "{}\n", "not {}\n", ", ", "{}\n",
      "not {}\n", "measure_x", "measure_y", "measure", "{} q[{}]\n", "{}\n", "{}\n", "{}\n", "measure_all\n", "c-Qasm",
      "c-Qasm", "prep_z {}\n", "prep_z {}\n"] ∧
    (Gen.cqGates.filter (·.condOverride)).length = 0 := by
  decide +kernel

/-! ## Per-gate semantic obligations: constant gates, exactly, through the model's own text -/

/-- every one-qubit constant gate: the model's line parses, is well formed and means `phase ·` the documented unitary
(phase 1, except `V ↦ x90` and `V† ↦ mx90`, which differ from `V`, `V†` by `e^{∓iπ/4}`); the table IS the quantifier -/
theorem cq_const1_plain : ∀ e ∈ const1, plainOK e.1 e.2 [0] = true := const1_plain
/-- … and under a one-bit condition it is applied iff the bit is 1 -/
theorem cq_const1_conditional : ∀ e ∈ const1, condOK e.1 e.2 [0] = true := const1_conditional
/-- `CX CZ Swap CS CT` (`cnot cz swap crk 1 crk 2`), both placements on two qubits -/
theorem cq_const2_plain : ∀ e ∈ const2, ∀ bits ∈ [[0, 1], [1, 0]], plainOK e.1 e.2 bits = true := const2_plain
theorem cq_const2_conditional : ∀ e ∈ const2, condOK e.1 e.2 [1, 0] = true := const2_conditional
/-- `CY ↦ sdag t; cnot c,t; s t`, `CCX ↦ toffoli`, `CCZ ↦ h t; toffoli; h t` -/
theorem cq_const_multi_plain :
    (∀ bits ∈ [[0, 1], [1, 0]], plainOK "CY" 1 bits = true) ∧ plainOK "CCX" 1 [0, 1, 2] = true ∧
    plainOK "CCX" 1 [2, 0, 1] = true ∧ condOK "CCX" 1 [1, 2, 0] = true ∧ plainOK "CCZ" 1 [0, 1, 2] = true ∧
    plainOK "CCZ" 1 [1, 2, 0] = true :=
  ⟨cy_plain, ccx_plain_012, ccx_plain_201, ccx_conditional, ccz_plain_012, ccz_plain_120⟩

/-- NEGATIVE (multi-line translation under a condition): only the first line carries the `c-` prefix -/
theorem neg_conditional_multiline :
    (∀ bits ∈ [[0, 1], [1, 0]], condOK "CY" 1 bits = false) ∧ condOK "CCZ" 1 [0, 1, 2] = false :=
  ⟨cy_conditional_fails, ccz_conditional_fails⟩


/-! ## Per-gate semantic obligations: parametrised translations, for ALL angles (abstract trigonometric context)

`α` is any commutative ring with `Amp α P`, `LawfulAmp α P` (ℂ with the real cosine and sine is a model).
Proved: the native `rx ry rz` lines; `U1 ↦ rz` up to `e^{-iλ/2}`; `CU1 ↦ cr` exactly; the ASSEMBLED 4×4 / 8×8 identities of
the `CRY CRX CU3 CCRY CCRX` templates (`cq_param_*_assembled`; block calculus of the OpenQASM sibling); the `CCRZ`
template as it is: exactly `CC-U1(λ)` (`cq_ccrz_template_is_ccu1`), not `CCRZ(λ)`; `CSdg`/`CTdg`: `cr` with a decimal
literal `x` denotes `CU1(x)`, which is `C-S†` / `C-T†` exactly when `x ≡ −π/2` / `−π/4` (`cq_csdg_of_angle`,
`cq_ctdg_of_angle`; the literals are 16-digit decimals, so the text is right to 5·10⁻¹⁶, not exactly).
NOT proved: `U2`/`U3` (their text is malformed).  The angle laws (`LawfulAmp`, `LawfulHalf`, `LawfulNegHalf`,
`LawfulQuarter`) hold for ℂ with the real cosine and sine (`Proofs/AmpComplex.lean`, `Proofs/CQasmComplex.lean`). -/

section param
variable {α P : Type} [CommRing α] [Amp α P]

theorem cq_param_rx (θ : P) : (CQ1.mRx θ : LMat α) = Spec.specMatrix (.RX θ) := rx_line θ
theorem cq_param_ry (h : LawfulAmp α P) (θ : P) : (CQ1.mRy θ : LMat α) = Spec.specMatrix (.RY θ) := ry_line h θ
theorem cq_param_rz (θ : P) : (CQ1.mRz θ : LMat α) = Spec.specMatrix (.RZ θ) := rz_line θ

theorem cq_param_u1 (h : LawfulAmp α P) (hh : Proofs.Unitaries.LawfulHalf α P) (l : P) :
    (CQ1.mRz l : LMat α) =
      CQ1.scale (Amp.cos (Amp.phalf α l) - Amp.I P * Amp.sin (Amp.phalf α l)) (Spec.specMatrix (.U1 l)) :=
  u1_as_rz h hh l

theorem cq_param_cu1 (l : P) :
    (CQ1.mCPhase (Amp.cos l + Amp.I P * Amp.sin l) : LMat α) = Spec.specMatrix (.C (.U1 l)) := cu1_as_cr l

/-- `CRY(θ) ↦ cnot; ry t, −θ/2; cnot; ry t, θ/2`: control 1 gives `RY(θ)`, control 0 the identity (block level) -/
theorem cq_param_cry_blocks_partial (h : LawfulAmp α P) (hh : Proofs.Unitaries.LawfulHalf α P)
    (hn : LawfulNegHalf α P) (θ : P) :
    LMat.mul (CQ1.mRy (Amp.phalf α θ)) (LMat.mul CQ1.mX (LMat.mul (CQ1.mRy (Amp.pneg α (Amp.phalf α θ))) CQ1.mX)) =
      (Spec.specMatrix (.RY θ) : LMat α) ∧
    LMat.mul (CQ1.mRy (Amp.phalf α θ)) (CQ1.mRy (Amp.pneg α (Amp.phalf α θ))) = (CQ1.mI : LMat α) :=
  ⟨(cry_block_on h hh hn θ).trans (ry_line h θ), cry_block_off h hn θ⟩

/-- `CRX(θ)`: the `CRY` template between `s t` and `sdag t`; `S†·RY(θ)·S = RX(θ)`, `S†·S = 1` (block level) -/
theorem cq_param_crx_blocks_partial (h : LawfulAmp α P) (θ : P) :
    LMat.mul (CQ1.mSdag (P := P)) (LMat.mul (CQ1.mRy θ) (CQ1.mS (P := P))) = (Spec.specMatrix (.RX θ) : LMat α) ∧
    LMat.mul (CQ1.mSdag (P := P)) (CQ1.mS (P := P)) = (CQ1.mI : LMat α) :=
  ⟨(crx_conjugation h θ).trans (rx_line θ), crx_block_off h⟩


open Q1t.OpenQasm in
/-- `CRY(θ) ↦ cnot c,t; ry t,−θ/2; cnot c,t; ry t,θ/2` IS the controlled `RY(θ)` (4×4, all angles) -/
theorem cq_param_cry_assembled (h : LawfulAmp α P) (hh : Proofs.Unitaries.LawfulHalf α P) (hn : LawfulNegHalf α P) (θ : P) :
    app2 [1] (CQ1.mRy (Amp.phalf α θ)) (app2 [0, 1] CQ1.mCnot
      (app2 [1] (CQ1.mRy (Amp.pneg α (Amp.phalf α θ))) (app2 [0, 1] CQ1.mCnot I4))) =
      (Spec.specMatrix (.C (.RY θ)) : LMat α) := cry_assembled h hh hn θ

open Q1t.OpenQasm in
/-- `CRX(θ) ↦ s t; cnot; ry t,−θ/2; cnot; ry t,θ/2; sdag t` IS the controlled `RX(θ)` -/
theorem cq_param_crx_assembled (h : LawfulAmp α P) (hh : Proofs.Unitaries.LawfulHalf α P) (hn : LawfulNegHalf α P) (θ : P) :
    app2 [1] (CQ1.mSdag (P := P)) (app2 [1] (CQ1.mRy (Amp.phalf α θ)) (app2 [0, 1] CQ1.mCnot
      (app2 [1] (CQ1.mRy (Amp.pneg α (Amp.phalf α θ))) (app2 [0, 1] CQ1.mCnot (app2 [1] (CQ1.mS (P := P)) I4))))) =
      (Spec.specMatrix (.C (.RX θ)) : LMat α) := crx_assembled h hh hn θ

open Q1t.OpenQasm in
/-- the eight lines of the `CU3` template are `e^{−i(φ+λ)/4} · (1 ⊕ U3(θ,φ,λ))` (a global phase) -/
theorem cq_param_cu3_assembled (h : LawfulAmp α P) (hh : Proofs.Unitaries.LawfulHalf α P) (hn : LawfulNegHalf α P)
    (hq : LawfulQuarter α P) (θ φ l : P) :
    let a8 := Amp.phalf α (Amp.padd α φ l)
    app2 [0] (CQ1.mRz a8) (app2 [1] (CQ1.mRz φ) (app2 [1] (CQ1.mRy (Amp.phalf α θ)) (app2 [0, 1] CQ1.mCnot
      (app2 [1] (CQ1.mRy (Amp.pneg α (Amp.phalf α θ))) (app2 [1] (CQ1.mRz (Amp.pneg α (Amp.phalf α (Amp.padd α φ l))))
        (app2 [0, 1] CQ1.mCnot (app2 [1] (CQ1.mRz (Amp.phalf α (Amp.padd α l (Amp.pneg α φ)))) I4))))))) =
      CQ1.scale (Amp.cos (Amp.phalf α a8) - Amp.I P * Amp.sin (Amp.phalf α a8))
        (Spec.specMatrix (.C (.U3 θ φ l)) : LMat α) := cu3_assembled h hh hn hq θ φ l

open Q1t.OpenQasm in
/-- the fourteen lines of the `CCRY` template (`ccryLines`) ARE the doubly controlled `RY(θ)` (8×8) -/
theorem cq_param_ccry_assembled (h : LawfulAmp α P) (hh : Proofs.Unitaries.LawfulHalf α P) (hn : LawfulNegHalf α P) (θ : P) :
    ccryLines (Amp.phalf α (Amp.phalf α θ)) (Amp.pneg α (Amp.phalf α (Amp.phalf α θ))) I8 =
      (Spec.specMatrix (.C (.C (.RY θ))) : LMat α) := ccry_assembled h hh hn θ

open Q1t.OpenQasm in
/-- `CCRX(θ)`: `s t`, the `CCRY` lines, `sdag t` -/
theorem cq_param_ccrx_assembled (h : LawfulAmp α P) (hh : Proofs.Unitaries.LawfulHalf α P) (hn : LawfulNegHalf α P) (θ : P) :
    app3 [2] (CQ1.mSdag (P := P))
      (ccryLines (Amp.phalf α (Amp.phalf α θ)) (Amp.pneg α (Amp.phalf α (Amp.phalf α θ))) (app3 [2] (CQ1.mS (P := P)) I8)) =
      (Spec.specMatrix (.C (.C (.RX θ))) : LMat α) := ccrx_assembled h hh hn θ

open Q1t.OpenQasm in
/-- the `CCRZ` template AS IT IS: `cr b,t,λ/2; cnot a,b; cr b,t,−λ/2; cnot a,b; cr a,t,λ/2` is exactly `CC-U1(λ)` -/
theorem cq_ccrz_template_is_ccu1 (h : LawfulAmp α P) (hh : Proofs.Unitaries.LawfulHalf α P) (l : P) :
    let e : α := Amp.cos (Amp.phalf α l) + Amp.I P * Amp.sin (Amp.phalf α l)
    let e' : α := Amp.cos (Amp.pneg α (Amp.phalf α l)) + Amp.I P * Amp.sin (Amp.pneg α (Amp.phalf α l))
    app3 [0, 2] (CQ1.mCPhase e) (app3 [0, 1] CQ1.mCnot (app3 [1, 2] (CQ1.mCPhase e') (app3 [0, 1] CQ1.mCnot
      (app3 [1, 2] (CQ1.mCPhase e) I8)))) =
      (Spec.specMatrix (.C (.C (.U1 l))) : LMat α) := ccrz_template_is_ccu1 h hh l

theorem cq_csdg_of_angle (x : P) (hc : (Amp.cos x : α) = 0) (hs : (Amp.sin x : α) = -1) :
    (CQ1.mCPhase (Amp.cos x + Amp.I P * Amp.sin x) : LMat α) = Spec.specMatrix (.C (.Sdg : GateTerm P)) :=
  csdg_of_angle x hc hs

theorem cq_ctdg_of_angle (h : LawfulAmp α P) (x : P) (hc : (Amp.cos x : α) = Amp.hsqrt2 P)
    (hs : (Amp.sin x : α) = -Amp.hsqrt2 P) :
    (CQ1.mCPhase (Amp.cos x + Amp.I P * Amp.sin x) : LMat α) = Spec.specMatrix (.C (.Tdg : GateTerm P)) :=
  ctdg_of_angle h x hc hs

/-- what the `CSdg` / `CTdg` texts are: `cr` with these decimal literals (kernel-checked on the model's text) -/
theorem cq_csdg_ctdg_text :
    (match exportText Gen.cqGates noNum ⟨2, 0, [.gate (lib "CSdg") [0, 1], .gate (lib "CTdg") [1, 0]]⟩ with
     | .ok t => (CQ1.parseProgram t).toOption.map (fun p => p.subs.map (·.body))
     | _ => none) =
    some [[.one ⟨[], "cr", [.q 0, .q 1, .num ⟨true, "1.570796326794897".toList, false⟩]⟩,
           .one ⟨[], "cr", [.q 1, .q 0, .num ⟨true, "0.7853981633974483".toList, false⟩]⟩]] := by decide +kernel

/-- the laws hold for the complex numbers: e.g. the `CU3` and `CCRX` identities for ALL real angles -/
example (θ φ l : ℝ) := cu3_assembled (α := ℂ) AmpComplex.lawful AmpComplex.lawfulHalf AmpComplex.lawfulNegHalf
  AmpComplex.lawfulQuarter θ φ l
example (θ : ℝ) := ccrx_assembled (α := ℂ) AmpComplex.lawful AmpComplex.lawfulHalf AmpComplex.lawfulNegHalf θ

/-- NEGATIVE (all angles): on the block where both controls are 1 the `CCRZ` template `cr(λ/2); cnot; cr(−λ/2); cnot;
cr(λ/2)` is `U1(λ) = diag(1, e^{iλ})`, while the gate is `RZ(λ) = diag(e^{-iλ/2}, e^{iλ/2})`; all other blocks are the
identity in both, so the two differ by a phase relative to the rest of the register. -/
theorem neg_ccrz_block_is_u1 (h : LawfulAmp α P) (hh : Proofs.Unitaries.LawfulHalf α P) (l : P) :
    let e : α := Amp.cos (Amp.phalf α l) + Amp.I P * Amp.sin (Amp.phalf α l)
    ([[1, 0], [0, e * e]] : LMat α) = Spec.specMatrix (.U1 l) := ccrz_block_is_u1 h hh l

end param


/-! ## Equivalence, operation by operation (`cq_equiv_partial`)

Carrier: the branches of `Spec/Born` (`(unnormalised state, register word)`).  `dSem` / `dSeq` is the semantics of
`Spec/CQ1` on statements given by their VALUES (`DStmt`: a gate is its matrix on its qubits and its condition bits);
`cq_values_are_cq1_semantics` shows it is literally `CQ1.instrSem`.  On a branch satisfying the invariant `BrInv`
(state of length `2^n`, kept by the non-zero test, word below `2^n`; `n ≤ 64`):

* `cq_equiv_gate_partial` — for EVERY gate of `exactGates` (`H X Y Z S Sdg T Tdg I RX RY RZ CX CRY CRX CCRY CCRX`; the
  whole-circuit theorems use `exactAll`, which adds `CZ Swap CS CT CY CCX CCZ CU1`), all
  parameter values, all `n`, all valid placements: the value-level lines of the generated template (`exactDenot`, read
  off `Gen.cqGates` through `slinesOf`; kernel-checked `slines_table`), placed on the register, give exactly the branch
  of the circuit's gate operation.  Route: assembled identity on `k` qubits, then `embed_foldl_compose_one` (C04's
  `EmbedAlgebra`) to `n` qubits.
* `cq_equiv_cond_partial` — a `not`-bracketed one-line conditional gate, for every control list without repetition and
  every target below `2^len`: the branch of the circuit's conditional gate.
* `cq_equiv_measure_partial`, `cq_equiv_prep_partial`, `cq_equiv_barrier_partial` — `measure / measure_x / measure_y` of
  qubit `q` into bit `q`, `prep_z`, barriers.

(1) [closed under `ReadsBack`: `cq_text_partial`, `cq_equiv_text_partial` — the parsed program of the exported TEXT is this
value-level statement list]; (2) [closed: `cq_equiv_partial` below folds the operations] (3) [closed for `CZ Swap CS CT CY CCX CCZ CU1` (exact, `exactAll`) and `V Vdg U1 CU3` (up to a phase,
`cq_equiv_phase_partial`)]; `Kron` bundles, `Composite`, unconditioned `Loop` closed by `cq_equiv_term_partial`;
conditional terms with one-line leaves closed by `cq_equiv_cond_term_partial`; `measure_all` in Z closed (up to a
permutation of the branch list; keep-all non-zero test) by `cq_equiv_measure_all_partial`, and the per-word densities by
`cq_equiv_density_partial`; still open: `CSdg CTdg` (decimal literals), `measure_all` in X / Y (known finding: basis not
restored).  All of these are checked by (B) on every run. -/

section equiv
variable {α P : Type} [CommRing α] [Amp α P]
open Q1t.Proofs.Route

/-- the value-level semantics is the semantics of `Spec/CQ1` -/
theorem cq_values_are_cq1_semantics (S : CQ1.NumSem α P) (n : Nat) (nz : List α → Bool) (k q : Nat) (br : CQ1.Branch α) :
    CQ1.instrSem S n nz ⟨[], "not", [.b k]⟩ br = some (dSem n nz (.notb k) br) ∧
    CQ1.instrSem S n nz ⟨[], "measure", [.q q]⟩ br = some (dSem n nz (.measure q [] []) br) ∧
    CQ1.instrSem S n nz ⟨[], "prep_z", [.q q]⟩ br = some (dSem n nz (.prep q) br) :=
  ⟨instrSem_not S n nz k br, (instrSem_measure S n nz q br).1, instrSem_prep S n nz q br⟩

/-- **cq_equiv_partial, gates** -/
theorem cq_equiv_gate_partial (h : LawfulAmp α P) (hh : Proofs.Unitaries.LawfulHalf α P) (hn : LawfulNegHalf α P)
    (name : String) (hname : name ∈ exactGates) (vals : List P) (hvals : vals.length = (paramsOfName name).length)
    (n : Nat) (bits : List Nat) (hv : Spec.validBits n bits = true) (hk : bits.length = libBits name) :
    ∃ (apps : List (List Nat × LMat α)) (term : GateTerm P),
      exactDenot (α := α) name vals = some apps ∧ CQ.libTerm name vals = some term ∧
      ∀ (nz : List α → Bool) (br : CQ1.Branch α), BrInv n nz br →
        nz (LMat.mulVec (Spec.embed n bits (Spec.specMatrix term)) br.1) = true →
        some (dSeq n nz (gateLines (placeApps bits apps)) [br]) = Spec.branchesOp n nz (.gate term bits) br := by
  obtain ⟨apps, term, h1, h2, h3, h4⟩ := exact_gate h hh hn name hname vals hvals
  refine ⟨apps, term, h1, h2, fun nz br hbr hnz => ?_⟩
  apply gate_equiv_of_prod n nz term bits hv apps _ (by rw [hk]; exact h4) br hbr hnz
  intro a ha
  rw [hk]
  have := List.all_eq_true.mp h3 a.1 (List.mem_map_of_mem ha)
  simpa using this

/-- **cq_equiv_partial, conditional gates** (one-line translation `M` on `qs`) -/
theorem cq_equiv_cond_partial (n : Nat) (nz : List α → Bool) (g : GateTerm P) (bits qs : List Nat) (M : LMat α)
    (hU : ∀ ψ : List α, ψ.length = 2 ^ n →
      LMat.mulVec (Spec.embed n qs M) ψ = LMat.mulVec (Spec.embed n bits (Spec.specMatrix g)) ψ)
    (control : List Nat) (target : Nat) (hnd : control.Nodup) (ht : target < 2 ^ control.length)
    (hc64 : control.all Sim.shiftOk = true) (hlen : control.length ≤ 64)
    (br : CQ1.Branch α) (hbr : BrInv n nz br)
    (hnz : nz (LMat.mulVec (Spec.embed n bits (Spec.specMatrix g)) br.1) = true) :
    some (dSeq n nz ((notBits control target).map .notb ++ [.gate control qs M] ++ (notBits control target).map .notb) [br]) =
      Spec.branchesOp n nz (.cond control target g bits) br :=
  cond_op_equiv n nz g bits qs M hU control target hnd ht hc64 hlen br hbr hnz

theorem cq_equiv_measure_partial (n : Nat) (hn : n ≤ 64) (nz : List α → Bool) (q : Nat) (hq : q < n) (b : Sim.Basis)
    (br : CQ1.Branch α) (hbr : BrInv n nz br) :
    some (dSeq n nz [.measure q (basisPre (P := P) b) (basisPost (P := P) b)] [br]) =
      Spec.branchesOp n nz (.measure q q b : Sim.COp P) br := measure_op_equiv n hn nz q hq b br hbr

theorem cq_equiv_prep_partial (n : Nat) (nz : List α → Bool) (q : Nat) (br : CQ1.Branch α) :
    some (dSeq n nz [.prep q] [br]) = Spec.branchesOp n nz (.reset q : Sim.COp P) br := prep_op_equiv n nz q br

theorem cq_equiv_barrier_partial (n : Nat) (nz : List α → Bool) (bits : List Nat) (br : CQ1.Branch α)
    (hbr : BrInv n nz br) :
    some (dSeq n nz [] [br]) = Spec.branchesOp n nz (.barrier bits : Sim.COp P) br := barrier_op_equiv n nz bits br hbr


/-- **cq_equiv_partial (whole circuits, value level)**: for EVERY list of operations of the per-operation class
`FaithfulOp` (gates of `exactGates` with direct parameters on valid placements; one-line conditional gates of
`exactGates` on a control list without repetition in range with a target below `2^len`; measurements in any basis of
qubit `q` into bit `q`; resets; barriers), every `n ≤ 64` and every non-zero test that `|0…0⟩` passes and the gates keep:
the Born branch list of the circuit from `|0…0⟩` IS the branch list of the concatenated value-level statements
(`dSeq`, the semantics of `Spec/CQ1`) — same order, same register words, same states (exactly; no phase). -/
theorem cq_equiv_partial (h : LawfulAmp α P) (hh : Proofs.Unitaries.LawfulHalf α P) (hn : LawfulNegHalf α P) (n : Nat)
    (hn64 : n ≤ 64) (nz : List α → Bool)
    (hnz0 : nz ((List.range (2 ^ n)).map fun i => if i = 0 then (1 : α) else 0) = true)
    (steps : List (XOp P × List (DStmt α) × Sim.COp P)) (hs : ∀ s ∈ steps, FaithfulOp n nz s.1 s.2.1 s.2.2) :
    Spec.branches n nz (steps.map (·.2.2)) (CQ1.initial n) =
      some (dSeq n nz (steps.flatMap (·.2.1)) (CQ1.initial n)) :=
  circuit_equiv h hh hn n hn64 nz hnz0 steps hs


/-- **cq_equiv_partial, up to a global phase per branch**: the class additionally contains the gates whose translation
is right up to a factor of modulus one (`V ↦ x90`, `V† ↦ mx90`, `U1 ↦ rz`, `CU3`; `phaseGates`).  For every operation list
of `FaithfulOpPh`, `n ≤ 64`, and every non-zero test that does not see unit factors (`NzScale`), that `|0…0⟩` passes and
the gates keep: the Born branch list exists and is related branch by branch (`PhRel`: same position, same register
word, states equal up to a factor `c` with `c·c̄ = 1`) to the branch list of the value-level statements. -/
theorem cq_equiv_phase_partial (h : LawfulAmp α P) (hh : Proofs.Unitaries.LawfulHalf α P) (hn : LawfulNegHalf α P)
    (hq : LawfulQuarter α P) (n : Nat) (hn64 : n ≤ 64) (nz : List α → Bool) (hs : NzScale P nz)
    (hnz0 : nz ((List.range (2 ^ n)).map fun i => if i = 0 then (1 : α) else 0) = true)
    (steps : List (XOp P × List (DStmt α) × Sim.COp P)) (hst : ∀ s ∈ steps, FaithfulOpPh n nz s.1 s.2.1 s.2.2) :
    ∃ r2, Spec.branches n nz (steps.map (·.2.2)) (CQ1.initial n) = some r2 ∧
      List.Forall₂ (PhRel P n nz) (dSeq n nz (steps.flatMap (·.2.1)) (CQ1.initial n)) r2 :=
  circuit_equiv_phase h hh hn hq n hn64 nz hs hnz0 steps hst


/-- **cq_equiv_partial with bundles, composites and loops**: the class `FaithfulOpT` additionally contains every gate
operation whose term satisfies `termOK` — library gates of `exactAll` / `phaseGates` with direct parameters, a `Kron`
of two one-line library gates (exported as a bundle `{ a | b }`: the parts one after the other, on disjoint qubits),
composites with valid sub-placements (any nesting), and loops that are not inside a loop (the body `iters` times,
which is what the sub-circuit `.label(iters)` means) — on a valid placement.  `gateLinesN` follows the exporter's
recursion; `term_act` (mutual induction over gates and sub-op lists; `embed_kron` + commutation of disjoint
placements, `embed_compose`, `embed_mul`, powers) shows its lines act as `c ·` the embedded documented unitary. -/
theorem cq_equiv_term_partial (h : LawfulAmp α P) (hh : Proofs.Unitaries.LawfulHalf α P) (hn : LawfulNegHalf α P)
    (hq : LawfulQuarter α P) (n : Nat) (hn64 : n ≤ 64) (nz : List α → Bool) (hs : NzScale P nz)
    (hnz0 : nz ((List.range (2 ^ n)).map fun i => if i = 0 then (1 : α) else 0) = true)
    (steps : List (XOp P × List (DStmt α) × Sim.COp P)) (hst : ∀ s ∈ steps, FaithfulOpT n nz s.1 s.2.1 s.2.2) :
    ∃ r2, Spec.branches n nz (steps.map (·.2.2)) (CQ1.initial n) = some r2 ∧
      List.Forall₂ (PhRel P n nz) (dSeq n nz (steps.flatMap (·.2.1)) (CQ1.initial n)) r2 :=
  circuit_equiv_term h hh hn hq n hn64 nz hs hnz0 steps hst

/-- every gate term of the class, on every valid placement, has its statements and its `GateTerm` -/
theorem cq_equiv_term_total (h : LawfulAmp α P) (hh : Proofs.Unitaries.LawfulHalf α P) (hn : LawfulNegHalf α P)
    (hq : LawfulQuarter α P) (n : Nat) (nz : List α → Bool) (g : XGate P) (hok : termOK false g = true)
    (bits : List Nat) (hl : bits.length = nrBits g) (hv : Spec.validBits n bits = true)
    (hkept : ∀ term : GateTerm P, NzKept n nz term bits) : ∃ D cop, FaithfulOpT n nz (.gate g bits) D cop :=
  faithful_term h hh hn hq n nz g hok bits hl hv hkept

/-- non-vacuity over ℂ: a loop around a bundle on swapped qubits and a composite, then `V` (phase), then `measure_x` -/
example := AmpComplex.equiv_example_term


/-- **cq_equiv_partial with conditional gate terms**: the class `FaithfulOpC` additionally contains conditional gate
operations `cond control target g bits` for EVERY term `g` satisfying `condTermOK` — library gates of `exactAll` /
`phaseGates` (so also the phase gates `V V† U1`) with direct parameters and a ONE-line translation, `Kron` of any two
such terms, composites and loops with valid sub-placements, in any nesting — on a valid placement, with a non-empty
control list without repetition in range and a target below `2^len`.  The statements are what the exporter writes: one
pair of `not` brackets around ALL lines of the term (a `Kron`'s parts one after the other, a `Loop`'s body unrolled),
every line with the `c-` prefix on the same bits (`condLines`).  This is precisely where the exporter is right on the
pinned code: a leaf with a multi-line translation has only its first line prefixed (the known finding; excluded by
`oneLine`). -/
theorem cq_equiv_cond_term_partial (h : LawfulAmp α P) (hh : Proofs.Unitaries.LawfulHalf α P) (hn : LawfulNegHalf α P)
    (hq : LawfulQuarter α P) (n : Nat) (hn64 : n ≤ 64) (nz : List α → Bool) (hs : NzScale P nz)
    (hnz0 : nz ((List.range (2 ^ n)).map fun i => if i = 0 then (1 : α) else 0) = true)
    (steps : List (XOp P × List (DStmt α) × Sim.COp P)) (hst : ∀ s ∈ steps, FaithfulOpC n nz s.1 s.2.1 s.2.2) :
    ∃ r2, Spec.branches n nz (steps.map (·.2.2)) (CQ1.initial n) = some r2 ∧
      List.Forall₂ (PhRel P n nz) (dSeq n nz (steps.flatMap (·.2.1)) (CQ1.initial n)) r2 :=
  circuit_equiv_cond h hh hn hq n hn64 nz hs hnz0 steps hst

/-- every conditional gate term of the class, on every valid placement and control list, has its statements -/
theorem cq_equiv_cond_term_total (h : LawfulAmp α P) (hh : Proofs.Unitaries.LawfulHalf α P) (hn : LawfulNegHalf α P)
    (hq : LawfulQuarter α P) (n : Nat) (nz : List α → Bool) (g : XGate P) (hok : condTermOK g = true)
    (bits : List Nat) (hl : bits.length = nrBits g) (hv : Spec.validBits n bits = true)
    (hkept : ∀ term : GateTerm P, NzKept n nz term bits) (control : List Nat) (target : Nat) (hne : control ≠ [])
    (hnd : control.Nodup) (hcb : ∀ k ∈ control, k < n) (ht : target < 2 ^ control.length) :
    ∃ D cop, FaithfulOpC n nz (.cond control target g bits) D cop :=
  faithful_cond h hh hn hq n nz g hok bits hl hv hkept control target hne hnd hcb ht

/-- `measure_all` in Z into the bits `0..n-1` is exported as the one line `measure_all`, and `Spec/CQ1` reads that
line as the value-level statements `measure q[0]; …; measure q[n-1]` -/
theorem cq_measure_all_is_value_lines {F : Type} (tbl : List Gen.CQGate) (N : Num F) (S : CQ1.NumSem α P) (n : Nat)
    (nz : List α → Bool) (br : CQ1.Branch α) :
    exportOp tbl N n (.measureAll (List.range n) .Z) = .ok ["measure_all".toList] ∧
    CQ1.instrSem S n nz ⟨[], "measure_all", []⟩ br = some (dSeq n nz (measureAllStmts n) [br]) :=
  ⟨export_measureAll tbl N n, instrSem_measureAll S n nz br⟩

/-- **cq_equiv_partial with `measure_all`** (class `FaithfulOpM` = `FaithfulOpC` + `measure_all` in Z into the bits
`0..n-1`, the only layout that the exporter accepts), for the non-zero test that keeps every branch: `Spec/CQ1`
measures qubit after qubit, `Spec/Born` enumerates the `2^n` outcome words, so the two branch lists differ by a
PERMUTATION (`seq_perm_born` of the OpenQASM sibling): a permutation of the program's branch list is related branch by
branch (`PhRel`) to the circuit's. -/
theorem cq_equiv_measure_all_partial (h : LawfulAmp α P) (hh : Proofs.Unitaries.LawfulHalf α P) (hn : LawfulNegHalf α P)
    (hq : LawfulQuarter α P) (n : Nat) (hn64 : n ≤ 64) (nz : List α → Bool) (hnz : ∀ φ, nz φ = true)
    (steps : List (XOp P × List (DStmt α) × Sim.COp P)) (hst : ∀ s ∈ steps, FaithfulOpM n nz s.1 s.2.1 s.2.2) :
    ∃ r2, Spec.branches n nz (steps.map (·.2.2)) (CQ1.initial n) = some r2 ∧
      PermRel (PhRel P n nz) (dSeq n nz (steps.flatMap (·.2.1)) (CQ1.initial n)) r2 :=
  circuit_equiv_measureAll h hh hn hq n hn64 nz hnz steps hst

/-- **cq_equiv_partial, observable form** (the form of the full statement): for the same class, for EVERY register word
`w`, `density (statements of the export) w = density (Born.branches c) w` — `density` forgets the order of the branches
and unit factors (`density_perm`, `outer_vsmul`). -/
theorem cq_equiv_density_partial (h : LawfulAmp α P) (hh : Proofs.Unitaries.LawfulHalf α P) (hn : LawfulNegHalf α P)
    (hq : LawfulQuarter α P) (n : Nat) (hn64 : n ≤ 64) (nz : List α → Bool) (hnz : ∀ φ, nz φ = true)
    (steps : List (XOp P × List (DStmt α) × Sim.COp P)) (hst : ∀ s ∈ steps, FaithfulOpM n nz s.1 s.2.1 s.2.2) :
    ∃ r2, Spec.branches n nz (steps.map (·.2.2)) (CQ1.initial n) = some r2 ∧
      ∀ w, CQ1.density (P := P) (2 ^ n) (dSeq n nz (steps.flatMap (·.2.1)) (CQ1.initial n)) w =
        CQ1.density (P := P) (2 ^ n) r2 w :=
  circuit_equiv_density h hh hn hq n hn64 nz hnz steps hst

/-- non-vacuity over ℂ: `H 0; measure 0; if b[0]=1: loop/bundle/composite on [2,1]; if b[0]=0: V 1; measure_all` -/
example := AmpComplex.equiv_example_cond_measureAll


/-! ### text ↔ values

`ReadsBack N S val` is the named hypothesis about the number printer / reader (extends `GoodNum`): reading back a printed
number gives its value, an evaluated hole of a good template evaluates to a number whose value is the value-level
reading of the hole (`holeVal`), and `crk 1`, `crk 2` are the phases `i`, `e^{iπ/4}`.  First pieces: a parsed gate
instruction whose matrix `Spec/CQ1` determines IS the value-level statement `gate ctrl qubits M`
(`cq_instr_is_value_line`), and `Spec/CQ1.gateMatrix` on literals that read back as the values agrees with the
value-level table (`cq_gateMatrix_of_values`).  The exact parse result of every exported line, the assembly through
`parseProgram`'s sub-circuit structure and the whole-circuit theorem are in the last section (`cq_text_*`). -/

theorem cq_instr_is_value_line (S : CQ1.NumSem α P) (n : Nat) (nz : List α → Bool) (i : CQ1.Instr) (M : LMat α)
    (hg : CQ1.isGate i.name = true) (hM : CQ1.gateMatrix S i.name (CQ1.numArgs i.args) = some M)
    (br : CQ1.Branch α) :
    CQ1.instrSem S n nz i br = some (dSem n nz (.gate i.ctrl (i.qubits n) M) br) := instrSem_gate S n nz i M hg hM br

theorem cq_gateMatrix_of_values (S : CQ1.NumSem α P) (name : String) (nums : List CQ1.NumLit) (vals : List (NVal P))
    (M : LMat α) (hM : gateMatrixV (α := α) name.toList vals = some M)
    (hden : List.Forall₂ (NumDenotes S) nums vals) : CQ1.gateMatrix S name nums = some M :=
  gateMatrix_of_values S name nums vals M hM hden

/-- the exact class: 25 gates; the phase class: 4 more -/
example : exactAll.length = 25 ∧ phaseGates = ["V", "Vdg", "U1", "CU3"] := by decide

/-- non-vacuity over ℂ (keeping every branch): `H 0; CCRX(θ) [2,0,1]; measure_y 1; reset 0` on three qubits, every θ -/
example (θ : ℝ) := AmpComplex.equiv_example θ

/-- non-vacuity over ℂ: `CCRX` for every real angle on qubits `[4, 0, 2]` of a 5-qubit register -/
example (θ : ℝ) := cq_equiv_gate_partial (α := ℂ) AmpComplex.lawful AmpComplex.lawfulHalf AmpComplex.lawfulNegHalf
  "CCRX" (by decide) [θ] (by rw [slines_table.2.2.2.2.2.2.2.2.2.2.2.2.2.2.2.2.2.2.2.2.2.2.2]; rfl) 5 [4, 0, 2] (by decide) (by decide)


/-! ### The text link (`cq_text_*`): from the exported TEXT to its meaning

Under `ReadsBack` (see above).  `F` is the type of the numbers as the circuit holds and prints them, `val : F → P` their
values; `mapGate val` / `mapOp val` read a gate term / an operation with the values of its numbers. -/

/-- **the assembly through `parseProgram`** (generic in what the lines are): if the code lines of the body are statement
lines that parse to statements denoting value-level statement lists, and sections `.label(k)` / statement lines / `.end`
(`ProgDen`), then the program text parses, is well formed over `n` qubits, and means `dSeq D` from `|0…0⟩` — a section's
statements repeated `k` times; what follows `.end` is in the sub-circuit `end`, once. -/
theorem cq_text_assembly (S : CQ1.NumSem α P) (n : Nat) (hn : 0 < n) (nz : List α → Bool) (rest : Text)
    (D : List (DStmt α)) (h : ProgDen S n nz (CQ1.codeLines rest) D) :
    ∃ p, CQ1.parseProgram ("version 1.0".toList ++ '\n' :: (("qubits ".toList ++ natText n) ++ '\n' :: rest)) = .ok p ∧
      p.nq = n ∧ CQ1.programWf p = none ∧ CQ1.programSem S nz p = some (dSeq n nz D (CQ1.initial n)) :=
  parseProgram_den S n hn nz rest D h

/-- **the exact parse result and meaning of every line of a library gate's translation**: for a good gate `g` of the
generated table, direct parameters, a placement without repetition in range, and the value-level lines `apps`
(`exactDenot`): the exported text is the list of printed lines, one per value-level line, and for each
(`LineFacts`): the line is clean (one code line), parses as ONE instruction that is well formed and IS the statement
`gate [] (placed qubits) M`; and with the `c-` prefix on any non-empty control list in range (`defaultCond`) it parses
as the statement `gate control (placed qubits) M`. -/
theorem cq_text_lib_lines {F : Type} (N : Num F) (S : CQ1.NumSem α P) (val : F → P) (RB : ReadsBack (α := α) N S val)
    (nq : Nat) (nz : List α → Bool) (name : String) (ps : List (CQ.Param F)) (bits : List Nat)
    (hs : libSound name ps = true) (hl : bits.length = libBits name) (hn : bits.Nodup) (hb : ∀ b ∈ bits, b < nq)
    (t : Text) (h : libCQasm Gen.cqGates N (qNames nq) name ps bits = .ok t)
    (apps : List (List Nat × LMat α)) (happs : exactDenot (α := α) name (ps.map fun p => val p.value) = some apps) :
    ∃ g lines, Gen.cqGates.find? (·.name == name) = some g ∧ lines.length = (slinesOf g).length ∧
      t = intercalate ['\n'] lines ∧ List.Forall₂ (LineFacts S nq nz bits) lines apps :=
  lib_den N S val RB nq nz name ps bits hs hl hn hb t h apps happs

/-- **`c_qasm` of a gate term, with its meaning** (library gates, bundles `{ a | b }` as ONE statement of two
instructions, composites, loops as `.label(k)` … `.end` sections; `inLoop`: inside a loop, where the text is statement
lines only) -/
theorem cq_text_term {F : Type} (N : Num F) (S : CQ1.NumSem α P) (val : F → P) (RB : ReadsBack (α := α) N S val)
    (nq : Nat) (nz : List α → Bool) (g : XGate F) (inLoop : Bool) (hok : termOK inLoop (mapGate val g) = true)
    (hs : gateSound false g = true) (bits : List Nat) (hl : bits.length = nrBits g) (hn : bits.Nodup)
    (hb : ∀ b ∈ bits, b < nq) (t : Text) (h : cQasm Gen.cqGates N (qNames nq) g bits = .ok t)
    (L : List (List Nat × LMat α)) (hL : gateLinesN (α := α) (mapGate val g) bits = some L) :
    TextDen S nq nz t (gateLines L) ∧ (inLoop = true → PlainDen S nq nz t (gateLines L)) :=
  cQasm_den N S val nq nz RB g inLoop hok hs bits hl hn hb t h L hL

/-- **`conditional_c_qasm` of a gate term whose leaves have one-line translations, with its meaning**: statement lines
only (loops unrolled), every one the `c-` form on the control bits -/
theorem cq_text_cond_term {F : Type} (N : Num F) (S : CQ1.NumSem α P) (val : F → P) (RB : ReadsBack (α := α) N S val)
    (nq : Nat) (nz : List α → Bool) (control : List Nat) (hc : control ≠ []) (hcb : ∀ k ∈ control, k < nq)
    (g : XGate F) (hok : condTermOK (mapGate val g) = true) (hs : gateSound true g = true) (bits : List Nat)
    (hl : bits.length = nrBits g) (hn : bits.Nodup) (hb : ∀ b ∈ bits, b < nq) (t : Text)
    (h : condCQasm Gen.cqGates N (intercalate ", ".toList (control.map bName)) (qNames nq) g bits = .ok t)
    (L : List (List Nat × LMat α)) (hL : gateLinesN (α := α) (mapGate val g) bits = some L) :
    PlainDen S nq nz t (condLines control L) :=
  condCQasm_den N S val nq nz RB control hc hcb g hok hs bits hl hn hb t h L hL

/-- **cq_text_partial**: for every circuit with at least one qubit whose operations are of the class `TextOp` (gate
terms of `termOK` outside the syntactic defect classes; conditional terms of `condTermOK` on a non-empty control list in
range of at most 64 bits — repetitions and over-wide targets allowed: the TEXT still means its statements; `measure` /
`measure_x` / `measure_y` of `q` into bit `q`; `measure_all` in Z; `prep_z`; barriers): if `Circuit::c_qasm` returns
the text `t`, then `parseProgram t = ok p`, `p` is well formed over the circuit's qubits, and
`programSem p = dSeq (the operations' statements)` from `|0…0⟩`. -/
theorem cq_text_partial {F : Type} (N : Num F) (S : CQ1.NumSem α P) (val : F → P) (nz : List α → Bool)
    (RB : ReadsBack (α := α) N S val) (c : XCircuit F) (hpos : 0 < c.nq)
    (steps : List (XOp F × List (DStmt α))) (hc : c.ops = steps.map (·.1))
    (hs : ∀ s ∈ steps, TextOp (α := α) val c.nq s.1 s.2) (t : Text) (h : exportText Gen.cqGates N c = .ok t) :
    ∃ p, CQ1.parseProgram t = .ok p ∧ p.nq = c.nq ∧ CQ1.programWf p = none ∧
      CQ1.programSem S nz p = some (dSeq c.nq nz (steps.flatMap (·.2)) (CQ1.initial c.nq)) :=
  exportText_den N S val nz RB c hpos steps hc hs t h

/-- **cq_equiv_text_partial — the full statement on the decidable class `classOp`**: `0 < nq ≤ 64`; every operation
passes `classOp` (gates: `termOK` ∧ `gateSound` on a valid placement; conditional gates: `condTermOK` ∧ `gateSound` on a
valid placement with a non-empty control list without repetition in range and a target below `2^len`; `measure` of `q`
into bit `q` in any basis; `measure_all` in Z into the bits `0..nq-1`; reset; barrier).  If `Circuit::c_qasm` returns
`t`: `t` parses to `p`, `p` is well formed over `nq` qubits and has a meaning `r1`; the circuit, its numbers read by
`val`, is the list `cops` of `Spec/Born` operations and has its branch list `r2`; and for EVERY register word `w`
`density r1 w = density r2 w`. -/
theorem cq_equiv_text_partial {F : Type} (h : LawfulAmp α P) (hh : Proofs.Unitaries.LawfulHalf α P)
    (hn : LawfulNegHalf α P) (hq : LawfulQuarter α P) (N : Num F) (S : CQ1.NumSem α P) (val : F → P)
    (RB : ReadsBack (α := α) N S val) (c : XCircuit F) (hpos : 0 < c.nq) (hn64 : c.nq ≤ 64) (nz : List α → Bool)
    (hnz : ∀ φ, nz φ = true) (hcl : ∀ op ∈ c.ops, classOp val c.nq op = true) (t : Text)
    (ht : exportText Gen.cqGates N c = .ok t) :
    ∃ p r1 cops r2, CQ1.parseProgram t = .ok p ∧ p.nq = c.nq ∧ CQ1.programWf p = none ∧
      CQ1.programSem S nz p = some r1 ∧
      (c.ops.map (mapOp val)).mapM toCOp = some cops ∧
      Spec.branches c.nq nz cops (CQ1.initial c.nq) = some r2 ∧
      ∀ w, CQ1.density (P := P) (2 ^ c.nq) r1 w = CQ1.density (P := P) (2 ^ c.nq) r2 w :=
  text_equiv_class h hh hn hq N S val RB c hpos hn64 nz hnz hcl t ht

/-- `ReadsBack` is satisfiable (over ℂ: the one-number printer, every literal read as the angle 0; all hole shapes of
the generated table are those `holeVal` reads: kernel-checked) … -/
theorem cq_reads_back_satisfiable : ReadsBack (α := ℂ) unitNum AmpComplex.S0 (fun _ => (0 : ℝ)) :=
  AmpComplex.readsBack_unit

/-- … and the text theorem is not vacuous: a 12-operation circuit of the class (multi-line parametrised gates, a loop
around a bundle and a composite, conditional bundle / loop of a phase gate on one and two bits, `measure_y`, reset,
`measure_all`) is exported and its text has the densities of the circuit -/
example := AmpComplex.text_equiv_example

end equiv

/-! ## Non-vacuity: circuits on which the whole property holds (exactly, over ℚ(ζ₈)) -/

/-- Bell pair, measurement, classically controlled X, measurement -/
def bell : XCircuit Empty :=
  ⟨2, 2, [.gate (lib "H") [0], .gate (lib "CX") [0, 1], .measure 0 0 .Z, .cond [0] 1 (lib "X") [1], .measure 1 1 .Z]⟩
example : agrees bell = true := by decide +kernel

/-- `not` bracketing on two bits, X/Y measurements, reset, a loop, a Kron bundle, a conditional Kron -/
def mixed : XCircuit Empty :=
  ⟨2, 2, [.gate (lib "H") [0], .gate (.kron (lib "T") (lib "H")) [0, 1], .measure 0 0 .X, .measure 1 1 .Y,
          .cond [1, 0] 1 (lib "X") [1], .reset 0, .gate (.loop "rep".toList 2 "body" 1 (.cons (lib "V") [0] .nil)) [0],
          .cond [0] 0 (.kron (lib "S") (lib "Z")) [1, 0], .measureAll [0, 1] .Z]⟩
example : agrees mixed = true := by decide +kernel

/-! ## Negative witnesses of the defect classes (kernel-checked) -/

/-- `measure_all` in the X basis: `h q[0]; measure_all` leaves `|0⟩`/`|1⟩`, the circuit leaves `|+⟩`/`|−⟩` -/
theorem neg_measure_all_basis_not_restored :
    wellFormedButDiffers ⟨1, 1, [.gate (lib "T") [0], .measureAll [0] .X]⟩ = true ∧
    wellFormedButDiffers ⟨1, 1, [.gate (lib "H") [0], .measureAll [0] .Y]⟩ = true := by decide +kernel

/-- the default `conditional_c_qasm` on `CY`: `c-sdag b[0], q[0]` / `cnot q[1], q[0]` / `s q[0]` -/
theorem neg_conditional_cy_circuit :
    wellFormedButDiffers ⟨2, 2, [.gate (lib "H") [1], .cond [0] 1 (lib "CY") [1, 0]]⟩ = true := by decide +kernel

/-- an empty control list is executed as "iff target == 0" but exported unconditionally -/
theorem neg_empty_control :
    wellFormedButDiffers ⟨1, 1, [.cond [] 1 (lib "X") [0], .measure 0 0 .Z]⟩ = true ∧
    agrees ⟨1, 1, [.cond [] 0 (lib "X") [0], .measure 0 0 .Z]⟩ = true := by decide +kernel

theorem neg_target_beyond_controls_circuit :
    wellFormedButDiffers ⟨1, 1, [.cond [0] 2 (lib "X") [0]]⟩ = true := by decide +kernel

theorem neg_repeated_control_circuit :
    wellFormedButDiffers ⟨2, 2, [.gate (lib "X") [0], .measure 0 0 .Z, .cond [0, 0] 0 (lib "X") [1]]⟩ = true := by
  decide +kernel

/-- a `Loop` inside a `Loop`: cQASM sub-circuits do not nest (`.end` merely opens a sub-circuit called `end`) -/
theorem neg_nested_loop :
    wellFormedButDiffers ⟨1, 0, [.gate (.loop "a".toList 2 "x" 1
      (.cons (.loop "b".toList 1 "y" 1 (.cons (lib "T") [0] .nil)) [0] (.cons (lib "H") [0] .nil))) [0]]⟩ = true := by
  decide +kernel

/-- instruction names that are not cQASM: the lower-cased struct names `ch`, `cv`, `cvdg` (also `crz`, `cu2`) -/
theorem neg_unknown_instruction :
    syntaxError ⟨2, 0, [.gate (lib "CH") [0, 1]]⟩ = some ⟨2, "ch q[0], q[1]", .unknownInstr "ch"⟩ ∧
    syntaxError ⟨2, 0, [.gate (lib "CV") [0, 1]]⟩ = some ⟨2, "cv q[0], q[1]", .unknownInstr "cv"⟩ ∧
    syntaxError ⟨2, 0, [.gate (lib "CVdg") [1, 0]]⟩ = some ⟨2, "cvdg q[1], q[0]", .unknownInstr "cvdg"⟩ ∧
    syntaxErrorI ⟨2, 0, [.gate (.lib "CRZ" [.direct 2]) [0, 1]]⟩ = some ⟨2, "crz q[0], q[1], 2", .unknownInstr "crz"⟩ ∧
    syntaxErrorI ⟨2, 0, [.gate (.lib "CU2" [.direct 2, .direct 5]) [0, 1]]⟩ =
      some ⟨2, "cu2 q[0], q[1], 2, 5", .unknownInstr "cu2"⟩ := by decide +kernel

/-- `Kron` writes `{ a | b }` around whatever its parts print: a multi-line part, an empty part, a bundle -/
theorem neg_kron_bundle :
    syntaxError ⟨3, 0, [.gate (.kron (lib "CY") (lib "H")) [0, 1, 2]]⟩ = some ⟨2, "{ sdag q[1]", .unclosedBundle⟩ ∧
    syntaxError ⟨2, 0, [.gate (.kron (.comp "e" 1 .nil) (lib "H")) [0, 1]]⟩ =
      some ⟨2, "{  | h q[1] }", .emptyBundleSlot⟩ ∧
    syntaxError ⟨3, 0, [.gate (.kron (.kron (lib "H") (lib "X")) (lib "Z")) [0, 1, 2]]⟩ =
      some ⟨2, "{ { h q[0] | x q[1] } | z q[2] }", .nestedBundle⟩ := by decide +kernel

/-- the texts of `U2`, `U3` (missing comma, stray `; `), reference parameters (printed by name; left inside an
unevaluated `{…}` hole) -/
theorem neg_parameter_text :
    syntaxErrorI ⟨1, 0, [.gate (.lib "U2" [.direct 1, .direct 2]) [0]]⟩ =
      some ⟨4, "rz q[0] 1", .badOperand "q[0] 1"⟩ ∧
    syntaxErrorI ⟨1, 0, [.gate (.lib "U3" [.direct 1, .direct 2, .direct 3]) [0]]⟩ =
      some ⟨4, "; rz q[0] 2", .unknownInstr ";"⟩ ∧
    syntaxErrorI ⟨1, 0, [.gate (.lib "RX" [.ref "theta".toList 1]) [0]]⟩ =
      some ⟨2, "rx q[0], theta", .badOperand "theta"⟩ ∧
    syntaxErrorI ⟨2, 0, [.gate (.lib "CRX" [.ref "theta".toList 1]) [0, 1]]⟩ =
      some ⟨4, "ry q[1], {-0.5 * theta}", .badOperand "{-0.5 * theta}"⟩ := by decide +kernel

/-- The former negative witness (finding C12-negative-angle-double-minus, fixed): the `CRY` template negates inside
the evaluated hole (`{-0.5 * {theta}}`, as `CRX`, `CU3`, `CCRX`, `CCRY` do), so no literal `-` is glued in front of an
evaluated (possibly negative) number: no line of the `CRY` template has text directly before a `{…}` hole other than
the separator `, `, and the exported text of `CRY` with a negative angle parses. -/
theorem cry_negative_angle_wellformed :
    (Gen.cqGates.find? (·.name = "CRY")).map (·.kind) =
      some (.template "cnot {0}, {1}\nry {1}, {-0.5 * {theta}}\ncnot {0}, {1}\nry {1}, {0.5 * {theta}}") ∧
    syntaxErrorI ⟨2, 0, [.gate (.lib "CRY" [.direct (-2)]) [0, 1]]⟩ = none ∧
    exportText Gen.cqGates stubNum ⟨2, 0, [.gate (.lib "CRY" [.direct (-2)]) [0, 1]]⟩ =
      .ok "version 1.0\nqubits 2\ncnot q[0], q[1]\nry q[1], -1\ncnot q[0], q[1]\nry q[1], -1\n".toList := by decide +kernel

/-- panics instead of errors: a condition on a classical bit that has no qubit (only `nr_qbits` bit names exist), a
gate placed on too few qubits, more than 64 control bits -/
theorem neg_panics :
    exportText Gen.cqGates noNum ⟨1, 2, [.cond [1] 1 (lib "X") [0]]⟩ = .panic ∧
    exportText Gen.cqGates noNum ⟨1, 0, [.gate (lib "H") []]⟩ = .panic ∧
    exportText Gen.cqGates noNum ⟨2, 0, [.gate (.kron (lib "H") (lib "X")) [0]]⟩ = .panic ∧
    exportText Gen.cqGates noNum ⟨1, 1, [.cond (List.replicate 65 0) 0 (lib "X") [0]]⟩ = .panic := by decide +kernel

end Q1t.Props.C12

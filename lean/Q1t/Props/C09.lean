import Q1t.Proofs.CircuitObj
/-!
# C09 — execute starts fresh, re-execute continues, reference parameters are live

Statements about the history machine `Q1t.CircuitObj` (model of `Circuit::{execute_with,
reexecute_with_rng, cstate, histogram}` and of `gates::Parameter`), for every backend, every circuit,
every store and every history.  The machine is tied to the code by `tools/check.py C09`: generated
histories of calls on a real `Circuit` (with `Rc<RefCell<f64>>` parameters assigned between runs),
every traced operation re-executed by the model from the state the previous call ended in.
-/
namespace Q1t.Props.C09
open Q1t Q1t.Sim Q1t.CircuitObj Q1t.Proofs.CircuitObj

variable {W S V : Type} (B : Backend W V S) (ops : List (COp (Param V)))

/-- A fresh execution does not depend on whatever quantum / classical state the object held. -/
theorem execute_fresh (m : Machine S V) (o' : Obj S) (n : Nat) (st : S) :
    step B ops m (.executeWith n st) = step B ops { m with obj := o' } (.executeWith n st) :=
  Q1t.Proofs.CircuitObj.execute_fresh B ops m o' n st

/-- … it runs the operations from the supplied state with a register of `n` zero words. -/
theorem execute_unfold (m : Machine S V) (n : Nat) (st : S) :
    step B ops m (.executeWith n st) =
      (execOps B st (List.replicate n 0) (ops.map (resolveOp m.store))).bind fun qc =>
        .pure { m with obj := { q := some qc.1, c := some qc.2 } } :=
  Q1t.Proofs.CircuitObj.execute_unfold B ops m n st

/-- A re-execution starts from exactly the state in which the previous run ended:
`execute; reexecute` is one run of `ops ++ ops`. -/
theorem reexecute_continues (m : Machine S V) (n : Nat) (st : S) :
    (step B ops m (.executeWith n st)).bind (fun m' => step B ops m' .reexecute) =
      (execOps B st (List.replicate n 0)
          (ops.map (resolveOp m.store) ++ ops.map (resolveOp m.store))).bind fun qc =>
        .pure { m with obj := { q := some qc.1, c := some qc.2 } } :=
  Q1t.Proofs.CircuitObj.reexecute_continues B ops m n st

/-- Re-executing from any stored state runs the operations from that state and register. -/
theorem reexecute_from_stored (m : Machine S V) (q : S) (c : List Nat)
    (hq : m.obj.q = some q) (hc : m.obj.c = some c) :
    step B ops m .reexecute =
      (execOps B q c (ops.map (resolveOp m.store))).bind fun qc =>
        .pure { m with obj := { q := some qc.1, c := some qc.2 } } :=
  reexecute_reads_current_store B ops m q c hq hc

/-- Asking for results or re-executing before any execution is an error. -/
theorem not_executed_errors (m : Machine S V) (h : m.obj.c = none ∨ m.obj.q = none) :
    step B ops m .reexecute = (Prog.err .notExecuted : Prog W (Machine S V)) :=
  not_executed B ops m h

theorem query_not_executed (m : Machine S V) (h : m.obj.c = none) :
    query m = .error .notExecuted :=
  Q1t.Proofs.CircuitObj.query_not_executed m h

/-- Reference parameters are read at each (re-)execution: assigning a cell between two runs makes
the next run use the new value. -/
theorem param_read_at_run (m : Machine S V) (cell : Nat) (v : V) :
    (step B ops m (.setParam cell v)).bind (fun m' => step B ops m' .reexecute) =
      step B ops { m with store := fun k => if k = cell then v else m.store k } .reexecute :=
  setParam_then_reexecute B ops m cell v

/-- The resolved gate depends on the store only through the cells it refers to … -/
theorem resolve_depends_on_refs (σ σ' : Nat → V) (g : GateTerm (Param V))
    (h : ∀ c ∈ refs g, σ c = σ' c) : resolve σ g = resolve σ' g :=
  resolve_congr σ σ' g h

/-- … hence directly supplied parameters never change. -/
theorem direct_constant (σ σ' : Nat → V) (g : GateTerm (Param V)) (h : refs g = []) :
    resolve σ g = resolve σ' g :=
  Q1t.Proofs.CircuitObj.direct_constant σ σ' g h

/-! Non-vacuity -/
example : resolve (fun _ => (7 : Nat)) (.Kron (.RX (.ref 3)) (.RY (.direct 1))) = .Kron (.RX 7) (.RY 1) := rfl
example : refs (V := Nat) (.Kron (.RX (.ref 3)) (.RY (.direct 1))) = [3] := rfl

end Q1t.Props.C09

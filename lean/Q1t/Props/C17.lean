import Q1t.Model.Perm
import Q1t.Spec.Perm
import Q1t.Proofs.Perm
/-!
# C17 — permutation utilities form a consistent algebra

Property theorems only.  Every statement is about the executable model `Q1t.Perm` of
`src/permutation.rs` (tied to the code by the correspondence run of `tools/check.py C17`) and
quantifies over all sizes `n`, all index vectors and all payloads.  Proofs are in `Q1t/Proofs/Perm.lean`.
-/
namespace Q1t.Props.C17
open Q1t.Perm Q1t.Spec.Perm

/-- A permutation object can be built from exactly the bijections of `0..n-1`, `n ≥ 1`. -/
theorem new_ok_iff_bijection (idxs : List Nat) :
    (∃ l, new idxs = .ok l) ↔ IsPerm idxs :=
  Q1t.Proofs.Perm.new_ok_iff idxs

/-- ... and then it holds exactly the index vector given. -/
theorem new_ok_value (idxs l : List Nat) (h : new idxs = .ok l) : l = idxs :=
  Q1t.Proofs.Perm.new_ok_value idxs l h

/-- Anything else is rejected with the specific error: the empty list; otherwise the maximum when it is
out of range; otherwise the first element that repeats an earlier one. -/
theorem new_error_cases (idxs : List Nat) :
    (idxs = [] → new idxs = .error .empty) ∧
    (idxs ≠ [] → idxs.length ≤ idxs.foldl max 0 →
        new idxs = .error (.invalidElem (idxs.foldl max 0) idxs.length)) ∧
    (idxs ≠ [] → idxs.foldl max 0 < idxs.length → ∀ e, firstRepeat [] idxs = some e →
        new idxs = .error (.doubleElem e)) :=
  Q1t.Proofs.Perm.new_error_cases idxs

/-- `apply_vec_into`: position `i` of the result is `v[idxs[i]]`; no index panic. -/
theorem into_spec {α} [Inhabited α] (idxs : List Nat) (v : List α)
    (hp : IsPerm idxs) (hv : v.length = idxs.length) :
    applyInto idxs v = some (permuted idxs v) :=
  Q1t.Proofs.Perm.into_spec idxs v hp hv

/-- `inverse` never trips its `unwrap`, yields a permutation, and is the two-sided inverse. -/
theorem inverse_spec (idxs : List Nat) (hp : IsPerm idxs) :
    inverse idxs = .ok (inverseIdx idxs) ∧ IsPerm (inverseIdx idxs) ∧
    (inverseIdx idxs).length = idxs.length ∧
    (∀ i, i < idxs.length → (inverseIdx idxs)[idxs[i]!]! = i) ∧
    (∀ i, i < idxs.length → idxs[(inverseIdx idxs)[i]!]! = i) :=
  Q1t.Proofs.Perm.inverse_spec idxs hp

theorem inverse_inverse (idxs : List Nat) (hp : IsPerm idxs) :
    inverseIdx (inverseIdx idxs) = idxs :=
  Q1t.Proofs.Perm.inverse_inverse idxs hp

/-- The inverse undoes the permutation, through the inverse-application routine (whatever the
output buffer held before) and through applying the inverse permutation object. -/
theorem apply_inverse_undoes {α} [Inhabited α] (idxs : List Nat) (v out : List α)
    (hp : IsPerm idxs) (hv : v.length = idxs.length) (ho : out.length = idxs.length) :
    applyInverseInto idxs (permuted idxs v) out = some v ∧
    applyInverseInto idxs v out = some (permuted (inverseIdx idxs) v) ∧
    permuted (inverseIdx idxs) (permuted idxs v) = v ∧
    permuted idxs (permuted (inverseIdx idxs) v) = v :=
  Q1t.Proofs.Perm.apply_inverse_undoes idxs v out hp hv ho

/-- The cycle-following in-place routine terminates (the fuel `size+1` of the model is never
exhausted), never indexes out of range, and gives the same result as `apply_vec_into`. -/
theorem inPlace_eq_into {α} [Inhabited α] (idxs : List Nat) (v : List α)
    (hp : IsPerm idxs) (hv : v.length = idxs.length) :
    inPlace idxs v = some (permuted idxs v) :=
  Q1t.Proofs.Perm.inPlace_eq_into idxs v hp hv

/-- The matrix of a permutation acts on a vector as the permutation does. -/
theorem matrix_mulVec (idxs : List Nat) (v : List Int)
    (hp : IsPerm idxs) (hv : v.length = idxs.length) :
    mulVec (matrix 0 1 idxs) v = permuted idxs v :=
  Q1t.Proofs.Perm.matrix_mulVec idxs v hp hv

/-- `transform` permutes rows and columns consistently: entry `(i,j)` of the result is
`a[idxs[i]][idxs[j]]`, i.e. `P·A·Pᵀ` for the matrix `P` of `matrix`. -/
theorem transform_spec {α} [Inhabited α] (idxs : List Nat) (a : List (List α))
    (hp : IsPerm idxs) (ha : a.length = idxs.length) (hrow : ∀ r ∈ a, r.length = idxs.length) :
    transform idxs a = some ((List.range idxs.length).map fun i =>
      (List.range idxs.length).map fun j => (a[idxs[i]!]!)[idxs[j]!]!) :=
  Q1t.Proofs.Perm.transform_spec idxs a hp ha hrow

/-- `transform` equals the matrix product `P·A·Pᵀ` over the integers. -/
theorem transform_eq_P_A_Pt (idxs : List Nat) (a : List (List Int))
    (hp : IsPerm idxs) (ha : a.length = idxs.length) (hrow : ∀ r ∈ a, r.length = idxs.length) :
    transform idxs a = some (Q1t.Proofs.Perm.matMul (Q1t.Proofs.Perm.matMul (matrix 0 1 idxs) a)
      (Q1t.Proofs.Perm.transpose idxs.length (matrix 0 1 idxs))) :=
  Q1t.Proofs.Perm.transform_eq_P_A_Pt idxs a hp ha hrow

/-! Non-vacuity: the hypotheses are met by a concrete non-trivial permutation. -/
example : IsPerm [3, 1, 0, 2] := by decide
example : inPlace [3, 1, 0, 2] [10, 11, 12, 13] = some [13, 11, 10, 12] := by decide
example : ¬ IsPerm [0, 2, 3, 2] ∧ new [0, 2, 3, 2] = .error (.doubleElem 2) := ⟨by decide, rfl⟩

end Q1t.Props.C17

import Q1t.Model.Gate
import Q1t.Model.Param
import Q1t.Spec.Unitaries
import Q1t.Spec.Square
import Q1t.Proofs.UnitariesQ8
import Q1t.Proofs.UnitariesPrim
import Q1t.Proofs.UnitariesTerm
import Q1t.Proofs.ParamLive
import Q1t.Proofs.AmpComplex
/-!
# C05 — library gates denote their documented unitaries

Property theorems only.  `Gate.matrix` is the executable model of every `matrix()` of
`src/gates/*.rs` (tied to the code by the correspondence run of `tools/check.py C05`);
`Spec.specMatrix` is the documented unitary of a term, written independently.  The general
theorems hold for EVERY commutative ring `α` with an `Amp α P` structure satisfying `LawfulAmp α P`
(`i² = −1`, `(1/√2)² = ½`, conjugation an involutive ring homomorphism, and an abstract
trigonometric context: Pythagoras, real-valuedness, angle addition), hence for ℂ with the real
cosine and sine, and for ALL parameter values.  Proofs are in `Q1t/Proofs/Unitaries*.lean`,
`LMatBridge.lean`, `ParamLive.lean`.

Auxiliary notions used in the statements (definitions in `Q1t/Proofs/LMatBridge.lean` and
`UnitariesTerm.lean`, unfolded by the `example`s at the end):
`LMat.WF n m A` — `A` has `n` rows, each of length `m`;
`LMat.Unitary P n M` — `WF n n M ∧ mulAdjoint M = identity n`;
`CKTerm g` — `g` contains no `Composite`/`Loop` (primitives under any nesting of `C` and `Kron`).
-/
namespace Q1t.Props.C05
open Q1t Q1t.Gate Q1t.Spec Q1t.LMat Q1t.Proofs.Unitaries

/-! ## (1) constants: kernel-checked over the exact field ℚ(ζ₈) -/

/-- `Q8` with its ring operations is a model of the laws (the trigonometric ones are vacuous, `P = Empty`). -/
theorem q8_lawful : LawfulAmp Q8 Empty := Q8.lawful

/-- Every constant gate and every named controlled constant (the list `constGates`: I X Y Z H S Sdg
T Tdg V Vdg Swap CX CY CZ CH CS CSdg CT CTdg CV CVdg CCX CCZ) has exactly the documented matrix and
satisfies `M·Mᴴ = 1`. These terms have no parameters, so this is the whole quantifier for them. -/
theorem constants_documented_unitary : ∀ g ∈ constGates,
    (matrix g : LMat Q8) = specMatrix g ∧
    mulAdjoint (P := Empty) (matrix g : LMat Q8) = LMat.identity (2 ^ nrBits g) :=
  const_ok

section general
variable {α P : Type} [CommRing α] [Amp α P]

/-! ## (2) parametrised primitives, all parameter values, any lawful amplitude type -/

/-- RX RY RZ are `cos(θ/2)·1 − i·sin(θ/2)·P`; U1 U2 U3 follow the OpenQASM convention. -/
theorem param_prims_documented (h : LawfulAmp α P) (θ φ l : P) :
    (matrix (.RX θ) : LMat α) = specMatrix (.RX θ) ∧
    (matrix (.RY θ) : LMat α) = specMatrix (.RY θ) ∧
    (matrix (.RZ l) : LMat α) = specMatrix (.RZ l) ∧
    (matrix (.U1 l) : LMat α) = specMatrix (.U1 l) ∧
    (matrix (.U2 φ l) : LMat α) = specMatrix (.U2 φ l) ∧
    (matrix (.U3 θ φ l) : LMat α) = specMatrix (.U3 θ φ l) :=
  ⟨rx_spec θ, ry_spec h θ, rz_spec h l, u1_spec l, u2_spec φ l, u3_spec θ φ l⟩

theorem param_prims_unitary (h : LawfulAmp α P) (θ φ l : P) :
    mulAdjoint (P := P) (matrix (.RX θ) : LMat α) = LMat.identity 2 ∧
    mulAdjoint (P := P) (matrix (.RY θ) : LMat α) = LMat.identity 2 ∧
    mulAdjoint (P := P) (matrix (.RZ l) : LMat α) = LMat.identity 2 ∧
    mulAdjoint (P := P) (matrix (.U1 l) : LMat α) = LMat.identity 2 ∧
    mulAdjoint (P := P) (matrix (.U2 φ l) : LMat α) = LMat.identity 2 ∧
    mulAdjoint (P := P) (matrix (.U3 θ φ l) : LMat α) = LMat.identity 2 :=
  ⟨rx_unitary h θ, ry_unitary h θ, rz_unitary h l, u1_unitary h l, u2_unitary h φ l, u3_unitary h θ φ l⟩

/-- `U2(φ,λ) = U3(π/2,φ,λ)`: the documented U2 is the documented U3 at any `θ` with
`cos(θ/2) = sin(θ/2) = 1/√2`. -/
theorem u2_is_u3_at_half_pi (θ φ l : P) (hc : (Amp.cos (Amp.phalf α θ) : α) = Amp.hsqrt2 P)
    (hs : (Amp.sin (Amp.phalf α θ) : α) = Amp.hsqrt2 P) :
    (specMatrix (.U2 φ l) : LMat α) = specMatrix (.U3 θ φ l) :=
  u2_eq_u3 θ φ l hc hs

/-- `U3(θ,φ,λ) = e^{i(φ+λ)/2} · RZ(φ) · RY(θ) · RZ(λ)`.  Uses two half-angle laws beyond `LawfulAmp`
(`LawfulHalf`: `(φ+λ)/2` and `φ/2+λ/2`, and `λ/2+λ/2` and `λ`, have equal cosines and sines). -/
theorem u3_decomposition (h : LawfulAmp α P) (hh : LawfulHalf α P) (θ φ l : P) :
    (matrix (.U3 θ φ l) : LMat α) =
      scale (expi (Amp.phalf α (Amp.padd α φ l)))
        (LMat.mul (matrix (.RZ φ)) (LMat.mul (matrix (.RY θ)) (matrix (.RZ l)))) :=
  u3_decomp h hh θ φ l

/-! ## (3) combinators -/

/-- `C::matrix` of a square matrix is the direct sum `1 ⊕ M`. -/
theorem controlled_is_direct_sum {g : Nat} {M : LMat α} (hM : WF g g M) :
    controlledMat M = ctrl M :=
  controlledMat_eq_ctrl hM

/-- `cmatrix::kron_mat` is the Kronecker product (non-empty well-formed rectangular matrices). -/
theorem kron_is_kronecker {ra ca rb cb : Nat} {A B : LMat α} (hA : WF ra ca A) (hB : WF rb cb B)
    (ha : 0 < ra) (hb : 0 < rb) (hcb : 0 < cb) : LMat.kron A B = kronecker A B :=
  kron_eq_kronecker hA hB ha hb hcb

/-- Unitarity is preserved by the matrix product, powers, `ctrl` and the Kronecker product. -/
theorem unitary_closed (h : LawfulAmp α P) {n m : Nat} {A B C : LMat α} (hn : 0 < n) (hm : 0 < m)
    (hA : Unitary P n A) (hB : Unitary P n B) (hC : Unitary P m C) :
    Unitary P n (LMat.mul A B) ∧ (∀ k, Unitary P n (mpow A k)) ∧ Unitary P (n + n) (ctrl A) ∧
    Unitary P (n * m) (kronecker A C) :=
  ⟨unitary_mul h hn hA hB, unitary_mpow h hn hA, unitary_ctrl h hn hA, unitary_kronecker h hn hm hA hC⟩

/-- Every term built from the primitives with `C` and `Kron`, at any nesting depth and for all
parameter values, has the documented matrix (`controlled = 1 ⊕ G`, `Kron = ⊗`) and is unitary. -/
theorem unitary_of_term (h : LawfulAmp α P) (g : GateTerm P) (hg : CKTerm g) :
    (matrix g : LMat α) = specMatrix g ∧ Unitary P (2 ^ nrBits g) (matrix g : LMat α) :=
  good_of_term h g hg

/- Full statement (all terms, including `Composite` and `Loop`):
     ∀ g, WellPlaced g → matrix g = specMatrix g ∧ Unitary P (2 ^ nrBits g) (matrix g)
   `unitary_of_term` proves it for terms without `Composite`/`Loop`.  The two remaining cases are
   reduced here to the C04 corollaries (Q1t/Props/C04.lean: `matrix (Loop …) = mpow …`,
   `matrix (Composite …) = ordered product of embedded factors`), taken as hypotheses: -/

/-- Loop case, given the C04 corollary `hloop`. -/
theorem loop_unitary_of_c04 (h : LawfulAmp α P) {label nm : String} {k n : Nat} {body : OpList P}
    (hloop : (matrix (.Loop label k nm n body) : LMat α) = mpow (matrix (.Composite nm n body)) k)
    (hbody : Unitary P (2 ^ n) (matrix (.Composite nm n body) : LMat α)) :
    Unitary P (2 ^ n) (matrix (.Loop label k nm n body) : LMat α) :=
  loop_unitary_of h (Nat.pow_pos (by decide)) hloop hbody

/-- Composite case, given that the composite's matrix is an ordered product of unitary factors. -/
theorem ordered_product_unitary (h : LawfulAmp α P) {n : Nat} (hn : 0 < n) (factors : List (LMat α))
    (hf : ∀ F ∈ factors, Unitary P n F) :
    Unitary P n (factors.foldl (fun acc F => LMat.mul F acc) (LMat.identity n)) :=
  Q1t.Proofs.Unitaries.ordered_product_unitary h hn factors _ (unitary_identity h hn) hf

/-- Documented semantics of `Composite` and `Loop`: the ordered product of embedded documented
factors, and its `k`-th power, are unitary as soon as every embedded factor is (that `embed` of a
unitary on distinct in-range qubits is unitary is C04's side). -/
theorem spec_composite_loop_unitary (h : LawfulAmp α P) {n : Nat} (label nm : String) (k : Nat)
    (ops : OpList P)
    (hops : OpsAll (fun g bits => Unitary P (2 ^ n) (embed n bits (specMatrix g : LMat α))) ops) :
    Unitary P (2 ^ n) (specMatrix (.Composite nm n ops) : LMat α) ∧
    Unitary P (2 ^ n) (specMatrix (.Loop label k nm n ops) : LMat α) :=
  Q1t.Proofs.Unitaries.spec_composite_loop_unitary h label nm k ops hops

end general

/-! ## (4) a parameter passed by reference contributes its current value -/

section param
variable {α V : Type} [Zero α] [One α] [Add α] [Mul α] [Neg α] [Sub α] [Amp α V]
open Q1t.Proofs.ParamLive

/-- The matrix under a store depends only on the current values of the gate's parameters; a gate
with only `Direct` parameters has the same matrix under every store; overwriting a cell makes every
`Reference` to it contribute the new value; writing elsewhere changes nothing. -/
theorem param_live (s s' : Store V) (g : GateTerm (Param V)) :
    ((∀ p ∈ g.params, p.value s = p.value s') → (matrixAt s g : LMat α) = matrixAt s' g) ∧
    ((∀ p ∈ g.params, p.isDirect = true) → (matrixAt s g : LMat α) = matrixAt s' g) ∧
    (∀ c v, (matrixAt (s.setRef c v) g : LMat α) =
      matrix (g.mapP fun p => match p with
        | .reference k => if k = c then v else s.ref k
        | .direct x => x
        | .ffiRef k => s.ffi k)) ∧
    (∀ c v, Param.reference c ∉ g.params → (matrixAt (s.setRef c v) g : LMat α) = matrixAt s g) :=
  ⟨matrixAt_congr s s' g, matrixAt_direct s s' g, fun c v => matrixAt_setRef s c v g,
   fun c v => matrixAt_setRef_other s c v g⟩

/-- The value is not frozen at construction: stores whose cell holds angles with different
`cos(θ/2)` give different `RX` matrices. -/
theorem param_live_sensitive (s s' : Store V) (c : Nat)
    (hne : (Amp.cos (Amp.phalf α (s.ref c)) : α) ≠ Amp.cos (Amp.phalf α (s'.ref c))) :
    (matrixAt s (.RX (.reference c)) : LMat α) ≠ matrixAt s' (.RX (.reference c)) :=
  reference_sensitive s s' c hne

end param

/-! ## (5) the complex numbers are a model of the laws -/

/-- ℂ with the real cosine and sine (`P = ℝ`, `phalf θ = θ/2`, `padd = +`) satisfies `LawfulAmp` and
`LawfulHalf`: all general theorems above hold for the complex gate matrices at all real parameters. -/
theorem complex_is_model : LawfulAmp ℂ ℝ ∧ LawfulHalf ℂ ℝ :=
  ⟨Q1t.AmpComplex.lawful, Q1t.AmpComplex.lawfulHalf⟩

/-! ## non-vacuity and unfolding of the auxiliary notions -/

example {α : Type} (n m : Nat) (A : LMat α) : WF n m A ↔ (A.length = n ∧ ∀ r ∈ A, r.length = m) := Iff.rfl
example {α P : Type} [CommRing α] [Amp α P] (n : Nat) (M : LMat α) :
    Unitary P n M ↔ (WF n n M ∧ mulAdjoint (P := P) M = LMat.identity n) := Iff.rfl
example : CKTerm (.C (.Kron (.C (.RX ())) (.U3 () () ())) : GateTerm Unit) := ⟨trivial, trivial⟩
example : ¬ CKTerm (.Loop "l" 2 "b" 1 .nil : GateTerm Unit) := id
/-- the hypotheses of the general theorems are satisfiable (by `Q8`), and the general theorem
specialises to a concrete nested constant term -/
example : (matrix (.C (.Kron .H .T) : GateTerm Empty) : LMat Q8) = specMatrix (.C (.Kron .H .T) : GateTerm Empty) :=
  (unitary_of_term q8_lawful (.C (.Kron .H .T)) (by exact ⟨trivial, trivial⟩)).1

end Q1t.Props.C05

import Q1t.Proofs.GF
/-!
# C01 — shot histograms are exact Born-rule samples of the circuit

Property theorems. (Under construction: the abstract multinomial law is proved; the bridge from the
concrete simulator model `Q1t.Sim` to the abstract range sampler, `prob0_eq_born` and the negative
witnesses for the known defects are being added.)
-/
namespace Q1t.Props.C01
open Q1t.GF

/-- **Multinomial law of a range-based sampler** (all operation lists, all range lists, any
commutative ring): the expected value of `∏ x(word)^count` after running `ops` on the ranges `rs`
equals `∏ (gfShot ops range)^count` — the N-shot generating function is the N-th power of the
single-shot one. -/
theorem histogram_gf_abstract {S Word W R : Type} [CommRing R] (toR : W → R) (x : Word → R)
    (ops : List (Op S Word W)) (rs : List (Rng S Word)) :
    Prog.expect toR (exec ops rs) (value (fun sw => x sw.2)) = value (gfShot toR x ops) rs :=
  histogram_gf toR x ops rs

/-- … in particular from a single range of `N` shots: `(single-shot generating function)^N`. -/
theorem histogram_gf_abstract_single {S Word W R : Type} [CommRing R] (toR : W → R) (x : Word → R)
    (ops : List (Op S Word W)) (N : Nat) (sw : S × Word) :
    Prog.expect toR (exec ops [(N, sw)]) (value (fun sw => x sw.2)) = gfShot toR x ops sw ^ N :=
  histogram_gf_single toR x ops N sw

end Q1t.Props.C01

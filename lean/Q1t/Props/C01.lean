import Q1t.Proofs.GF
import Q1t.Proofs.SimGFExec
import Q1t.Proofs.SimGFWitness
import Q1t.Proofs.SimGFStabWitness
import Q1t.Proofs.SimGFExample
import Q1t.Proofs.SimGFComplex
import Q1t.Proofs.SimHypsComplex
import Q1t.Proofs.SimGFPeek
import Q1t.Proofs.SimGFStab
import Q1t.Proofs.SimGFStabExample
import Q1t.Proofs.SimGFStabQ8
import Q1t.Proofs.DetShapeAll
/-!
# C01 — shot histograms are exact Born-rule samples of the circuit

Objects (all defined outside this file):
* the simulator model `Sim.execOps Sim.vecBackend` (`Q1t/Model/Sim.lean`), a term of the free monad `Prog`
  whose only effects are `binomial` and `categorical` draws; `Prog.expectOrd ord toR p f` is the expectation
  of `f` over the draws of `p` in any commutative ring `R` (`ord` = the iteration order of the hash map of
  `measure_all`, an oracle; `toR : α →+* R` maps weights);
* `SimGF.gfShot n toR x ops (ψ, w)` — the **single-shot Born generating function**
  `Σ_branches ‖φ_branch‖² · x(final word)`, written with projectors and documented embedded unitaries only
  (`Spec.project`, `Spec.gateOn`, `Spec.measureTo`);
* `SimGF.shotProd x (state, register) = ∏_shots x(word of the shot)`.  With `R = MvPolynomial Word ℚ`,
  `x = X`, the identity `E[shotProd x] = (gfShot …)^N` says that the histogram of `N` shots is
  `Multinomial(N, p)`, `p` the Born distribution of the register value.
* `SimGF.InF n valid op` — the fragment F: no `peek`, `peek_all`, `reset_all`; `measure_all` (Z, X or Y basis)
  with `n` distinct classical bits; gate placements valid; qubits `< n`; classical bits `< 64` (a larger one
  is a shift-overflow panic, D10); control lists of at most 64 bits.
* `SimGF.Hyps α P nz n valid` — the named hypotheses: `LawfulAmp`, `LawfulSim`, `LawfulWeights` (amplitude and
  weight arithmetic; ℂ with `nz w := w` is a positive real is the intended instance), `GateSemOK` (every valid
  gate placement acts as its documented embedded unitary — the conjunction of C04 and C05) and `GateRuns`
  (the routes of valid placements return).

Level: the law is proved on F (`…_partial`); the full statement is FALSE of the pinned code (negative
witnesses below).  Exactness of `rand`'s Binomial / WeightedIndex samplers and `f64` rounding are outside the
model (trusted base).
-/
namespace Q1t.Props.C01

-- two partial `SimAmp Q8` instances are in scope (`Witness.simAmpQ8`: weights 1, ½; `Demo.simAmpQ8`: weights 1, ½, ¼);
-- the kernel-checked examples of this file use the first one, `stab_histogram_gf_generated` the second one
attribute [-instance] Q1t.Sim.Demo.simAmpQ8
open Q1t Q1t.Sim Q1t.Sim.Prog Q1t.Sim.SimGF Q1t.Spec

/-! ## the abstract multinomial law of a range-based sampler -/

/-- **Multinomial law of a range-based sampler** (all operation lists, all range lists, any
commutative ring): the expected value of `∏ x(word)^count` after running `ops` on the ranges `rs`
equals `∏ (gfShot ops range)^count` — the N-shot generating function is the N-th power of the
single-shot one. -/
theorem histogram_gf_abstract {S Word W R : Type} [CommRing R] (toR : W → R) (x : Word → R)
    (ops : List (GF.Op S Word W)) (rs : List (GF.Rng S Word)) :
    GF.Prog.expect toR (GF.exec ops rs) (GF.value (fun sw => x sw.2)) = GF.value (GF.gfShot toR x ops) rs :=
  GF.histogram_gf toR x ops rs

/-- … in particular from a single range of `N` shots: `(single-shot generating function)^N`. -/
theorem histogram_gf_abstract_single {S Word W R : Type} [CommRing R] (toR : W → R) (x : Word → R)
    (ops : List (GF.Op S Word W)) (N : Nat) (sw : S × Word) :
    GF.Prog.expect toR (GF.exec ops [(N, sw)]) (GF.value (fun sw => x sw.2)) = GF.gfShot toR x ops sw ^ N :=
  GF.histogram_gf_single toR x ops N sw

/-! ## the simulator model -/

section
variable {α P R : Type} [CommRing α] [Amp α P] [SimAmp α] [CommRing R] {nz : α → Prop}

/-- **`prob0_eq_born`** (all `n`, `q`, all coefficient vectors): the weight of outcome 0 that the code
computes by summing `|a|²` over the blocks whose index bit is clear is `⟨ψ|P₀^{(q)}|ψ⟩`. -/
theorem prob0_eq_born (hs : LawfulSim α P nz) (n q : Nat) (ψ : List α) :
    w0Of n q ψ = normSqSum (project n q false ψ) :=
  Sim.prob0_eq_born hs n q ψ

variable {n N : Nat} {valid : GateTerm P → List Nat → Prop}

/-- **The law from any homogeneous state** (all circuits of F, all register sizes, all range lists
`(count, normalised state, word)`, all shot numbers, every commutative ring `R`, every `x`, every order
oracle `ord` that lists the outcomes of a `measure_all` in some order — `(ord l).Perm l`): the expected value of `∏_shots x(word)` is `∏_ranges gfShot(ops)(state, word)^count`. -/
theorem exec_gf_partial (H : Hyps α P nz n valid) (ord : List (Nat × Nat) → List (Nat × Nat))
    (hord : ∀ l, (ord l).Perm l) (toR : α →+* R) (x : Nat → R) (ops : List (COp P)) (hF : ∀ op ∈ ops, InF n valid op) (rs : List (Rng α)) (hrs : Good n N rs) :
    expectOrd ord toR (execOps (vecBackend (α := α) (P := P)) (mkState n N rs) (mkReg rs) ops) (shotProd x) =
      value (gfShot n toR x ops) rs :=
  exec_gf toR hord H x ops hF rs hrs

/- FULL STATEMENT (`histogram_gf_full`), for ALL circuits, which is what the property claims:

     ∀ ops N x, E[ ∏_{i<N} x(register[i]) after execOps B (fresh state, N shots) ops ] = (bornGf ops (|0…0⟩, 0))^N

   for both backends `B`, `bornGf` being the Born generating function including peeks (outcome `o` with
   probability `‖P_o ψ‖²`, state kept) and `reset_all`.  It is FALSE of the pinned code:
   `peek_peek_not_multinomial` (D2), `measure_resetall_measure_not_multinomial` (D3) for the vector backend,
   `stab_reset_bell_not_born` (D4), `stab_peekall_bell_zero_prob_value` (D5) for the stabilizer backend;
   `single_peek_then_measure_not_multinomial` shows that one peek per range already suffices.
   Proved instead: the law on the fragment F for the vector backend, and `final_peek_histogram_partial` (one final
   peek).  Not covered although not known to be wrong: the stabilizer backend (its measurement is tied to the
   vector backend by C03, not here) and `N = 0` (execution of 0 shots can panic, D9, a finding of C18). -/

/-- **Multinomial law, `histogram_gf` restricted to F** (all circuits of F, all `n`, all `N ≥ 1`, every
commutative ring, every `x`): running the circuit for `N` shots from `|0…0⟩` with a cleared register, the
generating function of the register contents is the `N`-th power of the single-shot Born generating
function — the histogram is a `Multinomial(N, p)` draw. -/
theorem histogram_gf_partial (H : Hyps α P nz n valid) (ord : List (Nat × Nat) → List (Nat × Nat))
    (hord : ∀ l, (ord l).Perm l) (toR : α →+* R) (x : Nat → R) (ops : List (COp P)) (hF : ∀ op ∈ ops, InF n valid op) (hN : 0 < N) :
    expectOrd ord toR (execOps (vecBackend (α := α) (P := P)) (VecState.new n N) (List.replicate N 0) ops)
      (shotProd x) = gfShot n toR x ops (SimGF.ket0 n, 0) ^ N :=
  histogram_gf toR hord H x ops hF hN

/-- **Register values of probability zero never occur** (on F): if the single-shot Born coefficient of the
value `v` is 0, the expectation of the indicator "some shot shows `v`" is 0. -/
theorem zero_prob_never_partial (H : Hyps α P nz n valid) (ord : List (Nat × Nat) → List (Nat × Nat))
    (hord : ∀ l, (ord l).Perm l) (toR : α →+* R) (ops : List (COp P)) (hF : ∀ op ∈ ops, InF n valid op) (hN : 0 < N) (v : Nat)
    (hv : gfShot n toR (fun u => if u = v then (1 : R) else 0) ops (SimGF.ket0 n, 0) = 0) :
    expectOrd ord toR (execOps (vecBackend (α := α) (P := P)) (VecState.new n N) (List.replicate N 0) ops)
      (fun sc => if v ∈ sc.2 then (1 : R) else 0) = 0 :=
  zero_prob_never toR hord H ops hF hN v hv

/-- **A circuit of F never fails** (on F, all `n`, `N ≥ 1`): the successful runs have total probability 1 —
no error return and no panic site of the model is reached with positive probability, and the single-shot
coefficients of `gfShot` add up to 1. -/
theorem exec_total_partial (H : Hyps α P nz n valid) (ord : List (Nat × Nat) → List (Nat × Nat))
    (hord : ∀ l, (ord l).Perm l) (toR : α →+* R) (ops : List (COp P)) (hF : ∀ op ∈ ops, InF n valid op) (hN : 0 < N) :
    expectOrd ord toR (execOps (vecBackend (α := α) (P := P)) (VecState.new n N) (List.replicate N 0) ops)
      (fun _ => (1 : R)) = 1 :=
  exec_total toR hord H ops hF hN

/-- **One final peek is right** (all circuits of F followed by ONE `peek` in any basis, all `n`, `N ≥ 1`, every
ring, every `x`): the register of the model is distributed as that of the same circuit ending in a `measure`
instead — the Born multinomial (a final peek and a final measurement have the same register distribution).
What goes wrong with peeks (D2) is the first LATER draw on the peeked, unsplit range:
`single_peek_then_measure_not_multinomial`. -/
theorem final_peek_histogram_partial (H : Hyps α P nz n valid) (ord : List (Nat × Nat) → List (Nat × Nat))
    (hord : ∀ l, (ord l).Perm l) (toR : α →+* R) (x : Nat → R) (ops : List (COp P))
    (hF : ∀ op ∈ ops, InF n valid op) {q c : Nat} (b : Basis) (hq : q < n) (hc : c < 64) (hN : 0 < N) :
    expectOrd ord toR (execOps (vecBackend (α := α) (P := P)) (VecState.new n N) (List.replicate N 0)
      (ops ++ [.peek q c b])) (shotProd x) = gfShot n toR x (ops ++ [.measure q c b]) (SimGF.ket0 n, 0) ^ N :=
  final_peek_histogram toR hord H x ops hF b hq hc hN

end

/-! ## the stabilizer backend -/

section stab
open Q1t.Tableau
variable {α P R : Type} [CommRing α] [Amp α P] [SimAmp α] [CommRing R] {nz : α → Prop} {n N : Nat}
variable {valid : GateTerm P → List Nat → Prop}
variable {half : α} {ph : List Nat} {conjOf : GateTerm P → Tab.Conj} {St : Tab → List α → Prop}

/- FULL STATEMENT: `histogram_gf_full` with `B := stabBackend` for all Clifford circuits — false (D4, D5 below).
   Proved: the law on F_stab = gates and classically controlled gates on valid placements, `measure` in any basis,
   `measure_all` in any basis (done qubit by qubit by this backend), barriers (`SimGF.InFS`); excluded are `reset`
   (forces outcome 0, D4), `peek`/`peek_all` (D5), `reset_all`.
   HYPOTHESES (`SimGF.StabHyps`): the tableau contract `tab : TableauOK St n ph conjOf valid` (C02/C03: what the
   tableau operations mean IF they return) and, because the law is about probability mass and not about possible
   runs, what the contract does not state:
     `gateRuns`, `measRuns`, `collapseRuns` — the tableau operations RETURN on a tableau that describes a vector;
     `randHalf` — a `Random` classification means equal weights of the two outcomes (the model draws with ½);
     `iso`, `arity` — valid gates preserve the squared norm and have the right arity;
     `half_add : half + half = 1`, `amp`, `sim`, `pos` (a vector of squared norm 0 is the zero vector).
   All of them are discharged by C03 for `St := Reach` and the generated tables over ℚ(ζ₈), relative to the ONE
   hypothesis `DetShapeHolds` (`stab_histogram_gf_generated` below; `pos` for ℚ(ζ₈) is `SimGF.q8_pos`). -/

/-- **Multinomial law on the stabilizer backend, restricted to F_stab** (all circuits of F_stab, all `n`, `N ≥ 1`,
every commutative ring, every `x`): the `N`-shot generating function of the model's own `execOps stabBackend …` run
from the fresh tableau is the `N`-th power of the single-shot Born generating function. -/
theorem stab_histogram_gf_partial (H : StabHyps α P nz St n half ph conjOf valid)
    (ord : List (Nat × Nat) → List (Nat × Nat)) (toR : α →+* R) (x : Nat → R) (ops : List (COp P))
    (hF : ∀ op ∈ ops, InFS n valid op) (hN : 0 < N) :
    expectOrd ord toR (execOps (stabBackend half ph conjOf) (StabState.new n N) (List.replicate N 0) ops)
      (shotProdS x) = gfShot n toR x ops (SimGF.ket0 n, 0) ^ N :=
  stab_histogram_gf toR H x ops hF hN

/-- … from every homogeneous list of stabilizer ranges `(count, tableau, word)` whose tableaux describe vectors. -/
theorem stab_exec_gf_partial (H : StabHyps α P nz St n half ph conjOf valid)
    (ord : List (Nat × Nat) → List (Nat × Nat)) (toR : α →+* R) (x : Nat → R) (ops : List (COp P))
    (hF : ∀ op ∈ ops, InFS n valid op) (rs : List (SRng α)) (hrs : GoodS St N rs) :
    expectOrd ord toR (execOps (stabBackend half ph conjOf) (mkStab n N rs) (mkRegS rs) ops) (shotProdS x) =
      valueS toR (gfShot n toR x ops) rs :=
  stab_exec_gf toR H x ops hF rs hrs

/-- **The choice of representation never changes the outcome distribution** (on F_stab, under the hypotheses of both
laws): the two backends have the same `N`-shot generating function. -/
theorem backends_agree_partial (Hv : Hyps α P nz n valid) (Hs : StabHyps α P nz St n half ph conjOf valid)
    (ord : List (Nat × Nat) → List (Nat × Nat)) (hord : ∀ l, (ord l).Perm l) (toR : α →+* R) (x : Nat → R)
    (ops : List (COp P)) (hF : ∀ op ∈ ops, InFS n valid op) (hN : 0 < N) :
    expectOrd ord toR (execOps (stabBackend half ph conjOf) (StabState.new n N) (List.replicate N 0) ops)
      (shotProdS x) =
    expectOrd ord toR (execOps (vecBackend (α := α) (P := P)) (VecState.new n N) (List.replicate N 0) ops)
      (shotProd x) :=
  backends_agree toR Hv Hs hord x ops hF hN

end stab

attribute [-instance] Q1t.Sim.Witness.simAmpQ8 in
attribute [local instance] Q1t.Sim.Demo.simAmpQ8 in
/-- **The law on the stabilizer backend for the GENERATED tables** (`Gen.phaseTable`, `Gen.conjTable`, re-extracted
from the source on every run) over the exact field ℚ(ζ₈): all `n`, all `N ≥ 1`, all circuits of F_stab whose gates
are well-formed claiming Clifford terms on valid placements (`TabG.validT`), every ring `R`, every `x` — relative to
the single hypothesis `DetShapeHolds` (C03: in every reachable tableau a column without X/Y holds exactly one `Z`, in
a row that is `Z_q` alone).  `hpos` and `½ + ½ = 1` are proved (`SimGF.q8_pos`, `SimGF.q8half_add`).
The vector backend's bundle `Hyps` is not available over ℚ(ζ₈) (no square roots: `rsqrt`), so the agreement of the
two backends is `backends_agree_partial` (any amplitude ring carrying both bundles), not an instance here. -/
theorem stab_histogram_gf_generated {R : Type} [CommRing R] (n N : Nat)
    (hD : Q1t.Proofs.TabG.DetShapeHolds (α := Q8) (A := Empty) n Q1t.Gen.phaseTable Q1t.Gen.conjTable
      Q1t.Gen.conjNoArityCheck)
    (ord : List (Nat × Nat) → List (Nat × Nat)) (toR : Q8 →+* R) (x : Nat → R) (ops : List (COp Empty))
    (hF : ∀ op ∈ ops, InFS n (Q1t.Proofs.TabG.validT (A := Empty) n Q1t.Gen.conjTable) op) (hN : 0 < N) :
    expectOrd ord toR (execOps (stabBackend SimGF.q8half Q1t.Gen.phaseTable
        (Q1t.Proofs.TabG.conjOfT (A := Empty) Q1t.Gen.conjTable Q1t.Gen.conjNoArityCheck))
        (StabState.new n N) (List.replicate N 0) ops)
      (shotProdS x) = gfShot n toR x ops (SimGF.ket0 n, 0) ^ N :=
  stab_histogram_gf_generated' n N hD ord toR x ops hF hN

attribute [-instance] Q1t.Sim.Witness.simAmpQ8 in
attribute [local instance] Q1t.Sim.Demo.simAmpQ8 in
/-- **The law on the stabilizer backend for the generated tables, no hypothesis left**: `DetShapeHolds` is proved by
C03 (`Q1t.Props.C03.det_shape_holds`, `Proofs/DetShapeAll.lean`), so `stab_histogram_gf_generated` holds for all `n`,
all `N ≥ 1`, all circuits of F_stab over valid claiming Clifford terms, every ring `R`, every `x`. -/
theorem stab_histogram_gf_generated_unconditional {R : Type} [CommRing R] (n N : Nat)
    (ord : List (Nat × Nat) → List (Nat × Nat)) (toR : Q8 →+* R) (x : Nat → R) (ops : List (COp Empty))
    (hF : ∀ op ∈ ops, InFS n (Q1t.Proofs.TabG.validT (A := Empty) n Q1t.Gen.conjTable) op) (hN : 0 < N) :
    expectOrd ord toR (execOps (stabBackend SimGF.q8half Q1t.Gen.phaseTable
        (Q1t.Proofs.TabG.conjOfT (A := Empty) Q1t.Gen.conjTable Q1t.Gen.conjNoArityCheck))
        (StabState.new n N) (List.replicate N 0) ops)
      (shotProdS x) = gfShot n toR x ops (SimGF.ket0 n, 0) ^ N :=
  stab_histogram_gf_generated n N (Q1t.Proofs.DetPlan.detShapeHolds_generated n) ord toR x ops hF hN

/-! ## non-vacuity -/

/-- the arithmetic hypotheses `amp`, `sim`, `wts` of `Hyps` hold together for the complex numbers (angles `ℝ`,
`rsqrt w = 1/√(re w)`, `min1 w = min(re w, 1)`, `nz w` = "`w` is a positive real"); the remaining two,
`GateSemOK` and `GateRuns`, are the statements of C04 + C05 -/
theorem hyps_arith_complex :
    LawfulAmp ℂ ℝ ∧ LawfulSim ℂ ℝ SimGFComplex.nzC ∧ LawfulWeights ℂ SimGFComplex.nzC :=
  SimGFComplex.arith_hyps_complex

open Q1t.Sim.Witness

/-- all five hypotheses of `Hyps` are jointly satisfiable — shown here only degenerately (0 qubits, no valid gate
placement, so the gate hypotheses are vacuous); a non-degenerate inhabitant is C04 + C05 -/
example : Hyps ℂ ℝ SimGFComplex.nzC 0 (fun _ _ => False) := SimGFComplex.hyps_zero_qubits

/-- a 2-qubit circuit with a mid-circuit measurement, a classically controlled gate, a reset and an X-basis
measurement is in F -/
example : ∀ op ∈ fragCirc, InF 2 (placed 2) op := fragCirc_inF

/-- on it the conclusion of `histogram_gf_partial` holds for 2 shots, computed by the kernel on the model's own
program over the exact field `Q8` (independently of `Hyps`) -/
theorem histogram_gf_example :
    expectOrd id (RingHom.id Q8) (execOps (vecBackend (α := Q8) (P := Empty)) (VecState.new 2 2) [0, 0] fragCirc)
      (SimGF.shotProd xT) = gfShot 2 (RingHom.id Q8) xT fragCirc (SimGF.ket0 2, 0) ^ 2 :=
  law_on_example

/-- a circuit ending in a `measure_all` with permuted classical bits is in F, and the conclusion of the law
holds on it (2 shots, kernel computation through the categorical node) -/
example : ∀ op ∈ allCirc, InF 2 (placed 2) op := allCirc_inF
theorem histogram_gf_example_measure_all :
    expectOrd id (RingHom.id Q8) (execOps (vecBackend (α := Q8) (P := Empty)) (VecState.new 2 2) [0, 0] allCirc)
      (SimGF.shotProd xT2) = gfShot 2 (RingHom.id Q8) xT2 allCirc (SimGF.ket0 2, 0) ^ 2 :=
  law_on_allCirc

/-- a circuit with a `measure_all` in the X basis followed by a Y-basis measurement is in F, and the conclusion of
the law holds on it (2 shots, kernel computation) -/
example : ∀ op ∈ allXCirc, InF 2 (placed 2) op := allXCirc_inF
theorem histogram_gf_example_measure_all_X :
    expectOrd id (RingHom.id Q8) (execOps (vecBackend (α := Q8) (P := Empty)) (VecState.new 2 2) [0, 0] allXCirc)
      (SimGF.shotProd xT2) = gfShot 2 (RingHom.id Q8) xT2 allXCirc (SimGF.ket0 2, 0) ^ 2 :=
  law_on_allXCirc

/-- a Clifford circuit with an entangling gate, a mid-circuit measurement, a classically controlled gate and X-basis
measurements is in F_stab; on the model's own stabilizer run (generated phase and conjugation tables) the conclusions
of `stab_histogram_gf_partial` and `backends_agree_partial` hold for 2 shots (kernel computation) -/
example : ∀ op ∈ stabCirc, InFS 2 (placed 2) op := stabCirc_inFS
theorem stab_histogram_gf_example :
    expectOrd id (RingHom.id Q8) (execOps stabQ8 (StabState.new 2 2) [0, 0] stabCirc) (shotProdS xT) =
      gfShot 2 (RingHom.id Q8) xT stabCirc (SimGF.ket0 2, 0) ^ 2 ∧
    expectOrd id (RingHom.id Q8) (execOps stabQ8 (StabState.new 2 2) [0, 0] stabCirc) (shotProdS xT) =
    expectOrd id (RingHom.id Q8) (execOps (vecBackend (α := Q8) (P := Empty)) (VecState.new 2 2) [0, 0] stabCirc)
      (SimGF.shotProd xT) :=
  ⟨law_on_stabCirc, stabCirc_backends_agree⟩

/-- the same for a circuit with a `measure_all` in the X basis into permuted classical bits -/
example : ∀ op ∈ stabAllCirc, InFS 2 (placed 2) op := stabAllCirc_inFS
theorem stab_histogram_gf_example_measure_all :
    expectOrd id (RingHom.id Q8) (execOps stabQ8 (StabState.new 2 2) [0, 0] stabAllCirc) (shotProdS xT) =
      gfShot 2 (RingHom.id Q8) xT stabAllCirc (SimGF.ket0 2, 0) ^ 2 ∧
    expectOrd id (RingHom.id Q8) (execOps stabQ8 (StabState.new 2 2) [0, 0] stabAllCirc) (shotProdS xT) =
    expectOrd id (RingHom.id Q8) (execOps (vecBackend (α := Q8) (P := Empty)) (VecState.new 2 2) [0, 0] stabAllCirc)
      (SimGF.shotProd xT) :=
  ⟨law_on_stabAllCirc, stabAllCirc_backends_agree⟩

/-- its single-shot distribution has four values of probability ¼ … -/
example : ∀ v ∈ [0, 3, 4, 7],
    gfShot 2 (RingHom.id Q8) (fun u => if u = v then 1 else 0) fragCirc (SimGF.ket0 2, 0) = q8Rat (1/4) := fragCirc_coeffs
/-- … and four of probability 0 (the hypothesis of `zero_prob_never_partial` is satisfiable) -/
example : ∀ v ∈ [1, 2, 5, 6],
    gfShot 2 (RingHom.id Q8) (fun u => if u = v then 1 else 0) fragCirc (SimGF.ket0 2, 0) = 0 := fragCirc_zero

/-! ## negative witnesses: the full statement fails on the pinned code -/

/-- **D2** `h 0; peek 0→0; peek 0→1`, 2 shots, vector backend: the generating-function identity of the
multinomial law fails at `xTest`; the two shots show `{01, 10}` with probability 0 (Born multinomial: 1/8). -/
theorem peek_peek_not_multinomial :
    expect id peekPeekProg (Witness.shotProd xTest) ≠ peekPeekBornGF xTest * peekPeekBornGF xTest ∧
    expect id peekPeekProg (pairIs 1 2) = 0 ∧ (1 + 1) * peekPeekBorn 1 * peekPeekBorn 2 = q8Rat (1/8) ∧
    expect id peekPeekProg (fun _ => 1) = 1 :=
  ⟨peekPeek_gf_ne, peekPeek_model_12, peekPeek_born_12, peekPeek_model_total⟩

/-- **one peek is enough**: `h 0; peek 0→0; measure 0→1`, 2 shots, vector backend — every range is peeked once and
then collapsed, and the law already fails: `{01, 10}` has probability 0 (Born multinomial: 1/8), although with ONE
shot all four values have the Born probability ¼ (the defect is in the joint law of the shots). -/
theorem single_peek_then_measure_not_multinomial :
    expect id peekMeasProg (Witness.shotProd xTest) ≠ peekMeasBornGF xTest * peekMeasBornGF xTest ∧
    expect id peekMeasProg (pairIs 1 2) = 0 ∧ (1 + 1) * peekMeasBorn 1 * peekMeasBorn 2 = q8Rat (1/8) ∧
    expect id peekMeasProg (fun _ => 1) = 1 ∧
    (∀ v ∈ [0, 1, 2, 3], expect id (execOps (vecBackend (α := Q8) (P := Empty)) (VecState.new 1 1) [0] peekMeas)
      (fun sc => if sc.2 = [v] then 1 else 0) = q8Rat (1/4)) :=
  ⟨peekMeas_gf_ne, peekMeas_model_12, peekMeas_born_12, peekMeas_model_total, peekMeas_one_shot⟩

/-- **D3** `h 0; measure 0→0; reset_all; h 0; measure 0→1`, 2 shots, vector backend. -/
theorem measure_resetall_measure_not_multinomial :
    expect id measResetMeasProg (Witness.shotProd xTest) ≠ measResetMeasBornGF xTest * measResetMeasBornGF xTest ∧
    expect id measResetMeasProg (pairIs 1 2) = 0 ∧ (1 + 1) * measResetMeasBorn 1 * measResetMeasBorn 2 = q8Rat (1/8) ∧
    expect id measResetMeasProg (fun _ => 1) = 1 :=
  ⟨measResetMeas_gf_ne, measResetMeas_model_12, measResetMeas_born_12, measResetMeas_model_total⟩

/-- **D4** `h 0; cx 0 1; reset 0; measure 1→0`, 1 shot, stabilizer backend: the register value 1 has Born
probability ½ (reference branching semantics), the stabilizer model never produces it (and reads 0 with
probability 1); the vector backend of the same model gives ½. -/
theorem stab_reset_bell_not_born :
    bellResetBorn 1 = q8Half ∧ q8Half ≠ 0 ∧ expect id bellResetStabProg (regIs [1]) = 0 ∧
    expect id bellResetStabProg (regIs [0]) = 1 ∧ expect id bellResetVecProg (regIs [1]) = q8Half :=
  ⟨bellReset_born.2.2, q8_half_ne_zero, bellReset_stab_1, bellReset_stab_0, bellReset_vec_1⟩

/-- **D5** `h 0; cx 0 1; peek_all [0,1]`, 1 shot, stabilizer backend: the register values 01 and 10 have Born
probability 0 on the (normalised) Bell state and probability ¼ each in the stabilizer model. -/
theorem stab_peekall_bell_zero_prob_value :
    Witness.normSqSum bell = 1 ∧ bellPeekAllBorn 1 = 0 ∧ bellPeekAllBorn 2 = 0 ∧
    expect id bellPeekAllStabProg (regIs [1]) = q8Rat (1/4) ∧ expect id bellPeekAllStabProg (regIs [2]) = q8Rat (1/4) ∧
    q8Rat (1/4) ≠ 0 :=
  ⟨bell_normalised, bellPeekAll_born.2.1, bellPeekAll_born.2.2.1, bellPeekAll_stab.1, bellPeekAll_stab.2,
    q8_quarter_ne_zero⟩


/-! ## The law with NO hypothesis on amplitudes or gates (complex amplitudes, real parameters)

`Hyps` is inhabited at ℂ/ℝ for every `n` with `valid` = "well-formed gate term on a valid placement"
(`Q1t.Sim.hyps_complex`, from the C04/C05 theorems: every placed route equals the embedded documented unitary, which
preserves the norm).  Hence the multinomial law on F holds unconditionally: -/

/-- **histogram_gf_unconditional** — all `n`, all `N ≥ 1`, all circuits of F whose gates are well-formed terms on valid
placements, every commutative ring `R`, every `x`, every hash-map order oracle: the `N`-shot generating function of the
model's own run is the `N`-th power of the single-shot Born generating function. -/
theorem histogram_gf_unconditional {R : Type} [CommRing R] {n N : Nat} (ord : List (Nat × Nat) → List (Nat × Nat))
    (hord : ∀ l, (ord l).Perm l) (toR : ℂ →+* R) (x : Nat → R) (ops : List (COp ℝ))
    (hF : ∀ op ∈ ops, InF n (Q1t.Proofs.Route.Placed (P := ℝ) n) op) (hN : 0 < N) :
    expectOrd ord toR (execOps (vecBackend (α := ℂ) (P := ℝ)) (VecState.new n N) (List.replicate N 0) ops)
      (shotProd x) = gfShot n toR x ops (SimGF.ket0 n, 0) ^ N :=
  Q1t.Sim.histogram_gf_unconditional ord hord toR x ops hF hN

/-- **final_peek_unconditional** — the same for one final peek: all `n`, `N ≥ 1`, all circuits of F on well-formed
placed gate terms followed by one `peek` in any basis. -/
theorem final_peek_unconditional {R : Type} [CommRing R] {n N : Nat} (ord : List (Nat × Nat) → List (Nat × Nat))
    (hord : ∀ l, (ord l).Perm l) (toR : ℂ →+* R) (x : Nat → R) (ops : List (COp ℝ))
    (hF : ∀ op ∈ ops, InF n (Q1t.Proofs.Route.Placed (P := ℝ) n) op) {q c : Nat} (b : Basis) (hq : q < n) (hc : c < 64)
    (hN : 0 < N) :
    expectOrd ord toR (execOps (vecBackend (α := ℂ) (P := ℝ)) (VecState.new n N) (List.replicate N 0)
      (ops ++ [.peek q c b])) (shotProd x) = gfShot n toR x (ops ++ [.measure q c b]) (SimGF.ket0 n, 0) ^ N :=
  final_peek_histogram toR hord (Q1t.Sim.hyps_complex n) x ops hF b hq hc hN

end Q1t.Props.C01

import Q1t.Model.Latex
import Q1t.Spec.QcGrid
import Q1t.Proofs.LatexBasic
/-!
# C13 — the LaTeX (qcircuit) export is a well-formed grid depicting the circuit; undrawable operations are errors

Property theorems only.  Statements are about the executable model `Q1t.Latex` of
`src/export/latex.rs`, `Circuit::latex` and every gate's `impl Latex` (tied to the code by the
correspondence run of `tools/check.py C13`).  Proofs are in `Q1t/Proofs/Latex*.lean`.
-/
namespace Q1t.Props.C13
open Q1t.Latex Q1t.Spec.QcGrid

/-- An operation that cannot be drawn (peek, peek_all) is never exported: for every circuit, of any
size, containing one, `Circuit::latex` does not return text. -/
theorem undrawable_is_error (c : Circ) (h : ∃ op ∈ c.ops, op.isPeek = true) :
    ∀ t, circuitLatex c ≠ .ok t :=
  Q1t.Proofs.Latex.undrawable_is_error c h

end Q1t.Props.C13

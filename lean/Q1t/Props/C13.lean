import Q1t.Model.Latex
import Q1t.Spec.QcGrid
import Q1t.Gen.LatexTemplates
import Q1t.Proofs.LatexBasic
import Q1t.Proofs.LatexShape
import Q1t.Proofs.LatexInv
import Q1t.Proofs.LatexOnce
import Q1t.Proofs.LatexExpect
import Q1t.Proofs.LatexProv
import Q1t.Proofs.LatexLoops
import Q1t.Proofs.LatexBrace
import Q1t.Proofs.LatexGroup
/-!
# C13 — the LaTeX (qcircuit) export is a well-formed grid depicting the circuit; undrawable operations are errors

Property theorems only.  Statements are about the executable model `Q1t.Latex` of
`src/export/latex.rs`, `Circuit::latex` and every gate's `impl Latex` (tied to the code by the
correspondence run of `tools/check.py C13`), and about the grid of symbols `Q1t.Latex.grid` that the
model's `code` prints (that the exported TEXT reads back as this grid is checked at run time by the
reader `Spec.QcGrid.readDoc` on the implementation's output, not proved).
Proofs are in `Q1t/Proofs/Latex{Basic,Shape,Conn,Inv,Trace,Stages,Once,Expect,Prov,NoPanic,Loops,Brace,Group}.lean`.
-/
namespace Q1t.Props.C13
open Q1t.Latex Q1t.Spec.QcGrid Q1t.Proofs.Latex

/-- **grid_rectangular** — for EVERY circuit (any register size, any gate terms, any operand lists,
well-formed or not): if the export does not fail, the printed grid has exactly one row per quantum
and per classical wire, and all rows have the same number of cells (one per matrix column, plus the
closing wire column when the last column is in use). No index panic can occur while printing it. -/
theorem grid_rectangular (c : Circ) (s : St) (h : exportSt c = .ok s) :
    ∃ g, grid s = some g ∧ g.length = c.nq + c.nc ∧ rectangular g = true ∧
      ∀ row ∈ g, row.length = s.rcols.length + (if s.inUse.contains true then 1 else 0) := by
  obtain ⟨hq, hc, hs⟩ := exportSt_shape h
  obtain ⟨g, hg, hl, hrows⟩ := grid_shape s hs
  exact ⟨g, hg, by rw [hl, St.total, hq, hc], rectangular_of_lengths g _ hrows, hrows⟩

/-- The same shape holds after ANY sequence of the emitters on any well-shaped state: it is an
invariant of the state machine, not only of `Circuit::latex`. -/
theorem shape_invariant (nq : Nat) (ops : List Op) (s s' : St) (hs : Shape s)
    (h : opsLatex nq ops s = .ok s') : Shape s' ∧ s'.nq = s.nq ∧ s'.nc = s.nc :=
  ⟨(keeps_opsLatex h).shape hs, (keeps_opsLatex h).nq, (keeps_opsLatex h).nc⟩

/-
FULL STATEMENT (false on the pinned code, see the negative witnesses below):
  ∀ c s g, exportSt c = .ok s → grid s = some g → every line of every cell of g ends inside g on a partner symbol.
Proved for all circuits, of any size and length, whose operations satisfy the decidable predicate
`opOk`: gates that are 1-qubit boxes (H Y S S† T T† V V† RX RY RZ U1 U2 U3 …), X, Z, Swap, I, any
controlled nesting C<…> of the former four with every control outside the span of its targets and
distinct operands (CX … CCZ), and Kron / Composite / Loop of all these to any depth; conditional
gates whose gate is such a one-column gate (`condOk`: distinct qubits, distinct condition bits);
measure, measure_all, reset, reset_all, barrier, peek.
Also inside: multi-qubit block gates (the trait's default drawing) at placements satisfying the decidable
`blockOk` (see "Multi-qubit block gates" below), at top level and inside Kron / Composite / Loop.
Excluded: block gates under a quantum or classical control;
Kron / Composite / Loop / I under a quantum or classical control (genuinely wrong or degenerate on
the pinned code, see the negative witnesses and the known findings).
-/
/-- **connectors_in_grid_on_partner** (partial): in the printed grid every control line, `\qwx`
wire and measurement line ends inside the grid on a partner symbol. -/
theorem connectors_in_grid_on_partner_partial (c : Circ) (s : St) (g : Grid)
    (hop : ∀ op ∈ c.ops, opOk op = true) (h : exportSt c = .ok s) (hg : grid s = some g) :
    ∀ (col r : Nat) (y : Sym), (g.col col)[r]? = some y → linesOk (g.col col) r y = true :=
  grid_lines_ok (exportSt_inv hop h).shape (exportSt_inv hop h).ok hg

/-- The invariant behind it, for any operation history: outside a range every matrix column is
connected, and a field that is not in use is empty (so later writes never overwrite a symbol). -/
theorem connector_invariant (nq : Nat) (ops : List Op) (s s' : St) (hi : Inv s) (he : s.expand = true)
    (hop : ∀ op ∈ ops, opOk op = true) (h : opsLatex nq ops s = .ok s') : Inv s' :=
  inv_opsLatex hi he hop h

/-- **undrawable_is_error** — an operation that cannot be drawn (peek, peek_all) is never exported:
for every circuit, of any size, containing one, `Circuit::latex` does not return text … -/
theorem undrawable_is_error (c : Circ) (h : ∃ op ∈ c.ops, op.isPeek = true) :
    ∀ t, circuitLatex c ≠ .ok t :=
  Q1t.Proofs.Latex.undrawable_is_error c h

/-- … and when everything before the first peek can be drawn, the result is the `NotImplemented` error. -/
theorem undrawable_error_value (nq : Nat) (pre : List Op) (op : Op) (post : List Op) (s s1 : St)
    (hpre : opsLatex nq pre s = .ok s1) (hp : op.isPeek = true) :
    opsLatex nq (pre ++ op :: post) s = .err .notImplemented :=
  peek_after_ok_prefix nq pre op post s s1 hpre hp

/-
FULL STATEMENT (false on the pinned code, see the negative witnesses `neg_*_panics` below and the known
findings): for every circuit `circuitLatex c` is `.ok` or `.err`, never `.panic`.
Proved for all circuits, of any size and length, whose operations satisfy `opOk` (the class of
`connectors_in_grid_on_partner_partial`: in particular every control outside the span of its targets)
and the decidable `opSafe c.nq`, which excludes exactly the remaining known panic classes:
  * a Loop of ≥ 3 iterations placed on no qubits (`zero-width loop`), on operands that are not qubits of
    the circuit (only constructible in the model: `Circuit::add_gate` validates operands), or holding
    another Loop of ≥ 3 iterations (`nested loop`: underflow in the header offsets of `code`);
  * a Composite with a sub-gate on a local qubit index outside the composite (`sub-bit out of range`);
  * a condition on more than 64 classical bits (`1 << pos` on the `u64` target word; NEW finding
    `panic:cond-more-than-64-bits`, witness `neg_condition_over_64_bits_panics`).
The invariants used: `Inv` ("no column yet ⇒ every wire in use", free fields are empty), `InG` / `InR`
(inside a range a column exists and every open range ends inside the grid, nested ranges included),
`LoopInv` (loop braces are recorded left to right and inside the matrix, so the header offsets of
`code` do not underflow).
-/
/-- **latex_never_panics** (partial: `opOk` and `opSafe`) — the export returns text or an error. -/
theorem latex_never_panics_partial (c : Circ)
    (hop : ∀ op ∈ c.ops, opOk op = true ∧ opSafe c.nq op = true) :
    (∃ t, circuitLatex c = .ok t) ∨ (∃ e, circuitLatex c = .err e) :=
  circuitLatex_ok_or_err hop

/-! ## Provenance: every operation exactly once, wires in program order, clear connector spans

The model's cells carry a ghost provenance (`Cell.prov` = index of the circuit operation that wrote the
cell; erased by `code`, invisible in the text). `Has s col r cell` = column `col` (from the left), row
`r` of the matrix holds the explicit cell `cell`. By `printed_iff_drawn` below the explicit cells are
exactly the printed symbols that are not bare wires, so the statements are statements about the grid.

`circStages c` is the REFERENCE DRAWING of the circuit: for every operation, in program order, the list
of its stages, a stage being the symbols (row, symbol) that belong together in one column: a 1-qubit
box, X, Z, Swap, a controlled nesting C<…> of those with its control dots, an explicit wire for `I`, a
measurement with its classical end, a reset, one barrier symbol per run of qubits, a conditional gate
with its classical control dots, `\cds` between the two copies of a loop body; Kron / Composite / Loop
contribute the stages of their parts in order.

All for circuits whose operations satisfy `opOk` (the class of `connectors_in_grid_on_partner_partial`).
FULL STATEMENTS (for all drawable circuits) are false on the pinned code: see the negative witnesses
(`neg_conditional_composite_overwrites`: an operation's symbol is lost; `neg_barrier_column_reused`: a
later operation is drawn left of / under an earlier barrier; `neg_controlled_kron_unconnected`).
The tie of `circStages` to the independent reader's expectation `Spec.QcGrid.opItems` is
`stages_are_expected_partial` (all `opOk` operations except reset_all / barrier, whose stages the reader
groups differently) and `stage_is_expected_partial` (one-column operations).
What is NOT proved: multi-qubit block gates under a control / condition (outside `opOk`); that the reader's left-to-right matching
(`Spec.QcGrid.check`, an executable search) accepts the printed text — that is evaluated by (B). -/

/-- **each_op_once** (partial: `opOk`) — the final matrix is EXACTLY the reference stages of the
operations, each stage laid out in ONE column of the grid, with the provenance of its operation:
there is a list `L` of placed stages whose (operation, symbols) sequence is `circStages c`, columns and
operations are non-decreasing along `L`, two stages in the same column use different rows, the rows of
a stage are distinct, and a cell `(col, r)` holds `cell` iff some placed stage of operation
`cell.prov` in column `col` contains `(r, cell.sym)`. Hence every symbol of every stage of every
operation appears exactly once, nothing else is drawn, and nothing drawn is overwritten. -/
theorem each_op_once_partial (c : Circ) (s : St) (hop : ∀ op ∈ c.ops, opOk op = true)
    (h : exportSt c = .ok s) :
    ∃ L : List Stg,
      L.map (fun g => (g.prov, g.ws)) = circStages c ∧
      (L.Pairwise fun a b => (a.col ≤ b.col ∧ a.prov ≤ b.prov) ∧
        (a.col = b.col → ∀ p ∈ a.ws, ∀ q ∈ b.ws, p.1 ≠ q.1)) ∧
      (∀ g ∈ L, g.col < s.rcols.length ∧ (g.ws.map (·.1)).Nodup) ∧
      ∀ col r cell, Has s col r cell ↔ ∃ g ∈ L, g.col = col ∧ g.prov = cell.prov ∧ (r, cell.sym) ∈ g.ws := by
  obtain ⟨L, d⟩ := export_drawn hop h
  exact ⟨L, d.stages, d.sorted, fun g hg => ⟨d.inGrid g hg, d.nodup g hg⟩, d.cells⟩

/-- **wire_order** — for EVERY circuit (any operations, inside the proved class or not, any register):
the operation index of the symbols never decreases from left to right over the whole grid … -/
theorem column_order (c : Circ) (s : St) (h : exportSt c = .ok s) (c1 c2 r1 r2 : Nat) (x1 x2 : Cell)
    (h1 : Has s c1 r1 x1) (h2 : Has s c2 r2 x2) (hlt : c1 < c2) : x1.prov ≤ x2.prov :=
  prov_monotone (exportSt_pm h) h1 h2 hlt

/-- … hence on every wire the operations that have a symbol on it appear in program order: a symbol of
a later operation is never in an earlier column than a symbol of an earlier operation, and on one and
the same wire it is in a strictly later column. (About the symbols present in the final matrix, with
the provenance of their last writer: that no symbol is overwritten or lost is `each_op_once_partial`.
About the symbols an operation WRITES: the wires a barrier merely covers are not reserved by the pinned
code — known finding `span:barrier`, `neg_barrier_column_reused`.) -/
theorem wire_order (c : Circ) (s : St) (h : exportSt c = .ok s) (c1 c2 r1 r2 : Nat) (x1 x2 : Cell)
    (h1 : Has s c1 r1 x1) (h2 : Has s c2 r2 x2) (hlt : x1.prov < x2.prov) :
    c1 ≤ c2 ∧ (r1 = r2 → c1 < c2) :=
  prov_wire_order (exportSt_pm h) h1 h2 hlt

/-- For circuits of the proved class the same follows from the layout (`each_op_once_partial`), with
the additional information that the two symbols are in different placed stages. -/
theorem wire_order_partial (c : Circ) (s : St) (hop : ∀ op ∈ c.ops, opOk op = true)
    (h : exportSt c = .ok s) (c1 c2 r1 r2 : Nat) (x1 x2 : Cell)
    (h1 : Has s c1 r1 x1) (h2 : Has s c2 r2 x2) (hlt : x1.prov < x2.prov) :
    c1 ≤ c2 ∧ (r1 = r2 → c1 < c2) := by
  obtain ⟨L, d⟩ := export_drawn hop h
  exact drawn_order d h1 h2 hlt

/-- **connector_span_clear** (partial: `opOk`) — every line of every cell ends, inside its column, on
a partner symbol drawn by the SAME operation, and every explicit cell strictly between the two ends of
the line belongs to that operation too: no symbol of another operation between the ends of a connector.
(Maintained by range reservation: invariant `Span` = "a field that is not in use is empty and lies
under no connector".) -/
theorem connector_span_clear_partial (c : Circ) (s : St) (hop : ∀ op ∈ c.ops, opOk op = true)
    (h : exportSt c = .ok s) (col r : Nat) (x : Cell) (hx : Has s col r x) (ln : Int × Nat)
    (hln : ln ∈ x.sym.lines) :
    ∃ (t : Nat) (y : Cell), (r : Int) + ln.1 = (t : Int) ∧ Has s col t y ∧
      Sym.partnerOk ln.2 y.sym = true ∧ y.prov = x.prov ∧
      ∀ (r' : Nat) (z : Cell), Between r t r' → Has s col r' z → z.prov = x.prov :=
  span_clear_of_span (export_span hop h) hx hln

/-- The span invariant for any operation history (not only from the empty state). -/
theorem span_invariant (s s' : St) (L : List Stg) (hi : Inv s) (hsp : Span s) (t : Trace s s' L) :
    Span s' ∧ Inv s' :=
  ⟨trace_span hi hsp t, trace_inv hi t⟩

/-- The explicit cells of the matrix are exactly the printed symbols that are not bare wires (for
EVERY circuit): the provenance statements above are statements about the printed grid. -/
theorem printed_iff_drawn (c : Circ) (s : St) (g : Grid) (h : exportSt c = .ok s) (hg : grid s = some g)
    (col r : Nat) (y : Sym) (hy : y.isWire = false) :
    (g.col col)[r]? = some y ↔ ∃ cell, Has s col r cell ∧ cell.sym = y :=
  ⟨fun hc => has_of_grid (exportSt_shape h).2.2 hg hc hy,
   fun ⟨_, hc, he⟩ => he ▸ grid_of_has (exportSt_shape h).2.2 hg hc⟩

/-- **stage_is_expected** (partial: one-column gates X Z Swap 1-qubit boxes and their controlled
nestings at a good placement, plain or under a classical condition, measure, reset) — the reference
stage used above is an acceptable drawing of exactly the marks the INDEPENDENT reader
`Spec.QcGrid.opItems` demands of the operation: the operation has ONE stage item; every symbol of the
stage sits on the wire of a mark that `accepts` it, and every mark has its symbol. (Kron / Composite /
Loop / measure_all: `stages_are_expected_partial` below.) -/
theorem stage_is_expected_partial (nq : Nat) (op : Op) (h : oneColumn op = true) :
    ∃ marks covers conn ws, opItems nq op = [.stage marks covers conn] ∧ opStages nq op = [ws] ∧
      StageMatches ws marks :=
  stage_is_expected nq op h

/-- **stages_are_expected** (partial: all `opOk` operations except reset_all and barrier) — the tie of
the reference drawing to the INDEPENDENT reader for Kron / Composite / Loop at any nesting depth as
well: for every operation of the proved class with a well-formed operand list (`Op.malformed = false`,
the reader's own notion), the visible reference stages (explicit identity wires dropped: the reader
does not look for them) match the reader's stage items `opItems` ONE BY ONE AND IN ORDER, each stage
being an acceptable drawing of exactly the marks of its item (`StageMatches`). Together with
`each_op_once_partial` (the matrix is exactly the stages laid out, left to right, without collisions):
every operation appears exactly once, as the reader expects it.
Not covered here: reset_all (the reader expects one stage per qubit, the code draws — legitimately — one
column) and barrier (the reader expects one stage holding all runs): grouping differs, see
`resetall_is_expected`, `barrier_is_expected_partial`, `barrier_one_column_partial`;
loop braces (header line) and the `connected` flag of a stage (that is `connector_span_clear_partial`). -/
theorem stages_are_expected_partial (nq : Nat) (op : Op) (hop : opOk op = true) (hm : op.malformed nq = false)
    (hk : matchable op = true) :
    StagesMatch (visible (opStages nq op)) (itemStages (opItems nq op)) :=
  opStages_items nq op hop hm hk

/-
FULL STATEMENT (false on the pinned code: `neg_empty_loop_body_brace`, finding `loop-brace:empty-loop-body`;
nested loops panic: `neg_nested_loop_panics`): every loop of three or more iterations gets a brace in the
header line that spans exactly the columns of the loop's symbols and nothing of another operation.
Proved for every circuit over `opOk ∧ opSafe` operations and every loop in it whose body draws at least
one stage. `(start, stop, n)` is the record `code` prints as `\POS"2,start+2"…"2,stop+2"…{n\times}` and the
reader (`Spec.QcGrid.readBrace`) reads back as `Brace ⟨start, stop, n⟩`; the reader's demands on a brace
(`matchItem … .loopEnd`: covers the loop's stage columns, the other covered columns are empty; `opsDepicted`:
nothing of another operation under it) follow from the iff below. That the TEXT reads back is (B).
-/
/-- **loop_brace** (partial: `opOk ∧ opSafe`, loop body that draws something). -/
theorem loop_brace_partial (nq nc : Nat) (pre post : List Op) (n : Nat) (body : Gate) (bits : List Nat) (s : St)
    (hpre : ∀ op ∈ pre, opOk op = true ∧ opSafe nq op = true)
    (hop : opOk (.gate (.loop n body) bits) = true ∧ opSafe nq (.gate (.loop n body) bits) = true)
    (hpost : ∀ op ∈ post, opOk op = true ∧ opSafe nq op = true)
    (hbig : 3 ≤ n) (hst : gateStages body bits false ≠ [])
    (h : exportSt ⟨nq, nc, pre ++ .gate (.loop n body) bits :: post⟩ = .ok s) :
    ∃ start stop, (start, stop, n) ∈ s.loops ∧ start ≤ stop ∧ stop < s.rcols.length ∧
      ∀ c r x, Has s c r x → (x.prov = pre.length ↔ (start ≤ c ∧ c ≤ stop)) :=
  loop_brace_circuit hpre hop hpost hbig hst h

/-- Non-vacuity: H; Loop 3 {Z}; H — the hypotheses hold and the brace is columns 1..3 (Z, `\cds`, Z). -/
example :
    let lp : Op := .gate (.loop 3 (.comp "b" 1 (.cons .z [0] .nil))) [1]
    (opOk lp = true ∧ opSafe 2 lp = true) ∧ gateStages (.comp "b" 1 (.cons .z [0] .nil)) [1] false ≠ [] ∧
    (exportSt ⟨2, 0, [.gate (.box "H" 1) [0]] ++ lp :: [.gate (.box "H" 1) [1]]⟩ >>== fun s => .ok (s.loops, s.rcols.length)) =
      .ok ([(1, 3, 3)], 5) := by decide

/-- The excluded case is the known finding `loop-brace:empty-loop-body`: a loop whose body draws nothing
records the brace 0..1 although column 1 holds the H of the NEXT operation. -/
theorem neg_empty_loop_body_brace :
    (exportSt ⟨1, 0, [.gate (.loop 3 (.comp "b" 1 .nil)) [0], .gate (.box "H" 1) [0]]⟩ >>== fun s =>
      .ok (s.loops, s.rcols.reverse.map fun col => col.map fun c => c.map fun x => (x.prov, x.sym))) =
    .ok ([(0, 1, 3)], [[some (0, .cds 0 "\\cdots")], [some (1, .gate "H" none)]]) := by decide

/-! ### reset_all and barrier against the reader (grouping differs, so the tie is on the flattened stages) -/

/-- **reset_all is what the reader expects** — for every register size: the reference stage (ONE column,
`each_op_once_partial`) consists, symbol by symbol and in order, of the reader's marks, one reset per
qubit (the reader makes one stage item per qubit and accepts them in one column). -/
theorem resetall_is_expected (nq : Nat) :
    (opStages nq .resetAll).flatten = (List.range nq).map (fun q => (q, Sym.reset)) ∧
    (itemStages (opItems nq .resetAll)).flatten = (List.range nq).map (fun q => (⟨q, .reset⟩ : Mark)) ∧
    StageMatches (opStages nq .resetAll).flatten (itemStages (opItems nq .resetAll)).flatten :=
  resetAll_expected nq

/-- **barrier is what the reader expects** (partial: the decidable side condition `barrierOk`: the runs
computed by `support::get_ranges` are the maximal runs of the qubit set the reader computes, with
distinct first rows — see `barrier_side_condition_small`): the reference stages, flattened, are the
reader's marks, one `\barrier{k}` on the first qubit of every run. NOT proved: `barrierOk` for every list
of distinct qubits of every register (needs the theory of the insertion sort in `get_ranges`). -/
theorem barrier_is_expected_partial (nq : Nat) (qbits : List Nat) (h : barrierOk nq qbits = true) :
    (opStages nq (.barrier qbits)).flatten = (runs qbits nq).map (fun p => (p.1, Sym.barrier (p.2 - p.1))) ∧
    (itemStages (opItems nq (.barrier qbits))).flatten =
      (runs qbits nq).map (fun p => (⟨p.1, .barrier (p.2 - p.1)⟩ : Mark)) ∧
    StageMatches (opStages nq (.barrier qbits)).flatten (itemStages (opItems nq (.barrier qbits))).flatten :=
  barrier_expected nq qbits h

/-- FINITE (kernel, the complete enumeration): the side condition holds for EVERY non-empty list of
distinct qubits of every register of up to 5 qubits. -/
theorem barrier_side_condition_small : ∀ n ∈ List.range 6, ∀ k ∈ List.range n, ∀ l ∈ distinctLists n (k + 1),
    barrierOk n l = true :=
  barrierOk_small

/-- … and all symbols of the barrier sit in ONE column, the freshly started last one (the reader wants
the marks of its single stage item in one column). For any state satisfying the invariant. -/
theorem barrier_one_column_partial (q : List Nat) (s s' : St) (hinv : Inv s) (hok : barrierOk s.nq q = true)
    (h : setBarrier q s = .ok s') :
    ∃ L, Trace s s' L ∧ L.map (·.ws) = barrierStages (runs q s.nq) ∧ ∀ g ∈ L, g.col + 1 = s'.rcols.length :=
  barrier_one_column hinv hok h

/-- Non-vacuity: a barrier over qubits 3,0,1 of 5 → runs 0..1 and 3..3, two symbols in one column. -/
example : barrierOk 5 [3, 0, 1] = true ∧ runs [3, 0, 1] 5 = [(0, 1), (3, 3)] ∧
    opStages 5 (.barrier [3, 0, 1]) = [[(0, .barrier 1)], [(3, .barrier 0)]] ∧
    (exportSt ⟨5, 0, [.gate (.box "H" 1) [0], .barrier [3, 0, 1]]⟩ >>== fun s => .ok (grid s)) =
      .ok (some [[.gate "H" none, .barrier 1, .qw], [.qw, .qw, .qw], [.qw, .qw, .qw], [.qw, .barrier 0, .qw], [.qw, .qw, .qw]]) := by
  decide

/-! ### Multi-qubit block gates (the trait's default drawing)

A gate drawn by `add_block_gate` on `n ≥ 2` qubits at a placement satisfying the decidable `blockOk`
(what `get_ranges` yields for the operands gives distinct written rows, all between two operands and
exactly the operands, every `\qwx` link ending on a part of the box) is INSIDE `opOk` (at top level and
inside Kron / Composite / Loop; not under a quantum control or a classical condition). Hence all the
theorems above (`grid…`, `connectors_in_grid_on_partner_partial`, `each_op_once_partial`,
`connector_span_clear_partial`, `stages_are_expected_partial`, `latex_never_panics_partial`,
`loop_brace_partial`) cover it; its reference stage is `blockWrites label operands`: per run of qubits
a `\gate` or a `\multigate{k}` on `k` ghosts, the later runs linked upwards by `\qwx`. -/

/-- FINITE (kernel, the complete enumeration): `blockOk` holds for EVERY placement of a block gate on
2..5 distinct qubits of a register of up to 5 qubits (4 + 12 + 60 + 320 placements). NOT proved: `blockOk`
for all registers (needs the theory of the insertion sort in `get_ranges`); it is decidable per instance. -/
theorem block_placements_small : ∀ n ∈ List.range 6, ∀ k ∈ List.range n, 1 ≤ k →
    ∀ l ∈ distinctLists n (k + 1), blockOk "G" (k + 1) l = true := by decide +kernel

/-- In the drawing of a block gate every `\multigate{k}` carries the gate's label and sits on `k` ghosts
with that label directly below it (the reader's `extentOk`); for every label and operand list. -/
theorem block_multigate_extent (d : String) (bits : List Nat) (r k : Nat) (d' : String) (q' : Option Int)
    (h : (r, Sym.multigate k d' q') ∈ blockWrites d bits) :
    d' = d ∧ ∀ j, j < k → (r + 1 + j, Sym.ghost d) ∈ blockWrites d bits :=
  blockWrites_extent d bits r k d' q' h

/-- Non-vacuity: H; a 3-qubit block on qubits 3,0,1 of 4; a measurement — all inside `opOk ∧ opSafe`; the
block is one stage (multigate on a ghost, linked box) in one column, with the span 0..3 reserved. -/
example :
    let c : Circ := ⟨4, 1, [.gate (.box "H" 1) [1], .gate (.box "G" 3) [3, 0, 1], .measure 0 0 .Z]⟩
    (∀ op ∈ c.ops, opOk op = true ∧ opSafe c.nq op = true) ∧
    circStages c = [(0, [(1, .gate "H" none)]),
      (1, [(0, .multigate 1 "G" none), (1, .ghost "G"), (3, .gate "G" (some (-2)))]),
      (2, [(0, .meter none), (4, .cwx (-4))])] ∧
    (exportSt c >>== fun s => .ok (grid s)) = .ok (some
      [[.qw, .multigate 1 "G" none, .meter none, .qw], [.gate "H" none, .ghost "G", .qw, .qw], [.qw, .qw, .qw, .qw],
       [.qw, .gate "G" (some (-2)), .qw, .qw], [.cw, .cw, .cwx (-4), .cw]]) := by decide

/-! ## Tie to the source: templates and the gate table are re-extracted on every run -/

/-- The CONTENT of the string literals / format templates of `src/export/latex.rs` and of
`impl Latex for C<G>` — every literal cut at its format holes, at white space and at double quotes; the
sorted list of the distinct pieces, independent of how the emitters assemble their strings — is the
vocabulary the model's `symText`, `braceText`, `rowLabel`, `rowText`, `code` are written with. If the
source changes a LaTeX command, option or decoration this fails and the model must be revisited (how the
pieces are assembled is tied by the correspondence (A) on every generated case). -/
theorem emitter_templates_as_modelled : Q1t.Gen.latexTemplates =
    ["!C*+<.7em>\\frm{^\\}},+U*++!D{", "&", ",", ".", "@C=1em", "@R=.7em", "@{|-{}}", "[0,-1]", "\\POS", "\\Qcircuit",
     "\\\\", "\\ar", "\\barrier{", "\\cctrl", "\\cctrlo", "\\cds{", "\\cw", "\\cwx[", "\\gate{", "\\ghost{", "\\lstick{0}",
     "\\lstick{\\ket{0}}", "\\mbox{}", "\\meter", "\\meterB{", "\\multigate{", "\\push{~\\ket{0}~}", "\\qw", "\\qwx[",
     "\\times}", "]", "{", "}", "}{"] ∧
    Q1t.Gen.latexCtrlTemplates = ["\\ctrl{", "}"] := by decide

/-- Every piece occurs in the text the model prints (spot check of the vocabulary against `symText` /
`braceText` / `code`). -/
example : symText (.multigate 2 "G" (some (-3))) = "\\multigate{2}{G} \\qwx[-3]" ∧
    braceText 1 3 4 = "\\mbox{} \\POS\"2,3\".\"2,3\".\"2,5\".\"2,5\"!C*+<.7em>\\frm{^\\}},+U*++!D{4\\times}" ∧
    code (St.new 1 1) = .ok "\\Qcircuit @C=1em @R=.7em {\n    \\lstick{\\ket{0}} & \\qw \\\\\n    \\lstick{0} & \\cw \\\\\n}\n" := by
  decide

/-- Instances of the model's cell text (the templates with their holes filled). -/
example : symText (.ctrl (-2)) = "\\ctrl{-2}" ∧
    symText (.multigate 2 "G" (some (-3))) = "\\multigate{2}{G} \\qwx[-3]" ∧
    symText (.cwx (-3)) = "\\cw \\cwx[-3]" ∧ symText (.cctrlo (-1)) = "\\cctrlo{-1}" ∧
    symText (.barrier 2) = "\\qw \\barrier{2}" ∧ symText (.cds 1 "\\cdots") = "\\cds{1}{\\cdots}" ∧
    symText (.meter (some "X")) = "\\meterB{X}" ∧ symText (.gate "H" (some 2)) = "\\gate{H} \\qwx[2]" := by
  decide

/-! ## Non-vacuity -/

def cxGate : Gate := .c .x
def ccxGate : Gate := .c (.c .x)

/-- A circuit inside the proved class with controls, a swap, a composite, a loop, a conditional Toffoli,
measurements, resets and a barrier. -/
def sample : Circ := ⟨3, 2, [.gate (.box "H" 1) [0], .gate ccxGate [0, 2, 1], .gate .swap [2, 0],
  .gate (.comp "c" 2 (.cons (.box "H" 1) [1] (.cons cxGate [0, 1] .nil))) [1, 2],
  .gate (.loop 3 (.comp "b" 1 (.cons .z [0] .nil))) [2], .measure 1 0 .X, .barrier [0, 1], .reset 2, .cond [1, 0] 2 ccxGate [2, 0, 1], .resetAll, .measureAll [1, 0, 1] .Z]⟩

example : (∀ op ∈ sample.ops, opOk op = true) ∧ (circuitLatex sample matches .ok _) := by decide

/-- The reference drawing of a small circuit, concretely: (operation, stage symbols). -/
example : circStages ⟨2, 1, [.gate (.box "H" 1) [0], .gate cxGate [0, 1], .gate (.kron .i .z) [1, 0], .measure 1 0 .Z]⟩ =
    [(0, [(0, .gate "H" none)]), (1, [(0, .ctrl 1), (1, .targ)]), (2, [(1, .qw)]), (2, [(0, .gate "Z" none)]),
     (3, [(1, .meter none), (2, .cwx (-1))])] := by decide

/-- The provenance theorems are not vacuous and say what they should on `sample`: all 11 operations
are inside the class, the export succeeds, the reference drawing has 16 stages, and e.g. the loop
(operation 4) contributes Z, `\\cds`, Z. -/
example : (circStages sample).length = 16 ∧
    (circStages sample).filter (·.1 = 4) =
      [(4, [(2, .gate "Z" none)]), (4, [(2, .cds 0 "\\cdots")]), (4, [(2, .gate "Z" none)])] := by decide

/-- … and the cells of provenance 8 (the conditional Toffoli) in the final matrix: one column, five rows,
exactly the symbols of its reference stage. -/
example : (exportSt sample >>== fun s => .ok (s.rcols.reverse.zipIdx.flatMap fun (p : Column × Nat) =>
      p.1.zipIdx.filterMap fun (q : Option Cell × Nat) =>
        q.1.bind fun x => if x.prov = 8 then some (p.2, q.2, x.sym) else none)) =
    .ok [(10, 0, .ctrl 1), (10, 1, .targ), (10, 2, .ctrl (-1)), (10, 3, .cctrl (-1)), (10, 4, .cctrlo (-1))] ∧
    (circStages sample).filter (·.1 = 8) =
      [(8, [(2, .ctrl (-1)), (0, .ctrl 1), (1, .targ), (3, .cctrl (-1)), (4, .cctrlo (-1))])] := by decide

/-- Every operation of `sample` is well-formed; 9 of the 11 are `matchable`. -/
example : (sample.ops.all fun op => !(op.malformed sample.nq)) = true ∧ (sample.ops.filter matchable).length = 9 := by decide

/-- One-column operations of `sample` for which `stage_is_expected_partial` applies. -/
example : (sample.ops.filter oneColumn).length = 6 := by decide

/-- `latex_never_panics_partial` applies to `sample` (loop of 3 iterations, composite, conditional
Toffoli on 2 classical bits …). -/
example : ∀ op ∈ sample.ops, opOk op = true ∧ opSafe sample.nq op = true := by decide

/-! ## Negative witnesses: the full property fails on the pinned code -/

/-- Each class excluded by `opSafe` really panics (and is excluded): composite sub-bit out of range,
a Loop of ≥ 3 iterations on no qubits, a Loop of ≥ 3 iterations in a circuit without wires (model only),
a nested Loop (`neg_nested_loop_panics` below). -/
theorem neg_unsafe_classes_panic :
    circuitLatex ⟨1, 0, [.gate (.comp "c" 1 (.cons (.box "H" 1) [1] .nil)) [0]]⟩ = .panic ∧
    opSafe 1 (.gate (.comp "c" 1 (.cons (.box "H" 1) [1] .nil)) [0]) = false ∧
    circuitLatex ⟨1, 0, [.gate (.loop 3 (.comp "c" 0 .nil)) []]⟩ = .panic ∧
    opSafe 1 (.gate (.loop 3 (.comp "c" 0 .nil)) []) = false ∧
    circuitLatex ⟨0, 0, [.gate (.loop 3 (.comp "c" 1 .nil)) [5]]⟩ = .panic ∧
    opSafe 0 (.gate (.loop 3 (.comp "c" 1 .nil)) [5]) = false := by decide

/-- NEW finding: a conditional gate on 65 classical bits (accepted by `add_conditional_gate`) makes
`set_condition` evaluate `1 << 64` on a `u64`: a panic in checked builds. With 64 bits it is drawn. -/
theorem neg_condition_over_64_bits_panics :
    circuitLatex ⟨1, 65, [.cond (List.range 65) 0 .x [0]]⟩ = .panic ∧
    opOk (.cond (List.range 65) 0 .x [0]) = true ∧ opSafe 1 (.cond (List.range 65) 0 .x [0]) = false ∧
    (circuitLatex ⟨1, 64, [.cond (List.range 64) 1 .x [0]]⟩ matches .ok _) := by decide +kernel


/-- D11: a control between its targets is a panic, not an error (and not a drawing). -/
theorem neg_ctrl_between_targets_panics : circuitLatex ⟨3, 0, [.gate ccxGate [1, 0, 2]]⟩ = .panic := by decide

/-- (was D11, repaired in /repo) `reset_all` on a circuit without qubits draws nothing and does not panic. -/
theorem resetall_zero_qubits_draws_nothing :
    circuitLatex ⟨0, 0, [.resetAll]⟩ = circuitLatex ⟨0, 0, []⟩ ∧ (circuitLatex ⟨0, 2, [.resetAll]⟩ matches .ok _) := by decide

/-- (repaired in /repo) a barrier on no qubits draws nothing: no panic, no empty column. -/
theorem empty_barrier_draws_nothing :
    circuitLatex ⟨2, 0, [.gate (.box "H" 1) [0], .barrier [], .gate (.box "H" 1) [1]]⟩ =
    circuitLatex ⟨2, 0, [.gate (.box "H" 1) [0], .gate (.box "H" 1) [1]]⟩ := by decide

/-- D13: `if (b == 1) { H; X }` is exported exactly like `if (b == 1) X`: the H is lost. -/
theorem neg_conditional_composite_overwrites :
    circuitLatex ⟨1, 1, [.cond [0] 1 (.comp "c" 1 (.cons (.box "H" 1) [0] (.cons .x [0] .nil))) [0]]⟩ =
    circuitLatex ⟨1, 1, [.cond [0] 1 .x [0]]⟩ := by decide

/-- Any Loop (≥ 3 iterations) holding another one panics while the header is printed. -/
theorem neg_nested_loop_panics :
    circuitLatex ⟨1, 0, [.gate (.loop 3 (.comp "o" 1 (.cons (.box "H" 1) [0]
      (.cons (.loop 3 (.comp "i" 1 (.cons .x [0] .nil))) [0] .nil)))) [0]]⟩ = .panic := by decide

/-- A gate after a barrier is drawn INTO the barrier's column, under its dashed line: the barrier
symbol `\barrier{1}` in row 0 spans row 1, which holds `\gate{H}`. -/
theorem neg_barrier_column_reused :
    (exportSt ⟨2, 0, [.barrier [0, 1], .gate (.box "H" 1) [1]]⟩ >>== fun s => .ok (grid s)) =
      .ok (some [[.barrier 1, .qw], [.gate "H" none, .qw]]) ∧
    spansClear [[.barrier 1, .qw], [.gate "H" none, .qw]] = false := by decide

/-- C<Kron<X,X>>: the second target has no line to the control. -/
theorem neg_controlled_kron_unconnected :
    (exportSt ⟨3, 0, [.gate (.c (.kron .x .x)) [0, 1, 2]]⟩ >>== fun s => .ok (grid s)) =
      .ok (some [[.ctrl 1, .qw], [.targ, .qw], [.targ, .qw]]) ∧
    connectedRows [.ctrl 1, .targ, .targ] [0, 1, 2] = false := by decide

end Q1t.Props.C13

import Q1t.Model.Latex
import Q1t.Spec.QcGrid
import Q1t.Gen.LatexTemplates
import Q1t.Proofs.LatexBasic
import Q1t.Proofs.LatexShape
import Q1t.Proofs.LatexInv
/-!
# C13 — the LaTeX (qcircuit) export is a well-formed grid depicting the circuit; undrawable operations are errors

Property theorems only.  Statements are about the executable model `Q1t.Latex` of
`src/export/latex.rs`, `Circuit::latex` and every gate's `impl Latex` (tied to the code by the
correspondence run of `tools/check.py C13`), and about the grid of symbols `Q1t.Latex.grid` that the
model's `code` prints (that the exported TEXT reads back as this grid is checked at run time by the
reader `Spec.QcGrid.readDoc` on the implementation's output, not proved).
Proofs are in `Q1t/Proofs/Latex{Basic,Shape,Conn,Inv}.lean`.
-/
namespace Q1t.Props.C13
open Q1t.Latex Q1t.Spec.QcGrid Q1t.Proofs.Latex

/-- **grid_rectangular** — for EVERY circuit (any register size, any gate terms, any operand lists,
well-formed or not): if the export does not fail, the printed grid has exactly one row per quantum
and per classical wire, and all rows have the same number of cells (one per matrix column, plus the
closing wire column when the last column is in use). No index panic can occur while printing it. -/
theorem grid_rectangular (c : Circ) (s : St) (h : exportSt c = .ok s) :
    ∃ g, grid s = some g ∧ g.length = c.nq + c.nc ∧ rectangular g = true ∧
      ∀ row ∈ g, row.length = s.rcols.length + (if s.inUse.contains true then 1 else 0) := by
  obtain ⟨hq, hc, hs⟩ := exportSt_shape h
  obtain ⟨g, hg, hl, hrows⟩ := grid_shape s hs
  exact ⟨g, hg, by rw [hl, St.total, hq, hc], rectangular_of_lengths g _ hrows, hrows⟩

/-- The same shape holds after ANY sequence of the emitters on any well-shaped state: it is an
invariant of the state machine, not only of `Circuit::latex`. -/
theorem shape_invariant (nq : Nat) (ops : List Op) (s s' : St) (hs : Shape s)
    (h : opsLatex nq ops s = .ok s') : Shape s' ∧ s'.nq = s.nq ∧ s'.nc = s.nc :=
  ⟨(keeps_opsLatex h).shape hs, (keeps_opsLatex h).nq, (keeps_opsLatex h).nc⟩

/-
FULL STATEMENT (false on the pinned code, see the negative witnesses below):
  ∀ c s g, exportSt c = .ok s → grid s = some g → every line of every cell of g ends inside g on a partner symbol.
Proved for all circuits, of any size and length, whose operations satisfy the decidable predicate
`opOk`: gates that are 1-qubit boxes (H Y S S† T T† V V† RX RY RZ U1 U2 U3 …), X, Z, Swap, I, any
controlled nesting C<…> of the former four with every control outside the span of its targets and
distinct operands (CX … CCZ), and Kron / Composite / Loop of all these to any depth; conditional
gates whose gate is such a one-column gate (`condOk`: distinct qubits, distinct condition bits);
measure, measure_all, reset, reset_all, barrier, peek.
Excluded: multi-qubit block gates (the trait's default drawing; modelled and compared, not proved);
Kron / Composite / Loop / I under a quantum or classical control (genuinely wrong or degenerate on
the pinned code, see the negative witnesses and the known findings).
-/
/-- **connectors_in_grid_on_partner** (partial): in the printed grid every control line, `\qwx`
wire and measurement line ends inside the grid on a partner symbol. -/
theorem connectors_in_grid_on_partner_partial (c : Circ) (s : St) (g : Grid)
    (hop : ∀ op ∈ c.ops, opOk op = true) (h : exportSt c = .ok s) (hg : grid s = some g) :
    ∀ (col r : Nat) (y : Sym), (g.col col)[r]? = some y → linesOk (g.col col) r y = true :=
  grid_lines_ok (exportSt_inv hop h).shape (exportSt_inv hop h).ok hg

/-- The invariant behind it, for any operation history: outside a range every matrix column is
connected, and a field that is not in use is empty (so later writes never overwrite a symbol). -/
theorem connector_invariant (nq : Nat) (ops : List Op) (s s' : St) (hi : Inv s) (he : s.expand = true)
    (hop : ∀ op ∈ ops, opOk op = true) (h : opsLatex nq ops s = .ok s') : Inv s' :=
  inv_opsLatex hi he hop h

/-- **undrawable_is_error** — an operation that cannot be drawn (peek, peek_all) is never exported:
for every circuit, of any size, containing one, `Circuit::latex` does not return text … -/
theorem undrawable_is_error (c : Circ) (h : ∃ op ∈ c.ops, op.isPeek = true) :
    ∀ t, circuitLatex c ≠ .ok t :=
  Q1t.Proofs.Latex.undrawable_is_error c h

/-- … and when everything before the first peek can be drawn, the result is the `NotImplemented` error. -/
theorem undrawable_error_value (nq : Nat) (pre : List Op) (op : Op) (post : List Op) (s s1 : St)
    (hpre : opsLatex nq pre s = .ok s1) (hp : op.isPeek = true) :
    opsLatex nq (pre ++ op :: post) s = .err .notImplemented :=
  peek_after_ok_prefix nq pre op post s s1 hpre hp

/-! ## Tie to the source: templates and the gate table are re-extracted on every run -/

/-- The string literals / format templates of `src/export/latex.rs` are the ones the model's
`symText`, `braceText`, `rowLabel`, `rowText`, `code` implement (in source order). If the source
changes a template this fails and the model must be revisited. -/
theorem emitter_templates_as_modelled : Q1t.Gen.latexTemplates =
    ["\\meterB{{}}", "\\meter", "\\cw \\cwx[{}]", "\\push{~\\ket{0}~} \\ar @{|-{}} [0,-1]", "\\cctrlo", "\\cctrl",
     "{}{{}}", "\\gate{{}}", "\\multigate{{}}{{}}", "\\ghost{{}}", "\\gate{{}} \\qwx[{}]",
     "\\multigate{{}}{{}} \\qwx[{}]", "\\ghost{{}}", "\\cds{{}}{{}}", "\\qw \\barrier{{}}",
     "\\Qcircuit @C=1em @R=.7em {\n", "    & ", "& ",
     "\\mbox{} \\POS\"{},{}\".\"{},{}\".\"{},{}\".\"{},{}\"!C*+<.7em>\\frm{^\\}},+U*++!D{{}\\times}",
     "\\\\\n", "    ", "& ", "\\\\\n", "    \\lstick{\\ket{0}}", "    \\lstick{0}", "    ", " & ", "\\qw", "\\cw",
     " & ", "\\qw", "\\cw", " \\\\\n", "}\n"] ∧
    Q1t.Gen.latexCtrlTemplates = ["\\ctrl{{}}", "\\ctrl{{}}"] := by decide

/-- Instances of the model's cell text (the templates with their holes filled). -/
example : symText (.ctrl (-2)) = "\\ctrl{-2}" ∧
    symText (.multigate 2 "G" (some (-3))) = "\\multigate{2}{G} \\qwx[-3]" ∧
    symText (.cwx (-3)) = "\\cw \\cwx[-3]" ∧ symText (.cctrlo (-1)) = "\\cctrlo{-1}" ∧
    symText (.barrier 2) = "\\qw \\barrier{2}" ∧ symText (.cds 1 "\\cdots") = "\\cds{1}{\\cdots}" ∧
    symText (.meter (some "X")) = "\\meterB{X}" ∧ symText (.gate "H" (some 2)) = "\\gate{H} \\qwx[2]" := by
  decide

/-! ## Non-vacuity -/

def cxGate : Gate := .c .x
def ccxGate : Gate := .c (.c .x)

/-- A circuit inside the proved class with controls, a swap, a composite, a loop, a conditional Toffoli,
measurements, resets and a barrier. -/
def sample : Circ := ⟨3, 2, [.gate (.box "H" 1) [0], .gate ccxGate [0, 2, 1], .gate .swap [2, 0],
  .gate (.comp "c" 2 (.cons (.box "H" 1) [1] (.cons cxGate [0, 1] .nil))) [1, 2],
  .gate (.loop 3 (.comp "b" 1 (.cons .z [0] .nil))) [2], .measure 1 0 .X, .barrier [0, 1], .reset 2, .cond [1, 0] 2 ccxGate [2, 0, 1], .resetAll, .measureAll [1, 0, 1] .Z]⟩

example : (∀ op ∈ sample.ops, opOk op = true) ∧ (circuitLatex sample matches .ok _) := by decide

/-! ## Negative witnesses: the full property fails on the pinned code -/

/-- D11: a control between its targets is a panic, not an error (and not a drawing). -/
theorem neg_ctrl_between_targets_panics : circuitLatex ⟨3, 0, [.gate ccxGate [1, 0, 2]]⟩ = .panic := by decide

/-- D11: `reset_all` on a circuit without qubits panics. -/
theorem neg_resetall_zero_qubits_panics : circuitLatex ⟨0, 0, [.resetAll]⟩ = .panic := by decide

/-- D13: `if (b == 1) { H; X }` is exported exactly like `if (b == 1) X`: the H is lost. -/
theorem neg_conditional_composite_overwrites :
    circuitLatex ⟨1, 1, [.cond [0] 1 (.comp "c" 1 (.cons (.box "H" 1) [0] (.cons .x [0] .nil))) [0]]⟩ =
    circuitLatex ⟨1, 1, [.cond [0] 1 .x [0]]⟩ := by decide

/-- Any Loop (≥ 3 iterations) holding another one panics while the header is printed. -/
theorem neg_nested_loop_panics :
    circuitLatex ⟨1, 0, [.gate (.loop 3 (.comp "o" 1 (.cons (.box "H" 1) [0]
      (.cons (.loop 3 (.comp "i" 1 (.cons .x [0] .nil))) [0] .nil)))) [0]]⟩ = .panic := by decide

/-- A gate after a barrier is drawn INTO the barrier's column, under its dashed line: the barrier
symbol `\barrier{1}` in row 0 spans row 1, which holds `\gate{H}`. -/
theorem neg_barrier_column_reused :
    (exportSt ⟨2, 0, [.barrier [0, 1], .gate (.box "H" 1) [1]]⟩ >>== fun s => .ok (grid s)) =
      .ok (some [[.barrier 1, .qw], [.gate "H" none, .qw]]) ∧
    spansClear [[.barrier 1, .qw], [.gate "H" none, .qw]] = false := by decide

/-- C<Kron<X,X>>: the second target has no line to the control. -/
theorem neg_controlled_kron_unconnected :
    (exportSt ⟨3, 0, [.gate (.c (.kron .x .x)) [0, 1, 2]]⟩ >>== fun s => .ok (grid s)) =
      .ok (some [[.ctrl 1, .qw], [.targ, .qw], [.targ, .qw]]) ∧
    connectedRows [.ctrl 1, .targ, .targ] [0, 1, 2] = false := by decide

end Q1t.Props.C13

import Q1t.Model.Bits
import Q1t.Model.Conditional
import Q1t.Model.Register
import Q1t.Model.Sim
import Q1t.Spec.Bits
import Q1t.Spec.Conditional
import Q1t.Proofs.Bits
import Q1t.Proofs.Conditional
/-!
# C07 — conditional gates act on exactly the shots whose control bits match

Property theorems only; proofs are in `Q1t/Proofs/Bits.lean` and `Q1t/Proofs/Conditional.lean`.
Statements are about the executable models `Q1t.Bits.controlWord` (the gather loop of
`Circuit::do_execute_with`), `Q1t.Conditional.collectRanges` (`qustate::collect_conditional_ranges`)
and `Q1t.Conditional.applyConditional` / `condOp` (both `apply_conditional_gate`s, the state type and
the gate action being parameters), tied to the code by the correspondence run of
`tools/check.py C07`.  They hold for all control lists, targets, register contents, range layouts,
state types and gate actions.
-/
namespace Q1t.Props.C07
open Q1t.Bits Q1t.Conditional Q1t.Spec.Conditional

/-! ## the control word -/

/-- **control_word_bit**: for every control list of indices below 64 with at most 64 entries (any
subset, any order, repeats allowed) and every register word, bit `j` of the gathered word is bit
`control[j]` of the register word — the FIRST listed control bit is the LEAST significant bit of the
word compared with `target` (the doc comment of `add_conditional_gate` says "most significant": it
is wrong) —, and bits beyond the list are 0. -/
theorem control_word_bit (control : List Nat) (sb : Word)
    (hc : ∀ c ∈ control, c < 64) (hlen : control.length ≤ 64) :
    ∃ cw, controlWord control sb = some cw ∧
      ∀ j, cw.getLsbD j = match control[j]? with | some c => sb.getLsbD c | none => false :=
  Q1t.Proofs.Bits.control_word_bit control sb hc hlen

/-- the guards are exact: the gather panics (shift overflow, overflow checks on) iff a control index is
≥ 64 (possible for registers wider than 64 bits) or there are more than 64 control bits -/
theorem control_word_panics_iff (control : List Nat) (sb : Word) :
    controlWord control sb = none ↔ ((∃ c ∈ control, 64 ≤ c) ∨ 64 < control.length) :=
  Q1t.Proofs.Bits.controlWord_none_iff control sb

/-- empty control list: the word is 0, so the gate is applied to all shots iff `target = 0` -/
theorem control_word_empty (sb : Word) : controlWord [] sb = some 0 := rfl

/-- witness: 65 control bits (all naming bit 0) overflow the shift -/
theorem control_word_65_bits_panics : controlWord (List.replicate 65 0) 1 = none := by decide

/-- **conditional_histogram_order**: with the whole `nc`-bit register as control list in index order the
control word is the register word itself, i.e. the histogram key: `target` is read in the bit order of
histogram keys (classical bit `i` ↔ bit `i` of the key ↔ character `nc-1-i` of the string key, C08). -/
theorem conditional_histogram_order (nc : Nat) (w : Word) (hnc : nc ≤ 64) (hw : w.toNat < 2 ^ nc) :
    controlWord (List.range nc) w = some w :=
  Q1t.Proofs.Conditional.controlWord_full_register nc w hnc hw

/-! ## the ranges -/

/-- **ranges_partition**: for every layout of positive counts covering the mask,
`collect_conditional_ranges` returns (no index panic) pieces `(column, length, apply)` such that
* expanded shot by shot they are exactly the sequence (old range of the shot, mask value of the shot):
  they cover the shots in order, each piece lies inside one old range and carries the mask value of
  every one of its shots;
* every piece is non-empty;
* they are the maximal homogeneous pieces: they are, range by range, the run-length encoding of the
  range's slice of the mask, and neighbouring runs inside a range carry different mask values. -/
theorem ranges_partition (counts : List Nat) (control : List Bool)
    (hpos : ∀ c ∈ counts, 0 < c) (hsum : counts.sum = control.length) :
    ∃ rs, collectRanges counts control = some rs ∧
      rs.flatMap (fun p => List.replicate p.2.1 (p.1, p.2.2)) = List.zip (shotCols counts 0) control ∧
      (rs.map (·.2.1)).sum = control.length ∧
      rs = ranges counts 0 control :=
  ⟨_, Q1t.Proofs.Conditional.collectRanges_eq_spec counts control hpos hsum,
   Q1t.Proofs.Conditional.ranges_expand counts 0 control hsum,
   Q1t.Proofs.Conditional.ranges_sum counts 0 control hsum, rfl⟩

/-- the run-length encoding used by the reference: it reproduces the slice, its runs are non-empty and
neighbouring runs differ (maximality) -/
theorem rle_is_maximal_runs (bs : List Bool) :
    Q1t.Proofs.Conditional.runs (rle bs) = bs ∧ (∀ p ∈ rle bs, 0 < p.1) ∧ Q1t.Proofs.Conditional.AdjDiff (rle bs) :=
  ⟨Q1t.Proofs.Conditional.rle_expand bs, Q1t.Proofs.Conditional.rle_pos bs, Q1t.Proofs.Conditional.rle_adj bs⟩

/-- **N = 0 shots panics (D9)**: `execute(0)` leaves `counts = [0]`; the first conditional gate (or the
vector backend's `reset`) calls `collect_conditional_ranges(&[0], &[])`, which indexes `control[0]`. -/
theorem zero_shots_panics : collectRanges [0] [] = none := by decide

/-- a zero count that is not at the end, a mask that is too short: the other index panics -/
example : collectRanges [1, 0, 1] [true, true] = some [(0, 1, true), (2, 1, true)] ∧
    collectRanges [2, 0] [true, false] = none ∧ collectRanges [3] [true, false] = none := by decide

/-! ## the gate goes to exactly the matching shots -/

/-- **conditional_per_shot** (ranges level): for every state type, gate action, layout and mask the call
completes and, shot by shot, the new state is the gate applied to the old state iff the shot's mask bit
is set; every other shot's state is the old one.  The new counts are the piece lengths. -/
theorem conditional_per_shot_mask {σ : Type} (g : σ → σ) (nrShots : Nat) (control : List Bool) (st : RState σ)
    (hl : st.counts.length = st.states.length) (hpos : ∀ c ∈ st.counts, 0 < c)
    (hsum : st.counts.sum = control.length) (hn : control.length = nrShots) :
    ∃ st', applyConditional nrShots g control st = .ok st' ∧
      expand st' = perShot g (expand st) control ∧
      st'.counts = (ranges st.counts 0 control).map (·.2.1) ∧ st'.counts.sum = nrShots :=
  Q1t.Proofs.Conditional.applyConditional_per_shot g nrShots control st hl hpos hsum hn

/-- **conditional_per_shot**: the whole `ConditionalGate` arm.  A shot's state gets the gate iff the word
spelt by its selected register bits (`Spec.Bits.select`: bit `j` = register bit `control[j]`) equals
`target`, decided per shot from the register contents at that point of the run; everything else is
untouched; the register is only read (it is not part of the result). -/
theorem conditional_per_shot {σ : Type} (g : σ → σ) (control : List Nat) (target : Word) (reg : List Word)
    (st : RState σ) (hc : ∀ c ∈ control, c < 64) (hlen : control.length ≤ 64)
    (hl : st.counts.length = st.states.length) (hpos : ∀ c ∈ st.counts, 0 < c) (hsum : st.counts.sum = reg.length) :
    ∃ st', condOp g control target reg st = .ok st' ∧
      expand st' = perShot g (expand st) (reg.map (fun w => Spec.Bits.select control w == target)) ∧
      st'.counts.sum = reg.length :=
  Q1t.Proofs.Conditional.condOp_per_shot g control target reg st hc hlen hl hpos hsum

/-- the reference word `select` really is "bit `j` = register bit `control[j]`" -/
theorem select_bit (control : List Nat) (w : Word) (j : Nat) (hj : j < 64) :
    (Spec.Bits.select control w).getLsbD j = match control[j]? with | some c => w.getLsbD c | none => false := by
  unfold Spec.Bits.select; rw [Q1t.Proofs.Bits.ofBits_getLsbD]; simp only [hj, decide_true, Bool.true_and]
  cases control[j]? <;> rfl

/-! ## the same functions in the simulator model `Q1t/Model/Sim.lean`

`Q1t.Sim` (the executor model used by C01/C02/C09) has its own executable transcriptions of the two
functions, on `Nat` words and with folds.  They are proved equal to the ones above, so the theorems of
this file hold of them as well. -/

/-- `Q1t.Sim.collectConditionalRanges` returns the same reference pieces on every valid layout -/
theorem sim_ranges_agree (counts : List Nat) (control : List Bool)
    (hpos : ∀ c ∈ counts, 0 < c) (hsum : counts.sum = control.length) :
    Q1t.Sim.collectConditionalRanges counts control = collectRanges counts control ∧
    Q1t.Sim.collectConditionalRanges counts control = some (ranges counts 0 control) :=
  ⟨Q1t.Proofs.Conditional.sim_collectConditionalRanges_eq counts control hpos hsum,
   by rw [Q1t.Proofs.Conditional.sim_collectConditionalRanges_eq counts control hpos hsum,
          Q1t.Proofs.Conditional.collectRanges_eq_spec counts control hpos hsum]⟩

/-- `Q1t.Sim.controlWord` computes the same control word -/
theorem sim_control_word_agrees (control : List Nat) (w : Word) (hc : ∀ c ∈ control, c < 64) (hlen : control.length ≤ 64) :
    Q1t.Sim.controlWord control w.toNat = (controlWord control w).map BitVec.toNat :=
  Q1t.Proofs.Conditional.sim_controlWord_eq control w hc hlen

/-! ## non-vacuity -/

/-- five shots in two ranges, control bits (2, 0) in that order, target 0b01 = "bit 2 set, bit 0 clear":
shots with register 4 and 6 match (not 5, not 1), the gate `(· + 10)` reaches exactly those, and the
ranges split accordingly -/
example : (condOp (· + 10) [2, 0] 1 [4, 5, 6, 1, 4] (⟨[3, 2], [100, 200]⟩ : RState Nat)).map
    (fun st => (st.counts, st.states, expand st)) =
    .ok ([1, 1, 1, 1, 1], [110, 100, 110, 200, 210], [110, 100, 110, 200, 210]) := by decide
example : collectRanges [3, 2] [true, false, false, false, true] =
    some [(0, 1, true), (0, 2, false), (1, 1, false), (1, 1, true)] := by decide

end Q1t.Props.C07

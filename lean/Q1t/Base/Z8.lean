/-! Exact ring ℤ[ζ₈] (ζ₈ = e^{iπ/4}, ζ₈⁴ = −1).  Import-free, executable, decidable equality.

An element `⟨a, b, c, d⟩` denotes `a + b·ζ + c·ζ² + d·ζ³`.  The ring contains `i = ζ²`,
`√2 = ζ − ζ³`, `1 ± i`, `e^{±iπ/4}`; it does not contain `1/√2`, so state vectors over it are
unnormalised (rays).  `Z8.canonRay` picks a canonical representative of a ray whenever the entries
have a common factor `√2^k·ζ^t` (always the case for stabilizer states). -/
namespace Q1t

structure Z8 where
  a : Int
  b : Int
  c : Int
  d : Int
deriving DecidableEq, Repr, Inhabited

namespace Z8

def zero : Z8 := ⟨0, 0, 0, 0⟩
def one : Z8 := ⟨1, 0, 0, 0⟩
/-- ζ₈ -/
def zeta : Z8 := ⟨0, 1, 0, 0⟩
/-- the imaginary unit, ζ₈² -/
def I : Z8 := ⟨0, 0, 1, 0⟩
/-- √2 = ζ − ζ³ -/
def sqrt2 : Z8 := ⟨0, 1, 0, -1⟩
def ofInt (n : Int) : Z8 := ⟨n, 0, 0, 0⟩

def add (x y : Z8) : Z8 := ⟨x.a + y.a, x.b + y.b, x.c + y.c, x.d + y.d⟩
def neg (x : Z8) : Z8 := ⟨-x.a, -x.b, -x.c, -x.d⟩
def sub (x y : Z8) : Z8 := ⟨x.a - y.a, x.b - y.b, x.c - y.c, x.d - y.d⟩
def mul (x y : Z8) : Z8 :=
  ⟨x.a * y.a - x.b * y.d - x.c * y.c - x.d * y.b,
   x.a * y.b + x.b * y.a - x.c * y.d - x.d * y.c,
   x.a * y.c + x.b * y.b + x.c * y.a - x.d * y.d,
   x.a * y.d + x.b * y.c + x.c * y.b + x.d * y.a⟩
/-- complex conjugation: ζ ↦ ζ⁻¹ = −ζ³ -/
def conj (x : Z8) : Z8 := ⟨x.a, -x.d, -x.c, -x.b⟩

instance : Add Z8 := ⟨add⟩
instance : Mul Z8 := ⟨mul⟩
instance : Neg Z8 := ⟨neg⟩
instance : Sub Z8 := ⟨sub⟩
instance : OfNat Z8 0 := ⟨zero⟩
instance : OfNat Z8 1 := ⟨one⟩

/-- multiplication by i (cheaper than `I * x`) -/
def mulI (x : Z8) : Z8 := ⟨-x.c, -x.d, x.a, x.b⟩
/-- multiplication by ζ -/
def mulZeta (x : Z8) : Z8 := ⟨-x.d, x.a, x.b, x.c⟩

/-- `i^k · x` -/
def mulIPow (k : Nat) (x : Z8) : Z8 :=
  match k % 4 with
  | 0 => x
  | 1 => mulI x
  | 2 => neg x
  | _ => neg (mulI x)

/-- `ζ^k · x` -/
def mulZetaPow : Nat → Z8 → Z8
  | 0, x => x
  | k + 1, x => mulZeta (mulZetaPow k x)

/-- `|x|² = x · conj x` (an element of the real subring ℤ[√2]) -/
def normSq (x : Z8) : Z8 := x * conj x

def isZero (x : Z8) : Bool := x.a == 0 && x.b == 0 && x.c == 0 && x.d == 0

/-- divisible by √2?  (`x/√2 = x·√2/2`) -/
def divisibleBySqrt2 (x : Z8) : Bool :=
  let y := x * sqrt2
  y.a % 2 == 0 && y.b % 2 == 0 && y.c % 2 == 0 && y.d % 2 == 0

def divSqrt2 (x : Z8) : Z8 :=
  let y := x * sqrt2
  ⟨y.a / 2, y.b / 2, y.c / 2, y.d / 2⟩

def sum (l : List Z8) : Z8 := l.foldl (· + ·) 0

/-- Is `x = ζ^t` for some `t < 8`?  Returns `t`. -/
def unitExp? (x : Z8) : Option Nat :=
  (List.range 8).find? (fun t => mulZetaPow t one == x)

/-- Divide a vector by `√2` as long as every entry is divisible (at most `fuel` times). -/
def reduceSqrt2 : Nat → List Z8 → List Z8
  | 0, v => v
  | fuel + 1, v =>
    if v.all isZero then v
    else if v.all divisibleBySqrt2 then reduceSqrt2 fuel (v.map divSqrt2) else v

/-- Canonical representative of the ray through `v`: remove common factors `√2`, then, when the first
non-zero entry is a unit `ζ^t`, rotate it to `1`.  `canonRay v` is always a non-zero multiple of `v`
(over ℚ(ζ₈)), so `canonRay v = canonRay w` implies `v ∝ w`; the converse holds for vectors whose
entries are `c·{0, ±1, ±i}` with `c = √2^k ζ^t` (all stabilizer states). -/
def canonRay (v : List Z8) : List Z8 :=
  let w := reduceSqrt2 64 v
  match w.find? (fun z => !isZero z) with
  | none => w
  | some z =>
    match unitExp? z with
    | none => w
    | some t => w.map (mulZetaPow ((8 - t) % 8))

end Z8
end Q1t

/-!
Amplitude and row abstractions shared by the gate, state-vector and exporter models (import-free).

* An amplitude type `α` carries the core algebraic classes (`Zero One Add Mul Neg Sub`) plus the
  extra constants and functions of `Amp α P` (`P` = the type of gate parameters / angles).
  Instances: `CFloat` with `P = Float` (executable, used by the drivers), `Q8` with `P = Empty`
  (exact field ℚ(ζ₈), used for kernel-checked finite statements); in `Q1t/Proofs` any commutative
  *-ring with a trigonometric context.
* A "row" type `R` is what the block routes of the gates act on: `R = α` when a gate is applied to
  a coefficient vector, `R = List α` when it is applied to all columns of a matrix at once.
-/
namespace Q1t

/-- Extra structure on amplitudes that the gate library uses. -/
class Amp (α : Type) (P : Type) where
  /-- the imaginary unit (`COMPLEX_I`) -/
  I : α
  /-- `COMPLEX_HSQRT2` = 1/√2 -/
  hsqrt2 : α
  /-- the real constant 0.5 -/
  half : α
  /-- `from_polar(1, π/4)`, used by the hand-written `T` route -/
  zeta8 : α
  /-- complex conjugation -/
  conj : α → α
  /-- cosine / sine of an angle, embedded as a real amplitude -/
  cos : P → α
  sin : P → α
  /-- `0.5 * θ` -/
  phalf : P → P
  /-- `φ + λ` -/
  padd : P → P → P
  /-- `-θ` -/
  pneg : P → P

/-- Operations on rows: scalar action and additive structure. -/
class RowOps (α : Type) (R : Type) where
  smul : α → R → R
  add : R → R → R
  sub : R → R → R
  neg : R → R

instance selfRowOps {α} [Mul α] [Add α] [Sub α] [Neg α] : RowOps α α where
  smul a r := r * a      -- `slice *= c`
  add := (· + ·)
  sub := (· - ·)
  neg := (- ·)

/-- rows of a matrix: entrywise operations -/
instance listRowOps {α} [Mul α] [Add α] [Sub α] [Neg α] : RowOps α (List α) where
  smul a r := r.map (· * a)
  add := List.zipWith (· + ·)
  sub := List.zipWith (· - ·)
  neg r := r.map (- ·)

namespace Amp
variable {α P : Type} [Zero α] [One α] [Add α] [Mul α] [Neg α] [Sub α] [Amp α P]

/-- `Complex::from_polar(r, θ)` for a real amplitude `r`. -/
def polar (r : α) (θ : P) : α := r * Amp.cos θ + Amp.I P * (r * Amp.sin θ)

end Amp

/-- Dense matrices as lists of rows. -/
abbrev LMat (α : Type) := List (List α)

namespace LMat
variable {α : Type} [Zero α] [One α] [Add α] [Mul α]

def identity (n : Nat) : LMat α :=
  (List.range n).map fun i => (List.range n).map fun j => if i = j then (1 : α) else 0

def get (m : LMat α) (i j : Nat) : α := (m.getD i []).getD j 0

def dot (r : List α) (c : List α) : α := (List.zipWith (· * ·) r c).foldl (· + ·) 0

def transpose (ncols : Nat) (m : LMat α) : LMat α :=
  (List.range ncols).map fun j => m.map fun row => row.getD j 0

def mul (a b : LMat α) : LMat α :=
  let bt := transpose ((b.headD []).length) b
  a.map fun row => bt.map fun col => dot row col

def mulVec (a : LMat α) (v : List α) : List α := a.map fun row => dot row v

/-- `cmatrix::kron_mat` -/
def kron (a b : LMat α) : LMat α :=
  a.flatMap fun ra => b.map fun rb => ra.flatMap fun x => rb.map fun y => y * x

def mapEntries {β} (f : α → β) (m : LMat α) : LMat β := List.map (List.map f) m

end LMat
end Q1t

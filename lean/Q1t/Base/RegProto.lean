import Q1t.Base.Proto
import Q1t.Model.Register
/-! Line-protocol parsing/printing shared by the C08 and C07 drivers (import-free). -/
namespace Q1t.RegProto
open Q1t.Proto Q1t.Bits Q1t.Register

def word? (s : String) : Option Word := (nat? s).map (BitVec.ofNat 64)
def words? (ws : List String) : Option (List Word) := ws.mapM word?
def joinWords (l : List Word) : String := joinNats (l.map BitVec.toNat)

def parseG : String → Option G
  | "X" => some .x | "Y" => some .y | "Z" => some .z | "S" => some .s
  | "CX" => some .cx | "CCX" => some .ccx | "Swap" => some .swap
  | "KronXCX" => some .kxcx | "KronCXX" => some .kcxx
  | "Inc2" => some .inc2 | "Inc3" => some .inc3 | "Inc4" => some .inc4
  | "CInc2" => some .cinc2 | "CInc3" => some .cinc3
  | "KronXInc2" => some .kxinc2 | "KronXInc3" => some .kxinc3
  | "KronInc2X" => some .kinc2x | "KronInc3X" => some .kinc3x
  | "CompXInc3" => some .compxinc3 | "LoopInc3" => some .loopinc3
  | _ => none

/-- split a word list at every `;` -/
def splitSemis (ws : List String) : List (List String) :=
  let rec go (acc : List String) (out : List (List String)) : List String → List (List String)
    | [] => (acc.reverse :: out).reverse
    | w :: rest => if w = ";" then go [] (acc.reverse :: out) rest else go (w :: acc) out rest
  go [] [] ws

def parseOp : List String → Option Op
  | "g" :: g :: bits => do some (.gate (← parseG g) (← nats? bits))
  | "cond" :: rest =>
    match splitSemis rest with
    | [ctl, [t], g :: bits] => do some (.cond (← nats? ctl) (← word? t) (← parseG g) (← nats? bits))
    | _ => none
  | ["m", q, c] => do some (.measure (← nat? q) (← nat? c))
  | "ma" :: cs => do some (.measureAll (← nats? cs))
  | ["p", q, c] => do some (.peek (← nat? q) (← nat? c))
  | "pa" :: cs => do some (.peekAll (← nats? cs))
  | ["r", q] => do some (.reset (← nat? q))
  | ["ra"] => some .resetAll
  | "b" :: bits => do some (.barrier (← nats? bits))
  | _ => none

def parseOps (segs : List (List String)) : Option (List Op) :=
  (segs.filter (· ≠ [])).mapM parseOp

def parseBackend : String → Option Backend
  | "v" => some .vector
  | "s" => some .stabilizer
  | _ => none

def showRes {α} (f : α → String) : Res α → String
  | .ok a => f a
  | .err c p => if p.isEmpty then s!"err {c}" else s!"err {c} {joinNats p}"
  | .panic _ => "panic"

/-- split a word list at every `/` -/
def splitSlashes (ws : List String) : List (List String) :=
  let rec go (acc : List String) (out : List (List String)) : List String → List (List String)
    | [] => (acc.reverse :: out).reverse
    | w :: rest => if w = "/" then go [] (acc.reverse :: out) rest else go (w :: acc) out rest
  go [] [] ws

/-- `k:c` -/
def parsePair (s : String) : Option (String × Nat) :=
  match s.splitOn ":" with
  | [k, c] => (nat? c).map (fun n => (k, n))
  | _ => none

/-- transpose per-shot traces to per-operation register columns -/
def column {α} [Inhabited α] (traces : List (List α)) (i : Nat) : List α := traces.map (fun t => t[i]!)

end Q1t.RegProto

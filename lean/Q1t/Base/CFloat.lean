import Q1t.Base.Amp
/-! Complex numbers over Lean `Float` (IEEE double) — executable only; used by the drivers. -/
namespace Q1t

structure CFloat where
  re : Float
  im : Float
deriving Inhabited

namespace CFloat
instance : Zero CFloat := ⟨⟨0.0, 0.0⟩⟩
instance : One CFloat := ⟨⟨1.0, 0.0⟩⟩
instance : Add CFloat := ⟨fun a b => ⟨a.re + b.re, a.im + b.im⟩⟩
instance : Sub CFloat := ⟨fun a b => ⟨a.re - b.re, a.im - b.im⟩⟩
instance : Neg CFloat := ⟨fun a => ⟨-a.re, -a.im⟩⟩
instance : Mul CFloat := ⟨fun a b => ⟨a.re * b.re - a.im * b.im, a.re * b.im + a.im * b.re⟩⟩

def pi : Float := 3.14159265358979323846
def frac1Sqrt2 : Float := 0.70710678118654752440

instance : Amp CFloat Float where
  I := ⟨0.0, 1.0⟩
  hsqrt2 := ⟨frac1Sqrt2, 0.0⟩
  half := ⟨0.5, 0.0⟩
  zeta8 := ⟨Float.cos (pi / 4), Float.sin (pi / 4)⟩
  conj a := ⟨a.re, -a.im⟩
  cos θ := ⟨Float.cos θ, 0.0⟩
  sin θ := ⟨Float.sin θ, 0.0⟩
  phalf θ := 0.5 * θ
  padd a b := a + b
  pneg a := -a

def normSq (a : CFloat) : Float := a.re * a.re + a.im * a.im
def dist (a b : CFloat) : Float := Float.sqrt (normSq (a - b))

/-- hexadecimal IEEE bit pattern (16 digits), the wire format of floats in the line protocol -/
def hexDigit (n : Nat) : Char := if n < 10 then Char.ofNat (48 + n) else Char.ofNat (87 + n)
def floatToHex (x : Float) : String :=
  let b := x.toBits.toNat
  String.ofList ((List.range 16).map fun i => hexDigit ((b >>> (4 * (15 - i))) % 16))
def hexVal (c : Char) : Option Nat :=
  if '0' ≤ c ∧ c ≤ '9' then some (c.toNat - 48)
  else if 'a' ≤ c ∧ c ≤ 'f' then some (c.toNat - 87)
  else if 'A' ≤ c ∧ c ≤ 'F' then some (c.toNat - 55) else none
def hexToFloat? (s : String) : Option Float :=
  if s.length ≠ 16 then none else
  (s.toList.foldlM (fun acc c => (hexVal c).map (fun d => acc * 16 + d)) 0).map
    (fun n => Float.ofBits (UInt64.ofNat n))

end CFloat
end Q1t

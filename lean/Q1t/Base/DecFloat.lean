/-!
Correctly rounded decimal → IEEE-754 binary64 conversion (import-free, executable, exact `Nat`/`Int`
arithmetic, round-to-nearest-even).  Used where the Rust code calls `str::parse::<f64>()` or casts
`u64 as f64` (both correctly rounded).  Lean's own `Float.ofScientific` truncates twice and is not
correctly rounded in all cases, so it is not used.
-/
namespace Q1t.DecFloat

def posInfBits : UInt64 := 0x7FF0000000000000

/-- Nearest binary64 (ties to even) of the rational `num / den`, `den > 0`; bit pattern, sign 0.
`q` is the significand at binary exponent `e` (value ≈ q·2^e, 2^52 ≤ q < 2^53 for normal numbers,
`e = -1074` and `q < 2^52` for subnormals); the encoding is `(e + 1074)·2^52 + q`. -/
def ratToBits (num den : Nat) : UInt64 :=
  if num = 0 then 0 else
  let e0 : Int := (num.log2 : Int) - (den.log2 : Int) - 52
  -- with e0 the quotient has 52 or 53 bits; make it exactly 53
  let small : Bool :=
    if e0 ≥ 0 then num < den * 2 ^ (e0.toNat + 52) else num * 2 ^ (-e0).toNat < den * 2 ^ 52
  let e1 : Int := if small then e0 - 1 else e0
  let e : Int := if e1 < -1074 then -1074 else e1
  let n' : Nat := if e ≥ 0 then num else num * 2 ^ (-e).toNat
  let d' : Nat := if e ≥ 0 then den * 2 ^ e.toNat else den
  let q := n' / d'
  let r := n' % d'
  let q := if 2 * r > d' || (2 * r == d' && q % 2 == 1) then q + 1 else q
  let enc : Int := (e + 1074) * (2 ^ 52 : Nat) + q
  if enc ≥ (0x7FF0000000000000 : Nat) then posInfBits else UInt64.ofNat enc.toNat

/-- Number of decimal digits of `m` (`0` for `m = 0`). -/
def numDigits (m : Nat) : Nat := if m = 0 then 0 else (Nat.toDigits 10 m).length

/-- Nearest binary64 of `m · 10^e10`. Magnitude guards keep the exact arithmetic small. -/
def decToBits (m : Nat) (e10 : Int) : UInt64 :=
  if m = 0 then 0
  else
    let mag : Int := (numDigits m : Int) + e10      -- 10^(mag-1) ≤ value < 10^mag
    if mag > 310 then posInfBits
    else if mag < -330 then 0
    else if e10 ≥ 0 then ratToBits (m * 10 ^ e10.toNat) 1
    else ratToBits m (10 ^ (-e10).toNat)

def digitVal (c : Char) : Nat := c.toNat - 48

/-- Value of a string of ASCII digits. -/
def digitsToNat (ds : List Char) : Nat := ds.foldl (fun acc c => acc * 10 + digitVal c) 0

def isDigit (c : Char) : Bool := 48 ≤ c.toNat && c.toNat ≤ 57

/-- Bits of the text of a literal of shape `D* [. D*] [(e|E) [+|-] D+]`, as `str::parse::<f64>` reads it. -/
def literalBits (txt : List Char) : UInt64 :=
  let ip := txt.takeWhile isDigit
  let r1 := txt.dropWhile isDigit
  let (fp, r2) := match r1 with
    | '.' :: t => (t.takeWhile isDigit, t.dropWhile isDigit)
    | _ => ([], r1)
  let e10 : Int := match r2 with
    | _ :: '-' :: ds => - (digitsToNat ds : Int)
    | _ :: '+' :: ds => (digitsToNat ds : Int)
    | _ :: ds => (digitsToNat ds : Int)
    | [] => 0
  decToBits (digitsToNat (ip ++ fp)) (e10 - fp.length)

end Q1t.DecFloat

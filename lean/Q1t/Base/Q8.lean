import Q1t.Base.Amp
/-!
The exact field ℚ(ζ₈), ζ₈ = e^{iπ/4}, ζ₈⁴ = −1: elements a + bζ + cζ² + dζ³ with rational
coefficients. Contains i = ζ², 1/√2 = (ζ − ζ³)/2, (1 ± i)/2, e^{±iπ/4}. Decidable equality;
used for kernel-checked (`decide +kernel`) finite statements about constant gates.
-/
namespace Q1t

structure Q8 where
  a : Rat
  b : Rat
  c : Rat
  d : Rat
deriving DecidableEq, Inhabited

namespace Q8
instance : Zero Q8 := ⟨⟨0, 0, 0, 0⟩⟩
instance : One Q8 := ⟨⟨1, 0, 0, 0⟩⟩
instance : Add Q8 := ⟨fun x y => ⟨x.a + y.a, x.b + y.b, x.c + y.c, x.d + y.d⟩⟩
instance : Sub Q8 := ⟨fun x y => ⟨x.a - y.a, x.b - y.b, x.c - y.c, x.d - y.d⟩⟩
instance : Neg Q8 := ⟨fun x => ⟨-x.a, -x.b, -x.c, -x.d⟩⟩
instance : Mul Q8 := ⟨fun x y =>
  ⟨x.a*y.a - x.b*y.d - x.c*y.c - x.d*y.b,
   x.a*y.b + x.b*y.a - x.c*y.d - x.d*y.c,
   x.a*y.c + x.b*y.b + x.c*y.a - x.d*y.d,
   x.a*y.d + x.b*y.c + x.c*y.b + x.d*y.a⟩⟩

/-- complex conjugation: ζ ↦ ζ⁻¹ = −ζ³ -/
def conj (x : Q8) : Q8 := ⟨x.a, -x.d, -x.c, -x.b⟩

instance : Amp Q8 Empty where
  I := ⟨0, 0, 1, 0⟩
  hsqrt2 := ⟨0, 1/2, 0, -1/2⟩
  half := ⟨1/2, 0, 0, 0⟩
  zeta8 := ⟨0, 1, 0, 0⟩
  conj := conj
  cos := Empty.elim
  sin := Empty.elim
  phalf := Empty.elim
  padd := fun a _ => a
  pneg := Empty.elim

end Q8
end Q1t

/-! Line-protocol helpers shared by all drivers (import-free). -/
namespace Q1t.Proto

def words (s : String) : List String :=
  (s.trimAscii.toString.splitOn " ").filter (· ≠ "")

def nat? (s : String) : Option Nat := s.toNat?
def int? (s : String) : Option Int := s.toInt?

def nats? (ws : List String) : Option (List Nat) := ws.mapM nat?
def ints? (ws : List String) : Option (List Int) := ws.mapM int?

/-- Split a word list at the first `|`. -/
def splitBar (ws : List String) : List String × List String :=
  let a := ws.takeWhile (· ≠ "|")
  (a, (ws.dropWhile (· ≠ "|")).drop 1)

/-- Split a word list at every `|`. -/
def splitBars (ws : List String) : List (List String) :=
  let rec go (acc : List String) (out : List (List String)) : List String → List (List String)
    | [] => (acc.reverse :: out).reverse
    | w :: rest => if w = "|" then go [] (acc.reverse :: out) rest else go (w :: acc) out rest
  go [] [] ws

def joinNats (l : List Nat) : String := " ".intercalate (l.map toString)
def joinInts (l : List Int) : String := " ".intercalate (l.map toString)

/-- Read stdin line by line, answer each with `f`. -/
partial def serve (f : String → String) : IO Unit := do
  let stdin ← IO.getStdin
  let stdout ← IO.getStdout
  let rec loop : IO Unit := do
    let line ← stdin.getLine
    if line.isEmpty then return ()
    stdout.putStrLn (f line)
    loop
  loop
  stdout.flush

end Q1t.Proto

/-!
Reference semantics for C07, independent of the code: run-length encoding of the mask inside each old
range; and the per-shot reading of a conditional gate.  Import-free, executable.
-/
namespace Q1t.Spec.Conditional

/-- run-length encoding, current run `(prev, n)` carried along -/
def rleAux : Bool → Nat → List Bool → List (Nat × Bool)
  | prev, n, [] => [(n, prev)]
  | prev, n, b :: bs => if b != prev then (n, prev) :: rleAux b 1 bs else rleAux prev (n + 1) bs

/-- maximal runs of equal values: `(length, value)` -/
def rle : List Bool → List (Nat × Bool)
  | [] => []
  | b :: bs => rleAux b 1 bs

/-- the pieces: for every old range (in order) the maximal runs of its slice of the mask -/
def ranges : List Nat → Nat → List Bool → List (Nat × Nat × Bool)
  | [], _, _ => []
  | c :: cs, icol, mask => (rle (mask.take c)).map (fun nb => (icol, nb.1, nb.2)) ++ ranges cs (icol + 1) (mask.drop c)

/-- the old range every shot belongs to -/
def shotCols : List Nat → Nat → List Nat
  | [], _ => []
  | c :: cs, icol => List.replicate c icol ++ shotCols cs (icol + 1)

/-- per shot: the gate is applied iff the shot's mask bit is set -/
def perShot {σ} (g : σ → σ) (states : List σ) (mask : List Bool) : List σ :=
  List.zipWith (fun s b => if b then g s else s) states mask

end Q1t.Spec.Conditional

/-!
Reference semantics for the bit-level statements of C08/C07, written independently of the code:
a register word is the function `bit index ↦ Bool`; every operation is described by saying what
each bit of the result is.  Import-free and executable (used by the drivers' `spec` mode).
-/
namespace Q1t.Spec.Bits

abbrev Word := BitVec 64

/-- the word whose bits `0..n-1` are `f 0 .. f (n-1)` and whose other bits are 0 -/
def ofBitsUpTo (f : Nat → Bool) : Nat → Word
  | 0 => 0
  | n + 1 => if f n then ofBitsUpTo f n ||| (1#64 <<< n) else ofBitsUpTo f n

/-- the word whose bit `j` is `f j` (`j < 64`) -/
def ofBits (f : Nat → Bool) : Word := ofBitsUpTo f 64

/-- writing value `v` to bit `c`: bit `c` becomes `v`, every other bit keeps its value -/
def write (w : Word) (c : Nat) (v : Bool) : Word :=
  ofBits (fun j => if j = c then v else w.getLsbD j)

/-- the lowest `n` bits in reverse order, higher bits lost -/
def reverse (idx : Word) (n : Nat) : Word :=
  ofBits (fun j => decide (j < n) && idx.getLsbD (n - 1 - j))

/-- bit `i` of `idx` goes to position `bits[i]`; positions named several times receive the OR,
positions not named are 0 -/
def shuffle (idx : Word) (bits : List Nat) : Word :=
  ofBits (fun j => (List.range bits.length).any (fun i => bits[i]? == some j && idx.getLsbD i))

/-- "qubit `i` goes to the `i`-th listed bit", one write after the other (a later write to the same
bit replaces the earlier one); `outcome i` is the value measured for qubit `i` -/
def writeAll (outcome : Nat → Bool) : List Nat → Nat → Word → Word
  | [], _, w => w
  | c :: cs, q, w => writeAll outcome cs (q + 1) (write w c (outcome q))

/-- the word spelt by the selected bits: bit `j` is bit `control[j]` of `w` (first listed = least
significant), bits beyond the list are 0 -/
def select (control : List Nat) (w : Word) : Word :=
  ofBits (fun j => match control[j]? with | some c => w.getLsbD c | none => false)

end Q1t.Spec.Bits
